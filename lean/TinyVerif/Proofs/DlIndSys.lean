import TinyVerif.Proofs.DlIndSeg
import TinyVerif.Proofs.DlIndFree2
/-!
# The functions that change the segment list / talk to the OS (tag `sg_`)

`sg_sys_alloc_spec : sys_alloc_Spec` (the mmap contract `OsOk` includes page alignment: `segsOk` of a new
segment needs it), `sg_release_unused_segments_spec`, `sg_sys_trim_spec` of `DlIndSpec.lean`.

Branches: `sg_place_init` (`sys-init`), `sg_extend` (`sys-extend`), `sg_add_segment` (`sys-addseg`, both
`addseg-oldtop-binned` and `-consumed`), `sg_prepend_spec` (`sys-prepend`: the extended segment with a fictitious
in-use remainder `Q` — `sg_prepend_mid` — followed by freeing `Q`, which is `fr_core` of `DlIndFree2.lean`; `SgAbs`
relates the real heap to the one containing `Q`), `sg_top_split` (common tail), `sg_trim_top`, `sg_releaseLoop`.
Non-vacuity examples for every branch and the kernel-checked reason for `TailOk` (`sg_tailOk_needed`) at the end.
-/
namespace TinyVerif.Dl

/-- the size of the mapping: a multiple of the granularity with room for the request, the foot and alignment -/
theorem sg_sysLen {nb : Nat} (hnb : NbOk nb) : sysLen nb % 65536 = 0 ∧ nb + 96 ≤ sysLen nb ∧ sysLen nb < nb + 96 + 65536 := by
  obtain ⟨_, _, h3⟩ := hnb
  unfold sysLen
  rw [top_foot_size_eq, MALLOC_ALIGNMENT_eq, DEFAULT_GRANULARITY_eq, align_up_64k _ (by omega)]
  omega

/-! ## `sys-init`: first initialisation -/

/-- a state whose `top` is null has no segment, no header, nothing free -/
theorem sg_empty_of_top0 {s : St} (w : WFS s) (ht : s.h.top = 0) :
    s.segs = [] ∧ s.h.ents = [] ∧ s.h.dv = 0 ∧ s.h.dvsize = 0 ∧ binned s.h = [] := by
  have htop := w.top
  unfold topOk at htop
  cases hs : s.segs with
  | cons g rest =>
    rw [hs] at htop
    simp only [Bool.and_eq_true, decide_eq_true_eq] at htop
    exact absurd ht htop.1.1.1.1.1.1
  | nil =>
    rw [hs] at htop
    simp only [Bool.and_eq_true, decide_eq_true_eq, List.isEmpty_iff] at htop
    have hents : s.h.ents = [] := htop.1.1.2
    have hfl := ((freeListOk_iff s.h).1 w.freeList).2.2
    rw [hents] at hfl
    have hnil : Dl.freeList s.h = [] := by
      cases hl : Dl.freeList s.h with
      | nil => rfl
      | cons a l =>
        have := hfl a (by rw [hl]; exact List.mem_cons_self)
        simp [isFreeAt, findEnt] at this
    unfold Dl.freeList at hnil
    rw [if_pos ht] at hnil
    simp only [List.nil_append, List.append_eq_nil_iff] at hnil
    have hdv : s.h.dv = 0 := by
      by_cases h0 : s.h.dv = 0
      · exact h0
      · rw [if_neg h0] at hnil; exact absurd hnil.1 (by simp)
    have hd := w.dv
    unfold dvOk at hd
    rw [if_pos hdv] at hd
    exact ⟨rfl, hents, hdv, by simpa using hd, hnil.2⟩

/-- the state after the first `init_top`: one segment, `top` filling it, the foot word -/
theorem sg_init_sinv {s s3 : St} (w : WFS s) (hbin : binned s.h = []) {tbase tsize : Nat}
    (hb : tbase % 4096 = 0) (hpos : 0 < tbase) (hend : tbase + tsize ≤ 2 ^ 64) (hts : tsize % 4096 = 0)
    (hts2 : 96 ≤ tsize)
    (hents : s3.h.ents = [{ addr := tbase, size := tsize - 80, cin := false, pin := true, pfoot := 0 },
      { addr := tbase + (tsize - 80), size := 80, cin := false, pin := false, pfoot := 0 }])
    (hsb : s3.h.sbins = s.h.sbins) (htb : s3.h.tbins = s.h.tbins) (hdv : s3.h.dv = 0) (hdvs : s3.h.dvsize = 0)
    (htop : s3.h.top = tbase) (htops : s3.h.topsize = tsize - 80)
    (hsegs : s3.segs = [{ base := tbase, size := tsize, recAt := 0 }]) (hla : s3.least_addr ≤ tbase) :
    SInv s3 := by
  have hbinned : binned s3.h = [] := by rw [binned_congr hsb htb]; exact hbin
  have hfl : Dl.freeList s3.h = [tbase] := by
    unfold Dl.freeList
    rw [hbinned, htop, hdv, if_neg (by omega)]; rfl
  have hfr : ∀ a ∈ binned s.h, findEnt s3.h.ents a = findEnt s.h.ents a := by
    intro a ha; rw [hbin] at ha; cases ha
  refine ⟨⟨?_, ?_, ?_, ?_, ?_, ?_, ?_, ?_, ?_, ?_, ?_⟩, ?_, ?_, ?_, ?_, ?_⟩
  · rw [hents]; simp only [entsOk, Bool.and_eq_true, decide_eq_true_eq]; omega
  · rw [hents]
    simp only [shapeOk, List.all_cons, List.all_nil, Bool.and_true, Bool.and_eq_true, Bool.or_eq_true,
      decide_eq_true_eq]
    exact ⟨Or.inr ⟨⟨by omega, by omega⟩, by omega⟩, Or.inr ⟨⟨by omega, trivial⟩, by omega⟩⟩
  · rw [hents, hsegs]
    simp only [List.all_cons, List.all_nil, List.any_cons, List.any_nil, inSeg, Bool.and_true, Bool.or_false,
      Bool.and_eq_true, decide_eq_true_eq]
    omega
  · rw [hents, hsegs]
    have h1 : inSeg { base := tbase, size := tsize, recAt := 0 }
        { addr := tbase, size := tsize - 80, cin := false, pin := true, pfoot := 0 } = true := by
      rw [inSeg_iff]; simp only; omega
    have h2 : inSeg { base := tbase, size := tsize, recAt := 0 }
        { addr := tbase + (tsize - 80), size := 80, cin := false, pin := false, pfoot := 0 } = true := by
      rw [inSeg_iff]; simp only; omega
    simp only [List.all_cons, List.all_nil, Bool.and_true, segEnts, List.filter, h1, h2, tiles, isTrailerEnd,
      Bool.and_eq_true, Bool.or_eq_true, decide_eq_true_eq]
    sg_omega
  · rw [hents, hsegs, htop]
    have h1 : inSeg { base := tbase, size := tsize, recAt := 0 }
        { addr := tbase, size := tsize - 80, cin := false, pin := true, pfoot := 0 } = true := by
      rw [inSeg_iff]; simp only; omega
    have h2 : inSeg { base := tbase, size := tsize, recAt := 0 }
        { addr := tbase + (tsize - 80), size := 80, cin := false, pin := false, pfoot := 0 } = true := by
      rw [inSeg_iff]; simp only; omega
    simp [segEnts, List.filter, h1, h2, tagsOk, isFree]
  · rw [freeListOk_iff, hfl, hents]
    refine ⟨by simp, ?_, ?_⟩
    · intro e he hf
      simp only [List.mem_cons, List.not_mem_nil, or_false] at he
      rcases he with rfl | rfl
      · simp
      · simp [isFree] at hf
    · intro a ha
      simp only [List.mem_cons, List.not_mem_nil, or_false] at ha
      subst ha
      simp [isFreeAt, findEnt, isFree]
  · rw [hsb, (bins_frame hfr).1]; exact w.sbins
  · rw [htb, (bins_frame hfr).2]; exact w.tbins
  · unfold dvOk; rw [if_pos hdv, hdvs]; rfl
  · unfold topOk
    rw [hsegs, htop, htops, hents]
    simp only [findEnt, if_true, top_foot_size_eq]
    rw [if_neg (by omega)]
    simp only [if_true, isFree, Bool.and_eq_true, decide_eq_true_eq, Bool.not_eq_true', Bool.not_false]
    sg_omega
  · unfold segsOk
    rw [hsegs]
    simp only [segsDisjoint, List.all_nil, List.all_cons, Bool.and_true, Bool.and_eq_true, decide_eq_true_eq,
      top_foot_size_eq]
    sg_omega
  · intro g hg hne
    rw [hsegs, List.mem_singleton] at hg
    subst hg; exact absurd rfl hne
  · intro pre x y post hes h8 _
    have hy : y ∈ s3.h.ents := by rw [hes]; simp
    rw [hents] at hy
    simp only [List.mem_cons, List.not_mem_nil, or_false] at hy
    rcases hy with rfl | rfl <;> simp only at h8 <;> omega
  · intro g hg hne
    rw [hsegs, List.mem_singleton] at hg
    subst hg; exact absurd rfl hne
  · intro g _ e he _ h8
    rw [hents] at he
    simp only [List.mem_cons, List.not_mem_nil, or_false] at he
    rcases he with rfl | rfl <;> simp only at h8 <;> omega
  · intro g hg hne
    rw [hsegs, List.mem_singleton] at hg
    subst hg; exact absurd rfl hne

/-- the state `sys_alloc_place` runs on: `s` after `popM` and the footprint update -/
def SgPlace (s s0 : St) : Prop :=
  ∃ q ev fp mf, s0 = { s with osq := q, evs := ev, footprint := fp, maxfp := mf }

/-- what is known about the fresh mapping -/
structure SgFresh (s : St) (tbase tsize : Nat) : Prop where
  fresh : OsFresh s tbase tsize
  page : tbase % 4096 = 0
  gran : tsize % 65536 = 0

theorem sg_place_init {s s0 : St} (hi : SInv s) (hp : SgPlace s s0) {tbase tsize nb : Nat} (hf : SgFresh s tbase tsize)
    (hsz : 96 ≤ tsize) (ht0 : s.h.top = 0) {r : Sum St (St × Nat)}
    (h : sys_alloc_place s0 tbase tsize nb = .ok r) : ∃ s1, r = .inl s1 ∧ SInv s1 ∧ SameUsers s s1 := by
  obtain ⟨q0, ev0, fp0, mf0, rfl⟩ := hp
  obtain ⟨hnil, hents, hdv, hdvs, hbin⟩ := sg_empty_of_top0 hi.wfs ht0
  obtain ⟨_, hpos, hend, _⟩ := hf.fresh
  unfold sys_alloc_place at h
  dsimp only at h
  rw [if_pos (by exact ht0)] at h
  simp only [top_foot_size_eq] at h
  msimp at h
  obtain ⟨_, _, _, _, s3, hinit, hr⟩ := h
  obtain ⟨h1, h2, e1, e2, hs3⟩ := sg_init_top_ok hinit (by have := hf.page; omega) (by omega)
  have r1 := writeHead_window_ok e1 (pre := []) (ms := []) (post := [])
    (by show s.h.ents = _; rw [hents]; rfl) (by simp) (by simp) (by simp)
  have hpf1 : pfootAt s.h.ents tbase = 0 := pfootAt_none (by rw [hents]; rfl)
  dsimp only at r1
  rw [hpf1] at r1
  subst r1
  have r2 := writeHead_window_ok e2
    (pre := [{ addr := tbase, size := tsize - 80, cin := false, pin := true, pfoot := 0 }]) (ms := []) (post := [])
    (by simp) (by simp; omega) (by simp) (by simp)
  have hpf2 : pfootAt [({ addr := tbase, size := tsize - 80, cin := false, pin := true, pfoot := 0 } : Ent)]
      (tbase + (tsize - 80)) = 0 := by
    apply pfootAt_none
    simp only [findEnt]
    rw [if_neg (by omega)]
  dsimp only at r2
  simp only [List.nil_append] at r2
  rw [hpf2] at r2
  subst r2
  subst hs3
  subst hr
  refine ⟨_, rfl, ?_, ?_⟩
  · refine sg_init_sinv hi.wfs hbin hf.page hpos hend (by have := hf.gran; omega) hsz ?_ ?_ ?_ ?_ ?_ ?_ ?_ ?_ ?_
    · rfl
    · rfl
    · rfl
    · exact hdv
    · exact hdvs
    · rfl
    · rfl
    · rfl
    · show (if _ then _ else _) ≤ tbase
      split
      · omega
      · rename_i hc
        simp only [Bool.or_eq_true, decide_eq_true_eq, not_or, Nat.not_lt] at hc
        exact hc.2
  · intro a z
    constructor
    · rintro ⟨e, he, hc, _⟩
      have hm := (findEnt_some he).1
      change e ∈ [_, _] at hm
      simp only [List.mem_cons, List.not_mem_nil, or_false] at hm
      rcases hm with rfl | rfl <;> cases hc
    · rintro ⟨e, he, _⟩
      rw [hents] at he
      cases he

/-- what a branch of `sys_alloc_place` must deliver -/
def SgPlaceRes (s : St) (nb : Nat) : Sum St (St × Nat) → Prop
  | .inl s1 => SInv s1 ∧ SameUsers s s1
  | .inr (s', mem) => SInv s' ∧ mem ≠ 0 ∧ Alloc s s' nb mem

/-- interface of the middle of `sys_alloc` (all four branches) -/
def sg_place_Spec : Prop :=
  ∀ {s s0 : St} (_ : SInv s) (_ : SgPlace s s0) {tbase tsize nb : Nat} (_ : SgFresh s tbase tsize) (_ : NbOk nb)
    (_ : nb + 96 ≤ tsize) {r : Sum St (St × Nat)}, sys_alloc_place s0 tbase tsize nb = .ok r → SgPlaceRes s nb r

/-- `sys_alloc` from its middle part: the OS call, the footprint update, the common tail -/
theorem sg_sys_alloc_of_place (hpl : sg_place_Spec) : sys_alloc_Spec := by
  intro s s' hi nb mem hnb hos h
  unfold sys_alloc at h
  dsimp only at h
  msimp at h
  obtain ⟨⟨res, s1⟩, hp, h⟩ := h
  obtain ⟨q, hq, hs1⟩ := popM_spec hp
  dsimp only at h
  split at h
  · -- the OS refused
    msimp at h
    simp only [Prod.mk.injEq] at h
    obtain ⟨h, hm⟩ := h
    subst h; subst hs1; subst hm
    exact ⟨sg_sinv_same hi ⟨rfl, rfl, rfl, rfl, rfl, rfl, rfl⟩ rfl rfl (fun _ => rfl), fun h => absurd rfl h,
      fun _ => sg_sameUsers_of_eq rfl rfl⟩
  · rename_i tbase
    obtain ⟨hfresh, hpage⟩ := hos tbase q hq
    obtain ⟨l1, l2, _⟩ := sg_sysLen hnb
    msimp at h
    obtain ⟨r, hr, h⟩ := h
    subst hs1
    have hres : SgPlaceRes s nb r := by
      refine hpl hi ?_ ?_ hnb ?_ hr
      · exact ⟨_, _, _, _, rfl⟩
      · exact ⟨hfresh, hpage, l1⟩
      · exact l2
    cases r with
    | inr r =>
      obtain ⟨s2, m2⟩ := r
      dsimp only at h
      msimp at h
      simp only [Prod.mk.injEq] at h
      obtain ⟨e1, e2⟩ := h
      subst e1; subst e2
      obtain ⟨r1, r2, r3⟩ := hres
      exact ⟨r1, fun _ => r3, fun h0 => absurd h0 r2⟩
    | inl s2 =>
      obtain ⟨r1, r2⟩ := hres
      dsimp only at h
      split at h
      · rename_i hlt
        msimp at h
        obtain ⟨h1, e1, h2, e2, h⟩ := h
        simp only [Prod.mk.injEq] at h
        obtain ⟨e3, e4⟩ := h
        subst e3; subst e4
        obtain ⟨t1, t2⟩ := sg_top_split r1 hnb.1 hnb.2.1 hlt e1 e2
        rw [MEM_OFFSET_eq]
        exact ⟨t1, fun _ => sg_alloc_of_same r2 t2, fun h0 => by omega⟩
      · msimp at h
        simp only [Prod.mk.injEq] at h
        obtain ⟨e3, e4⟩ := h
        subst e3; subst e4
        exact ⟨sg_sinv_tag r1 _, fun h0 => absurd rfl h0, fun _ => sg_sameUsers_trans r2 (sg_sameUsers_tag _ _)⟩

theorem sg_replaceSeg_head (g new : Seg) (rest : List Seg) : replaceSeg (g :: rest) g new = new :: rest := by
  simp [replaceSeg]

/-- `sys-extend`: the fresh mapping starts where the segment holding `top` ends -/
theorem sg_extend {s : St} (hi : SInv s) {tbase tsize : Nat} (hf : SgFresh s tbase tsize)
    (hsz : 96 ≤ tsize) {sp : Seg} (hsp : sp ∈ s.segs) (hspt : sp.top = tbase) (hsph : sp.holds s.h.top = true)
    {q0 : List OsDir} {ev0 : List OsEv} {fp0 mf0 : Nat} {s3 : St}
    (hinit : init_top { s with osq := q0, evs := ev0, footprint := fp0, maxfp := mf0,
                               segs := replaceSeg s.segs sp { sp with size := sp.size + tsize } }
        s.h.top (s.h.topsize + tsize) = .ok s3) :
    SInv s3 ∧ SameUsers s s3 := by
  have w := hi.wfs
  obtain ⟨g0, rest, pre, x, f, post, hsegs, hes, hxa, hxf, hxs, hfa, hfc, hfp, hfs, hgb, hgt, htop0, hgx, hgf⟩ :=
    w.top_parts (w.topsize_ne hsp)
  have hg0 : g0 ∈ s.segs := by rw [hsegs]; exact List.mem_cons_self
  obtain ⟨d1, d2, d3⟩ := sg_segsOk_cons w.segs hsegs
  have hd0 := d3 g0 List.mem_cons_self
  obtain ⟨_, hpos, hend, hfr⟩ := hf.fresh
  -- the segment found is the head segment
  have hspx : inSeg sp x = true := by
    unfold Seg.holds Seg.top at hsph
    simp only [Bool.and_eq_true, decide_eq_true_eq] at hsph
    rw [inSeg_iff]; omega
  have : sp = g0 := sg_seg_unique w.segsDisjoint hsp hg0 hspx hgx
  subst this
  unfold Seg.top at hspt
  rw [hsegs, sg_replaceSeg_head] at hinit
  have hxm : x ∈ s.h.ents := by rw [hes]; simp
  obtain ⟨hxc, hxp⟩ := isFree_iff.1 hxf
  obtain ⟨hx16, hxs16, hxs16'⟩ := shapeOk_free w.shape hxm hxc
  have hok := w.ents
  rw [hes] at hok
  have hok2 : entsOk (pre ++ x :: f :: post) = true := by simpa using hok
  obtain ⟨o1, o2, o3, o4, o5⟩ := entsOk_mid2 hok2
  have hpostfresh : ∀ q ∈ post, tbase + tsize ≤ q.addr := by
    intro q hq
    have h1 := o5 q hq
    have hqm : q ∈ s.h.ents := by rw [hes]; simp [hq]
    have := entsOk_pos w.ents q hqm
    rcases sg_fresh_ents w hfr q hqm with h | h <;> omega
  obtain ⟨h1, h2, e1, e2, hs3⟩ := sg_init_top_ok hinit (by omega) (by omega)
  have r1 := writeHead_window_ok e1 (pre := pre) (ms := [x, f]) (post := post)
    (by show s.h.ents = _; rw [hes]; simp)
    (by intro q hq; have := o1 q hq; omega)
    (by
      intro m hm
      simp only [List.mem_cons, List.not_mem_nil, or_false] at hm
      rcases hm with rfl | rfl <;> omega)
    (by intro q hq; have := hpostfresh q hq; omega)
  have hpf1 : pfootAt s.h.ents s.h.top = x.pfoot := by
    apply pfootAt_some; rw [← hxa]; exact entsOk_find x hxm w.ents
  dsimp only at r1
  rw [hpf1] at r1
  subst r1
  have r2 := writeHead_window_ok e2
    (pre := pre ++ [{ addr := s.h.top, size := s.h.topsize + tsize, cin := false, pin := true, pfoot := x.pfoot }])
    (ms := []) (post := post)
    (by simp)
    (by
      intro q hq
      rcases List.mem_append.1 hq with hq | hq
      · have := o1 q hq; omega
      · simp only [List.mem_singleton] at hq; subst hq; simp only; omega)
    (by simp)
    (by intro q hq; have := hpostfresh q hq; omega)
  dsimp only at r2
  generalize pfootAt _ (s.h.top + (s.h.topsize + tsize)) = pf at r2
  subst r2
  subst hs3
  refine sg_retop hi (pre := pre) (post := post) (x := x) (f := f) (n := s.h.topsize + tsize)
    (newsize := sp.size + tsize) hsegs (by rw [hes]; simp) hxa hxf hxs hfa hfc hfp hfs hgb hgt
    (x' := { addr := s.h.top, size := s.h.topsize + tsize, cin := false, pin := true, pfoot := x.pfoot })
    (f' := { addr := s.h.top + (s.h.topsize + tsize), size := 80, cin := false, pin := false, pfoot := pf })
    (by simp) rfl rfl rfl rfl rfl rfl rfl rfl rfl (by have := hf.gran; omega) (by omega) (by omega)
    (by have := hf.gran; omega) (by omega) ?_ (by intro q hq; have := hpostfresh q hq; omega)
    rfl rfl rfl rfl rfl rfl rfl
  intro g hg
  have := d3 g (List.mem_cons_of_mem _ hg)
  have hgm : g ∈ s.segs := by rw [hsegs]; exact List.mem_cons_of_mem _ hg
  rcases d1 g hg with h | h
  · rcases hfr g hgm with h' | h'
    · left; omega
    · omega
  · right; exact h

/-! ## `trim_top`, `sys_trim` -/

/-- `trim_release` only talks to the OS; it reports `extra` or nothing -/
theorem sg_trim_release_eq {s s1 : St} {sp : Seg} {extra rel : Nat} (h : trim_release s sp extra = .ok (s1, rel)) :
    (∃ q ev, s1 = { s with osq := q, evs := ev }) ∧ (rel = extra ∨ rel = 0) := by
  unfold trim_release at h
  dsimp only at h
  split at h
  · msimp at h
    obtain ⟨⟨ok, s2⟩, hr, h⟩ := h
    obtain ⟨q, hq, hs2⟩ := popR_spec hr
    dsimp only at h
    split at h
    · msimp at h
      simp only [Prod.mk.injEq] at h
      obtain ⟨e1, e2⟩ := h
      subst e1; subst e2; subst hs2
      exact ⟨⟨_, _, rfl⟩, Or.inl rfl⟩
    · msimp at h
      obtain ⟨⟨ok2, s3⟩, hu, h⟩ := h
      obtain ⟨q2, hq2, hs3⟩ := popU_spec hu
      simp only [Prod.mk.injEq] at h
      obtain ⟨e1, e2⟩ := h
      subst e1; subst e2; subst hs3; subst hs2
      refine ⟨⟨_, _, rfl⟩, ?_⟩
      cases ok2
      · exact Or.inr rfl
      · exact Or.inl rfl
  · msimp at h
    simp only [Prod.mk.injEq] at h
    obtain ⟨e1, e2⟩ := h
    subst e1; subst e2
    exact ⟨⟨s.osq, s.evs, rfl⟩, Or.inr rfl⟩

/-- the amount `trim_top` tries to give back leaves more than `pad` bytes in `top` -/
theorem sg_trim_extra {topsize pad : Nat} (h : topsize > pad) :
    ((topsize - pad + DEFAULT_GRANULARITY - 1) / DEFAULT_GRANULARITY - 1) * DEFAULT_GRANULARITY + pad < topsize ∧
    (((topsize - pad + DEFAULT_GRANULARITY - 1) / DEFAULT_GRANULARITY - 1) * DEFAULT_GRANULARITY) % 65536 = 0 := by
  rw [DEFAULT_GRANULARITY_eq]
  omega

theorem sg_dropEnts_foot {pre post : List Ent} {x f : Ent} {lo hi : Nat}
    (hpre : ∀ q ∈ pre, q.addr < lo) (hx : x.addr < lo) (hf : lo ≤ f.addr ∧ f.addr < hi) (hpost : ∀ q ∈ post, hi ≤ q.addr) :
    (pre ++ [x, f] ++ post).filter (fun e => !(decide (lo ≤ e.addr) && decide (e.addr < hi))) = pre ++ [x] ++ post := by
  rw [List.filter_append, List.filter_append]
  have h1 : pre.filter (fun e => !(decide (lo ≤ e.addr) && decide (e.addr < hi))) = pre := by
    apply List.filter_eq_self.2
    intro q hq
    have := hpre q hq
    simp only [Bool.not_eq_true', Bool.and_eq_false_iff, decide_eq_false_iff_not]
    left; omega
  have h2 : post.filter (fun e => !(decide (lo ≤ e.addr) && decide (e.addr < hi))) = post := by
    apply List.filter_eq_self.2
    intro q hq
    have := hpost q hq
    simp only [Bool.not_eq_true', Bool.and_eq_false_iff, decide_eq_false_iff_not]
    right; omega
  rw [h1, h2]
  congr 2
  have c1 : (!(decide (lo ≤ x.addr) && decide (x.addr < hi))) = true := by
    simp only [Bool.not_eq_true', Bool.and_eq_false_iff, decide_eq_false_iff_not]
    left; omega
  have c2 : (!(decide (lo ≤ f.addr) && decide (f.addr < hi))) = false := by
    simp only [Bool.not_eq_false', Bool.and_eq_true, decide_eq_true_eq]
    exact hf
  simp [List.filter, c1, c2]

theorem sg_segment_holding {segs : List Seg} {a : Nat} {sp : Seg} (h : segment_holding segs a = some sp) :
    sp ∈ segs ∧ sp.holds a = true := by
  unfold segment_holding at h
  have := List.find?_some h
  exact ⟨find?_mem h, this⟩

/-- **`trim_top`** keeps the invariant and the user chunks -/
theorem sg_trim_top {s s' : St} (hi : SInv s) {pad rel : Nat} (h : trim_top s pad = .ok (s', rel)) :
    SInv s' ∧ SameUsers s s' := by
  have w := hi.wfs
  unfold trim_top at h
  dsimp only at h
  split at h
  · rename_i hgt0
    split at h
    · msimp at h
    · rename_i sp hsh
      obtain ⟨hsp, hsph⟩ := sg_segment_holding hsh
      msimp at h
      obtain ⟨⟨s1, r1⟩, ht, h⟩ := h
      obtain ⟨⟨q1, ev1, hs1⟩, hrel⟩ := sg_trim_release_eq ht
      obtain ⟨_, _, _, _, _, hle⟩ := trim_release_spec ht
      subst hs1
      dsimp only at h
      split at h
      · rename_i hne
        have hr1 : r1 = ((s.h.topsize - pad + DEFAULT_GRANULARITY - 1) / DEFAULT_GRANULARITY - 1) * DEFAULT_GRANULARITY := by
          rcases hrel with h1 | h1
          · exact h1
          · exact absurd h1 hne
        obtain ⟨x1, x2⟩ := sg_trim_extra hgt0
        rw [← hr1] at x1 x2
        msimp at h
        obtain ⟨_, _, s3, hinit, h⟩ := h
        simp only [Prod.mk.injEq] at h
        obtain ⟨h, _⟩ := h
        subst h
        obtain ⟨g0, rest, pre, x, f, post, hsegs, hes, hxa, hxf, hxs, hfa, hfc, hfp, hfs, hgb, hgt, htop0, hgx, hgf⟩ :=
          w.top_parts (w.topsize_ne hsp)
        have hg0 : g0 ∈ s.segs := by rw [hsegs]; exact List.mem_cons_self
        obtain ⟨d1, d2, d3⟩ := sg_segsOk_cons w.segs hsegs
        have hd0 := d3 g0 List.mem_cons_self
        have hspx : inSeg sp x = true := by
          unfold Seg.holds Seg.top at hsph
          simp only [Bool.and_eq_true, decide_eq_true_eq] at hsph
          rw [inSeg_iff]; omega
        have : sp = g0 := sg_seg_unique w.segsDisjoint hsp hg0 hspx hgx
        subst this
        have hxm : x ∈ s.h.ents := by rw [hes]; simp
        obtain ⟨hxc, hxp⟩ := isFree_iff.1 hxf
        obtain ⟨hx16, hxs16, hxs16'⟩ := shapeOk_free w.shape hxm hxc
        have hok := w.ents
        rw [hes] at hok
        obtain ⟨o1, o2, o3, o4, o5⟩ := entsOk_mid2 hok
        -- the table after `dropEnts`
        have hdrop : (dropEnts s.h (sp.top - r1) sp.top).ents = pre ++ [x] ++ post := by
          unfold dropEnts Seg.top
          show s.h.ents.filter _ = _
          rw [hes, show pre ++ x :: f :: post = pre ++ [x, f] ++ post by simp]
          refine sg_dropEnts_foot ?_ (by omega) (by omega) ?_
          · intro q hq; have := o1 q hq; omega
          · intro q hq; have := o5 q hq; omega
        rw [hsegs, sg_replaceSeg_head] at hinit
        simp only [show ∀ a b, (dropEnts s.h a b).top = s.h.top from fun _ _ => rfl,
          show ∀ a b, (dropEnts s.h a b).topsize = s.h.topsize from fun _ _ => rfl] at hinit
        obtain ⟨h1, h2, e1, e2, hs3⟩ := sg_init_top_ok hinit (by show s.h.top % 16 = 0; omega) (by show s.h.top + 32 ≤ _; omega)
        have r1' := writeHead_window_ok e1 (pre := pre) (ms := [x]) (post := post)
          (by exact hdrop)
          (by intro q hq; have := o1 q hq; show q.addr < s.h.top; omega)
          (by
            intro m hm
            simp only [List.mem_singleton] at hm
            subst hm
            show s.h.top ≤ m.addr ∧ (m.addr = s.h.top ∨ m.addr < s.h.top + (s.h.topsize - r1)); omega)
          (by intro q hq; have := o5 q hq; show s.h.top < q.addr ∧ s.h.top + (s.h.topsize - r1) ≤ q.addr; omega)
        have hpf1 : pfootAt (pre ++ [x] ++ post) s.h.top = x.pfoot := by
          apply pfootAt_some
          rw [List.append_assoc, findEnt_skip (fun q hq => by have := o1 q hq; omega), ← hxa]
          exact findEnt_head
        dsimp only at r1'
        rw [hdrop, hpf1] at r1'
        subst r1'
        have r2 := writeHead_window_ok e2
          (pre := pre ++ [{ addr := s.h.top, size := s.h.topsize - r1, cin := false, pin := true, pfoot := x.pfoot }])
          (ms := []) (post := post)
          (by simp)
          (by
            intro q hq
            rcases List.mem_append.1 hq with hq | hq
            · have := o1 q hq; show q.addr < s.h.top + (s.h.topsize - r1); omega
            · simp only [List.mem_singleton] at hq; subst hq; show s.h.top < s.h.top + (s.h.topsize - r1); omega)
          (by simp)
          (by
            intro q hq; have := o5 q hq
            show s.h.top + (s.h.topsize - r1) < q.addr ∧ s.h.top + (s.h.topsize - r1) + 80 ≤ q.addr; omega)
        dsimp only at r2
        generalize pfootAt _ (s.h.top + (s.h.topsize - r1)) = pf at r2
        subst r2
        subst hs3
        have hr1le := hle hne
        refine sg_retop hi (pre := pre) (post := post) (x := x) (f := f) (n := s.h.topsize - r1)
          (newsize := sp.size - r1) hsegs (by rw [hes]; simp) hxa hxf hxs hfa hfc hfp hfs hgb hgt
          (x' := { addr := s.h.top, size := s.h.topsize - r1, cin := false, pin := true, pfoot := x.pfoot })
          (f' := { addr := s.h.top + (s.h.topsize - r1), size := 80, cin := false, pin := false, pfoot := pf })
          (by simp [St.tag, Heap.tag]) rfl rfl rfl rfl rfl rfl rfl rfl rfl (by omega) (by omega) (by omega)
          (by omega) (by omega) ?_ (by intro q hq; have := o5 q hq; omega)
          rfl rfl rfl rfl rfl rfl rfl
        intro g hg
        rcases d1 g hg with h | h
        · left; omega
        · right; exact h
      · msimp at h
        simp only [Prod.mk.injEq] at h
        obtain ⟨h, _⟩ := h
        subst h
        exact ⟨sg_sinv_same hi ⟨rfl, rfl, rfl, rfl, rfl, rfl, rfl⟩ rfl rfl (fun _ => rfl), sg_sameUsers_of_eq rfl rfl⟩
  · msimp at h
    simp only [Prod.mk.injEq] at h
    obtain ⟨h, _⟩ := h
    subst h
    exact ⟨hi, fun _ _ => Iff.rfl⟩

/-- **`sys_trim`**, given `release_unused_segments` -/
theorem sg_sys_trim_of_release (hrel : release_unused_segments_Spec) : sys_trim_Spec := by
  intro s s' hi pad b h
  unfold sys_trim at h
  dsimp only at h
  split at h
  · msimp at h
    obtain ⟨⟨s1, r1⟩, h1, ⟨s2, r2⟩, h2, h⟩ := h
    simp only [Prod.mk.injEq] at h
    obtain ⟨h, _⟩ := h
    subst h
    obtain ⟨i1, u1⟩ := sg_trim_top hi h1
    obtain ⟨i2, u2⟩ := hrel i1 h2
    split
    · exact ⟨sg_sinv_same i2 ⟨rfl, rfl, rfl, rfl, rfl, rfl, rfl⟩ rfl rfl (fun _ => rfl),
        sg_sameUsers_trans u1 (sg_sameUsers_trans u2 (sg_sameUsers_of_eq rfl rfl))⟩
    · exact ⟨i2, sg_sameUsers_trans u1 u2⟩
  · msimp at h
    simp only [Prod.mk.injEq] at h
    obtain ⟨h, _⟩ := h
    subst h
    exact ⟨hi, fun _ _ => Iff.rfl⟩

/-! ## `releaseLoop`, `release_unused_segments` -/

/-- only the free lists changed (same headers, same `top`, same segments): the invariant follows from the four
conjuncts that read the bins -/
theorem sg_sinv_bins {V V' : St} (hi : SInv V) (hne : V.segs ≠ []) (he : V'.h.ents = V.h.ents)
    (hsegs : V'.segs = V.segs) (htop : V'.h.top = V.h.top) (htops : V'.h.topsize = V.h.topsize)
    (hla : V'.least_addr = V.least_addr)
    (hfl : freeListOk V'.h = true) (hsb : sbinsOk V'.h = true) (htb : tbinsOk V'.h = true) (hdv : dvOk V'.h = true) :
    SInv V' := by
  have w := hi.wfs
  refine ⟨⟨?_, ?_, ?_, ?_, ?_, hfl, hsb, htb, hdv, ?_, ?_⟩, ?_, ?_, ?_, ?_, ?_⟩
  · rw [he]; exact w.ents
  · rw [he]; exact w.shape
  · rw [he, hsegs]; exact w.inSegs
  · rw [he, hsegs]; exact w.tiles
  · rw [he, hsegs, htop]; exact w.tags
  · have ht := w.top
    unfold topOk at ht ⊢
    rw [hsegs, he, htop, htops]
    cases hs : V.segs with
    | nil => exact absurd hs hne
    | cons g rest => rw [hs] at ht; exact ht
  · unfold segsOk; rw [hsegs, hla]; exact w.segs
  · intro g hg hn
    rw [hsegs] at hg; rw [he]
    exact hi.recs g hg hn
  · intro pre x y post hes
    rw [he] at hes; rw [hsegs]
    exact hi.fence pre x y post hes
  · intro g hg hn e hem
    rw [hsegs] at hg ⊢; rw [he] at hem
    exact hi.tail g hg hn e hem
  · intro g hg e hem
    rw [hsegs] at hg; rw [he] at hem
    exact hi.head g hg e hem
  · intro g hg
    rw [hsegs] at hg
    exact hi.recin g hg

theorem sg_freeListOk_perm {h h' : Heap} (he : h'.ents = h.ents) (hp : List.Perm (freeList h') (freeList h))
    (hf : freeListOk h = true) : freeListOk h' = true := by
  rw [freeListOk_iff] at hf ⊢
  obtain ⟨f1, f2, f3⟩ := hf
  rw [he]
  exact ⟨hp.nodup_iff.2 f1, fun e hm hfe => hp.mem_iff.2 (f2 e hm hfe), fun a ha => f3 a (hp.mem_iff.1 ha)⟩

/-- the first chunk of a segment about to be released leaves the free lists -/
theorem sg_release_unlink {V : St} (hi : SInv V) {p : Nat} {h1 : Heap}
    (hh : (if p = V.h.dv then (pure { V.h with dv := 0, dvsize := 0 } : M Heap) else unlink_large_chunk V.h p) = .ok h1)
    (hp : p ≠ 0) :
    h1.ents = V.h.ents ∧ h1.top = V.h.top ∧ h1.topsize = V.h.topsize ∧
      List.Perm (freeList V.h) (p :: freeList h1) ∧ sbinsOk h1 = true ∧ tbinsOk h1 = true ∧ dvOk h1 = true := by
  have w := hi.wfs
  split at hh
  · rename_i hpd
    msimp at hh
    subst hh
    subst hpd
    refine ⟨rfl, rfl, rfl, ?_, w.sbins, w.tbins, rfl⟩
    show List.Perm ((if V.h.top = 0 then [] else [V.h.top]) ++ ((if V.h.dv = 0 then [] else [V.h.dv]) ++ binned V.h))
      (V.h.dv :: ((if V.h.top = 0 then [] else [V.h.top]) ++ ([] ++ binned V.h)))
    rw [if_neg hp]
    simp only [List.nil_append, List.singleton_append]
    exact List.perm_middle
  · have f := unlink_large_chunk_frame hh
    refine ⟨f.1.ents, f.1.top, f.1.topsize, unlink_large_chunk_freeList hh, ?_, unlink_large_chunk_tbinsOk hh w.tbins, ?_⟩
    · rw [unlink_large_chunk_sbinsOk hh]; exact w.sbins
    · unfold dvOk; rw [f.1.dv, f.1.dvsize, f.1.ents]; exact w.dv

theorem sg_not_inuse {e : Ent} (h : (!e.inuse) = true) : isFree e = true := by
  rcases e with ⟨a, sz, c, p, pf⟩
  cases c <;> cases p <;> simp_all [Ent.inuse, isFree]

/-- **the loop of `release_unused_segments`**: `pref` = the segments already kept (head segment first), the
loop state's own `segs` field is never read, so the invariant is stated for the list `pref ++ rest` -/
theorem sg_releaseLoop (rest : List Seg) : ∀ {s s' : St} {pref : List Seg} {rel n rel' n' : Nat} {rest' : List Seg},
    pref ≠ [] → SInv { s with segs := pref ++ rest } → releaseLoop rest s rel n = .ok (rest', s', rel', n') →
    SInv { s' with segs := pref ++ rest' } ∧
      SameUsers { s with segs := pref ++ rest } { s' with segs := pref ++ rest' } := by
  induction rest with
  | nil =>
    intro s s' pref rel n rel' n' rest' _ hi h
    unfold releaseLoop at h
    msimp at h
    simp only [Prod.mk.injEq] at h
    obtain ⟨h1, h2, _, _⟩ := h
    subst h1; subst h2
    exact ⟨hi, fun _ _ => Iff.rfl⟩
  | cons g rest ih =>
    intro s s' pref rel n rel' n' rest' hpref hi h
    have w := hi.wfs
    have ih' : ∀ {s s' : St} {pref : List Seg} {rel n rel' n' : Nat} {rest' : List Seg},
        releaseLoop rest s rel n = .ok (rest', s', rel', n') → pref ≠ [] → SInv { s with segs := pref ++ rest } →
        SInv { s' with segs := pref ++ rest' } ∧
          SameUsers { s with segs := pref ++ rest } { s' with segs := pref ++ rest' } := fun h a b => ih a b h
    have happ : (pref ++ [g]) ++ rest = pref ++ g :: rest := by simp
    have hpref' : pref ++ [g] ≠ [] := by simp
    have hgm : g ∈ pref ++ g :: rest := by simp
    have hsg := w.segs
    unfold segsOk at hsg
    simp only [Bool.and_eq_true, List.all_eq_true, decide_eq_true_eq, top_foot_size_eq] at hsg
    have hgsz := hsg.2 g hgm
    have hp : align_as_chunk g.base = g.base := align_as_chunk_aligned g.base (by omega) (by omega)
    unfold releaseLoop at h
    dsimp only at h
    rw [hp] at h
    msimp at h
    obtain ⟨e, he, _, _, h⟩ := h
    have hfe := getE_ok.1 he
    split at h
    · rename_i hc
      simp only [Bool.and_eq_true, decide_eq_true_eq, ge_iff_le, top_foot_size_eq] at hc
      obtain ⟨hc1, hc2⟩ := hc
      have hfree := sg_not_inuse hc1
      msimp at h
      obtain ⟨_, hholds, h1, hh1, ⟨ok, s1⟩, hu, h⟩ := h
      simp only [Bool.not_eq_false'] at hholds
      have hrec : g.recAt ≠ 0 := by
        unfold Seg.holds at hholds
        simp only [Bool.and_eq_true, decide_eq_true_eq] at hholds
        omega
      obtain ⟨q, hq, hs1⟩ := popU_spec hu
      obtain ⟨u1, u2, u3, u4, u5, u6, u7⟩ :=
        sg_release_unlink (V := { s with segs := pref ++ g :: rest }) hi (p := g.base) hh1 (by omega)
      subst hs1
      dsimp only at h
      split at h
      · -- the OS took the segment back
        msimp at h
        obtain ⟨_, _, ⟨r1, s2, rl, nn⟩, hrec2, h⟩ := h
        simp only [Prod.mk.injEq] at h
        obtain ⟨e1, e2, _, _⟩ := h
        subst e1; subst e2
        have hih := ih' (pref := pref) hrec2 hpref
        refine (fun (key : _ ∧ _) => ⟨(hih key.1).1, sg_sameUsers_trans key.2 (hih key.1).2⟩) ?_
        exact sg_release_seg (V := { s with segs := pref ++ g :: rest }) hi rfl hpref hrec hfe hfree (by omega)
          u1 u2 u4 u5 u6 u7
          (by show (dropEnts h1 g.base g.top).ents = _; unfold dropEnts; rw [u1]) rfl rfl rfl rfl u2 u3 rfl rfl
      · -- the OS refused: the chunk goes back into its tree bin
        msimp at h
        obtain ⟨h2, hins, ⟨r1, s2, rl, nn⟩, hrec2, h⟩ := h
        simp only [Prod.mk.injEq] at h
        obtain ⟨e1, e2, _, _⟩ := h
        subst e1; subst e2
        have f := insert_large_chunk_frame hins
        have hih := ih' (pref := pref ++ [g]) hrec2 hpref'
        have he2 : h2.ents = s.h.ents := by rw [f.1.ents, u1]
        have := hih (by
          refine sg_sinv_bins (V := { s with segs := pref ++ g :: rest }) hi (by simp) he2 happ ?_ ?_ rfl ?_ ?_ ?_ ?_
          · show h2.top = s.h.top; rw [f.1.top, u2]
          · show h2.topsize = s.h.topsize; rw [f.1.topsize, u3]
          · refine sg_freeListOk_perm (h := s.h) (h' := h2.tag "segment-unmap-refused") he2 ?_ w.freeList
            exact (insert_large_chunk_freeList hins).trans u4.symm
          · show sbinsOk h2 = true
            rw [insert_large_chunk_sbinsOk hins]; exact u5
          · show tbinsOk h2 = true
            refine insert_large_chunk_tbinsOk hins (by omega) (by rw [u1]; exact sg_entsLt w) ?_ u6
            rw [u1, sizeAt_iff]; exact ⟨e, hfe, rfl⟩
          · show dvOk h2 = true
            unfold dvOk at u7 ⊢
            rw [f.1.dv, f.1.dvsize, f.1.ents]; exact u7)
        simp only [List.append_assoc, List.singleton_append] at this
        refine ⟨this.1, sg_sameUsers_trans ?_ this.2⟩
        exact sg_sameUsers_of_eq he2 rfl
    · msimp at h
      obtain ⟨⟨r1, s2, rl, nn⟩, hrec2, h⟩ := h
      simp only [Prod.mk.injEq] at h
      obtain ⟨e1, e2, _, _⟩ := h
      subst e1; subst e2
      have hi1 : SInv { s with segs := (pref ++ [g]) ++ rest } := by rw [happ]; exact hi
      have := ih hpref' hi1 hrec2
      simp only [List.append_assoc, List.singleton_append] at this
      exact this

/-- **`release_unused_segments`** keeps the invariant and the user chunks -/
theorem sg_release_unused_segments_spec : release_unused_segments_Spec := by
  intro s s' hi r h
  unfold release_unused_segments at h
  split at h
  · msimp at h
    simp only [Prod.mk.injEq] at h
    obtain ⟨h, _⟩ := h
    subst h
    exact ⟨sg_sinv_same hi ⟨rfl, rfl, rfl, rfl, rfl, rfl, rfl⟩ rfl rfl (fun _ => rfl), sg_sameUsers_of_eq rfl rfl⟩
  · rename_i hd rest hsegs
    msimp at h
    obtain ⟨⟨r1, s2, rl, nn⟩, hrec, h⟩ := h
    simp only [Prod.mk.injEq] at h
    obtain ⟨h, _⟩ := h
    subst h
    have hi0 : SInv { s with segs := [hd] ++ rest } :=
      sg_sinv_same hi ⟨rfl, rfl, rfl, rfl, rfl, rfl, rfl⟩ (by simp [hsegs]) rfl (fun _ => rfl)
    obtain ⟨i2, su2⟩ := sg_releaseLoop rest (pref := [hd]) (by simp) hi0 hrec
    refine ⟨sg_sinv_same i2 ⟨rfl, rfl, rfl, rfl, rfl, rfl, rfl⟩ rfl rfl (fun h0 => by simp at h0), ?_⟩
    have a1 : SameUsers s { s with segs := [hd] ++ rest } := sg_sameUsers_of_eq rfl (by simp [hsegs])
    exact sg_sameUsers_trans a1 (sg_sameUsers_trans su2 (sg_sameUsers_of_eq rfl rfl))

/-- **`sys_trim`** keeps the invariant and the user chunks -/
theorem sg_sys_trim_spec : sys_trim_Spec := sg_sys_trim_of_release sg_release_unused_segments_spec

/-! ## `sys-addseg` -/

theorem sg_pad_seg : pad_request SIZEOF_SEGMENT = 48 := by decide

/-- where `add_segment` puts the record chunk: over the foot word of the old `top` (80 bytes before the segment
end), or over the old `top` itself when that has only 16 bytes -/
theorem sg_addseg_csp {top topsize oe : Nat} (h16 : oe % 16 = 0) (hoe : top + topsize + 80 = oe) (hlim : oe ≤ 2 ^ 64)
    (hts : topsize % 16 = 0) (hts0 : 16 ≤ topsize) :
    addseg_csp top oe = if topsize < 32 then top else top + topsize := by
  unfold addseg_csp
  simp only [sg_pad_seg, SIZEOF_USIZE_eq, MALLOC_ALIGNMENT_eq, MEM_OFFSET_eq, MIN_CHUNK_SIZE_eq]
  rw [align_offset_usize_eq _ (by omega)]
  split <;> split <;> omega

/-- `add_segment` up to and including the fencepost loop, on the table as a set: the new `top` and its foot word
in the fresh mapping, the record chunk `R` at `csp`, `k` fenceposts after it -/
theorem sg_addseg_pre {s S s1 : St} (w : WFS s) (hS : S.h = s.h)
    {g0 : Seg} {rest : List Seg} {pre post : List Ent} {x f : Ent}
    (hsegs : s.segs = g0 :: rest) (hes : s.h.ents = pre ++ [x, f] ++ post)
    (hxa : x.addr = s.h.top) (hxs : x.size = s.h.topsize) (hxs16 : 16 ≤ s.h.topsize)
    (hfa : f.addr = s.h.top + s.h.topsize) (hfs : f.size = 80)
    (hgb : g0.base ≤ s.h.top) (hgt : s.h.top + s.h.topsize + 80 = g0.base + g0.size)
    {tbase tsize : Nat} (hfr : ∀ g ∈ s.segs, tbase + tsize ≤ g.base ∨ g.base + g.size ≤ tbase)
    (hpage : tbase % 4096 = 0) (hlim : tbase + tsize ≤ 2 ^ 64) (hts : tsize % 4096 = 0) (hts2 : 96 ≤ tsize)
    (hinit : init_top S tbase (tsize - 80) = .ok s1)
    {csp : Nat} (hcsp : (csp = s.h.top + s.h.topsize ∧ 32 ≤ s.h.topsize) ∨ (csp = s.h.top ∧ s.h.topsize = 16))
    {h1 h2 : Heap} {nf : Nat} (eR : writeHead s1.h csp 48 true true = .ok h1)
    (eF : fences 64 h1 (csp + 48) (g0.base + g0.size) 0 = .ok (h2, nf)) :
    s1 = { S with h := s1.h, trim_check := DEFAULT_TRIM_THRESHOLD } ∧
    h2 = { s.h with top := tbase, topsize := tsize - 80, ents := h2.ents } ∧ entsOk h2.ents = true ∧
    nf = (g0.base + g0.size - (csp + 48)) / 8 - 1 ∧
    ∃ pfR, ∀ z, z ∈ h2.ents ↔
      z = { addr := tbase, size := tsize - 80, cin := false, pin := true, pfoot := 0 } ∨
      z = { addr := tbase + (tsize - 80), size := 80, cin := false, pin := false, pfoot := 0 } ∨
      z = { addr := csp, size := 48, cin := true, pin := true, pfoot := pfR } ∨
      z ∈ sgFenceList ((g0.base + g0.size - (csp + 48)) / 8 - 1) (csp + 48) ∨
      (z ∈ s.h.ents ∧ (z.addr < csp ∨ g0.base + g0.size ≤ z.addr)) := by
  have hg0 : g0 ∈ s.segs := by rw [hsegs]; exact List.mem_cons_self
  obtain ⟨d1, d2, d3⟩ := sg_segsOk_cons w.segs hsegs
  have hd0 := d3 g0 List.mem_cons_self
  have hfresh := sg_fresh_ents w hfr
  have hside := hfr g0 hg0
  have hok := w.ents
  rw [hes] at hok
  have hok2 : entsOk (pre ++ x :: f :: post) = true := by simpa using hok
  obtain ⟨o1, o2, o3, o4, o5⟩ := entsOk_mid2 hok2
  -- where the old headers lie relative to the window
  have hold : ∀ z ∈ s.h.ents, z.addr + z.size ≤ s.h.top ∨ z = x ∨ z = f ∨ g0.base + g0.size ≤ z.addr := by
    intro z hz
    rw [hes] at hz
    simp only [List.mem_append, List.mem_cons, List.not_mem_nil, or_false] at hz
    rcases hz with (h | h | h) | h
    · have := o1 z h; omega
    · exact Or.inr (Or.inl h)
    · exact Or.inr (Or.inr (Or.inl h))
    · have := o5 z h; omega
  have hpos0 : ∀ z ∈ s.h.ents, 0 < z.size := entsOk_pos w.ents
  obtain ⟨hA, hB, eA, eB, hs1⟩ := sg_init_top_ok hinit (by omega) (by omega)
  -- the two writes of `init_top`
  obtain ⟨a1, a2, a3⟩ := sg_writeHead_tab eA (by show entsOk S.h.ents = true; rw [hS]; exact w.ents) (by omega) (by
    intro y hy hlt
    have hy' : y ∈ s.h.ents := by rw [← hS]; exact hy
    have := hpos0 y hy'
    rcases hfresh y hy' with h | h <;> omega)
  have hpfA : pfootAt ({ S.h with top := tbase, topsize := tsize - 80 } : Heap).ents tbase = 0 := by
    apply pfootAt_none
    apply findEnt_none
    intro y hy hya
    have hy' : y ∈ s.h.ents := by rw [← hS]; exact hy
    have := hpos0 y hy'
    rcases hfresh y hy' with h | h <;> omega
  rw [hpfA] at a3
  have a3' : ∀ z, z ∈ hA.ents ↔ z = { addr := tbase, size := tsize - 80, cin := false, pin := true, pfoot := 0 } ∨ z ∈ s.h.ents := by
    intro z
    rw [a3 z]
    show _ ∨ (z ∈ S.h.ents ∧ _) ↔ _
    rw [hS]
    constructor
    · rintro (h | ⟨h, _⟩)
      · exact Or.inl h
      · exact Or.inr h
    · rintro (h | h)
      · exact Or.inl h
      · refine Or.inr ⟨h, ?_⟩
        have := hpos0 z h
        rcases hfresh z h with h' | h' <;> omega
  obtain ⟨b1, b2, b3⟩ := sg_writeHead_tab eB a2 (by omega) (by
    intro y hy hlt
    rcases (a3' y).1 hy with h | h
    · subst h; simp only; omega
    · have := hpos0 y h
      rcases hfresh y h with h' | h' <;> omega)
  have hpfB : pfootAt hA.ents (tbase + (tsize - 80)) = 0 := by
    apply pfootAt_none
    apply findEnt_none
    intro y hy hya
    rcases (a3' y).1 hy with h | h
    · subst h; simp only at hya; omega
    · have := hpos0 y h
      rcases hfresh y h with h' | h' <;> omega
  rw [hpfB] at b3
  have b3' : ∀ z, z ∈ hB.ents ↔ z = { addr := tbase, size := tsize - 80, cin := false, pin := true, pfoot := 0 } ∨
      z = { addr := tbase + (tsize - 80), size := 80, cin := false, pin := false, pfoot := 0 } ∨ z ∈ s.h.ents := by
    intro z
    rw [b3 z, a3' z]
    constructor
    · rintro (h | ⟨h | h, _⟩)
      · exact Or.inr (Or.inl h)
      · exact Or.inl h
      · exact Or.inr (Or.inr h)
    · rintro (h | h | h)
      · refine Or.inr ⟨Or.inl h, ?_⟩
        subst h; simp only; omega
      · exact Or.inl h
      · refine Or.inr ⟨Or.inr h, ?_⟩
        have := hpos0 z h
        rcases hfresh z h with h' | h' <;> omega
  have hs1h : s1.h = hB := by rw [hs1]
  rw [hs1h] at eR
  -- the record chunk
  obtain ⟨c1, c2, c3⟩ := sg_writeHead_tab eR b2 (by omega) (by
    intro y hy hlt
    rcases (b3' y).1 hy with h | h | h
    · subst h; simp only at hlt ⊢; omega
    · subst h; simp only at hlt ⊢; omega
    · have := hpos0 y h
      rcases hold y h with h' | h' | h' | h'
      · omega
      · subst h'; omega
      · subst h'; omega
      · omega)
  generalize pfootAt hB.ents csp = pfR at c3
  have c3' : ∀ z, z ∈ h1.ents ↔
      z = { addr := tbase, size := tsize - 80, cin := false, pin := true, pfoot := 0 } ∨
      z = { addr := tbase + (tsize - 80), size := 80, cin := false, pin := false, pfoot := 0 } ∨
      z = { addr := csp, size := 48, cin := true, pin := true, pfoot := pfR } ∨
      (z ∈ s.h.ents ∧ (z.addr < csp ∨ g0.base + g0.size ≤ z.addr)) := by
    intro z
    rw [c3 z, b3' z]
    have hz := hold z
    have hp := hpos0 z
    grind
  -- the fenceposts
  obtain ⟨f1, f2, f3, f4⟩ := sg_fences 64 eF c2 (by
    intro y hy
    rcases (c3' y).1 hy with h | h | h | h
    · subst h; simp only; omega
    · subst h; simp only; omega
    · subst h; simp only; omega
    · have := hpos0 y h.1
      rcases hold y h.1 with h' | h' | h' | h'
      · omega
      · subst h'; omega
      · subst h'; omega
      · omega) (by omega) (by omega)
  refine ⟨by rw [hs1h]; exact hs1, ?_, f2, by omega, pfR, ?_⟩
  · rw [f1, c1, b1, a1]
    show _ = ({ s.h with top := tbase, topsize := tsize - 80, ents := h2.ents } : Heap)
    rw [← hS]
  · intro z
    rw [f3 z, c3' z]
    grind

/-- the free headers other than `top` keep their place when the window `[top, foot]` is rewritten -/
theorem sg_addseg_keep {s : St} (w : WFS s) {E' : List Ent} (hok' : entsOk E' = true) {oe : Nat}
    {f : Ent} (hfm : f ∈ s.h.ents) (hfa : f.addr = s.h.top + s.h.topsize) (hfp : f.pin = false) (hfe : f.addr + 80 = oe)
    (hout : ∀ z ∈ s.h.ents, z.addr < s.h.top ∨ z.addr = s.h.top ∨ z = f ∨ oe ≤ z.addr)
    (hkeep : ∀ z ∈ s.h.ents, (z.addr < s.h.top ∨ oe ≤ z.addr) → z ∈ E') :
    ∀ a ∈ Dl.freeList s.h, a ≠ s.h.top → findEnt E' a = findEnt s.h.ents a := by
  intro a ha hne
  have := ((freeListOk_iff s.h).1 w.freeList).2.2 a ha
  obtain ⟨e, he, hf⟩ := isFreeAt_iff.1 this
  obtain ⟨hm, hea⟩ := findEnt_some he
  have hc : e.addr < s.h.top ∨ oe ≤ e.addr := by
    rcases hout e hm with h | h | h | h
    · exact Or.inl h
    · omega
    · subst h; simp [isFree, hfp] at hf
    · exact Or.inr h
  rw [he, ← hea]
  exact entsOk_find e (hkeep e hm hc) hok'

/-- the free list after `add_segment`: `top` is the new mapping; the old `top` chunk is binned (`B = [top]`)
or gone (`B = []`) -/
theorem sg_addseg_freeListOk {s : St} (w : WFS s) (htn : s.h.top ≠ 0) {H : Heap} (hok' : entsOk H.ents = true)
    {tbase : Nat} (htb0 : tbase ≠ 0) (hnew : ∀ e ∈ s.h.ents, e.addr ≠ tbase)
    (htop : H.top = tbase) (hdv : H.dv = s.h.dv) {B : List Nat} (hB : B = [] ∨ B = [s.h.top])
    (hperm : List.Perm (binned H) (B ++ binned s.h))
    (hfree : ∀ a, a ∈ freeSet H.ents ↔ a = tbase ∨ a ∈ B ∨ (a ∈ freeSet s.h.ents ∧ a ≠ s.h.top)) :
    freeListOk H = true := by
  obtain ⟨hnd0, hmem0⟩ := (freeListOk_iff_set w.ents).1 w.freeList
  rw [freeList_top htn] at hnd0 hmem0
  simp only [List.nil_append, List.singleton_append, List.nodup_cons, List.mem_cons] at hnd0 hmem0
  have hfl : List.Perm (Dl.freeList H) (tbase :: (B ++ ((if s.h.dv = 0 then [] else [s.h.dv]) ++ binned s.h))) := by
    unfold Dl.freeList
    rw [htop, hdv, if_neg htb0]
    simp only [List.singleton_append]
    refine List.Perm.cons _ ?_
    refine (List.Perm.append_left _ hperm).trans ?_
    rw [← List.append_assoc, ← List.append_assoc]
    exact List.Perm.append_right _ List.perm_append_comm
  generalize (if s.h.dv = 0 then [] else [s.h.dv]) ++ binned s.h = R at hnd0 hmem0 hfl
  have hRfree : ∀ a, a ∈ R ↔ (a ∈ freeSet s.h.ents ∧ a ≠ s.h.top) := by
    intro a
    have := hmem0 a
    constructor
    · intro h
      exact ⟨this.1 (Or.inr h), fun h' => hnd0.1 (h' ▸ h)⟩
    · rintro ⟨h1, h2⟩
      rcases this.2 h1 with h | h
      · exact absurd h h2
      · exact h
  have htbR : tbase ∉ R := by
    intro h
    obtain ⟨e, he, _, hea⟩ := mem_freeSet.1 ((hRfree tbase).1 h).1
    exact hnew e he hea
  have htop_new : s.h.top ≠ tbase := by
    intro h
    obtain ⟨e, he, _, hea⟩ := mem_freeSet.1 ((hmem0 s.h.top).1 (Or.inl rfl))
    exact hnew e he (by omega)
  refine (freeListOk_iff_set hok').2 ⟨hfl.nodup_iff.2 ?_, ?_⟩
  · rcases hB with hB | hB
    · subst hB
      simp only [List.nil_append, List.nodup_cons]
      exact ⟨htbR, hnd0.2⟩
    · subst hB
      simp only [List.singleton_append, List.nodup_cons, List.mem_cons, not_or]
      exact ⟨⟨fun h => htop_new h.symm, htbR⟩, hnd0.1, hnd0.2⟩
  · intro a
    rw [hfl.mem_iff, hfree a]
    simp only [List.mem_cons, List.mem_append, hRfree a]

theorem sg_segs_of_top {s : St} (w : WFS s) (htn : s.h.top ≠ 0) : ∃ g, g ∈ s.segs := by
  have ht := w.top
  unfold topOk at ht
  cases hs : s.segs with
  | nil =>
    rw [hs] at ht
    simp only [Bool.and_eq_true, decide_eq_true_eq] at ht
    exact absurd ht.1.1.1 htn
  | cons g r => exact ⟨g, List.mem_cons_self⟩

theorem sg_addseg_memA (E0 : List Ent) (z : Ent) (top topsize oe tbase tsize g0b pfR pfX : Nat)
    (hside : tbase + tsize ≤ g0b ∨ oe ≤ tbase) (hgb : g0b ≤ top) (hoe : top + topsize + 80 = oe)
    (h32 : 32 ≤ topsize) (hts : 96 ≤ tsize) :
    (z = { addr := top + topsize, size := 48, cin := true, pin := false, pfoot := topsize } ∨
      (z = { addr := top, size := topsize, cin := false, pin := true, pfoot := pfX } ∨
        (z = { addr := top + topsize, size := 48, cin := true, pin := false, pfoot := pfR } ∨
          (z = { addr := tbase, size := tsize - 80, cin := false, pin := true, pfoot := 0 } ∨
            z = { addr := tbase + (tsize - 80), size := 80, cin := false, pin := false, pfoot := 0 } ∨
            z = { addr := top + topsize, size := 48, cin := true, pin := true, pfoot := pfR } ∨
            (z = { addr := top + topsize + 48, size := 8, cin := true, pin := true, pfoot := 0 } ∨
              z = { addr := top + topsize + 48 + 8, size := 8, cin := true, pin := true, pfoot := 0 } ∨
              z = { addr := top + topsize + 48 + 8 + 8, size := 8, cin := true, pin := true, pfoot := 0 }) ∨
            z ∈ E0 ∧ (z.addr < top + topsize ∨ oe ≤ z.addr)) ∧ z.addr ≠ top + topsize) ∧
        (z.addr < top ∨ top + topsize ≤ z.addr)) ∧ z.addr ≠ top + topsize) ↔
    (z = { addr := tbase, size := tsize - 80, cin := false, pin := true, pfoot := 0 } ∨
      z = { addr := tbase + (tsize - 80), size := 80, cin := false, pin := false, pfoot := 0 } ∨
      (z = { addr := top, size := topsize, cin := false, pin := true, pfoot := pfX } ∨
        z = { addr := top + topsize, size := 48, cin := true, pin := false, pfoot := topsize } ∨
        z = { addr := top + topsize + 48, size := 8, cin := true, pin := true, pfoot := 0 } ∨
        z = { addr := top + topsize + 48 + 8, size := 8, cin := true, pin := true, pfoot := 0 } ∨
        z = { addr := top + topsize + 48 + 8 + 8, size := 8, cin := true, pin := true, pfoot := 0 }) ∨
      z ∈ E0 ∧ (z.addr < top ∨ oe ≤ z.addr)) := by
  grind

theorem sg_add_segment {s : St} (hi : SInv s) (htn : s.h.top ≠ 0) {tbase tsize : Nat} (hf : SgFresh s tbase tsize)
    (hsz : 96 ≤ tsize) {q0 : List OsDir} {ev0 : List OsEv} {fp0 mf0 la0 : Nat}
    (hla0 : la0 ≤ tbase ∧ la0 ≤ s.least_addr) {s' : St}
    (h : add_segment { s with osq := q0, evs := ev0, footprint := fp0, maxfp := mf0, least_addr := la0 } tbase tsize = .ok s') :
    SInv s' ∧ SameUsers s s' := by
  have w := hi.wfs
  obtain ⟨gg, hgg⟩ := sg_segs_of_top w htn
  obtain ⟨g0, rest, pre, x, f, post, hsegs, hes, hxa, hxf, hxs, hfa, hfc, hfp, hfs, hgb, hgt, htop0, hgx, hgf⟩ :=
    w.top_parts (w.topsize_ne hgg)
  have hes' : s.h.ents = pre ++ [x, f] ++ post := by rw [hes]; simp
  have hg0 : g0 ∈ s.segs := by rw [hsegs]; exact List.mem_cons_self
  obtain ⟨d1, d2, d3⟩ := sg_segsOk_cons w.segs hsegs
  have hd0 := d3 g0 List.mem_cons_self
  have hxm : x ∈ s.h.ents := by rw [hes]; simp
  obtain ⟨hxc, hxp⟩ := isFree_iff.1 hxf
  obtain ⟨hx16, hxs16, hxs16'⟩ := shapeOk_free w.shape hxm hxc
  obtain ⟨_, hpos, hlim, hfr⟩ := hf.fresh
  have hfm : f ∈ s.h.ents := by rw [hes]; simp
  have hok0 := w.ents
  rw [hes] at hok0
  obtain ⟨o1, o2, o3, o4, o5⟩ := entsOk_mid2 hok0
  have hout : ∀ z ∈ s.h.ents, z.addr < s.h.top ∨ z.addr = s.h.top ∨ z = f ∨ g0.base + g0.size ≤ z.addr := by
    intro z hz
    rw [hes] at hz
    simp only [List.mem_append, List.mem_cons] at hz
    rcases hz with h | h | h | h
    · have := o1 z h; omega
    · subst h; exact Or.inr (Or.inl hxa)
    · exact Or.inr (Or.inr (Or.inl h))
    · have := o5 z h; omega
  have hfresh := sg_fresh_ents w hfr
  have hnew : ∀ e ∈ s.h.ents, e.addr ≠ tbase := by
    intro e he hea
    have := entsOk_pos w.ents e he
    rcases hfresh e he with h | h <;> omega
  unfold add_segment at h
  dsimp only at h
  split at h
  · msimp at h
  · rename_i oldsp hsh
    obtain ⟨hsp, hsph⟩ := sg_segment_holding hsh
    have hspx : inSeg oldsp x = true := by
      unfold Seg.holds Seg.top at hsph
      simp only [Bool.and_eq_true, decide_eq_true_eq] at hsph
      rw [inSeg_iff]; omega
    have : g0 = oldsp := (sg_seg_unique w.segsDisjoint hsp hg0 hspx hgx).symm
    subst this
    unfold Seg.top at h
    rw [sg_addseg_csp (top := s.h.top) (topsize := s.h.topsize) (by omega) (by omega) (by omega) (by omega) (by omega)] at h
    simp only [sg_pad_seg, SIZEOF_USIZE_eq, MALLOC_ALIGNMENT_eq, MEM_OFFSET_eq, top_foot_size_eq] at h
    msimp at h
    obtain ⟨_, _, _, _, s1, hinit, _, _, h1, eR, ⟨h2, nf⟩, eF, _, hnf, h3, eO, hs'⟩ := h
    unfold set_size_and_pinuse_of_inuse_chunk at eR
    by_cases hsm : s.h.topsize < 32
    · -- the old `top` has 16 bytes: the record chunk takes its place
      simp only [if_pos hsm] at eR eF eO hs'
      have hts16 : s.h.topsize = 16 := by omega
      obtain ⟨p1, p2, p3, p4, pfR, p5⟩ := sg_addseg_pre (S := { s with osq := q0, evs := ev0, footprint := fp0, maxfp := mf0, least_addr := la0 })
        w rfl hsegs hes' hxa hxs (by omega) hfa hfs hgb hgt hfr hf.page hlim (by have := hf.gran; omega) hsz hinit
        (csp := s.h.top) (Or.inr ⟨rfl, hts16⟩) eR eF
      have hk : (g0.base + g0.size - (s.h.top + 48)) / 8 - 1 = 5 := by omega
      rw [hk] at p5
      unfold add_segment_oldtop at eO
      dsimp only at eO
      rw [if_neg (by simp)] at eO
      msimp at eO
      subst eO
      have hs1segs : s1.segs = g0 :: rest := by rw [p1]; exact hsegs
      rw [hs1segs] at hs'
      subst hs'
      refine sg_addseg_core hi hsegs hes' hxa hxf hxs hfa hfc hfp hfs hgb hgt hfr hf.page hpos hlim
        (by have := hf.gran; omega) hsz
        (X := { addr := tbase, size := tsize - 80, cin := false, pin := true, pfoot := 0 })
        (F := { addr := tbase + (tsize - 80), size := 80, cin := false, pin := false, pfoot := 0 })
        rfl rfl rfl rfl rfl rfl rfl rfl (csp := s.h.top)
        (m' := { addr := s.h.top, size := 48, cin := true, pin := true, pfoot := pfR })
        (ms' := sgFenceList 5 (s.h.top + 48))
        ?wc ?wend ?wlast ?wshape ?whead ?wtags ?wclass ?wfence ?wrec ?wcsp ?wm8 ?hok ?hmem rfl ?htop ?htops ?hdv ?hdvs ?hla
        ?hfl ?hsb ?htb
      case wc => simp [contig, sgFenceList, Nat.add_assoc]
      case wend => simp only [endE, lastE, sgFenceList]; omega
      case wlast => simp [lastE, sgFenceList]
      case wshape =>
        simp only [shapeOk, sgFenceList, List.all_cons, List.all_nil, Bool.and_true, Bool.and_eq_true, Bool.or_eq_true,
          decide_eq_true_eq]
        refine ⟨Or.inr ⟨⟨by omega, trivial⟩, by omega⟩, ?_⟩
        simp
      case whead => exact ⟨by simp [hxp], fun h => by rw [hxp] at h; cases h⟩
      case wtags => simp [tagsFrom, linkOk, isFree, sgFenceList]
      case wclass =>
        intro e he
        simp only [sgFenceList, List.mem_cons, List.not_mem_nil, or_false] at he
        rcases he with rfl | rfl | rfl | rfl | rfl | rfl <;> simp
      case wfence =>
        intro a ha b _ _ _
        simp only [sgFenceList, List.mem_cons, List.not_mem_nil, or_false] at ha
        rcases ha with rfl | rfl | rfl | rfl | rfl | rfl <;> simp
      case wrec => exact ⟨_, List.mem_cons_self, rfl, rfl⟩
      case wcsp => exact ⟨Nat.le_refl _, by omega⟩
      case wm8 => simp
      case hok => exact p3
      case hmem =>
        intro z
        show z ∈ h2.ents ↔ _
        rw [p5 z]
        simp only [List.mem_cons]
        grind
      case htop => show h2.top = tbase; rw [p2]
      case htops => show h2.topsize = tsize - 80; rw [p2]
      case hdv => show h2.dv = s.h.dv; rw [p2]
      case hdvs => show h2.dvsize = s.h.dvsize; rw [p2]
      case hla => show s1.least_addr ≤ tbase ∧ s1.least_addr ≤ s.least_addr; rw [p1]; exact hla0
      all_goals
        have hkeep : ∀ z ∈ s.h.ents, (z.addr < s.h.top ∨ g0.base + g0.size ≤ z.addr) → z ∈ h2.ents :=
          fun z hz hc => (p5 z).2 (Or.inr (Or.inr (Or.inr (Or.inr ⟨hz, hc⟩))))
        have hfk := sg_addseg_keep w p3 hfm hfa hfp (by omega) hout hkeep
      case hfl =>
        refine sg_addseg_freeListOk w htn (H := h2.tag "addseg-oldtop-consumed") p3 (by omega) hnew ?_ ?_ (B := [])
          (Or.inl rfl) ?_ ?_
        · show h2.top = tbase; rw [p2]
        · show h2.dv = s.h.dv; rw [p2]
        · rw [List.nil_append, binned_congr (h := s.h) (by show h2.sbins = _; rw [p2]) (by show h2.tbins = _; rw [p2])]
        · intro a
          show a ∈ freeSet h2.ents ↔ _
          simp only [List.not_mem_nil, false_or]
          rw [mem_freeSet, mem_freeSet]
          constructor
          · rintro ⟨e, he, hfe, hea⟩
            rcases (p5 e).1 he with h | h | h | h | h
            · left; rw [← hea, h]
            · rw [h] at hfe; simp [isFree] at hfe
            · rw [h] at hfe; simp [isFree] at hfe
            · obtain ⟨i, _, hi⟩ := sg_mem_fenceList.1 h
              rw [hi] at hfe; simp [isFree] at hfe
            · right; exact ⟨⟨e, h.1, hfe, hea⟩, by omega⟩
          · rintro (h | ⟨⟨e, he, hfe, hea⟩, hne⟩)
            · exact ⟨_, (p5 _).2 (Or.inl rfl), by simp [isFree], h.symm⟩
            · refine ⟨e, hkeep e he ?_, hfe, hea⟩
              rcases hout e he with h | h | h | h
              · exact Or.inl h
              · omega
              · subst h; simp [isFree, hfp] at hfe
              · exact Or.inr h
      case hsb =>
        refine sbinsOk_frame (h := s.h) w.sbins (by show h2.sbins = _; rw [p2]) ?_
        intro a ha
        have hb : a ∈ binned s.h := List.mem_append.2 (Or.inl ha)
        exact hfk a (mem_freeList_of_binned hb) (w.binned_free hb).2.1
      case htb =>
        refine tbinsOk_frame (h := s.h) w.tbins (by show h2.tbins = _; rw [p2]) ?_
        intro a ha
        have hb : a ∈ binned s.h := List.mem_append.2 (Or.inr ha)
        exact hfk a (mem_freeList_of_binned hb) (w.binned_free hb).2.1
    · -- the old `top` has at least 32 bytes: it is binned, the record chunk replaces its foot word
      simp only [if_neg hsm] at eR eF eO hs'
      obtain ⟨p1, p2, p3, p4, pfR, p5⟩ := sg_addseg_pre (S := { s with osq := q0, evs := ev0, footprint := fp0, maxfp := mf0, least_addr := la0 })
        w rfl hsegs hes' hxa hxs (by omega) hfa hfs hgb hgt hfr hf.page hlim (by have := hf.gran; omega) hsz hinit
        (csp := s.h.top + s.h.topsize) (Or.inl ⟨rfl, by omega⟩) eR eF
      have hk : (g0.base + g0.size - (s.h.top + s.h.topsize + 48)) / 8 - 1 = 3 := by omega
      rw [hk] at p5
      unfold add_segment_oldtop at eO
      dsimp only at eO
      rw [if_pos (by omega), Nat.add_sub_cancel_left] at eO
      msimp at eO
      obtain ⟨h3a, eSF, eIns⟩ := eO
      unfold set_free_with_pinuse set_size_and_pinuse_of_free_chunk at eSF
      msimp at eSF
      obtain ⟨hc, eC, hw, eW, eS⟩ := eSF
      -- clear PINUSE of the record chunk
      obtain ⟨c1, c2, c3⟩ := sg_clearPin_tab eC p3
        (x := { addr := s.h.top + s.h.topsize, size := 48, cin := true, pin := true, pfoot := pfR })
        ((p5 _).2 (Or.inr (Or.inr (Or.inl rfl)))) rfl
      -- the header of the old `top`, now an ordinary free chunk
      have hold2 : ∀ z ∈ s.h.ents, z.addr < s.h.top → z.addr + z.size ≤ s.h.top := by
        intro z hz hlt
        have := entsOk_sep w.ents z hz x hxm (by omega)
        omega
      have hside := hfr g0 hg0
      obtain ⟨w1, w2, w3⟩ := sg_writeHead_tab eW c2 (by omega) (by
        intro y hy hlt
        rcases (c3 y).1 hy with h | ⟨h, _⟩
        · subst h; simp only at hlt; omega
        · rcases (p5 y).1 h with h | h | h | h | h
          · subst h; simp only at hlt ⊢; omega
          · subst h; simp only at hlt ⊢; omega
          · subst h; simp only at hlt; omega
          · obtain ⟨i, _, hi⟩ := sg_mem_fenceList.1 h
            subst hi; simp only at hlt; omega
          · exact hold2 y h.1 hlt)
      generalize pfootAt hc.ents s.h.top = pfX at w3
      -- its size in the `prev_foot` of the record chunk
      obtain ⟨t1, t2, t3⟩ := sg_setFoot_tab eS w2
        (x := { addr := s.h.top + s.h.topsize, size := 48, cin := true, pin := false, pfoot := pfR })
        ((w3 _).2 (Or.inr ⟨(c3 _).2 (Or.inl rfl), by simp only; omega⟩)) rfl
      have hE : ∀ z, z ∈ h3a.ents ↔
          z = { addr := tbase, size := tsize - 80, cin := false, pin := true, pfoot := 0 } ∨
          z = { addr := tbase + (tsize - 80), size := 80, cin := false, pin := false, pfoot := 0 } ∨
          z ∈ [({ addr := s.h.top, size := s.h.topsize, cin := false, pin := true, pfoot := pfX } : Ent),
               { addr := s.h.top + s.h.topsize, size := 48, cin := true, pin := false, pfoot := s.h.topsize },
               { addr := s.h.top + s.h.topsize + 48, size := 8, cin := true, pin := true, pfoot := 0 },
               { addr := s.h.top + s.h.topsize + 48 + 8, size := 8, cin := true, pin := true, pfoot := 0 },
               { addr := s.h.top + s.h.topsize + 48 + 8 + 8, size := 8, cin := true, pin := true, pfoot := 0 }] ∨
          (z ∈ s.h.ents ∧ (z.addr < s.h.top ∨ g0.base + g0.size ≤ z.addr)) := by
        intro z
        rw [t3 z, w3 z, c3 z, p5 z]
        simp only [sgFenceList, List.mem_cons, List.not_mem_nil, or_false]
        exact sg_addseg_memA _ z _ _ _ _ _ g0.base _ _ hside hgb (by omega) (by omega) hsz
      have hfr3 := insert_chunk_frame eIns
      have hbin3 := insert_chunk_binned eIns
      have hsb3a : h3a.sbins = s.h.sbins := by rw [t1, w1, c1, p2]
      have htb3a : h3a.tbins = s.h.tbins := by rw [t1, w1, c1, p2]
      have hs1segs : s1.segs = g0 :: rest := by rw [p1]; exact hsegs
      rw [hs1segs] at hs'
      subst hs'
      have hents3 : h3.ents = h3a.ents := hfr3.ents
      have hok3 : entsOk h3.ents = true := by rw [hents3]; exact t2
      have hE3 := fun z => (show z ∈ h3.ents ↔ z ∈ h3a.ents by rw [hents3]).trans (hE z)
      have hkeep : ∀ z ∈ s.h.ents, (z.addr < s.h.top ∨ g0.base + g0.size ≤ z.addr) → z ∈ h3a.ents :=
        fun z hz hc => (hE z).2 (Or.inr (Or.inr (Or.inr ⟨hz, hc⟩)))
      have hfk := sg_addseg_keep w t2 hfm hfa hfp (by omega) hout hkeep
      have hx1 : findEnt h3a.ents s.h.top = some { addr := s.h.top, size := s.h.topsize, cin := false, pin := true, pfoot := pfX } := by
        rw [sg_find_iff t2]
        exact ⟨(hE _).2 (Or.inr (Or.inr (Or.inl List.mem_cons_self))), rfl⟩
      have hbins3 := insert_chunk_binsOk eIns (by omega) (by
          intro a e he
          obtain ⟨hm, _⟩ := findEnt_some he
          change e ∈ h3a.ents at hm
          rcases (hE e).1 hm with h | h | h | h
          · subst h; simp only [U64]; omega
          · subst h; simp only [U64]; omega
          · simp only [List.mem_cons, List.not_mem_nil, or_false] at h
            rcases h with rfl | rfl | rfl | rfl | rfl <;> simp only [U64] <;> omega
          · exact sg_entsLt w e.addr e (entsOk_find e h.1 w.ents))
        (by rw [sizeAt_iff]; exact ⟨_, hx1, rfl⟩)
        (by
          refine sbinsOk_frame (h := s.h) w.sbins hsb3a ?_
          intro a ha
          have hb : a ∈ binned s.h := List.mem_append.2 (Or.inl ha)
          exact hfk a (mem_freeList_of_binned hb) (w.binned_free hb).2.1)
        (by
          refine tbinsOk_frame (h := s.h) w.tbins htb3a ?_
          intro a ha
          have hb : a ∈ binned s.h := List.mem_append.2 (Or.inr ha)
          exact hfk a (mem_freeList_of_binned hb) (w.binned_free hb).2.1)
      refine sg_addseg_core hi hsegs hes' hxa hxf hxs hfa hfc hfp hfs hgb hgt hfr hf.page hpos hlim
        (by have := hf.gran; omega) hsz
        (X := { addr := tbase, size := tsize - 80, cin := false, pin := true, pfoot := 0 })
        (F := { addr := tbase + (tsize - 80), size := 80, cin := false, pin := false, pfoot := 0 })
        rfl rfl rfl rfl rfl rfl rfl rfl (csp := s.h.top + s.h.topsize)
        (m' := { addr := s.h.top, size := s.h.topsize, cin := false, pin := true, pfoot := pfX })
        (ms' := [{ addr := s.h.top + s.h.topsize, size := 48, cin := true, pin := false, pfoot := s.h.topsize },
               { addr := s.h.top + s.h.topsize + 48, size := 8, cin := true, pin := true, pfoot := 0 },
               { addr := s.h.top + s.h.topsize + 48 + 8, size := 8, cin := true, pin := true, pfoot := 0 },
               { addr := s.h.top + s.h.topsize + 48 + 8 + 8, size := 8, cin := true, pin := true, pfoot := 0 }])
        ?wc ?wend ?wlast ?wshape ?whead ?wtags ?wclass ?wfence ?wrec ?wcsp ?wm8 hok3 hE3 rfl ?htop ?htops ?hdv ?hdvs ?hla
        ?hfl hbins3.1 hbins3.2
      case wc => simp [contig, Nat.add_assoc]
      case wend => simp only [endE, lastE]; omega
      case wlast => simp [lastE]
      case wshape =>
        simp only [shapeOk, List.all_cons, List.all_nil, Bool.and_true, Bool.and_eq_true, Bool.or_eq_true,
          decide_eq_true_eq]
        refine ⟨Or.inr ⟨⟨by omega, by omega⟩, by omega⟩, Or.inr ⟨⟨by omega, trivial⟩, by omega⟩, ?_⟩
        simp
      case whead => exact ⟨by simp [hxp], fun h => by rw [hxp] at h; cases h⟩
      case wtags =>
        have htne : s.h.top ≠ tbase := by rw [← hxa]; exact hnew x hxm
        simp [tagsFrom, linkOk, isFree, htne]
      case wclass =>
        intro e he
        simp only [List.mem_cons, List.not_mem_nil, or_false] at he
        rcases he with rfl | rfl | rfl | rfl | rfl <;> simp
        omega
      case wfence =>
        intro a ha b hb h8 hadj
        simp only [List.mem_cons, List.not_mem_nil, or_false] at ha hb
        rcases ha with rfl | rfl | rfl | rfl | rfl <;> rcases hb with rfl | rfl | rfl | rfl | rfl <;>
          simp only at h8 hadj ⊢ <;> first | omega | trivial | exact Or.inl trivial
      case wrec => exact ⟨_, List.mem_cons_of_mem _ List.mem_cons_self, rfl, rfl⟩
      case wcsp => exact ⟨by omega, by omega⟩
      case wm8 => simp only; omega
      case htop => show h3.top = tbase; rw [hfr3.top]; show h3a.top = tbase; rw [t1, w1, c1, p2]
      case htops => show h3.topsize = tsize - 80; rw [hfr3.topsize]; show h3a.topsize = _; rw [t1, w1, c1, p2]
      case hdv => show h3.dv = s.h.dv; rw [hfr3.dv]; show h3a.dv = _; rw [t1, w1, c1, p2]
      case hdvs => show h3.dvsize = s.h.dvsize; rw [hfr3.dvsize]; show h3a.dvsize = _; rw [t1, w1, c1, p2]
      case hla => show s1.least_addr ≤ tbase ∧ s1.least_addr ≤ s.least_addr; rw [p1]; exact hla0
      case hfl =>
        have hb0 : binned (h3a.tag "addseg-oldtop-binned") = binned s.h := binned_congr hsb3a htb3a
        refine sg_addseg_freeListOk w htn (H := h3) hok3 (by omega) hnew ?_ ?_ (B := [s.h.top])
          (Or.inr rfl) (by rw [← hb0]; exact hbin3) ?_
        · rw [hfr3.top]; show h3a.top = tbase; rw [t1, w1, c1, p2]
        · rw [hfr3.dv]; show h3a.dv = _; rw [t1, w1, c1, p2]
        · intro a
          rw [mem_freeSet, mem_freeSet]
          simp only [List.mem_singleton]
          constructor
          · rintro ⟨e, he, hfe, hea⟩
            rcases (hE3 e).1 he with h | h | h | h
            · left; rw [← hea, h]
            · rw [h] at hfe; simp [isFree] at hfe
            · simp only [List.mem_cons, List.not_mem_nil, or_false] at h
              rcases h with rfl | rfl | rfl | rfl | rfl
              · right; left; exact hea.symm
              all_goals simp [isFree] at hfe
            · right; right; exact ⟨⟨e, h.1, hfe, hea⟩, by omega⟩
          · rintro (h | h | ⟨⟨e, he, hfe, hea⟩, hne⟩)
            · exact ⟨_, (hE3 _).2 (Or.inl rfl), by simp [isFree], h.symm⟩
            · exact ⟨_, (hE3 _).2 (Or.inr (Or.inr (Or.inl List.mem_cons_self))), by simp [isFree], h.symm⟩
            · refine ⟨e, (hE3 e).2 (Or.inr (Or.inr (Or.inr ⟨he, ?_⟩))), hfe, hea⟩
              rcases hout e he with h | h | h | h
              · exact Or.inl h
              · omega
              · subst h; simp [isFree, hfp] at hfe
              · exact Or.inr h

/-! ## the middle of `sys_alloc`: all branches -/

/-- interface of the `sys-prepend` branch -/
def sg_prepend_Spec : Prop :=
  ∀ {s : St} (_ : SInv s) (_ : s.h.top ≠ 0) {tbase tsize nb : Nat} (_ : SgFresh s tbase tsize) (_ : NbOk nb)
    (_ : nb + 96 ≤ tsize) {sq : Seg} (_ : sq ∈ s.segs) (_ : sq.base = tbase + tsize)
    {q0 : List OsDir} {ev0 : List OsEv} {fp0 mf0 la0 : Nat} (_ : la0 ≤ tbase ∧ la0 ≤ s.least_addr) {s' : St} {mem : Nat},
    prepend_alloc (St.tag { s with osq := q0, evs := ev0, footprint := fp0, maxfp := mf0, least_addr := la0, segs := replaceSeg s.segs sq { sq with base := tbase, size := sq.size + tsize } }
        "sys-prepend") tbase sq.base nb = .ok (s', mem) →
    SInv s' ∧ mem ≠ 0 ∧ Alloc s s' nb mem

theorem sg_place_of_prepend (hpre : sg_prepend_Spec) : sg_place_Spec := by
  intro s s0 hi hp tbase tsize nb hf hnb hsz r h
  by_cases ht0 : s.h.top = 0
  · obtain ⟨s1, hr, h1, h2⟩ := sg_place_init hi hp hf (by omega) ht0 h
    subst hr
    exact ⟨h1, h2⟩
  · obtain ⟨q0, ev0, fp0, mf0, rfl⟩ := hp
    unfold sys_alloc_place at h
    dsimp only at h
    rw [if_neg ht0] at h
    split at h
    · -- sys-extend
      rename_i sp hext
      have hsp : sp ∈ s.segs ∧ sp.top = tbase ∧ sp.holds s.h.top = true := by
        split at hext
        · rename_i sp' hfnd
          split at hext
          · rename_i hh
            injection hext with hext; subst hext
            have := List.find?_some hfnd
            simp only [decide_eq_true_eq] at this
            exact ⟨find?_mem hfnd, this, hh⟩
          · cases hext
        · cases hext
      msimp at h
      obtain ⟨s3, hinit, h⟩ := h
      subst h
      obtain ⟨i1, u1⟩ := sg_extend hi hf (by omega) hsp.1 hsp.2.1 hsp.2.2 hinit
      exact ⟨sg_sinv_tag i1 _, sg_sameUsers_trans u1 (sg_sameUsers_tag _ _)⟩
    · split at h
      · -- sys-prepend
        rename_i sq hfnd
        have hsq : sq ∈ s.segs := find?_mem hfnd
        have hsqb : sq.base = tbase + tsize := by
          have := List.find?_some hfnd
          simpa using this
        msimp at h
        obtain ⟨⟨s2, m⟩, hpa, h⟩ := h
        subst h
        exact hpre hi ht0 hf hnb hsz hsq hsqb (la0 := min tbase s.least_addr) ⟨Nat.min_le_left _ _, Nat.min_le_right _ _⟩ hpa
      · -- sys-addseg
        msimp at h
        obtain ⟨s2, ha, h⟩ := h
        subst h
        obtain ⟨i1, u1⟩ := sg_add_segment hi ht0 hf (by omega) (la0 := min tbase s.least_addr)
          ⟨Nat.min_le_left _ _, Nat.min_le_right _ _⟩ ha
        exact ⟨sg_sinv_tag i1 _, sg_sameUsers_trans u1 (sg_sameUsers_tag _ _)⟩

/-- **`sys_alloc`**, given the `sys-prepend` branch -/
theorem sg_sys_alloc_of_prepend (hpre : sg_prepend_Spec) : sys_alloc_Spec :=
  sg_sys_alloc_of_place (sg_place_of_prepend hpre)

/-! ## `sys-prepend` = the extended segment with an in-use remainder `Q`, followed by freeing `Q`

The code never writes the in-use header `Q`; `SgAbs Q h hI` relates the real heap `h` to the fictitious heap
`hI` that has `Q` in the (header-free) region it covers. -/

def SgAbs (Q : Ent) (h hI : Heap) : Prop :=
  hI = { h with ents := putEnt h.ents Q } ∧ entsOk h.ents = true ∧ 0 < Q.size ∧
    ∀ y ∈ h.ents, y.addr + y.size ≤ Q.addr ∨ Q.addr + Q.size ≤ y.addr

theorem SgAbs.tab {Q : Ent} {h hI : Heap} (a : SgAbs Q h hI) :
    entsOk hI.ents = true ∧ ∀ z, z ∈ hI.ents ↔ z = Q ∨ z ∈ h.ents := by
  obtain ⟨a1, a2, a3, a4⟩ := a
  have hp := entsOk_pos a2
  obtain ⟨t1, t2⟩ := sg_putEnt_tab (e := Q) a2 a3 (fun y hy hlt => by rcases a4 y hy with h | h <;> omega)
  subst a1
  refine ⟨t1, fun z => ?_⟩
  show z ∈ putEnt h.ents Q ↔ _
  rw [t2 z]
  constructor
  · rintro (h | ⟨h, _⟩)
    · exact Or.inl h
    · exact Or.inr h
  · rintro (h | h)
    · exact Or.inl h
    · refine Or.inr ⟨h, ?_⟩
      have := hp z h
      rcases a4 z h with h' | h' <;> omega

/-- a header write that covers `Q` gives the same heap with or without `Q` -/
theorem sg_abs_writeHead {Q : Ent} {h hI : Heap} (a : SgAbs Q h hI) (hpf : Q.pfoot = 0) {n : Nat} {c p : Bool}
    (hn : Q.size ≤ n) (hn8 : n % 8 = 0) :
    writeHead hI Q.addr n c p = writeHead h Q.addr n c p := by
  obtain ⟨t1, t2⟩ := a.tab
  obtain ⟨a1, a2, a3, a4⟩ := a
  have hp := entsOk_pos a2
  rw [writeHead_eq hn8, writeHead_eq hn8]
  have hQm : Q ∈ hI.ents := (t2 Q).2 (Or.inl rfl)
  have hpf1 : pfootAt hI.ents Q.addr = 0 := by rw [pfootAt_some (entsOk_find Q hQm t1)]; exact hpf
  have hpf2 : pfootAt h.ents Q.addr = 0 := by
    apply pfootAt_none
    apply findEnt_none
    intro y hy hya
    have := hp y hy
    rcases a4 y hy with h | h <;> omega
  rw [hpf1, hpf2]
  have hlow1 : ∀ y ∈ hI.ents, y.addr < Q.addr → y.addr + y.size ≤ Q.addr := by
    intro y hy hlt
    rcases (t2 y).1 hy with h | h
    · subst h; omega
    · rcases a4 y h with h' | h' <;> omega
  have hlow2 : ∀ y ∈ h.ents, y.addr < Q.addr → y.addr + y.size ≤ Q.addr := by
    intro y hy hlt
    rcases a4 y hy with h' | h' <;> omega
  obtain ⟨u1, u2⟩ := sg_putEnt_tab (e := { addr := Q.addr, size := n, cin := c, pin := p, pfoot := 0 }) t1 (by simp only; omega) hlow1
  obtain ⟨v1, v2⟩ := sg_putEnt_tab (e := { addr := Q.addr, size := n, cin := c, pin := p, pfoot := 0 }) a2 (by simp only; omega) hlow2
  have heq : putEnt hI.ents { addr := Q.addr, size := n, cin := c, pin := p, pfoot := 0 } =
      putEnt h.ents { addr := Q.addr, size := n, cin := c, pin := p, pfoot := 0 } := by
    refine sg_entsOk_ext u1 v1 ?_
    intro z
    rw [u2 z, v2 z, t2 z]
    simp only
    constructor
    · rintro (h | ⟨h | h, hc⟩)
      · exact Or.inl h
      · subst h; omega
      · exact Or.inr ⟨h, hc⟩
    · rintro (h | ⟨h, hc⟩)
      · exact Or.inl h
      · exact Or.inr ⟨Or.inr h, hc⟩
  rw [heq, a1]

/-- clearing PINUSE of a header outside `Q` commutes with the presence of `Q` -/
theorem sg_abs_clearPin {Q : Ent} {h hI h' : Heap} (a : SgAbs Q h hI) {x : Ent} (hx : x ∈ h.ents) {ad : Nat}
    (hxa : x.addr = ad) (e : clearPin h ad = .ok h') :
    ∃ hI', clearPin hI ad = .ok hI' ∧ SgAbs Q h' hI' := by
  obtain ⟨t1, t2⟩ := a.tab
  obtain ⟨a1, a2, a3, a4⟩ := a
  have hp := entsOk_pos a2
  obtain ⟨c1, c2, c3⟩ := sg_clearPin_tab e a2 hx hxa
  have hxI : x ∈ hI.ents := (t2 x).2 (Or.inr hx)
  subst hxa
  obtain ⟨es2, m1, m2, m3⟩ := sg_modEnt_tab (f := fun e => { e with pin := false }) t1 hxI rfl rfl
  refine ⟨{ hI with ents := es2 }, ?_, ?_, c2, a3, ?_⟩
  · unfold clearPin; rw [m1]; rfl
  · have hreg : ∀ y ∈ h'.ents, y.addr + y.size ≤ Q.addr ∨ Q.addr + Q.size ≤ y.addr := by
      intro y hy
      rcases (c3 y).1 hy with h | ⟨h, _⟩
      · subst h; exact a4 x hx
      · exact a4 y h
    have hp' := entsOk_pos c2
    obtain ⟨w1, w2⟩ := sg_putEnt_tab (e := Q) c2 a3 (fun y hy hlt => by rcases hreg y hy with h | h <;> omega)
    have : es2 = putEnt h'.ents Q := by
      refine sg_entsOk_ext m2 w1 ?_
      intro z
      rw [m3 z, w2 z, t2 z, c3 z]
      have hxq := a4 x hx
      have hxp := hp x hx
      constructor
      · rintro (h | ⟨h | h, hne⟩)
        · refine Or.inr ⟨Or.inl h, ?_⟩
          subst h; simp only; omega
        · exact Or.inl h
        · refine Or.inr ⟨Or.inr ⟨h, hne⟩, ?_⟩
          have := hp z h
          rcases a4 z h with h' | h' <;> omega
      · rintro (h | ⟨h | ⟨h, hne⟩, _⟩)
        · refine Or.inr ⟨Or.inl h, ?_⟩
          subst h; omega
        · exact Or.inl h
        · exact Or.inr ⟨Or.inr h, hne⟩
    rw [this, a1, c1]
  · intro y hy
    rcases (c3 y).1 hy with h | ⟨h, _⟩
    · subst h; exact a4 x hx
    · exact a4 y h

theorem sg_abs_find {Q : Ent} {h hI : Heap} (a : SgAbs Q h hI) {x : Ent} (hx : x ∈ h.ents) :
    findEnt hI.ents x.addr = findEnt h.ents x.addr := by
  obtain ⟨t1, t2⟩ := a.tab
  rw [entsOk_find x ((t2 x).2 (Or.inr hx)) t1, entsOk_find x hx a.2.1]

/-- unlinking a chunk other than `Q` from its bin commutes with the presence of `Q` -/
theorem sg_abs_unlink {Q : Ent} {h hI h' : Heap} (a : SgAbs Q h hI) {x : Ent} (hx : x ∈ h.ents) {sz : Nat}
    (e : unlink_chunk h x.addr sz = .ok h') :
    ∃ hI', unlink_chunk hI x.addr sz = .ok hI' ∧ SgAbs Q h' hI' := by
  have hf := sg_abs_find a hx
  obtain ⟨a1, a2, a3, a4⟩ := a
  have hfr := unlink_chunk_frame e
  have hge : getE hI x.addr = getE h x.addr := by unfold getE; rw [hf]
  have hsb : hI.sbins = h.sbins := by rw [a1]
  have htb : hI.tbins = h.tbins := by rw [a1]
  refine ⟨{ h' with ents := putEnt h'.ents Q }, ?_, rfl, by rw [hfr.ents]; exact a2, a3, by rw [hfr.ents]; exact a4⟩
  unfold unlink_chunk at e ⊢
  split at e
  · rename_i hsm
    rw [if_pos hsm]
    unfold unlink_small_chunk at e ⊢
    dsimp only at e ⊢
    have hgb : getBin hI (small_index sz) = getBin h (small_index sz) := by unfold getBin; rw [hsb]
    rw [hgb, hge]
    msimp at e
    obtain ⟨l, e1, ee, e2, _, e3, e4⟩ := e
    rw [e1, e2]
    simp only [bind, Except.bind]
    rw [(failIf_ok (u := ())).2 e3]
    simp only
    split at e4
    · rename_i hc
      rw [if_pos hc]
      msimp at e4
      subst e4
      rw [a1]
      rfl
    · msimp at e4
  · rename_i hsm
    rw [if_neg hsm]
    unfold unlink_large_chunk at e ⊢
    dsimp only at e ⊢
    rw [hge]
    msimp at e
    obtain ⟨ee, e1, t, e2, e3⟩ := e
    have hgt : getTree hI (compute_tree_index ee.size) = getTree h (compute_tree_index ee.size) := by
      unfold getTree; rw [htb]
    rw [e1]
    simp only [bind, Except.bind]
    rw [hgt, e2]
    simp only
    split at e3
    · rename_i t' ht'
      msimp at e3
      subst e3
      rw [a1]
      rfl
    · msimp at e3

theorem sg_abs_ssf {Q : Ent} {h hI : Heap} (a : SgAbs Q h hI) (hpf : Q.pfoot = 0) {n : Nat}
    (hn : Q.size ≤ n) (hn8 : n % 8 = 0) :
    set_size_and_pinuse_of_free_chunk hI Q.addr n = set_size_and_pinuse_of_free_chunk h Q.addr n := by
  unfold set_size_and_pinuse_of_free_chunk
  rw [sg_abs_writeHead a hpf hn hn8]

theorem sg_abs_fields {Q : Ent} {h hI : Heap} (a : SgAbs Q h hI) (f : Heap → Heap)
    (hf : ∀ x, (f x).ents = x.ents) (hc : f hI = { f h with ents := putEnt h.ents Q }) : SgAbs Q (f h) (f hI) := by
  obtain ⟨a1, a2, a3, a4⟩ := a
  exact ⟨by rw [hc, hf], by rw [hf]; exact a2, a3, by rw [hf]; exact a4⟩

/-- clearing a PINUSE bit that is already clear changes nothing -/
theorem sg_clearPin_noop {h : Heap} {x : Ent} (hok : entsOk h.ents = true) (hx : x ∈ h.ents) (hp : x.pin = false) :
    clearPin h x.addr = .ok h := by
  obtain ⟨pre, post, hes⟩ := List.append_of_mem hx
  rw [hes] at hok
  unfold clearPin
  rw [hes, modEnt_mid hok]
  have : ({ x with pin := false } : Ent) = x := by
    cases x; simp_all
  rw [this, ← hes]
  rfl

theorem sg_prepend_spec : sg_prepend_Spec := by
  intro s hi htn tbase tsize nb hf hnb hsz sq hsq hsqb q0 ev0 fp0 mf0 la0 hla0 s' mem h
  have w := hi.wfs
  obtain ⟨_, hpos, hlim, hfr⟩ := hf.fresh
  have hsg := w.segs
  unfold segsOk at hsg
  simp only [Bool.and_eq_true, List.all_eq_true, decide_eq_true_eq, top_foot_size_eq] at hsg
  have hsqz := hsg.2 sq hsq
  have hp1 : align_as_chunk tbase = tbase := align_as_chunk_aligned tbase (by have := hf.page; omega) (by omega)
  have hp2 : align_as_chunk sq.base = sq.base := align_as_chunk_aligned sq.base (by omega) (by omega)
  unfold prepend_alloc at h
  dsimp only at h
  rw [hp1, hp2, MEM_OFFSET_eq, MIN_CHUNK_SIZE_eq] at h
  have hq : sq.base - tbase - nb = tsize - nb := by omega
  simp only [hq] at h
  msimp at h
  obtain ⟨_, _, hP, eP, eo, heo, _, _, _, heop, _, _, H, ebr, hres⟩ := h
  simp only [Prod.mk.injEq] at hres
  obtain ⟨hres1, hres2⟩ := hres
  subst hres1; subst hres2
  simp only [Bool.not_eq_false'] at heop
  have hpos0 := entsOk_pos w.ents
  have hfresh := sg_fresh_ents w hfr
  -- the request chunk `P`
  unfold set_size_and_pinuse_of_inuse_chunk at eP
  obtain ⟨p1, p2, p3⟩ := sg_writeHead_tab eP (by exact w.ents) (by have := hnb.2.1; omega) (by
    intro y hy hlt
    have hy' : y ∈ s.h.ents := hy
    have := hpos0 y hy'
    rcases hfresh y hy' with h | h <;> omega)
  replace p3 : ∀ z, z ∈ hP.ents ↔ z = { addr := tbase, size := nb, cin := true, pin := true, pfoot := pfootAt s.h.ents tbase } ∨
      (z ∈ s.h.ents ∧ (z.addr < tbase ∨ tbase + nb ≤ z.addr)) := p3
  have hpfP : pfootAt s.h.ents tbase = 0 := by
    apply pfootAt_none
    apply findEnt_none
    intro y hy hya
    have := hpos0 y hy
    rcases hfresh y hy with h | h <;> omega
  rw [hpfP] at p3
  have p3' : ∀ z, z ∈ hP.ents ↔ z = { addr := tbase, size := nb, cin := true, pin := true, pfoot := 0 } ∨ z ∈ s.h.ents := by
    intro z
    rw [p3 z]
    constructor
    · rintro (h | ⟨h, _⟩)
      · exact Or.inl h
      · exact Or.inr h
    · rintro (h | h)
      · exact Or.inl h
      · refine Or.inr ⟨h, ?_⟩
        have := hpos0 z h
        rcases hfresh z h with h' | h' <;> omega
  -- the fictitious in-use remainder `Q`
  have habs : SgAbs { addr := tbase + nb, size := tsize - nb, cin := true, pin := true, pfoot := 0 } hP
      { hP with ents := putEnt hP.ents { addr := tbase + nb, size := tsize - nb, cin := true, pin := true, pfoot := 0 } } := by
    refine ⟨rfl, p2, by simp only; omega, ?_⟩
    intro y hy
    simp only
    rcases (p3' y).1 hy with h | h
    · subst h; left; simp only; omega
    · have := hpos0 y h
      rcases hfresh y h with h' | h' <;> omega
  obtain ⟨i1, i2⟩ := habs.tab
  obtain ⟨l1, l2, hsplit, hnot⟩ := sg_split_first hsq
  obtain ⟨iI, iU, eoI, heoI, heoIm, heoIp⟩ := sg_prepend_mid (I := { (St.tag { s with osq := q0, evs := ev0, footprint := fp0, maxfp := mf0, least_addr := la0, segs := replaceSeg s.segs sq { sq with base := tbase, size := sq.size + tsize } } "sys-prepend") with h := { hP with ents := putEnt hP.ents { addr := tbase + nb, size := tsize - nb, cin := true, pin := true, pfoot := 0 } } })
    hi hsplit hfr hsqb hf.page hpos (by have := hf.gran; omega) hnb.1 hnb.2.1 hsz
    (P := { addr := tbase, size := nb, cin := true, pin := true, pfoot := 0 })
    (Q := { addr := tbase + nb, size := tsize - nb, cin := true, pin := true, pfoot := 0 })
    rfl rfl rfl rfl rfl rfl rfl rfl i1
    (by intro z; rw [i2 z, p3' z]; constructor
        · rintro (h | h | h)
          · exact Or.inr (Or.inl h)
          · exact Or.inl h
          · exact Or.inr (Or.inr h)
        · rintro (h | h | h)
          · exact Or.inr (Or.inl h)
          · exact Or.inl h
          · exact Or.inr (Or.inr h))
    (by show replaceSeg s.segs sq _ = _; rw [hsplit]; exact sg_replaceSeg_split hnot)
    (by show hP.sbins = _; rw [p1]; rfl) (by show hP.tbins = _; rw [p1]; rfl) (by show hP.dv = _; rw [p1]; rfl)
    (by show hP.dvsize = _; rw [p1]; rfl) (by show hP.top = _; rw [p1]; rfl) (by show hP.topsize = _; rw [p1]; rfl)
    hla0
  -- the old first header of the segment
  have heof := getE_ok.1 heo
  have heoIa : eoI.addr = sq.base := (findEnt_some heoI).2
  have heq : eo = eoI := by
    have := entsOk_find eoI ((p3' eoI).2 (Or.inr heoIm)) p2
    rw [heoIa, heof] at this
    injection this
  subst heq
  have heom : eo ∈ hP.ents := (findEnt_some heof).1
  have hqs : tbase + nb + (tsize - nb) = sq.base := by omega
  have hdvq : s.h.dv ≠ tbase + nb := by
    intro hd
    obtain ⟨x, hxm, hxa, _⟩ := w.dv_parts (by
      intro h0
      have hd' := w.dv
      unfold dvOk at hd'
      rw [if_neg (by omega)] at hd'
      split at hd'
      · simp only [Bool.and_eq_true, decide_eq_true_eq] at hd'; omega
      · cases hd')
    have := hpos0 x hxm
    rcases hfresh x hxm with h | h <;> omega
  have hPtop : hP.top = s.h.top := by rw [p1]; rfl
  have hPdv : hP.dv = s.h.dv := by rw [p1]; rfl
  have hu := (iU (tbase + nb) (tsize - nb)).2 (Or.inr (Or.inr ⟨rfl, rfl⟩))
  have hx : findEnt (putEnt hP.ents { addr := tbase + nb, size := tsize - nb, cin := true, pin := true, pfoot := 0 })
      (tbase + nb) = some { addr := tbase + nb, size := tsize - nb, cin := true, pin := true, pfoot := 0 } :=
    (sg_find_iff i1).2 ⟨(i2 _).2 (Or.inl rfl), rfl⟩
  have hwI := iI.wfs
  -- the forward step of `dispose_chunk` on the fictitious heap
  have hfwd : fr_Fwd { hP with ents := putEnt hP.ents { addr := tbase + nb, size := tsize - nb, cin := true, pin := true, pfoot := 0 } }
      (tbase + nb) (tsize - nb) (tbase + nb + (tsize - nb)) eo H := by
    rw [hqs]
    have heoE : eo ∈ s.h.ents := heoIm
    have hshape_free : ∀ e ∈ s.h.ents, isFree e = true → e.size % 16 = 0 :=
      fun e he hfe => (shapeOk_free w.shape he (isFree_iff.1 hfe).1).2.1
    split at ebr
    · -- prepend-top: the old first chunk is `top`
      rename_i htp
      msimp at ebr
      obtain ⟨h3, eW, hH⟩ := ebr
      subst hH
      obtain ⟨_, _, _, xt, _, _, _, htes, hxta, hxtf, hxts, _⟩ := w.top_parts (w.topsize_ne hsq)
      have hxtm : xt ∈ s.h.ents := by rw [htes]; simp
      have : eo = xt := entsOk_addr_inj w.ents heoE hxtm (by rw [hPtop] at htp; omega)
      subst this
      have hts16 := hshape_free eo heoE hxtf
      have hk := writeHead_keeps eW
      right; left
      refine ⟨(isFree_iff.1 hxtf).1, htp, h3, "prepend-top", ?_, ?_⟩
      · refine (sg_abs_writeHead
          (Q := { addr := tbase + nb, size := tsize - nb, cin := true, pin := true, pfoot := 0 })
          (h := { hP with topsize := hP.topsize + (tsize - nb), top := tbase + nb })
          (n := hP.topsize + (tsize - nb))
          ⟨rfl, habs.2.1, habs.2.2.1, habs.2.2.2⟩ rfl (by simp only; omega) ?_).trans eW
        have : hP.topsize = s.h.topsize := by rw [p1]; rfl
        have := hf.gran; have := hnb.1
        omega
      · rw [if_neg]
        rw [hk.2.2.1]
        show tbase + nb ≠ hP.dv
        rw [hPdv]; exact fun h => hdvq h.symm
    · rename_i hntp
      split at ebr
      · -- prepend-dv: the old first chunk is `dv`
        rename_i hdvp
        msimp at ebr
        obtain ⟨h3, eS, hH⟩ := ebr
        subst hH
        rw [hPdv] at hdvp
        rw [hPtop] at hntp
        have hdv0 : s.h.dv ≠ 0 := by omega
        have hd := w.dv
        unfold dvOk at hd
        rw [if_neg hdv0] at hd
        have hef : isFree eo = true ∧ eo.size = s.h.dvsize := by
          split at hd
          · rename_i e he
            simp only [Bool.and_eq_true, decide_eq_true_eq] at hd
            have : eo = e := entsOk_addr_inj w.ents heoE (findEnt_some he).1 (by have := (findEnt_some he).2; omega)
            subst this
            exact ⟨hd.1.1, hd.1.2⟩
          · cases hd
        have hts16 := hshape_free eo heoE hef.1
        right; right; left
        refine ⟨(isFree_iff.1 hef.1).1, by show sq.base ≠ hP.top; rw [hPtop]; exact hntp,
          by show sq.base = hP.dv; rw [hPdv]; exact hdvp, h3, "prepend-dv", ?_, rfl⟩
        refine (sg_abs_ssf
          (Q := { addr := tbase + nb, size := tsize - nb, cin := true, pin := true, pfoot := 0 })
          (h := { hP with dvsize := hP.dvsize + (tsize - nb), dv := tbase + nb })
          (n := hP.dvsize + (tsize - nb))
          ⟨rfl, habs.2.1, habs.2.2.1, habs.2.2.2⟩ rfl (by simp only; omega) ?_).trans eS
        have : hP.dvsize = s.h.dvsize := by rw [p1]; rfl
        have := hf.gran; have := hnb.1
        omega
      · rename_i hndvp
        split at ebr
        · -- prepend-free: the old first chunk is a binned free chunk
          rename_i hninuse
          have hef := sg_not_inuse hninuse
          msimp at ebr
          obtain ⟨hU, eU, hS, eSF, eIns⟩ := ebr
          have hts16 := hshape_free eo heoE hef
          rw [← heoIa] at eU
          obtain ⟨hI2, eU2, hab2⟩ := sg_abs_unlink habs heom eU
          have hUf := unlink_chunk_frame eU
          -- the header after the free chunk already has PINUSE clear
          rw [hPtop] at hntp
          rw [hPdv] at hndvp
          obtain ⟨pre0, y, post0, _, hes0, _, _, _, hya, _, hyp, _⟩ := w.free_parts heoE hef (by omega)
          have hym : y ∈ hP.ents := (p3' y).2 (Or.inr (by rw [hes0]; simp))
          unfold set_free_with_pinuse at eSF
          msimp at eSF
          obtain ⟨hC, eC, eSS⟩ := eSF
          have hCU : hC = hU := by
            have := sg_clearPin_noop (h := hU) (x := y) (by rw [hUf.ents]; exact p2) (by rw [hUf.ents]; exact hym) hyp
            rw [hya, heoIa, eC] at this
            injection this
          subst hCU
          rw [heoIa] at eU2
          have hk1 : hS.dv = hC.dv := by
            unfold set_size_and_pinuse_of_free_chunk at eSS
            msimp at eSS
            obtain ⟨hw, ew, ef⟩ := eSS
            have k1 := writeHead_keeps ew
            unfold setFoot at ef
            split at ef
            · msimp at ef; subst ef; exact k1.2.2.1
            · msimp at ef
          right; right; right
          refine ⟨(isFree_iff.1 hef).1, by show sq.base ≠ hP.top; rw [hPtop]; exact hntp,
            by show sq.base ≠ hP.dv; rw [hPdv]; exact hndvp, hI2, hS, eU2, ?_, Or.inr ⟨?_, "prepend-free", eIns⟩⟩
          · refine (sg_abs_ssf (Q := { addr := tbase + nb, size := tsize - nb, cin := true, pin := true, pfoot := 0 })
              (n := tsize - nb + eo.size) hab2 rfl (by simp only; omega) ?_).trans eSS
            have := hf.gran; have := hnb.1
            omega
          · rw [hk1, hUf.dv, hPdv]; exact fun h => hdvq h.symm
        · -- prepend-inuse: the old first chunk is in use
          rename_i hinuse
          have hec : eo.cin = true := by
            unfold Ent.inuse at hinuse
            rw [heop] at hinuse
            cases hc : eo.cin with
            | true => rfl
            | false => rw [hc] at hinuse; simp at hinuse
          msimp at ebr
          obtain ⟨hS, eSF, eIns⟩ := ebr
          unfold set_free_with_pinuse at eSF
          msimp at eSF
          obtain ⟨hC, eC, eSS⟩ := eSF
          obtain ⟨hIC, eIC, habC⟩ := sg_abs_clearPin habs heom heoIa eC
          left
          refine ⟨hec, hS, "prepend-inuse", ?_, eIns⟩
          unfold set_free_with_pinuse
          rw [eIC]
          show set_size_and_pinuse_of_free_chunk hIC (tbase + nb) (tsize - nb) = _
          refine (sg_abs_ssf (Q := { addr := tbase + nb, size := tsize - nb, cin := true, pin := true, pfoot := 0 })
            (n := tsize - nb) habC rfl (by simp only; omega) ?_).trans eSS
          have := hf.gran; have := hnb.1
          omega
  have hcore := fr_core iI hu hx (by rw [hqs]; exact heoI) (Or.inl ⟨rfl, rfl, rfl, rfl, rfl⟩) (Or.inr ⟨rfl, hfwd⟩)
  obtain ⟨iF, hFr⟩ := gl_sinv_freeAtTab iI hcore.1 hu hcore.2
  refine ⟨iF, by omega, ?_⟩
  have hnoP : ∀ z ∈ s.h.ents, z.addr ≠ tbase ∧ z.addr ≠ tbase + nb := by
    intro z hz
    have := hpos0 z hz
    rcases hfresh z hz with h | h <;> omega
  refine ⟨by omega, by have := hf.page; omega, ?_, nb, Nat.le_refl _, ?_⟩
  · rintro z ⟨e, he, _⟩
    rw [show tbase + 16 - 16 = tbase by omega] at he
    exact (hnoP e (findEnt_some he).1).1 (findEnt_some he).2
  · intro a z
    rw [show tbase + 16 - 16 = tbase by omega]
    have h1 := hFr a z
    rw [show tbase + nb + 16 - 16 = tbase + nb by omega] at h1
    rw [h1, iU a z]
    constructor
    · rintro ⟨h | h | h, hne⟩
      · exact Or.inl h
      · exact Or.inr h
      · exact absurd h.1 hne
    · rintro (h | h)
      · refine ⟨Or.inl h, ?_⟩
        obtain ⟨e, he, _⟩ := h
        intro ha
        exact (hnoP e (findEnt_some he).1).2 (by rw [(findEnt_some he).2]; exact ha)
      · exact ⟨Or.inr (Or.inl h), by have := h.1; have := hnb.2.1; omega⟩

/-- **`sys_alloc`** keeps the invariant; it hands out one new user chunk, or nothing -/
theorem sg_sys_alloc_spec : sys_alloc_Spec := sg_sys_alloc_of_prepend sg_prepend_spec

/-! ## non-vacuity: every branch of `sys_alloc`, `sys_trim`, `release_unused_segments` on reachable states -/

/-- the state reached by `ops`, ready for an OS-level call with the answers `os` -/
def sgStart (ops : List (Op × List OsDir)) (os : List OsDir) : St :=
  { (fr_state ops).st with osq := os, evs := [], h := { (fr_state ops).st.h with tr := [] } }

theorem sg_start_sinv {ops : List (Op × List OsDir)} (h : fr_invB (fr_state ops) = true) (os : List OsDir) :
    SInv (sgStart ops os) :=
  sg_sinv_same (fr_inv_of_check h).1 ⟨rfl, rfl, rfl, rfl, rfl, rfl, rfl⟩ rfl rfl (fun _ => rfl)

def sgOsOkB (s : St) (tb len : Nat) : Bool :=
  decide (tb % 16 = 0) && decide (0 < tb) && decide (tb + len ≤ 2 ^ 64) &&
    (s.segs.all fun g => decide (tb + len ≤ g.base) || decide (g.base + g.size ≤ tb)) && decide (tb % 4096 = 0)

theorem sg_osOk_of_check {s : St} {tb len : Nat} (hq : s.osq = [.m (some tb)]) (h : sgOsOkB s tb len = true) :
    OsOk s len := by
  intro tbase q hq'
  rw [hq] at hq'
  injection hq' with h1 _
  injection h1 with h1
  injection h1 with h1
  subst h1
  unfold sgOsOkB at h
  simp only [Bool.and_eq_true, decide_eq_true_eq, List.all_eq_true, Bool.or_eq_true] at h
  exact ⟨⟨h.1.1.1.1, h.1.1.1.2, h.1.1.2, h.1.2⟩, h.2⟩

/-- on the state reached by `ops` the hypotheses of `sys_alloc_Spec` hold for the mapping `tb` and the padded
request `nb`, and `sys_alloc` serves the request through the branches tagged `tags` -/
def sgCaseAlloc (ops : List (Op × List OsDir)) (tb nb : Nat) (tags : List String) : Bool :=
  fr_invB (fr_state ops) && decide (nb % 16 = 0) && decide (32 ≤ nb) && decide (nb < 2 ^ 63) &&
  sgOsOkB (sgStart ops [.m (some tb)]) tb (sysLen nb) &&
  match sys_alloc (sgStart ops [.m (some tb)]) nb with
  | .ok (s', mem) => decide (mem ≠ 0) && tags.all fun t => s'.h.tr.contains t
  | .error _ => false

theorem sgCaseAlloc_sound {ops : List (Op × List OsDir)} {tb nb : Nat} {tags : List String}
    (h : sgCaseAlloc ops tb nb tags = true) :
    ∃ s s' mem, SInv s ∧ NbOk nb ∧ OsOk s (sysLen nb) ∧ sys_alloc s nb = .ok (s', mem) ∧ mem ≠ 0 ∧
      ∀ t ∈ tags, t ∈ s'.h.tr := by
  unfold sgCaseAlloc at h
  simp only [Bool.and_eq_true, decide_eq_true_eq] at h
  obtain ⟨⟨⟨⟨⟨h1, h2⟩, h3⟩, h4⟩, h5⟩, h6⟩ := h
  split at h6
  · rename_i s' mem heq
    simp only [Bool.and_eq_true, decide_eq_true_eq, List.all_eq_true, List.contains_iff_mem] at h6
    exact ⟨_, s', mem, sg_start_sinv h1 _, ⟨h2, h3, h4⟩, sg_osOk_of_check rfl h5, heq, h6.1, h6.2⟩
  · cases h6

def sgCaseTrim (ops : List (Op × List OsDir)) (os : List OsDir) (tag : String) : Bool :=
  fr_invB (fr_state ops) &&
  match sys_trim (sgStart ops os) 0 with
  | .ok (s', _) => s'.h.tr.contains tag
  | .error _ => false

theorem sgCaseTrim_sound {ops : List (Op × List OsDir)} {os : List OsDir} {tag : String}
    (h : sgCaseTrim ops os tag = true) :
    ∃ s s' b, SInv s ∧ sys_trim s 0 = .ok (s', b) ∧ tag ∈ s'.h.tr := by
  unfold sgCaseTrim at h
  simp only [Bool.and_eq_true] at h
  obtain ⟨h1, h2⟩ := h
  split at h2
  · rename_i s' b heq
    exact ⟨_, s', b, sg_start_sinv h1 _, heq, List.contains_iff_mem.1 h2⟩
  · cases h2

def sgCaseRel (ops : List (Op × List OsDir)) (os : List OsDir) (tag : String) (nsegs : Nat) : Bool :=
  fr_invB (fr_state ops) &&
  match release_unused_segments (sgStart ops os) with
  | .ok (s', _) => s'.h.tr.contains tag && decide (s'.segs.length = nsegs)
  | .error _ => false

theorem sgCaseRel_sound {ops : List (Op × List OsDir)} {os : List OsDir} {tag : String} {n : Nat}
    (h : sgCaseRel ops os tag n = true) :
    ∃ s s' r, SInv s ∧ release_unused_segments s = .ok (s', r) ∧ tag ∈ s'.h.tr ∧ s'.segs.length = n := by
  unfold sgCaseRel at h
  simp only [Bool.and_eq_true] at h
  obtain ⟨h1, h2⟩ := h
  split at h2
  · rename_i s' r heq
    simp only [Bool.and_eq_true, decide_eq_true_eq] at h2
    exact ⟨_, s', r, sg_start_sinv h1 _, heq, List.contains_iff_mem.1 h2.1, h2.2⟩
  · cases h2

/-- blocks 1, 5 freed into a `dv` that starts the segment -/
def sgOpsDv : List (Op × List OsDir) :=
  [(.malloc 1 100 8, [.m (some 2097152)]), (.malloc 2 100 8, []), (.malloc 3 100 8, []), (.free 2, []),
   (.malloc 5 8 8, []), (.free 5, []), (.free 1, [])]

/-- two segments; the old one holds only a free chunk, its record chunk and fenceposts -/
def sgOpsTwo : List (Op × List OsDir) :=
  [(.malloc 1 100 8, [.m (some 1048576)]), (.malloc 2 100000 8, [.m (some 4194304)]), (.free 1, [])]

set_option maxRecDepth 100000 in
/-- the hypotheses of `sg_sys_alloc_spec` are satisfiable on every branch of `sys_alloc_place` -/
example :
    sgCaseAlloc [] 1048576 112 ["sys-init"] = true ∧
    sgCaseAlloc [(.malloc 1 100 8, [.m (some 1048576)])] 1114112 70000 ["sys-extend"] = true ∧
    sgCaseAlloc [(.malloc 1 100 8, [.m (some 1048576)])] 4194304 112 ["sys-addseg", "addseg-oldtop-binned"] = true ∧
    sgCaseAlloc [(.malloc 1 65432 8, [.m (some 1048576)])] 4194304 112 ["sys-addseg", "addseg-oldtop-consumed"] = true ∧
    sgCaseAlloc [(.malloc 1 100 8, [.m (some 2097152)])] 2031616 112 ["sys-prepend", "prepend-inuse"] = true ∧
    sgCaseAlloc [(.malloc 1 100 8, [.m (some 2097152)]), (.malloc 2 100 8, []), (.free 1, [])] 2031616 112
      ["sys-prepend", "prepend-free"] = true ∧
    sgCaseAlloc sgOpsDv 2031616 112 ["sys-prepend", "prepend-dv"] = true ∧
    sgCaseAlloc [(.malloc 1 100 8, [.m (some 2097152)]), (.free 1, [])] 2031616 112 ["sys-prepend", "prepend-top"] = true :=
  ⟨by decide, by decide, by decide, by decide, by decide, by decide, by decide, by decide⟩

set_option maxRecDepth 100000 in
/-- … of `sg_sys_trim_spec` (the head segment shrinks) and `sg_release_unused_segments_spec` (a segment is
unmapped; the OS refuses and the chunk goes back into its tree bin) -/
example :
    sgCaseTrim [(.malloc 1 100000 8, [.m (some 1048576)]), (.free 1, [])] [.r true] "trimmed" = true ∧
    sgCaseRel sgOpsTwo [.u true] "segment-released" 1 = true ∧
    sgCaseRel sgOpsTwo [.u false] "segment-unmap-refused" 2 = true :=
  ⟨by decide, by decide, by decide⟩

/-! ## why `TailOk` had to be added: a kernel-checked counterexample

A state satisfying `WF`, `RecsOk`, `FenceOk`, `HeadOk`, `RecIn` (everything of `SInv` but `TailOk`) in which a
live 32-byte chunk hides in the last 80 bytes of a non-head segment, behind the segment's only other chunk,
a free one (`dv`).  `free` of the block next to `top` triggers `sys_trim`, whose `release_unused_segments`
looks at the first chunk only, unmaps the segment — and the live chunk with it: `liveOk` fails. -/

def sgCexSt : St :=
  { h := {
      ents := [
        { addr := 1048576, size := 65472, cin := false, pin := true, pfoot := 0 },
        { addr := 1114048, size := 32, cin := true, pin := false, pfoot := 65472 },
        { addr := 1114080, size := 16, cin := true, pin := true, pfoot := 0 },
        { addr := 1114096, size := 8, cin := true, pin := true, pfoot := 0 },
        { addr := 4194304, size := 112, cin := true, pin := true, pfoot := 0 },
        { addr := 4194416, size := 65344, cin := false, pin := true, pfoot := 0 },
        { addr := 4259760, size := 80, cin := false, pin := false, pfoot := 0 }],
      sbins := emptyBins, tbins := emptyTrees, dv := 1048576, dvsize := 65472,
      top := 4194416, topsize := 65344, tr := [] },
    segs := [{ base := 4194304, size := 65536, recAt := 0 }, { base := 1048576, size := 65536, recAt := 1114096 }],
    footprint := 131072, maxfp := 131072, trim_check := 0, release_checks := 4095, least_addr := 1048576,
    osq := [], evs := [] }

def sgCex : Hist :=
  { st := sgCexSt,
    live := [{ id := 1, ptr := 1114064, size := 16, align := 8 }, { id := 2, ptr := 4194320, size := 100, align := 8 }] }

theorem sg_ok_of_matchB {α : Type} {x : M α} {p : α → Bool}
    (h : (match x with | .ok v => p v | .error _ => false) = true) : ∃ v, x = .ok v ∧ p v = true := by
  cases x with
  | ok v => exact ⟨v, rfl, h⟩
  | error e => cases h

set_option maxRecDepth 40000 in
theorem sg_tailOk_needed :
    WF sgCex ∧ RecsOk sgCex.st ∧ FenceOk sgCex.st ∧ HeadOk sgCex.st ∧ RecIn sgCex.st ∧ ¬ TailOk sgCex.st ∧
    ∃ hs' out, sgCex.step (.free 2) [.r true, .u true] = .ok (hs', out) ∧ ¬ WF hs' := by
  refine ⟨by unfold WF; decide, gl_recsOk_of_check (by decide), gl_fenceOk_of_check (by decide),
    gl_headOk_of_check (by decide), gl_recIn_of_check (by decide), ?_, ?_⟩
  · intro h
    have := h { base := 1048576, size := 65536, recAt := 1114096 } (by decide) (by decide)
      { addr := 1114048, size := 32, cin := true, pin := false, pfoot := 65472 } (by decide) (by decide)
    revert this
    decide
  · obtain ⟨v, hv, hp⟩ := sg_ok_of_matchB (x := sgCex.step (.free 2) [.r true, .u true])
      (p := fun v => !wfb v.1) (by decide)
    simp only [Bool.not_eq_true'] at hp
    exact ⟨v.1, v.2, hv, by unfold WF; rw [hp]; decide⟩

end TinyVerif.Dl
