import TinyVerif.Proofs.DlIndSeg
/-!
# The functions that change the segment list / talk to the OS (tag `sg_`)

`sys_alloc_Spec'` (= `sys_alloc_Spec` of `DlIndSpec.lean` with the mmap contract strengthened to page
alignment, `OsOk'`), `release_unused_segments_Spec`, `sys_trim_Spec`.
-/
namespace TinyVerif.Dl

/-- the mmap contract with page alignment (what `segsOk` of a new segment needs; the real `mmap` returns
page-aligned addresses) -/
def OsOk' (s : St) (len : Nat) : Prop :=
  ∀ tbase q, s.osq = .m (some tbase) :: q → OsFresh s tbase len ∧ tbase % 4096 = 0

def sys_alloc_Spec' : Prop :=
  ∀ {s s' : St} (_ : SInv s) {nb mem : Nat}, NbOk nb → OsOk' s (sysLen nb) → sys_alloc s nb = .ok (s', mem) →
    SInv s' ∧ (mem ≠ 0 → Alloc s s' nb mem) ∧ (mem = 0 → SameUsers s s')

/-- the size of the mapping: a multiple of the granularity with room for the request, the foot and alignment -/
theorem sg_sysLen {nb : Nat} (hnb : NbOk nb) : sysLen nb % 65536 = 0 ∧ nb + 96 ≤ sysLen nb ∧ sysLen nb < nb + 96 + 65536 := by
  obtain ⟨_, _, h3⟩ := hnb
  unfold sysLen
  rw [top_foot_size_eq, MALLOC_ALIGNMENT_eq, DEFAULT_GRANULARITY_eq, align_up_64k _ (by omega)]
  omega

/-! ## `sys-init`: first initialisation -/

/-- a state whose `top` is null has no segment, no header, nothing free -/
theorem sg_empty_of_top0 {s : St} (w : WFS s) (ht : s.h.top = 0) :
    s.segs = [] ∧ s.h.ents = [] ∧ s.h.dv = 0 ∧ s.h.dvsize = 0 ∧ binned s.h = [] := by
  have htop := w.top
  unfold topOk at htop
  cases hs : s.segs with
  | cons g rest =>
    rw [hs] at htop
    simp only [Bool.and_eq_true, decide_eq_true_eq] at htop
    exact absurd ht htop.1.1.1.1.1.1
  | nil =>
    rw [hs] at htop
    simp only [Bool.and_eq_true, decide_eq_true_eq, List.isEmpty_iff] at htop
    have hents : s.h.ents = [] := htop.1.1.2
    have hfl := ((freeListOk_iff s.h).1 w.freeList).2.2
    rw [hents] at hfl
    have hnil : Dl.freeList s.h = [] := by
      cases hl : Dl.freeList s.h with
      | nil => rfl
      | cons a l =>
        have := hfl a (by rw [hl]; exact List.mem_cons_self)
        simp [isFreeAt, findEnt] at this
    unfold Dl.freeList at hnil
    rw [if_pos ht] at hnil
    simp only [List.nil_append, List.append_eq_nil_iff] at hnil
    have hdv : s.h.dv = 0 := by
      by_cases h0 : s.h.dv = 0
      · exact h0
      · rw [if_neg h0] at hnil; exact absurd hnil.1 (by simp)
    have hd := w.dv
    unfold dvOk at hd
    rw [if_pos hdv] at hd
    exact ⟨rfl, hents, hdv, by simpa using hd, hnil.2⟩

/-- the state after the first `init_top`: one segment, `top` filling it, the foot word -/
theorem sg_init_sinv {s s3 : St} (w : WFS s) (hbin : binned s.h = []) {tbase tsize : Nat}
    (hb : tbase % 4096 = 0) (hpos : 0 < tbase) (hend : tbase + tsize ≤ 2 ^ 64) (hts : tsize % 4096 = 0)
    (hts2 : 96 ≤ tsize)
    (hents : s3.h.ents = [{ addr := tbase, size := tsize - 80, cin := false, pin := true, pfoot := 0 },
      { addr := tbase + (tsize - 80), size := 80, cin := false, pin := false, pfoot := 0 }])
    (hsb : s3.h.sbins = s.h.sbins) (htb : s3.h.tbins = s.h.tbins) (hdv : s3.h.dv = 0) (hdvs : s3.h.dvsize = 0)
    (htop : s3.h.top = tbase) (htops : s3.h.topsize = tsize - 80)
    (hsegs : s3.segs = [{ base := tbase, size := tsize, recAt := 0 }]) (hla : s3.least_addr ≤ tbase) :
    SInv s3 := by
  have hbinned : binned s3.h = [] := by rw [binned_congr hsb htb]; exact hbin
  have hfl : Dl.freeList s3.h = [tbase] := by
    unfold Dl.freeList
    rw [hbinned, htop, hdv, if_neg (by omega)]; rfl
  have hfr : ∀ a ∈ binned s.h, findEnt s3.h.ents a = findEnt s.h.ents a := by
    intro a ha; rw [hbin] at ha; cases ha
  refine ⟨⟨?_, ?_, ?_, ?_, ?_, ?_, ?_, ?_, ?_, ?_, ?_⟩, ?_, ?_, ?_⟩
  · rw [hents]; simp only [entsOk, Bool.and_eq_true, decide_eq_true_eq]; omega
  · rw [hents]
    simp only [shapeOk, List.all_cons, List.all_nil, Bool.and_true, Bool.and_eq_true, Bool.or_eq_true,
      decide_eq_true_eq]
    exact ⟨Or.inr ⟨⟨by omega, by omega⟩, by omega⟩, Or.inr ⟨⟨by omega, by omega⟩, by omega⟩⟩
  · rw [hents, hsegs]
    simp only [List.all_cons, List.all_nil, List.any_cons, List.any_nil, inSeg, Bool.and_true, Bool.or_false,
      Bool.and_eq_true, decide_eq_true_eq]
    omega
  · rw [hents, hsegs]
    have h1 : inSeg { base := tbase, size := tsize, recAt := 0 }
        { addr := tbase, size := tsize - 80, cin := false, pin := true, pfoot := 0 } = true := by
      rw [inSeg_iff]; simp only; omega
    have h2 : inSeg { base := tbase, size := tsize, recAt := 0 }
        { addr := tbase + (tsize - 80), size := 80, cin := false, pin := false, pfoot := 0 } = true := by
      rw [inSeg_iff]; simp only; omega
    simp only [List.all_cons, List.all_nil, Bool.and_true, segEnts, List.filter, h1, h2, tiles, isTrailerEnd,
      Bool.and_eq_true, Bool.or_eq_true, decide_eq_true_eq]
    omega
  · rw [hents, hsegs, htop]
    have h1 : inSeg { base := tbase, size := tsize, recAt := 0 }
        { addr := tbase, size := tsize - 80, cin := false, pin := true, pfoot := 0 } = true := by
      rw [inSeg_iff]; simp only; omega
    have h2 : inSeg { base := tbase, size := tsize, recAt := 0 }
        { addr := tbase + (tsize - 80), size := 80, cin := false, pin := false, pfoot := 0 } = true := by
      rw [inSeg_iff]; simp only; omega
    simp [segEnts, List.filter, h1, h2, tagsOk, isFree]
  · rw [freeListOk_iff, hfl, hents]
    refine ⟨by simp, ?_, ?_⟩
    · intro e he hf
      simp only [List.mem_cons, List.not_mem_nil, or_false] at he
      rcases he with rfl | rfl
      · simp
      · simp [isFree] at hf
    · intro a ha
      simp only [List.mem_cons, List.not_mem_nil, or_false] at ha
      subst ha
      simp [isFreeAt, findEnt, isFree]
  · rw [hsb, (bins_frame hfr).1]; exact w.sbins
  · rw [htb, (bins_frame hfr).2]; exact w.tbins
  · unfold dvOk; rw [if_pos hdv, hdvs]; rfl
  · unfold topOk
    rw [hsegs, htop, htops, hents]
    simp only [findEnt, if_true, top_foot_size_eq]
    rw [if_neg (by omega)]
    simp only [if_true, isFree, Bool.and_eq_true, decide_eq_true_eq, Bool.not_eq_true', Bool.not_false]
    omega
  · unfold segsOk
    rw [hsegs]
    simp only [segsDisjoint, List.all_nil, List.all_cons, Bool.and_true, Bool.and_eq_true, decide_eq_true_eq,
      top_foot_size_eq]
    omega
  · intro g hg hne
    rw [hsegs, List.mem_singleton] at hg
    subst hg; exact absurd rfl hne
  · intro pre x y post hes h8 _
    have hy : y ∈ s3.h.ents := by rw [hes]; simp
    rw [hents] at hy
    simp only [List.mem_cons, List.not_mem_nil, or_false] at hy
    rcases hy with rfl | rfl <;> simp only at h8 <;> omega
  · intro g hg hne
    rw [hsegs, List.mem_singleton] at hg
    subst hg; exact absurd rfl hne

end TinyVerif.Dl
