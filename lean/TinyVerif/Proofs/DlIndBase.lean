import TinyVerif.Proofs.DlFresh
/-!
# Foundation for the inductiveness of `WF` (`wf_step`)

`WF hs` (`Model/DlmallocWF.lean`) is a conjunction of twelve executable checks.  Eleven of them
talk about the allocator state `hs.st : St` only; the twelfth (`liveOk`) relates the header table to
the list of live blocks, which changes only at the level of `Hist.step`.  This file provides what
every branch proof of `wf_step` needs; `Proofs/DlIndDvTop.lean` (pilot: the three branches of
`malloc_dv_top`) and `Proofs/DlIndSmall.lean` (`small-bin`) show how it is used.

## Architecture

1. **`WFS s`** — the eleven state-level conjuncts (`wf_iff_wfs : WF hs ↔ WFS hs.st ∧ liveOk hs`).
   Branch theorems have the form
   `WFS s → branch s.h … = .ok h' → WFS { s with h := h' } ∧ facts`
   where `facts` describe the in-use headers (`cinSet`, `InusePreserved`, bundled as `AllocAt` /
   `AllocFacts` for allocations) — enough to re-establish `liveOk` once per entry point at the
   `Hist.step` level (`liveOk_alloc`, §7).

2. **Exact table surgery** (§2).  Every heap primitive rewrites a window `mid` of consecutive entries of
   the address-sorted table `ents = pre ++ mid ++ post` into `mid'`:
     * `writeHead` at the start of `mid`, size swallowing all of `mid`      (replace / merge),
     * `writeHead` strictly inside the last entry of `pre` with `mid = []`   (split),
     * `setFoot` / `orPin` / `clearPin` on one entry                        (`modEnt_at`).
   `putEnt_window` is the one shape lemma for `putEnt` (`putEnt_replace` / `_split` / `_merge` are its
   three readings on a sorted table); `writeHead_window(_ok)`, `setFoot_at(_ok)`, `orPin_at`,
   `clearPin_at(_ok)` give the resulting heap *as an equation*, so a branch proof first computes the
   final table `pre ++ mid' ++ post` explicitly and `subst`s it.  The composite primitives on the
   window "free chunk `x`, in-use successor `y`" are done once: `set_inuse_and_pinuse_at`,
   `split_inuse_free_at`, `split_free_inuse_at`.

3. **Window replacement** (§3, §4; `struct_window`): from `StructOk ents segs top` (the five structural
   conjuncts `entsOk`, `shapeOk`, `allInSegs`, `tiles`, `tagsOk`) for `pre ++ (m :: ms) ++ post`
   conclude `StructOk (pre ++ (m' :: ms') ++ post) segs top'`, under *local* side conditions:
     * `contig (m' :: ms') m.addr`, `endE m' ms' = endE m ms`   (same address range, gap-free),
     * `shapeOk (m' :: ms')`  (this also yields the `8 ≤ size` conditions of `tiles`),
     * `isTrailerEnd (lastE m ms) → isTrailerEnd (lastE m' ms')`,
     * boundary tags: `HeadEq m m'` (first header as seen from its predecessor), `TagEq` of the last
       headers (as seen from the successor), the local chain `tagsFrom top' m' ms'`, and — if the
       `top` the check runs with moves — that no header outside the window sits at the old or new
       `top`.
   Choose the window so that its last header keeps the flags its successor looks at (in practice:
   include the in-use chunk after the chunk operated on, or the foot word after `top`).  The pieces
   (`entsOk_window`, `shapeOk_window`, `segEnts_window(_other)`, `tiles_window`, `tagsOk_window`, …)
   are exported too; `tiles_split`, `tagsOk_split`, `tagsFrom_append` decompose the two recursive checks.

4. **Frames** (§5): `sbinsFrom`, `tbinsFrom`, `dvOk`, `topOk`, `freeListOk` look at the table only
   through `findEnt` at the binned addresses / `dv` / `top` / the foot.  `findEnt_outer(_eq)`: headers
   outside the window are found unchanged.  `bins_frame` (+ `bins_window`, `bins_window'`),
   `dvOk_window`, `topOk_window` transfer the conjuncts; `freeListOk_iff_set` reads the free-list
   conjunct as "the free list enumerates `freeSet ents` without repetition", `freeListOk_window` /
   `freeListOk_replace` transfer it (`nodup_mid_replace`, `mem_mid_replace` for lists of the shape
   `A ++ (M ++ B)`; `joinAll_set_split`, `sbinsFrom_set_sub`, `sbinsFrom_getElem` for small-bin surgery).

5. **Neighbours** (§4): `next_entry` (a header that is not a trailer end is followed, in the table, by
   the header sitting exactly at its end, in the same segment, with `linkOk`), `linkOk_free`,
   `linkOk_top`, `WFS.free_parts` / `WFS.freeAt`, `WFS.dv_parts`, `WFS.top_parts`, `WFS.binned_free`.

6. **Table changes done once** (§6): `exhaust_table`, `split_table` (8 `malloc` branches),
   `unuse_table`, `merge_fwd_table` (the `free` / `dispose_chunk` side: turning an in-use chunk into a
   free one, merging it with the free chunk after it).

7. **`liveOk`** (§7): `liveOk_alloc`.  NOTE: `WF` as defined is *not* inductive; two conjuncts are
   missing (`RecsOk`, `FenceOk`; kernel-checked counterexamples in `Proofs/DlIndCex.lean`).

## Not covered here
Steps that change the *segment list* (`sys_alloc_place`, `add_segment`, `prepend_alloc`,
`releaseLoop` + `dropEnts`, `trim_top`) need lemmas about `segEnts` / `tiles` / `segsOk` under a
changed `segs` — `struct_window` keeps `segs` fixed.  Tree-bin surgery (`Tree.insert`, `Tree.remove`,
`unlinkRoot` vs. `trieOk`, `nodupB nodeSizes`, `Tree.members`) is pure bin bookkeeping to be plugged
into `bins_window'` / `freeListOk_window`.
-/
namespace TinyVerif.Dl

/-! ## 1. state-level well-formedness -/

/-- the eleven conjuncts of `WF` that talk about the allocator state only -/
structure WFS (s : St) : Prop where
  ents : entsOk s.h.ents = true
  shape : shapeOk s.h.ents = true
  inSegs : (s.h.ents.all fun e => s.segs.any fun g => inSeg g e) = true
  tiles : (s.segs.all fun g => tiles (segEnts s.h.ents g) g.base (g.base + g.size)) = true
  tags : (s.segs.all fun g => tagsOk s.h.top true (segEnts s.h.ents g)) = true
  freeList : freeListOk s.h = true
  sbins : (decide (s.h.sbins.length = 32) && sbinsFrom s.h.ents 0 s.h.sbins) = true
  tbins : (decide (s.h.tbins.length = 32) && tbinsFrom s.h.ents 0 s.h.tbins) = true
  dv : dvOk s.h = true
  top : topOk s = true
  segs : segsOk s = true

theorem wf_iff_wfs (hs : Hist) : WF hs ↔ WFS hs.st ∧ liveOk hs = true := by
  constructor
  · intro h
    have p := h.parts
    exact ⟨⟨p.ents, p.shape, p.inSegs, p.tiles, p.tags, p.freeList, p.sbins, p.tbins, p.dv, p.top, p.segs⟩, p.live⟩
  · rintro ⟨w, hl⟩
    unfold WF wfb wfParts
    simp only [List.all_cons, List.all_nil, Bool.and_true, Bool.and_eq_true]
    exact ⟨w.ents, w.shape, w.inSegs, w.tiles, w.tags, w.freeList, Bool.and_eq_true_iff.1 w.sbins,
      Bool.and_eq_true_iff.1 w.tbins, w.dv, w.top, w.segs, hl⟩

/-- `WFS` does not look at the ghost fields, the OS queue, `maxfp`, `trim_check`, `release_checks` -/
theorem WFS.of_same {s s' : St} (w : WFS s) (hh : SameHeap s'.h s.h) (hsegs : s'.segs = s.segs)
    (hfp : s'.footprint = s.footprint) (hla : s'.least_addr = s.least_addr) : WFS s' := by
  obtain ⟨h1, h2, h3, h4, h5, h6, h7⟩ := hh
  have hfl : Dl.freeList s'.h = Dl.freeList s.h := by unfold Dl.freeList binned; rw [h2, h3, h4, h6]
  refine ⟨?_, ?_, ?_, ?_, ?_, ?_, ?_, ?_, ?_, ?_, ?_⟩
  · rw [h1]; exact w.ents
  · rw [h1]; exact w.shape
  · rw [h1, hsegs]; exact w.inSegs
  · rw [h1, hsegs]; exact w.tiles
  · rw [h1, hsegs, h6]; exact w.tags
  · unfold freeListOk; rw [hfl, h1]; exact w.freeList
  · rw [h1, h2]; exact w.sbins
  · rw [h1, h3]; exact w.tbins
  · unfold dvOk; rw [h1, h4, h5]; exact w.dv
  · unfold topOk; rw [hsegs, h1, h6, h7, hfp]; exact w.top
  · unfold segsOk; rw [hsegs, hla]; exact w.segs

/-- the state an operation starts from is well-formed iff the state it was started in is -/
theorem WFS.start {hs : Hist} (w : WFS hs.st) (os : List OsDir) : WFS (hs.start os) :=
  w.of_same ⟨rfl, rfl, rfl, rfl, rfl, rfl, rfl⟩ rfl rfl rfl

/-- addresses of the in-use headers (live chunks, segment records, fenceposts) -/
def cinSet (es : List Ent) : List Nat := (es.filter (·.cin)).map (·.addr)

theorem cinSet_append (a b : List Ent) : cinSet (a ++ b) = cinSet a ++ cinSet b := by
  simp [cinSet, List.filter_append]

theorem mem_cinSet {es : List Ent} {a : Nat} : a ∈ cinSet es ↔ ∃ e ∈ es, e.cin = true ∧ e.addr = a := by
  simp [cinSet, and_assoc]

/-- every in-use header of `es` is still an in-use header of the same size in `es'` -/
def InusePreserved (es es' : List Ent) : Prop :=
  ∀ e ∈ es, e.cin = true → ∃ e', findEnt es' e.addr = some e' ∧ e'.size = e.size ∧ e'.cin = true

/-! ## 2. the header table as a sorted list -/

theorem entsOk_iff (l : List Ent) :
    entsOk l = true ↔ (∀ e ∈ l, 0 < e.size) ∧ l.Pairwise (fun a b => a.addr + a.size ≤ b.addr) := by
  induction l with
  | nil => simp [entsOk]
  | cons a rest ih =>
    cases rest with
    | nil => simp [entsOk]
    | cons b r =>
      constructor
      · intro h
        have hle := entsOk_head_le h
        simp only [entsOk, Bool.and_eq_true, decide_eq_true_eq] at h
        obtain ⟨⟨h1, h2⟩, h3⟩ := h
        obtain ⟨i1, i2⟩ := ih.1 h3
        refine ⟨?_, List.pairwise_cons.2 ⟨hle, i2⟩⟩
        intro e he
        cases he with
        | head => exact h2
        | tail _ he' => exact i1 e he'
      · rintro ⟨h1, h2⟩
        obtain ⟨p1, p2⟩ := List.pairwise_cons.1 h2
        simp only [entsOk, Bool.and_eq_true, decide_eq_true_eq]
        refine ⟨⟨p1 b List.mem_cons_self, h1 a List.mem_cons_self⟩, ?_⟩
        exact ih.2 ⟨fun e he => h1 e (List.mem_cons_of_mem _ he), p2⟩

theorem entsOk_append {l1 l2 : List Ent} :
    entsOk (l1 ++ l2) = true ↔ entsOk l1 = true ∧ entsOk l2 = true ∧
      ∀ a ∈ l1, ∀ b ∈ l2, a.addr + a.size ≤ b.addr := by
  simp only [entsOk_iff, List.pairwise_append, List.mem_append]
  constructor
  · rintro ⟨h1, h2, h3, h4⟩
    exact ⟨⟨fun e he => h1 e (Or.inl he), h2⟩, ⟨fun e he => h1 e (Or.inr he), h3⟩, h4⟩
  · rintro ⟨⟨h1, h2⟩, ⟨h3, h4⟩, h5⟩
    exact ⟨fun e he => he.elim (h1 e) (h3 e), h2, h4, h5⟩

theorem entsOk_pos {l : List Ent} (h : entsOk l = true) : ∀ e ∈ l, 0 < e.size := ((entsOk_iff l).1 h).1

/-- entries of a sorted table are determined by their address -/
theorem entsOk_addr_inj {es : List Ent} (h : entsOk es = true) {u v : Ent} (hu : u ∈ es) (hv : v ∈ es)
    (huv : u.addr = v.addr) : u = v := by
  have h1 := entsOk_find u hu h
  have h2 := entsOk_find v hv h
  rw [huv, h2] at h1
  injection h1 with h1
  exact h1.symm

/-- no header strictly inside a chunk -/
theorem entsOk_no_inside {es : List Ent} (h : entsOk es = true) {x : Ent} (hx : x ∈ es) {a : Nat}
    (h1 : x.addr < a) (h2 : a < x.addr + x.size) : ∀ e ∈ es, e.addr ≠ a := by
  intro e he hea
  have sep := entsOk_sep h
  rcases Nat.lt_trichotomy e.addr x.addr with hlt | heq | hgt
  · omega
  · omega
  · have := sep x hx e he hgt; omega

/-! ### `findEnt` -/

theorem findEnt_none {l : List Ent} {a : Nat} (h : ∀ e ∈ l, e.addr ≠ a) : findEnt l a = none := by
  induction l with
  | nil => rfl
  | cons x xs ih =>
    simp only [findEnt]
    rw [if_neg (h x List.mem_cons_self)]
    exact ih (fun e he => h e (List.mem_cons_of_mem _ he))

theorem findEnt_isSome {l : List Ent} {a : Nat} {e : Ent} (h : findEnt l a = some e) : ∃ x ∈ l, x.addr = a :=
  ⟨e, (findEnt_some h).1, (findEnt_some h).2⟩

theorem findEnt_skip {pre l : List Ent} {a : Nat} (h : ∀ e ∈ pre, e.addr ≠ a) :
    findEnt (pre ++ l) a = findEnt l a := by
  induction pre with
  | nil => rfl
  | cons x xs ih =>
    simp only [List.cons_append, findEnt]
    rw [if_neg (h x List.mem_cons_self)]
    exact ih (fun e he => h e (List.mem_cons_of_mem _ he))

theorem findEnt_head {x : Ent} {l : List Ent} : findEnt (x :: l) x.addr = some x := by
  simp [findEnt]

theorem findEnt_cons_ne {x : Ent} {l : List Ent} {a : Nat} (h : x.addr ≠ a) : findEnt (x :: l) a = findEnt l a := by
  simp [findEnt, h]

theorem findEnt_append_left {l1 l2 : List Ent} {a : Nat} {e : Ent} (h : findEnt l1 a = some e) :
    findEnt (l1 ++ l2) a = some e := by
  induction l1 with
  | nil => simp [findEnt] at h
  | cons x xs ih =>
    simp only [List.cons_append, findEnt] at h ⊢
    split
    · rename_i hx; rw [if_pos hx] at h; exact h
    · rename_i hx; rw [if_neg hx] at h; exact ih h

/-- `findEnt` looks at a window only when asked for one of its addresses -/
theorem findEnt_window {pre mid mid' post : List Ent} {a : Nat}
    (h1 : ∀ e ∈ mid, e.addr ≠ a) (h2 : ∀ e ∈ mid', e.addr ≠ a) :
    findEnt (pre ++ mid' ++ post) a = findEnt (pre ++ mid ++ post) a := by
  induction pre with
  | nil =>
    simp only [List.nil_append]
    rw [findEnt_skip h1, findEnt_skip h2]
  | cons x xs ih =>
    simp only [List.cons_append, findEnt]
    split
    · rfl
    · exact ih

/-- the entry found at an address of the middle of a sorted table -/
theorem findEnt_mid {pre post : List Ent} {x : Ent} (h : entsOk (pre ++ x :: post) = true) :
    findEnt (pre ++ x :: post) x.addr = some x :=
  entsOk_find x (by simp) h

theorem entsOk_pre_lt {pre rest : List Ent} {m : Ent} (h : entsOk (pre ++ m :: rest) = true) :
    ∀ p ∈ pre, p.addr + p.size ≤ m.addr ∧ p.addr < m.addr := by
  intro p hp
  have := (entsOk_append.1 h).2.2 p hp m List.mem_cons_self
  have := entsOk_pos (entsOk_append.1 h).1 p hp
  omega

/-- what sortedness says around two consecutive entries -/
theorem entsOk_mid2 {pre post : List Ent} {x y : Ent} (h : entsOk (pre ++ x :: y :: post) = true) :
    (∀ q ∈ pre, q.addr + q.size ≤ x.addr ∧ q.addr < x.addr) ∧ 0 < x.size ∧ x.addr + x.size ≤ y.addr ∧
      0 < y.size ∧ (∀ q ∈ post, y.addr + y.size ≤ q.addr ∧ y.addr < q.addr) := by
  have h1 := entsOk_pre_lt h
  obtain ⟨_, h2, _⟩ := entsOk_append.1 h
  have hx := entsOk_pos h2 x List.mem_cons_self
  have hy := entsOk_pos h2 y (List.mem_cons_of_mem _ List.mem_cons_self)
  have hxy := entsOk_head_le h2 y List.mem_cons_self
  have h3 := entsOk_head_le (entsOk_tail h2)
  exact ⟨h1, hx, hxy, hy, fun q hq => ⟨h3 q hq, by have := h3 q hq; omega⟩⟩

/-! ### `modEnt`, `putEnt`: exact results -/

theorem modEnt_at {f : Ent → Ent} {pre post : List Ent} {x : Ent} (h : ∀ p ∈ pre, p.addr ≠ x.addr) :
    modEnt f (pre ++ x :: post) x.addr = some (pre ++ f x :: post) := by
  induction pre with
  | nil => simp [modEnt]
  | cons p ps ih =>
    simp only [List.cons_append, modEnt]
    rw [if_neg (h p List.mem_cons_self), ih (fun q hq => h q (List.mem_cons_of_mem _ hq))]

theorem modEnt_none {f : Ent → Ent} {l : List Ent} {a : Nat} (h : ∀ e ∈ l, e.addr ≠ a) : modEnt f l a = none := by
  induction l with
  | nil => rfl
  | cons x xs ih =>
    simp only [modEnt]
    rw [if_neg (h x List.mem_cons_self), ih (fun e he => h e (List.mem_cons_of_mem _ he))]

/-- in a sorted table: `modEnt` at the address of an entry rewrites exactly that entry -/
theorem modEnt_mid {f : Ent → Ent} {pre post : List Ent} {x : Ent} (h : entsOk (pre ++ x :: post) = true) :
    modEnt f (pre ++ x :: post) x.addr = some (pre ++ f x :: post) :=
  modEnt_at (fun p hp => by have := (entsOk_pre_lt h p hp).2; omega)

theorem putEnt_skip {pre l : List Ent} {e : Ent} (h : ∀ p ∈ pre, p.addr < e.addr) :
    putEnt (pre ++ l) e = pre ++ putEnt l e := by
  induction pre with
  | nil => rfl
  | cons x xs ih =>
    simp only [List.cons_append, putEnt]
    rw [if_pos (h x List.mem_cons_self), ih (fun q hq => h q (List.mem_cons_of_mem _ hq))]

theorem dropWhile_window {P : Ent → Bool} {ms post : List Ent} (h1 : ∀ m ∈ ms, P m = true)
    (h2 : ∀ q ∈ post, P q = false) : (ms ++ post).dropWhile P = post := by
  induction ms with
  | nil =>
    cases post with
    | nil => rfl
    | cons q qs => simp [h2 q List.mem_cons_self]
  | cons m ms ih =>
    simp only [List.cons_append, List.dropWhile, h1 m List.mem_cons_self]
    exact ih (fun x hx => h1 x (List.mem_cons_of_mem _ hx))

/-- **the one shape lemma for `putEnt`**: writing the header `e` over a window `ms` of a table
`pre ++ ms ++ post` — every entry of `pre` lies below `e.addr`, every entry of `ms` starts inside
`[e.addr, e.addr + e.size)`, every entry of `post` starts at or after the end of `e` — leaves
`pre ++ e :: post`.  `ms = [x]` with `x.addr = e.addr`: replace; `ms = x₁ … x_k`: merge;
`ms = []` (with the chunk being split as the last entry of `pre`): insert / split. -/
theorem putEnt_window {pre ms post : List Ent} {e : Ent}
    (hpre : ∀ p ∈ pre, p.addr < e.addr)
    (hms : ∀ m ∈ ms, e.addr ≤ m.addr ∧ (m.addr = e.addr ∨ m.addr < e.addr + e.size))
    (hpost : ∀ q ∈ post, e.addr < q.addr ∧ e.addr + e.size ≤ q.addr) :
    putEnt (pre ++ ms ++ post) e = pre ++ e :: post := by
  rw [List.append_assoc, putEnt_skip hpre]
  congr 1
  have hdrop : (ms ++ post).dropWhile (fun y => decide (y.addr = e.addr) || decide (y.addr < e.addr + e.size)) = post := by
    apply dropWhile_window
    · intro m hm
      rcases (hms m hm).2 with h | h
      · simp [h]
      · simp [h]
    · intro q hq
      have := hpost q hq
      simp only [Bool.or_eq_false_iff, decide_eq_false_iff_not]
      omega
  cases hl : ms ++ post with
  | nil =>
    have : post = [] := by
      cases ms with
      | nil => simpa using hl
      | cons m ms' => simp at hl
    simp [putEnt, this]
  | cons z zs =>
    have hz : ¬ z.addr < e.addr := by
      have hzm : z ∈ ms ++ post := by rw [hl]; exact List.mem_cons_self
      rcases List.mem_append.1 hzm with h | h
      · have := (hms z h).1; omega
      · have := (hpost z h).1; omega
    simp only [putEnt]
    rw [if_neg hz, ← hl, hdrop]

/-- replace: a header written at the address of `x`, not reaching beyond `x` -/
theorem putEnt_replace {pre post : List Ent} {x e : Ent} (h : entsOk (pre ++ x :: post) = true)
    (ha : e.addr = x.addr) (hs : e.addr + e.size ≤ x.addr + x.size) :
    putEnt (pre ++ x :: post) e = pre ++ e :: post := by
  have h1 := entsOk_pre_lt h
  obtain ⟨_, h2, _⟩ := entsOk_append.1 h
  have h3 := entsOk_head_le h2
  have hx := entsOk_pos h2 x List.mem_cons_self
  have := putEnt_window (pre := pre) (ms := [x]) (post := post) (e := e)
    (fun p hp => by have := (h1 p hp).2; omega)
    (fun m hm => by simp only [List.mem_singleton] at hm; subst hm; omega)
    (fun q hq => by have := h3 q hq; omega)
  simpa using this

/-- split: a header written strictly inside `x` (and not reaching beyond it) is inserted after `x` -/
theorem putEnt_split {pre post : List Ent} {x e : Ent} (h : entsOk (pre ++ x :: post) = true)
    (ha : x.addr < e.addr) (hin : e.addr < x.addr + x.size) (hs : e.addr + e.size ≤ x.addr + x.size) :
    putEnt (pre ++ x :: post) e = pre ++ x :: e :: post := by
  have h1 := entsOk_pre_lt h
  obtain ⟨_, h2, _⟩ := entsOk_append.1 h
  have h3 := entsOk_head_le h2
  have := putEnt_window (pre := pre ++ [x]) (ms := []) (post := post) (e := e)
    (fun p hp => by
      rcases List.mem_append.1 hp with hp | hp
      · have := (h1 p hp).2; omega
      · simp only [List.mem_singleton] at hp; subst hp; exact ha)
    (by simp)
    (fun q hq => by have := h3 q hq; omega)
  simpa using this

/-- merge: a header written at the address of `x` that swallows `x` and the following entries `ms` -/
theorem putEnt_merge {pre ms post : List Ent} {x e : Ent} (h : entsOk (pre ++ x :: ms ++ post) = true)
    (ha : e.addr = x.addr) (hms : ∀ m ∈ ms, m.addr < e.addr + e.size) (hpost : ∀ q ∈ post, e.addr + e.size ≤ q.addr) :
    putEnt (pre ++ x :: ms ++ post) e = pre ++ e :: post := by
  have h' : entsOk (pre ++ x :: (ms ++ post)) = true := by simpa using h
  have h1 := entsOk_pre_lt h'
  obtain ⟨_, h2, _⟩ := entsOk_append.1 h'
  have h3 := entsOk_head_le h2
  have hx := entsOk_pos h2 x List.mem_cons_self
  have := putEnt_window (pre := pre) (ms := x :: ms) (post := post) (e := e)
    (fun p hp => by have := (h1 p hp).2; omega)
    (fun m hm => by
      cases hm with
      | head => omega
      | tail _ hm =>
        have := h3 m (List.mem_append.2 (Or.inl hm))
        have := hms m hm
        omega)
    (fun q hq => by
      have := h3 q (List.mem_append.2 (Or.inr hq))
      have := hpost q hq
      omega)
  simpa using this

/-! ### the heap primitives as equations -/

/-- the `prev_foot` a fresh header word inherits -/
def pfootAt (es : List Ent) (a : Nat) : Nat :=
  match findEnt es a with
  | some e => e.pfoot
  | none => 0

theorem pfootAt_some {es : List Ent} {a : Nat} {e : Ent} (h : findEnt es a = some e) : pfootAt es a = e.pfoot := by
  simp [pfootAt, h]

theorem pfootAt_none {es : List Ent} {a : Nat} (h : findEnt es a = none) : pfootAt es a = 0 := by
  simp [pfootAt, h]

theorem writeHead_eq {h : Heap} {a size : Nat} {c p : Bool} (h8 : size % 8 = 0) :
    writeHead h a size c p =
      .ok { h with ents := putEnt h.ents { addr := a, size := size, cin := c, pin := p, pfoot := pfootAt h.ents a } } := by
  unfold writeHead pfootAt
  rw [if_neg (by omega)]
  rfl

/-- `writeHead` over a window of the table (see `putEnt_window`) -/
theorem writeHead_window {h : Heap} {pre ms post : List Ent} {a size : Nat} {c p : Bool} (h8 : size % 8 = 0)
    (hes : h.ents = pre ++ ms ++ post)
    (hpre : ∀ q ∈ pre, q.addr < a)
    (hms : ∀ m ∈ ms, a ≤ m.addr ∧ (m.addr = a ∨ m.addr < a + size))
    (hpost : ∀ q ∈ post, a < q.addr ∧ a + size ≤ q.addr) :
    writeHead h a size c p =
      .ok { h with ents := pre ++ { addr := a, size := size, cin := c, pin := p, pfoot := pfootAt h.ents a } :: post } := by
  rw [writeHead_eq h8, hes, putEnt_window (e := { addr := a, size := size, cin := c, pin := p, pfoot := _ }) hpre hms hpost]

theorem setFoot_at {h : Heap} {pre post : List Ent} {x : Ent} {v : Nat} (hes : h.ents = pre ++ x :: post)
    (hpre : ∀ p ∈ pre, p.addr ≠ x.addr) :
    setFoot h x.addr v = .ok { h with ents := pre ++ { x with pfoot := v } :: post } := by
  unfold setFoot
  rw [hes, modEnt_at hpre]
  rfl

theorem orPin_at {h : Heap} {pre post : List Ent} {x : Ent} (hes : h.ents = pre ++ x :: post)
    (hpre : ∀ p ∈ pre, p.addr ≠ x.addr) :
    orPin h x.addr = { h with ents := pre ++ { x with pin := true } :: post } := by
  unfold orPin
  rw [hes, modEnt_at hpre]

theorem clearPin_at {h : Heap} {pre post : List Ent} {x : Ent} (hes : h.ents = pre ++ x :: post)
    (hpre : ∀ p ∈ pre, p.addr ≠ x.addr) :
    clearPin h x.addr = .ok { h with ents := pre ++ { x with pin := false } :: post } := by
  unfold clearPin
  rw [hes, modEnt_at hpre]
  rfl

/-! ## 3. windows: contiguous runs of headers -/

/-- last entry of the non-empty list `x :: xs` -/
def lastE : Ent → List Ent → Ent
  | x, [] => x
  | _, y :: ys => lastE y ys

/-- end address of the non-empty run `x :: xs` -/
def endE (x : Ent) (xs : List Ent) : Nat := (lastE x xs).addr + (lastE x xs).size

/-- each header sits exactly where the previous chunk ends, the first one at `a` -/
def contig : List Ent → Nat → Bool
  | [], _ => true
  | x :: xs, a => decide (x.addr = a) && contig xs (a + x.size)

theorem lastE_mem (x : Ent) (xs : List Ent) : lastE x xs ∈ x :: xs := by
  induction xs generalizing x with
  | nil => simp [lastE]
  | cons y ys ih => simp only [lastE]; exact List.mem_cons_of_mem _ (ih y)

theorem lastE_append (x : Ent) (xs : List Ent) (y : Ent) (ys : List Ent) :
    lastE x (xs ++ y :: ys) = lastE y ys := by
  induction xs generalizing x with
  | nil => rfl
  | cons z zs ih => simp only [List.cons_append, lastE]; exact ih z

/-- a contiguous run lies inside `[a, end)` and is sorted -/
theorem contig_range {m : Ent} {ms : List Ent} {a : Nat} (hc : contig (m :: ms) a = true)
    (hpos : ∀ e ∈ m :: ms, 0 < e.size) :
    entsOk (m :: ms) = true ∧ ∀ e ∈ m :: ms, a ≤ e.addr ∧ e.addr + e.size ≤ endE m ms := by
  induction ms generalizing m a with
  | nil =>
    simp only [contig, Bool.and_true, decide_eq_true_eq] at hc
    refine ⟨by simpa [entsOk] using hpos m List.mem_cons_self, ?_⟩
    intro e he
    simp only [List.mem_singleton] at he
    subst he
    simp only [endE, lastE]
    omega
  | cons y ys ih =>
    simp only [contig, Bool.and_eq_true, decide_eq_true_eq] at hc
    obtain ⟨h1, h2, h3⟩ := hc
    have hc' : contig (y :: ys) (a + m.size) = true := by
      simp only [contig, Bool.and_eq_true, decide_eq_true_eq]; exact ⟨h2, h3⟩
    obtain ⟨i1, i2⟩ := ih hc' (fun e he => hpos e (List.mem_cons_of_mem _ he))
    have hm := hpos m List.mem_cons_self
    constructor
    · simp only [entsOk, Bool.and_eq_true, decide_eq_true_eq]
      exact ⟨⟨by omega, hm⟩, i1⟩
    · intro e he
      cases he with
      | head =>
        have := i2 y List.mem_cons_self
        simp only [endE, lastE] at this ⊢
        omega
      | tail _ he' =>
        have := i2 e he'
        simp only [endE, lastE] at this ⊢
        omega

/-- replacing a window of a sorted table by a sorted window covering no more than the same range -/
theorem entsOk_window {pre mid mid' post : List Ent} {lo hi : Nat}
    (h : entsOk (pre ++ mid ++ post) = true)
    (hpre : ∀ p ∈ pre, p.addr + p.size ≤ lo) (hpost : ∀ q ∈ post, hi ≤ q.addr)
    (hmid : entsOk mid' = true) (hin : ∀ e ∈ mid', lo ≤ e.addr ∧ e.addr + e.size ≤ hi) :
    entsOk (pre ++ mid' ++ post) = true := by
  rw [List.append_assoc] at h ⊢
  obtain ⟨h1, h2, h3⟩ := entsOk_append.1 h
  obtain ⟨h4, h5, h6⟩ := entsOk_append.1 h2
  refine entsOk_append.2 ⟨h1, entsOk_append.2 ⟨hmid, h5, ?_⟩, ?_⟩
  · intro a ha b hb
    have := (hin a ha).2; have := hpost b hb; omega
  · intro a ha b hb
    rcases List.mem_append.1 hb with hb | hb
    · have := (hin b hb).1; have := hpre a ha; omega
    · exact h3 a ha b (List.mem_append.2 (Or.inr hb))

/-- bounds a window gives for the rest of the table -/
theorem entsOk_window_bounds {pre post : List Ent} {m : Ent} {ms : List Ent}
    (h : entsOk (pre ++ (m :: ms) ++ post) = true) :
    (∀ p ∈ pre, p.addr + p.size ≤ m.addr) ∧ (∀ q ∈ post, endE m ms ≤ q.addr) := by
  rw [List.append_assoc] at h
  obtain ⟨_, h2, h3⟩ := entsOk_append.1 h
  obtain ⟨_, _, h6⟩ := entsOk_append.1 h2
  constructor
  · intro p hp
    exact h3 p hp m (by simp)
  · intro q hq
    exact h6 _ (lastE_mem m ms) q hq

/-! ### `shapeOk`, `allInSegs` -/

theorem shapeOk_append (a b : List Ent) : shapeOk (a ++ b) = (shapeOk a && shapeOk b) := by
  simp [shapeOk, List.all_append]

theorem shapeOk_mem {es : List Ent} (h : shapeOk es = true) {e : Ent} (he : e ∈ es) :
    (e.size = 8 ∧ e.cin = true ∧ e.pin = true) ∨ (e.addr % 16 = 0 ∧ e.size % 16 = 0 ∧ 16 ≤ e.size) := by
  unfold shapeOk at h
  simp only [List.all_eq_true, Bool.or_eq_true, Bool.and_eq_true, decide_eq_true_eq] at h
  rcases h e he with h1 | h1
  · exact Or.inl ⟨h1.1.1, h1.1.2, h1.2⟩
  · exact Or.inr ⟨h1.1.1, h1.1.2, h1.2⟩

theorem shapeOk_size {es : List Ent} (h : shapeOk es = true) {e : Ent} (he : e ∈ es) : 8 ≤ e.size := by
  rcases shapeOk_mem h he with h1 | h1 <;> omega

/-- a header with CINUSE clear is a 16-aligned chunk of a positive multiple of 16 bytes -/
theorem shapeOk_free {es : List Ent} (h : shapeOk es = true) {e : Ent} (he : e ∈ es) (hc : e.cin = false) :
    e.addr % 16 = 0 ∧ e.size % 16 = 0 ∧ 16 ≤ e.size := by
  rcases shapeOk_mem h he with h1 | h1
  · rw [hc] at h1; exact absurd h1.2.1 (by decide)
  · exact h1

theorem shapeOk_window {pre mid mid' post : List Ent} (h : shapeOk (pre ++ mid ++ post) = true)
    (hm : shapeOk mid' = true) : shapeOk (pre ++ mid' ++ post) = true := by
  simp only [shapeOk_append, Bool.and_eq_true] at h ⊢
  exact ⟨⟨h.1.1, hm⟩, h.2⟩

/-! ### segments -/

theorem inSeg_iff {g : Seg} {e : Ent} : inSeg g e = true ↔ g.base ≤ e.addr ∧ e.addr < g.base + g.size := by
  simp [inSeg]

theorem inSeg_false_of_disjoint {g g' : Seg} {e : Ent} (h : inSeg g e = true)
    (hd : g.base + g.size ≤ g'.base ∨ g'.base + g'.size ≤ g.base) : inSeg g' e = false := by
  rw [inSeg_iff] at h
  cases hi : inSeg g' e with
  | false => rfl
  | true => rw [inSeg_iff] at hi; omega

theorem segEnts_append (a b : List Ent) (g : Seg) : segEnts (a ++ b) g = segEnts a g ++ segEnts b g := by
  simp [segEnts, List.filter_append]

theorem segEnts_all {l : List Ent} {g : Seg} (h : ∀ e ∈ l, inSeg g e = true) : segEnts l g = l := by
  unfold segEnts
  exact List.filter_eq_self.2 h

theorem segEnts_none {l : List Ent} {g : Seg} (h : ∀ e ∈ l, inSeg g e = false) : segEnts l g = [] := by
  unfold segEnts
  exact List.filter_eq_nil_iff.2 (fun e he => by simp [h e he])

theorem mem_segEnts {l : List Ent} {g : Seg} {e : Ent} : e ∈ segEnts l g ↔ e ∈ l ∧ inSeg g e = true := by
  unfold segEnts; exact List.mem_filter

/-- the headers of the segment holding the window: the window sits between the segment's headers
before and after it -/
theorem segEnts_window {pre mid post : List Ent} {g : Seg} (h : ∀ e ∈ mid, inSeg g e = true) :
    segEnts (pre ++ mid ++ post) g = segEnts pre g ++ mid ++ segEnts post g := by
  rw [segEnts_append, segEnts_append, segEnts_all h]

/-- the headers of every other segment: the window is invisible -/
theorem segEnts_window_other {pre mid post : List Ent} {g : Seg} (h : ∀ e ∈ mid, inSeg g e = false) :
    segEnts (pre ++ mid ++ post) g = segEnts pre g ++ segEnts post g := by
  rw [segEnts_append, segEnts_append, segEnts_none h, List.append_nil]

/-! ### `tiles` -/

/-- what `tiles` asks of the part of a segment after a run ending at `b` with last header `lst` -/
def tailOk (l2 : List Ent) (b e : Nat) (lst : Ent) : Bool :=
  match l2 with
  | [] => (decide (b = e) || decide (b + 8 = e)) && isTrailerEnd lst
  | c :: _ => decide (8 ≤ c.size) && tiles l2 b e

/-- `tiles` of a run followed by the rest of the segment -/
theorem tiles_split (m : Ent) (ms l2 : List Ent) (a e : Nat) :
    tiles (m :: ms ++ l2) a e = true ↔
      contig (m :: ms) a = true ∧ (∀ y ∈ ms, 8 ≤ y.size) ∧ tailOk l2 (endE m ms) e (lastE m ms) = true := by
  induction ms generalizing m a with
  | nil =>
    have hE : endE m [] = m.addr + m.size := rfl
    have hL : lastE m [] = m := rfl
    rw [hE, hL]
    cases l2 with
    | nil =>
      simp only [List.append_nil, tiles, contig, tailOk, Bool.and_eq_true, Bool.or_eq_true,
        decide_eq_true_eq, Bool.and_true]
      constructor
      · rintro ⟨⟨h1, h2⟩, h3⟩
        subst h1
        exact ⟨rfl, by simp, h2, h3⟩
      · rintro ⟨h1, _, h2, h3⟩
        subst h1
        exact ⟨⟨rfl, h2⟩, h3⟩
    | cons c r =>
      simp only [List.cons_append, List.nil_append, tiles, contig, tailOk, Bool.and_eq_true,
        decide_eq_true_eq, Bool.and_true]
      constructor
      · rintro ⟨⟨h1, h2⟩, h3⟩
        subst h1
        exact ⟨rfl, by simp, h2, h3⟩
      · rintro ⟨h1, _, h2, h3⟩
        subst h1
        exact ⟨⟨rfl, h2⟩, h3⟩
  | cons y ys ih =>
    have := ih y (a + m.size)
    simp only [List.cons_append] at this ⊢
    simp only [tiles, Bool.and_eq_true, decide_eq_true_eq, this]
    simp only [contig, Bool.and_eq_true, decide_eq_true_eq, endE, lastE, List.mem_cons]
    constructor
    · rintro ⟨⟨h1, h2⟩, ⟨h3, h4⟩, h5, h6⟩
      exact ⟨⟨h1, h3, h4⟩, fun z hz => hz.elim (fun hz => hz ▸ h2) (h5 z), h6⟩
    · rintro ⟨⟨h1, h3, h4⟩, h5, h6⟩
      exact ⟨⟨h1, h5 y (Or.inl rfl)⟩, ⟨h3, h4⟩, fun z hz => h5 z (Or.inr hz), h6⟩

/-- `tiles` is a congruence in the part of the segment that follows a prefix -/
theorem tiles_prefix_congr (l1 : List Ent) {m m' : Ent} {r r' : List Ent}
    (h8 : 8 ≤ m.size → 8 ≤ m'.size)
    (hr : ∀ a e, tiles (m :: r) a e = true → tiles (m' :: r') a e = true) :
    ∀ a e, tiles (l1 ++ m :: r) a e = true → tiles (l1 ++ m' :: r') a e = true := by
  induction l1 with
  | nil => exact hr
  | cons x xs ih =>
    intro a e h
    cases xs with
    | nil =>
      simp only [List.cons_append, List.nil_append, tiles, Bool.and_eq_true, decide_eq_true_eq] at h ⊢
      exact ⟨⟨h.1.1, h8 h.1.2⟩, hr _ _ h.2⟩
    | cons z zs =>
      simp only [List.cons_append, tiles, Bool.and_eq_true, decide_eq_true_eq] at h ⊢
      exact ⟨h.1, ih _ _ h.2⟩

/-- **`tiles` under window replacement** -/
theorem tiles_window {l1 l2 : List Ent} {m m' : Ent} {ms ms' : List Ent} {a e : Nat}
    (h : tiles (l1 ++ (m :: ms) ++ l2) a e = true)
    (hc : contig (m' :: ms') m.addr = true) (hend : endE m' ms' = endE m ms)
    (h8 : ∀ y ∈ m' :: ms', 8 ≤ y.size)
    (htr : isTrailerEnd (lastE m ms) = true → isTrailerEnd (lastE m' ms') = true) :
    tiles (l1 ++ (m' :: ms') ++ l2) a e = true := by
  rw [List.append_assoc] at h ⊢
  simp only [List.cons_append] at h ⊢
  refine tiles_prefix_congr l1 (fun _ => h8 m' List.mem_cons_self) ?_ a e h
  intro a e h
  have h' := (tiles_split m ms l2 a e).1 (by simpa using h)
  obtain ⟨c1, _, c3⟩ := h'
  have hma : m.addr = a := by
    simp only [contig, Bool.and_eq_true, decide_eq_true_eq] at c1; exact c1.1
  have := (tiles_split m' ms' l2 a e).2 ⟨hma ▸ hc, fun y hy => h8 y (List.mem_cons_of_mem _ hy), ?_⟩
  · simpa using this
  · rw [hend]
    cases l2 with
    | nil =>
      simp only [tailOk, Bool.and_eq_true] at c3 ⊢
      exact ⟨c3.1, htr c3.2⟩
    | cons c r => exact c3

/-! ### boundary tags -/

/-- the boundary-tag conditions between a header `x` and its successor `y` -/
def linkOk (top : Nat) (x y : Ent) : Bool :=
  (y.pin == x.cin) &&
  (if isFree x then (if x.addr = top then !y.cin && !y.pin else y.cin && decide (y.pfoot = x.size)) else true)

/-- `tagsOk` after its first header: a chain of `linkOk` -/
def tagsFrom (top : Nat) : Ent → List Ent → Bool
  | _, [] => true
  | a, c :: r => linkOk top a c && tagsFrom top c r

theorem tagsOk_cons_iff (top : Nat) (pc : Bool) (a : Ent) (r : List Ent) :
    tagsOk top pc (a :: r) = true ↔ a.pin = pc ∧ tagsFrom top a r = true := by
  induction r generalizing a pc with
  | nil => simp [tagsOk, tagsFrom]
  | cons c r ih =>
    simp only [tagsOk, tagsFrom, linkOk, Bool.and_eq_true, ih, beq_iff_eq]
    constructor
    · rintro ⟨⟨h1, h2⟩, h3, h4⟩
      exact ⟨h1, ⟨h3, h2⟩, h4⟩
    · rintro ⟨h1, ⟨h3, h2⟩, h4⟩
      exact ⟨⟨h1, h2⟩, h3, h4⟩

/-- the chain splits at any header of a run -/
theorem tagsFrom_append (top : Nat) (a : Ent) (ms l2 : List Ent) :
    tagsFrom top a (ms ++ l2) = true ↔ tagsFrom top a ms = true ∧ tagsFrom top (lastE a ms) l2 = true := by
  induction ms generalizing a with
  | nil => simp [tagsFrom, lastE]
  | cons y ys ih =>
    simp only [List.cons_append, tagsFrom, lastE, Bool.and_eq_true, ih y]
    exact and_assoc.symm

/-- `tagsOk` of `l1 ++ m :: r`: the part up to and including `m` (seen as a successor), and the chain
from `m` on -/
theorem tagsOk_split (top : Nat) (pc : Bool) (l1 : List Ent) (m : Ent) (r : List Ent) :
    tagsOk top pc (l1 ++ m :: r) = true ↔ tagsOk top pc (l1 ++ [m]) = true ∧ tagsFrom top m r = true := by
  cases l1 with
  | nil => simp [tagsOk_cons_iff, tagsFrom]
  | cons x xs =>
    simp only [List.cons_append, tagsOk_cons_iff]
    have h1 := tagsFrom_append top x xs (m :: r)
    have h2 := tagsFrom_append top x xs [m]
    rw [h1, h2]
    simp only [tagsFrom, Bool.and_eq_true, Bool.and_true]
    constructor
    · rintro ⟨h1, h2, h3, h4⟩; exact ⟨⟨h1, h2, h3⟩, h4⟩
    · rintro ⟨⟨h1, h2, h3⟩, h4⟩; exact ⟨h1, h2, h3, h4⟩

/-- how the first header of a window may change without its predecessor noticing: PINUSE is kept,
and if PINUSE is clear (the predecessor is free) CINUSE and `prev_foot` are kept too -/
def HeadEq (m m' : Ent) : Prop := m'.pin = m.pin ∧ (m.pin = false → m'.cin = m.cin ∧ m'.pfoot = m.pfoot)

/-- how the last header of a window may change without its successor noticing: CINUSE is kept, and
if the header is (still) free so are its size and its being `top` -/
def TagEq (top top' : Nat) (b b' : Ent) : Prop :=
  b'.cin = b.cin ∧ (isFree b' = true → isFree b = true ∧ b'.size = b.size ∧ (b'.addr = top' ↔ b.addr = top))

theorem HeadEq.refl (m : Ent) : HeadEq m m := ⟨rfl, fun _ => ⟨rfl, rfl⟩⟩
theorem TagEq.refl (top : Nat) (b : Ent) : TagEq top top b b := ⟨rfl, fun h => ⟨h, rfl, Iff.rfl⟩⟩

theorem linkOk_head_congr {top top' : Nat} {x m m' : Ent} (hx : x.addr = top ↔ x.addr = top') (hm : HeadEq m m')
    (h : linkOk top x m = true) : linkOk top' x m' = true := by
  obtain ⟨h1, h2⟩ := hm
  simp only [linkOk, Bool.and_eq_true, beq_iff_eq] at h ⊢
  obtain ⟨l1, l2⟩ := h
  refine ⟨by rw [h1, l1], ?_⟩
  cases hf : isFree x with
  | false => simp
  | true =>
    rw [hf] at l2
    simp only [if_true] at l2 ⊢
    have hxc : x.cin = false := by
      simp only [isFree, Bool.and_eq_true, Bool.not_eq_true'] at hf; exact hf.1
    obtain ⟨e1, e2⟩ := h2 (by rw [l1, hxc])
    by_cases ht : x.addr = top
    · rw [if_pos ht] at l2; rw [if_pos (hx.1 ht), e1, h1]; exact l2
    · rw [if_neg ht] at l2; rw [if_neg (fun h => ht (hx.2 h)), e1, e2]; exact l2

theorem linkOk_tail_congr {top top' : Nat} {b b' c : Ent} (hb : TagEq top top' b b')
    (h : linkOk top b c = true) : linkOk top' b' c = true := by
  obtain ⟨h1, h2⟩ := hb
  simp only [linkOk, Bool.and_eq_true, beq_iff_eq] at h ⊢
  obtain ⟨l1, l2⟩ := h
  refine ⟨by rw [h1, l1], ?_⟩
  cases hf : isFree b' with
  | false => simp
  | true =>
    obtain ⟨e1, e2, e3⟩ := h2 hf
    rw [e1] at l2
    simp only [if_true] at l2 ⊢
    by_cases ht : b.addr = top
    · rw [if_pos ht] at l2; rw [if_pos (e3.2 ht)]; exact l2
    · rw [if_neg ht] at l2; rw [if_neg (fun h => ht (e3.1 h)), e2]; exact l2

theorem tagsFrom_top_congr {top top' : Nat} {a : Ent} {r : List Ent}
    (h : ∀ e ∈ a :: r, e.addr = top ↔ e.addr = top') : tagsFrom top a r = true → tagsFrom top' a r = true := by
  induction r generalizing a with
  | nil => intro _; rfl
  | cons c r ih =>
    simp only [tagsFrom, Bool.and_eq_true]
    rintro ⟨h1, h2⟩
    exact ⟨linkOk_head_congr (h a List.mem_cons_self) (HeadEq.refl c) h1,
      ih (fun e he => h e (List.mem_cons_of_mem _ he)) h2⟩

/-- the chain from the last header of a window on, after the window changed -/
theorem tagsFrom_tail_congr {top top' : Nat} {b b' : Ent} {l2 : List Ent} (hb : TagEq top top' b b')
    (ht : ∀ e ∈ l2, e.addr = top ↔ e.addr = top') :
    tagsFrom top b l2 = true → tagsFrom top' b' l2 = true := by
  cases l2 with
  | nil => intro _; rfl
  | cons c r =>
    simp only [tagsFrom, Bool.and_eq_true]
    rintro ⟨h1, h2⟩
    exact ⟨linkOk_tail_congr hb h1, tagsFrom_top_congr ht h2⟩

/-- the part of a segment before a window, up to the window's first header -/
theorem tagsOk_snoc_congr {top top' : Nat} {pc : Bool} {l1 : List Ent} {m m' : Ent}
    (ht : ∀ e ∈ l1, e.addr = top ↔ e.addr = top') (hm : HeadEq m m') :
    tagsOk top pc (l1 ++ [m]) = true → tagsOk top' pc (l1 ++ [m']) = true := by
  cases l1 with
  | nil =>
    simp only [List.nil_append, tagsOk_cons_iff, tagsFrom, and_true]
    intro h; rw [hm.1, h]
  | cons x xs =>
    simp only [List.cons_append, tagsOk_cons_iff]
    rintro ⟨h1, h2⟩
    refine ⟨h1, ?_⟩
    clear h1
    induction xs generalizing x with
    | nil =>
      simp only [List.nil_append, tagsFrom, Bool.and_true] at h2 ⊢
      exact linkOk_head_congr (ht x List.mem_cons_self) hm h2
    | cons y ys ih =>
      simp only [List.cons_append, tagsFrom, Bool.and_eq_true] at h2 ⊢
      refine ⟨linkOk_head_congr (ht x List.mem_cons_self) (HeadEq.refl y) h2.1, ?_⟩
      exact ih y (fun e he => ht e (by
        cases he with
        | head => exact List.mem_cons_of_mem _ List.mem_cons_self
        | tail _ he' => exact List.mem_cons_of_mem _ (List.mem_cons_of_mem _ he'))) h2.2

/-- **`tagsOk` under window replacement** (the `top` the check is run with may change too) -/
theorem tagsOk_window {top top' : Nat} {pc : Bool} {l1 l2 : List Ent} {m m' : Ent} {ms ms' : List Ent}
    (h : tagsOk top pc (l1 ++ (m :: ms) ++ l2) = true)
    (ht1 : ∀ e ∈ l1, e.addr = top ↔ e.addr = top') (ht2 : ∀ e ∈ l2, e.addr = top ↔ e.addr = top')
    (hhead : HeadEq m m') (hlast : TagEq top top' (lastE m ms) (lastE m' ms'))
    (hloc : tagsFrom top' m' ms' = true) :
    tagsOk top' pc (l1 ++ (m' :: ms') ++ l2) = true := by
  rw [List.append_assoc] at h ⊢
  simp only [List.cons_append] at h ⊢
  rw [tagsOk_split, tagsFrom_append] at h ⊢
  obtain ⟨h1, _, h3⟩ := h
  exact ⟨tagsOk_snoc_congr ht1 hhead h1, hloc, tagsFrom_tail_congr hlast ht2 h3⟩

/-- what the old check says about the window itself -/
theorem tagsOk_window_old {top : Nat} {pc : Bool} {l1 l2 : List Ent} {m : Ent} {ms : List Ent}
    (h : tagsOk top pc (l1 ++ (m :: ms) ++ l2) = true) : tagsFrom top m ms = true := by
  rw [List.append_assoc] at h
  simp only [List.cons_append] at h
  rw [tagsOk_split, tagsFrom_append] at h
  exact h.2.1

/-- `tagsOk` only compares addresses with `top` -/
theorem tagsOk_top_congr {top top' : Nat} {pc : Bool} {l : List Ent}
    (ht : ∀ e ∈ l, e.addr = top ↔ e.addr = top') : tagsOk top pc l = true → tagsOk top' pc l = true := by
  cases l with
  | nil => intro _; rfl
  | cons a r =>
    simp only [tagsOk_cons_iff]
    rintro ⟨h1, h2⟩
    exact ⟨h1, tagsFrom_top_congr ht h2⟩

/-! ## 4. the structural conjuncts under window replacement -/

/-- the five conjuncts of `WF` that describe the header table relative to the segment list -/
structure StructOk (es : List Ent) (segs : List Seg) (top : Nat) : Prop where
  ents : entsOk es = true
  shape : shapeOk es = true
  inSegs : (es.all fun e => segs.any fun g => inSeg g e) = true
  tiles : (segs.all fun g => tiles (segEnts es g) g.base (g.base + g.size)) = true
  tags : (segs.all fun g => tagsOk top true (segEnts es g)) = true

theorem WFS.struct {s : St} (w : WFS s) : StructOk s.h.ents s.segs s.h.top :=
  ⟨w.ents, w.shape, w.inSegs, w.tiles, w.tags⟩

theorem WFS.segsDisjoint {s : St} (w : WFS s) : segsDisjoint s.segs = true := by
  have := w.segs; unfold segsOk at this
  simp only [Bool.and_eq_true] at this; exact this.1

theorem StructOk.tiles_of {es : List Ent} {segs : List Seg} {top : Nat} (h : StructOk es segs top) {g : Seg}
    (hg : g ∈ segs) : Dl.tiles (segEnts es g) g.base (g.base + g.size) = true := by
  have := h.tiles; simp only [List.all_eq_true] at this; exact this g hg

theorem StructOk.tags_of {es : List Ent} {segs : List Seg} {top : Nat} (h : StructOk es segs top) {g : Seg}
    (hg : g ∈ segs) : tagsOk top true (segEnts es g) = true := by
  have := h.tags; simp only [List.all_eq_true] at this; exact this g hg

theorem StructOk.seg_of {es : List Ent} {segs : List Seg} {top : Nat} (h : StructOk es segs top) {e : Ent}
    (he : e ∈ es) : ∃ g ∈ segs, inSeg g e = true := by
  have := h.inSegs; simp only [List.all_eq_true, List.any_eq_true] at this; exact this e he

/-- a header lies, with its whole chunk, inside the segment holding it -/
theorem StructOk.in_seg {es : List Ent} {segs : List Seg} {top : Nat} (h : StructOk es segs top) {g : Seg}
    (hg : g ∈ segs) {e : Ent} (he : e ∈ es) (hge : inSeg g e = true) :
    g.base ≤ e.addr ∧ e.addr + e.size ≤ g.base + g.size :=
  tiles_end (h.tiles_of hg) e (mem_segEnts.2 ⟨he, hge⟩)

/-- **window replacement for the structural conjuncts.**  The table is `pre ++ (m :: ms) ++ post`,
the window `m :: ms` lies in the segment `g`; it is replaced by the gap-free run `m' :: ms'` over the
same address range.  Side conditions are local to the window. -/
theorem struct_window {segs : List Seg} {top top' : Nat} {pre post : List Ent} {m m' : Ent} {ms ms' : List Ent}
    (h : StructOk (pre ++ (m :: ms) ++ post) segs top) (hd : segsDisjoint segs = true)
    {g : Seg} (hg : g ∈ segs) (hgm : ∀ e ∈ m :: ms, inSeg g e = true)
    (hc : contig (m' :: ms') m.addr = true) (hend : endE m' ms' = endE m ms)
    (hshape : shapeOk (m' :: ms') = true)
    (htr : isTrailerEnd (lastE m ms) = true → isTrailerEnd (lastE m' ms') = true)
    (htop : ∀ e ∈ pre ++ post, e.addr = top ↔ e.addr = top')
    (hhead : HeadEq m m') (hlast : TagEq top top' (lastE m ms) (lastE m' ms'))
    (hloc : tagsFrom top' m' ms' = true) :
    StructOk (pre ++ (m' :: ms') ++ post) segs top' := by
  have h8 : ∀ e ∈ m' :: ms', 8 ≤ e.size := fun e he => shapeOk_size hshape he
  obtain ⟨hmid, hrange⟩ := contig_range hc (fun e he => by have := h8 e he; omega)
  rw [hend] at hrange
  obtain ⟨hb1, hb2⟩ := entsOk_window_bounds h.ents
  -- the window lies inside `g`
  have hlast_mem : lastE m ms ∈ pre ++ (m :: ms) ++ post :=
    List.mem_append.2 (Or.inl (List.mem_append.2 (Or.inr (lastE_mem m ms))))
  have hgl := h.in_seg hg hlast_mem (hgm _ (lastE_mem m ms))
  have hgm0 := inSeg_iff.1 (hgm m List.mem_cons_self)
  have hgm' : ∀ e ∈ m' :: ms', inSeg g e = true := by
    intro e he
    have h1 := hrange e he
    have h2 := h8 e he
    simp only [endE] at h1
    rw [inSeg_iff]
    omega
  have hother : ∀ g' ∈ segs, g' ≠ g → (∀ e ∈ m :: ms, inSeg g' e = false) ∧ (∀ e ∈ m' :: ms', inSeg g' e = false) := by
    intro g' hg' hne
    rcases segsDisjoint_pair hd g hg g' hg' with h1 | h1
    · exact absurd h1.symm hne
    · exact ⟨fun e he => inSeg_false_of_disjoint (hgm e he) h1, fun e he => inSeg_false_of_disjoint (hgm' e he) h1⟩
  refine ⟨entsOk_window h.ents hb1 hb2 hmid hrange, shapeOk_window h.shape hshape, ?_, ?_, ?_⟩
  · have := h.inSegs
    simp only [List.all_append, Bool.and_eq_true] at this ⊢
    refine ⟨⟨this.1.1, ?_⟩, this.2⟩
    simp only [List.all_eq_true, List.any_eq_true]
    exact fun e he => ⟨g, hg, hgm' e he⟩
  · simp only [List.all_eq_true]
    intro g' hg'
    have ht := h.tiles_of hg'
    by_cases hgg : g' = g
    · subst hgg
      rw [segEnts_window hgm] at ht
      rw [segEnts_window hgm']
      exact tiles_window ht hc hend h8 htr
    · rw [segEnts_window_other (hother g' hg' hgg).1] at ht
      rw [segEnts_window_other (hother g' hg' hgg).2]
      exact ht
  · simp only [List.all_eq_true]
    intro g' hg'
    have ht := h.tags_of hg'
    have htp : ∀ e ∈ segEnts pre g', e.addr = top ↔ e.addr = top' :=
      fun e he => htop e (List.mem_append.2 (Or.inl (mem_segEnts.1 he).1))
    have htq : ∀ e ∈ segEnts post g', e.addr = top ↔ e.addr = top' :=
      fun e he => htop e (List.mem_append.2 (Or.inr (mem_segEnts.1 he).1))
    by_cases hgg : g' = g
    · subst hgg
      rw [segEnts_window hgm] at ht
      rw [segEnts_window hgm']
      exact tagsOk_window ht htp htq hhead hlast hloc
    · rw [segEnts_window_other (hother g' hg' hgg).1] at ht
      rw [segEnts_window_other (hother g' hg' hgg).2]
      refine tagsOk_top_congr ?_ ht
      intro e he
      rcases List.mem_append.1 he with he | he
      · exact htp e he
      · exact htq e he

/-! ### neighbours -/

theorem tiles_head_addr {c : Ent} {r : List Ent} {a e : Nat} (h : tiles (c :: r) a e = true) : c.addr = a := by
  cases r with
  | nil => simp only [tiles, Bool.and_eq_true, decide_eq_true_eq] at h; exact h.1.1
  | cons z zs => simp only [tiles, Bool.and_eq_true, decide_eq_true_eq] at h; exact h.1.1

theorem tiles_drop_prefix (l1 : List Ent) {m : Ent} {r : List Ent} :
    ∀ {a e : Nat}, tiles (l1 ++ m :: r) a e = true → ∃ a', tiles (m :: r) a' e = true := by
  induction l1 with
  | nil => intro a e h; exact ⟨a, h⟩
  | cons x xs ih =>
    intro a e h
    cases xs with
    | nil =>
      simp only [List.cons_append, List.nil_append, tiles, Bool.and_eq_true] at h
      exact ⟨_, h.2⟩
    | cons z zs =>
      simp only [List.cons_append, tiles, Bool.and_eq_true] at h
      exact ih h.2

theorem isTrailerEnd_free {es : List Ent} (hs : shapeOk es = true) {x : Ent} (hx : x ∈ es) (hf : isFree x = true) :
    isTrailerEnd x = false := by
  simp only [isFree, Bool.and_eq_true, Bool.not_eq_true'] at hf
  have := shapeOk_free hs hx hf.1
  simp only [isTrailerEnd, hf.1, hf.2, Bool.not_false, Bool.not_true, Bool.and_false, Bool.false_or,
    decide_eq_false_iff_not]
  omega

/-- **successor header**: a header that is not the last of its segment is followed *in the table* by
the header sitting exactly at the end of its chunk, in the same segment, and the boundary-tag link
between the two holds -/
theorem next_entry {es : List Ent} {segs : List Seg} {top : Nat} (h : StructOk es segs top)
    {pre post : List Ent} {x : Ent} (hes : es = pre ++ x :: post) {g : Seg} (hg : g ∈ segs)
    (hgx : inSeg g x = true) (hnt : isTrailerEnd x = false) :
    ∃ y post', post = y :: post' ∧ y.addr = x.addr + x.size ∧ inSeg g y = true ∧ linkOk top x y = true := by
  subst hes
  have ht := h.tiles_of hg
  have hseg : segEnts (pre ++ x :: post) g = segEnts pre g ++ x :: segEnts post g := by
    have := segEnts_window (pre := pre) (mid := [x]) (post := post) (g := g) (by simpa using hgx)
    simpa using this
  rw [hseg] at ht
  obtain ⟨a', ht'⟩ := tiles_drop_prefix _ ht
  have hsp := (tiles_split x [] (segEnts post g) a' _).1 (by simpa using ht')
  obtain ⟨_, _, h3⟩ := hsp
  cases hl2 : segEnts post g with
  | nil =>
    rw [hl2] at h3
    simp only [tailOk, lastE, Bool.and_eq_true] at h3
    rw [hnt] at h3; exact absurd h3.2 (by decide)
  | cons c r =>
    rw [hl2] at h3
    simp only [tailOk, Bool.and_eq_true] at h3
    have hca : c.addr = x.addr + x.size := tiles_head_addr h3.2
    have hcm : c ∈ segEnts post g := by rw [hl2]; exact List.mem_cons_self
    obtain ⟨hcp, hcg⟩ := mem_segEnts.1 hcm
    cases post with
    | nil => cases hcp
    | cons y post' =>
      have hok := h.ents
      obtain ⟨_, h2, _⟩ := entsOk_append.1 hok
      have hxy : x.addr + x.size ≤ y.addr := entsOk_head_le h2 y List.mem_cons_self
      have hyc : y = c := by
        cases hcp with
        | head => rfl
        | tail _ hc' =>
          have := entsOk_head_le (entsOk_tail h2) c hc'
          have := entsOk_pos h2 y (List.mem_cons_of_mem _ List.mem_cons_self)
          omega
      subst hyc
      refine ⟨y, post', rfl, hca, hcg, ?_⟩
      have htg := h.tags_of hg
      have hseg2 : segEnts (pre ++ x :: y :: post') g = segEnts pre g ++ x :: y :: segEnts post' g := by
        have := segEnts_window (pre := pre) (mid := [x, y]) (post := post') (g := g) (by
          intro e he
          simp only [List.mem_cons, List.not_mem_nil, or_false] at he
          rcases he with he | he
          · rw [he]; exact hgx
          · rw [he]; exact hcg)
        simpa using this
      rw [hseg2, tagsOk_split] at htg
      have := htg.2
      simp only [tagsFrom, Bool.and_eq_true] at this
      exact this.1

/-- what the boundary-tag link says after a free chunk other than `top` -/
theorem linkOk_free {top : Nat} {x y : Ent} (h : linkOk top x y = true) (hf : isFree x = true) (hne : x.addr ≠ top) :
    y.cin = true ∧ y.pin = false ∧ y.pfoot = x.size := by
  have hxc : x.cin = false := by
    simp only [isFree, Bool.and_eq_true, Bool.not_eq_true'] at hf; exact hf.1
  simp only [linkOk, hf, if_true, if_neg hne, Bool.and_eq_true, beq_iff_eq, decide_eq_true_eq] at h
  exact ⟨h.2.1, by rw [h.1, hxc], h.2.2⟩

/-- what the boundary-tag link says after `top` -/
theorem linkOk_top {top : Nat} {x y : Ent} (h : linkOk top x y = true) (hf : isFree x = true) (he : x.addr = top) :
    y.cin = false ∧ y.pin = false := by
  simp only [linkOk, hf, if_true, if_pos he, Bool.and_eq_true, beq_iff_eq, Bool.not_eq_true'] at h
  exact ⟨h.2.1, h.2.2⟩

/-! ## 5. frames: the conjuncts that read the table through `findEnt` -/

theorem sizeAt_frame {es es' : List Ent} {a s : Nat} (h : findEnt es' a = findEnt es a) :
    sizeAt es' a s = sizeAt es a s := by unfold sizeAt; rw [h]

theorem isFreeAt_frame {es es' : List Ent} {a : Nat} (h : findEnt es' a = findEnt es a) :
    isFreeAt es' a = isFreeAt es a := by unfold isFreeAt; rw [h]

theorem isFreeAt_iff {es : List Ent} {a : Nat} :
    isFreeAt es a = true ↔ ∃ e, findEnt es a = some e ∧ isFree e = true := by
  unfold isFreeAt
  cases findEnt es a with
  | none => simp
  | some e => simp

theorem all_congr' {α : Type} {l : List α} {f g : α → Bool} (h : ∀ a ∈ l, f a = g a) : l.all f = l.all g := by
  induction l with
  | nil => rfl
  | cons x xs ih =>
    simp only [List.all_cons]
    rw [h x List.mem_cons_self, ih (fun a ha => h a (List.mem_cons_of_mem _ ha))]

theorem sbinsFrom_frame_eq {es es' : List Ent} : ∀ (bins : List (List Nat)) (i : Nat),
    (∀ l ∈ bins, ∀ a ∈ l, findEnt es' a = findEnt es a) → sbinsFrom es' i bins = sbinsFrom es i bins := by
  intro bins
  induction bins with
  | nil => intro i _; rfl
  | cons l ls ih =>
    intro i h
    simp only [sbinsFrom]
    rw [ih (i + 1) (fun l' hl' => h l' (List.mem_cons_of_mem _ hl'))]
    congr 1
    exact all_congr' (fun a ha => by rw [sizeAt_frame (h l List.mem_cons_self a ha)])

theorem trieOk_frame_eq {es es' : List Ent} (idx : Nat) : ∀ (t : Tree) (path : List Bool),
    (∀ a ∈ t.members, findEnt es' a = findEnt es a) → trieOk es' idx t path = trieOk es idx t path := by
  intro t
  induction t with
  | nil => intro _ _; rfl
  | node ad s ring l r ihl ihr =>
    intro path h
    simp only [trieOk]
    rw [ihl _ (fun a ha => h a (mem_left _ _ _ _ ha)), ihr _ (fun a ha => h a (mem_right _ _ _ _ ha)),
      sizeAt_frame (h ad (mem_self _ _ _ _ _))]
    have : (ring.all fun x => sizeAt es' x s) = (ring.all fun x => sizeAt es x s) :=
      all_congr' (fun a ha => sizeAt_frame (h a (by simp [Tree.members, ha])))
    rw [this]

theorem tbinsFrom_frame_eq {es es' : List Ent} : ∀ (ts : List Tree) (i : Nat),
    (∀ t ∈ ts, ∀ a ∈ t.members, findEnt es' a = findEnt es a) → tbinsFrom es' i ts = tbinsFrom es i ts := by
  intro ts
  induction ts with
  | nil => intro i _; rfl
  | cons t ts ih =>
    intro i h
    simp only [tbinsFrom]
    rw [ih (i + 1) (fun t' ht' => h t' (List.mem_cons_of_mem _ ht')), trieOk_frame_eq i t [] (h t List.mem_cons_self)]

/-- **bins frame**: the two bin conjuncts survive any change of the table that leaves `findEnt`
alone at the binned addresses -/
theorem bins_frame {h : Heap} {es es' : List Ent} (hfr : ∀ a ∈ binned h, findEnt es' a = findEnt es a) :
    sbinsFrom es' 0 h.sbins = sbinsFrom es 0 h.sbins ∧ tbinsFrom es' 0 h.tbins = tbinsFrom es 0 h.tbins := by
  constructor
  · apply sbinsFrom_frame_eq
    intro l hl a ha
    exact hfr a (List.mem_append.2 (Or.inl (mem_joinAll hl ha)))
  · apply tbinsFrom_frame_eq
    intro t ht a ha
    exact hfr a (List.mem_append.2 (Or.inr (mem_joinAll (List.mem_map.2 ⟨t, ht, rfl⟩) ha)))

theorem nodupB_iff_nodup (l : List Nat) : nodupB l = true ↔ l.Nodup := by
  induction l with
  | nil => simp [nodupB]
  | cons a as ih =>
    simp only [nodupB, Bool.and_eq_true, Bool.not_eq_true', List.nodup_cons, ih]
    constructor
    · rintro ⟨h1, h2⟩
      refine ⟨?_, h2⟩
      intro hm
      rw [← List.contains_iff_mem] at hm
      rw [hm] at h1; cases h1
    · rintro ⟨h1, h2⟩
      refine ⟨?_, h2⟩
      cases hc : as.contains a with
      | false => rfl
      | true => exact absurd (List.contains_iff_mem.1 hc) h1

/-- the free-list conjunct as three statements -/
theorem freeListOk_iff (h : Heap) :
    freeListOk h = true ↔ (freeList h).Nodup ∧ (∀ e ∈ h.ents, isFree e = true → e.addr ∈ freeList h) ∧
      (∀ a ∈ freeList h, isFreeAt h.ents a = true) := by
  unfold freeListOk
  simp only [Bool.and_eq_true, nodupB_iff_nodup, List.all_eq_true, Bool.or_eq_true, Bool.not_eq_true',
    List.contains_iff_mem]
  constructor
  · rintro ⟨⟨h1, h2⟩, h3⟩
    refine ⟨h1, ?_, h3⟩
    intro e he hf
    rcases h2 e he with h | h
    · rw [hf] at h; cases h
    · exact h
  · rintro ⟨h1, h2, h3⟩
    refine ⟨⟨h1, ?_⟩, h3⟩
    intro e he
    cases hf : isFree e with
    | false => exact Or.inl rfl
    | true => exact Or.inr (h2 e he hf)

theorem mem_freeList {h : Heap} {a : Nat} :
    a ∈ freeList h ↔ (h.top ≠ 0 ∧ a = h.top) ∨ (h.dv ≠ 0 ∧ a = h.dv) ∨ a ∈ binned h := by
  unfold freeList
  by_cases ht : h.top = 0 <;> by_cases hd : h.dv = 0 <;> simp [ht, hd]

/-- the headers are at non-null addresses -/
theorem WFS.addr_pos {s : St} (w : WFS s) {e : Ent} (he : e ∈ s.h.ents) : 0 < e.addr := by
  obtain ⟨g, hg, hge⟩ := w.struct.seg_of he
  have := w.segs
  unfold segsOk at this
  simp only [Bool.and_eq_true, List.all_eq_true, decide_eq_true_eq] at this
  have := (this.2 g hg).1.1.1.2
  rw [inSeg_iff] at hge
  omega

/-- a binned address is the address of a free header, different from `top` and `dv` -/
theorem WFS.binned_free {s : St} (w : WFS s) {a : Nat} (ha : a ∈ binned s.h) :
    (∃ e, findEnt s.h.ents a = some e ∧ isFree e = true) ∧ a ≠ s.h.top ∧ a ≠ s.h.dv := by
  obtain ⟨h1, _, h3⟩ := (freeListOk_iff s.h).1 w.freeList
  have hfa := isFreeAt_iff.1 (h3 a (mem_freeList_of_binned ha))
  obtain ⟨e, he, _⟩ := id hfa
  have hpos := w.addr_pos (findEnt_some he).1
  rw [(findEnt_some he).2] at hpos
  refine ⟨hfa, ?_, ?_⟩
  · intro heq
    unfold Dl.freeList at h1
    rw [if_neg (by omega)] at h1
    have := (List.nodup_append.1 h1).2.2 a (by simp [heq]) a
      (List.mem_append.2 (Or.inr ha))
    exact this rfl
  · intro heq
    unfold Dl.freeList at h1
    have h1' := (List.nodup_append.1 h1).2.1
    rw [if_neg (by omega)] at h1'
    have := (List.nodup_append.1 h1').2.2 a (by simp [heq]) a ha
    exact this rfl

theorem dvOk_frame {h h' : Heap} (h1 : h'.dv = h.dv) (h2 : h'.dvsize = h.dvsize)
    (h3 : findEnt h'.ents h.dv = findEnt h.ents h.dv) : dvOk h' = dvOk h := by
  unfold dvOk; rw [h1, h2, h3]

theorem topOk_frame {s : St} {h' : Heap} (hne : s.segs ≠ []) (ht : h'.top = s.h.top) (hts : h'.topsize = s.h.topsize)
    (h1 : findEnt h'.ents s.h.top = findEnt s.h.ents s.h.top)
    (h2 : findEnt h'.ents (s.h.top + s.h.topsize) = findEnt s.h.ents (s.h.top + s.h.topsize)) :
    topOk { s with h := h' } = topOk s := by
  unfold topOk
  cases hs : s.segs with
  | nil => exact absurd hs hne
  | cons g rest =>
    simp only [ht, hts, h1, h2]

/-- entries outside the window are found unchanged after the window was replaced -/
theorem findEnt_outer {pre mid mid' post : List Ent}
    (hok' : entsOk (pre ++ mid' ++ post) = true) {a : Nat} {e : Ent}
    (hf : findEnt (pre ++ mid ++ post) a = some e) (hne : e ∉ mid) :
    findEnt (pre ++ mid' ++ post) a = some e := by
  obtain ⟨hm, ha⟩ := findEnt_some hf
  have hm' : e ∈ pre ++ mid' ++ post := by
    simp only [List.mem_append] at hm ⊢
    rcases hm with (h | h) | h
    · exact Or.inl (Or.inl h)
    · exact absurd h hne
    · exact Or.inr h
  rw [← ha]
  exact entsOk_find e hm' hok'

/-- … so `findEnt` agrees with the old table there -/
theorem findEnt_outer_eq {pre mid mid' post : List Ent}
    (hok' : entsOk (pre ++ mid' ++ post) = true) {a : Nat} {e : Ent}
    (hf : findEnt (pre ++ mid ++ post) a = some e) (hne : e ∉ mid) :
    findEnt (pre ++ mid' ++ post) a = findEnt (pre ++ mid ++ post) a := by
  rw [findEnt_outer hok' hf hne, hf]

/-- in-use headers outside the window are preserved; inside, it is a local obligation -/
theorem inusePreserved_window {pre mid mid' post : List Ent} (hok' : entsOk (pre ++ mid' ++ post) = true)
    (hmid : ∀ e ∈ mid, e.cin = true → ∃ e' ∈ mid', e'.addr = e.addr ∧ e'.size = e.size ∧ e'.cin = true) :
    InusePreserved (pre ++ mid ++ post) (pre ++ mid' ++ post) := by
  intro e he hc
  simp only [List.mem_append] at he
  rcases he with (h | h) | h
  · exact ⟨e, entsOk_find e (by simp [h]) hok', rfl, hc⟩
  · obtain ⟨e', he', h1, h2, h3⟩ := hmid e h hc
    refine ⟨e', ?_, h2, h3⟩
    rw [← h1]
    exact entsOk_find e' (by simp [he']) hok'
  · exact ⟨e, entsOk_find e (by simp [h]) hok', rfl, hc⟩

/-! ### the free list -/

/-- addresses of the free headers -/
def freeSet (es : List Ent) : List Nat := (es.filter isFree).map (·.addr)

theorem freeSet_append (a b : List Ent) : freeSet (a ++ b) = freeSet a ++ freeSet b := by
  simp [freeSet, List.filter_append]

theorem mem_freeSet {es : List Ent} {a : Nat} : a ∈ freeSet es ↔ ∃ e ∈ es, isFree e = true ∧ e.addr = a := by
  simp [freeSet, and_assoc]

theorem isFreeAt_iff_freeSet {es : List Ent} (hok : entsOk es = true) {a : Nat} :
    isFreeAt es a = true ↔ a ∈ freeSet es := by
  rw [isFreeAt_iff, mem_freeSet]
  constructor
  · rintro ⟨e, he, hf⟩
    exact ⟨e, (findEnt_some he).1, hf, (findEnt_some he).2⟩
  · rintro ⟨e, he, hf, ha⟩
    exact ⟨e, ha ▸ entsOk_find e he hok, hf⟩

/-- for a sorted table: the free list enumerates the free headers without repetition -/
theorem freeListOk_iff_set {h : Heap} (hok : entsOk h.ents = true) :
    freeListOk h = true ↔ (freeList h).Nodup ∧ ∀ a, a ∈ freeList h ↔ a ∈ freeSet h.ents := by
  rw [freeListOk_iff]
  constructor
  · rintro ⟨h1, h2, h3⟩
    refine ⟨h1, fun a => ⟨fun ha => (isFreeAt_iff_freeSet hok).1 (h3 a ha), ?_⟩⟩
    intro ha
    obtain ⟨e, he, hf, hea⟩ := mem_freeSet.1 ha
    exact hea ▸ h2 e he hf
  · rintro ⟨h1, h2⟩
    refine ⟨h1, ?_, fun a ha => (isFreeAt_iff_freeSet hok).2 ((h2 a).1 ha)⟩
    intro e he hf
    exact (h2 e.addr).2 (mem_freeSet.2 ⟨e, he, hf, rfl⟩)

/-- **free list under window replacement**: the new free list must be duplicate-free and consist of
the old one minus the free headers of the old window plus those of the new window -/
theorem freeListOk_window {h h' : Heap} {pre mid mid' post : List Ent}
    (hes : h.ents = pre ++ mid ++ post) (hes' : h'.ents = pre ++ mid' ++ post)
    (hok : entsOk h.ents = true) (hok' : entsOk h'.ents = true)
    (hfl : freeListOk h = true) (hnd : (freeList h').Nodup)
    (hmem : ∀ a, a ∈ freeList h' ↔ (a ∈ freeList h ∧ a ∉ freeSet mid) ∨ a ∈ freeSet mid') :
    freeListOk h' = true := by
  obtain ⟨_, h2⟩ := (freeListOk_iff_set hok).1 hfl
  refine (freeListOk_iff_set hok').2 ⟨hnd, ?_⟩
  intro a
  rw [hmem a, h2 a, hes, hes']
  simp only [freeSet_append, List.mem_append]
  -- addresses of `pre`, `post` are not addresses of `mid`
  have hdis : ∀ e ∈ pre ++ post, ∀ e2 ∈ mid, e.addr ≠ e2.addr := by
    intro e he e2 he2 heq
    rw [hes] at hok
    have h1 : e ∈ pre ++ mid ++ post := by
      simp only [List.mem_append] at he ⊢
      rcases he with h | h
      · exact Or.inl (Or.inl h)
      · exact Or.inr h
    have h2 : e2 ∈ pre ++ mid ++ post := by simp [he2]
    have := entsOk_addr_inj hok h1 h2 heq
    subst this
    -- `e` occurs in `mid` and in `pre ++ post`: twice in a sorted table
    rw [List.append_assoc] at hok
    obtain ⟨_, hb, hc⟩ := entsOk_append.1 hok
    obtain ⟨_, _, hd⟩ := entsOk_append.1 hb
    have hp := entsOk_pos hb e (by simp [he2])
    rcases List.mem_append.1 he with h | h
    · have := hc e h e (by simp [he2]); omega
    · have := hd e he2 e h; omega
  have hnm : ∀ a, a ∈ freeSet pre ∨ a ∈ freeSet post → a ∉ freeSet mid := by
    intro a ha hm
    obtain ⟨e2, he2, _, ha2⟩ := mem_freeSet.1 hm
    rcases ha with ha | ha
    · obtain ⟨e, he, _, ha1⟩ := mem_freeSet.1 ha
      exact hdis e (by simp [he]) e2 he2 (by omega)
    · obtain ⟨e, he, _, ha1⟩ := mem_freeSet.1 ha
      exact hdis e (by simp [he]) e2 he2 (by omega)
  constructor
  · rintro (⟨(h | h) | h, hn⟩ | h)
    · exact Or.inl (Or.inl h)
    · exact absurd h hn
    · exact Or.inr h
    · exact Or.inl (Or.inr h)
  · rintro ((h | h) | h)
    · exact Or.inl ⟨Or.inl (Or.inl h), hnm a (Or.inl h)⟩
    · exact Or.inr h
    · exact Or.inl ⟨Or.inr h, hnm a (Or.inr h)⟩

/-- replacing a middle part of a duplicate-free list -/
theorem nodup_mid_replace {A M M' B : List Nat} (h : (A ++ (M ++ B)).Nodup) (hM : M'.Nodup)
    (hd : ∀ a ∈ M', a ∉ A ∧ a ∉ B) : (A ++ (M' ++ B)).Nodup := by
  simp only [List.nodup_append] at h ⊢
  obtain ⟨h1, ⟨_, h3, _⟩, h5⟩ := h
  refine ⟨h1, ⟨hM, h3, ?_⟩, ?_⟩
  · intro a ha b hb hab
    exact (hd a ha).2 (hab ▸ hb)
  · intro a ha b hb hab
    rcases List.mem_append.1 hb with hb | hb
    · exact (hd b hb).1 (hab ▸ ha)
    · exact h5 a ha b (List.mem_append.2 (Or.inr hb)) hab

theorem mem_mid_replace {A M M' B : List Nat} (h : (A ++ (M ++ B)).Nodup) (a : Nat) :
    a ∈ A ++ (M' ++ B) ↔ (a ∈ A ++ (M ++ B) ∧ a ∉ M) ∨ a ∈ M' := by
  simp only [List.nodup_append] at h
  obtain ⟨_, ⟨_, _, h4⟩, h5⟩ := h
  simp only [List.mem_append]
  constructor
  · rintro (h | h | h)
    · exact Or.inl ⟨Or.inl h, fun hm => h5 a h a (List.mem_append.2 (Or.inl hm)) rfl⟩
    · exact Or.inr h
    · exact Or.inl ⟨Or.inr (Or.inr h), fun hm => h4 a hm a h rfl⟩
  · rintro (⟨h | h | h, hn⟩ | h)
    · exact Or.inl h
    · exact absurd h hn
    · exact Or.inr (Or.inr h)
    · exact Or.inr (Or.inl h)

/-! ### assembling `WFS`; forward forms of the primitives; `dv` and `top` -/

theorem wfs_of_parts {s : St} {h' : Heap} (w : WFS s) (hst : StructOk h'.ents s.segs h'.top)
    (hfl : freeListOk h' = true)
    (hsb : (decide (h'.sbins.length = 32) && sbinsFrom h'.ents 0 h'.sbins) = true)
    (htb : (decide (h'.tbins.length = 32) && tbinsFrom h'.ents 0 h'.tbins) = true)
    (hdv : dvOk h' = true) (htop : topOk { s with h := h' } = true) : WFS { s with h := h' } :=
  ⟨hst.ents, hst.shape, hst.inSegs, hst.tiles, hst.tags, hfl, hsb, htb, hdv, htop, w.segs⟩

theorem writeHead_window_ok {h h' : Heap} {pre ms post : List Ent} {a size : Nat} {c p : Bool}
    (e : writeHead h a size c p = .ok h')
    (hes : h.ents = pre ++ ms ++ post)
    (hpre : ∀ q ∈ pre, q.addr < a)
    (hms : ∀ m ∈ ms, a ≤ m.addr ∧ (m.addr = a ∨ m.addr < a + size))
    (hpost : ∀ q ∈ post, a < q.addr ∧ a + size ≤ q.addr) :
    h' = { h with ents := pre ++ { addr := a, size := size, cin := c, pin := p, pfoot := pfootAt h.ents a } :: post } := by
  have h8 : size % 8 = 0 := by
    unfold writeHead at e
    split at e
    · msimp at e
    · rename_i hh; omega
  rw [writeHead_window h8 hes hpre hms hpost] at e
  injection e with e
  exact e.symm

theorem setFoot_at_ok {h h' : Heap} {pre post : List Ent} {x : Ent} {a v : Nat} (e : setFoot h a v = .ok h')
    (hes : h.ents = pre ++ x :: post) (ha : x.addr = a) (hpre : ∀ p ∈ pre, p.addr ≠ x.addr) :
    h' = { h with ents := pre ++ { x with pfoot := v } :: post } := by
  subst ha
  rw [setFoot_at hes hpre] at e
  injection e with e
  exact e.symm

theorem clearPin_at_ok {h h' : Heap} {pre post : List Ent} {x : Ent} {a : Nat} (e : clearPin h a = .ok h')
    (hes : h.ents = pre ++ x :: post) (ha : x.addr = a) (hpre : ∀ p ∈ pre, p.addr ≠ x.addr) :
    h' = { h with ents := pre ++ { x with pin := false } :: post } := by
  subst ha
  rw [clearPin_at hes hpre] at e
  injection e with e
  exact e.symm

/-- a free chunk other than `top`, in the table: its segment, and the in-use header right after it -/
theorem WFS.free_parts {s : St} (w : WFS s) {x : Ent} (hx : x ∈ s.h.ents) (hf : isFree x = true)
    (hne : x.addr ≠ s.h.top) :
    ∃ pre y post g, s.h.ents = pre ++ x :: y :: post ∧ g ∈ s.segs ∧ inSeg g x = true ∧ inSeg g y = true ∧
      y.addr = x.addr + x.size ∧ y.cin = true ∧ y.pin = false ∧ y.pfoot = x.size := by
  obtain ⟨pre, post, hes⟩ := List.append_of_mem hx
  obtain ⟨g, hg, hgx⟩ := w.struct.seg_of hx
  obtain ⟨y, post', hp, hya, hgy, hl⟩ := next_entry w.struct hes hg hgx (isTrailerEnd_free w.shape hx hf)
  obtain ⟨l1, l2, l3⟩ := linkOk_free hl hf hne
  subst hp
  exact ⟨pre, y, post', g, hes, hg, hgx, hgy, hya, l1, l2, l3⟩

/-- every address on the free list is the address of a header -/
theorem WFS.freeList_entry {s : St} (w : WFS s) {a : Nat} (ha : a ∈ Dl.freeList s.h) : ∃ e ∈ s.h.ents, e.addr = a := by
  have := ((freeListOk_iff s.h).1 w.freeList).2.2 a ha
  obtain ⟨e, he, _⟩ := isFreeAt_iff.1 this
  exact ⟨e, (findEnt_some he).1, (findEnt_some he).2⟩

theorem WFS.topsize_ne {s : St} (w : WFS s) {g : Seg} (hg : g ∈ s.segs) : s.h.topsize ≠ 0 := by
  have ht := w.top
  unfold topOk at ht
  split at ht
  · rename_i hnil; rw [hnil] at hg; cases hg
  · simp only [Bool.and_eq_true, decide_eq_true_eq] at ht; omega

theorem WFS.dv_ne_top {s : St} (w : WFS s) (ht : s.h.top ≠ 0) : s.h.dv ≠ s.h.top := by
  intro heq
  have h1 := ((freeListOk_iff s.h).1 w.freeList).1
  unfold Dl.freeList at h1
  rw [if_neg ht, if_neg (by omega)] at h1
  have := (List.nodup_append.1 h1).2.2 s.h.dv (by simp [heq]) s.h.dv (by simp)
  exact this rfl

/-- `dv`, when there is one: a free chunk of `dvsize ≥ 32` bytes different from `top` -/
theorem WFS.dv_parts {s : St} (w : WFS s) (hne : s.h.dvsize ≠ 0) :
    ∃ x, x ∈ s.h.ents ∧ x.addr = s.h.dv ∧ isFree x = true ∧ x.size = s.h.dvsize ∧ 32 ≤ s.h.dvsize ∧
      s.h.dv ≠ 0 ∧ s.h.dv ≠ s.h.top := by
  have hd := w.dv
  unfold dvOk at hd
  split at hd
  · simp only [decide_eq_true_eq] at hd; exact absurd hd hne
  · rename_i hdv
    split at hd
    · rename_i e he
      simp only [Bool.and_eq_true, decide_eq_true_eq] at hd
      obtain ⟨hm, ha⟩ := findEnt_some he
      refine ⟨e, hm, ha, hd.1.1, hd.1.2, hd.2, hdv, ?_⟩
      intro heq
      have h1 := ((freeListOk_iff s.h).1 w.freeList).1
      unfold Dl.freeList at h1
      rw [if_neg (by omega), if_neg hdv] at h1
      have := (List.nodup_append.1 h1).2.2 s.h.dv (by simp [heq]) s.h.dv (by simp)
      exact this rfl
    · cases hd

/-- `top`, once the heap is initialised: the head segment, the free header of `top` and the foot word
right after it in the table -/
theorem WFS.top_parts {s : St} (w : WFS s) (hne : s.h.topsize ≠ 0) :
    ∃ g rest pre x f post, s.segs = g :: rest ∧ s.h.ents = pre ++ x :: f :: post ∧ x.addr = s.h.top ∧
      isFree x = true ∧ x.size = s.h.topsize ∧ f.addr = s.h.top + s.h.topsize ∧ f.cin = false ∧ f.pin = false ∧
      f.size = 80 ∧ g.base ≤ s.h.top ∧ s.h.top + s.h.topsize + 80 = g.base + g.size ∧ s.h.top ≠ 0 ∧
      inSeg g x = true ∧ inSeg g f = true := by
  have ht := w.top
  unfold topOk at ht
  split at ht
  · simp only [Bool.and_eq_true, decide_eq_true_eq] at ht; omega
  · rename_i g rest hsegs
    simp only [Bool.and_eq_true, decide_eq_true_eq] at ht
    obtain ⟨⟨⟨⟨⟨⟨t1, t2⟩, t3⟩, t4⟩, t5⟩, t6⟩, t7⟩ := ht
    split at t6
    · rename_i x hx
      split at t7
      · rename_i f hf
        simp only [Bool.and_eq_true, decide_eq_true_eq, Bool.not_eq_true'] at t6 t7
        rw [top_foot_size_eq] at t4 t7
        obtain ⟨hxm, hxa⟩ := findEnt_some hx
        obtain ⟨hfm, hfa⟩ := findEnt_some hf
        have hg : g ∈ s.segs := by rw [hsegs]; exact List.mem_cons_self
        have hgx : inSeg g x = true := by rw [inSeg_iff]; omega
        obtain ⟨pre, post, hes⟩ := List.append_of_mem hxm
        obtain ⟨y, post', hp, hya, hgy, hl⟩ :=
          next_entry w.struct hes hg hgx (isTrailerEnd_free w.shape hxm t6.1)
        subst hp
        have hym : y ∈ s.h.ents := by rw [hes]; simp
        have hyf : y = f := entsOk_addr_inj w.ents hym hfm (by omega)
        subst hyf
        exact ⟨g, rest, pre, x, y, post', hsegs, hes, hxa, t6.1, t6.2, hfa, t7.1.1, t7.1.2, t7.2, t3, t4, t1,
          hgx, hgy⟩
      · cases t7
    · cases t6

/-! ### frame wrappers for a window replacement `pre ++ mid ++ post ↦ pre ++ mid' ++ post` -/

/-- bins untouched, no binned chunk inside the old window ⇒ both bin conjuncts survive -/
theorem bins_window {s : St} (w : WFS s) {H : Heap} {pre mid mid' post : List Ent}
    (hes : s.h.ents = pre ++ mid ++ post) (hH : H.ents = pre ++ mid' ++ post) (hok' : entsOk H.ents = true)
    (hsb : H.sbins = s.h.sbins) (htb : H.tbins = s.h.tbins)
    (hmid : ∀ e ∈ mid, isFree e = true → e.addr = s.h.top ∨ e.addr = s.h.dv) :
    (decide (H.sbins.length = 32) && sbinsFrom H.ents 0 H.sbins) = true ∧
    (decide (H.tbins.length = 32) && tbinsFrom H.ents 0 H.tbins) = true := by
  have hfr : ∀ a ∈ binned s.h, findEnt H.ents a = findEnt s.h.ents a := by
    intro a ha
    obtain ⟨⟨e, he, hef⟩, hat, had⟩ := w.binned_free ha
    rw [hH, hes]
    rw [hes] at he
    rw [hH] at hok'
    refine findEnt_outer_eq hok' he ?_
    intro hm
    have hea := (findEnt_some he).2
    rcases hmid e hm hef with h | h
    · exact hat (hea.symm.trans h)
    · exact had (hea.symm.trans h)
  have h1 := w.sbins
  have h2 := w.tbins
  rw [← (bins_frame hfr).1] at h1
  rw [← (bins_frame hfr).2] at h2
  rw [hsb, htb]
  exact ⟨h1, h2⟩

/-- `top` untouched, neither `top` nor its foot word inside the old window ⇒ `topOk` survives -/
theorem topOk_window {s : St} (w : WFS s) {H : Heap} {pre mid mid' post : List Ent}
    (hes : s.h.ents = pre ++ mid ++ post) (hH : H.ents = pre ++ mid' ++ post) (hok' : entsOk H.ents = true)
    (hne : s.segs ≠ []) (ht : H.top = s.h.top) (hts : H.topsize = s.h.topsize)
    (hmid : ∀ e ∈ mid, (isFree e = true → e.addr ≠ s.h.top) ∧ (e.cin = true ∨ e.pin = true)) :
    topOk { s with h := H } = true := by
  obtain ⟨g, hg⟩ := List.exists_mem_of_ne_nil _ hne
  obtain ⟨g0, rest, tpre, xt, ft, tpost, _, htes, hxta, hxtf, _, hfta, hftc, hftp, _⟩ := w.top_parts (w.topsize_ne hg)
  have hxtm : xt ∈ s.h.ents := by rw [htes]; simp
  have hftm : ft ∈ s.h.ents := by rw [htes]; simp
  rw [← w.top]
  rw [hH] at hok'
  refine topOk_frame hne ht hts ?_ ?_
  · have := hxta ▸ entsOk_find xt hxtm w.ents
    rw [hH, hes]
    rw [hes] at this
    exact findEnt_outer_eq hok' this (fun hm => (hmid xt hm).1 hxtf hxta)
  · have := hfta ▸ entsOk_find ft hftm w.ents
    rw [hH, hes]
    rw [hes] at this
    refine findEnt_outer_eq hok' this (fun hm => ?_)
    rcases (hmid ft hm).2 with h | h
    · rw [hftc] at h; cases h
    · rw [hftp] at h; cases h

/-- `dv` untouched and not inside the old window ⇒ `dvOk` survives -/
theorem dvOk_window {s : St} (w : WFS s) {H : Heap} {pre mid mid' post : List Ent}
    (hes : s.h.ents = pre ++ mid ++ post) (hH : H.ents = pre ++ mid' ++ post) (hok' : entsOk H.ents = true)
    (hd : H.dv = s.h.dv) (hds : H.dvsize = s.h.dvsize) (hmid : ∀ e ∈ mid, isFree e = true → e.addr ≠ s.h.dv) :
    dvOk H = true := by
  rw [← w.dv]
  by_cases h0 : s.h.dv = 0
  · unfold dvOk; rw [hd, hds, if_pos h0, if_pos h0]
  · refine dvOk_frame hd hds ?_
    have hdv := w.dv
    unfold dvOk at hdv
    rw [if_neg h0] at hdv
    split at hdv
    · rename_i e he
      rw [hH, hes]
      rw [hes] at he
      rw [hH] at hok'
      simp only [Bool.and_eq_true] at hdv
      exact findEnt_outer_eq hok' he (fun hm => hmid e hm hdv.1.1 (findEnt_some he).2)
    · cases hdv

/-- the general form of `bins_window`: the bins may have changed.  Obligations: the new bins are
well-indexed with respect to the *old* table (pure bin surgery: `sbinsFrom_set_sub`, …), binned
addresses are old binned addresses, and no free header of the old window is binned any more -/
theorem bins_window' {s : St} (w : WFS s) {H : Heap} {pre mid mid' post : List Ent}
    (hes : s.h.ents = pre ++ mid ++ post) (hH : H.ents = pre ++ mid' ++ post) (hok' : entsOk H.ents = true)
    (hsb : (decide (H.sbins.length = 32) && sbinsFrom s.h.ents 0 H.sbins) = true)
    (htb : (decide (H.tbins.length = 32) && tbinsFrom s.h.ents 0 H.tbins) = true)
    (hsub : ∀ a ∈ binned H, a ∈ binned s.h)
    (hmid : ∀ e ∈ mid, isFree e = true → e.addr = s.h.top ∨ e.addr = s.h.dv ∨ e.addr ∉ binned H) :
    (decide (H.sbins.length = 32) && sbinsFrom H.ents 0 H.sbins) = true ∧
    (decide (H.tbins.length = 32) && tbinsFrom H.ents 0 H.tbins) = true := by
  have hfr : ∀ a ∈ binned H, findEnt H.ents a = findEnt s.h.ents a := by
    intro a ha
    obtain ⟨⟨e, he, hef⟩, hat, had⟩ := w.binned_free (hsub a ha)
    rw [hH, hes]
    rw [hes] at he
    rw [hH] at hok'
    refine findEnt_outer_eq hok' he ?_
    intro hm
    have hea := (findEnt_some he).2
    rcases hmid e hm hef with h | h | h
    · exact hat (hea.symm.trans h)
    · exact had (hea.symm.trans h)
    · exact h (hea ▸ ha)
  rw [(bins_frame hfr).1, (bins_frame hfr).2]
  exact ⟨hsb, htb⟩

/-! ### small bins: list surgery -/

theorem joinAll_append (a b : List (List Nat)) : joinAll (a ++ b) = joinAll a ++ joinAll b := by
  induction a with
  | nil => rfl
  | cons x xs ih => simp [joinAll, ih]

/-- the flattened bins around bin `k` -/
theorem joinAll_set_split {bins : List (List Nat)} {k : Nat} {l : List Nat} (h : bins[k]? = some l) :
    ∃ A B, joinAll bins = A ++ (l ++ B) ∧ ∀ l', joinAll (bins.set k l') = A ++ (l' ++ B) := by
  induction bins generalizing k with
  | nil => simp at h
  | cons b bs ih =>
    cases k with
    | zero =>
      simp only [List.getElem?_cons_zero, Option.some.injEq] at h
      subst h
      exact ⟨[], joinAll bs, by simp [joinAll], fun l' => by simp [joinAll]⟩
    | succ k =>
      simp only [List.getElem?_cons_succ] at h
      obtain ⟨A, B, h1, h2⟩ := ih h
      refine ⟨b ++ A, B, ?_, ?_⟩
      · simp only [joinAll, h1, List.append_assoc]
      · intro l'
        simp only [List.set_cons_succ, joinAll, h2 l', List.append_assoc]

/-- what `sbinsFrom` says about bin `k` -/
theorem sbinsFrom_getElem {es : List Ent} {bins : List (List Nat)} : ∀ {i k : Nat} {l : List Nat},
    sbinsFrom es i bins = true → bins[k]? = some l →
    ∀ a ∈ l, sizeAt es a ((i + k) * 8) = true ∧ 32 ≤ (i + k) * 8 := by
  induction bins with
  | nil => intro i k l _ h; simp at h
  | cons b bs ih =>
    intro i k l hs h
    simp only [sbinsFrom, Bool.and_eq_true, List.all_eq_true, decide_eq_true_eq] at hs
    cases k with
    | zero =>
      simp only [List.getElem?_cons_zero, Option.some.injEq] at h
      subst h
      intro a ha
      exact hs.1 a ha
    | succ k =>
      simp only [List.getElem?_cons_succ] at h
      intro a ha
      have := ih hs.2 h a ha
      rw [show i + (k + 1) = i + 1 + k by omega]
      exact this

/-- shrinking one bin keeps the bins well-indexed -/
theorem sbinsFrom_set_sub {es : List Ent} {bins : List (List Nat)} : ∀ {i k : Nat} {l l' : List Nat},
    sbinsFrom es i bins = true → bins[k]? = some l → (∀ a ∈ l', a ∈ l) →
    sbinsFrom es i (bins.set k l') = true := by
  induction bins with
  | nil => intro i k l l' _ h; simp at h
  | cons b bs ih =>
    intro i k l l' hs h hsub
    simp only [sbinsFrom, Bool.and_eq_true, List.all_eq_true, decide_eq_true_eq] at hs
    cases k with
    | zero =>
      simp only [List.getElem?_cons_zero, Option.some.injEq] at h
      subst h
      simp only [List.set_cons_zero, sbinsFrom, Bool.and_eq_true, List.all_eq_true, decide_eq_true_eq]
      exact ⟨fun a ha => hs.1 a (hsub a ha), hs.2⟩
    | succ k =>
      simp only [List.getElem?_cons_succ] at h
      simp only [List.set_cons_succ, sbinsFrom, Bool.and_eq_true, List.all_eq_true, decide_eq_true_eq]
      exact ⟨hs.1, ih hs.2 h hsub⟩

/-! ## 6. the two table changes of `malloc`: exhaust and split

Eight branches of `malloc` (`dv-exhaust`, `small-bin`, `small-next-exhaust`, `tsmall-exhaust`,
`tlarge-exhaust`; `dv-split`, `small-next-split`, `tsmall-split`, `tlarge-split`) change the table in
one of two ways around a free chunk `x` (not `top`) and the in-use chunk `y` after it:

  exhaust : `[x, y] ↦ [nx, ny]`      `nx` = `x` in use, `ny` = `y` with PINUSE set
  split   : `[x, y] ↦ [np, nr, ny]`  `np` = first `nb` bytes in use, `nr` = free remainder,
                                      `ny` = `y` with `prev_foot = nr.size`

`exhaust_table` / `split_table` give everything about the table (`StructOk`, `AllocAt`, the free
headers of the two windows); what remains per branch is the bookkeeping of *where the free chunk was
listed* (`freeListOk_replace`, `bins_window'`, `dvOk_window`, `topOk_window`). -/

/-- what a successful allocation carved from the free chunk at `p` says about the header table: `p`
was the address of a free header `x` of at least `nb` bytes; the new table has an in-use header of at
least `nb` bytes (no larger than `x`) at `p`; the in-use addresses are the old ones plus `p`; every
old in-use header is still there with the same size (`InusePreserved`) -/
structure AllocAt (es es' : List Ent) (nb p : Nat) : Prop where
  victim : ∃ x ∈ es, x.addr = p ∧ isFree x = true ∧ nb ≤ x.size ∧
    ∃ e', findEnt es' p = some e' ∧ e'.cin = true ∧ nb ≤ e'.size ∧ e'.size ≤ x.size
  cin : ∀ a, a ∈ cinSet es' ↔ a = p ∨ a ∈ cinSet es
  kept : InusePreserved es es'

/-- the same, for the pointer returned -/
def AllocFacts (es es' : List Ent) (nb mem : Nat) : Prop := ∃ p, mem = p + 16 ∧ AllocAt es es' nb p

theorem isFree_iff {e : Ent} : isFree e = true ↔ e.cin = false ∧ e.pin = true := by
  simp [isFree]

/-- a free chunk `x` other than `top` in the table, followed by the in-use chunk `y` -/
structure FreeAt (s : St) (pre post : List Ent) (x y : Ent) (g : Seg) : Prop where
  hes : s.h.ents = pre ++ [x, y] ++ post
  free : isFree x = true
  ntop : x.addr ≠ s.h.top
  hg : g ∈ s.segs
  gx : inSeg g x = true
  gy : inSeg g y = true
  ya : y.addr = x.addr + x.size
  yc : y.cin = true
  yp : y.pin = false
  yf : y.pfoot = x.size

theorem WFS.freeAt {s : St} (w : WFS s) {x : Ent} (hx : x ∈ s.h.ents) (hf : isFree x = true)
    (hne : x.addr ≠ s.h.top) : ∃ pre y post g, FreeAt s pre post x y g := by
  obtain ⟨pre, y, post, g, hes, hg, hgx, hgy, hya, hyc, hyp, hyf⟩ := w.free_parts hx hf hne
  exact ⟨pre, y, post, g, by rw [hes]; simp, hf, hne, hg, hgx, hgy, hya, hyc, hyp, hyf⟩

/-- sortedness around the window `[x, y]` -/
theorem FreeAt.order {s : St} (w : WFS s) {pre post : List Ent} {x y : Ent} {g : Seg} (fa : FreeAt s pre post x y g) :
    (∀ q ∈ pre, q.addr + q.size ≤ x.addr ∧ q.addr < x.addr) ∧ 0 < x.size ∧ 0 < y.size ∧
      (∀ q ∈ post, y.addr + y.size ≤ q.addr ∧ y.addr < q.addr) := by
  have hok := w.ents
  rw [fa.hes] at hok
  have hok2 : entsOk (pre ++ x :: y :: post) = true := by simpa using hok
  obtain ⟨o1, o2, _, o4, o5⟩ := entsOk_mid2 hok2
  exact ⟨o1, o2, o4, o5⟩

theorem cin_window_add {a p ya : Nat} {cp cq : List Nat} :
    ((a ∈ cp ∨ a ∈ [p, ya]) ∨ a ∈ cq) ↔ a = p ∨ ((a ∈ cp ∨ a ∈ [ya]) ∨ a ∈ cq) := by
  simp only [List.mem_cons, List.not_mem_nil, or_false]
  constructor
  · rintro ((h | h | h) | h)
    · exact Or.inr (Or.inl (Or.inl h))
    · exact Or.inl h
    · exact Or.inr (Or.inl (Or.inr h))
    · exact Or.inr (Or.inr h)
  · rintro (h | (h | h) | h)
    · exact Or.inl (Or.inr (Or.inl h))
    · exact Or.inl (Or.inl h)
    · exact Or.inl (Or.inr (Or.inr h))
    · exact Or.inr h

/-- **exhaust**: the whole free chunk becomes an in-use chunk -/
theorem exhaust_table {s : St} (w : WFS s) {pre post : List Ent} {x y : Ent} {g : Seg} (fa : FreeAt s pre post x y g)
    {nx ny : Ent} (nx1 : nx.addr = x.addr) (nx2 : nx.size = x.size) (nx3 : nx.cin = true) (nx4 : nx.pin = true)
    (ny1 : ny.addr = y.addr) (ny2 : ny.size = y.size) (ny3 : ny.cin = true) (ny4 : ny.pin = true)
    {nb : Nat} (hnb : nb ≤ x.size) :
    StructOk (pre ++ [nx, ny] ++ post) s.segs s.h.top ∧ AllocAt s.h.ents (pre ++ [nx, ny] ++ post) nb x.addr ∧
      freeSet [x, y] = [x.addr] ∧ freeSet [nx, ny] = [] := by
  obtain ⟨hes2, hxf, hxtop, hg, hgx, hgy, hya, hyc, hyp, _⟩ := fa
  have hxm : x ∈ s.h.ents := by rw [hes2]; simp
  have hym : y ∈ s.h.ents := by rw [hes2]; simp
  obtain ⟨hxc, hxp⟩ := isFree_iff.1 hxf
  obtain ⟨hx16, hxs16, _⟩ := shapeOk_free w.shape hxm hxc
  have hyfree : isFree y = false := by simp [isFree, hyc]
  have hst0 : StructOk (pre ++ (x :: [y]) ++ post) s.segs s.h.top := by
    have := w.struct; rw [hes2] at this; exact this
  have hysh : y.addr % 16 = 0 ∧ y.size % 16 = 0 ∧ 16 ≤ y.size := by
    rcases shapeOk_mem w.shape hym with h | h
    · rw [hyp] at h; exact absurd h.2.2 (by decide)
    · exact h
  have hst : StructOk (pre ++ (nx :: [ny]) ++ post) s.segs s.h.top :=
    struct_window hst0 w.segsDisjoint hg
      (by
        intro e he
        simp only [List.mem_cons, List.not_mem_nil, or_false] at he
        rcases he with rfl | rfl <;> assumption)
      (by simp only [contig, Bool.and_eq_true, decide_eq_true_eq, Bool.and_true]; omega)
      (by simp only [endE, lastE]; omega)
      (by
        simp only [shapeOk, List.all_cons, List.all_nil, Bool.and_true, Bool.and_eq_true, Bool.or_eq_true,
          decide_eq_true_eq]
        exact ⟨Or.inr ⟨⟨by omega, by omega⟩, by omega⟩, Or.inr ⟨⟨by omega, by omega⟩, by omega⟩⟩)
      (by simp only [lastE, isTrailerEnd, hyc, ny2, ny3]; exact id)
      (fun _ _ => Iff.rfl)
      ⟨by rw [nx4, hxp], fun h => by rw [hxp] at h; cases h⟩
      ⟨by simp only [lastE]; rw [ny3, hyc], fun hf => by simp [lastE, isFree, ny3] at hf⟩
      (by simp [tagsFrom, linkOk, isFree, nx3, ny4])
  have hpre : ∀ q ∈ pre, q.addr < x.addr := by
    intro q hq
    have hok := w.ents
    rw [hes2] at hok
    have := (entsOk_window_bounds hok).1 q hq
    have := entsOk_pos w.ents q (by rw [hes2]; simp [hq])
    omega
  have hfnx : findEnt (pre ++ [nx, ny] ++ post) x.addr = some nx := by
    rw [List.append_assoc, findEnt_skip (fun q hq => by have := hpre q hq; omega), ← nx1]
    exact findEnt_head
  refine ⟨hst, ⟨⟨x, hxm, rfl, hxf, hnb, nx, hfnx, nx3, by omega, by omega⟩, ?_, ?_⟩, ?_, ?_⟩
  · intro a
    rw [hes2]
    simp only [cinSet_append, List.mem_append]
    have c1 : cinSet [x, y] = [y.addr] := by simp [cinSet, List.filter, hxc, hyc]
    have c2 : cinSet [nx, ny] = [x.addr, y.addr] := by simp [cinSet, List.filter, nx3, ny3, nx1, ny1]
    rw [c1, c2]
    exact cin_window_add
  · rw [hes2]
    refine inusePreserved_window hst.ents ?_
    intro e he hc
    simp only [List.mem_cons, List.not_mem_nil, or_false] at he
    rcases he with rfl | rfl
    · rw [hxc] at hc; cases hc
    · exact ⟨ny, by simp, ny1, ny2, ny3⟩
  · simp [freeSet, List.filter, hxf, hyfree]
  · simp [freeSet, List.filter, isFree, nx3, ny3]

/-- **split**: the first `nb` bytes of the free chunk become an in-use chunk, the rest a free chunk -/
theorem split_table {s : St} (w : WFS s) {pre post : List Ent} {x y : Ent} {g : Seg} (fa : FreeAt s pre post x y g)
    {nb : Nat} (hnb16 : nb % 16 = 0) (hnb : 16 ≤ nb) (hlt : nb < x.size)
    {np nr ny : Ent}
    (np1 : np.addr = x.addr) (np2 : np.size = nb) (np3 : np.cin = true) (np4 : np.pin = true)
    (nr1 : nr.addr = x.addr + nb) (nr2 : nr.size = x.size - nb) (nr3 : nr.cin = false) (nr4 : nr.pin = true)
    (ny1 : ny.addr = y.addr) (ny2 : ny.size = y.size) (ny3 : ny.cin = true) (ny4 : ny.pin = false)
    (ny5 : ny.pfoot = x.size - nb) :
    StructOk (pre ++ [np, nr, ny] ++ post) s.segs s.h.top ∧ AllocAt s.h.ents (pre ++ [np, nr, ny] ++ post) nb x.addr ∧
      freeSet [x, y] = [x.addr] ∧ freeSet [np, nr, ny] = [x.addr + nb] ∧
      findEnt (pre ++ [np, nr, ny] ++ post) (x.addr + nb) = some nr ∧ (∀ e ∈ s.h.ents, e.addr ≠ x.addr + nb) := by
  obtain ⟨hes2, hxf, hxtop, hg, hgx, hgy, hya, hyc, hyp, _⟩ := fa
  have hxm : x ∈ s.h.ents := by rw [hes2]; simp
  have hym : y ∈ s.h.ents := by rw [hes2]; simp
  obtain ⟨hxc, hxp⟩ := isFree_iff.1 hxf
  obtain ⟨hx16, hxs16, _⟩ := shapeOk_free w.shape hxm hxc
  have hyfree : isFree y = false := by simp [isFree, hyc]
  have hst0 : StructOk (pre ++ (x :: [y]) ++ post) s.segs s.h.top := by
    have := w.struct; rw [hes2] at this; exact this
  obtain ⟨_, _, _, xt, _, _, _, htes, hxta, _⟩ := w.top_parts (w.topsize_ne hg)
  have hxtm : xt ∈ s.h.ents := by rw [htes]; simp
  have hinside : ∀ e ∈ s.h.ents, e.addr ≠ x.addr + nb :=
    entsOk_no_inside w.ents hxm (a := x.addr + nb) (by omega) (by omega)
  have hrtop : x.addr + nb ≠ s.h.top := fun heq => hinside xt hxtm (by omega)
  have hysh : y.addr % 16 = 0 ∧ y.size % 16 = 0 ∧ 16 ≤ y.size := by
    rcases shapeOk_mem w.shape hym with h | h
    · rw [hyp] at h; exact absurd h.2.2 (by decide)
    · exact h
  have hst : StructOk (pre ++ (np :: [nr, ny]) ++ post) s.segs s.h.top :=
    struct_window hst0 w.segsDisjoint hg
      (by
        intro e he
        simp only [List.mem_cons, List.not_mem_nil, or_false] at he
        rcases he with rfl | rfl <;> assumption)
      (by simp only [contig, Bool.and_eq_true, decide_eq_true_eq, Bool.and_true]; omega)
      (by simp only [endE, lastE]; omega)
      (by
        simp only [shapeOk, List.all_cons, List.all_nil, Bool.and_true, Bool.and_eq_true, Bool.or_eq_true,
          decide_eq_true_eq]
        exact ⟨Or.inr ⟨⟨by omega, by omega⟩, by omega⟩, Or.inr ⟨⟨by omega, by omega⟩, by omega⟩,
          Or.inr ⟨⟨by omega, by omega⟩, by omega⟩⟩)
      (by simp only [lastE, isTrailerEnd, hyc, hyp, ny2, ny3, ny4]; exact id)
      (fun _ _ => Iff.rfl)
      ⟨by rw [np4, hxp], fun h => by rw [hxp] at h; cases h⟩
      ⟨by simp only [lastE]; rw [ny3, hyc], fun hf => by simp [lastE, isFree, ny3] at hf⟩
      (by simp [tagsFrom, linkOk, isFree, np3, np4, nr1, nr2, nr3, nr4, ny3, ny4, ny5, hrtop])
  have hpre : ∀ q ∈ pre, q.addr < x.addr := by
    intro q hq
    have hok := w.ents
    rw [hes2] at hok
    have := (entsOk_window_bounds hok).1 q hq
    have := entsOk_pos w.ents q (by rw [hes2]; simp [hq])
    omega
  have hfnp : findEnt (pre ++ [np, nr, ny] ++ post) x.addr = some np := by
    rw [List.append_assoc, findEnt_skip (fun q hq => by have := hpre q hq; omega), ← np1]
    exact findEnt_head
  have hfnr : findEnt (pre ++ [np, nr, ny] ++ post) (x.addr + nb) = some nr := by
    rw [List.append_assoc, findEnt_skip (fun q hq => by have := hpre q hq; omega)]
    show findEnt (np :: nr :: _) _ = _
    rw [findEnt_cons_ne (by omega), ← nr1]
    exact findEnt_head
  refine ⟨hst, ⟨⟨x, hxm, rfl, hxf, by omega, np, hfnp, np3, by omega, by omega⟩, ?_, ?_⟩, ?_, ?_, hfnr, hinside⟩
  · intro a
    rw [hes2]
    simp only [cinSet_append, List.mem_append]
    have c1 : cinSet [x, y] = [y.addr] := by simp [cinSet, List.filter, hxc, hyc]
    have c2 : cinSet [np, nr, ny] = [x.addr, y.addr] := by simp [cinSet, List.filter, np3, nr3, ny3, np1, ny1]
    rw [c1, c2]
    exact cin_window_add
  · rw [hes2]
    refine inusePreserved_window hst.ents ?_
    intro e he hc
    simp only [List.mem_cons, List.not_mem_nil, or_false] at he
    rcases he with rfl | rfl
    · rw [hxc] at hc; cases hc
    · exact ⟨ny, by simp, ny1, ny2, ny3⟩
  · simp [freeSet, List.filter, hxf, hyfree]
  · simp [freeSet, List.filter, isFree, np3, nr3, nr4, ny3, nr1]

/-- **un-use** (the table change of `free-plain` / `dispose-bin`: `set_free_with_pinuse p size next` on
an in-use chunk `x` whose neighbours are both in use): `[x, y] ↦ [fx, ny]`, `fx` = `x` free, `ny` = `y`
with PINUSE clear and `prev_foot = x.size`.  `y` must not be a fencepost (`FenceOk`). -/
theorem unuse_table {s : St} (w : WFS s) {pre post : List Ent} {x y : Ent} {g : Seg}
    (hes2 : s.h.ents = pre ++ [x, y] ++ post) (hg : g ∈ s.segs) (hgx : inSeg g x = true) (hgy : inSeg g y = true)
    (hya : y.addr = x.addr + x.size) (hxc : x.cin = true) (hxp : x.pin = true) (hx8 : x.size ≠ 8)
    (hyc : y.cin = true) (hy8 : y.size ≠ 8)
    {fx ny : Ent} (fx1 : fx.addr = x.addr) (fx2 : fx.size = x.size) (fx3 : fx.cin = false) (fx4 : fx.pin = true)
    (ny1 : ny.addr = y.addr) (ny2 : ny.size = y.size) (ny3 : ny.cin = true) (ny4 : ny.pin = false)
    (ny5 : ny.pfoot = x.size) :
    StructOk (pre ++ [fx, ny] ++ post) s.segs s.h.top ∧
      freeSet [x, y] = [] ∧ freeSet [fx, ny] = [x.addr] ∧
      (∀ a, a ∈ cinSet (pre ++ [fx, ny] ++ post) ↔ a ∈ cinSet s.h.ents ∧ a ≠ x.addr) ∧
      (∀ e ∈ s.h.ents, e.cin = true → e.addr ≠ x.addr →
        ∃ e', findEnt (pre ++ [fx, ny] ++ post) e.addr = some e' ∧ e'.size = e.size ∧ e'.cin = true) := by
  have hxm : x ∈ s.h.ents := by rw [hes2]; simp
  have hym : y ∈ s.h.ents := by rw [hes2]; simp
  have hxsh : x.addr % 16 = 0 ∧ x.size % 16 = 0 ∧ 16 ≤ x.size := by
    rcases shapeOk_mem w.shape hxm with h | h
    · exact absurd h.1 hx8
    · exact h
  have hysh : y.addr % 16 = 0 ∧ y.size % 16 = 0 ∧ 16 ≤ y.size := by
    rcases shapeOk_mem w.shape hym with h | h
    · exact absurd h.1 hy8
    · exact h
  have hst0 : StructOk (pre ++ (x :: [y]) ++ post) s.segs s.h.top := by
    have := w.struct; rw [hes2] at this; exact this
  -- `x` is not `top`: `top` is free
  have hxtop : x.addr ≠ s.h.top := by
    intro heq
    obtain ⟨_, _, _, xt, _, _, _, htes, hxta, hxtf, _⟩ := w.top_parts (w.topsize_ne hg)
    have hxtm : xt ∈ s.h.ents := by rw [htes]; simp
    have := entsOk_addr_inj w.ents hxm hxtm (by omega)
    subst this
    rw [(isFree_iff.1 hxtf).1] at hxc; cases hxc
  have hst : StructOk (pre ++ (fx :: [ny]) ++ post) s.segs s.h.top :=
    struct_window hst0 w.segsDisjoint hg
      (by
        intro e he
        simp only [List.mem_cons, List.not_mem_nil, or_false] at he
        rcases he with rfl | rfl <;> assumption)
      (by simp only [contig, Bool.and_eq_true, decide_eq_true_eq, Bool.and_true]; omega)
      (by simp only [endE, lastE]; omega)
      (by
        simp only [shapeOk, List.all_cons, List.all_nil, Bool.and_true, Bool.and_eq_true, Bool.or_eq_true,
          decide_eq_true_eq]
        exact ⟨Or.inr ⟨⟨by omega, by omega⟩, by omega⟩, Or.inr ⟨⟨by omega, by omega⟩, by omega⟩⟩)
      (by
        simp only [lastE, isTrailerEnd, hyc, ny2, ny3, Bool.not_true, Bool.false_and, Bool.false_or]
        exact id)
      (fun _ _ => Iff.rfl)
      ⟨by rw [fx4, hxp], fun h => by rw [hxp] at h; cases h⟩
      ⟨by simp only [lastE]; rw [ny3, hyc], fun hf => by simp [lastE, isFree, ny3] at hf⟩
      (by simp [tagsFrom, linkOk, isFree, fx1, fx2, fx3, fx4, ny3, ny4, ny5, hxtop])
  refine ⟨hst, ?_, ?_, ?_, ?_⟩
  · simp [freeSet, List.filter, isFree, hxc, hyc]
  · simp [freeSet, List.filter, isFree, fx3, fx4, ny3, fx1]
  · intro a
    rw [hes2]
    simp only [cinSet_append, List.mem_append]
    have c1 : cinSet [x, y] = [x.addr, y.addr] := by simp [cinSet, List.filter, hxc, hyc]
    have c2 : cinSet [fx, ny] = [y.addr] := by simp [cinSet, List.filter, fx3, ny3, ny1]
    rw [c1, c2]
    simp only [List.mem_cons, List.not_mem_nil, or_false]
    -- addresses of `pre`, `post`, `y` differ from `x.addr`
    have hok := w.ents
    rw [hes2] at hok
    obtain ⟨b1, b2⟩ := entsOk_window_bounds hok
    have hxpos := entsOk_pos w.ents x hxm
    have hne1 : ∀ a, a ∈ cinSet pre → a ≠ x.addr := by
      intro a ha
      obtain ⟨e, he, _, hea⟩ := mem_cinSet.1 ha
      have := b1 e he
      have := entsOk_pos w.ents e (by rw [hes2]; simp [he])
      omega
    have hne2 : ∀ a, a ∈ cinSet post → a ≠ x.addr := by
      intro a ha
      obtain ⟨e, he, _, hea⟩ := mem_cinSet.1 ha
      have := b2 e he
      simp only [endE, lastE] at this
      omega
    constructor
    · rintro ((h | h) | h)
      · exact ⟨Or.inl (Or.inl h), hne1 a h⟩
      · exact ⟨Or.inl (Or.inr (Or.inr h)), by omega⟩
      · exact ⟨Or.inr h, hne2 a h⟩
    · rintro ⟨(h | h | h) | h, hn⟩
      · exact Or.inl (Or.inl h)
      · exact absurd h hn
      · exact Or.inl (Or.inr h)
      · exact Or.inr h
  · intro e he hc hne
    rw [hes2] at he
    simp only [List.mem_append, List.mem_cons, List.not_mem_nil, or_false] at he
    rcases he with (h | h | h) | h
    · exact ⟨e, entsOk_find e (by simp [h]) hst.ents, rfl, hc⟩
    · subst h; exact absurd rfl hne
    · subst h
      refine ⟨ny, ?_, ny2, ny3⟩
      rw [← ny1]
      exact entsOk_find ny (by simp) hst.ents
    · exact ⟨e, entsOk_find e (by simp [h]) hst.ents, rfl, hc⟩

/-- **merge forward** (the table change of `free-fwd` / `dispose-fwd-*` without backward
consolidation): the in-use chunk `x` being freed, the free chunk `z` after it (not `top`) and the
in-use chunk `y` after that: `[x, z, y] ↦ [m, ny]`, `m` = one free chunk over `x` and `z`, `ny` = `y`
with the new `prev_foot` -/
theorem merge_fwd_table {s : St} (w : WFS s) {pre post : List Ent} {x z y : Ent} {g : Seg}
    (hes3 : s.h.ents = pre ++ [x, z, y] ++ post) (hg : g ∈ s.segs)
    (hgx : inSeg g x = true) (hgz : inSeg g z = true) (hgy : inSeg g y = true)
    (hza : z.addr = x.addr + x.size) (hya : y.addr = z.addr + z.size)
    (hxc : x.cin = true) (hxp : x.pin = true) (hx8 : x.size ≠ 8) (hzf : isFree z = true)
    (hyc : y.cin = true) (hyp : y.pin = false)
    {m ny : Ent} (m1 : m.addr = x.addr) (m2 : m.size = x.size + z.size) (m3 : m.cin = false) (m4 : m.pin = true)
    (ny1 : ny.addr = y.addr) (ny2 : ny.size = y.size) (ny3 : ny.cin = true) (ny4 : ny.pin = false)
    (ny5 : ny.pfoot = x.size + z.size) :
    StructOk (pre ++ [m, ny] ++ post) s.segs s.h.top ∧
      freeSet [x, z, y] = [z.addr] ∧ freeSet [m, ny] = [x.addr] := by
  have hxm : x ∈ s.h.ents := by rw [hes3]; simp
  have hzm : z ∈ s.h.ents := by rw [hes3]; simp
  have hym : y ∈ s.h.ents := by rw [hes3]; simp
  obtain ⟨hzc, hzp⟩ := isFree_iff.1 hzf
  have hxsh : x.addr % 16 = 0 ∧ x.size % 16 = 0 ∧ 16 ≤ x.size := by
    rcases shapeOk_mem w.shape hxm with h | h
    · exact absurd h.1 hx8
    · exact h
  obtain ⟨_, hzs16, _⟩ := shapeOk_free w.shape hzm hzc
  have hysh : y.addr % 16 = 0 ∧ y.size % 16 = 0 ∧ 16 ≤ y.size := by
    rcases shapeOk_mem w.shape hym with h | h
    · rw [hyp] at h; exact absurd h.2.2 (by decide)
    · exact h
  have hst0 : StructOk (pre ++ (x :: [z, y]) ++ post) s.segs s.h.top := by
    have := w.struct; rw [hes3] at this; exact this
  have hxtop : x.addr ≠ s.h.top := by
    intro heq
    obtain ⟨_, _, _, xt, _, _, _, htes, hxta, hxtf, _⟩ := w.top_parts (w.topsize_ne hg)
    have hxtm : xt ∈ s.h.ents := by rw [htes]; simp
    have := entsOk_addr_inj w.ents hxm hxtm (by omega)
    subst this
    rw [(isFree_iff.1 hxtf).1] at hxc; cases hxc
  have hst : StructOk (pre ++ (m :: [ny]) ++ post) s.segs s.h.top :=
    struct_window hst0 w.segsDisjoint hg
      (by
        intro e he
        simp only [List.mem_cons, List.not_mem_nil, or_false] at he
        rcases he with rfl | rfl | rfl <;> assumption)
      (by simp only [contig, Bool.and_eq_true, decide_eq_true_eq, Bool.and_true]; omega)
      (by simp only [endE, lastE]; omega)
      (by
        simp only [shapeOk, List.all_cons, List.all_nil, Bool.and_true, Bool.and_eq_true, Bool.or_eq_true,
          decide_eq_true_eq]
        exact ⟨Or.inr ⟨⟨by omega, by omega⟩, by omega⟩, Or.inr ⟨⟨by omega, by omega⟩, by omega⟩⟩)
      (by
        simp only [lastE, isTrailerEnd, hyc, ny2, ny3, Bool.not_true, Bool.false_and, Bool.false_or]
        exact id)
      (fun _ _ => Iff.rfl)
      ⟨by rw [m4, hxp], fun h => by rw [hxp] at h; cases h⟩
      ⟨by simp only [lastE]; rw [ny3, hyc], fun hf => by simp [lastE, isFree, ny3] at hf⟩
      (by simp [tagsFrom, linkOk, isFree, m1, m2, m3, m4, ny3, ny4, ny5, hxtop])
  refine ⟨hst, ?_, ?_⟩
  · simp [freeSet, List.filter, isFree, hxc, hyc, hzc, hzp]
  · simp [freeSet, List.filter, isFree, m3, m4, ny3, m1]

/-- **free list after a window replacement**, when the free headers of the old window are listed
consecutively: they are replaced by those of the new window -/
theorem freeListOk_replace {s : St} (w : WFS s) {H : Heap} {pre mid mid' post : List Ent}
    (hes : s.h.ents = pre ++ mid ++ post) (hH : H.ents = pre ++ mid' ++ post) (hok' : entsOk H.ents = true)
    {A B : List Nat} (hfl0 : freeList s.h = A ++ (freeSet mid ++ B)) (hfl1 : freeList H = A ++ (freeSet mid' ++ B))
    (hnd : (freeSet mid').Nodup) (hnew : ∀ a ∈ freeSet mid', a ∉ A ∧ a ∉ B) : freeListOk H = true := by
  have hnd0 := ((freeListOk_iff s.h).1 w.freeList).1
  rw [hfl0] at hnd0
  refine freeListOk_window hes hH w.ents hok' w.freeList ?_ ?_
  · rw [hfl1]; exact nodup_mid_replace hnd0 hnd hnew
  · intro a; rw [hfl1, hfl0]; exact mem_mid_replace hnd0 a

/-- the fields of a heap (all but the ghost `tr`), to name the heap a branch ends in:
`have hi : HeapIs (h'.tag t) … := by rw [r]; exact ⟨rfl, rfl, rfl, rfl, rfl, rfl, rfl⟩` followed by
`generalize h'.tag t = H at hi ⊢` -/
structure HeapIs (H : Heap) (es : List Ent) (sb : List (List Nat)) (tb : List Tree) (dv dvs top tops : Nat) : Prop where
  ents : H.ents = es
  sbins : H.sbins = sb
  tbins : H.tbins = tb
  dv : H.dv = dv
  dvsize : H.dvsize = dvs
  top : H.top = top
  topsize : H.topsize = tops

theorem binned_congr {H h : Heap} (h1 : H.sbins = h.sbins) (h2 : H.tbins = h.tbins) : binned H = binned h := by
  unfold binned; rw [h1, h2]

/-! the free list in the shapes `freeListOk_replace` wants (`A ++ (M ++ B)`) -/

theorem freeList_dv {h : Heap} (hd : h.dv ≠ 0) :
    freeList h = (if h.top = 0 then [] else [h.top]) ++ ([h.dv] ++ binned h) := by
  unfold freeList; rw [if_neg hd]

theorem freeList_nodv {h : Heap} (hd : h.dv = 0) :
    freeList h = (if h.top = 0 then [] else [h.top]) ++ ([] ++ binned h) := by
  unfold freeList; rw [if_pos hd]

theorem freeList_top {h : Heap} (ht : h.top ≠ 0) :
    freeList h = [] ++ ([h.top] ++ ((if h.dv = 0 then [] else [h.dv]) ++ binned h)) := by
  unfold freeList; rw [if_neg ht]; rfl

theorem not_mem_mid {A M B : List Nat} {a : Nat} (h : a ∉ A ++ (M ++ B)) : a ∉ A ∧ a ∉ B :=
  ⟨fun ha => h (by simp [ha]), fun hb => h (by simp [hb])⟩

/-- an address that is no header address is not on the free list -/
theorem WFS.not_listed {s : St} (w : WFS s) {a : Nat} (h : ∀ e ∈ s.h.ents, e.addr ≠ a) : a ∉ Dl.freeList s.h := by
  intro hm
  obtain ⟨e, he, hea⟩ := w.freeList_entry hm
  exact h e he hea

/-! ### the composite primitives on the window `[x, y]` -/

/-- `set_inuse_and_pinuse` on a whole free chunk: the *exhaust* table change -/
theorem set_inuse_and_pinuse_at {h h' : Heap} {pre post : List Ent} {x y : Ent} {a sz : Nat}
    (e : set_inuse_and_pinuse h a sz = .ok h')
    (hes : h.ents = pre ++ [x, y] ++ post) (hok : entsOk h.ents = true) (ha : x.addr = a) (hsz : x.size = sz)
    (hya : y.addr = x.addr + x.size) :
    h' = { h with ents := pre ++ [{ x with cin := true, pin := true }, { y with pin := true }] ++ post } := by
  subst ha; subst hsz
  have hok2 : entsOk (pre ++ x :: y :: post) = true := by rw [hes] at hok; simpa using hok
  obtain ⟨o1, o2, o3, o4, o5⟩ := entsOk_mid2 hok2
  unfold set_inuse_and_pinuse at e
  msimp at e
  obtain ⟨h1, e1, e2⟩ := e
  have r1 := writeHead_window_ok e1 (pre := pre) (ms := [x]) (post := y :: post)
    (by rw [hes]; simp)
    (by intro q hq; have := o1 q hq; omega)
    (by intro q hq; simp only [List.mem_singleton] at hq; subst hq; omega)
    (by
      intro q hq
      cases hq with
      | head => omega
      | tail _ hq => have := o5 q hq; omega)
  have hpf1 : pfootAt h.ents x.addr = x.pfoot :=
    pfootAt_some (entsOk_find x (by rw [hes]; simp) hok)
  rw [hpf1] at r1
  subst r1
  subst e2
  have hpre2 : ∀ q ∈ pre ++ [({ addr := x.addr, size := x.size, cin := true, pin := true, pfoot := x.pfoot } : Ent)],
      q.addr ≠ y.addr := by
    intro q hq
    simp only [List.mem_append, List.mem_cons, List.not_mem_nil, or_false] at hq
    rcases hq with hq | hq
    · have := o1 q hq; omega
    · subst hq; simp only; omega
  rw [← hya]
  rw [orPin_at (pre := pre ++ [{ addr := x.addr, size := x.size, cin := true, pin := true, pfoot := x.pfoot }])
    (x := y) (post := post) (by simp) hpre2]
  simp

/-- header of the allocated part first, then the free remainder (`small-next-split`, `tsmall-split`,
`tlarge-split`): the *split* table change -/
theorem split_inuse_free_at {h h1 h2 : Heap} {pre post : List Ent} {x y : Ent} {a nb rs : Nat}
    (e1 : set_size_and_pinuse_of_inuse_chunk h a nb = .ok h1)
    (e2 : set_size_and_pinuse_of_free_chunk h1 (a + nb) rs = .ok h2)
    (hes : h.ents = pre ++ [x, y] ++ post) (hok : entsOk h.ents = true) (ha : x.addr = a)
    (hnb : 0 < nb) (hrs : nb + rs = x.size) (hrs0 : 0 < rs) (hya : y.addr = x.addr + x.size) :
    h2 = { h with ents := pre ++ [{ addr := a, size := nb, cin := true, pin := true, pfoot := x.pfoot },
      { addr := a + nb, size := rs, cin := false, pin := true, pfoot := 0 }, { y with pfoot := rs }] ++ post } := by
  subst ha
  have hok2 : entsOk (pre ++ x :: y :: post) = true := by rw [hes] at hok; simpa using hok
  obtain ⟨o1, o2, o3, o4, o5⟩ := entsOk_mid2 hok2
  unfold set_size_and_pinuse_of_inuse_chunk at e1
  unfold set_size_and_pinuse_of_free_chunk at e2
  msimp at e2
  obtain ⟨h3, e2, e3⟩ := e2
  have r1 := writeHead_window_ok e1 (pre := pre) (ms := [x]) (post := y :: post)
    (by rw [hes]; simp)
    (by intro q hq; have := o1 q hq; omega)
    (by intro q hq; simp only [List.mem_singleton] at hq; subst hq; omega)
    (by
      intro q hq
      cases hq with
      | head => omega
      | tail _ hq => have := o5 q hq; omega)
  have hpf1 : pfootAt h.ents x.addr = x.pfoot :=
    pfootAt_some (entsOk_find x (by rw [hes]; simp) hok)
  rw [hpf1] at r1
  subst r1
  have r2 := writeHead_window_ok e2
    (pre := pre ++ [{ addr := x.addr, size := nb, cin := true, pin := true, pfoot := x.pfoot }]) (ms := [])
    (post := y :: post) (by simp)
    (by
      intro q hq
      rcases List.mem_append.1 hq with hq | hq
      · have := o1 q hq; omega
      · simp only [List.mem_singleton] at hq; subst hq; simp only; omega)
    (by simp)
    (by
      intro q hq
      cases hq with
      | head => omega
      | tail _ hq => have := o5 q hq; omega)
  have hpf2 : pfootAt (pre ++ { addr := x.addr, size := nb, cin := true, pin := true, pfoot := x.pfoot } :: y :: post)
      (x.addr + nb) = 0 := by
    apply pfootAt_none
    apply findEnt_none
    intro q hq
    simp only [List.mem_append, List.mem_cons] at hq
    rcases hq with hq | hq | hq | hq
    · have := o1 q hq; omega
    · subst hq; simp only; omega
    · subst hq; omega
    · have := o5 q hq; omega
  dsimp only at r2
  rw [hpf2] at r2
  subst r2
  have r3 := setFoot_at_ok e3
    (pre := pre ++ [{ addr := x.addr, size := nb, cin := true, pin := true, pfoot := x.pfoot },
      { addr := x.addr + nb, size := rs, cin := false, pin := true, pfoot := 0 }])
    (x := y) (post := post) (by simp) (by omega)
    (by
      intro q hq
      simp only [List.mem_append, List.mem_cons, List.not_mem_nil, or_false] at hq
      rcases hq with hq | hq | hq
      · have := o1 q hq; omega
      · subst hq; simp only; omega
      · subst hq; simp only; omega)
  rw [r3]
  simp

/-- header of the free remainder first, then the allocated part (`dv-split`): the same table -/
theorem split_free_inuse_at {h h1 h2 : Heap} {pre post : List Ent} {x y : Ent} {a nb rs : Nat}
    (e1 : set_size_and_pinuse_of_free_chunk h (a + nb) rs = .ok h1)
    (e2 : set_size_and_pinuse_of_inuse_chunk h1 a nb = .ok h2)
    (hes : h.ents = pre ++ [x, y] ++ post) (hok : entsOk h.ents = true) (ha : x.addr = a)
    (hnb : 0 < nb) (hrs : nb + rs = x.size) (hrs0 : 0 < rs) (hya : y.addr = x.addr + x.size) :
    h2 = { h with ents := pre ++ [{ addr := a, size := nb, cin := true, pin := true, pfoot := x.pfoot },
      { addr := a + nb, size := rs, cin := false, pin := true, pfoot := 0 }, { y with pfoot := rs }] ++ post } := by
  subst ha
  have hok2 : entsOk (pre ++ x :: y :: post) = true := by rw [hes] at hok; simpa using hok
  obtain ⟨o1, o2, o3, o4, o5⟩ := entsOk_mid2 hok2
  have hxm : x ∈ h.ents := by rw [hes]; simp
  unfold set_size_and_pinuse_of_inuse_chunk at e2
  unfold set_size_and_pinuse_of_free_chunk at e1
  msimp at e1
  obtain ⟨h3, e1, e3⟩ := e1
  have r1 := writeHead_window_ok e1 (pre := pre ++ [x]) (ms := []) (post := y :: post)
    (by rw [hes]; simp)
    (by
      intro q hq
      rcases List.mem_append.1 hq with hq | hq
      · have := o1 q hq; omega
      · simp only [List.mem_singleton] at hq; subst hq; omega)
    (by simp)
    (by
      intro q hq
      cases hq with
      | head => omega
      | tail _ hq => have := o5 q hq; omega)
  have hpf1 : pfootAt h.ents (x.addr + nb) = 0 :=
    pfootAt_none (findEnt_none (entsOk_no_inside hok hxm (by omega) (by omega)))
  rw [hpf1] at r1
  subst r1
  have r2 := setFoot_at_ok e3
    (pre := pre ++ [x, { addr := x.addr + nb, size := rs, cin := false, pin := true, pfoot := 0 }])
    (x := y) (post := post) (by simp) (by omega)
    (by
      intro q hq
      simp only [List.mem_append, List.mem_cons, List.not_mem_nil, or_false] at hq
      rcases hq with hq | hq | hq
      · have := o1 q hq; omega
      · subst hq; omega
      · subst hq; simp only; omega)
  dsimp only at r2
  subst r2
  have r3 := writeHead_window_ok e2 (pre := pre) (ms := [x])
    (post := { addr := x.addr + nb, size := rs, cin := false, pin := true, pfoot := 0 } :: { y with pfoot := rs } :: post)
    (by simp)
    (by intro q hq; have := o1 q hq; omega)
    (by intro q hq; simp only [List.mem_singleton] at hq; subst hq; omega)
    (by
      intro q hq
      simp only [List.mem_cons] at hq
      rcases hq with hq | hq | hq
      · subst hq; simp only; omega
      · subst hq; simp only; omega
      · have := o5 q hq; omega)
  have hpf3 : pfootAt (pre ++ [x, { addr := x.addr + nb, size := rs, cin := false, pin := true, pfoot := 0 }] ++
      { y with pfoot := rs } :: post) x.addr = x.pfoot := by
    apply pfootAt_some
    rw [List.append_assoc, findEnt_skip (fun q hq => by have := o1 q hq; omega)]
    exact findEnt_head
  dsimp only at r3
  rw [hpf3] at r3
  rw [r3]
  simp

/-! ## 7. back to `liveOk` (the level of `Hist.step`)

`liveOk` is **not** inductive on top of the other eleven conjuncts: nothing in `WF` says that the
address a non-head segment's `recAt` points to is the payload of an *in-use* header, so `WF` allows
(unreachable) states in which `recAt` points into a free chunk; allocating that chunk produces a live
block that `liveOk` rejects (`isRecord`).  `Proofs/DlIndCex.lean` has a kernel-checked instance.  The
missing conjunct is `RecsOk`; it is preserved by every table change that keeps the in-use headers
(`InusePreserved`) and the segment list. -/

/-- second missing conjunct (needed by `free` / `dispose_chunk`, whose `clear_pinuse` on the next
header would otherwise hit a fencepost and break `shapeOk`; `Proofs/DlIndCex.lean`, second example):
the header before a fencepost is a fencepost or a segment record, never a user chunk -/
def FenceOk (s : St) : Prop :=
  ∀ pre x y post, s.h.ents = pre ++ x :: y :: post → y.size = 8 → y.addr = x.addr + x.size →
    x.size = 8 ∨ isRecord s.segs x = true

/-- every pushed segment record lives in the payload of an in-use header -/
def RecsOk (s : St) : Prop :=
  ∀ g ∈ s.segs, g.recAt ≠ 0 → 16 ≤ g.recAt ∧ ∃ e, findEnt s.h.ents (g.recAt - 16) = some e ∧ e.cin = true

theorem RecsOk.preserved {s : St} {h' : Heap} (hr : RecsOk s) (hk : InusePreserved s.h.ents h'.ents) :
    RecsOk { s with h := h' } := by
  intro g hg hne
  obtain ⟨h16, e, he, hc⟩ := hr g hg hne
  obtain ⟨hm, ha⟩ := findEnt_some he
  obtain ⟨e', he', _, hc'⟩ := hk e hm hc
  exact ⟨h16, e', ha ▸ he', hc'⟩

/-- **`liveOk` after an allocation**: from `liveOk` and `RecsOk` before, the table facts `AllocFacts`
of the branch theorems, and what the entry point knows about the request (`size + 8 ≤ nb`, `32 ≤ nb`,
the alignment of the result) -/
theorem liveOk_alloc {hs : Hist} (w : WFS hs.st) (hl : liveOk hs = true) (hr : RecsOk hs.st) {h' : Heap}
    (hok' : entsOk h'.ents = true) {nb mem : Nat} (hf : AllocFacts hs.st.h.ents h'.ents nb mem)
    {id size align : Nat} (hsz : size + 8 ≤ nb) (h32 : 32 ≤ nb) (hal : 0 < align) (hmod : mem % align = 0) :
    liveOk { st := { hs.st with h := h' }, live := { id := id, ptr := mem, size := size, align := align } :: hs.live } = true := by
  obtain ⟨p, hmem, ⟨x, hxm, hxa, hxf, _, e', he', hc', hs1, _⟩, hcin, hkept⟩ := hf
  subst hmem
  have hfx : findEnt hs.st.h.ents p = some x := hxa ▸ entsOk_find x hxm w.ents
  have hxc : x.cin = false := (isFree_iff.1 hxf).1
  unfold liveOk at hl ⊢
  simp only [Bool.and_eq_true, List.all_eq_true, Bool.or_eq_true, Bool.not_eq_true', decide_eq_true_eq,
    List.any_eq_true] at hl
  obtain ⟨⟨hl1, hl2⟩, hl3⟩ := hl
  -- what `liveOk` says about an old block, in the old and in the new table
  have hold : ∀ b ∈ hs.live, ∃ e, findEnt hs.st.h.ents (b.ptr - 16) = some e ∧ e.cin = true ∧
      liveChunkOk h'.ents b = true := by
    intro b hb
    have hb1 := (hl2 b hb).1
    unfold liveChunkOk at hb1 ⊢
    split at hb1
    · rename_i e he
      simp only [Bool.and_eq_true, decide_eq_true_eq] at hb1
      obtain ⟨e2, he2, hs2, hc2⟩ := hkept e (findEnt_some he).1 hb1.2.1.1
      rw [(findEnt_some he).2] at he2
      refine ⟨e, he, hb1.2.1.1, ?_⟩
      rw [he2]
      simp only [Bool.and_eq_true, decide_eq_true_eq]
      exact ⟨hb1.1, ⟨hc2, by omega⟩, by omega⟩
    · simp at hb1
  simp only [Bool.and_eq_true, List.all_eq_true, Bool.or_eq_true, Bool.not_eq_true', decide_eq_true_eq,
    List.any_eq_true, List.map_cons, nodupB, List.mem_cons, forall_eq_or_imp]
  refine ⟨⟨⟨?_, hl1⟩, ⟨?_, ?_⟩, ?_⟩, ?_⟩
  · -- the new pointer is not the pointer of an old block: its chunk was free
    cases hc : (hs.live.map (·.ptr)).contains (p + 16) with
    | false => rfl
    | true =>
      exfalso
      obtain ⟨b, hb, hbp⟩ := List.mem_map.1 (List.contains_iff_mem.1 hc)
      obtain ⟨e, he, hce, _⟩ := hold b hb
      rw [hbp, show p + 16 - 16 = p by omega, hfx] at he
      injection he with he
      subst he
      rw [hxc] at hce; cases hce
  · -- the new block sits in the new in-use chunk
    unfold liveChunkOk
    simp only [show p + 16 - 16 = p by omega, he', Bool.and_eq_true, decide_eq_true_eq]
    exact ⟨⟨⟨by omega, hal⟩, hmod⟩, ⟨hc', by omega⟩, by omega⟩
  · -- … which is no segment record
    cases hrec : isRecord hs.st.segs { addr := p + 16 - 16, size := 0, cin := true, pin := true, pfoot := 0 } with
    | false => rfl
    | true =>
      exfalso
      unfold isRecord at hrec
      simp only [List.any_eq_true, decide_eq_true_eq] at hrec
      obtain ⟨g, hg, hga⟩ := hrec
      obtain ⟨_, e, he, hce⟩ := hr g hg (by omega)
      rw [hga, show p + 16 - 16 + 16 - 16 = p by omega, hfx] at he
      injection he with he
      subst he
      rw [hxc] at hce; cases hce
  · intro b hb
    exact ⟨(hold b hb).choose_spec.2.2, (hl2 b hb).2⟩
  · -- every in-use header of the new table is accounted for
    intro e2 he2
    cases hc2 : e2.cin with
    | false => exact Or.inl (Or.inl (Or.inl rfl))
    | true =>
      have hm : e2.addr ∈ cinSet h'.ents := mem_cinSet.2 ⟨e2, he2, hc2, rfl⟩
      rcases (hcin e2.addr).1 hm with hp | hold2
      · exact Or.inr ⟨_, Or.inl rfl, by simp only; omega⟩
      · obtain ⟨e, he, hce, hea⟩ := mem_cinSet.1 hold2
        obtain ⟨e3, he3, hs3, _⟩ := hkept e he hce
        rw [hea, entsOk_find e2 he2 hok'] at he3
        injection he3 with he3
        subst he3
        rcases hl3 e he with ((h | h) | h) | ⟨b, hb, hbp⟩
        · rw [hce] at h; cases h
        · exact Or.inl (Or.inl (Or.inr (by omega)))
        · refine Or.inl (Or.inr ?_)
          unfold isRecord at h ⊢
          simp only [List.any_eq_true, decide_eq_true_eq] at h ⊢
          obtain ⟨g, hg, hga⟩ := h
          exact ⟨g, hg, by omega⟩
        · exact Or.inr ⟨b, Or.inr hb, by omega⟩

end TinyVerif.Dl
