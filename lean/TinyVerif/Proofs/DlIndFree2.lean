import TinyVerif.Proofs.DlIndFree
/-!
# `free_heap` / `dispose_chunk` preserve the strengthened invariant (tag `fr_`)

`free_heap` and `dispose_chunk` are the same coalescing code.  Its two halves are described once, as
relations between the heaps involved and the primitive calls made (`fr_Back`: backward consolidation,
`fr_Fwd`: forward consolidation and binning), and ONE core theorem is proved about them:

  `fr_core : SInv s → User s p0 psize0 → fr_Back … → fr_Fwd … → WFS { s with h := H } ∧ FreeAtTab s.h.ents H.ents p0`

The two interface theorems `fr_free_heap_spec : free_heap_Spec` and `fr_dispose_chunk_spec : dispose_chunk_Spec`
unfold the respective function into `fr_Back` / `fr_Fwd` and finish with `gl_sinv_freeAtTab`.

Branches (backward × forward): the backward step yields the run `[x]` (predecessor in use), `[wv, x]` with
`wv` unlinked from its bin, `[wv, x]` with `wv = dv` (`fr_BackOk`), or ends the operation (`*-back-dv`);
the forward step appends the free successor (`top`, `dv`, a binned chunk) to the run and ends in one of the
three generic theorems of `Proofs/DlIndFree.lean` (`fr_insert_wfs`, `fr_dv_wfs`, `fr_top_wfs`).
-/
namespace TinyVerif.Dl

open List

/-! ## the two halves of the coalescing code, as relations -/

/-- backward consolidation of `free_heap` / `dispose_chunk`: `e` is the header of the chunk at `p0`, `en` the
header at `next`; result `(h1, P, S, stop)` -/
def fr_Back (h : Heap) (e en : Ent) (p0 psize0 next : Nat) (h1 : Heap) (P S : Nat) (stop : Bool) : Prop :=
  (e.pin = true ∧ h1 = h ∧ P = p0 ∧ S = psize0 ∧ stop = false) ∨
  (e.pin = false ∧ e.pfoot ≤ p0 ∧ P = p0 - e.pfoot ∧ S = psize0 + e.pfoot ∧
    ((P ≠ h.dv ∧ unlink_chunk h P e.pfoot = .ok h1 ∧ stop = false) ∨
     (P = h.dv ∧ (en.cin && en.pin) = true ∧ stop = true ∧
        ∃ h3 t, set_free_with_pinuse { h with dvsize := S } P S next = .ok h3 ∧ h1 = h3.tag t) ∨
     (P = h.dv ∧ (en.cin && en.pin) = false ∧ h1 = h ∧ stop = false)))

/-- forward consolidation and binning -/
def fr_Fwd (h1 : Heap) (P S next : Nat) (en : Ent) (H : Heap) : Prop :=
  (en.cin = true ∧ ∃ h3 t, set_free_with_pinuse h1 P S next = .ok h3 ∧ insert_chunk (h3.tag t) P S = .ok H) ∨
  (en.cin = false ∧ next = h1.top ∧
    ∃ h3 t, writeHead { h1 with topsize := h1.topsize + S, top := P } P (h1.topsize + S) false true = .ok h3 ∧
      H = (if P = h3.dv then { h3 with dv := 0, dvsize := 0 } else h3).tag t) ∨
  (en.cin = false ∧ next ≠ h1.top ∧ next = h1.dv ∧
    ∃ h3 t, set_size_and_pinuse_of_free_chunk { h1 with dvsize := h1.dvsize + S, dv := P } P (h1.dvsize + S) = .ok h3 ∧
      H = h3.tag t) ∨
  (en.cin = false ∧ next ≠ h1.top ∧ next ≠ h1.dv ∧
    ∃ h2 h3, unlink_chunk h1 next en.size = .ok h2 ∧
      set_size_and_pinuse_of_free_chunk h2 P (S + en.size) = .ok h3 ∧
      ((P = h3.dv ∧ ∃ t, H = ({ h3 with dvsize := S + en.size } : Heap).tag t) ∨
       (P ≠ h3.dv ∧ ∃ t, insert_chunk (h3.tag t) P (S + en.size) = .ok H)))

/-- what the backward step leaves when the operation goes on: the run `a :: as` (ending in the chunk at
`p0`), the header `n` after it, the heap `h1` in which the binned predecessor (if any) is unlinked -/
structure fr_BackOk (s : St) (pre post : List Ent) (a : Ent) (as : List Ent) (n : Ent) (g : Seg) (p0 : Nat)
    (h1 : Heap) (rem : List Nat) (S : Nat) : Prop where
  W : fr_Win s pre post a as n g p0
  u : fr_Unl s h1 rem
  hfree : ∀ e ∈ a :: as, isFree e = true → e.addr ∈ rem ∨ e.addr = s.h.dv
  hrem : ∀ v ∈ rem, ∃ e ∈ a :: as, isFree e = true ∧ e.addr = v
  hP : a.addr ∈ rem ∨ a.addr = s.h.dv ∨ a.cin = true
  nS : n.addr = a.addr + S
  npin : n.pin = true
  n8 : n.size ≠ 8
  dvc : (a.addr = s.h.dv ∧ rem = [] ∧ s.h.dv ≠ 0 ∧ n.cin = false ∧ ∃ e ∈ a :: as, e.addr = s.h.dv) ∨
    (a.addr ≠ s.h.dv ∧ ∀ e ∈ a :: as, e.addr ≠ s.h.dv)

/-- an in-use header is not `dv` -/
theorem fr_cin_ne_dv {s : St} (w : WFS s) {e : Ent} (he : e ∈ s.h.ents) (hc : e.cin = true) : e.addr ≠ s.h.dv := by
  intro heq
  by_cases h0 : s.h.dv = 0
  · have := w.addr_pos he; omega
  · exact fr_cin_not_listed w he hc (mem_freeList.2 (Or.inr (Or.inl ⟨h0, heq⟩)))

theorem fr_dvsize_ne {s : St} (w : WFS s) (h0 : s.h.dv ≠ 0) : s.h.dvsize ≠ 0 := by
  have hd := w.dv
  unfold dvOk at hd
  rw [if_neg h0] at hd
  split at hd
  · simp only [Bool.and_eq_true, decide_eq_true_eq] at hd; omega
  · cases hd

/-- **the backward step**, when the operation goes on (`stop = false`) -/
theorem fr_back_ok {s : St} (hi : SInv s) {p0 psize0 : Nat} {x en : Ent} (hx : findEnt s.h.ents p0 = some x)
    (hxc : x.cin = true) (hxs : x.size = psize0) (h8 : psize0 ≠ 8) (hr : isRecord s.segs x = false)
    (hen : findEnt s.h.ents (p0 + psize0) = some en) {h1 : Heap} {P S : Nat}
    (hb : fr_Back s.h x en p0 psize0 (p0 + psize0) h1 P S false) :
    ∃ pre post a as g rem, a.addr = P ∧ fr_BackOk s pre post a as en g p0 h1 rem S := by
  have w := hi.wfs
  obtain ⟨hxm, hxa⟩ := findEnt_some hx
  have hx8 : x.size ≠ 8 := by omega
  cases hxp : x.pin with
  | true =>
    rcases hb with ⟨_, hh1, hP, hS, _⟩ | ⟨hp, _⟩
    · subst hh1
      obtain ⟨g, hg, hgx⟩ := w.struct.seg_of hxm
      obtain ⟨pre, post, hes⟩ := List.append_of_mem hxm
      obtain ⟨n, post', hp, hna, hgn, hnp, hn8⟩ := fr_next hi hes hxc hx8 hr hg hgx
      subst hp
      have hnm : n ∈ s.h.ents := by rw [hes]; simp
      have : n = en := by
        have := entsOk_find n hnm w.ents
        rw [hna, hxa, hxs, hen] at this
        injection this with this
        exact this.symm
      subst this
      refine ⟨pre, post', x, [], g, [], by omega, ⟨fr_win0 hes hg hgx hgn hna hxp hx8 |> (hxa ▸ ·), fr_unl_refl w, ?_, ?_,
        Or.inr (Or.inr hxc), by omega, hnp, hn8, Or.inr ⟨fr_cin_ne_dv w hxm hxc, ?_⟩⟩⟩
      · intro e he hf
        simp only [List.mem_cons, List.not_mem_nil, or_false] at he
        subst he
        rw [(isFree_iff.1 hf).1] at hxc; cases hxc
      · intro v hv; cases hv
      · intro e he
        simp only [List.mem_cons, List.not_mem_nil, or_false] at he
        subst he
        exact fr_cin_ne_dv w hxm hxc
    · rw [hxp] at hp; cases hp
  | false =>
    rcases hb with ⟨hp, _⟩ | ⟨_, hle, hP, hS, hcase⟩
    · rw [hxp] at hp; cases hp
    · obtain ⟨pre, wv, post, g, hes, hg, hgw, hgx, hwf, hwt, hxaw, hpf⟩ := fr_prev_free w hxm hxc hxp
      have hes' : s.h.ents = (pre ++ [wv]) ++ x :: post := by rw [hes]; simp
      obtain ⟨n, post', hp, hna, hgn, hnp, hn8⟩ := fr_next hi hes' hxc hx8 hr hg hgx
      subst hp
      have hnm : n ∈ s.h.ents := by rw [hes]; simp
      have hwm : wv ∈ s.h.ents := by rw [hes]; simp
      have : n = en := by
        have := entsOk_find n hnm w.ents
        rw [hna, hxa, hxs, hen] at this
        injection this with this
        exact this.symm
      subst this
      have hW := fr_win1 w hes hg hgw hgx hgn hxaw hna hwf
      rw [hxa] at hW
      have hPw : wv.addr = P := by omega
      have hxdv := fr_cin_ne_dv w hxm hxc
      have hfr : ∀ e ∈ [wv, x], isFree e = true → e = wv := by
        intro e he hf
        simp only [List.mem_cons, List.not_mem_nil, or_false] at he
        rcases he with rfl | rfl
        · rfl
        · rw [(isFree_iff.1 hf).1] at hxc; cases hxc
      rcases hcase with ⟨hPd, hul, _⟩ | ⟨_, _, hst, _⟩ | ⟨hPd, hnn, hh1, _⟩
      · -- the predecessor is binned
        have u := fr_unl_step (fr_unl_refl w) hul
        refine ⟨pre, post', wv, [x], g, [] ++ [P], hPw, ⟨hW, u, ?_, ?_, Or.inl (by simp [hPw]), by omega, hnp, hn8,
          Or.inr ⟨by omega, ?_⟩⟩⟩
        · intro e he hf
          rw [hfr e he hf]
          exact Or.inl (by simp [hPw])
        · intro v hv
          simp only [List.nil_append, List.mem_singleton] at hv
          exact ⟨wv, by simp, hwf, by omega⟩
        · intro e he
          simp only [List.mem_cons, List.not_mem_nil, or_false] at he
          rcases he with rfl | rfl
          · omega
          · exact hxdv
      · cases hst
      · -- the predecessor is `dv`
        subst hh1
        have hnc : n.cin = false := by
          rw [hnp] at hnn
          simpa using hnn
        have hdv0 : s.h.dv ≠ 0 := by have := w.addr_pos hwm; omega
        refine ⟨pre, post', wv, [x], g, [], hPw, ⟨hW, fr_unl_refl w, ?_, ?_, Or.inr (Or.inl (by omega)), by omega, hnp, hn8,
          Or.inl ⟨by omega, rfl, hdv0, hnc, wv, by simp, by omega⟩⟩⟩
        · intro e he hf
          rw [hfr e he hf]
          exact Or.inr (by omega)
        · intro v hv; cases hv

/-- the free header `n` after the run, other than `top`: the in-use header after it -/
theorem fr_after_free {s : St} (w : WFS s) {pre post : List Ent} {a n : Ent} {as : List Ent} {g : Seg} {p : Nat}
    (W : fr_Win s pre post a as n g p) (hnf : isFree n = true) :
    ∃ y post', post = y :: post' ∧ y.addr = n.addr + n.size ∧ inSeg g y = true ∧ linkOk s.h.top n y = true := by
  have hnm : n ∈ s.h.ents := W.mem n (fr_mem_run.2 (Or.inr rfl))
  have hes' : s.h.ents = (pre ++ a :: as) ++ n :: post := by rw [W.hes]; simp
  exact next_entry w.struct hes' W.hg (W.hgm n (fr_mem_run.2 (Or.inr rfl))) (isTrailerEnd_free w.shape hnm hnf)

/-- **the forward step** -/
theorem fr_fwd_ok {s : St} (hi : SInv s) {pre post : List Ent} {a n : Ent} {as : List Ent} {g : Seg} {p0 : Nat}
    {h1 : Heap} {rem : List Nat} {S : Nat} (bk : fr_BackOk s pre post a as n g p0 h1 rem S) {H : Heap}
    (hf : fr_Fwd h1 a.addr S n.addr n H) : WFS { s with h := H } ∧ FreeAtTab s.h.ents H.ents p0 := by
  have w := hi.wfs
  have hnm : n ∈ s.h.ents := bk.W.mem n (fr_mem_run.2 (Or.inr rfl))
  have hents1 : h1.ents = pre ++ (a :: (as ++ [n])) ++ post := bk.u.frame.ents.trans bk.W.hes
  have hb := bk.W.bounds w
  have haS : 0 < S := by
    have := hb.2.1 a List.mem_cons_self
    have := bk.nS
    omega
  rcases hf with ⟨hnc, h3, t, e1, hins⟩ | ⟨hnc, hnt, h3, t, e1, hH⟩ | ⟨hnc, hnt, hnd, h3, t, e1, hH⟩ |
    ⟨hnc, hnt, hnd, h2, h3, e1, e2, hcase⟩
  · -- the next chunk is in use: bin the run
    rcases bk.dvc with ⟨_, _, _, hc, _⟩ | ⟨hadv, hndv⟩
    · rw [hc] at hnc; cases hnc
    · have r := fr_set_free_at e1 hents1 hb rfl bk.nS rfl
      refine fr_insert_wfs w bk.W bk.u ?_ bk.hrem ?_ hnc bk.n8 bk.nS r hins
      · intro e he hf
        rcases bk.hfree e he hf with h | h
        · exact h
        · exact absurd h (hndv e he)
      · rcases bk.hP with h | h | h
        · exact Or.inl h
        · exact absurd h hadv
        · exact Or.inr h
  · -- the next chunk is `top`
    have hnf : isFree n = true := isFree_iff.2 ⟨hnc, bk.npin⟩
    have hnt' : n.addr = s.h.top := hnt.trans bk.u.frame.top
    obtain ⟨y, post', hp, hya, hgy, hl⟩ := fr_after_free w bk.W hnf
    subst hp
    obtain ⟨hyc, hyp⟩ := linkOk_top hl hnf hnt'
    have W' := fr_win_snoc bk.W hnc hgy hya
    obtain ⟨_, _, _, xt, _, _, _, htes, hxta, hxtf, hxts, _, _, _, _, _, _, htop0, _, _⟩ :=
      w.top_parts (w.topsize_ne bk.W.hg)
    have hxtm : xt ∈ s.h.ents := by rw [htes]; simp
    have : n = xt := entsOk_addr_inj w.ents hnm hxtm (by omega)
    subst this
    have hts : h1.topsize = s.h.topsize := bk.u.frame.topsize
    have hend : y.addr = a.addr + (h1.topsize + S) := by have := bk.nS; omega
    have hents1' : ({ h1 with topsize := h1.topsize + S, top := a.addr } : Heap).ents =
        pre ++ (a :: ((as ++ [n]) ++ [y])) ++ post' := by
      show h1.ents = _
      rw [hents1]; simp
    have r := fr_writeHead_run e1 hents1' (W'.bounds w) rfl hend
    have hfree' : ∀ e ∈ a :: (as ++ [n]), isFree e = true → e.addr ∈ rem ∨ e.addr = s.h.top ∨ e.addr = s.h.dv := by
      intro e he hf
      rcases fr_mem_run.1 he with h | h
      · rcases bk.hfree e h hf with h' | h'
        · exact Or.inl h'
        · exact Or.inr (Or.inr h')
      · subst h; exact Or.inr (Or.inl hnt')
    have hrem' : ∀ v ∈ rem, ∃ e ∈ a :: (as ++ [n]), isFree e = true ∧ e.addr = v := by
      intro v hv
      obtain ⟨e, he, h⟩ := bk.hrem v hv
      exact ⟨e, fr_mem_run.2 (Or.inl he), h⟩
    have htopin : ∃ e ∈ a :: (as ++ [n]), e.addr = s.h.top := ⟨n, fr_mem_run.2 (Or.inr rfl), hnt'⟩
    rcases bk.dvc with ⟨hadv, _, hdv0, _, ed, hedm, heda⟩ | ⟨hadv, hndv⟩
    · have hcond : a.addr = h3.dv := by rw [r]; exact hadv.trans bk.u.frame.dv.symm
      rw [if_pos hcond] at hH
      have hiH : HeapIs H (pre ++ [{ addr := a.addr, size := h1.topsize + S, cin := false, pin := true, pfoot := a.pfoot }, y]
          ++ post') h1.sbins h1.tbins 0 0 a.addr (h1.topsize + S) := by
        rw [hH, r]; exact ⟨rfl, rfl, rfl, rfl, rfl, rfl, rfl⟩
      exact fr_top_wfs w W' bk.u hfree' hrem' htopin bk.hP hyc hyp hend hiH
        (Or.inl ⟨⟨ed, fr_mem_run.2 (Or.inl hedm), heda⟩, hdv0, rfl, rfl⟩)
    · have hcond : ¬ a.addr = h3.dv := by rw [r]; exact fun h => hadv (h.trans bk.u.frame.dv)
      rw [if_neg hcond] at hH
      have hiH : HeapIs H (pre ++ [{ addr := a.addr, size := h1.topsize + S, cin := false, pin := true, pfoot := a.pfoot }, y]
          ++ post') h1.sbins h1.tbins h1.dv h1.dvsize a.addr (h1.topsize + S) := by
        rw [hH, r]; exact ⟨rfl, rfl, rfl, rfl, rfl, rfl, rfl⟩
      refine fr_top_wfs w W' bk.u hfree' hrem' htopin bk.hP hyc hyp hend hiH
        (Or.inr ⟨?_, bk.u.frame.dv, bk.u.frame.dvsize⟩)
      intro e he
      rcases fr_mem_run.1 he with h | h
      · exact hndv e h
      · subst h; rw [hnt']; exact fun h => w.dv_ne_top htop0 h.symm
  all_goals
    -- the next chunk is a free chunk other than `top`: the in-use header after it
    have hnf : isFree n = true := isFree_iff.2 ⟨hnc, bk.npin⟩
    have hnt' : n.addr ≠ s.h.top := fun h => hnt (h.trans bk.u.frame.top.symm)
    obtain ⟨y, post', hp, hya, hgy, hl⟩ := fr_after_free w bk.W hnf
    subst hp
    obtain ⟨hyc, hyp, hypf⟩ := linkOk_free hl hnf hnt'
    have W' := fr_win_snoc bk.W hnc hgy hya
    have hym : y ∈ s.h.ents := W'.mem y (fr_mem_run.2 (Or.inr rfl))
    have hy8 : y.size ≠ 8 := by
      intro h
      have := (gl_fence_cin w.shape hym h).2
      rw [hyp] at this; cases this
    have hrem' : ∀ v ∈ rem, ∃ e ∈ a :: (as ++ [n]), isFree e = true ∧ e.addr = v := by
      intro v hv
      obtain ⟨e, he, h⟩ := bk.hrem v hv
      exact ⟨e, fr_mem_run.2 (Or.inl he), h⟩
  · -- the next chunk is `dv`
    have hnd' : n.addr = s.h.dv := hnd.trans bk.u.frame.dv
    have hdv0 : s.h.dv ≠ 0 := by have := w.addr_pos hnm; omega
    have hdvs := fr_dvsize_ne w hdv0
    obtain ⟨xd, hxdm, hxda, _, hxds, _, _, _⟩ := w.dv_parts hdvs
    have : n = xd := entsOk_addr_inj w.ents hnm hxdm (by omega)
    subst this
    have hend : y.addr = a.addr + (h1.dvsize + S) := by
      have := bk.nS; have := bk.u.frame.dvsize; omega
    have hents1' : ({ h1 with dvsize := h1.dvsize + S, dv := a.addr } : Heap).ents =
        pre ++ (a :: ((as ++ [n]) ++ [y])) ++ post' := by
      show h1.ents = _
      rw [hents1]; simp
    have r := fr_set_size_free_at e1 hents1' (W'.bounds w) rfl hend
    rw [fr_pin_false_eta hyp] at r
    have hiH : HeapIs H (pre ++ [{ addr := a.addr, size := h1.dvsize + S, cin := false, pin := true, pfoot := a.pfoot },
        { y with pin := false, pfoot := h1.dvsize + S }] ++ post') h1.sbins h1.tbins a.addr (h1.dvsize + S)
        s.h.top s.h.topsize := by
      rw [hH, r]; exact ⟨rfl, rfl, rfl, rfl, rfl, bk.u.frame.top, bk.u.frame.topsize⟩
    refine fr_dv_wfs w W' bk.u hdvs ?_ hrem' ⟨n, fr_mem_run.2 (Or.inr rfl), hnd'⟩ bk.hP hyc hy8 hend hiH
    intro e he hf
    rcases fr_mem_run.1 he with h | h
    · exact bk.hfree e h hf
    · subst h; exact Or.inr hnd'
  · -- the next chunk is binned
    have u2 := fr_unl_step bk.u e1
    have hents2 : h2.ents = pre ++ (a :: ((as ++ [n]) ++ [y])) ++ post' := by
      rw [u2.frame.ents, bk.W.hes]; simp
    have hend : y.addr = a.addr + (S + n.size) := by have := bk.nS; omega
    have r := fr_set_size_free_at e2 hents2 (W'.bounds w) rfl hend
    rw [fr_pin_false_eta hyp] at r
    have hrem2 : ∀ v ∈ rem ++ [n.addr], ∃ e ∈ a :: (as ++ [n]), isFree e = true ∧ e.addr = v := by
      intro v hv
      rcases List.mem_append.1 hv with hv | hv
      · exact hrem' v hv
      · simp only [List.mem_singleton] at hv
        exact ⟨n, fr_mem_run.2 (Or.inr rfl), hnf, hv.symm⟩
    rcases hcase with ⟨hPd, t, hH⟩ | ⟨hPd, t, hins⟩
    · -- … and the run starts with `dv`
      have hadv : a.addr = s.h.dv := by
        rw [r] at hPd
        exact hPd.trans (u2.frame.dv)
      have hdv0 : s.h.dv ≠ 0 := by have := w.addr_pos (bk.W.mem_run a List.mem_cons_self); omega
      rcases bk.dvc with ⟨_, _, _, _, ed, hedm, heda⟩ | ⟨hn, _⟩
      · have hiH : HeapIs H (pre ++ [{ addr := a.addr, size := S + n.size, cin := false, pin := true, pfoot := a.pfoot },
            { y with pin := false, pfoot := S + n.size }] ++ post') h2.sbins h2.tbins a.addr (S + n.size)
            s.h.top s.h.topsize := by
          rw [hH, r]; exact ⟨rfl, rfl, rfl, u2.frame.dv.trans hadv.symm, rfl, u2.frame.top, u2.frame.topsize⟩
        refine fr_dv_wfs w W' u2 (fr_dvsize_ne w hdv0) ?_ hrem2 ⟨ed, fr_mem_run.2 (Or.inl hedm), heda⟩ ?_ hyc hy8 hend hiH
        · intro e he hf
          rcases fr_mem_run.1 he with h | h
          · rcases bk.hfree e h hf with h' | h'
            · exact Or.inl (List.mem_append.2 (Or.inl h'))
            · exact Or.inr h'
          · subst h; exact Or.inl (List.mem_append.2 (Or.inr (by simp)))
        · exact Or.inr (Or.inl hadv)
      · exact absurd hadv hn
    · have hadv : a.addr ≠ s.h.dv := by
        rw [r] at hPd
        exact fun h => hPd (h.trans u2.frame.dv.symm)
      rcases bk.dvc with ⟨h, _⟩ | ⟨_, hndv⟩
      · exact absurd h hadv
      · refine fr_insert_wfs w W' u2 ?_ hrem2 ?_ hyc hy8 hend r hins
        · intro e he hf
          rcases fr_mem_run.1 he with h | h
          · rcases bk.hfree e h hf with h' | h'
            · exact List.mem_append.2 (Or.inl h')
            · exact absurd h' (hndv e h)
          · subst h; exact List.mem_append.2 (Or.inr (by simp))
        · rcases bk.hP with h | h | h
          · exact Or.inl (List.mem_append.2 (Or.inl h))
          · exact absurd h hadv
          · exact Or.inr h

/-- **the backward step ends the operation** (`free-back-dv` / `dispose-back-dv`): the predecessor is `dv`
and the next chunk is in use -/
theorem fr_back_stop {s : St} (hi : SInv s) {p0 psize0 : Nat} {x en : Ent} (hx : findEnt s.h.ents p0 = some x)
    (hxc : x.cin = true) (hxs : x.size = psize0) (h8 : psize0 ≠ 8) (hr : isRecord s.segs x = false)
    (hen : findEnt s.h.ents (p0 + psize0) = some en) {h1 : Heap} {P S : Nat}
    (hb : fr_Back s.h x en p0 psize0 (p0 + psize0) h1 P S true) :
    WFS { s with h := h1 } ∧ FreeAtTab s.h.ents h1.ents p0 := by
  have w := hi.wfs
  obtain ⟨hxm, hxa⟩ := findEnt_some hx
  have hx8 : x.size ≠ 8 := by omega
  rcases hb with ⟨_, _, _, _, hst⟩ | ⟨hxp, hle, hP, hS, hcase⟩
  · cases hst
  · rcases hcase with ⟨_, _, hst⟩ | ⟨hPd, hnn, _, h3, t, e1, hh1⟩ | ⟨_, _, _, hst⟩
    · cases hst
    · obtain ⟨pre, wv, post, g, hes, hg, hgw, hgx, hwf, hwt, hxaw, hpf⟩ := fr_prev_free w hxm hxc hxp
      have hes' : s.h.ents = (pre ++ [wv]) ++ x :: post := by rw [hes]; simp
      obtain ⟨n, post', hp, hna, hgn, hnp, hn8⟩ := fr_next hi hes' hxc hx8 hr hg hgx
      subst hp
      have hnm : n ∈ s.h.ents := by rw [hes]; simp
      have hwm : wv ∈ s.h.ents := by rw [hes]; simp
      have : n = en := by
        have := entsOk_find n hnm w.ents
        rw [hna, hxa, hxs, hen] at this
        injection this with this
        exact this.symm
      subst this
      have hW := fr_win1 w hes hg hgw hgx hgn hxaw hna hwf
      rw [hxa] at hW
      have hPw : P = wv.addr := by omega
      subst hPw
      have hnc : n.cin = true := by
        simp only [Bool.and_eq_true] at hnn; exact hnn.1
      have hdv0 : s.h.dv ≠ 0 := by have := w.addr_pos hwm; omega
      have hend : n.addr = wv.addr + S := by omega
      have hents : ({ s.h with dvsize := S } : Heap).ents = pre ++ (wv :: ([x] ++ [n])) ++ post' := by
        show s.h.ents = _
        rw [hes]; simp
      have r := fr_set_free_at e1 hents (hW.bounds w) rfl hend (by omega)
      have hiH : HeapIs h1 (pre ++ [{ addr := wv.addr, size := S, cin := false, pin := true, pfoot := wv.pfoot },
          { n with pin := false, pfoot := S }] ++ post') s.h.sbins s.h.tbins wv.addr S s.h.top s.h.topsize := by
        rw [hh1, r]; exact ⟨rfl, rfl, rfl, hPd.symm, rfl, rfl, rfl⟩
      refine fr_dv_wfs w hW (fr_unl_refl w) (fr_dvsize_ne w hdv0) ?_ (fun v hv => by cases hv)
        ⟨wv, List.mem_cons_self, hPd⟩ (Or.inr (Or.inl hPd)) hnc hn8 hend hiH
      intro e he hf
      simp only [List.mem_cons, List.not_mem_nil, or_false] at he
      rcases he with rfl | rfl
      · exact Or.inr hPd
      · rw [(isFree_iff.1 hf).1] at hxc; cases hxc
    · cases hst

/-- **the core theorem**: the coalescing code shared by `free_heap` and `dispose_chunk`, run on a user chunk,
preserves `WFS` and makes exactly that in-use header disappear -/
theorem fr_core {s : St} (hi : SInv s) {p0 psize0 : Nat} (hu : User s p0 psize0) {x en : Ent}
    (hx : findEnt s.h.ents p0 = some x) (hen : findEnt s.h.ents (p0 + psize0) = some en)
    {h1 : Heap} {P S : Nat} {stop : Bool} (hb : fr_Back s.h x en p0 psize0 (p0 + psize0) h1 P S stop) {H : Heap}
    (hrest : (stop = true ∧ H = h1) ∨ (stop = false ∧ fr_Fwd h1 P S (p0 + psize0) en H)) :
    WFS { s with h := H } ∧ FreeAtTab s.h.ents H.ents p0 := by
  obtain ⟨e, he, hc, hs, h8, hr⟩ := hu
  rw [hx] at he
  injection he with he
  subst he
  rcases hrest with ⟨hst, hH⟩ | ⟨hst, hf⟩
  · subst hst; subst hH
    exact fr_back_stop hi hx hc hs h8 hr hen hb
  · subst hst
    obtain ⟨pre, post, a, as, g, rem, haP, bk⟩ := fr_back_ok hi hx hc hs h8 hr hen hb
    subst haP
    rw [← (findEnt_some hen).2] at hf
    exact fr_fwd_ok hi bk hf

/-! ## the two functions as instances of `fr_Back` / `fr_Fwd` -/

/-- the backward-consolidation block of `free_heap` / `dispose_chunk` (they differ in the messages of the
two early exits and in the branch tag) -/
def fr_backStep (m1 m2 tg : String) (h : Heap) (e en : Ent) (p0 psize0 next : Nat) : M (Heap × Nat × Nat × Bool) := do
  if !e.pin then
    let prevsize := e.pfoot
    failIf (e.mmapped) m1
    failIf (p0 < prevsize) m2
    let prev := p0 - prevsize
    let psize := psize0 + prevsize
    if prev ≠ h.dv then
      let h ← unlink_chunk h prev prevsize
      pure (h, prev, psize, false)
    else if en.cin && en.pin then
      let h := { h with dvsize := psize }
      let h ← set_free_with_pinuse h prev psize next
      pure (h.tag tg, prev, psize, true)
    else pure (h, prev, psize, false)
  else pure (h, p0, psize0, false)

theorem fr_backStep_ok {m1 m2 tg : String} {h : Heap} {e en : Ent} {p0 psize0 next : Nat} {h1 : Heap} {P S : Nat}
    {stop : Bool} (hh : fr_backStep m1 m2 tg h e en p0 psize0 next = .ok (h1, P, S, stop)) :
    fr_Back h e en p0 psize0 next h1 P S stop := by
  unfold fr_backStep at hh
  dsimp only at hh
  split at hh
  · rename_i hp
    have hp' : e.pin = false := by simpa using hp
    msimp at hh
    obtain ⟨_, _, _, hlt, hh⟩ := hh
    have hle : e.pfoot ≤ p0 := by simpa using hlt
    refine Or.inr ⟨hp', hle, ?_⟩
    split at hh
    · rename_i hd
      msimp at hh
      obtain ⟨h2, e1, hh⟩ := hh
      simp only [Prod.mk.injEq] at hh
      obtain ⟨r1, r2, r3, r4⟩ := hh
      subst r1; subst r2; subst r3; subst r4
      exact ⟨rfl, rfl, Or.inl ⟨hd, e1, rfl⟩⟩
    · rename_i hd
      have hd' : p0 - e.pfoot = h.dv := by simpa using hd
      split at hh
      · rename_i hc
        msimp at hh
        obtain ⟨h2, e1, hh⟩ := hh
        simp only [Prod.mk.injEq] at hh
        obtain ⟨r1, r2, r3, r4⟩ := hh
        subst r1; subst r2; subst r3; subst r4
        exact ⟨rfl, rfl, Or.inr (Or.inl ⟨hd', hc, rfl, h2, tg, e1, rfl⟩)⟩
      · rename_i hc
        msimp at hh
        simp only [Prod.mk.injEq] at hh
        obtain ⟨r1, r2, r3, r4⟩ := hh
        subst r1; subst r2; subst r3; subst r4
        exact ⟨rfl, rfl, Or.inr (Or.inr ⟨hd', by simpa using hc, rfl, rfl⟩)⟩
  · rename_i hp
    have hp' : e.pin = true := by simpa using hp
    msimp at hh
    simp only [Prod.mk.injEq] at hh
    obtain ⟨r1, r2, r3, r4⟩ := hh
    subst r1; subst r2; subst r3; subst r4
    exact Or.inl ⟨hp', rfl, rfl, rfl, rfl⟩

/-- **`dispose_chunk` on a user chunk** -/
theorem fr_dispose_chunk_spec : dispose_chunk_Spec := by
  intro s hi p psize h' hu hh
  unfold dispose_chunk at hh
  dsimp only at hh
  msimp at hh
  obtain ⟨e, he, en, hen, ⟨h1, P, S, stop⟩, hback, hrest⟩ := hh
  have hb := fr_backStep_ok hback
  dsimp only at hrest
  have hfw : (stop = true ∧ h' = h1) ∨ (stop = false ∧ fr_Fwd h1 P S (p + psize) en h') := by
    split at hrest
    · rename_i hst
      msimp at hrest
      exact Or.inl ⟨hst, hrest.symm⟩
    · rename_i hst
      refine Or.inr ⟨by simpa using hst, ?_⟩
      split at hrest
      · rename_i hc
        msimp at hrest
        obtain ⟨h3, e1, e2⟩ := hrest
        exact Or.inl ⟨hc, h3, _, e1, e2⟩
      · rename_i hc
        have hc' : en.cin = false := by simpa using hc
        split at hrest
        · rename_i ht
          msimp at hrest
          obtain ⟨h3, e1, e2⟩ := hrest
          exact Or.inr (Or.inl ⟨hc', ht, h3, _, e1, e2.symm⟩)
        · rename_i ht
          split at hrest
          · rename_i hd
            msimp at hrest
            obtain ⟨h3, e1, e2⟩ := hrest
            exact Or.inr (Or.inr (Or.inl ⟨hc', ht, hd, h3, _, e1, e2.symm⟩))
          · rename_i hd
            msimp at hrest
            obtain ⟨h2, e1, h3, e2, hrest⟩ := hrest
            refine Or.inr (Or.inr (Or.inr ⟨hc', ht, hd, h2, h3, e1, e2, ?_⟩))
            split at hrest
            · rename_i hpd
              msimp at hrest
              exact Or.inl ⟨hpd, _, hrest.symm⟩
            · rename_i hpd
              exact Or.inr ⟨hpd, _, hrest⟩
  obtain ⟨w', fat⟩ := fr_core hi hu (getE_ok.1 he) (getE_ok.1 hen) hb hfw
  exact gl_sinv_freeAtTab hi w' hu fat

theorem fr_free_bin_ok {h h' : Heap} {p sz : Nat} {t : FreeTail} (hh : free_heap.free_bin h p sz = .ok (h', t)) :
    insert_chunk h p sz = .ok h' ∧ ∀ ts, t ≠ .intoTop ts := by
  unfold free_heap.free_bin at hh
  unfold insert_chunk
  split at hh
  · rename_i hs
    msimp at hh
    obtain ⟨h2, e1, e2⟩ := hh
    simp only [Prod.mk.injEq] at e2
    obtain ⟨r1, r2⟩ := e2
    subst r1; subst r2
    rw [if_pos hs]
    exact ⟨e1, fun ts h => by cases h⟩
  · rename_i hs
    msimp at hh
    obtain ⟨h2, e1, e2⟩ := hh
    simp only [Prod.mk.injEq] at e2
    obtain ⟨r1, r2⟩ := e2
    subst r1; subst r2
    rw [if_neg hs]
    exact ⟨e1, fun ts h => by cases h⟩

/-- **`free_heap` on a user chunk** -/
theorem fr_free_heap_spec : free_heap_Spec := by
  intro s hi mem h' t h16 hu hh
  obtain ⟨z, hu⟩ := hu
  unfold free_heap at hh
  dsimp only at hh
  msimp at hh
  obtain ⟨_, _, e, he, en, hen, ⟨h1, P, S, stop⟩, hback, hrest⟩ := hh
  rw [MEM_OFFSET_eq] at he hen hback hrest
  have hx := getE_ok.1 he
  have hz : e.size = z := by
    obtain ⟨e', he', _, hs, _⟩ := hu
    rw [hx] at he'
    injection he' with he'
    subst he'
    exact hs
  subst hz
  have hb := fr_backStep_ok hback
  dsimp only at hrest
  have hfw : ((stop = true ∧ h' = h1) ∨ (stop = false ∧ fr_Fwd h1 P S (mem - 16 + e.size) en h')) ∧
      (∀ ts, t = .intoTop ts → ts = h'.topsize) := by
    split at hrest
    · rename_i hst
      msimp at hrest
      simp only [Prod.mk.injEq] at hrest
      obtain ⟨r1, r2⟩ := hrest
      subst r1; subst r2
      exact ⟨Or.inl ⟨hst, rfl⟩, fun ts h => by cases h⟩
    · rename_i hst
      have hst' : stop = false := by simpa using hst
      split at hrest
      · rename_i hc
        msimp at hrest
        obtain ⟨h3, e1, e2⟩ := hrest
        obtain ⟨e3, e4⟩ := fr_free_bin_ok e2
        exact ⟨Or.inr ⟨hst', Or.inl ⟨hc, h3, _, e1, e3⟩⟩, fun ts h => absurd h (e4 ts)⟩
      · rename_i hc
        have hc' : en.cin = false := by simpa using hc
        split at hrest
        · rename_i ht
          msimp at hrest
          obtain ⟨h3, e1, e2⟩ := hrest
          simp only [Prod.mk.injEq] at e2
          obtain ⟨r1, r2⟩ := e2
          subst r2
          refine ⟨Or.inr ⟨hst', Or.inr (Or.inl ⟨hc', ht, h3, _, e1, r1.symm⟩)⟩, ?_⟩
          intro ts hts
          injection hts with hts
          subst hts
          have := (writeHead_sameTop e1).2
          rw [← r1]
          split <;> exact this.symm
        · rename_i ht
          split at hrest
          · rename_i hd
            msimp at hrest
            obtain ⟨h3, e1, e2⟩ := hrest
            simp only [Prod.mk.injEq] at e2
            obtain ⟨r1, r2⟩ := e2
            subst r2
            exact ⟨Or.inr ⟨hst', Or.inr (Or.inr (Or.inl ⟨hc', ht, hd, h3, _, e1, r1.symm⟩))⟩, fun ts h => by cases h⟩
          · rename_i hd
            msimp at hrest
            obtain ⟨h2, e1, h3, e2, hrest⟩ := hrest
            split at hrest
            · rename_i hpd
              msimp at hrest
              simp only [Prod.mk.injEq] at hrest
              obtain ⟨r1, r2⟩ := hrest
              subst r2
              exact ⟨Or.inr ⟨hst', Or.inr (Or.inr (Or.inr ⟨hc', ht, hd, h2, h3, e1, e2, Or.inl ⟨hpd, _, r1.symm⟩⟩))⟩,
                fun ts h => by cases h⟩
            · rename_i hpd
              obtain ⟨e3, e4⟩ := fr_free_bin_ok hrest
              exact ⟨Or.inr ⟨hst', Or.inr (Or.inr (Or.inr ⟨hc', ht, hd, h2, h3, e1, e2, Or.inr ⟨hpd, _, e3⟩⟩))⟩,
                fun ts h => absurd h (e4 ts)⟩
  obtain ⟨w', fat⟩ := fr_core hi hu hx (getE_ok.1 hen) hb hfw.1
  obtain ⟨r1, r2⟩ := gl_sinv_freeAtTab hi w' hu fat
  rw [show mem - 16 + 16 = mem by omega] at r2
  exact ⟨r1, r2, hfw.2⟩

/-! ## non-vacuity: every branch is taken from a reachable state satisfying the hypotheses -/

/-- executable form of `∃ z, User s a z` -/
def fr_userB (s : St) (a : Nat) : Bool :=
  match findEnt s.h.ents a with
  | some e => e.cin && !(decide (e.size = 8)) && !(isRecord s.segs e)
  | none => false

theorem fr_user_of_check {s : St} {a : Nat} (h : fr_userB s a = true) : ∃ z, User s a z := by
  unfold fr_userB at h
  split at h
  · rename_i e he
    simp only [Bool.and_eq_true, Bool.not_eq_true', decide_eq_false_iff_not] at h
    exact ⟨e.size, e, he, h.1.1, rfl, h.1.2, h.2⟩
  · cases h

def fr_state (ops : List (Op × List OsDir)) : Hist :=
  match Hist.init.run ops with
  | .ok (hs, _) => hs
  | .error _ => Hist.init

def fr_invB (hs : Hist) : Bool :=
  wfb hs && gl_recsOkB hs.st && gl_fenceOkB hs.st && gl_tailOkB hs.st && gl_headOkB hs.st && gl_recInB hs.st

theorem fr_inv_of_check {hs : Hist} (h : fr_invB hs = true) : Inv hs := by
  unfold fr_invB at h
  simp only [Bool.and_eq_true] at h
  exact gl_inv_of_check h.1.1.1.1.1 h.1.1.1.1.2 h.1.1.1.2 h.1.1.2 h.1.2 h.2

/-- the state reached by `ops` satisfies the invariant, its live block `id` is a user chunk, and `free_heap`
on it succeeds through the branch tagged `tag` -/
def fr_caseF (ops : List (Op × List OsDir)) (id : Nat) (tag : String) : Bool :=
  fr_invB (fr_state ops) &&
  match findBlock (fr_state ops).live id with
  | none => false
  | some b => decide (16 ≤ b.ptr) && fr_userB (fr_state ops).st (b.ptr - 16) &&
    match free_heap (fr_state ops).st.h b.ptr with
    | .ok (h', _) => h'.tr.getLast? == some tag
    | .error _ => false

/-- the same for `dispose_chunk`, called on the chunk of the live block `id` -/
def fr_caseD (ops : List (Op × List OsDir)) (id : Nat) (tag : String) : Bool :=
  fr_invB (fr_state ops) &&
  match findBlock (fr_state ops).live id with
  | none => false
  | some b =>
    match findEnt (fr_state ops).st.h.ents (b.ptr - 16) with
    | none => false
    | some e => fr_userB (fr_state ops).st (b.ptr - 16) &&
      match dispose_chunk (fr_state ops).st.h (b.ptr - 16) e.size with
      | .ok h' => h'.tr.getLast? == some tag
      | .error _ => false

theorem fr_caseF_sound {ops : List (Op × List OsDir)} {id : Nat} {tag : String} (h : fr_caseF ops id tag = true) :
    ∃ hs mem h' t, Inv hs ∧ 16 ≤ mem ∧ (∃ z, User hs.st (mem - 16) z) ∧ free_heap hs.st.h mem = .ok (h', t) ∧
      h'.tr.getLast? = some tag := by
  unfold fr_caseF at h
  simp only [Bool.and_eq_true] at h
  obtain ⟨h1, h2⟩ := h
  split at h2
  · cases h2
  · rename_i b _
    simp only [Bool.and_eq_true, decide_eq_true_eq] at h2
    obtain ⟨⟨h3, h4⟩, h5⟩ := h2
    split at h5
    · rename_i h' t heq
      exact ⟨_, b.ptr, h', t, fr_inv_of_check h1, h3, fr_user_of_check h4, heq, by simpa using h5⟩
    · cases h5

theorem fr_caseD_sound {ops : List (Op × List OsDir)} {id : Nat} {tag : String} (h : fr_caseD ops id tag = true) :
    ∃ hs p z h', Inv hs ∧ User hs.st p z ∧ dispose_chunk hs.st.h p z = .ok h' ∧ h'.tr.getLast? = some tag := by
  unfold fr_caseD at h
  simp only [Bool.and_eq_true] at h
  obtain ⟨h1, h2⟩ := h
  split at h2
  · cases h2
  · rename_i b _
    split at h2
    · cases h2
    · rename_i e he
      simp only [Bool.and_eq_true] at h2
      obtain ⟨h4, h5⟩ := h2
      split at h5
      · rename_i h' heq
        obtain ⟨z, hu⟩ := fr_user_of_check h4
        have hz : z = e.size := by
          obtain ⟨e', he', _, hs, _⟩ := hu
          rw [he] at he'
          injection he' with he'
          subst he'
          exact hs.symm
        subst hz
        exact ⟨_, b.ptr - 16, e.size, h', fr_inv_of_check h1, hu, heq, by simpa using h5⟩
      · cases h5

/-- `[1, 5, dv, 3, 4, 6, 7, top]`: six live blocks, an 80-byte `dv` between blocks 5 and 3 -/
def fr_ops : List (Op × List OsDir) :=
  [(.malloc 1 100 8, [.m (some 1048576)]), (.malloc 2 100 8, []), (.malloc 3 100 8, []), (.malloc 4 100 8, []),
   (.malloc 6 100 8, []), (.malloc 7 100 8, []), (.free 2, []), (.malloc 5 8 8, [])]

/-- `[1, 5, dv, 3, top]` -/
def fr_ops2 : List (Op × List OsDir) :=
  [(.malloc 1 100 8, [.m (some 1048576)]), (.malloc 2 100 8, []), (.malloc 3 100 8, []), (.free 2, []),
   (.malloc 5 8 8, [])]

set_option maxRecDepth 100000 in
/-- the hypotheses of `fr_free_heap_spec` are satisfiable on every branch: all six branch tags, and the
backward variants (predecessor in use / binned / `dv`) of the forward branches -/
example :
    -- predecessor in use
    fr_caseF fr_ops 1 "free-plain" = true ∧ fr_caseF fr_ops 7 "free-into-top" = true ∧
    fr_caseF fr_ops 5 "free-into-dv" = true ∧ fr_caseF (fr_ops ++ [(.free 6, [])]) 4 "free-fwd" = true ∧
    -- predecessor binned
    fr_caseF (fr_ops ++ [(.free 4, [])]) 6 "free-plain" = true ∧
    fr_caseF (fr_ops ++ [(.free 6, [])]) 7 "free-into-top" = true ∧
    fr_caseF (fr_ops ++ [(.free 1, [])]) 5 "free-into-dv" = true ∧
    fr_caseF (fr_ops ++ [(.free 4, []), (.free 7, [])]) 6 "free-into-top" = true ∧
    -- predecessor is `dv`
    fr_caseF fr_ops 3 "free-back-dv" = true ∧ fr_caseF fr_ops2 3 "free-into-top" = true ∧
    fr_caseF (fr_ops ++ [(.free 4, [])]) 3 "free-fwd-dv" = true :=
  ⟨by decide, by decide, by decide, by decide, by decide, by decide, by decide, by decide, by decide, by decide,
    by decide⟩

set_option maxRecDepth 100000 in
/-- the same for `fr_dispose_chunk_spec` -/
example :
    fr_caseD fr_ops 1 "dispose-bin" = true ∧ fr_caseD fr_ops 7 "dispose-into-top" = true ∧
    fr_caseD fr_ops 5 "dispose-into-dv" = true ∧ fr_caseD (fr_ops ++ [(.free 6, [])]) 4 "dispose-fwd-bin" = true ∧
    fr_caseD fr_ops 3 "dispose-back-dv" = true ∧ fr_caseD fr_ops2 3 "dispose-into-top" = true ∧
    fr_caseD (fr_ops ++ [(.free 4, [])]) 3 "dispose-fwd-dv" = true :=
  ⟨by decide, by decide, by decide, by decide, by decide, by decide, by decide⟩

end TinyVerif.Dl
