import TinyVerif.Proofs.DlIndGlue
/-!
# `free_heap` / `dispose_chunk`: foundations (tag `fr_`)

The coalescing code shared by `free_heap` and `dispose_chunk` merges the user chunk `x` being freed with a
free predecessor `wv` (if `x.pin = false`) and a free successor `n` (if `n.cin = false`; `n` may be `top`,
`dv` or a binned chunk).  This file provides, generically in the run `a :: as` of headers that is merged
(`[x]`, `[wv, x]`, `[x, n]`, `[wv, x, n]`) and the header `y` after it (the in-use successor, or the foot
word after `top`):

1. neighbours: `fr_ff_end` (a header with both flag bits clear is the last header of its segment),
   `fr_prev_free` (`x.pin = false` ⇒ the header before `x` is a free chunk other than `top`, of size
   `x.pfoot`), `fr_next` (the header after a user chunk: not a fencepost, `PINUSE` set);
2. `fr_merge_table`: the table change `pre ++ (a :: as ++ [y]) ++ post ↦ pre ++ [m, y'] ++ post`
   (`StructOk`, the in-use headers: `FreeAtTab`, the free headers of the new window);
3. the heap primitives on such a run as equations: `fr_set_free_at` (`set_free_with_pinuse`),
   `fr_set_size_free_at` (`set_size_and_pinuse_of_free_chunk`), `fr_writeHead_run`;
4. bookkeeping: `fr_Unl` ("the chunks `rem` have been unlinked from their bins"), `fr_freeListOk`,
   `fr_bins_frame`, `fr_entsLt`.

The branch theorems and the two interface theorems are in `Proofs/DlIndFree2.lean`.
-/
namespace TinyVerif.Dl

open List

/-! ## 1. neighbours -/

theorem fr_entsOk_filter {es : List Ent} (h : entsOk es = true) (p : Ent → Bool) : entsOk (es.filter p) = true := by
  rw [entsOk_iff] at h ⊢
  exact ⟨fun e he => h.1 e (List.mem_filter.1 he).1, h.2.sublist List.filter_sublist⟩

/-- in a sorted boundary-tag chain a header with both flag bits clear comes right after another such header
or after `top`, which lies below it -/
theorem fr_tagsFrom_ff_lt {top : Nat} {r : List Ent} : ∀ {a : Ent}, tagsFrom top a r = true →
    entsOk (a :: r) = true → ∀ x ∈ r, x.cin = false → x.pin = false →
      (a.cin = false ∧ a.pin = false) ∨ ∃ t ∈ a :: r, isFree t = true ∧ t.addr = top ∧ t.addr < x.addr := by
  induction r with
  | nil => intro a _ _ x hx; cases hx
  | cons c r' ih =>
    intro a h hok x hx hxc hxp
    simp only [tagsFrom, Bool.and_eq_true] at h
    have hac : a.addr < c.addr := by
      have := entsOk_head_le hok c List.mem_cons_self
      have := entsOk_pos hok a List.mem_cons_self
      omega
    have key : c.cin = false → c.pin = false →
        (a.cin = false ∧ a.pin = false) ∨ (isFree a = true ∧ a.addr = top) := fun h1 h2 => gl_link_ff h.1 h1 h2
    rcases List.mem_cons.1 hx with hx | hx
    · subst hx
      rcases key hxc hxp with h3 | h3
      · exact Or.inl h3
      · exact Or.inr ⟨a, List.mem_cons_self, h3.1, h3.2, hac⟩
    · have hcx : c.addr < x.addr := by
        have := entsOk_head_le (entsOk_tail hok) x hx
        have := entsOk_pos (entsOk_tail hok) c List.mem_cons_self
        omega
      rcases ih h.2 (entsOk_tail hok) x hx hxc hxp with h3 | ⟨t, ht, h3⟩
      · rcases key h3.1 h3.2 with h4 | h4
        · exact Or.inl h4
        · exact Or.inr ⟨a, List.mem_cons_self, h4.1, h4.2, by omega⟩
      · exact Or.inr ⟨t, List.mem_cons_of_mem _ ht, h3⟩

/-- **a header with both flag bits clear is the last header of its segment** (it is the foot word after
`top`) -/
theorem fr_ff_end {s : St} (w : WFS s) {x : Ent} (hx : x ∈ s.h.ents) (hxc : x.cin = false) (hxp : x.pin = false) :
    ∃ g ∈ s.segs, inSeg g x = true ∧ x.addr + x.size = g.base + g.size := by
  obtain ⟨g1, hg1, hgx⟩ := w.struct.seg_of hx
  have htg := w.struct.tags_of hg1
  have hxs : x ∈ segEnts s.h.ents g1 := mem_segEnts.2 ⟨hx, hgx⟩
  have hoks : entsOk (segEnts s.h.ents g1) = true := fr_entsOk_filter w.ents _
  -- `top` lies below `x`, in the same segment
  have htop : ∃ t ∈ segEnts s.h.ents g1, isFree t = true ∧ t.addr = s.h.top ∧ t.addr < x.addr := by
    cases hl : segEnts s.h.ents g1 with
    | nil => rw [hl] at hxs; cases hxs
    | cons a r =>
      rw [hl] at htg hxs hoks
      obtain ⟨h1, h2⟩ := (tagsOk_cons_iff _ true a r).1 htg
      rcases List.mem_cons.1 hxs with hxa | hxr
      · subst hxa; rw [hxp] at h1; cases h1
      · rcases fr_tagsFrom_ff_lt h2 hoks x hxr hxc hxp with h3 | h3
        · rw [h3.2] at h1; cases h1
        · exact h3
  obtain ⟨t, hts, htf, hta, htlt⟩ := htop
  obtain ⟨htm, hgt⟩ := mem_segEnts.1 hts
  obtain ⟨g, rest, pre, xt, f, post, hsegs, hes, hxta, _, hxts, hfa, _, _, hfs, _, hend, _, hgxt, hgf⟩ :=
    w.top_parts (w.topsize_ne hg1)
  have hg : g ∈ s.segs := by rw [hsegs]; exact List.mem_cons_self
  have hgg : g = g1 := gl_seg_unique w.segsDisjoint hg hg1 hgxt hgt (by rw [hta, hxta])
  subst hgg
  have hxtm : xt ∈ s.h.ents := by rw [hes]; simp
  have hfm : f ∈ s.h.ents := by rw [hes]; simp
  have hsep := entsOk_sep w.ents
  have h1 := hsep xt hxtm x hx (by omega)
  have hin := w.struct.in_seg hg hx hgx
  have hxpos := entsOk_pos w.ents x hx
  refine ⟨g, hg, hgx, ?_⟩
  rcases Nat.lt_trichotomy x.addr f.addr with h | h | h
  · omega
  · have := entsOk_addr_inj w.ents hx hfm h
    subst this
    omega
  · have := hsep f hfm x hx h
    omega

/-- the first header of a segment has `PINUSE` set -/
theorem fr_first_pin {s : St} (w : WFS s) {x : Ent} (hx : x ∈ s.h.ents) {g : Seg} (hg : g ∈ s.segs)
    (hgx : inSeg g x = true) (hb : x.addr = g.base) : x.pin = true := by
  have htg := w.struct.tags_of hg
  have htl := w.struct.tiles_of hg
  have hxs : x ∈ segEnts s.h.ents g := mem_segEnts.2 ⟨hx, hgx⟩
  cases hl : segEnts s.h.ents g with
  | nil => rw [hl] at hxs; cases hxs
  | cons a r =>
    rw [hl] at htg htl
    have ham : a ∈ s.h.ents := (mem_segEnts.1 (by rw [hl]; exact List.mem_cons_self)).1
    have haa := tiles_head_addr htl
    have := entsOk_addr_inj w.ents hx ham (by omega)
    subst this
    exact ((tagsOk_cons_iff _ true x r).1 htg).1

/-- **backward neighbour**: an in-use header with `PINUSE` clear comes right after a free chunk other than
`top`, in the same segment, whose size is its `prev_foot` -/
theorem fr_prev_free {s : St} (w : WFS s) {x : Ent} (hx : x ∈ s.h.ents) (hxc : x.cin = true) (hxp : x.pin = false) :
    ∃ pre wv post g, s.h.ents = pre ++ wv :: x :: post ∧ g ∈ s.segs ∧ inSeg g wv = true ∧ inSeg g x = true ∧
      isFree wv = true ∧ wv.addr ≠ s.h.top ∧ x.addr = wv.addr + wv.size ∧ x.pfoot = wv.size := by
  obtain ⟨g, hg, hgx⟩ := w.struct.seg_of hx
  have hnb : x.addr ≠ g.base := by
    intro hb
    rw [fr_first_pin w hx hg hgx hb] at hxp; cases hxp
  obtain ⟨wv, hwm, hgw, hxa, hl⟩ := gl_prev_entry w.struct hx hg hgx hnb
  have hl' := hl
  unfold linkOk at hl
  simp only [Bool.and_eq_true, beq_iff_eq] at hl
  have hwc : wv.cin = false := by rw [← hl.1, hxp]
  have hwp : wv.pin = true := by
    cases hp : wv.pin with
    | true => rfl
    | false =>
      exfalso
      obtain ⟨g', hg', hgw', hend⟩ := fr_ff_end w hwm hwc hp
      have : g' = g := gl_seg_unique w.segsDisjoint hg' hg hgw' hgw rfl
      subst this
      have := inSeg_iff.1 hgx
      omega
  have hwf : isFree wv = true := isFree_iff.2 ⟨hwc, hwp⟩
  have hwt : wv.addr ≠ s.h.top := by
    intro ht
    have := linkOk_top hl' hwf ht
    rw [hxc] at this; cases this.1
  obtain ⟨_, _, hpf⟩ := linkOk_free hl' hwf hwt
  obtain ⟨pre, post, hes⟩ := gl_adjacent_of_mem w.ents hwm hx hxa
  exact ⟨pre, wv, post, g, hes, hg, hgw, hgx, hwf, hwt, hxa, hpf⟩

/-- a user chunk is 16-aligned and its header is no trailer -/
theorem fr_user_shape {s : St} (w : WFS s) {x : Ent} (hx : x ∈ s.h.ents) (h8 : x.size ≠ 8) :
    x.addr % 16 = 0 ∧ x.size % 16 = 0 ∧ 16 ≤ x.size := by
  rcases shapeOk_mem w.shape hx with h | h
  · exact absurd h.1 h8
  · exact h

/-- **forward neighbour** of an in-use header `x` that is neither a fencepost nor a record: the next
header of the table sits at the end of `x`, in the same segment, has `PINUSE` set and is no fencepost -/
theorem fr_next {s : St} (hi : SInv s) {pre post : List Ent} {x : Ent} (hes : s.h.ents = pre ++ x :: post)
    (hxc : x.cin = true) (h8 : x.size ≠ 8) (hr : isRecord s.segs x = false) {g : Seg} (hg : g ∈ s.segs)
    (hgx : inSeg g x = true) :
    ∃ n post', post = n :: post' ∧ n.addr = x.addr + x.size ∧ inSeg g n = true ∧ n.pin = true ∧ n.size ≠ 8 := by
  have w := hi.wfs
  have hnt : isTrailerEnd x = false := by
    simp only [isTrailerEnd, hxc, Bool.not_true, Bool.false_and, Bool.false_or, decide_eq_false_iff_not]
    exact h8
  obtain ⟨n, post', hp, hna, hgn, hl⟩ := next_entry w.struct hes hg hgx hnt
  subst hp
  refine ⟨n, post', rfl, hna, hgn, ?_, ?_⟩
  · unfold linkOk at hl
    simp only [Bool.and_eq_true, beq_iff_eq] at hl
    rw [hl.1, hxc]
  · intro hn8
    rcases hi.fence pre x n post' hes hn8 hna with h | h
    · exact h8 h
    · rw [hr] at h; cases h

/-! ## 2. the table change -/

theorem fr_mem_run {a y e : Ent} {as : List Ent} : e ∈ a :: (as ++ [y]) ↔ e ∈ a :: as ∨ e = y := by
  simp only [List.mem_cons, List.mem_append, List.not_mem_nil, or_false, or_assoc]

/-- **the table change of every branch of `free_heap` / `dispose_chunk`**: the run `a :: as` (the chunk
being freed at `p` with its free neighbours; its first header has `PINUSE` set) becomes one free chunk `m`;
the header `y` after the run (in use, or the foot word after `top`) becomes `y'` with `PINUSE` clear.
`top'` is the `top` the new table is checked against (`a.addr` when the run ends in the old `top`). -/
theorem fr_merge_table {s : St} (w : WFS s) {pre post : List Ent} {a : Ent} {as : List Ent} {y m y' : Ent}
    {g : Seg} {top' p : Nat}
    (hes : s.h.ents = pre ++ (a :: (as ++ [y])) ++ post) (hg : g ∈ s.segs)
    (hgm : ∀ e ∈ a :: (as ++ [y]), inSeg g e = true)
    (hc : contig (a :: (as ++ [y])) a.addr = true)
    (hap : a.pin = true) (ha8 : a.size ≠ 8)
    (hys : y.addr % 16 = 0 ∧ y.size % 16 = 0 ∧ 16 ≤ y.size)
    (m1 : m.addr = a.addr) (m2 : m.addr + m.size = y.addr) (m3 : m.cin = false) (m4 : m.pin = true)
    (y1 : y'.addr = y.addr) (y2 : y'.size = y.size) (y3 : y'.cin = y.cin) (y4 : y'.pin = false)
    (hlink : linkOk top' m y' = true)
    (htop : ∀ e ∈ pre ++ post, e.addr = s.h.top ↔ e.addr = top')
    (hcin : ∀ e ∈ a :: as, e.cin = true → e.addr = p) (hpm : ∃ e ∈ a :: as, e.addr = p) :
    StructOk (pre ++ [m, y'] ++ post) s.segs top' ∧
      FreeAtTab s.h.ents (pre ++ [m, y'] ++ post) p ∧
      freeSet [m, y'] = [a.addr] ∧ findEnt (pre ++ [m, y'] ++ post) a.addr = some m := by
  have hst0 : StructOk (pre ++ (a :: (as ++ [y])) ++ post) s.segs s.h.top := by
    have := w.struct; rw [hes] at this; exact this
  have ham : a ∈ s.h.ents := by rw [hes]; simp
  have hym : y ∈ s.h.ents := by rw [hes]; simp
  have hash := fr_user_shape w ham ha8
  obtain ⟨b1, b2⟩ := entsOk_window_bounds hst0.ents
  rw [show endE a (as ++ [y]) = y.addr + y.size by simp only [endE, lastE_append, lastE]] at b2
  -- the window is sorted
  have hwok : entsOk ((a :: as) ++ [y]) = true := by
    have := hst0.ents
    rw [List.append_assoc] at this
    exact (entsOk_append.1 (entsOk_append.1 this).2.1).1
  obtain ⟨hrok, _, hry⟩ := entsOk_append.1 hwok
  have hrun : ∀ e ∈ a :: as, a.addr ≤ e.addr ∧ e.addr + e.size ≤ y.addr ∧ 0 < e.size := by
    intro e he
    have h1 := hry e he y (by simp)
    have h2 := entsOk_pos hrok e he
    refine ⟨?_, h1, h2⟩
    rcases List.mem_cons.1 he with rfl | he'
    · exact Nat.le_refl _
    · have := entsOk_head_le hrok e he'; omega
  have hay := hrun a List.mem_cons_self
  have hst : StructOk (pre ++ (m :: [y']) ++ post) s.segs top' :=
    struct_window hst0 w.segsDisjoint hg hgm
      (by simp only [contig, Bool.and_eq_true, decide_eq_true_eq, Bool.and_true]; omega)
      (by simp only [endE, lastE_append, lastE]; omega)
      (by
        simp only [shapeOk, List.all_cons, List.all_nil, Bool.and_true, Bool.and_eq_true, Bool.or_eq_true,
          decide_eq_true_eq]
        exact ⟨Or.inr ⟨⟨by omega, by omega⟩, by omega⟩, Or.inr ⟨⟨by omega, by omega⟩, by omega⟩⟩)
      (by
        simp only [lastE_append, lastE, isTrailerEnd, y2, y3, y4]
        cases y.cin <;> cases y.pin <;> simp)
      htop
      ⟨by rw [m4, hap], fun h => by rw [hap] at h; cases h⟩
      ⟨by simp only [lastE_append, lastE]; exact y3, fun hf => by simp [lastE, isFree, y4] at hf⟩
      (by simp only [tagsFrom, hlink, Bool.and_true])
  obtain ⟨xx, hxxm, hxxa⟩ := hpm
  have hxx := hrun xx hxxm
  refine ⟨hst, ⟨?_, ?_⟩, ?_, ?_⟩
  · intro v hv
    rw [hes]
    simp only [cinSet_append, List.mem_append] at hv ⊢
    rcases hv with (hv | hv) | hv
    · refine ⟨Or.inl (Or.inl hv), ?_⟩
      obtain ⟨e, he, _, hea⟩ := mem_cinSet.1 hv
      have := b1 e he
      have := entsOk_pos w.ents e (by rw [hes]; simp [he])
      omega
    · obtain ⟨e, he, hce, hea⟩ := mem_cinSet.1 hv
      simp only [List.mem_cons, List.not_mem_nil, or_false] at he
      rcases he with rfl | rfl
      · rw [m3] at hce; cases hce
      · refine ⟨Or.inl (Or.inr (mem_cinSet.2 ⟨y, by simp, by rw [← y3]; exact hce, by omega⟩)), by omega⟩
    · refine ⟨Or.inr hv, ?_⟩
      obtain ⟨e, he, _, hea⟩ := mem_cinSet.1 hv
      have := b2 e he
      omega
  · intro e he hce hne
    rw [hes] at he
    simp only [List.mem_append] at he
    rcases he with (h | h) | h
    · exact ⟨e, entsOk_find e (by simp [h]) hst.ents, rfl, hce⟩
    · rcases fr_mem_run.1 h with h | h
      · exact absurd (hcin e h hce) hne
      · subst h
        refine ⟨y', ?_, y2, by rw [y3]; exact hce⟩
        rw [← y1]
        exact entsOk_find y' (by simp) hst.ents
    · exact ⟨e, entsOk_find e (by simp [h]) hst.ents, rfl, hce⟩
  · simp [freeSet, List.filter, isFree, m3, m4, y4, m1]
  · rw [← m1]
    exact entsOk_find m (by simp) hst.ents

/-! ## 3. the heap primitives on a run, as equations -/

/-- what sortedness says around the window `a :: (as ++ [y])` -/
def fr_Bounds (pre : List Ent) (a : Ent) (as : List Ent) (y : Ent) (post : List Ent) : Prop :=
  (∀ q ∈ pre, q.addr + q.size ≤ a.addr ∧ 0 < q.size) ∧
  (∀ e ∈ a :: as, a.addr ≤ e.addr ∧ e.addr + e.size ≤ y.addr ∧ 0 < e.size) ∧ 0 < y.size ∧
  (∀ q ∈ post, y.addr + y.size ≤ q.addr)

theorem fr_bounds {pre post : List Ent} {a y : Ent} {as : List Ent}
    (hok : entsOk (pre ++ (a :: (as ++ [y])) ++ post) = true) : fr_Bounds pre a as y post := by
  obtain ⟨b1, b2⟩ := entsOk_window_bounds hok
  rw [show endE a (as ++ [y]) = y.addr + y.size by simp only [endE, lastE_append, lastE]] at b2
  have hwok : entsOk ((a :: as) ++ [y]) = true := by
    have := hok
    rw [List.append_assoc] at this
    exact (entsOk_append.1 (entsOk_append.1 this).2.1).1
  obtain ⟨hrok, hyok, hry⟩ := entsOk_append.1 hwok
  refine ⟨fun q hq => ⟨b1 q hq, entsOk_pos hok q (by simp [hq])⟩, ?_, entsOk_pos hyok y (by simp), b2⟩
  intro e he
  have h1 := hry e he y (by simp)
  have h2 := entsOk_pos hrok e he
  refine ⟨?_, h1, h2⟩
  rcases List.mem_cons.1 he with rfl | he'
  · exact Nat.le_refl _
  · have := entsOk_head_le hrok e he'; omega

/-- `writeHead` of a free header over the run `a :: as` -/
theorem fr_writeHead_run {h h' : Heap} {pre post : List Ent} {a y : Ent} {as : List Ent} {P sz : Nat} {c p : Bool}
    (e : writeHead h P sz c p = .ok h') (hes : h.ents = pre ++ (a :: (as ++ [y])) ++ post)
    (hb : fr_Bounds pre a as y post) (hP : a.addr = P) (hend : y.addr = P + sz) :
    h' = { h with ents := pre ++ [{ addr := P, size := sz, cin := c, pin := p, pfoot := a.pfoot }, y] ++ post } := by
  obtain ⟨b1, b2, b3, b4⟩ := hb
  have r := writeHead_window_ok e (pre := pre) (ms := a :: as) (post := y :: post)
    (by rw [hes]; simp)
    (by intro q hq; have := b1 q hq; omega)
    (by
      intro m hm
      have := b2 m hm
      refine ⟨by omega, Or.inr (by omega)⟩)
    (by
      intro q hq
      rcases List.mem_cons.1 hq with rfl | hq
      · have := b2 a List.mem_cons_self; omega
      · have := b4 q hq; omega)
  have hpf : pfootAt h.ents P = a.pfoot := by
    apply pfootAt_some
    rw [hes, List.append_assoc, findEnt_skip (fun q hq => by have := b1 q hq; omega), ← hP]
    exact findEnt_head
  rw [hpf] at r
  rw [r]
  simp

/-- `set_size_and_pinuse_of_free_chunk` over the run `a :: as` followed by `y` -/
theorem fr_set_size_free_at {h h' : Heap} {pre post : List Ent} {a y : Ent} {as : List Ent} {P sz : Nat}
    (e : set_size_and_pinuse_of_free_chunk h P sz = .ok h') (hes : h.ents = pre ++ (a :: (as ++ [y])) ++ post)
    (hb : fr_Bounds pre a as y post) (hP : a.addr = P) (hend : y.addr = P + sz) :
    h' = { h with ents := pre ++ [{ addr := P, size := sz, cin := false, pin := true, pfoot := a.pfoot },
      { y with pfoot := sz }] ++ post } := by
  unfold set_size_and_pinuse_of_free_chunk at e
  msimp at e
  obtain ⟨h1, e1, e2⟩ := e
  have r1 := fr_writeHead_run e1 hes hb hP hend
  subst r1
  obtain ⟨b1, b2, b3, b4⟩ := hb
  have r2 := setFoot_at_ok e2
    (pre := pre ++ [{ addr := P, size := sz, cin := false, pin := true, pfoot := a.pfoot }]) (x := y) (post := post)
    (by simp) hend
    (by
      intro q hq
      rcases List.mem_append.1 hq with hq | hq
      · have := b1 q hq; have := b2 a List.mem_cons_self; omega
      · simp only [List.mem_singleton] at hq; subst hq
        have := b2 a List.mem_cons_self
        simp only; omega)
  rw [r2]
  simp

/-- `set_free_with_pinuse` over the run `a :: as` followed by `y` -/
theorem fr_set_free_at {h h' : Heap} {pre post : List Ent} {a y : Ent} {as : List Ent} {P sz nx : Nat}
    (e : set_free_with_pinuse h P sz nx = .ok h') (hes : h.ents = pre ++ (a :: (as ++ [y])) ++ post)
    (hb : fr_Bounds pre a as y post) (hP : a.addr = P) (hend : y.addr = P + sz) (hnx : nx = y.addr) :
    h' = { h with ents := pre ++ [{ addr := P, size := sz, cin := false, pin := true, pfoot := a.pfoot },
      { y with pin := false, pfoot := sz }] ++ post } := by
  unfold set_free_with_pinuse at e
  msimp at e
  obtain ⟨h1, e1, e2⟩ := e
  have r1 := clearPin_at_ok e1 (pre := pre ++ a :: as) (x := y) (post := post)
    (by rw [hes]; simp) hnx.symm
    (by
      intro q hq
      obtain ⟨b1, b2, b3, b4⟩ := hb
      rcases List.mem_append.1 hq with hq | hq
      · have := b1 q hq; have := b2 a List.mem_cons_self; omega
      · have := b2 q hq; omega)
  subst r1
  have r2 := fr_set_size_free_at e2 (pre := pre) (post := post) (a := a) (as := as) (y := { y with pin := false })
    (by simp) hb hP hend
  rw [r2]

/-! ## 4. bookkeeping -/

/-- "the chunks `rem` have been unlinked from their bins": `h` differs from `s.h` in the bins only, the bins
are still well-formed, and the free list lost exactly `rem` -/
structure fr_Unl (s : St) (h : Heap) (rem : List Nat) : Prop where
  frame : BinFrame s.h h
  sb : sbinsOk h = true
  tb : tbinsOk h = true
  fl : freeList s.h ~ rem ++ freeList h

theorem fr_unl_refl {s : St} (w : WFS s) : fr_Unl s s.h [] :=
  ⟨BinFrame.refl _, w.sbins, w.tbins, List.Perm.refl _⟩

theorem fr_unl_step {s : St} {h h' : Heap} {rem : List Nat} {c sz : Nat} (u : fr_Unl s h rem)
    (e : unlink_chunk h c sz = .ok h') : fr_Unl s h' (rem ++ [c]) := by
  obtain ⟨b1, b2⟩ := unlink_chunk_binsOk e u.sb u.tb
  refine ⟨u.frame.trans (unlink_chunk_frame e), b1, b2, u.fl.trans ?_⟩
  have := List.Perm.append_left rem (unlink_chunk_freeList e)
  simpa using this

theorem fr_unl_nodup {s : St} (w : WFS s) {h : Heap} {rem : List Nat} (u : fr_Unl s h rem) :
    (rem ++ freeList h).Nodup :=
  u.fl.nodup_iff.1 ((freeListOk_iff s.h).1 w.freeList).1

/-- what is still binned was binned before and is none of the unlinked chunks -/
theorem fr_unl_binned {s : St} (w : WFS s) {h : Heap} {rem : List Nat} (u : fr_Unl s h rem) {a : Nat}
    (ha : a ∈ binned h) : a ∈ binned s.h ∧ a ∉ rem := by
  have nd := fr_unl_nodup w u
  obtain ⟨_, ndh, hdis⟩ := List.nodup_append.1 nd
  have hah : a ∈ freeList h := mem_freeList_of_binned ha
  have hnr : a ∉ rem := fun hr => hdis a hr a hah rfl
  refine ⟨?_, hnr⟩
  have has : a ∈ freeList s.h := u.fl.mem_iff.2 (List.mem_append.2 (Or.inr hah))
  rcases mem_freeList.1 has with ⟨h0, heq⟩ | ⟨h0, heq⟩ | hb
  · exfalso
    unfold freeList at ndh
    rw [u.frame.top, if_neg h0] at ndh
    exact (List.nodup_append.1 ndh).2.2 a (by simp [heq]) a (List.mem_append.2 (Or.inr ha)) rfl
  · exfalso
    unfold freeList at ndh
    have ndh' := (List.nodup_append.1 ndh).2.1
    rw [u.frame.dv, if_neg h0] at ndh'
    exact (List.nodup_append.1 ndh').2.2 a (by simp [heq]) a ha rfl
  · exact hb

/-- **the free-list conjunct**: the free headers `rem` of the old window left the free list, the one free
header `P` of the new window joined it -/
theorem fr_freeListOk {s : St} (w : WFS s) {H : Heap} {pre mid mid' post : List Ent}
    (hes : s.h.ents = pre ++ mid ++ post) (hH : H.ents = pre ++ mid' ++ post) (hok' : entsOk H.ents = true)
    {rem R : List Nat} {P : Nat} (hfs : ∀ v, v ∈ freeSet mid ↔ v ∈ rem) (hfs' : freeSet mid' = [P])
    (hfl : freeList s.h ~ rem ++ R) (hfl' : freeList H ~ P :: R) (hP : P ∈ rem ∨ P ∉ freeList s.h) :
    freeListOk H = true := by
  have nd0 := ((freeListOk_iff s.h).1 w.freeList).1
  have nd1 := hfl.nodup_iff.1 nd0
  obtain ⟨_, ndR, hdis⟩ := List.nodup_append.1 nd1
  have hPR : P ∉ R := by
    intro hr
    rcases hP with h | h
    · exact hdis P h P hr rfl
    · exact h (hfl.mem_iff.2 (List.mem_append.2 (Or.inr hr)))
  refine freeListOk_window hes hH w.ents hok' w.freeList (hfl'.nodup_iff.2 (List.nodup_cons.2 ⟨hPR, ndR⟩)) ?_
  intro a
  rw [hfl'.mem_iff, hfl.mem_iff, hfs, hfs']
  simp only [List.mem_cons, List.mem_append, List.not_mem_nil, or_false]
  constructor
  · rintro (h | h)
    · exact Or.inr h
    · exact Or.inl ⟨Or.inr h, fun hr => hdis a hr a h rfl⟩
  · rintro (⟨h | h, hn⟩ | h)
    · exact absurd h hn
    · exact Or.inr h
    · exact Or.inl h

/-- **the bin conjuncts across the table change** (before the merged chunk is inserted anywhere): the free
headers of the old window are unlinked chunks, `top` or `dv` -/
theorem fr_bins_frame {s : St} (w : WFS s) {h : Heap} {rem : List Nat} (u : fr_Unl s h rem) {H : Heap}
    {pre mid mid' post : List Ent} (hes : s.h.ents = pre ++ mid ++ post) (hH : H.ents = pre ++ mid' ++ post)
    (hok' : entsOk H.ents = true) (hsb : H.sbins = h.sbins) (htb : H.tbins = h.tbins)
    (hmid : ∀ e ∈ mid, isFree e = true → e.addr ∈ rem ∨ e.addr = s.h.top ∨ e.addr = s.h.dv) :
    sbinsOk H = true ∧ tbinsOk H = true := by
  have hfr : ∀ a ∈ binned h, findEnt H.ents a = findEnt h.ents a := by
    intro a ha
    obtain ⟨hab, hnr⟩ := fr_unl_binned w u ha
    obtain ⟨⟨e, he, hef⟩, hat, had⟩ := w.binned_free hab
    rw [u.frame.ents, hH, hes]
    rw [hes] at he
    rw [hH] at hok'
    refine findEnt_outer_eq hok' he ?_
    intro hm
    have hea := (findEnt_some he).2
    rcases hmid e hm hef with h | h | h
    · exact hnr (hea ▸ h)
    · exact hat (hea.symm.trans h)
    · exact had (hea.symm.trans h)
  obtain ⟨f1, f2⟩ := bins_frame hfr
  have s1 := u.sb
  have t1 := u.tb
  unfold sbinsOk at s1 ⊢
  unfold tbinsOk at t1 ⊢
  rw [hsb, f1, htb, f2]
  exact ⟨s1, t1⟩

/-- header sizes fit a machine word in every table that is structurally fine for the segments of `s` -/
theorem fr_entsLt {s : St} (w : WFS s) {es : List Ent} {top : Nat} (hst : StructOk es s.segs top) : EntsLt es := by
  intro a e he
  obtain ⟨hm, _⟩ := findEnt_some he
  obtain ⟨g, hg, hge⟩ := hst.seg_of hm
  obtain ⟨t1, t2⟩ := hst.in_seg hg hm hge
  have hsg := w.segs
  unfold segsOk at hsg
  simp only [Bool.and_eq_true, List.all_eq_true, decide_eq_true_eq] at hsg
  have := hsg.2 g hg
  simp only [U64]; omega

/-! ### the free list by its parts -/

/-- `freeList` as a function of `top`, `dv` and the binned chunks -/
def fr_fl (top dv : Nat) (b : List Nat) : List Nat :=
  (if top = 0 then [] else [top]) ++ ((if dv = 0 then [] else [dv]) ++ b)

theorem fr_fl_eq (h : Heap) : freeList h = fr_fl h.top h.dv (binned h) := rfl

theorem fr_fl_top {top dv : Nat} {b : List Nat} (h : top ≠ 0) : fr_fl top dv b = top :: fr_fl 0 dv b := by
  simp [fr_fl, h]

theorem fr_fl_dv {top dv : Nat} {b : List Nat} (h : dv ≠ 0) : fr_fl top dv b ~ dv :: fr_fl top 0 b := by
  simp only [fr_fl, if_neg h, if_true, List.nil_append]
  split
  · simp
  · simp only [List.cons_append, List.nil_append]
    exact List.Perm.swap _ _ _

theorem fr_fl_perm {top dv : Nat} {b b' : List Nat} (h : b ~ b') : fr_fl top dv b ~ fr_fl top dv b' :=
  List.Perm.append_left _ (List.Perm.append_left _ h)

theorem fr_fl_cons {top dv c : Nat} {b : List Nat} : fr_fl top dv (c :: b) ~ c :: fr_fl top dv b := by
  unfold fr_fl
  rw [List.perm_iff_count]; intro v
  simp only [List.count_cons, List.count_append]; omega

theorem fr_unl_top {s : St} (w : WFS s) {h : Heap} {rem : List Nat} (u : fr_Unl s h rem) (h0 : s.h.top ≠ 0) :
    s.h.top ∉ rem := by
  obtain ⟨_, _, hdis⟩ := List.nodup_append.1 (fr_unl_nodup w u)
  intro hr
  exact hdis _ hr _ (mem_freeList.2 (Or.inl ⟨by rw [u.frame.top]; exact h0, u.frame.top.symm⟩)) rfl

theorem fr_unl_dv {s : St} (w : WFS s) {h : Heap} {rem : List Nat} (u : fr_Unl s h rem) (h0 : s.h.dv ≠ 0) :
    s.h.dv ∉ rem := by
  obtain ⟨_, _, hdis⟩ := List.nodup_append.1 (fr_unl_nodup w u)
  intro hr
  exact hdis _ hr _ (mem_freeList.2 (Or.inr (Or.inl ⟨by rw [u.frame.dv]; exact h0, u.frame.dv.symm⟩))) rfl

/-! ## 5. the window of a `free` and the three ways it ends -/

/-- the window of the table a `free` works on: the run `a :: as` that becomes one free chunk (the user
chunk at `p` with its free neighbours) and the header `y` after it -/
structure fr_Win (s : St) (pre post : List Ent) (a : Ent) (as : List Ent) (y : Ent) (g : Seg) (p : Nat) : Prop where
  hes : s.h.ents = pre ++ (a :: (as ++ [y])) ++ post
  hg : g ∈ s.segs
  hgm : ∀ e ∈ a :: (as ++ [y]), inSeg g e = true
  hc : contig (a :: (as ++ [y])) a.addr = true
  pin : a.pin = true
  a8 : a.size ≠ 8
  cin : ∀ e ∈ a :: as, e.cin = true → e.addr = p
  pm : ∃ e ∈ a :: as, e.addr = p

theorem fr_Win.mem {s : St} {pre post : List Ent} {a y : Ent} {as : List Ent} {g : Seg} {p : Nat}
    (W : fr_Win s pre post a as y g p) : ∀ e ∈ a :: (as ++ [y]), e ∈ s.h.ents := by
  intro e he
  rw [W.hes]
  exact List.mem_append.2 (Or.inl (List.mem_append.2 (Or.inr he)))

theorem fr_Win.mem_run {s : St} {pre post : List Ent} {a y : Ent} {as : List Ent} {g : Seg} {p : Nat}
    (W : fr_Win s pre post a as y g p) : ∀ e ∈ a :: as, e ∈ s.h.ents :=
  fun e he => W.mem e (fr_mem_run.2 (Or.inl he))

theorem fr_Win.bounds {s : St} (w : WFS s) {pre post : List Ent} {a y : Ent} {as : List Ent} {g : Seg} {p : Nat}
    (W : fr_Win s pre post a as y g p) : fr_Bounds pre a as y post := by
  have := w.ents; rw [W.hes] at this; exact fr_bounds this

/-- no header of the run has both flag bits clear -/
theorem fr_Win.nff {s : St} (w : WFS s) {pre post : List Ent} {a y : Ent} {as : List Ent} {g : Seg} {p : Nat}
    (W : fr_Win s pre post a as y g p) : ∀ e ∈ a :: as, e.cin = true ∨ e.pin = true := by
  intro e he
  cases hc : e.cin with
  | true => exact Or.inl rfl
  | false =>
    cases hp : e.pin with
    | true => exact Or.inr rfl
    | false =>
      exfalso
      obtain ⟨g', hg', hge', hend⟩ := fr_ff_end w (W.mem_run e he) hc hp
      have : g' = g := gl_seg_unique w.segsDisjoint hg' W.hg hge' (W.hgm e (fr_mem_run.2 (Or.inl he))) rfl
      subst this
      have := inSeg_iff.1 (W.hgm y (fr_mem_run.2 (Or.inr rfl)))
      have := ((W.bounds w).2.1 e he).2.1
      omega

/-- an in-use header is not on the free list -/
theorem fr_cin_not_listed {s : St} (w : WFS s) {e : Ent} (he : e ∈ s.h.ents) (hc : e.cin = true) :
    e.addr ∉ freeList s.h := by
  intro hm
  have := ((freeListOk_iff s.h).1 w.freeList).2.2 _ hm
  obtain ⟨e', he', hf⟩ := isFreeAt_iff.1 this
  rw [entsOk_find e he w.ents] at he'
  injection he' with he'
  subst he'
  rw [(isFree_iff.1 hf).1] at hc; cases hc

/-- **the run ends in an in-use header and the merged chunk goes to a bin** (`free-plain`, `free-fwd`,
`dispose-bin`, `dispose-fwd-bin`, with or without a binned predecessor) -/
theorem fr_insert_wfs {s : St} (w : WFS s) {pre post : List Ent} {a y : Ent} {as : List Ent} {g : Seg} {p : Nat}
    (W : fr_Win s pre post a as y g p) {h2 : Heap} {rem : List Nat} (u : fr_Unl s h2 rem)
    (hfree : ∀ e ∈ a :: as, isFree e = true → e.addr ∈ rem)
    (hrem : ∀ v ∈ rem, ∃ e ∈ a :: as, isFree e = true ∧ e.addr = v)
    (hP : a.addr ∈ rem ∨ a.cin = true)
    (hyc : y.cin = true) (hy8 : y.size ≠ 8) {S : Nat} (hS : y.addr = a.addr + S)
    {h3 H : Heap}
    (hh3 : h3 = { h2 with ents := pre ++ [{ addr := a.addr, size := S, cin := false, pin := true, pfoot := a.pfoot },
      { y with pin := false, pfoot := S }] ++ post })
    {t : String} (hins : insert_chunk (h3.tag t) a.addr S = .ok H) :
    WFS { s with h := H } ∧ FreeAtTab s.h.ents H.ents p := by
  subst hh3
  have hb := W.bounds w
  have hnff := W.nff w
  have ham : a ∈ s.h.ents := W.mem_run a List.mem_cons_self
  have hym : y ∈ s.h.ents := W.mem y (fr_mem_run.2 (Or.inr rfl))
  have hys := fr_user_shape w hym hy8
  have hash := fr_user_shape w ham W.a8
  have hne : s.segs ≠ [] := fun h => by have := W.hg; rw [h] at this; cases this
  obtain ⟨_, _, _, xt, _, _, _, htes, hxta, hxtf, _, _, _, _, _, _, _, htop0, _, _⟩ := w.top_parts (w.topsize_ne W.hg)
  have hxtm : xt ∈ s.h.ents := by rw [htes]; simp
  have hrt := fr_unl_top w u htop0
  have hfree_top : ∀ e ∈ a :: as, isFree e = true → e.addr ≠ s.h.top := fun e he hf heq => hrt (heq ▸ hfree e he hf)
  have hfree_dv : ∀ e ∈ a :: as, isFree e = true → e.addr ≠ s.h.dv := by
    intro e he hf heq
    by_cases h0 : s.h.dv = 0
    · have := w.addr_pos (W.mem_run e he); omega
    · exact fr_unl_dv w u h0 (heq ▸ hfree e he hf)
  have hatop : a.addr ≠ s.h.top := by
    intro heq
    rcases hP with h | h
    · exact hrt (heq ▸ h)
    · have := entsOk_addr_inj w.ents ham hxtm (by omega)
      subst this
      rw [(isFree_iff.1 hxtf).1] at h; cases h
  have hyf : isFree y = false := by simp [isFree, hyc]
  obtain ⟨hst, fat, fs', hfm⟩ := fr_merge_table w W.hes W.hg W.hgm W.hc W.pin W.a8 hys
    (m := { addr := a.addr, size := S, cin := false, pin := true, pfoot := a.pfoot })
    (y' := { y with pin := false, pfoot := S }) (top' := s.h.top)
    rfl (by simp only; omega) rfl rfl rfl rfl rfl rfl
    (by simp [linkOk, isFree, hatop, hyc]) (fun _ _ => Iff.rfl) W.cin W.pm
  have f := insert_chunk_frame hins
  have hHents : H.ents = pre ++ [{ addr := a.addr, size := S, cin := false, pin := true, pfoot := a.pfoot },
      { y with pin := false, pfoot := S }] ++ post := f.ents
  have hok' : entsOk H.ents = true := by rw [hHents]; exact hst.ents
  have hHtop : H.top = s.h.top := f.top.trans u.frame.top
  have hfreeW : ∀ e ∈ a :: (as ++ [y]), isFree e = true → e ∈ a :: as := by
    intro e he hf
    rcases fr_mem_run.1 he with h | h
    · exact h
    · subst h; rw [hyf] at hf; cases hf
  refine ⟨wfs_of_parts w (by rw [hHents, hHtop]; exact hst) ?_ ?_ ?_ ?_ ?_, by rw [hHents]; exact fat⟩
  · refine fr_freeListOk w W.hes hHents hok' (rem := rem) (R := freeList h2) ?_ fs' u.fl
      (by have := insert_chunk_freeList hins; exact this) ?_
    · intro v
      rw [mem_freeSet]
      constructor
      · rintro ⟨e, he, hf, hea⟩
        exact hea ▸ hfree e (hfreeW e he hf) hf
      · intro hv
        obtain ⟨e, he, hf, hea⟩ := hrem v hv
        exact ⟨e, fr_mem_run.2 (Or.inl he), hf, hea⟩
    · rcases hP with h | h
      · exact Or.inl h
      · exact Or.inr (fr_cin_not_listed w ham h)
  all_goals
    have hbf := fr_bins_frame w u
      (H := Heap.tag { h2 with ents := pre ++ [{ addr := a.addr, size := S, cin := false, pin := true, pfoot := a.pfoot },
        { y with pin := false, pfoot := S }] ++ post } t) W.hes rfl hst.ents rfl rfl
      (fun e he hf => Or.inl (hfree e (hfreeW e he hf) hf))
    have hbins := insert_chunk_binsOk hins (by omega) (fr_entsLt w hst) (sizeAt_iff.2 ⟨_, hfm, rfl⟩) hbf.1 hbf.2
  · exact hbins.1
  · exact hbins.2
  · exact dvOk_window w W.hes hHents hok' (f.dv.trans u.frame.dv) (f.dvsize.trans u.frame.dvsize)
      (fun e he hf => hfree_dv e (hfreeW e he hf) hf)
  · refine topOk_window w W.hes hHents hok' hne hHtop (f.topsize.trans u.frame.topsize) ?_
    intro e he
    rcases fr_mem_run.1 he with h | h
    · exact ⟨hfree_top e h, hnff e h⟩
    · subst h; exact ⟨fun hf => (by rw [hyf] at hf; cases hf), Or.inl hyc⟩

/-- **the run ends in an in-use header and the merged chunk is the new `dv`** (`free-into-dv`,
`free-fwd-dv`, `free-back-dv` and the `dispose-*` twins): the old `dv` is one of the headers of the run -/
theorem fr_dv_wfs {s : St} (w : WFS s) {pre post : List Ent} {a y : Ent} {as : List Ent} {g : Seg} {p : Nat}
    (W : fr_Win s pre post a as y g p) {h2 : Heap} {rem : List Nat} (u : fr_Unl s h2 rem)
    (hdvs : s.h.dvsize ≠ 0)
    (hfree : ∀ e ∈ a :: as, isFree e = true → e.addr ∈ rem ∨ e.addr = s.h.dv)
    (hrem : ∀ v ∈ rem, ∃ e ∈ a :: as, isFree e = true ∧ e.addr = v)
    (hdvin : ∃ e ∈ a :: as, e.addr = s.h.dv)
    (hP : a.addr ∈ rem ∨ a.addr = s.h.dv ∨ a.cin = true)
    (hyc : y.cin = true) (hy8 : y.size ≠ 8) {S : Nat} (hS : y.addr = a.addr + S)
    {H : Heap}
    (hi : HeapIs H (pre ++ [{ addr := a.addr, size := S, cin := false, pin := true, pfoot := a.pfoot },
      { y with pin := false, pfoot := S }] ++ post) h2.sbins h2.tbins a.addr S s.h.top s.h.topsize) :
    WFS { s with h := H } ∧ FreeAtTab s.h.ents H.ents p := by
  have hb := W.bounds w
  have hnff := W.nff w
  have ham : a ∈ s.h.ents := W.mem_run a List.mem_cons_self
  have hym : y ∈ s.h.ents := W.mem y (fr_mem_run.2 (Or.inr rfl))
  have hys := fr_user_shape w hym hy8
  have hne : s.segs ≠ [] := fun h => by have := W.hg; rw [h] at this; cases this
  obtain ⟨_, _, _, xt, _, _, _, htes, hxta, hxtf, _, _, _, _, _, _, _, htop0, _, _⟩ := w.top_parts (w.topsize_ne W.hg)
  have hxtm : xt ∈ s.h.ents := by rw [htes]; simp
  obtain ⟨xd, hxdm, hxda, hxdf, hxds, hd32, hdv0, hdvtop⟩ := w.dv_parts hdvs
  obtain ⟨ed, hedm, heda⟩ := hdvin
  have : ed = xd := entsOk_addr_inj w.ents (W.mem_run ed hedm) hxdm (by omega)
  subst this
  have hS32 : 32 ≤ S := by
    have := hb.2.1 ed hedm
    omega
  have hrt := fr_unl_top w u htop0
  have hfree_top : ∀ e ∈ a :: as, isFree e = true → e.addr ≠ s.h.top := by
    intro e he hf heq
    rcases hfree e he hf with h | h
    · exact hrt (heq ▸ h)
    · exact hdvtop (h.symm.trans heq)
  have hatop : a.addr ≠ s.h.top := by
    intro heq
    rcases hP with h | h | h
    · exact hrt (heq ▸ h)
    · exact hdvtop (h.symm.trans heq)
    · have := entsOk_addr_inj w.ents ham hxtm (by omega)
      subst this
      rw [(isFree_iff.1 hxtf).1] at h; cases h
  have hyf : isFree y = false := by simp [isFree, hyc]
  obtain ⟨hst, fat, fs', hfm⟩ := fr_merge_table w W.hes W.hg W.hgm W.hc W.pin W.a8 hys
    (m := { addr := a.addr, size := S, cin := false, pin := true, pfoot := a.pfoot })
    (y' := { y with pin := false, pfoot := S }) (top' := s.h.top)
    rfl (by simp only; omega) rfl rfl rfl rfl rfl rfl
    (by simp [linkOk, isFree, hatop, hyc]) (fun _ _ => Iff.rfl) W.cin W.pm
  have hok' : entsOk H.ents = true := by rw [hi.ents]; exact hst.ents
  have hfreeW : ∀ e ∈ a :: (as ++ [y]), isFree e = true → e ∈ a :: as := by
    intro e he hf
    rcases fr_mem_run.1 he with h | h
    · exact h
    · subst h; rw [hyf] at hf; cases hf
  have ha0 : a.addr ≠ 0 := by have := w.addr_pos ham; omega
  refine ⟨wfs_of_parts w (by rw [hi.ents, hi.top]; exact hst) ?_ ?_ ?_ ?_ ?_, by rw [hi.ents]; exact fat⟩
  · refine fr_freeListOk w W.hes hi.ents hok' (rem := rem ++ [s.h.dv]) (R := fr_fl s.h.top 0 (binned h2)) ?_ fs' ?_ ?_ ?_
    · intro v
      rw [mem_freeSet]
      constructor
      · rintro ⟨e, he, hf, hea⟩
        rcases hfree e (hfreeW e he hf) hf with h | h
        · exact List.mem_append.2 (Or.inl (hea ▸ h))
        · exact List.mem_append.2 (Or.inr (by simp [← hea, h]))
      · intro hv
        rcases List.mem_append.1 hv with hv | hv
        · obtain ⟨e, he, hf, hea⟩ := hrem v hv
          exact ⟨e, fr_mem_run.2 (Or.inl he), hf, hea⟩
        · simp only [List.mem_singleton] at hv
          exact ⟨ed, fr_mem_run.2 (Or.inl hedm), hxdf, by omega⟩
    · refine u.fl.trans ?_
      rw [fr_fl_eq h2, u.frame.top, u.frame.dv]
      have := List.Perm.append_left rem (fr_fl_dv (top := s.h.top) (b := binned h2) hdv0)
      simpa using this
    · rw [fr_fl_eq H, hi.top, hi.dv, binned_congr hi.sbins hi.tbins]
      exact fr_fl_dv ha0
    · rcases hP with h | h | h
      · exact Or.inl (List.mem_append.2 (Or.inl h))
      · exact Or.inl (List.mem_append.2 (Or.inr (by simp [h])))
      · exact Or.inr (fr_cin_not_listed w ham h)
  all_goals
    have hbf := fr_bins_frame w u (H := H) W.hes hi.ents hok' hi.sbins hi.tbins
      (fun e he hf => by
        rcases hfree e (hfreeW e he hf) hf with h | h
        · exact Or.inl h
        · exact Or.inr (Or.inr h))
  · exact hbf.1
  · exact hbf.2
  · unfold dvOk
    rw [hi.dv, hi.dvsize, if_neg ha0, hi.ents, hfm]
    simp [isFree]; omega
  · refine topOk_window w W.hes hi.ents hok' hne hi.top hi.topsize ?_
    intro e he
    rcases fr_mem_run.1 he with h | h
    · exact ⟨hfree_top e h, hnff e h⟩
    · subst h; exact ⟨fun hf => (by rw [hyf] at hf; cases hf), Or.inl hyc⟩

/-- **the run ends in the old `top`, the merged chunk is the new `top`** (`free-into-top`,
`dispose-into-top`); `dv` is reset when it was the merged predecessor -/
theorem fr_top_wfs {s : St} (w : WFS s) {pre post : List Ent} {a y : Ent} {as : List Ent} {g : Seg} {p : Nat}
    (W : fr_Win s pre post a as y g p) {h2 : Heap} {rem : List Nat} (u : fr_Unl s h2 rem)
    (hfree : ∀ e ∈ a :: as, isFree e = true → e.addr ∈ rem ∨ e.addr = s.h.top ∨ e.addr = s.h.dv)
    (hrem : ∀ v ∈ rem, ∃ e ∈ a :: as, isFree e = true ∧ e.addr = v)
    (htopin : ∃ e ∈ a :: as, e.addr = s.h.top)
    (hP : a.addr ∈ rem ∨ a.addr = s.h.dv ∨ a.cin = true)
    (hyc : y.cin = false) (hyp : y.pin = false) {S : Nat} (hS : y.addr = a.addr + S)
    {H : Heap} {dv' dvs' : Nat}
    (hi : HeapIs H (pre ++ [{ addr := a.addr, size := S, cin := false, pin := true, pfoot := a.pfoot }, y] ++ post)
      h2.sbins h2.tbins dv' dvs' a.addr S)
    (hdv : ((∃ e ∈ a :: as, e.addr = s.h.dv) ∧ s.h.dv ≠ 0 ∧ dv' = 0 ∧ dvs' = 0) ∨
      ((∀ e ∈ a :: as, e.addr ≠ s.h.dv) ∧ dv' = s.h.dv ∧ dvs' = s.h.dvsize)) :
    WFS { s with h := H } ∧ FreeAtTab s.h.ents H.ents p := by
  have hb := W.bounds w
  have ham : a ∈ s.h.ents := W.mem_run a List.mem_cons_self
  have hym : y ∈ s.h.ents := W.mem y (fr_mem_run.2 (Or.inr rfl))
  have hys := shapeOk_free w.shape hym hyc
  obtain ⟨g0, rest, tpre, xt, f, tpost, hsegs, htes, hxta, hxtf, hxts, hfa, hfc, hfp, hfs80, hgb, hgend, htop0, hgxt, hgf⟩ :=
    w.top_parts (w.topsize_ne W.hg)
  have hg0 : g0 ∈ s.segs := by rw [hsegs]; exact List.mem_cons_self
  have hxtm : xt ∈ s.h.ents := by rw [htes]; simp
  have hfm0 : f ∈ s.h.ents := by rw [htes]; simp
  obtain ⟨et, hetm, heta⟩ := htopin
  have : et = xt := entsOk_addr_inj w.ents (W.mem_run et hetm) hxtm (by omega)
  subst this
  have hgg : g = g0 := gl_seg_unique w.segsDisjoint W.hg hg0 (W.hgm et (fr_mem_run.2 (Or.inl hetm))) hgxt rfl
  subst hgg
  -- `y` is the foot word
  have hyf0 : y = f := by
    obtain ⟨g', hg', hgy', hyend⟩ := fr_ff_end w hym hyc hyp
    have : g' = g := gl_seg_unique w.segsDisjoint hg' W.hg hgy' (W.hgm y (fr_mem_run.2 (Or.inr rfl))) rfl
    subst this
    have hsep := entsOk_sep w.ents
    have hypos := entsOk_pos w.ents y hym
    rcases Nat.lt_trichotomy y.addr f.addr with h | h | h
    · have := hsep y hym f hfm0 h; omega
    · exact entsOk_addr_inj w.ents hym hfm0 h
    · have := hsep f hfm0 y hym h; omega
  have hbt := hb.2.1 et hetm
  have hdvtop := w.dv_ne_top htop0
  have hrt := fr_unl_top w u htop0
  have hyf : isFree y = false := by simp [isFree, hyp]
  have hin_a := w.struct.in_seg W.hg ham (W.hgm a List.mem_cons_self)
  obtain ⟨hst, fat, fs', hfm⟩ := fr_merge_table w W.hes W.hg W.hgm W.hc W.pin W.a8 hys
    (m := { addr := a.addr, size := S, cin := false, pin := true, pfoot := a.pfoot })
    (y' := y) (top' := a.addr)
    rfl (by simp only; omega) rfl rfl rfl rfl rfl hyp
    (by simp [linkOk, isFree, hyc, hyp])
    (by
      intro e he
      rcases List.mem_append.1 he with he | he
      · have := hb.1 e he
        constructor <;> intro h <;> omega
      · have := hb.2.2.2 e he
        have := hb.2.2.1
        constructor <;> intro h <;> omega)
    W.cin W.pm
  have hok' : entsOk H.ents = true := by rw [hi.ents]; exact hst.ents
  have hfreeW : ∀ e ∈ a :: (as ++ [y]), isFree e = true → e ∈ a :: as := by
    intro e he hf
    rcases fr_mem_run.1 he with h | h
    · exact h
    · subst h; rw [hyf] at hf; cases hf
  have ha0 : a.addr ≠ 0 := by have := w.addr_pos ham; omega
  have hfy : findEnt H.ents y.addr = some y := by
    rw [hi.ents]; exact entsOk_find y (by simp) hst.ents
  refine ⟨wfs_of_parts w (by rw [hi.ents, hi.top]; exact hst) ?_ ?_ ?_ ?_ ?_, by rw [hi.ents]; exact fat⟩
  · rcases hdv with ⟨⟨ed, hedm, heda⟩, hdv0, hd1, hd2⟩ | ⟨hnd, hd1, hd2⟩
    · -- `dv` is part of the run
      have hedf : isFree ed = true := by
        have hfl : s.h.dv ∈ freeList s.h := mem_freeList.2 (Or.inr (Or.inl ⟨hdv0, rfl⟩))
        have := ((freeListOk_iff s.h).1 w.freeList).2.2 _ hfl
        obtain ⟨e', he', hf⟩ := isFreeAt_iff.1 this
        rw [← heda, entsOk_find ed (W.mem_run ed hedm) w.ents] at he'
        injection he' with he'
        subst he'
        exact hf
      refine fr_freeListOk w W.hes hi.ents hok' (rem := rem ++ [s.h.top, s.h.dv]) (R := fr_fl 0 0 (binned h2))
        ?_ fs' ?_ ?_ ?_
      · intro v
        rw [mem_freeSet]
        constructor
        · rintro ⟨e, he, hf, hea⟩
          rcases hfree e (hfreeW e he hf) hf with h | h | h
          · exact List.mem_append.2 (Or.inl (hea ▸ h))
          · exact List.mem_append.2 (Or.inr (by simp [← hea, h]))
          · exact List.mem_append.2 (Or.inr (by simp [← hea, h]))
        · intro hv
          rcases List.mem_append.1 hv with hv | hv
          · obtain ⟨e, he, hf, hea⟩ := hrem v hv
            exact ⟨e, fr_mem_run.2 (Or.inl he), hf, hea⟩
          · simp only [List.mem_cons, List.not_mem_nil, or_false] at hv
            rcases hv with hv | hv
            · exact ⟨et, fr_mem_run.2 (Or.inl hetm), hxtf, by omega⟩
            · exact ⟨ed, fr_mem_run.2 (Or.inl hedm), hedf, by omega⟩
      · refine u.fl.trans ?_
        rw [fr_fl_eq h2, u.frame.top, u.frame.dv, fr_fl_top htop0]
        have h1 : s.h.top :: fr_fl 0 s.h.dv (binned h2) ~ s.h.top :: s.h.dv :: fr_fl 0 0 (binned h2) :=
          List.Perm.cons _ (fr_fl_dv hdv0)
        have := List.Perm.append_left rem h1
        simpa using this
      · rw [fr_fl_eq H, hi.top, hi.dv, binned_congr hi.sbins hi.tbins, hd1, fr_fl_top ha0]
      · rcases hP with h | h | h
        · exact Or.inl (List.mem_append.2 (Or.inl h))
        · exact Or.inl (List.mem_append.2 (Or.inr (by simp [h])))
        · exact Or.inr (fr_cin_not_listed w ham h)
    · refine fr_freeListOk w W.hes hi.ents hok' (rem := rem ++ [s.h.top]) (R := fr_fl 0 s.h.dv (binned h2))
        ?_ fs' ?_ ?_ ?_
      · intro v
        rw [mem_freeSet]
        constructor
        · rintro ⟨e, he, hf, hea⟩
          rcases hfree e (hfreeW e he hf) hf with h | h | h
          · exact List.mem_append.2 (Or.inl (hea ▸ h))
          · exact List.mem_append.2 (Or.inr (by simp [← hea, h]))
          · exact absurd h (hnd e (hfreeW e he hf))
        · intro hv
          rcases List.mem_append.1 hv with hv | hv
          · obtain ⟨e, he, hf, hea⟩ := hrem v hv
            exact ⟨e, fr_mem_run.2 (Or.inl he), hf, hea⟩
          · simp only [List.mem_singleton] at hv
            exact ⟨et, fr_mem_run.2 (Or.inl hetm), hxtf, by omega⟩
      · refine u.fl.trans ?_
        rw [fr_fl_eq h2, u.frame.top, u.frame.dv, fr_fl_top htop0]
        simp
      · rw [fr_fl_eq H, hi.top, hi.dv, binned_congr hi.sbins hi.tbins, hd1, fr_fl_top ha0]
      · rcases hP with h | h | h
        · exact Or.inl (List.mem_append.2 (Or.inl h))
        · exact absurd h (hnd a List.mem_cons_self)
        · exact Or.inr (fr_cin_not_listed w ham h)
  all_goals
    have hbf := fr_bins_frame w u (H := H) W.hes hi.ents hok' hi.sbins hi.tbins
      (fun e he hf => hfree e (hfreeW e he hf) hf)
  · exact hbf.1
  · exact hbf.2
  · rcases hdv with ⟨_, _, hd1, hd2⟩ | ⟨hnd, hd1, hd2⟩
    · unfold dvOk
      rw [hi.dv, hi.dvsize, hd1, hd2]
      rfl
    · exact dvOk_window w W.hes hi.ents hok' (hi.dv.trans hd1) (hi.dvsize.trans hd2)
        (fun e he hf => hnd e (hfreeW e he hf))
  · have hrec := gl_head_recAt w hsegs
    unfold topOk
    simp only [hsegs]
    rw [hi.top, hi.topsize, hi.ents, hfm, ← hS, ← hi.ents, hfy]
    subst hyf0
    simp only [isFree, hyc, hyp, top_foot_size_eq, Bool.and_eq_true, decide_eq_true_eq, Bool.not_false,
      Bool.and_self, Bool.true_and]
    refine ⟨⟨⟨⟨⟨⟨by omega, by omega⟩, by omega⟩, by omega⟩, hrec⟩, ?_⟩, hfs80⟩
    trivial

/-! ### building windows -/

theorem fr_contig_snoc {l : List Ent} {n y : Ent} : ∀ {q : Nat}, contig (l ++ [n]) q = true →
    y.addr = n.addr + n.size → contig (l ++ [n] ++ [y]) q = true := by
  induction l with
  | nil =>
    intro q h hy
    simp only [List.nil_append, contig, Bool.and_true, decide_eq_true_eq] at h
    simp only [List.nil_append, List.cons_append, contig, Bool.and_true, Bool.and_eq_true, decide_eq_true_eq]
    omega
  | cons c l ih =>
    intro q h hy
    simp only [List.cons_append, contig, Bool.and_eq_true, decide_eq_true_eq] at h ⊢
    exact ⟨h.1, ih h.2 hy⟩

/-- the window of a chunk `x` whose predecessor is in use -/
theorem fr_win0 {s : St} {pre post : List Ent} {x n : Ent} {g : Seg} (hes : s.h.ents = pre ++ x :: n :: post)
    (hg : g ∈ s.segs) (hgx : inSeg g x = true) (hgn : inSeg g n = true) (hna : n.addr = x.addr + x.size)
    (hxp : x.pin = true) (hx8 : x.size ≠ 8) : fr_Win s pre post x [] n g x.addr := by
  refine ⟨by rw [hes]; simp, hg, ?_, ?_, hxp, hx8, ?_, ⟨x, List.mem_cons_self, rfl⟩⟩
  · intro e he
    simp only [List.nil_append, List.mem_cons, List.not_mem_nil, or_false] at he
    rcases he with rfl | rfl <;> assumption
  · simp only [List.nil_append, contig, Bool.and_true, Bool.and_eq_true, decide_eq_true_eq, true_and]
    omega
  · intro e he _
    simp only [List.mem_cons, List.not_mem_nil, or_false] at he
    rw [he]

/-- the window of a chunk `x` whose predecessor `wv` is free -/
theorem fr_win1 {s : St} (w : WFS s) {pre post : List Ent} {wv x n : Ent} {g : Seg}
    (hes : s.h.ents = pre ++ wv :: x :: n :: post) (hg : g ∈ s.segs) (hgw : inSeg g wv = true)
    (hgx : inSeg g x = true) (hgn : inSeg g n = true) (hxa : x.addr = wv.addr + wv.size)
    (hna : n.addr = x.addr + x.size) (hwf : isFree wv = true) : fr_Win s pre post wv [x] n g x.addr := by
  obtain ⟨hwc, hwp⟩ := isFree_iff.1 hwf
  have hwm : wv ∈ s.h.ents := by rw [hes]; simp
  have := shapeOk_free w.shape hwm hwc
  refine ⟨by rw [hes]; simp, hg, ?_, ?_, hwp, by omega, ?_, ⟨x, by simp, rfl⟩⟩
  · intro e he
    simp only [List.cons_append, List.nil_append, List.mem_cons, List.not_mem_nil, or_false] at he
    rcases he with rfl | rfl | rfl <;> assumption
  · simp only [List.cons_append, List.nil_append, contig, Bool.and_true, Bool.and_eq_true, decide_eq_true_eq, true_and]
    omega
  · intro e he hc
    simp only [List.mem_cons, List.not_mem_nil, or_false] at he
    rcases he with rfl | rfl
    · rw [hwc] at hc; cases hc
    · rfl

/-- the free successor `n` joins the run -/
theorem fr_win_snoc {s : St} {pre post : List Ent} {a n y : Ent} {as : List Ent} {g : Seg} {p : Nat}
    (W : fr_Win s pre (y :: post) a as n g p) (hnc : n.cin = false) (hgy : inSeg g y = true)
    (hya : y.addr = n.addr + n.size) : fr_Win s pre post a (as ++ [n]) y g p := by
  refine ⟨by rw [W.hes]; simp, W.hg, ?_, ?_, W.pin, W.a8, ?_, ?_⟩
  · intro e he
    rcases fr_mem_run.1 he with h | h
    · exact W.hgm e (by simpa using h)
    · subst h; exact hgy
  · have := fr_contig_snoc (l := a :: as) (n := n) (y := y) (q := a.addr) W.hc hya
    simpa using this
  · intro e he hc
    rcases fr_mem_run.1 (by simpa using he) with h | h
    · exact W.cin e h hc
    · subst h; rw [hnc] at hc; cases hc
  · obtain ⟨e, he, hea⟩ := W.pm
    exact ⟨e, by simp only [List.mem_cons, List.mem_append] at he ⊢; rcases he with h | h <;> simp [h], hea⟩

theorem fr_pin_false_eta {y : Ent} (h : y.pin = false) (v : Nat) :
    ({ y with pfoot := v } : Ent) = { y with pin := false, pfoot := v } := by
  cases y; simp_all

end TinyVerif.Dl
