/- Helper lemmas for C07, the argument iterators as stateful objects: `core`'s default `nth` / `skip` / `step_by` /
`fold` bodies (Model/Env.lean `nthWith` …) over ANY `next` that walks a list `l` by a cursor behave as a plain
slice iterator over `l`; `ArgsOs::next` / `Args::next` on a memory holding the initial stack are such a `next`. -/
import TinyVerif.Proofs.EnvLemmas
namespace TinyVerif.Env
open TinyVerif.Start

/-- `nx` is the `next` of a cursor over `l` (`n = l.length` items): at position `i` it yields `l[i]` and moves on,
    past the end it yields `None` and stays -/
def NextSpec {α : Type} (nx : Nx α) (l : List α) (n : Nat) : Prop :=
  ∀ i, nx ⟨i, n⟩ = .ok (l[i]?, ⟨if i < n then i + 1 else i, n⟩)

/-- the items a plain slice iterator's `step_by(k)` yields: the first, then every `k`-th after it -/
def everyKth {α : Type} (k : Nat) : List α → List α
  | [] => []
  | x :: xs => x :: everyKth k (xs.drop (k - 1))
termination_by l => l.length
decreasing_by simp only [List.length_drop, List.length_cons]; omega

theorem everyKth_nil {α : Type} (k : Nat) : everyKth k ([] : List α) = [] := by
  rw [everyKth]

theorem everyKth_cons {α : Type} (k : Nat) (x : α) (xs : List α) :
    everyKth k (x :: xs) = x :: everyKth k (xs.drop (k - 1)) := by
  rw [everyKth]

theorem drop_eq_cons_get {α : Type} (l : List α) (j : Nat) (h : j < l.length) :
    l.drop j = l[j] :: l.drop (j + 1) := by
  simp

theorem lastOf_eq {α : Type} : ∀ l : List α, lastOf l = l.getLast?
  | [] => rfl
  | [_] => rfl
  | _ :: y :: r => by
    rw [lastOf, lastOf_eq (y :: r)]
    simp [List.getLast?_cons_cons]

section cursor
variable {α : Type} {nx : Nx α} {l : List α} {n : Nat}

theorem nthWith_eq (H : NextSpec nx l n) (hn : l.length = n) :
    ∀ (k i : Nat), i ≤ n → nthWith nx k ⟨i, n⟩ = .ok (l[i + k]?, ⟨min (i + k + 1) n, n⟩)
  | 0, i, hi => by
    rw [nthWith, H i]
    by_cases h : i < n
    · simp [h, Nat.min_eq_left (show i + 1 ≤ n by omega)]
    · have : i = n := by omega
      subst this
      simp
  | k + 1, i, hi => by
    rw [nthWith, H i, R.bind_ok]
    by_cases h : i < n
    · have hl : i < l.length := by omega
      simp only [List.getElem?_eq_getElem hl, if_pos h]
      rw [nthWith_eq H hn k (i + 1) (by omega)]
      rw [show i + 1 + k = i + (k + 1) by omega]
    · have : i = n := by omega
      subst this
      have hnone : l[l.length]? = none := by simp
      have hnone' : l[l.length + (k + 1)]? = none := by simp
      simp only [hn ▸ hnone, hn ▸ hnone', Nat.lt_irrefl, if_false]
      rw [Nat.min_eq_right (by omega)]

theorem skipNextWith_eq (H : NextSpec nx l n) (hn : l.length = n) (k i : Nat) (hi : i ≤ n) :
    skipNextWith nx k ⟨i, n⟩ = .ok (l[i + k]?, ⟨min (i + k + 1) n, n⟩) := by
  unfold skipNextWith
  by_cases hk : k > 0
  · rw [if_pos hk]; exact nthWith_eq H hn k i hi
  · have : k = 0 := by omega
    subst this
    rw [if_neg hk]
    exact nthWith_eq H hn 0 i hi

theorem drainWith_eq (H : NextSpec nx l n) (hn : l.length = n) :
    ∀ (f i : Nat), i ≤ n → n - i < f → drainWith nx f ⟨i, n⟩ = .ok (l.drop i, ⟨n, n⟩)
  | 0, _, _, hf => by omega
  | f + 1, i, hi, hf => by
    rw [drainWith, H i, R.bind_ok]
    by_cases h : i < n
    · have hl : i < l.length := by omega
      simp only [List.getElem?_eq_getElem hl, if_pos h]
      rw [drainWith_eq H hn f (i + 1) (by omega) (by omega), R.bind_ok, drop_eq_cons_get l i hl]
    · have : i = n := by omega
      subst this
      have hnone : l[l.length]? = none := by simp
      simp only [hn ▸ hnone, Nat.lt_irrefl, if_false]
      rw [← hn, List.drop_length]

theorem stepLoopWith_eq (H : NextSpec nx l n) (hn : l.length = n) (sm1 : Nat) :
    ∀ (f : Nat) (first : Bool) (i : Nat), i ≤ n → n - i < f →
      stepLoopWith nx sm1 f first ⟨i, n⟩ = .ok (everyKth (sm1 + 1) (l.drop (i + if first then 0 else sm1)), ⟨n, n⟩)
  | 0, _, _, _, hf => by omega
  | f + 1, first, i, hi, hf => by
    rw [stepLoopWith, nthWith_eq H hn _ i hi, R.bind_ok]
    generalize hj : (i + if first = true then 0 else sm1) = j
    by_cases h : j < n
    · have hl : j < l.length := by omega
      have hij : i ≤ j := by omega
      simp only [List.getElem?_eq_getElem hl]
      rw [Nat.min_eq_left (show j + 1 ≤ n by omega),
        stepLoopWith_eq H hn sm1 f false (j + 1) (by omega) (by omega), R.bind_ok,
        drop_eq_cons_get l j hl, everyKth_cons, List.drop_drop]
      simp only [Bool.false_eq_true, if_false, Nat.add_sub_cancel]
    · have hl : l.length ≤ j := by omega
      have hnone : l[j]? = none := by simp [hl]
      simp only [hnone]
      rw [List.drop_eq_nil_of_le hl, everyKth_nil, Nat.min_eq_right (by omega)]

end cursor

/-! ## what the arguments passed demand of every call (a plain slice iterator over `l` at position `p`) -/

def specStep {α : Type} (l : List α) (op : ItOp) (p : Nat) : ItOut α × Nat :=
  match op with
  | .next => (.item l[p]?, min (p + 1) l.length)
  | .nth k => (.item l[p + k]?, min (p + k + 1) l.length)
  | .skip k => (.item l[p + k]?, min (p + k + 1) l.length)
  | .stepBy k => (.items (everyKth k (l.drop p)), l.length)
  | .len => (.num (l.length - p), p)
  | .sizeHint => (.hint (l.length - p) (some (l.length - p)), p)
  | .count => (.num (l.length - p), l.length)
  | .last => (.item (l.drop p).getLast?, l.length)
  | .fold => (.items (l.drop p), l.length)

def specRun {α : Type} (l : List α) : List ItOp → Nat → List (ItOut α)
  | [], _ => []
  | op :: rest, p => (specStep l op p).1 :: specRun l rest (specStep l op p).2

/-- well-formed call (`step_by(0)` panics in `core`: `assert!(step != 0)`) -/
def ItOp.wf : ItOp → Prop
  | .stepBy k => 0 < k
  | _ => True

section cursor
variable {α : Type} {nx : Nx α} {l : List α} {n : Nat}

theorem itStep_eq (H : NextSpec nx l n) (hn : l.length = n) (fuel : Nat) (hf : n < fuel) (op : ItOp) (hop : op.wf)
    (i : Nat) (hi : i ≤ n) :
    itStep nx fuel op ⟨i, n⟩ = .ok ((specStep l op i).1, ⟨(specStep l op i).2, n⟩) := by
  cases op with
  | next =>
    have := nthWith_eq H hn 0 i hi
    simp only [nthWith, Nat.add_zero] at this
    simp only [itStep, specStep, this, R.bind_ok, hn]
  | nth k => simp only [itStep, specStep, nthWith_eq H hn k i hi, R.bind_ok, hn]
  | skip k => simp only [itStep, specStep, skipNextWith_eq H hn k i hi, R.bind_ok, hn]
  | stepBy k =>
    have hk : k ≠ 0 := by simp only [ItOp.wf] at hop; omega
    simp only [itStep, specStep, if_neg hk, stepLoopWith_eq H hn (k - 1) fuel true i hi (by omega), R.bind_ok, if_true,
      Nat.add_zero, hn]
    rw [show k - 1 + 1 = k by omega]
  | len =>
    -- `num_args - ind` does not overflow: `ind ≤ num_args`
    have hno : ¬ n < i := by omega
    simp only [itStep, specStep, ArgsOs.len, hn, if_neg hno]
  | sizeHint =>
    have hno : ¬ n < i := by omega
    simp only [itStep, specStep, ArgsOs.len, hn, if_neg hno]
  | count =>
    simp only [itStep, specStep, drainWith_eq H hn fuel i hi (by omega), R.bind_ok, List.length_drop, hn]
  | last =>
    simp only [itStep, specStep, drainWith_eq H hn fuel i hi (by omega), R.bind_ok, lastOf_eq, hn]
  | fold =>
    simp only [itStep, specStep, drainWith_eq H hn fuel i hi (by omega), R.bind_ok, hn]

theorem specStep_le (l : List α) (op : ItOp) (i : Nat) (hi : i ≤ l.length) : (specStep l op i).2 ≤ l.length := by
  cases op <;> simp only [specStep] <;> omega

theorem runOps_eq (H : NextSpec nx l n) (hn : l.length = n) (fuel : Nat) (hf : n < fuel) :
    ∀ (ops : List ItOp) (i : Nat), (∀ op ∈ ops, op.wf) → i ≤ n →
      runOps nx fuel ops ⟨i, n⟩ = .ok (specRun l ops i)
  | [], _, _, _ => rfl
  | op :: rest, i, hops, hi => by
    have h1 := itStep_eq H hn fuel hf op (hops op (by simp)) i hi
    have h2 := runOps_eq H hn fuel hf rest (specStep l op i).2 (fun o ho => hops o (by simp [ho]))
      (hn ▸ specStep_le l op i (hn ▸ hi))
    simp only [runOps, h1, R.bind_ok, h2, specRun]

end cursor

/-! ## `ArgsOs::next` / `Args::next` over the initial stack are such a cursor -/

theorem WordsAt_get (m : Mem) : ∀ (ws : List Nat) (a i : Nat) (h : i < ws.length),
    WordsAt m a ws → rd64 m (a + 8 * i) = .ok ws[i]
  | w :: ws, a, 0, _, hw => by simpa using hw.1
  | w :: ws, a, i + 1, h, hw => by
    have := WordsAt_get m ws (a + 8) i (by simpa using h) hw.2
    rw [show a + 8 * (i + 1) = a + 8 + 8 * i by omega]
    simpa using this

theorem StrsAt_get (m : Mem) : ∀ (ps : List Nat) (ss : List Bytes) (i : Nat) (h1 : i < ps.length) (h2 : i < ss.length),
    StrsAt m ps ss → CStrAt m ps[i] ss[i]
  | p :: ps, s :: ss, 0, _, _, h => h.1
  | p :: ps, s :: ss, i + 1, h1, h2, h => by
    simpa using StrsAt_get m ps ss i (by simpa using h1) (by simpa using h2) h.2

theorem next_spec_os {m : Mem} {sp : Nat} {argv env : List Bytes} {aux : List (Nat × Nat)} {aptrs eptrs : List Nat}
    (h : StackAt m sp argv env aux aptrs eptrs) (fuel : Nat) (hf : ∀ s ∈ argv, s.length < fuel) :
    NextSpec (ArgsOs.next m (envOf sp argv.length) fuel) argv argv.length := by
  intro i
  obtain ⟨_, h2, _, _⟩ := stack_parts h
  have hl := StrsAt_length m aptrs argv h.astrs
  by_cases hi : i < argv.length
  · have hip : i < aptrs.length := by omega
    have hw := WordsAt_get m aptrs (sp + 8) i hip h2
    have hs := StrsAt_get m aptrs argv i hip hi h.astrs
    have hp : aptrs[i] ≠ 0 := h.aptrs_ne _ (List.getElem_mem hip)
    have hnz : sp + 8 + 8 * i ≠ 0 := by omega
    have hmem : argv[i] ∈ argv := List.getElem_mem hi
    simp only [ArgsOs.next, envOf, if_pos hi, if_neg hnz, hw, R.bind_ok, if_neg hp,
      cstr_eq m aptrs[i] argv[i] fuel hs (h.argv_nul_free _ hmem) (hf _ hmem), List.getElem?_eq_getElem hi]
  · have hnone : argv[i]? = none := by simp; omega
    simp only [ArgsOs.next, if_neg hi, hnone]

theorem next_spec_args {m : Mem} {e : Env} {fuel : Nat} {argv : List Bytes} {n : Nat}
    (H : NextSpec (ArgsOs.next m e fuel) argv n) : NextSpec (Args.next m e fuel) (argv.map asStr) n := by
  intro i
  simp only [Args.next, H i, R.bind_ok, List.getElem?_map]

end TinyVerif.Env
