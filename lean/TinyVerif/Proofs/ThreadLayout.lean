/- layout arithmetic of the shared block `Tsm` (spawn.rs `padding` / `push_aligned` / `layout_thread_shared_memory`) -/
import TinyVerif.Model.Thread
set_option linter.unusedSimpArgs false
set_option linter.unusedVariables false
namespace TinyVerif.Thread

theorem padding_spec (b a : Nat) (ha : 0 < a) : ∃ p, padding b a = some p ∧ p < a ∧ (b + p) % a = 0 := by
  unfold padding
  have ha' : a ≠ 0 := by omega
  simp only [ha', if_false]
  by_cases h : b % a = 0
  · simp only [h, if_true]
    exact ⟨0, rfl, ha, by simpa using h⟩
  · simp only [h, if_false]
    refine ⟨a - b % a, rfl, by omega, ?_⟩
    have h1 := Nat.div_add_mod b a
    have h2 := Nat.mod_lt b ha
    have h3 : b + (a - b % a) = a * (b / a + 1) := by
      rw [Nat.mul_add, Nat.mul_one]; omega
    rw [h3]; exact Nat.mul_mod_right a _

theorem head_layout : headLayout = some ⟨24, 8⟩ := by decide
theorem futex_offset : futexOffset = some 4 := by decide
theorem self_sz_offset : selfSzOffset = some 8 := by decide
theorem self_align_offset : selfAlignOffset = some 16 := by decide

theorem uadd_some (a b : Nat) (h : a + b < USIZE) : uadd a b = some (a + b) := by
  simp [uadd, h]

theorem pow2_dvd_max8 (k : Nat) : 2 ^ k ∣ max 8 (2 ^ k) := by
  by_cases hk : k ≤ 3
  · have : k = 0 ∨ k = 1 ∨ k = 2 ∨ k = 3 := by omega
    rcases this with h | h | h | h <;> subst h <;> decide
  · have h4 : 2 ^ 4 ≤ 2 ^ k := Nat.pow_le_pow_right (by decide) (by omega)
    have : max 8 (2 ^ k) = 2 ^ k := by
      have : (2:Nat) ^ 4 = 16 := by decide
      omega
    rw [this]; exact Nat.dvd_refl _

theorem mod_of_dvd_mod (x a m : Nat) (hd : a ∣ m) (hx : x % m = 0) : x % a = 0 := by
  have : m ∣ x := Nat.dvd_of_mod_eq_zero hx
  exact Nat.mod_eq_zero_of_dvd (Nat.dvd_trans hd this)

theorem add_mod_zero (x y a : Nat) (hx : x % a = 0) (hy : y % a = 0) : (x + y) % a = 0 := by
  rw [Nat.add_mod, hx, hy]; simp

/-- what `Tsm::init`, `get_futex`, `get_layout`, `value_mut`, `dealloc` rely on, for every result type -/
structure LayoutOk (vSize vAlign : Nat) (L : Layout) (voff : Nat) : Prop where
  futexAt : futexOffset = some 4
  szAt : selfSzOffset = some 8
  alAt : selfAlignOffset = some 16
  after : 24 ≤ voff                      -- the value starts after flag [0,1), futex [4,8), size [8,16), align [16,24)
  inside : voff + vSize ≤ L.size         -- and ends inside the block
  tight : voff < 24 + vAlign             -- no more padding than the alignment demands
  valAligned : voff % vAlign = 0
  alignIs : L.align = max 8 vAlign
  sizeMult : L.size % L.align = 0
  abs : ∀ base, base % L.align = 0 →
    (base + 4) % 4 = 0 ∧ (base + 8) % 8 = 0 ∧ (base + 16) % 8 = 0 ∧ (base + voff) % vAlign = 0

theorem layout_sound (vSize k : Nat) (hfit : vSize + 2 * 2 ^ k + 64 < USIZE) :
    ∃ L voff, layoutTsm vSize (2 ^ k) = some L ∧ valueOffset (2 ^ k) = some voff ∧ LayoutOk vSize (2 ^ k) L voff := by
  have hpos : 0 < 2 ^ k := Nat.pow_pos (by decide)
  obtain ⟨p, hp, hplt, hpm⟩ := padding_spec 24 (2 ^ k) hpos
  have hmpos : 0 < max 8 (2 ^ k) := by omega
  obtain ⟨q, hq, hqlt, hqm⟩ := padding_spec (24 + p + vSize) (max 8 (2 ^ k)) hmpos
  have hmax : max 8 (2 ^ k) ≤ 8 + 2 ^ k := by omega
  refine ⟨⟨24 + p + vSize + q, max 8 (2 ^ k)⟩, 24 + p, ?_, ?_, ?_⟩
  · simp only [layoutTsm, head_layout, pushAligned, hp]
    rw [uadd_some 24 p (by omega)]
    simp only []
    rw [uadd_some (24 + p) vSize (by omega)]
    simp only [hq]
    rw [uadd_some (24 + p + vSize) q (by omega)]
  · simp only [valueOffset, self_align_offset]
    rw [uadd_some 16 8 (by decide)]
    simp only [offsetAfter, hp]
    rw [uadd_some 24 p (by omega)]
  · have hdv := pow2_dvd_max8 k
    refine ⟨futex_offset, self_sz_offset, self_align_offset, by omega, by simp only []; omega, by omega, hpm, rfl, hqm, ?_⟩
    intro base hb
    simp only [] at hb
    have h8 : (8:Nat) ∣ max 8 (2 ^ k) := by
      by_cases hk : k ≤ 3
      · have : max 8 (2 ^ k) = 8 := by
          have : k = 0 ∨ k = 1 ∨ k = 2 ∨ k = 3 := by omega
          rcases this with h | h | h | h <;> subst h <;> decide
        rw [this]; exact Nat.dvd_refl _
      · have : max 8 (2 ^ k) = 2 ^ k := by
          have h4 : 2 ^ 4 ≤ 2 ^ k := Nat.pow_le_pow_right (by decide) (by omega)
          have : (2:Nat) ^ 4 = 16 := by decide
          omega
        rw [this]
        exact ⟨2 ^ (k - 3), by rw [show (8:Nat) = 2 ^ 3 by decide, ← Nat.pow_add]; congr 1; omega⟩
    have b8 : base % 8 = 0 := mod_of_dvd_mod base 8 _ h8 hb
    have bv : base % 2 ^ k = 0 := mod_of_dvd_mod base _ _ hdv hb
    refine ⟨by omega, by omega, by omega, add_mod_zero _ _ _ bv hpm⟩

end TinyVerif.Thread
