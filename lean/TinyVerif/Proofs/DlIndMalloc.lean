import TinyVerif.Proofs.DlIndGlue
/-!
# `malloc_nosys` preserves the invariant — generic layer and the two `small-next-*` branches

All seven remaining branches of `malloc_nosys` have the same three phases

  A. *unlink* the victim `p` from its bin (`take_first_small` / `unlink_large_chunk`): only the bins change
     (`mn_Unlinked s.h h1 p`: `BinFrame`, `binned s.h ~ p :: binned h1`, both bin conjuncts for `h1`);
  B. rewrite the header window `[x, y]` (`x` the free header at `p`, `y` the in-use header after it):
     *exhaust* (`set_inuse_and_pinuse`) or *split* (`set_size_and_pinuse_of_inuse_chunk`, then
     `set_size_and_pinuse_of_free_chunk` for the remainder) — only the table changes;
  C. (split only) list the remainder: `replace_dv` or `insert_chunk` — only bins / `dv` change.

`mn_exhaust_wfs` does A+B for exhaust; `mn_split_mid` does A+B for split and returns everything phase C
needs (`mn_SplitMid`), `mn_split_fin` assembles `WFS` after phase C, `mn_split_dv_wfs` / `mn_split_ins_wfs`
are the two instances of phase C.  Free-list bookkeeping is done up to permutation
(`mn_freeListOk_perm`), so that small bins and tree bins are treated alike.
-/
namespace TinyVerif.Dl

open List

/-! ## generic layer -/

/-- every header size fits a machine word: from the structural conjuncts and `segsOk` -/
theorem mn_entsLt {s : St} (w : WFS s) {es : List Ent} {top : Nat} (h : StructOk es s.segs top) : EntsLt es := by
  intro a e he
  obtain ⟨hm, _⟩ := findEnt_some he
  obtain ⟨g, hg, hge⟩ := h.seg_of hm
  obtain ⟨t1, t2⟩ := h.in_seg hg hm hge
  have hsg := w.segs
  unfold segsOk at hsg
  simp only [Bool.and_eq_true, List.all_eq_true, decide_eq_true_eq] at hsg
  have := hsg.2 g hg
  simp only [U64]; omega

/-- phase A: the chunk `p` was taken out of its bin, nothing else changed -/
structure mn_Unlinked (h h1 : Heap) (p : Nat) : Prop where
  frame : BinFrame h h1
  perm : binned h ~ p :: binned h1
  sb : sbinsOk h1 = true
  tb : tbinsOk h1 = true

theorem mn_unlinked_small {s : St} (w : WFS s) {h1 : Heap} {idx p : Nat}
    (e : take_first_small s.h idx = .ok (h1, p)) : mn_Unlinked s.h h1 p :=
  ⟨(take_first_small_frame e).1, take_first_small_binned e, take_first_small_sbinsOk e w.sbins,
    by rw [take_first_small_tbinsOk e]; exact w.tbins⟩

theorem mn_unlinked_large {s : St} (w : WFS s) {h1 : Heap} {p : Nat}
    (e : unlink_large_chunk s.h p = .ok h1) : mn_Unlinked s.h h1 p :=
  ⟨(unlink_large_chunk_frame e).1, unlink_large_chunk_binned e,
    by rw [unlink_large_chunk_sbinsOk e]; exact w.sbins, unlink_large_chunk_tbinsOk e w.tbins⟩

theorem mn_unlinked_freeList {h h1 : Heap} {p : Nat} (u : mn_Unlinked h h1 p) : freeList h ~ p :: freeList h1 :=
  freeList_perm_of_binned u.frame.top.symm u.frame.dv.symm u.perm

theorem mn_binned_nodup {s : St} (w : WFS s) : (binned s.h).Nodup := by
  have h1 := ((freeListOk_iff s.h).1 w.freeList).1
  unfold Dl.freeList at h1
  exact (List.nodup_append.1 (List.nodup_append.1 h1).2.1).2.1

/-- what phase A says about the victim: a free header other than `top` and `dv`, no longer binned -/
theorem mn_freeAt {s : St} (w : WFS s) {h1 : Heap} {p : Nat} (u : mn_Unlinked s.h h1 p) :
    ∃ pre post x y g, FreeAt s pre post x y g ∧ x.addr = p ∧ p ≠ s.h.dv ∧ p ∉ binned h1 ∧
      (∀ a ∈ binned h1, a ∈ binned s.h) := by
  have hpb : p ∈ binned s.h := (u.perm.mem_iff).2 List.mem_cons_self
  obtain ⟨⟨x, hfx, hxf⟩, hptop, hpdv⟩ := w.binned_free hpb
  obtain ⟨hxm, hxa⟩ := findEnt_some hfx
  obtain ⟨pre, y, post, g, fa⟩ := w.freeAt hxm hxf (by rw [hxa]; exact hptop)
  have hnd := (u.perm.nodup_iff).1 (mn_binned_nodup w)
  exact ⟨pre, post, x, y, g, fa, hxa, hpdv, (List.nodup_cons.1 hnd).1,
    fun a ha => (u.perm.mem_iff).2 (List.mem_cons_of_mem _ ha)⟩

/-- both bin conjuncts after phases A and B: the bins of `h1` over the new table -/
theorem mn_mid_bins {s : St} (w : WFS s) {h1 H : Heap} {p : Nat} (u : mn_Unlinked s.h h1 p)
    {pre mid mid' post : List Ent}
    (hes : s.h.ents = pre ++ mid ++ post) (hH : H.ents = pre ++ mid' ++ post) (hok' : entsOk H.ents = true)
    (hsb : H.sbins = h1.sbins) (htb : H.tbins = h1.tbins) (hp1 : p ∉ binned h1)
    (hsub : ∀ a ∈ binned h1, a ∈ binned s.h)
    (hmid : ∀ e ∈ mid, isFree e = true → e.addr = s.h.top ∨ e.addr = s.h.dv ∨ e.addr = p) :
    sbinsOk H = true ∧ tbinsOk H = true := by
  have hb : binned H = binned h1 := binned_congr hsb htb
  have h1s := u.sb
  have h1t := u.tb
  unfold sbinsOk at h1s
  unfold tbinsOk at h1t
  rw [u.frame.ents] at h1s h1t
  unfold sbinsOk tbinsOk
  refine bins_window' w hes hH hok' (by rw [hsb]; exact h1s) (by rw [htb]; exact h1t)
    (by rw [hb]; exact hsub) ?_
  intro e he hf
  rcases hmid e he hf with h | h | h
  · exact Or.inl h
  · exact Or.inr (Or.inl h)
  · exact Or.inr (Or.inr (by rw [hb, h]; exact hp1))

/-- **free list after a window replacement, up to permutation**: the free headers of the old window leave
the list, those of the new window join it -/
theorem mn_freeListOk_perm {s : St} (w : WFS s) {H : Heap} {pre mid mid' post : List Ent}
    (hes : s.h.ents = pre ++ mid ++ post) (hH : H.ents = pre ++ mid' ++ post) (hok' : entsOk H.ents = true)
    (hp : freeSet mid ++ freeList H ~ freeSet mid' ++ freeList s.h)
    (hnd : (freeSet mid').Nodup) (hnew : ∀ a ∈ freeSet mid', a ∉ freeList s.h) : freeListOk H = true := by
  obtain ⟨hnd0, hin0, _⟩ := (freeListOk_iff s.h).1 w.freeList
  have hold : ∀ a ∈ freeSet mid, a ∈ freeList s.h := by
    intro a ha
    obtain ⟨e, he, hf, hea⟩ := mem_freeSet.1 ha
    exact hea ▸ hin0 e (by rw [hes]; simp [he]) hf
  have hR : (freeSet mid' ++ freeList s.h).Nodup :=
    List.nodup_append.2 ⟨hnd, hnd0, fun a ha b hb hab => hnew a ha (hab ▸ hb)⟩
  have hL := (hp.nodup_iff).2 hR
  obtain ⟨_, hndH, hdis⟩ := List.nodup_append.1 hL
  refine freeListOk_window hes hH w.ents hok' w.freeList hndH ?_
  intro a
  have hm := hp.mem_iff (a := a)
  simp only [List.mem_append] at hm
  constructor
  · intro ha
    have hn : a ∉ freeSet mid := fun h => hdis a h a ha rfl
    rcases hm.1 (Or.inr ha) with h | h
    · exact Or.inr h
    · exact Or.inl ⟨h, hn⟩
  · rintro (⟨h1, h2⟩ | h)
    · rcases hm.2 (Or.inr h1) with h | h
      · exact absurd h h2
      · exact h
    · rcases hm.2 (Or.inl h) with h' | h'
      · exact absurd (hold a h') (hnew a h)
      · exact h'

theorem mn_topOk_congr {s : St} {H H' : Heap} (he : H'.ents = H.ents) (ht : H'.top = H.top)
    (hts : H'.topsize = H.topsize) : topOk { s with h := H' } = topOk { s with h := H } := by
  unfold topOk
  simp only [he, ht, hts]

/-! ## exhaust (phases A + B) -/

/-- **generic exhaust**: the victim `p` was unlinked from its bin (`u`), then `set_inuse_and_pinuse` turned
the whole chunk into an in-use chunk -/
theorem mn_exhaust_wfs {s : St} (w : WFS s) {h1 h2 : Heap} {p sz nb : Nat} (u : mn_Unlinked s.h h1 p)
    {x0 : Ent} (hx0 : findEnt s.h.ents p = some x0) (hsz : x0.size = sz)
    (e2 : set_inuse_and_pinuse h1 p sz = .ok h2) (hnb : nb ≤ sz) (t : String) :
    WFS { s with h := h2.tag t } ∧ AllocAt s.h.ents (h2.tag t).ents nb p := by
  obtain ⟨pre, post, x, y, g, fa, hxa, hpdv, hp1, hsub⟩ := mn_freeAt w u
  have hxm : x ∈ s.h.ents := by rw [fa.hes]; simp
  have hxx : x0 = x := by
    have := entsOk_find x hxm w.ents
    rw [hxa, hx0] at this
    injection this
  subst hxx
  have hes1 : h1.ents = pre ++ [x0, y] ++ post := by rw [u.frame.ents]; exact fa.hes
  have r := set_inuse_and_pinuse_at e2 (pre := pre) (post := post) (x := x0) (y := y) hes1
    (by rw [u.frame.ents]; exact w.ents) hxa hsz fa.ya
  have hi : HeapIs (h2.tag t) (pre ++ [{ x0 with cin := true, pin := true }, { y with pin := true }] ++ post)
      h1.sbins h1.tbins s.h.dv s.h.dvsize s.h.top s.h.topsize := by
    rw [r]; exact ⟨rfl, rfl, rfl, u.frame.dv, u.frame.dvsize, u.frame.top, u.frame.topsize⟩
  generalize h2.tag t = H at hi ⊢
  obtain ⟨hst, hal, fs1, fs2⟩ := exhaust_table w fa (nb := nb)
    (nx := { x0 with cin := true, pin := true }) (ny := { y with pin := true })
    rfl rfl rfl rfl rfl rfl fa.yc rfl (by omega)
  rw [hxa] at fs1
  have hok' : entsOk H.ents = true := by rw [hi.ents]; exact hst.ents
  obtain ⟨hsb, htb⟩ := mn_mid_bins w u fa.hes hi.ents hok' hi.sbins hi.tbins hp1 hsub
    (fa.free_mid (P := fun e => e.addr = s.h.top ∨ e.addr = s.h.dv ∨ e.addr = p) (Or.inr (Or.inr hxa)))
  have hfl : freeList H = freeList h1 := by
    unfold freeList; rw [binned_congr hi.sbins hi.tbins, hi.top, hi.dv, u.frame.top, u.frame.dv]
  refine ⟨wfs_of_parts w (by rw [hi.ents, hi.top]; exact hst) ?_ hsb htb ?_ ?_, by rw [hi.ents, ← hxa]; exact hal⟩
  · refine mn_freeListOk_perm w fa.hes hi.ents hok' ?_ (by rw [fs2]; simp) (by rw [fs2]; simp)
    rw [fs1, fs2, hfl]
    exact (mn_unlinked_freeList u).symm
  · exact dvOk_window w fa.hes hi.ents hok' hi.dv hi.dvsize
      (fa.free_mid (P := fun e => e.addr ≠ s.h.dv) (by rw [hxa]; exact hpdv))
  · exact topOk_window w fa.hes hi.ents hok' (fun h => by have := fa.hg; rw [h] at this; cases this)
      hi.top hi.topsize fa.top_mid

/-! ## split (phases A + B, then C) -/

/-- everything phase C of a split needs to know about the heap `h3` after phases A and B: the victim at `p`
(unlinked) is now an in-use chunk of `nb` bytes followed by the free remainder of `rs` bytes at `p + nb`,
which is not listed anywhere yet -/
structure mn_SplitMid (s : St) (h3 : Heap) (nb p rs : Nat) : Prop where
  struct : StructOk h3.ents s.segs s.h.top
  alloc : AllocAt s.h.ents h3.ents nb p
  top : h3.top = s.h.top
  topsize : h3.topsize = s.h.topsize
  topok : Dl.topOk { s with h := h3 } = true
  sb : sbinsOk h3 = true
  tb : tbinsOk h3 = true
  dv : h3.dv = s.h.dv
  dvsize : h3.dvsize = s.h.dvsize
  dvok : Dl.dvOk h3 = true
  rem : ∃ nr, findEnt h3.ents (p + nb) = some nr ∧ isFree nr = true ∧ nr.size = rs
  win : ∃ pre post mid mid', s.h.ents = pre ++ mid ++ post ∧ h3.ents = pre ++ mid' ++ post ∧
    freeSet mid = [p] ∧ freeSet mid' = [p + nb]
  flperm : freeList s.h ~ p :: freeList h3
  fresh : ∀ e ∈ s.h.ents, e.addr ≠ p + nb

/-- **generic split, phases A + B** -/
theorem mn_split_mid {s : St} (w : WFS s) {h1 h2 h3 : Heap} {p nb rs : Nat} (u : mn_Unlinked s.h h1 p)
    {x0 : Ent} (hx0 : findEnt s.h.ents p = some x0) (hsz : x0.size = nb + rs)
    (hnb16 : nb % 16 = 0) (hnb32 : 32 ≤ nb) (hrs : 32 ≤ rs)
    (e2 : set_size_and_pinuse_of_inuse_chunk h1 p nb = .ok h2)
    (e3 : set_size_and_pinuse_of_free_chunk h2 (p + nb) rs = .ok h3) : mn_SplitMid s h3 nb p rs := by
  obtain ⟨pre, post, x, y, g, fa, hxa, hpdv, hp1, hsub⟩ := mn_freeAt w u
  have hxm : x ∈ s.h.ents := by rw [fa.hes]; simp
  have hxx : x0 = x := by
    have := entsOk_find x hxm w.ents
    rw [hxa, hx0] at this
    injection this
  subst hxx
  have hes1 : h1.ents = pre ++ [x0, y] ++ post := by rw [u.frame.ents]; exact fa.hes
  have r := split_inuse_free_at e2 e3 (pre := pre) (post := post) (x := x0) (y := y) hes1
    (by rw [u.frame.ents]; exact w.ents) hxa (by omega) (by omega) (by omega) fa.ya
  have hi : HeapIs h3 (pre ++ [{ addr := p, size := nb, cin := true, pin := true, pfoot := x0.pfoot },
      { addr := p + nb, size := rs, cin := false, pin := true, pfoot := 0 }, { y with pfoot := rs }] ++ post)
      h1.sbins h1.tbins s.h.dv s.h.dvsize s.h.top s.h.topsize := by
    rw [r]; exact ⟨rfl, rfl, rfl, u.frame.dv, u.frame.dvsize, u.frame.top, u.frame.topsize⟩
  clear r
  obtain ⟨hst, hal, fs1, fs2, hfnr, hins⟩ := split_table w fa hnb16 (by omega) (by omega)
    (np := { addr := p, size := nb, cin := true, pin := true, pfoot := x0.pfoot })
    (nr := { addr := p + nb, size := rs, cin := false, pin := true, pfoot := 0 })
    (ny := { y with pfoot := rs })
    hxa.symm rfl rfl rfl (by rw [hxa]) (by show rs = x0.size - nb; omega) rfl rfl rfl rfl fa.yc fa.yp
    (by show rs = x0.size - nb; omega)
  rw [hxa] at hal fs1 fs2 hfnr hins
  have hok' : entsOk h3.ents = true := by rw [hi.ents]; exact hst.ents
  obtain ⟨hsb, htb⟩ := mn_mid_bins w u fa.hes hi.ents hok' hi.sbins hi.tbins hp1 hsub
    (fa.free_mid (P := fun e => e.addr = s.h.top ∨ e.addr = s.h.dv ∨ e.addr = p) (Or.inr (Or.inr hxa)))
  have hfl : freeList h3 = freeList h1 := by
    unfold freeList; rw [binned_congr hi.sbins hi.tbins, hi.top, hi.dv, u.frame.top, u.frame.dv]
  refine ⟨by rw [hi.ents]; exact hst, by rw [hi.ents]; exact hal, hi.top, hi.topsize, ?_, hsb, htb, hi.dv,
    hi.dvsize, ?_, ?_, ⟨pre, post, _, _, fa.hes, hi.ents, fs1, fs2⟩, ?_, hins⟩
  · exact topOk_window w fa.hes hi.ents hok' (fun h => by have := fa.hg; rw [h] at this; cases this)
      hi.top hi.topsize fa.top_mid
  · exact dvOk_window w fa.hes hi.ents hok' hi.dv hi.dvsize
      (fa.free_mid (P := fun e => e.addr ≠ s.h.dv) (by rw [hxa]; exact hpdv))
  · exact ⟨_, by rw [hi.ents]; exact hfnr, rfl, rfl⟩
  · rw [hfl]; exact mn_unlinked_freeList u

/-- **generic split, assembly after phase C**: `H` has the table of `h3`, the same `top`, well-formed bins
and `dv`, and its free list is that of `h3` plus the remainder -/
theorem mn_split_fin {s : St} (w : WFS s) {h3 H : Heap} {nb p rs : Nat} (m : mn_SplitMid s h3 nb p rs)
    (hents : H.ents = h3.ents) (htop : H.top = h3.top) (htops : H.topsize = h3.topsize)
    (hsb : sbinsOk H = true) (htb : tbinsOk H = true) (hdv : dvOk H = true)
    (hperm : freeList H ~ (p + nb) :: freeList h3) :
    WFS { s with h := H } ∧ AllocAt s.h.ents H.ents nb p := by
  obtain ⟨pre, post, mid, mid', hes, hes3, fs1, fs2⟩ := m.win
  have hok' : entsOk H.ents = true := by rw [hents]; exact m.struct.ents
  refine ⟨wfs_of_parts w (by rw [hents, htop, m.top]; exact m.struct) ?_ hsb htb hdv ?_,
    by rw [hents]; exact m.alloc⟩
  · refine mn_freeListOk_perm w hes (hents.trans hes3) hok' ?_ (by rw [fs2]; simp) ?_
    · rw [fs1, fs2]
      refine (List.Perm.cons p hperm).trans ?_
      refine (List.Perm.swap _ _ _).trans ?_
      exact List.Perm.cons _ m.flperm.symm
    · intro a ha
      rw [fs2, List.mem_singleton] at ha
      subst ha
      exact w.not_listed m.fresh
  · rw [mn_topOk_congr hents htop htops]; exact m.topok

/-- what `dvOk` says, in the form `replace_dv_freeList` / `replace_dv_binsOk` want -/
theorem mn_dvOk_parts {h : Heap} (hd : dvOk h = true) (hsh : shapeOk h.ents = true) :
    (h.dv = 0 ↔ h.dvsize = 0) ∧ (h.dvsize ≠ 0 → sizeAt h.ents h.dv h.dvsize = true ∧ h.dvsize % 8 = 0) := by
  unfold dvOk at hd
  split at hd
  · rename_i h0
    simp only [decide_eq_true_eq] at hd
    exact ⟨⟨fun _ => hd, fun _ => h0⟩, fun hne => absurd hd hne⟩
  · rename_i h0
    split at hd
    · rename_i e he
      simp only [Bool.and_eq_true, decide_eq_true_eq] at hd
      obtain ⟨⟨hf, hs⟩, h32⟩ := hd
      refine ⟨⟨fun h => absurd h h0, fun h => by omega⟩, fun _ => ⟨sizeAt_iff.2 ⟨e, he, hs⟩, ?_⟩⟩
      obtain ⟨_, h16, _⟩ := shapeOk_free hsh (findEnt_some he).1 (isFree_iff.1 hf).1
      omega
    · cases hd

/-- phase C by `replace_dv` (`small-next-split`, `tsmall-split`): the old `dv` goes to its small bin, the
remainder becomes `dv` -/
theorem mn_split_dv_wfs {s : St} (w : WFS s) {h3 h4 : Heap} {nb p rs : Nat} (m : mn_SplitMid s h3 nb p rs)
    (hnb : 0 < nb) (hrs : 32 ≤ rs) (e4 : replace_dv h3 (p + nb) rs = .ok h4) (t : String) :
    WFS { s with h := h4.tag t } ∧ AllocAt s.h.ents (h4.tag t).ents nb p := by
  obtain ⟨f1, f2, f3, f4, f5, f6, f7, f8, f9⟩ := replace_dv_frame e4
  obtain ⟨hdv0, hdvs⟩ := mn_dvOk_parts m.dvok m.struct.shape
  obtain ⟨hsb, htb⟩ := replace_dv_binsOk e4 hdvs m.sb m.tb
  have hp : p + nb ≠ 0 := by omega
  refine mn_split_fin w m (H := h4.tag t) f1 f3 f4 hsb htb ?_ ?_
  · obtain ⟨nr, r1, r2, r3⟩ := m.rem
    unfold dvOk
    show (if h4.dv = 0 then decide (h4.dvsize = 0) else
      match findEnt h4.ents h4.dv with
      | some e => isFree e && decide (e.size = h4.dvsize) && decide (32 ≤ h4.dvsize)
      | none => false) = true
    rw [f6, f7, f1, if_neg hp, r1]
    simp [r2, r3, hrs]
  · have := replace_dv_freeList e4 hdv0
    rw [if_neg hp] at this
    exact this

/-- phase C by `insert_chunk` (`tlarge-split`): the remainder goes to its bin, `dv` stays -/
theorem mn_split_ins_wfs {s : St} (w : WFS s) {h3 h4 : Heap} {nb p rs : Nat} (m : mn_SplitMid s h3 nb p rs)
    (hrs8 : rs % 8 = 0) (e4 : insert_chunk h3 (p + nb) rs = .ok h4) (t : String) :
    WFS { s with h := h4.tag t } ∧ AllocAt s.h.ents (h4.tag t).ents nb p := by
  have f := insert_chunk_frame e4
  obtain ⟨nr, r1, r2, r3⟩ := m.rem
  have hsz : sizeAt h3.ents (p + nb) rs = true := sizeAt_iff.2 ⟨nr, r1, r3⟩
  obtain ⟨hsb, htb⟩ := insert_chunk_binsOk e4 hrs8 (mn_entsLt w m.struct) hsz m.sb m.tb
  refine mn_split_fin w m (H := h4.tag t) f.ents f.top f.topsize hsb htb ?_
    (show freeList h4 ~ _ from insert_chunk_freeList e4)
  have : dvOk (h4.tag t) = dvOk h3 :=
    dvOk_frame (h := h3) (h' := h4.tag t) f.dv f.dvsize (by show findEnt h4.ents _ = _; rw [f.ents])
  rw [this]; exact m.dvok

/-! ## the two `small-next-*` branches -/

theorem mn_small_next_exhaust_wfs {s : St} (w : WFS s) {i p nb : Nat} {h1 h2 : Heap}
    (e1 : take_first_small s.h i = .ok (h1, p)) (hnb : nb ≤ small_index2size i)
    (e2 : set_inuse_and_pinuse h1 p (small_index2size i) = .ok h2) (t : String) :
    WFS { s with h := h2.tag t } ∧ AllocAt s.h.ents (h2.tag t).ents nb p := by
  obtain ⟨rest, x, hidx, hh1, hfx, hxs⟩ := take_first_small_ok e1
  exact mn_exhaust_wfs w (mn_unlinked_small w e1) hfx hxs e2 hnb t

theorem mn_small_next_split_wfs {s : St} (w : WFS s) {i p nb : Nat} {h1 h2 h3 h4 : Heap}
    (e1 : take_first_small s.h i = .ok (h1, p)) (hnb16 : nb % 16 = 0) (hnb32 : 32 ≤ nb)
    (hle : nb ≤ small_index2size i) (hrs : 32 ≤ small_index2size i - nb)
    (e2 : set_size_and_pinuse_of_inuse_chunk h1 p nb = .ok h2)
    (e3 : set_size_and_pinuse_of_free_chunk h2 (p + nb) (small_index2size i - nb) = .ok h3)
    (e4 : replace_dv h3 (p + nb) (small_index2size i - nb) = .ok h4) (t : String) :
    WFS { s with h := h4.tag t } ∧ AllocAt s.h.ents (h4.tag t).ents nb p := by
  obtain ⟨rest, x, hidx, hh1, hfx, hxs⟩ := take_first_small_ok e1
  have m := mn_split_mid w (mn_unlinked_small w e1) hfx (by omega) hnb16 hnb32 hrs e2 e3
  exact mn_split_dv_wfs w m (by omega) hrs e4 t

end TinyVerif.Dl
