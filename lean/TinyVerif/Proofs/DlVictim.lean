import TinyVerif.Proofs.DlWF
/-! Where an allocation that needs no OS call takes its memory from (`Victim`), and why that makes the
new block disjoint from everything live — from `WF` of the state BEFORE the call. -/
namespace TinyVerif.Dl
/-! ### where an allocation that needs no OS call takes its memory from -/

theorem mem_joinAll {l : List Nat} {ls : List (List Nat)} {a : Nat} (hl : l ∈ ls) (ha : a ∈ l) : a ∈ joinAll ls := by
  induction ls with
  | nil => cases hl
  | cons x xs ih =>
    simp only [joinAll, List.mem_append]
    cases hl with
    | head => exact Or.inl ha
    | tail _ h => exact Or.inr (ih h)

theorem getElem?_mem' {α : Type} {l : List α} {i : Nat} {a : α} (h : l[i]? = some a) : a ∈ l := by
  exact List.mem_of_getElem? h

theorem getBin_mem {h : Heap} {i : Nat} {l : List Nat} (hb : getBin h i = .ok l) {a : Nat} (ha : a ∈ l) :
    a ∈ binned h := by
  unfold getBin at hb
  split at hb
  · rename_i l' hl
    msimp at hb
    subst hb
    exact List.mem_append.2 (Or.inl (mem_joinAll (List.mem_of_getElem? hl) ha))
  · msimp at hb

theorem getTree_mem {h : Heap} {i : Nat} {t : Tree} (ht : getTree h i = .ok t) {a : Nat} (ha : a ∈ t.members) :
    a ∈ binned h := by
  unfold getTree at ht
  split at ht
  · rename_i t' hl
    msimp at ht
    subst ht
    refine List.mem_append.2 (Or.inr (mem_joinAll (l := t'.members) ?_ ha))
    exact List.mem_map.2 ⟨t', List.mem_of_getElem? hl, rfl⟩
  · msimp at ht

theorem getE_spec {h : Heap} {a : Nat} {e : Ent} (he : getE h a = .ok e) : findEnt h.ents a = some e := by
  unfold getE at he
  split at he
  · rename_i e' he'
    msimp at he
    subst he; exact he'
  · msimp at he

theorem mem_self (ad s : Nat) (ring : List Nat) (l r : Tree) : ad ∈ (Tree.node ad s ring l r).members := by
  simp [Tree.members]
theorem mem_left {a : Nat} (ad s : Nat) (ring : List Nat) {l : Tree} (r : Tree) (h : a ∈ l.members) :
    a ∈ (Tree.node ad s ring l r).members := by
  simp [Tree.members, h]
theorem mem_right {a : Nat} (ad s : Nat) (ring : List Nat) (l : Tree) {r : Tree} (h : a ∈ r.members) :
    a ∈ (Tree.node ad s ring l r).members := by
  simp [Tree.members, h]

/-- the best-fit walk only ever picks chunks of the tree it walks (or keeps the one it started with) -/
theorem lmBest_mem (t : Tree) : ∀ (size : Nat) (v : Option Nat) (rs : Nat) (a : Nat),
    (t.lmBest size v rs).1 = some a → v = some a ∨ a ∈ t.members := by
  induction t with
  | nil => intro size v rs a h; simp only [Tree.lmBest] at h; exact Or.inl h
  | node ad s ring l r ihl ihr =>
    intro size v rs a h
    have hv : (if (decide (s ≥ size) && decide (s - size < rs)) = true then some ad else v) = some a →
        v = some a ∨ a ∈ (Tree.node ad s ring l r).members := by
      intro hxa
      split at hxa
      · injection hxa with hxa; subst hxa; exact Or.inr (mem_self _ _ _ _ _)
      · exact Or.inl hxa
    cases l with
    | nil =>
      simp only [Tree.lmBest] at h
      rcases ihr _ _ _ _ h with h1 | h1
      · exact hv h1
      · exact Or.inr (mem_right _ _ _ _ h1)
    | node la ls lring ll lr =>
      simp only [Tree.lmBest] at h ihl
      rcases ihl _ _ _ _ h with h1 | h1
      · exact hv h1
      · exact Or.inr (mem_left _ _ _ _ h1)

theorem vstep {hit : Bool} {ad a : Nat} {v : Option Nat} (h : (if hit = true then some ad else v) = some a) :
    v = some a ∨ a = ad := by
  split at h
  · injection h with h; exact Or.inr h.symm
  · exact Or.inl h

theorem tlDescend_mem (t : Tree) (size sb : Nat) (v : Option Nat) (rs : Nat) (rst : Tree) (a : Nat) :
    (t.tlDescend size sb v rs rst).1 = some a → v = some a ∨ a ∈ t.members := by
  fun_induction Tree.tlDescend t size sb v rs rst with
  | case1 => intro h; exact Or.inl h
  | case2 ad s ring l r size sb v rs rst hit v' rs' hz =>
    intro h
    rcases vstep h with h1 | h1
    · exact Or.inl h1
    · subst h1; exact Or.inr (mem_self _ _ _ _ _)
  | case3 ad s ring r size sb v rs rst hit v' rs' hz hb rst' =>
    intro h
    rcases vstep h with h1 | h1
    · exact Or.inl h1
    · subst h1; exact Or.inr (mem_self _ _ _ _ _)
  | case4 ad s ring r size sb v rs rst hit v' rs' hz hb rst' la ls lring ll lr ih =>
    intro h
    rcases ih h with h1 | h1
    · rcases vstep h1 with h2 | h2
      · exact Or.inl h2
      · subst h2; exact Or.inr (mem_self _ _ _ _ _)
    · exact Or.inr (mem_left _ _ _ _ h1)
  | case5 ad s ring l size sb v rs rst hit v' rs' hz hb =>
    intro h
    rcases vstep h with h1 | h1
    · exact Or.inl h1
    · subst h1; exact Or.inr (mem_self _ _ _ _ _)
  | case6 ad s ring l size sb v rs rst hit v' rs' hz hb ra rs2 rring rl rr ih =>
    intro h
    rcases ih h with h1 | h1
    · rcases vstep h1 with h2 | h2
      · exact Or.inl h2
      · subst h2; exact Or.inr (mem_self _ _ _ _ _)
    · exact Or.inr (mem_right _ _ _ _ h1)

/-- the subtree handed on by the descent is a subtree of the tree or the remembered right subtree -/
theorem tlDescend_sub (t : Tree) (size sb : Nat) (v : Option Nat) (rs : Nat) (rst : Tree) (a : Nat) :
    a ∈ (t.tlDescend size sb v rs rst).2.2.members → a ∈ rst.members ∨ a ∈ t.members := by
  fun_induction Tree.tlDescend t size sb v rs rst with
  | case1 => intro h; exact Or.inl h
  | case2 ad s ring l r size sb v rs rst hit v' rs' hz => intro h; exact Or.inr h
  | case3 ad s ring r size sb v rs rst hit v' rs' hz hb rst' =>
    intro h
    cases r with
    | nil => exact Or.inl h
    | node ra rs2 rring rl rr => exact Or.inr (mem_right _ _ _ _ h)
  | case4 ad s ring r size sb v rs rst hit v' rs' hz hb rst' la ls lring ll lr ih =>
    intro h
    rcases ih h with h1 | h1
    · cases r with
      | nil => exact Or.inl h1
      | node ra rs2 rring rl rr => exact Or.inr (mem_right _ _ _ _ h1)
    · exact Or.inr (mem_left _ _ _ _ h1)
  | case5 ad s ring l size sb v rs rst hit v' rs' hz hb => intro h; exact Or.inl h
  | case6 ad s ring l size sb v rs rst hit v' rs' hz hb ra rs2 rring rl rr ih =>
    intro h
    rcases ih h with h1 | h1
    · exact Or.inl h1
    · exact Or.inr (mem_right _ _ _ _ h1)
/-- where `inner_malloc` took its memory from when it needed no OS call: a chunk `v` that sat in a
bin, or `dv`, or `top`, big enough for the padded request `nb`; the result is `v + 16` -/
def Victim (h : Heap) (nb mem : Nat) : Prop :=
  ∃ v, mem = v + MEM_OFFSET ∧
    ((v = h.dv ∧ nb ≤ h.dvsize) ∨ (v = h.top ∧ nb < h.topsize) ∨
     (v ∈ binned h ∧ ∃ e, findEnt h.ents v = some e ∧ nb ≤ e.size))

theorem take_first_small_spec {h h' : Heap} {idx p : Nat} (hh : take_first_small h idx = .ok (h', p)) :
    p ∈ binned h ∧ ∃ e, findEnt h.ents p = some e ∧ e.size = small_index2size idx := by
  unfold take_first_small at hh
  msimp at hh
  obtain ⟨l, hl, hh⟩ := hh
  split at hh
  · msimp at hh
  · rename_i p' rest
    msimp at hh
    obtain ⟨e, he, _, hs, hh⟩ := hh
    simp only [Prod.mk.injEq] at hh
    obtain ⟨_, hp⟩ := hh; subst hp
    simp only [ne_eq, decide_eq_false_iff_not, Decidable.not_not] at hs
    exact ⟨getBin_mem hl List.mem_cons_self, e, getE_spec he, hs⟩

theorem tmalloc_small_victim {h h' : Heap} {size mem : Nat} (hh : tmalloc_small h size = .ok (h', mem)) :
    Victim h size mem := by
  unfold tmalloc_small at hh
  dsimp only at hh
  msimp at hh
  obtain ⟨t, ht, hh⟩ := hh
  split at hh
  · msimp at hh
  · rename_i a s ring l r
    msimp at hh
    obtain ⟨_, hlt, hh⟩ := hh
    generalize hres : Tree.lmBest _ size (some a) (s - size) = res at hh
    obtain ⟨v, rsize⟩ := res
    dsimp only at hh
    split at hh
    · msimp at hh
    · rename_i vc
      msimp at hh
      obtain ⟨e, he, _, hsz, hh⟩ := hh
      simp only [ne_eq, decide_eq_false_iff_not, Decidable.not_not] at hsz
      have hmem : vc ∈ (Tree.node a s ring l r).members := by
        have := lmBest_mem _ size (some a) (s - size) vc (by rw [hres])
        rcases this with h1 | h1
        · injection h1 with h1; subst h1; exact mem_self _ _ _ _ _
        · cases l with
          | nil => exact mem_right _ _ _ _ h1
          | node la ls lr ll lrr => exact mem_left _ _ _ _ h1
      have hv : mem = vc + MEM_OFFSET := by
        mlast hh
        split at hh
        · msimp at hh; mlast hh; simp only [Prod.mk.injEq] at hh; exact hh.2.symm
        · msimp at hh; mlast hh; simp only [Prod.mk.injEq] at hh; exact hh.2.symm
      exact ⟨vc, hv, Or.inr (Or.inr ⟨getTree_mem ht hmem, e, getE_spec he, by omega⟩)⟩

theorem nil_members (a : Nat) : ¬ a ∈ Tree.nil.members := by simp [Tree.members]

theorem tl_search_mem {h : Heap} {size : Nat} {v : Option Nat} {rsize : Nat}
    (hh : tl_search h size = .ok (v, rsize)) {a : Nat} (ha : v = some a) : a ∈ binned h := by
  unfold tl_search at hh
  dsimp only at hh
  msimp at hh
  obtain ⟨root, hroot, t2, ht2, hh⟩ := hh
  generalize hd : tlStart root size (compute_tree_index size) (U64 - 1 - size + 1) = d at hh ht2
  obtain ⟨v1, rs1, t1⟩ := d
  have hv1 : ∀ a, v1 = some a → a ∈ root.members := by
    intro a ha
    unfold tlStart at hd
    cases root with
    | nil => simp only [Prod.mk.injEq] at hd; rw [← hd.1] at ha; cases ha
    | node ra rs rring rl rr =>
      simp only at hd
      have := tlDescend_mem (Tree.node ra rs rring rl rr) size _ none (U64 - 1 - size + 1) Tree.nil a (by rw [hd]; exact ha)
      rcases this with h1 | h1
      · cases h1
      · exact h1
  have ht1 : ∀ a, a ∈ t1.members → a ∈ root.members := by
    intro a ha
    unfold tlStart at hd
    cases root with
    | nil => simp only [Prod.mk.injEq] at hd; rw [← hd.2.2] at ha; exact absurd ha (nil_members a)
    | node ra rs rring rl rr =>
      simp only at hd
      have := tlDescend_sub (Tree.node ra rs rring rl rr) size _ none (U64 - 1 - size + 1) Tree.nil a (by rw [hd]; exact ha)
      rcases this with h1 | h1
      · exact absurd h1 (nil_members a)
      · exact h1
  have ht2m : ∀ a, a ∈ t2.members → a ∈ binned h := by
    intro a ha
    unfold tlNext at ht2
    dsimp only at ht2
    split at ht2
    · split at ht2
      · exact getTree_mem ht2 ha
      · msimp at ht2; subst ht2; exact absurd ha (nil_members a)
    · msimp at ht2; subst ht2; exact getTree_mem hroot (ht1 a ha)
  dsimp only at hh
  subst ha
  have hfst : (t2.lmBest size v1 rs1).1 = some a := by rw [hh]
  rcases lmBest_mem t2 size v1 rs1 a hfst with h1 | h1
  · exact getTree_mem hroot (hv1 a h1)
  · exact ht2m a h1

theorem tmalloc_large_victim {h h' : Heap} {size mem : Nat} (hh : tmalloc_large h size = .ok (some (h', mem))) :
    Victim h size mem := by
  unfold tmalloc_large at hh
  msimp at hh
  obtain ⟨⟨v, rsize⟩, hs, hh⟩ := hh
  dsimp only at hh
  split at hh
  · msimp at hh; cases hh
  · rename_i vc
    split at hh
    · msimp at hh; cases hh
    · msimp at hh
      obtain ⟨e, he, _, hsz, hh⟩ := hh
      simp only [ne_eq, decide_eq_false_iff_not, Decidable.not_not] at hsz
      have hmem : vc ∈ binned h := tl_search_mem hs rfl
      have hm : mem = vc + MEM_OFFSET := by
        mlast hh
        split at hh
        · msimp at hh; mlast hh; injection hh with hh; simp only [Prod.mk.injEq] at hh; exact hh.2.symm
        · msimp at hh; mlast hh; injection hh with hh; simp only [Prod.mk.injEq] at hh; exact hh.2.symm
      exact ⟨vc, hm, Or.inr (Or.inr ⟨hmem, e, getE_spec he, by omega⟩)⟩

theorem malloc_dv_top_victim {h h' : Heap} {nb mem : Nat} (hh : malloc_dv_top h nb = .ok (.done h' mem)) :
    Victim h nb mem := by
  unfold malloc_dv_top at hh
  dsimp only at hh
  split at hh
  · rename_i hle
    split at hh
    · msimp at hh; mlast hh; injection hh with h1 h2
      exact ⟨h.dv, h2.symm, Or.inl ⟨rfl, hle⟩⟩
    · msimp at hh; mlast hh; injection hh with h1 h2
      exact ⟨h.dv, h2.symm, Or.inl ⟨rfl, hle⟩⟩
  · split at hh
    · rename_i hlt
      msimp at hh; mlast hh; injection hh with h1 h2
      exact ⟨h.top, h2.symm, Or.inr (Or.inl ⟨rfl, hlt⟩)⟩
    · msimp at hh; cases hh

theorem malloc_nosys_victim {h h' : Heap} {size mem : Nat} (hh : malloc_nosys h size = .ok (.done h' mem)) :
    Victim h (nbOf size) mem := by
  unfold malloc_nosys at hh
  dsimp only at hh
  split at hh
  · rename_i hs
    have hn : nbOf size = request2size size := by simp [nbOf, hs]
    rw [hn]
    have hsz : size + 24 ≤ 2 ^ 64 := by simp only [MAX_SMALL_REQUEST_eq] at hs; omega
    have hnb8 : request2size size % 16 = 0 := request2size_aligned size hsz
    have hnblt : request2size size < size + 33 := request2size_lt size hsz
    split at hh
    · -- exact (or next) small bin
      msimp at hh
      obtain ⟨⟨h1, p⟩, ht, hh⟩ := hh
      obtain ⟨hmem, e, he, hes⟩ := take_first_small_spec ht
      have hm : mem = p + MEM_OFFSET := by
        mlast hh; injection hh with _ h2; exact h2.symm
      refine ⟨p, hm, Or.inr (Or.inr ⟨hmem, e, he, ?_⟩)⟩
      rw [hes]
      have hd : (U32 - 1 - smallmap h >>> small_index (request2size size)) &&& 1 ≤ 1 := Nat.and_le_right
      generalize ((U32 - 1 - smallmap h >>> small_index (request2size size)) &&& 1) = δ at hd ⊢
      have hsi : small_index (request2size size) = request2size size / 8 :=
        small_index_eq _ (by simp only [MAX_SMALL_REQUEST_eq] at hs; omega)
      rw [hsi, small_index2size_eq _ (by simp only [MAX_SMALL_REQUEST_eq] at hs; omega)]
      omega
    · split at hh
      · split at hh
        · msimp at hh
          obtain ⟨⟨h1, p⟩, ht, _, hlt, hh⟩ := hh
          obtain ⟨hmem, e, he, hes⟩ := take_first_small_spec ht
          simp only [decide_eq_false_iff_not, Nat.not_lt] at hlt
          have hm : mem = p + MEM_OFFSET := by
            split at hh
            · msimp at hh; mlast hh; injection hh with _ h2; exact h2.symm
            · msimp at hh; mlast hh; injection hh with _ h2; exact h2.symm
          exact ⟨p, hm, Or.inr (Or.inr ⟨hmem, e, he, by rw [hes]; exact hlt⟩)⟩
        · split at hh
          · msimp at hh
            obtain ⟨⟨h1, m1⟩, ht, hh⟩ := hh
            injection hh with _ h2
            subst h2
            exact tmalloc_small_victim ht
          · exact malloc_dv_top_victim hh
      · exact malloc_dv_top_victim hh
  · rename_i hs
    have hn : nbOf size = pad_request size := by simp [nbOf, hs]
    rw [hn]
    split at hh
    · msimp at hh; cases hh
    · split at hh
      · msimp at hh
        obtain ⟨r, hr, hh⟩ := hh
        split at hh
        · rename_i h1 m1
          msimp at hh
          injection hh with _ h2
          subst h2
          exact tmalloc_large_victim hr
        · exact malloc_dv_top_victim hh
      · exact malloc_dv_top_victim hh


theorem mem_freeList_of_binned {h : Heap} {a : Nat} (ha : a ∈ binned h) : a ∈ freeList h := by
  unfold freeList
  exact List.mem_append.2 (Or.inr (List.mem_append.2 (Or.inr ha)))

/-- what `topOk` says once the heap is initialised: the head segment, the header of `top` and the
foot word after it -/
theorem top_parts {hs : Hist} (h : WF hs) (hne : hs.st.h.topsize ≠ 0) :
    ∃ g rest e f, hs.st.segs = g :: rest ∧ findEnt hs.st.h.ents hs.st.h.top = some e ∧ isFree e = true ∧
      e.size = hs.st.h.topsize ∧ findEnt hs.st.h.ents (hs.st.h.top + hs.st.h.topsize) = some f ∧
      f.cin = false ∧ f.pin = false ∧ f.size = top_foot_size ∧ g.base ≤ hs.st.h.top ∧
      hs.st.h.top + hs.st.h.topsize + top_foot_size = g.base + g.size ∧ hs.st.h.top ≠ 0 := by
  have ht := h.parts.top
  unfold topOk at ht
  split at ht
  · simp only [Bool.and_eq_true, decide_eq_true_eq] at ht; omega
  · rename_i g rest hsegs
    simp only [Bool.and_eq_true, decide_eq_true_eq] at ht
    obtain ⟨⟨⟨⟨⟨⟨t1, t2⟩, t3⟩, t4⟩, t5⟩, t6⟩, t7⟩ := ht
    split at t6
    · rename_i e he
      split at t7
      · rename_i f hf
        simp only [Bool.and_eq_true, decide_eq_true_eq, Bool.not_eq_true'] at t6 t7
        exact ⟨g, rest, e, f, hsegs, he, t6.1, t6.2, hf, t7.1.1, t7.1.2, t7.2, t3, t4, t1⟩
      · cases t7
    · cases t6

/-- under `WF`, the victim of an allocation is a free chunk of at least the padded request size -/
theorem victim_free {hs : Hist} (h : WF hs) {nb mem : Nat} (hnb : 0 < nb) (hv : Victim hs.st.h nb mem) :
    ∃ ev ∈ hs.st.h.ents, mem = ev.addr + 16 ∧ isFree ev = true ∧ nb ≤ ev.size := by
  obtain ⟨v, hm, hcase⟩ := hv
  have hfl := h.parts.freeList
  unfold freeListOk at hfl
  simp only [Bool.and_eq_true, List.all_eq_true] at hfl
  rw [MEM_OFFSET_eq] at hm
  rcases hcase with ⟨hv, hle⟩ | ⟨hv, hlt⟩ | ⟨hb, e, he, hle⟩
  · have hd := h.parts.dv
    unfold dvOk at hd
    split at hd
    · simp only [decide_eq_true_eq] at hd; omega
    · split at hd
      · rename_i e he
        simp only [Bool.and_eq_true, decide_eq_true_eq] at hd
        obtain ⟨hm1, ha1⟩ := findEnt_some he
        exact ⟨e, hm1, by omega, hd.1.1, by omega⟩
      · cases hd
  · obtain ⟨g, rest, e, f, _, he, hfe, hse, _⟩ := top_parts h (by omega)
    obtain ⟨hm1, ha1⟩ := findEnt_some he
    exact ⟨e, hm1, by omega, hfe, by omega⟩
  · have := hfl.2 v (mem_freeList_of_binned hb)
    unfold isFreeAt at this
    rw [he] at this
    obtain ⟨hm1, ha1⟩ := findEnt_some he
    exact ⟨e, hm1, by omega, this, hle⟩

/-- a block carved from a free chunk is disjoint from every live block -/
theorem fresh_disjoint {hs : Hist} (h : WF hs) {ev : Ent} (hev : ev ∈ hs.st.h.ents) (hf : isFree ev = true)
    {size : Nat} (hfit : size + 8 ≤ ev.size) {b : Block} (hb : b ∈ hs.live) :
    ev.addr + 16 + size ≤ b.ptr ∨ b.ptr + b.size ≤ ev.addr + 16 := by
  obtain ⟨e, he, hcin, hs1, h32, hp1, _, _⟩ := live_block h hb
  obtain ⟨hm, ha⟩ := findEnt_some he
  have sep := entsOk_sep h.parts.ents
  rcases Nat.lt_trichotomy ev.addr e.addr with hlt | heq | hgt
  · have := sep ev hev e hm hlt
    left; omega
  · -- same address would make the free chunk an in-use one
    exfalso
    have hsep1 := sep ev hev e hm
    have hsep2 := sep e hm ev hev
    -- both headers at one address: compare via findEnt
    have : ∀ (es : List Ent) (x : Ent), x ∈ es → entsOk es = true → findEnt es x.addr = some x := by
      intro es
      induction es with
      | nil => intro x hx; cases hx
      | cons a rest ih =>
        intro x hx hok
        simp only [findEnt]
        cases hx with
        | head => simp
        | tail _ hx' =>
          have hh := entsOk_head_le hok x hx'
          have hapos : 0 < a.size := by
            cases rest with
            | nil => cases hx'
            | cons r rs => simp only [entsOk, Bool.and_eq_true, decide_eq_true_eq] at hok; exact hok.1.2
          have hne : ¬ a.addr = x.addr := by omega
          simp only [hne, if_false]
          exact ih x hx' (entsOk_tail hok)
    have h1 := this _ ev hev h.parts.ents
    have h2 := this _ e hm h.parts.ents
    rw [heq] at h1
    rw [h2] at h1
    injection h1 with h1
    subst h1
    simp [isFree, hcin] at hf
  · have := sep e hm ev hev hgt
    right; omega

theorem sys_alloc_evs {s s' : St} {nb mem : Nat} (h : sys_alloc s nb = .ok (s', mem)) :
    s'.evs.length = s.evs.length + 1 := by
  unfold sys_alloc at h
  dsimp only at h
  msimp at h
  obtain ⟨⟨res, s1⟩, hp, h⟩ := h
  obtain ⟨q, hq, hs1⟩ := popM_spec hp
  dsimp only at h
  split at h
  · msimp at h
    simp only [Prod.mk.injEq] at h
    obtain ⟨h, _⟩ := h
    subst h; subst hs1
    simp
  · msimp at h
    obtain ⟨r, hr, h⟩ := h
    obtain ⟨s2, hor, hf, he, ho, hsum⟩ := sys_alloc_place_spec hr
    have key : s2.evs.length = s.evs.length + 1 := by
      subst hs1
      simp only at he
      rw [he]; simp
    rcases hor with hor | ⟨m, hor⟩
    · subst hor
      dsimp only at h
      split at h
      · msimp at h
        mlast h
        simp only [Prod.mk.injEq] at h
        obtain ⟨h, _⟩ := h
        subst h
        exact key
      · msimp at h
        simp only [Prod.mk.injEq] at h
        obtain ⟨h, _⟩ := h
        subst h
        exact key
    · subst hor
      dsimp only at h
      msimp at h
      simp only [Prod.mk.injEq] at h
      obtain ⟨h, _⟩ := h
      subst h
      exact key

/-- **alloc_fresh** (from `WF` of the state *before* the call): an ordinary-alignment `malloc` that
makes no OS call returns memory carved from a chunk that was free (a binned chunk, `dv` or `top`),
hence disjoint from every block that was live -/
theorem inner_malloc_fresh {hs : Hist} (h : WF hs) {s' : St} {size mem : Nat} {os : List OsDir}
    (hm : inner_malloc (hs.start os) size = .ok (s', mem)) (hne : mem ≠ 0) (hnoos : s'.evs = [])
    (hsz : 0 < size) : ∀ b ∈ hs.live, mem + size ≤ b.ptr ∨ b.ptr + b.size ≤ mem := by
  unfold inner_malloc at hm
  msimp at hm
  obtain ⟨r, hr, hm⟩ := hm
  split at hm
  · rename_i h1 m1
    msimp at hm
    simp only [Prod.mk.injEq] at hm
    obtain ⟨_, hm2⟩ := hm
    subst hm2
    have hvic : Victim hs.st.h (nbOf size) m1 := by
      have := malloc_nosys_victim hr
      obtain ⟨v, hv1, hv2⟩ := this
      exact ⟨v, hv1, hv2⟩
    -- size + 8 ≤ nbOf size
    have hpad : size + 8 ≤ nbOf size ∧ 0 < nbOf size := by
      unfold nbOf
      split
      · rename_i hs
        have : size + 24 ≤ 2 ^ 64 := by simp only [MAX_SMALL_REQUEST_eq] at hs; omega
        have := request2size_ge size this
        omega
      · rename_i hs
        -- the large branch returned `done`, so `size < MAX_REQUEST`
        have hlt : size < MAX_REQUEST := by
          unfold malloc_nosys at hr
          dsimp only at hr
          rw [if_neg hs] at hr
          split at hr
          · msimp at hr; cases hr
          · rename_i hx; omega
        have := pad_request_ge size (lt_max_request_no_overflow size hlt)
        omega
    obtain ⟨ev, hev, hmem, hfree, hle⟩ := victim_free h hpad.2 hvic
    intro b hb
    have := fresh_disjoint h hev hfree (size := size) (by omega) hb
    omega
  · msimp at hm
    simp only [Prod.mk.injEq] at hm
    exact absurd hm.2.symm hne
  · have := sys_alloc_evs hm
    rw [hnoos] at this
    simp [Hist.start] at this

/-- the same at the level of named blocks: `malloc` with ordinary alignment -/
theorem step_malloc_fresh {hs hs' : Hist} (h : WF hs) {id size align : Nat} {os : List OsDir} {out : Out}
    (hstep : hs.step (.malloc id size align) os = .ok (hs', out)) (hal : align ≤ MALLOC_ALIGNMENT)
    (hne : out.ptr ≠ 0) (hnoos : hs'.st.evs = []) (hsz : 0 < size) :
    ∀ b ∈ hs.live, out.ptr + size ≤ b.ptr ∨ b.ptr + b.size ≤ out.ptr := by
  unfold Hist.step at hstep
  dsimp only at hstep
  msimp at hstep
  obtain ⟨_, _, ⟨s1, p⟩, hm, _, _, hstep⟩ := hstep
  simp only [Prod.mk.injEq] at hstep
  obtain ⟨h1, h2⟩ := hstep
  subst h1; subst h2
  unfold malloc at hm
  rw [if_pos hal] at hm
  exact inner_malloc_fresh h hm hne hnoos hsz

end TinyVerif.Dl
