/- per-event preservation of the instance invariant (generated layout, proofs by the `inv_event` tactic of ThreadInv) -/
import TinyVerif.Proofs.ThreadInv
set_option maxRecDepth 4000
set_option linter.unusedVariables false
namespace TinyVerif.Thread

theorem inv_hAllocTsm (c : Cfg) (hc : c.Good) (x x' : Inst) (h : stepI c x .hAllocTsm = some x') (hinv : IInv x) :
    IInv x' := by
  inv_event

theorem inv_hBox (c : Cfg) (hc : c.Good) (x x' : Inst) (h : stepI c x .hBox = some x') (hinv : IInv x) :
    IInv x' := by
  inv_event

theorem inv_hMmap (c : Cfg) (hc : c.Good) (x x' : Inst) (ok : Bool) (h : stepI c x (.hMmap ok) = some x') (hinv : IInv x) :
    IInv x' := by
  inv_event

theorem inv_hAllocTls (c : Cfg) (hc : c.Good) (x x' : Inst) (h : stepI c x .hAllocTls = some x') (hinv : IInv x) :
    IInv x' := by
  inv_event

theorem inv_hClone (c : Cfg) (hc : c.Good) (x x' : Inst) (ok : Bool) (h : stepI c x (.hClone ok) = some x') (hinv : IInv x) :
    IInv x' := by
  inv_event

theorem inv_hUndoTls (c : Cfg) (hc : c.Good) (x x' : Inst) (h : stepI c x .hUndoTls = some x') (hinv : IInv x) :
    IInv x' := by
  inv_event

theorem inv_hUndoStack (c : Cfg) (hc : c.Good) (x x' : Inst) (h : stepI c x .hUndoStack = some x') (hinv : IInv x) :
    IInv x' := by
  inv_event

theorem inv_hUndoBox (c : Cfg) (hc : c.Good) (x x' : Inst) (h : stepI c x .hUndoBox = some x') (hinv : IInv x) :
    IInv x' := by
  inv_event

end TinyVerif.Thread
