/- helper lemmas for C16 part 1 (wrapper state machine, stream system invariant) -/
import TinyVerif.Model.SockWrap
namespace TinyVerif.SockWrap

/-- what a finished trace must look like, per outcome -/
def expectOps : Out → List Nat
  | .ok v => [v]
  | _ => []

theorem okOps_runFrom (cfg : Cfg) (ts : TS) (p : Phase) (script : List R) :
    okOps (runFrom cfg ts p script).2 = expectOps (runFrom cfg ts p script).1 := by
  induction script generalizing p with
  | nil => cases p <;> simp [runFrom, callOf, okOps, expectOps]
  | cons r rest ih =>
    cases r with
    | ok v =>
      cases p with
      | first => simp [runFrom, wstep, callOf, okOps, expectOps]
      | polling => cases v <;> simp [runFrom, wstep, callOf, okOps, expectOps, ih]
      | retry => simp [runFrom, wstep, callOf, okOps, expectOps]
    | err e =>
      cases p with
      | first =>
        by_cases h : e = cfg.blockErrno <;> simp [runFrom, wstep, callOf, okOps, expectOps, h, ih]
      | polling =>
        by_cases h : e = EINTR <;> simp [runFrom, wstep, callOf, okOps, expectOps, h, ih]
      | retry => simp [runFrom, wstep, callOf, okOps, expectOps]


/-- from the polling phase: `Timeout` only directly after a ppoll (with the given timespec) answered 0 -/
theorem timeout_last_polling (cfg : Cfg) (ts : TS) (script : List R)
    (h : (runFrom cfg ts .polling script).1 = .timeout) :
    (runFrom cfg ts .polling script).2.getLast? = some (.ppoll ts cfg.event, .ok 0) := by
  induction script with
  | nil => simp [runFrom] at h
  | cons r rest ih =>
    cases r with
    | ok v =>
      cases v with
      | zero => simp [runFrom, wstep, callOf]
      | succ n =>
        cases rest with
        | nil => simp [runFrom, wstep] at h
        | cons r2 rest2 => cases r2 <;> simp [runFrom, wstep] at h
    | err e =>
      by_cases he : e = EINTR
      · simp only [runFrom, wstep, he, if_true] at h ⊢
        have := ih h
        rw [List.getLast?_cons_of_ne_nil]
        · exact this
        · intro hnil; rw [hnil] at this; simp at this
      · simp [runFrom, wstep, he] at h

theorem timeout_last (cfg : Cfg) (ts : TS) (script : List R)
    (h : (runFrom cfg ts .first script).1 = .timeout) :
    (runFrom cfg ts .first script).2.getLast? = some (.ppoll ts cfg.event, .ok 0) := by
  cases script with
  | nil => simp [runFrom] at h
  | cons r rest =>
    cases r with
    | ok v => simp [runFrom, wstep] at h
    | err e =>
      by_cases he : e = cfg.blockErrno
      · simp only [runFrom, wstep, he, if_true] at h ⊢
        have := timeout_last_polling cfg ts rest h
        rw [List.getLast?_cons_of_ne_nil]
        · exact this
        · intro hnil; rw [hnil] at this; simp at this
      · simp [runFrom, wstep, he] at h

/-- every ppoll of a run carries exactly the caller's timespec and the configured event -/
theorem polls_full (cfg : Cfg) (ts : TS) (p : Phase) (script : List R) :
    ∀ c ∈ (runFrom cfg ts p script).2, isPoll c.1 = true → c.1 = .ppoll ts cfg.event := by
  induction script generalizing p with
  | nil => cases p <;> simp [runFrom, callOf, isPoll]
  | cons r rest ih =>
    intro c hc hp
    simp only [runFrom] at hc
    split at hc
    · simp only [List.mem_singleton] at hc
      subst hc
      cases p <;> simp_all [callOf, isPoll]
    · simp only [List.mem_cons] at hc
      rcases hc with hc | hc
      · subst hc
        cases p <;> simp_all [callOf, isPoll]
      · exact ih _ c hc hp

/-- number of underlying ops issued from a phase: at most two from `first`, at most one afterwards -/
def opCount : Trace → Nat
  | [] => 0
  | (.op, _) :: t => opCount t + 1
  | _ :: t => opCount t

theorem opCount_polling (cfg : Cfg) (ts : TS) (script : List R) :
    opCount (runFrom cfg ts .polling script).2 ≤ 1 := by
  induction script with
  | nil => simp [runFrom, callOf, opCount]
  | cons r rest ih =>
    cases r with
    | ok v =>
      cases v with
      | zero => simp [runFrom, wstep, callOf, opCount]
      | succ n =>
        cases rest with
        | nil => simp [runFrom, wstep, callOf, opCount]
        | cons r2 rest2 => cases r2 <;> simp [runFrom, wstep, callOf, opCount]
    | err e =>
      by_cases he : e = EINTR
      · simp only [runFrom, wstep, he, if_true, callOf, opCount]; exact ih
      · simp [runFrom, wstep, he, callOf, opCount]

theorem opCount_first (cfg : Cfg) (ts : TS) (script : List R) :
    opCount (runFrom cfg ts .first script).2 ≤ 2 := by
  cases script with
  | nil => simp [runFrom, callOf, opCount]
  | cons r rest =>
    cases r with
    | ok v => simp [runFrom, wstep, callOf, opCount]
    | err e =>
      by_cases he : e = cfg.blockErrno
      · simp only [runFrom, wstep, he, if_true, callOf, opCount]
        have := opCount_polling cfg ts rest
        omega
      · simp [runFrom, wstep, he, callOf, opCount]

/-! ## stream system invariant -/

structure Inv (s : Sys) : Prop where
  flow : s.deq ++ s.q = s.data.take s.sent
  sentLe : s.sent ≤ s.data.length
  posEq : s.pos = s.sent
  rcvdEq : s.rcvd = s.deq
  rbufNil : s.rbuf = []
  wRun : ∀ p, s.w = .run p → s.pos < s.data.length
  wOk : s.w = .done .ok → s.pos = s.data.length
  rRun : (s.r = .idle ∨ ∃ p len, s.r = .run p len) → s.rcvd.length < s.want
  rLen : ∀ p len, s.r = .run p len → 1 ≤ len
  rFull : s.r = .done .full → s.want ≤ s.rcvd.length
  rEof : s.r = .done .eof → s.q = [] ∧ s.closed = true
  closedW : s.closed = true → ∃ d, s.w = .done d

theorem clamp_bounds (m hi : Nat) (h : 1 ≤ hi) : 1 ≤ clamp m 1 hi ∧ clamp m 1 hi ≤ hi := by
  simp only [clamp]; omega

theorem not_closed_of_run (s : Sys) (hi : Inv s) (p : Phase) (hp : s.w = .run p) : s.closed = false := by
  cases hc : s.closed with
  | false => rfl
  | true => obtain ⟨d, hd⟩ := hi.closedW hc; rw [hd] at hp; cases hp

theorem inv_w_phase (s : Sys) (hi : Inv s) (p p' : Phase) (hp : s.w = .run p) : Inv { s with w := .run p' } := by
  have hc := not_closed_of_run s hi p hp
  have hr := hi.wRun p hp
  have hi' := hi
  obtain ⟨h1, h2, h3, h4, h5, h6, h7, h8, h8b, h9, h10, h11⟩ := hi
  constructor <;> simp_all

theorem inv_w_done (s : Sys) (hi : Inv s) (p : Phase) (d : WDone) (hp : s.w = .run p) (hd : d ≠ .ok) :
    Inv { s with w := .done d } := by
  obtain ⟨h1, h2, h3, h4, h5, h6, h7, h8, h8b, h9, h10, h11⟩ := hi
  constructor <;> simp_all

/-- writer step when the kernel accepted `k` bytes -/
theorem inv_write_ok (s : Sys) (hi : Inv s) (k : Nat) (hk1 : 1 ≤ k) (hk : k ≤ (s.data.drop s.pos).length)
    (p : Phase) (hp : s.w = .run p) :
    Inv (wAfter { s with q := s.q ++ (s.data.drop s.pos).take k, sent := s.sent + k } (.ok k)) := by
  obtain ⟨k', rfl⟩ : ∃ k', k = k' + 1 := ⟨k - 1, by omega⟩
  have hpos := hi.posEq
  have hlen : s.pos + (k' + 1) ≤ s.data.length := by simp only [List.length_drop] at hk; omega
  have hflow : s.deq ++ (s.q ++ (s.data.drop s.pos).take (k' + 1)) = s.data.take (s.sent + (k' + 1)) := by
    rw [← List.append_assoc, hi.flow, hpos]; exact List.take_add.symm
  have hcl := not_closed_of_run s hi p hp
  obtain ⟨h1, h2, h3, h4, h5, h6, h7, h8, h8b, h9, h10, h11⟩ := hi
  simp only [wAfter]
  split
  · constructor <;> simp_all <;> omega
  · constructor <;> simp_all <;> omega



theorem wFinish_no_transfer (s : Sys) (hi : Inv s) (p : Phase) (hp : s.w = .run p) (r : R)
    (hr : ∀ v, r = .ok v → p = .polling) : Inv (wFinish s (wstep writeCfg p r)) := by
  cases r with
  | ok v =>
    have := hr v rfl; subst this
    cases v with
    | zero => simp only [wstep, wFinish, wAfter]; exact inv_w_done s hi _ _ hp (by simp)
    | succ n => simp only [wstep, wFinish]; exact inv_w_phase s hi _ _ hp
  | err e =>
    cases p with
    | first =>
      by_cases h : e = writeCfg.blockErrno
      · simp only [wstep, h, if_true, wFinish]; exact inv_w_phase s hi _ _ hp
      · simp only [wstep, h, if_false, wFinish, wAfter]
        split
        · exact inv_w_phase s hi _ _ hp
        · exact inv_w_done s hi _ _ hp (by simp)
    | polling =>
      by_cases h : e = EINTR
      · simp only [wstep, h, if_true, wFinish]; exact inv_w_phase s hi _ _ hp
      · simp only [wstep, h, if_false, wFinish, wAfter]; exact inv_w_done s hi _ _ hp (by simp)
    | retry =>
      simp only [wstep, wFinish, wAfter]
      split
      · exact inv_w_phase s hi _ _ hp
      · exact inv_w_done s hi _ _ hp (by simp)

theorem step_w_inv (s : Sys) (hi : Inv s) (env : Env) : Inv (step s (.w env)) := by
  cases hw : s.w with
  | done d => simp only [step, hw]; exact hi
  | run p =>
    simp only [step, hw]
    cases env with
    | fail e =>
      have : kWrite s p (.fail e) = (.err e, s) := by cases p <;> simp [kWrite, callOf]
      rw [this]
      exact wFinish_no_transfer s hi p hw _ (by intro v h; cases h)
    | succeed m =>
      cases p with
      | polling =>
        have : kWrite s .polling (.succeed m) = (.ok m, s) := by simp [kWrite, callOf]
        rw [this]
        exact wFinish_no_transfer s hi _ hw _ (by intro v h; rfl)
      | first =>
        simp only [kWrite, callOf]
        split
        · exact wFinish_no_transfer s hi _ hw _ (by intro v h; cases h)
        · rename_i hne
          have hb := clamp_bounds m (min (s.data.drop s.pos).length (s.cap - s.q.length)) (by omega)
          simp only [wstep, wFinish]
          exact inv_write_ok s hi _ hb.1 (by omega) _ hw
      | retry =>
        simp only [kWrite, callOf]
        split
        · exact wFinish_no_transfer s hi _ hw _ (by intro v h; cases h)
        · rename_i hne
          have hb := clamp_bounds m (min (s.data.drop s.pos).length (s.cap - s.q.length)) (by omega)
          simp only [wstep, wFinish]
          exact inv_write_ok s hi _ hb.1 (by omega) _ hw


def RActive (s : Sys) : Prop := s.r = .idle ∨ ∃ p len, s.r = .run p len

theorem inv_r_phase (s : Sys) (hi : Inv s) (ha : RActive s) (p' : Phase) (len : Nat) (hlen : 1 ≤ len) :
    Inv { s with r := .run p' len } := by
  have := hi.rRun ha
  obtain ⟨h1, h2, h3, h4, h5, h6, h7, h8, h8b, h9, h10, h11⟩ := hi
  constructor <;> simp_all

theorem inv_r_idle (s : Sys) (hi : Inv s) (ha : RActive s) : Inv { s with rbuf := [], r := .idle } := by
  have := hi.rRun ha
  obtain ⟨h1, h2, h3, h4, h5, h6, h7, h8, h8b, h9, h10, h11⟩ := hi
  constructor <;> simp_all

theorem inv_r_done (s : Sys) (hi : Inv s) (d : RDone) (h1 : d ≠ .full) (h2 : d ≠ .eof) :
    Inv { s with rbuf := [], r := .done d } := by
  obtain ⟨h1, h2, h3, h4, h5, h6, h7, h8, h8b, h9, h10, h11⟩ := hi
  constructor <;> simp_all

theorem inv_r_eof (s : Sys) (hi : Inv s) (hq : s.q = []) (hc : s.closed = true) :
    Inv { s with rbuf := [], r := .done .eof } := by
  obtain ⟨h1, h2, h3, h4, h5, h6, h7, h8, h8b, h9, h10, h11⟩ := hi
  constructor <;> simp_all

theorem inv_read_ok (s : Sys) (hi : Inv s) (k : Nat) (hk1 : 1 ≤ k) (hk : k ≤ s.q.length) :
    Inv (rAfter { s with rbuf := s.q.take k, deq := s.deq ++ s.q.take k, q := s.q.drop k } (.ok k)) := by
  obtain ⟨k', rfl⟩ : ∃ k', k = k' + 1 := ⟨k - 1, by omega⟩
  have hflow : s.deq ++ s.q.take (k' + 1) ++ s.q.drop (k' + 1) = s.data.take s.sent := by
    rw [List.append_assoc, List.take_append_drop]; exact hi.flow
  have htk : (s.q.take (k' + 1)).take (k' + 1) = s.q.take (k' + 1) := by
    rw [List.take_take]; simp
  obtain ⟨h1, h2, h3, h4, h5, h6, h7, h8, h8b, h9, h10, h11⟩ := hi
  simp only [rAfter, htk]
  split
  · constructor <;> simp_all
  · constructor <;> simp_all <;> omega

theorem rFinish_no_transfer (s : Sys) (hi : Inv s) (ha : RActive s) (p : Phase) (len : Nat) (hlen : 1 ≤ len) (r : R)
    (hr : ∀ v, r = .ok v → p = .polling ∨ (v = 0 ∧ s.q = [] ∧ s.closed = true)) :
    Inv (rFinish s len (wstep readCfg p r)) := by
  cases r with
  | ok v =>
    rcases hr v rfl with hp | ⟨hv, hq, hc⟩
    · subst hp
      cases v with
      | zero => simp only [wstep, rFinish, rAfter]; exact inv_r_done s hi _ (by simp) (by simp)
      | succ n => simp only [wstep, rFinish]; exact inv_r_phase s hi ha _ _ hlen
    · subst hv
      cases p with
      | first => simp only [wstep, rFinish, rAfter]; exact inv_r_eof s hi hq hc
      | polling => simp only [wstep, rFinish, rAfter]; exact inv_r_done s hi _ (by simp) (by simp)
      | retry => simp only [wstep, rFinish, rAfter]; exact inv_r_eof s hi hq hc
  | err e =>
    cases p with
    | first =>
      by_cases h : e = readCfg.blockErrno
      · simp only [wstep, h, if_true, rFinish]; exact inv_r_phase s hi ha _ _ hlen
      · simp only [wstep, h, if_false, rFinish, rAfter]
        split
        · exact inv_r_idle s hi ha
        · exact inv_r_done s hi _ (by simp) (by simp)
    | polling =>
      by_cases h : e = EINTR
      · simp only [wstep, h, if_true, rFinish]; exact inv_r_phase s hi ha _ _ hlen
      · simp only [wstep, h, if_false, rFinish, rAfter]; exact inv_r_done s hi _ (by simp) (by simp)
    | retry =>
      simp only [wstep, rFinish, rAfter]
      split
      · exact inv_r_idle s hi ha
      · exact inv_r_done s hi _ (by simp) (by simp)

theorem kRead_inv (s : Sys) (hi : Inv s) (ha : RActive s) (p : Phase) (len : Nat) (hlen : 1 ≤ len) (env : Env) :
    Inv (rFinish (kRead s p len env).2 len (wstep readCfg p (kRead s p len env).1)) := by
  cases env with
  | fail e =>
    have : kRead s p len (.fail e) = (.err e, s) := by cases p <;> simp [kRead, callOf]
    rw [this]
    exact rFinish_no_transfer s hi ha p len hlen _ (by intro v h; cases h)
  | succeed m =>
    cases p with
    | polling =>
      have : kRead s .polling len (.succeed m) = (.ok m, s) := by simp [kRead, callOf]
      rw [this]
      exact rFinish_no_transfer s hi ha _ len hlen _ (by intro v h; exact Or.inl rfl)
    | first =>
      simp only [kRead, callOf]
      split
      · rename_i hq
        have hq0 : s.q = [] := by
          rcases hq with hq | hq
          · exact List.eq_nil_of_length_eq_zero hq
          · omega
        split
        · rename_i hc
          have hc' : s.closed = true := by rcases hc with hc | hc; exact hc; omega
          exact rFinish_no_transfer s hi ha _ len hlen _ (by intro v h; cases h; exact Or.inr ⟨rfl, hq0, hc'⟩)
        · exact rFinish_no_transfer s hi ha _ len hlen _ (by intro v h; cases h)
      · rename_i hne
        have hb := clamp_bounds m (min len s.q.length) (by omega)
        simp only [wstep, rFinish]
        exact inv_read_ok s hi _ hb.1 (by omega)
    | retry =>
      simp only [kRead, callOf]
      split
      · rename_i hq
        have hq0 : s.q = [] := by
          rcases hq with hq | hq
          · exact List.eq_nil_of_length_eq_zero hq
          · omega
        split
        · rename_i hc
          have hc' : s.closed = true := by rcases hc with hc | hc; exact hc; omega
          exact rFinish_no_transfer s hi ha _ len hlen _ (by intro v h; cases h; exact Or.inr ⟨rfl, hq0, hc'⟩)
        · exact rFinish_no_transfer s hi ha _ len hlen _ (by intro v h; cases h)
      · rename_i hne
        have hb := clamp_bounds m (min len s.q.length) (by omega)
        simp only [wstep, rFinish]
        exact inv_read_ok s hi _ hb.1 (by omega)


theorem step_inv (s : Sys) (hi : Inv s) (st : Step) : Inv (step s st) := by
  cases st with
  | w env => exact step_w_inv s hi env
  | r chunk env =>
    cases hr : s.r with
    | done d => simp only [step, hr]; exact hi
    | idle =>
      simp only [step, hr]
      exact kRead_inv s hi (Or.inl hr) _ _ (by omega) env
    | run p len =>
      simp only [step, hr]
      exact kRead_inv s hi (Or.inr ⟨p, len, hr⟩) _ _ (hi.rLen p len hr) env
  | close =>
    cases hw : s.w with
    | run p => simp only [step, hw]; exact hi
    | done d =>
      simp only [step, hw]
      obtain ⟨h1, h2, h3, h4, h5, h6, h7, h8, h8b, h9, h10, h11⟩ := hi
      constructor <;> simp_all

theorem init_inv (data : List Nat) (cap want : Nat) : Inv (Sys.init data cap want) := by
  by_cases hd : data.length = 0 <;> by_cases hw : want = 0 <;>
    constructor <;> simp_all [Sys.init] <;>
      first | omega | exact List.length_pos_iff.mpr hd

theorem exec_inv (s : Sys) (hi : Inv s) (steps : List Step) : Inv (exec s steps) := by
  induction steps generalizing s with
  | nil => exact hi
  | cons st rest ih => exact ih _ (step_inv s hi st)

theorem wAfter_data (s : Sys) (o : Out) : (wAfter s o).data = s.data := by
  cases o with
  | ok v => cases v <;> simp only [wAfter] <;> (try split) <;> rfl
  | os e => simp only [wAfter]; split <;> rfl
  | _ => rfl

theorem rAfter_data (s : Sys) (o : Out) : (rAfter s o).data = s.data := by
  cases o with
  | ok v => cases v <;> simp only [rAfter] <;> (try split) <;> rfl
  | os e => simp only [rAfter]; split <;> rfl
  | _ => rfl

theorem kWrite_data (s : Sys) (p : Phase) (env : Env) : (kWrite s p env).2.data = s.data := by
  cases p <;> cases env <;> simp only [kWrite, callOf] <;> (try split) <;> rfl

theorem kRead_data (s : Sys) (p : Phase) (len : Nat) (env : Env) : (kRead s p len env).2.data = s.data := by
  cases p <;> cases env <;> simp only [kRead, callOf] <;> (try split) <;> (try split) <;> rfl

theorem wFinish_data (s : Sys) (x : Sum Phase Out) : (wFinish s x).data = s.data := by
  cases x with
  | inl p => rfl
  | inr o => exact wAfter_data s o

theorem rFinish_data (s : Sys) (len : Nat) (x : Sum Phase Out) : (rFinish s len x).data = s.data := by
  cases x with
  | inl p => rfl
  | inr o => exact rAfter_data s o

theorem step_data (s : Sys) (st : Step) : (step s st).data = s.data := by
  cases st with
  | w env =>
    cases hw : s.w with
    | done d => simp only [step, hw]
    | run p => simp only [step, hw]; rw [wFinish_data, kWrite_data]
  | r chunk env =>
    cases hr : s.r with
    | done d => simp only [step, hr]
    | idle => simp only [step, hr]; rw [rFinish_data, kRead_data]
    | run p len => simp only [step, hr]; rw [rFinish_data, kRead_data]
  | close =>
    cases hw : s.w with
    | done d => simp only [step, hw]
    | run p => simp only [step, hw]

theorem exec_data (s : Sys) (steps : List Step) : (exec s steps).data = s.data := by
  induction steps generalizing s with
  | nil => rfl
  | cons st rest ih => simp only [exec]; rw [ih, step_data]

end TinyVerif.SockWrap
