/- Helper lemmas for C20 (derived argument parsers): cause buffer arithmetic, simulation of the generated loop by
   item-level updates. -/
import TinyVerif.Model.Cli
namespace TinyVerif.Cli

/-! ## cause buffer -/

/-- the representation invariant of `ArgParseCauseBuffer`: `len` counts the bytes written and never exceeds 128 -/
def CauseBuf.Inv (b : CauseBuf) : Prop := b.len = b.data.length ∧ b.len ≤ CAP

theorem writeAll_spec (ps : List Bytes) : ∀ (b : CauseBuf), b.Inv →
    b.writeAll ps =
      if b.len + ps.flatten.length ≤ CAP then .ok ⟨b.len + ps.flatten.length, b.data ++ ps.flatten⟩ else .fmtErr := by
  induction ps with
  | nil => intro b hb; have := hb.2; simp [CauseBuf.writeAll, this]
  | cons s rest ih =>
    intro b hb
    obtain ⟨h1, h2⟩ := hb
    simp only [CauseBuf.writeAll, CauseBuf.writeStr, List.flatten_cons, List.length_append]
    have hc : ¬ CAP < b.len := by omega
    simp only [hc, if_false]
    by_cases hs : CAP - b.len < s.length
    · simp only [hs, if_true]
      have : ¬ (b.len + (s.length + rest.flatten.length) ≤ CAP) := by omega
      rw [if_neg this]
    · have h3 : ¬ CAP < b.len + s.length := by omega
      simp only [hs, h3, if_false]
      rw [ih ⟨b.len + s.length, b.data ++ s⟩ ⟨by simp [h1], by simp only []; omega⟩]
      simp only [List.append_assoc, Nat.add_assoc]


theorem newCause_spec (ps : List Bytes) :
    newCause ps = .ok (if ps.flatten.length ≤ CAP then ps.flatten else M_OVERFLOW) := by
  have h := writeAll_spec ps CauseBuf.new ⟨rfl, by simp [CauseBuf.new]⟩
  simp only [CauseBuf.new, Nat.zero_add, List.nil_append] at h
  unfold newCause
  simp only [CauseBuf.new]
  rw [h]
  by_cases hc : ps.flatten.length ≤ CAP
  · rw [if_pos hc, if_pos hc]
    simp only [List.take_length]
  · rw [if_neg hc, if_neg hc]

/-! ## item-level semantics of a command line -/

/-- what one occurrence does to the locals -/
def applyItem (accs : List Acc) : Item → List Acc
  | .optv i _ a => accs.modify i (Acc.put a)
  | .flag i _ => accs.modify i Acc.setFlag
  | .posv i a => accs.modify i (Acc.put a)

def applyItems (accs : List Acc) (its : List Item) : List Acc := its.foldl applyItem accs

/-- the occurrence is consumed by the generated loop as intended when the locals are `accs` -/
def GoodItem (fs : List Field) (hasSub : Bool) (accs : List Acc) : Item → Prop
  | .optv i ul a => ∃ f l, fs[i]? = some f ∧ f.lit ul = some l ∧ findOpt fs 0 l = some (i, f) ∧ f.kind ≠ .bool ∧
      convert f.kind (printAtom a) = .ok a
  | .flag i ul => ∃ f l, fs[i]? = some f ∧ f.lit ul = some l ∧ findOpt fs 0 l = some (i, f) ∧ f.kind = .bool
  | .posv i a => hasSub = false ∧ findOpt fs 0 (printAtom a) = none ∧ isHelp (printAtom a) = false ∧
      ∃ f, firstEmptyPos fs accs 0 = some (i, f) ∧ convert f.kind (printAtom a) = .ok a

def GoodItems (fs : List Field) (hasSub : Bool) : List Acc → List Item → Prop
  | _, [] => True
  | accs, it :: r => GoodItem fs hasSub accs it ∧ GoodItems fs hasSub (applyItem accs it) r

/-- **Simulation**: a prefix of well-formed occurrences moves the generated loop from `accs` to `applyItems accs its`. -/
theorem loop_items (fs : List Field) (hs : Bool) (subp : Bytes → List Bytes → SubRes) (sv : SubVal) (tail : List Bytes) :
    ∀ (its : List Item) (accs : List Acc), GoodItems fs hs accs its →
      loop fs hs subp accs sv (renderItems fs its ++ tail) = loop fs hs subp (applyItems accs its) sv tail := by
  intro its
  induction its with
  | nil => intro accs _; simp [renderItems, applyItems]
  | cons it r ih =>
    intro accs hg
    obtain ⟨hit, hr⟩ := hg
    have ih' := ih (applyItem accs it) hr
    simp only [renderItems, List.flatMap_cons, applyItems, List.foldl_cons, List.append_assoc] at ih' ⊢
    cases it with
    | optv i ul a =>
      obtain ⟨f, l, hf, hl, hfind, hk, hc⟩ := hit
      simp only [renderItem, hf, hl, List.cons_append, List.nil_append]
      rw [loop]
      simp only [hfind, hk, if_false, hc]
      exact ih'
    | flag i ul =>
      obtain ⟨f, l, hf, hl, hfind, hk⟩ := hit
      simp only [renderItem, hf, hl, List.cons_append, List.nil_append]
      rw [loop]
      simp only [hfind, hk, if_true]
      exact ih'
    | posv i a =>
      obtain ⟨hsub, hfind, hh, f, hpos, hc⟩ := hit
      simp only [renderItem, List.cons_append, List.nil_append]
      rw [loop]
      subst hsub
      simp only [hfind, hh, hpos, hc, Bool.false_eq_true, if_false]
      exact ih'


/-! ## per-field projection of the item-level semantics -/

def Item.target : Item → Nat
  | .optv i _ _ => i
  | .flag i _ => i
  | .posv i _ => i

def Item.upd : Item → Acc → Acc
  | .optv _ _ a => Acc.put a
  | .flag _ _ => Acc.setFlag
  | .posv _ a => Acc.put a

def Item.atom? : Item → Option Atom
  | .optv _ _ a => some a
  | .flag _ _ => none
  | .posv _ a => some a

theorem applyItem_eq (accs : List Acc) (it : Item) : applyItem accs it = accs.modify it.target it.upd := by
  cases it <;> rfl

/-- the occurrences aimed at field `j`, in command-line order -/
def occs (j : Nat) (its : List Item) : List Item := its.filter (fun it => it.target == j)

/-- a field's local after the whole command line depends only on the occurrences aimed at it, in their order -/
theorem applyItems_getElem? (its : List Item) : ∀ (accs : List Acc) (j : Nat),
    (applyItems accs its)[j]? = (accs[j]?).map (fun acc => (occs j its).foldl (fun a it => it.upd a) acc) := by
  induction its with
  | nil => intro accs j; simp [applyItems, occs]
  | cons it r ih =>
    intro accs j
    have h1 : applyItems accs (it :: r) = applyItems (applyItem accs it) r := rfl
    rw [h1, ih, applyItem_eq, List.getElem?_modify]
    by_cases h : it.target = j
    · have h2 : occs j (it :: r) = it :: occs j r := by simp [occs, List.filter_cons, h]
      rw [h2]
      cases accs[j]? <;> simp [h]
    · have h2 : occs j (it :: r) = occs j r := by simp [occs, List.filter_cons, h]
      rw [h2]
      cases accs[j]? <;> simp [h]

theorem applyItems_length (its : List Item) : ∀ (accs : List Acc), (applyItems accs its).length = accs.length := by
  induction its with
  | nil => intro accs; rfl
  | cons it r ih =>
    intro accs
    have h1 : applyItems accs (it :: r) = applyItems (applyItem accs it) r := rfl
    rw [h1, ih, applyItem_eq, List.length_modify]

/-! ## from the declarative conditions to `GoodItems` -/

/-- every match literal finds its own field (no earlier arm of the generated `match` shadows it) -/
def Unshadowed (fs : List Field) : Prop :=
  ∀ (i : Nat) (f : Field) (ul : Bool) (l : Bytes), fs[i]? = some f → f.lit ul = some l → findOpt fs 0 l = some (i, f)

/-- positional fields are `T` or `Option<T>` of a value type (the derive rejects `bool` and `Vec` positionals) -/
def PosWf (fs : List Field) : Prop :=
  ∀ (i : Nat) (f : Field), fs[i]? = some f → f.isPos = true → f.kind ≠ .bool ∧ f.pkg ≠ .vec

/-- the occurrence is well-typed for the field it aims at; a positional value is not an option literal of the struct
and not a help request (value-taking options accept *any* value) -/
def ItemOk (fs : List Field) (hasSub : Bool) : Item → Prop
  | .optv i ul a => ∃ f, fs[i]? = some f ∧ (f.lit ul).isSome = true ∧ f.kind ≠ .bool ∧ convert f.kind (printAtom a) = .ok a
  | .flag i ul => ∃ f, fs[i]? = some f ∧ (f.lit ul).isSome = true ∧ f.kind = .bool
  | .posv i a => ∃ f, fs[i]? = some f ∧ f.isPos = true ∧ hasSub = false ∧ findOpt fs 0 (printAtom a) = none ∧
      isHelp (printAtom a) = false ∧ convert f.kind (printAtom a) = .ok a

/-- positional values come in declaration order: each aims at a positional field not yet filled (`seen`) all of whose
positional predecessors are filled -/
def PosOrdered (fs : List Field) : List Nat → List Item → Prop
  | _, [] => True
  | seen, .posv i _ :: r =>
    i ∉ seen ∧ (∀ (j : Nat) (g : Field), j < i → fs[j]? = some g → g.isPos = true → j ∈ seen) ∧ PosOrdered fs (i :: seen) r
  | seen, .optv _ _ _ :: r => PosOrdered fs seen r
  | seen, .flag _ _ :: r => PosOrdered fs seen r

def PosInv (fs : List Field) (seen : List Nat) (accs : List Acc) : Prop :=
  ∀ (j : Nat) (g : Field), fs[j]? = some g → g.isPos = true →
    (j ∈ seen → ∃ a, accs[j]? = some (.single (some a))) ∧ (j ∉ seen → accs[j]? = some (.single none))

theorem lit_some_not_pos (f : Field) (ul : Bool) (h : (f.lit ul).isSome = true) : f.isPos = false := by
  unfold Field.lit at h
  unfold Field.isPos
  cases ul <;> simp at h <;> cases hl : f.long <;> cases hs : f.short <;> simp_all

theorem firstEmptyPos_eq : ∀ (fs : List Field) (accs : List Acc) (k i : Nat) (f : Field),
    fs[i]? = some f → f.isPos = true → accs[i]? = some (.single none) →
    (∀ (j : Nat) (g : Field), j < i → fs[j]? = some g → g.isPos = true → accs[j]? ≠ some (.single none)) →
    firstEmptyPos fs accs k = some (k + i, f) := by
  intro fs
  induction fs with
  | nil => intro accs k i f h; simp at h
  | cons g fs' ih =>
    intro accs k i f hf hp ha hlt
    cases accs with
    | nil => simp at ha
    | cons a accs' =>
      cases i with
      | zero =>
        simp at hf ha
        subst hf; subst ha
        simp [firstEmptyPos, hp]
      | succ i' =>
        simp at hf ha
        have h0 := hlt 0 g (by omega) (by simp)
        have hne : ¬ (g.isPos = true ∧ a = .single none) := by
          intro ⟨h1, h2⟩
          have := h0 h1
          simp [h2] at this
        have hcond : (g.isPos && a == Acc.single none) = false := by
          cases hg : g.isPos
          · simp
          · simp; intro h2; exact hne ⟨hg, h2⟩
        rw [firstEmptyPos]
        simp only [hcond, Bool.false_eq_true, if_false]
        have := ih accs' (k + 1) i' f hf hp ha (by
          intro j g' hj hg' hp'
          have := hlt (j + 1) g' (by omega) (by simpa using hg') hp'
          simpa using this)
        rw [this]
        congr 2
        omega

theorem good_of_declarative (fs : List Field) (hs : Bool) (hU : Unshadowed fs) (hP : PosWf fs) :
    ∀ (its : List Item) (seen : List Nat) (accs : List Acc),
      (∀ it ∈ its, ItemOk fs hs it) → PosOrdered fs seen its → PosInv fs seen accs → GoodItems fs hs accs its := by
  intro its
  induction its with
  | nil => intro _ _ _ _ _; trivial
  | cons it r ih =>
    intro seen accs hok hord hinv
    have hit := hok it (by simp)
    have hrest : ∀ it' ∈ r, ItemOk fs hs it' := fun it' h => hok it' (by simp [h])
    -- a non-positional target leaves the positional invariant alone
    have keep : ∀ (i : Nat) (f : Field) (u : Acc → Acc), fs[i]? = some f → f.isPos = false →
        PosInv fs seen (accs.modify i u) := by
      intro i f u hf hnp j g hg hgp
      have hne : i ≠ j := by
        intro h; subst h; rw [hf] at hg; cases hg; rw [hnp] at hgp; cases hgp
      rw [List.getElem?_modify]
      have := hinv j g hg hgp
      cases hj : accs[j]? <;> simp_all
    cases it with
    | optv i ul a =>
      obtain ⟨f, hf, hl, hk, hc⟩ := hit
      obtain ⟨l, hl'⟩ := Option.isSome_iff_exists.mp hl
      exact ⟨⟨f, l, hf, hl', hU i f ul l hf hl', hk, hc⟩,
        ih seen _ hrest hord (keep i f _ hf (lit_some_not_pos f ul hl))⟩
    | flag i ul =>
      obtain ⟨f, hf, hl, hk⟩ := hit
      obtain ⟨l, hl'⟩ := Option.isSome_iff_exists.mp hl
      exact ⟨⟨f, l, hf, hl', hU i f ul l hf hl', hk⟩,
        ih seen _ hrest hord (keep i f _ hf (lit_some_not_pos f ul hl))⟩
    | posv i a =>
      obtain ⟨f, hf, hp, hsub, hfind, hh, hc⟩ := hit
      obtain ⟨hns, hpred, hord'⟩ := hord
      have hi := (hinv i f hf hp).2 hns
      have hfe : firstEmptyPos fs accs 0 = some (i, f) := by
        have := firstEmptyPos_eq fs accs 0 i f hf hp hi (by
          intro j g hj hg hgp
          obtain ⟨a', ha'⟩ := (hinv j g hg hgp).1 (hpred j g hj hg hgp)
          rw [ha']; simp)
        simpa using this
      refine ⟨⟨hsub, hfind, hh, f, hfe, hc⟩, ih (i :: seen) _ hrest hord' ?_⟩
      intro j g hg hgp
      simp only [applyItem]
      rw [List.getElem?_modify]
      by_cases hij : i = j
      · subst hij
        simp [hi, Acc.put]
      · have := hinv j g hg hgp
        have hji : ¬ j = i := fun h => hij h.symm
        cases hj : accs[j]? <;> simp_all


/-! ## from the occurrences of a field to its value -/

/-- what the occurrences `os` aimed at field `f` must be for the field to end up as `acc`:
a flag is set iff it occurs; a `Vec` collects its occurrences in order; a required field occurs exactly once; an
`Option` field at most once -/
def FieldVal (f : Field) (acc : Acc) (os : List Item) : Prop :=
  if f.kind = .bool then acc = .flag (!os.isEmpty)
  else match f.pkg with
    | .vec => acc = .many (os.filterMap Item.atom?)
    | .req => ∃ a, os.filterMap Item.atom? = [a] ∧ acc = .single (some a)
    | .opt => (os.filterMap Item.atom? = [] ∧ acc = .single none) ∨
              (∃ a, os.filterMap Item.atom? = [a] ∧ acc = .single (some a))

theorem fold_flags : ∀ (os : List Item) (b : Bool), (∀ it ∈ os, it.atom? = none) →
    os.foldl (fun a it => it.upd a) (.flag b) = .flag (b || !os.isEmpty) := by
  intro os
  induction os with
  | nil => intro b _; simp
  | cons it r ih =>
    intro b h
    have hit := h it (by simp)
    cases it with
    | optv i ul a => simp [Item.atom?] at hit
    | posv i a => simp [Item.atom?] at hit
    | flag i ul =>
      rw [List.foldl_cons]
      have hu : (Item.flag i ul).upd (Acc.flag b) = Acc.flag true := rfl
      rw [hu, ih true (fun it' h' => h it' (by simp [h']))]
      simp

theorem fold_values : ∀ (os : List Item) (acc : Acc), (∀ it ∈ os, it.atom?.isSome = true) →
    os.foldl (fun a it => it.upd a) acc = (os.filterMap Item.atom?).foldl (fun (a : Acc) (x : Atom) => a.put x) acc := by
  intro os
  induction os with
  | nil => intro acc _; rfl
  | cons it r ih =>
    intro acc h
    have hit := h it (by simp)
    have hr := fun acc' => ih acc' (fun it' h' => h it' (by simp [h']))
    cases it with
    | flag i ul => simp [Item.atom?] at hit
    | optv i ul a =>
      rw [List.foldl_cons, List.filterMap_cons]
      have hu : (Item.optv i ul a).upd acc = acc.put a := rfl
      have ha : (Item.optv i ul a).atom? = some a := rfl
      rw [hu, ha, hr]; rfl
    | posv i a =>
      rw [List.foldl_cons, List.filterMap_cons]
      have hu : (Item.posv i a).upd acc = acc.put a := rfl
      have ha : (Item.posv i a).atom? = some a := rfl
      rw [hu, ha, hr]; rfl

theorem fold_many : ∀ (as : List Atom) (l : List Atom),
    as.foldl (fun (a : Acc) (x : Atom) => a.put x) (Acc.many l) = Acc.many (l ++ as) := by
  intro as
  induction as with
  | nil => intro l; simp
  | cons a r ih =>
    intro l
    rw [List.foldl_cons]
    have hu : (Acc.many l).put a = Acc.many (l ++ [a]) := rfl
    rw [hu, ih]; simp

theorem fold_field (f : Field) (os : List Item) (acc : Acc)
    (hb : f.kind = .bool → ∀ it ∈ os, it.atom? = none)
    (hv : f.kind ≠ .bool → ∀ it ∈ os, it.atom?.isSome = true)
    (h : FieldVal f acc os) : os.foldl (fun a it => it.upd a) f.initAcc = acc := by
  unfold FieldVal at h
  unfold Field.initAcc
  by_cases hk : f.kind = .bool
  · simp only [hk, if_true] at h ⊢
    rw [fold_flags os false (hb hk), h]; simp
  · simp only [hk, if_false] at h ⊢
    rw [fold_values os _ (hv hk)]
    cases hp : f.pkg with
    | vec => simp only [hp] at h; simp only [if_true]; rw [fold_many, h]; simp
    | req =>
      simp only [hp] at h
      obtain ⟨a, h1, h2⟩ := h
      simp [h1, h2, Acc.put]
    | opt =>
      simp only [hp] at h
      rcases h with ⟨h1, h2⟩ | ⟨a, h1, h2⟩
      · simp [h1, h2]
      · simp [h1, h2, Acc.put]

theorem firstMissing_none : ∀ (fs : List Field) (vs : List Acc),
    (∀ (j : Nat) (f : Field) (acc : Acc), fs[j]? = some f → vs[j]? = some acc →
      ¬ (f.kind ≠ .bool ∧ f.pkg = .req ∧ acc = .single none)) → firstMissing fs vs = none := by
  intro fs
  induction fs with
  | nil => intro vs _; cases vs <;> rfl
  | cons f fs' ih =>
    intro vs h
    cases vs with
    | nil => rfl
    | cons a vs' =>
      have h0 := h 0 f a (by simp) (by simp)
      rw [firstMissing]
      have hc : (decide (f.kind ≠ Kind.bool) && decide (f.pkg = Pkg.req) && a == Acc.single none) = false := by
        cases hd : (decide (f.kind ≠ Kind.bool) && decide (f.pkg = Pkg.req) && a == Acc.single none)
        · rfl
        · exfalso; apply h0; simp at hd; exact ⟨hd.1.1, hd.1.2, hd.2⟩
      simp only [hc, Bool.false_eq_true, if_false]
      exact ih vs' (fun j g acc hg ha => h (j + 1) g acc (by simpa using hg) (by simpa using ha))

/-- The declarative admissibility of one struct level: `its` is an arrangement of exactly the field values `vs`. -/
structure LevelAdm (fs : List Field) (hasSub : Bool) (vs : List Acc) (its : List Item) : Prop where
  unshadowed : Unshadowed fs
  posWf : PosWf fs
  items : ∀ it ∈ its, ItemOk fs hasSub it
  ordered : PosOrdered fs [] its
  len : vs.length = fs.length
  vals : ∀ (j : Nat) (f : Field), fs[j]? = some f → ∃ acc, vs[j]? = some acc ∧ FieldVal f acc (occs j its)

theorem level_sound {fs : List Field} {hs : Bool} {vs : List Acc} {its : List Item} (h : LevelAdm fs hs vs its) :
    GoodItems fs hs (initAccs fs) its ∧ applyItems (initAccs fs) its = vs ∧ firstMissing fs vs = none := by
  refine ⟨?_, ?_, ?_⟩
  · apply good_of_declarative fs hs h.unshadowed h.posWf its [] (initAccs fs) h.items h.ordered
    intro j g hg hgp
    obtain ⟨hk, hp⟩ := h.posWf j g hg hgp
    refine ⟨(by intro hm; cases hm), fun _ => ?_⟩
    simp [initAccs, hg, Field.initAcc, hk, hp]
  · apply List.ext_getElem?
    intro j
    rw [applyItems_getElem?]
    cases hf : fs[j]? with
    | none =>
      have h1 : (initAccs fs)[j]? = none := by simp [initAccs, hf]
      have h2 : vs[j]? = none := by
        have := List.getElem?_eq_none_iff.mp hf
        exact List.getElem?_eq_none_iff.mpr (by rw [h.len]; exact this)
      rw [h1, h2]; rfl
    | some f =>
      obtain ⟨acc, ha, hv⟩ := h.vals j f hf
      have h1 : (initAccs fs)[j]? = some f.initAcc := by simp [initAccs, hf]
      rw [h1, ha]
      simp only [Option.map_some]
      congr 1
      -- typing of the occurrences aimed at `j`
      have hty : ∀ it ∈ occs j its, (f.kind = .bool → it.atom? = none) ∧ (f.kind ≠ .bool → it.atom?.isSome = true) := by
        intro it hit
        simp only [occs, List.mem_filter, beq_iff_eq] at hit
        obtain ⟨hmem, htg⟩ := hit
        have hok := h.items it hmem
        cases it with
        | optv i ul a =>
          obtain ⟨f', hf', _, hk, _⟩ := hok
          simp only [Item.target] at htg; subst htg
          rw [hf] at hf'; cases hf'
          exact ⟨fun hb => absurd hb hk, fun _ => rfl⟩
        | flag i ul =>
          obtain ⟨f', hf', _, hk⟩ := hok
          simp only [Item.target] at htg; subst htg
          rw [hf] at hf'; cases hf'
          exact ⟨fun _ => rfl, fun hb => absurd hk hb⟩
        | posv i a =>
          obtain ⟨f', hf', hp, _⟩ := hok
          simp only [Item.target] at htg; subst htg
          rw [hf] at hf'; cases hf'
          exact ⟨fun hb => absurd hb (h.posWf _ _ hf hp).1, fun _ => rfl⟩
      exact fold_field f _ acc (fun hb it hit => (hty it hit).1 hb) (fun hb it hit => (hty it hit).2 hb) hv
  · apply firstMissing_none
    intro j f acc hf ha ⟨hk, hp, hacc⟩
    obtain ⟨acc', ha', hv⟩ := h.vals j f hf
    rw [ha] at ha'; cases ha'
    unfold FieldVal at hv
    simp only [hk, if_false, hp] at hv
    obtain ⟨a, _, h2⟩ := hv
    rw [hacc] at h2; cases h2

end TinyVerif.Cli
