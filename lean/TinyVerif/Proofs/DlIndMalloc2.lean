import TinyVerif.Proofs.DlIndMalloc
/-!
# `malloc_nosys` preserves the invariant — tree branches and the interface theorem

`tmalloc_small` (`tsmall-exhaust`, `tsmall-split`) and `tmalloc_large` (`tlarge-exhaust`, `tlarge-split`)
on the generic layer of `Proofs/DlIndMalloc.lean`; then `mn_malloc_nosys_spec : malloc_nosys_Spec`
(`Proofs/DlIndSpec.lean`), which dispatches over all ten outcomes of `malloc_nosys`.

Nothing about *which* chunk the tree search picks is needed: `unlink_large_chunk` succeeds only on a
member of a tree bin, and the model asserts that the header size of the chosen chunk is `rsize + nb`.
-/
namespace TinyVerif.Dl

/-! ## `tmalloc_small`: `tsmall-exhaust`, `tsmall-split` -/

theorem mn_tmalloc_small_wfs {s : St} (w : WFS s) {nb : Nat} (hnb16 : nb % 16 = 0) (hnb32 : 32 ≤ nb)
    {h' : Heap} {mem : Nat} (hh : tmalloc_small s.h nb = .ok (h', mem)) :
    WFS { s with h := h' } ∧ AllocFacts s.h.ents h'.ents nb mem := by
  unfold tmalloc_small at hh
  dsimp only at hh
  msimp at hh
  obtain ⟨t, ht, hh⟩ := hh
  split at hh
  · msimp at hh
  · rename_i a sz ring l r
    msimp at hh
    obtain ⟨_, hlt, hh⟩ := hh
    generalize hres : Tree.lmBest _ nb (some a) (sz - nb) = res at hh
    obtain ⟨v, rsize⟩ := res
    dsimp only at hh
    split at hh
    · msimp at hh
    · rename_i vc
      msimp at hh
      obtain ⟨e, he, _, hsz, h1, e1, hh⟩ := hh
      simp only [ne_eq, decide_eq_false_iff_not, Decidable.not_not] at hsz
      have u := mn_unlinked_large w e1
      split at hh
      · -- `tsmall-exhaust`
        msimp at hh
        obtain ⟨h2, e2, hh⟩ := hh
        simp only [Prod.mk.injEq] at hh
        obtain ⟨hh1, hh2⟩ := hh
        subst hh1; subst hh2
        obtain ⟨r1, r2⟩ := mn_exhaust_wfs w u (getE_spec he) hsz e2 (nb := nb) (by omega) "tsmall-exhaust"
        exact ⟨r1, vc, by rw [MEM_OFFSET_eq], r2⟩
      · -- `tsmall-split`
        rename_i hge
        rw [MIN_CHUNK_SIZE_eq] at hge
        msimp at hh
        obtain ⟨h2, e2, h3, e3, h4, e4, hh⟩ := hh
        simp only [Prod.mk.injEq] at hh
        obtain ⟨hh1, hh2⟩ := hh
        subst hh1; subst hh2
        have m := mn_split_mid w u (getE_spec he) (by omega) hnb16 hnb32 (by omega) e2 e3
        obtain ⟨r1, r2⟩ := mn_split_dv_wfs w m (by omega) (by omega) e4 "tsmall-split"
        exact ⟨r1, vc, by rw [MEM_OFFSET_eq], r2⟩

/-! ## `tmalloc_large`: `tlarge-exhaust`, `tlarge-split` -/

theorem mn_tmalloc_large_wfs {s : St} (w : WFS s) {nb : Nat} (hnb16 : nb % 16 = 0) (hnb32 : 32 ≤ nb)
    {h' : Heap} {mem : Nat} (hh : tmalloc_large s.h nb = .ok (some (h', mem))) :
    WFS { s with h := h' } ∧ AllocFacts s.h.ents h'.ents nb mem := by
  unfold tmalloc_large at hh
  msimp at hh
  obtain ⟨⟨v, rsize⟩, hs, hh⟩ := hh
  dsimp only at hh
  split at hh
  · msimp at hh; cases hh
  · rename_i vc
    split at hh
    · msimp at hh; cases hh
    · msimp at hh
      obtain ⟨e, he, _, hsz, h1, e1, hh⟩ := hh
      simp only [ne_eq, decide_eq_false_iff_not, Decidable.not_not] at hsz
      have u := mn_unlinked_large w e1
      split at hh
      · -- `tlarge-exhaust`
        msimp at hh
        obtain ⟨h2, e2, hh⟩ := hh
        injection hh with hh
        simp only [Prod.mk.injEq] at hh
        obtain ⟨hh1, hh2⟩ := hh
        subst hh1; subst hh2
        obtain ⟨r1, r2⟩ := mn_exhaust_wfs w u (getE_spec he) hsz e2 (nb := nb) (by omega) "tlarge-exhaust"
        exact ⟨r1, vc, by rw [MEM_OFFSET_eq], r2⟩
      · -- `tlarge-split`
        rename_i hge
        rw [MIN_CHUNK_SIZE_eq] at hge
        msimp at hh
        obtain ⟨h2, e2, h3, e3, h4, e4, hh⟩ := hh
        injection hh with hh
        simp only [Prod.mk.injEq] at hh
        obtain ⟨hh1, hh2⟩ := hh
        subst hh1; subst hh2
        have hxm := (findEnt_some (getE_spec he)).1
        obtain ⟨_, hes16, _⟩ := shapeOk_free w.shape hxm
          (isFree_iff.1 (by
            obtain ⟨⟨x, hfx, hxf⟩, _, _⟩ := w.binned_free ((u.perm.mem_iff).2 List.mem_cons_self)
            rw [getE_spec he] at hfx
            injection hfx with hfx
            subst hfx
            exact hxf)).1
        have m := mn_split_mid w u (getE_spec he) (by omega) hnb16 hnb32 (by omega) e2 e3
        obtain ⟨r1, r2⟩ := mn_split_ins_wfs w m (by omega) e4 "tlarge-split"
        exact ⟨r1, vc, by rw [MEM_OFFSET_eq], r2⟩

/-! ## the interface theorem -/

/-- **`malloc_nosys` preserves `SInv`** and hands out a fresh user chunk of at least `nbOf size` bytes
(`malloc_nosys_Spec`, `Proofs/DlIndSpec.lean`), for all ten outcomes: `small-bin`, `small-next-exhaust`,
`small-next-split`, `tsmall-exhaust`, `tsmall-split`, `tlarge-exhaust`, `tlarge-split`, `dv-split`,
`dv-exhaust`, `top-split`. -/
theorem mn_malloc_nosys_spec : malloc_nosys_Spec := by
  intro s hi size h' mem hh
  have w := hi.wfs
  by_cases hs : size ≤ MAX_SMALL_REQUEST
  · have hs' := hs
    rw [MAX_SMALL_REQUEST_eq] at hs'
    have hnb32 := request2size_ge_min size (by omega)
    have hnb16 := request2size_aligned size (by omega)
    have hnbof : nbOf size = request2size size := by unfold nbOf; rw [if_pos hs]
    by_cases hbits : (smallmap s.h >>> small_index (request2size size)) &&& 3 ≠ 0
    · exact gl_malloc_nosys_small_bin_sinv hi hs hbits hh
    · rw [hnbof]
      unfold malloc_nosys at hh
      dsimp only at hh
      rw [if_pos hs, if_neg hbits] at hh
      split at hh
      · split at hh
        · -- the next non-empty small bin
          msimp at hh
          obtain ⟨⟨h1, p⟩, e1, _, hlt, hh⟩ := hh
          simp only [decide_eq_false_iff_not, Nat.not_lt] at hlt
          split at hh
          · -- `small-next-exhaust`
            msimp at hh
            obtain ⟨h2, e2, hh⟩ := hh
            injection hh with hh1 hh2
            subst hh1; subst hh2
            obtain ⟨w', r2⟩ := mn_small_next_exhaust_wfs w e1 hlt e2 "small-next-exhaust"
            exact gl_sinv_alloc hi w' ⟨p, by rw [MEM_OFFSET_eq], r2⟩ (by omega)
          · -- `small-next-split`
            rename_i hge
            rw [MIN_CHUNK_SIZE_eq] at hge
            msimp at hh
            obtain ⟨h2, e2, h3, e3, h4, e4, hh⟩ := hh
            injection hh with hh1 hh2
            subst hh1; subst hh2
            obtain ⟨w', r2⟩ := mn_small_next_split_wfs w e1 hnb16 hnb32 hlt (by omega) e2 e3 e4 "small-next-split"
            exact gl_sinv_alloc hi w' ⟨p, by rw [MEM_OFFSET_eq], r2⟩ (by omega)
        · split at hh
          · -- `tmalloc_small`
            msimp at hh
            obtain ⟨⟨h1, m1⟩, ht, hh⟩ := hh
            injection hh with hh1 hh2
            subst hh1; subst hh2
            obtain ⟨w', hf⟩ := mn_tmalloc_small_wfs w hnb16 hnb32 ht
            exact gl_sinv_alloc hi w' hf (by omega)
          · exact gl_malloc_dv_top_sinv hi hnb16 hnb32 hh
      · exact gl_malloc_dv_top_sinv hi hnb16 hnb32 hh
  · have hnbof : nbOf size = pad_request size := by unfold nbOf; rw [if_neg hs]
    rw [hnbof]
    unfold malloc_nosys at hh
    dsimp only at hh
    rw [if_neg hs] at hh
    split at hh
    · msimp at hh; cases hh
    · rename_i hmax
      have hs' := hs
      rw [MAX_SMALL_REQUEST_eq] at hs'
      have hlt := MAX_REQUEST_lt
      rw [MAX_REQUEST_eq] at hmax
      have hsz : size + 24 ≤ 2 ^ 64 := by omega
      have hnb16 := pad_request_aligned size hsz
      have hnb32 : 32 ≤ pad_request size := by have := pad_request_ge size hsz; omega
      split at hh
      · msimp at hh
        obtain ⟨r, hr, hh⟩ := hh
        split at hh
        · -- `tmalloc_large` found a chunk
          rename_i h1 m1
          msimp at hh
          injection hh with hh1 hh2
          subst hh1; subst hh2
          obtain ⟨w', hf⟩ := mn_tmalloc_large_wfs w hnb16 hnb32 hr
          exact gl_sinv_alloc hi w' hf (by omega)
        · exact gl_malloc_dv_top_sinv hi hnb16 hnb32 hh
      · exact gl_malloc_dv_top_sinv hi hnb16 hnb32 hh

/-! ## non-vacuity: reachable states satisfying `Inv` on which each of the six new branches is taken -/

/-- `malloc_nosys h size` succeeds with a chunk and its last branch tag is `tag` -/
def mn_branchIs (h : Heap) (size : Nat) (tag : String) : Bool :=
  match malloc_nosys h size with
  | .ok (.done h' _) => h'.tr.getLast? == some tag
  | _ => false

def mn_stateOf (ops : List (Op × List OsDir)) : Hist := match Hist.init.run ops with
  | .ok (hs, _) => hs
  | .error _ => Hist.init

/-- one segment; a freed 1008-byte chunk sits in tree bin 3 -/
def mn_ops1 : List (Op × List OsDir) :=
  [(.malloc 1 1000 8, [.m (some 1048576)]), (.malloc 2 100 8, []), (.free 1, [])]

/-- one segment; a freed 256-byte chunk sits in tree bin 0 -/
def mn_ops2 : List (Op × List OsDir) :=
  [(.malloc 1 240 8, [.m (some 1048576)]), (.malloc 2 100 8, []), (.free 1, [])]

/-- two segments (fenceposts and a record chunk in the first one), `dv` used up, a 112-byte chunk in small bin 14 -/
def mn_ops3 : List (Op × List OsDir) := glOps ++ [(.malloc 4 65216 8, [])]

/-- two segments; the rest of the first segment (65344 bytes, ending at the record chunk) sits in a tree bin -/
def mn_ops4 : List (Op × List OsDir) :=
  [(.malloc 1 100 8, [.m (some 1048576)]), (.malloc 2 100000 8, [.m (some 4194304)])]

set_option maxRecDepth 40000 in
example : Inv (mn_stateOf mn_ops1) ∧ mn_branchIs (mn_stateOf mn_ops1).st.h 100 "tsmall-split" = true ∧
    mn_branchIs (mn_stateOf mn_ops1).st.h 500 "tlarge-split" = true ∧
    mn_branchIs (mn_stateOf mn_ops1).st.h 990 "tlarge-exhaust" = true :=
  ⟨gl_inv_of_check (by decide) (by decide) (by decide) (by decide) (by decide) (by decide), by decide, by decide, by decide⟩

set_option maxRecDepth 40000 in
example : Inv (mn_stateOf mn_ops2) ∧ mn_branchIs (mn_stateOf mn_ops2).st.h 232 "tsmall-exhaust" = true :=
  ⟨gl_inv_of_check (by decide) (by decide) (by decide) (by decide) (by decide) (by decide), by decide⟩

set_option maxRecDepth 40000 in
example : Inv (mn_stateOf mn_ops3) ∧ (mn_stateOf mn_ops3).st.segs.length = 2 ∧
    mn_branchIs (mn_stateOf mn_ops3).st.h 8 "small-next-split" = true ∧
    mn_branchIs (mn_stateOf mn_ops3).st.h 85 "small-next-exhaust" = true :=
  ⟨gl_inv_of_check (by decide) (by decide) (by decide) (by decide) (by decide) (by decide), by decide, by decide, by decide⟩

set_option maxRecDepth 40000 in
example : Inv (mn_stateOf mn_ops4) ∧ (mn_stateOf mn_ops4).st.segs.length = 2 ∧
    mn_branchIs (mn_stateOf mn_ops4).st.h 100 "tsmall-split" = true ∧
    mn_branchIs (mn_stateOf mn_ops4).st.h 500 "tlarge-split" = true ∧
    mn_branchIs (mn_stateOf mn_ops4).st.h 65320 "tlarge-exhaust" = true :=
  ⟨gl_inv_of_check (by decide) (by decide) (by decide) (by decide) (by decide) (by decide), by decide, by decide, by decide, by decide⟩

end TinyVerif.Dl
