import TinyVerif.Model.Thread
set_option linter.unusedSimpArgs false
set_option linter.unusedVariables false
set_option maxRecDepth 4000
namespace TinyVerif.Thread

/-! ## what each party's program counter says about the ledger -/

/-- T is past its dealings with the flag (won the CAS, or lost it and freed the block) -/
def tPastFlag (p : Bool) (t : TPc) : Bool :=
  match t with
  | .notStarted => false
  | .run => false
  | .write _ => false
  | .pRead => false
  | .cas => false
  | .setTid => false
  | .dropVal => false
  | .freeTsm => false
  | .freeTls => !p
  | .freeBox => !p
  | .munmap => true
  | .exit => true
  | .dead => true

/-- T has released its thread-local block -/
def tFreedTls (p : Bool) (t : TPc) : Bool :=
  match t with
  | .notStarted => false
  | .run => false
  | .write _ => false
  | .pRead => false
  | .cas => p
  | .setTid => p
  | .dropVal => false
  | .freeTsm => p
  | .freeTls => false
  | .freeBox => true
  | .munmap => true
  | .exit => true
  | .dead => true

def tFreedStack (t : TPc) : Bool :=
  match t with
  | .notStarted => false
  | .run => false
  | .write _ => false
  | .pRead => false
  | .cas => false
  | .setTid => false
  | .dropVal => false
  | .freeTsm => false
  | .freeTls => false
  | .freeBox => false
  | .munmap => false
  | .exit => true
  | .dead => true

def tFreedBox (p : Bool) (t : TPc) : Bool :=
  match t with
  | .notStarted => false
  | .run => false
  | .write _ => false
  | .pRead => false
  | .cas => false
  | .setTid => false
  | .dropVal => false
  | .freeTsm => false
  | .freeTls => false
  | .freeBox => false
  | .munmap => !p
  | .exit => !p
  | .dead => !p

/-- T lost the CAS and has not freed the block yet -/
def tLost (t : TPc) : Bool :=
  match t with
  | .notStarted => false
  | .run => false
  | .write _ => false
  | .pRead => false
  | .cas => false
  | .setTid => true
  | .dropVal => true
  | .freeTsm => true
  | .freeTls => false
  | .freeBox => false
  | .munmap => false
  | .exit => false
  | .dead => false

/-- the closure body has been entered -/
def tRan (t : TPc) : Bool :=
  match t with
  | .notStarted => false
  | .run => false
  | .write _ => true
  | .pRead => true
  | .cas => true
  | .setTid => true
  | .dropVal => true
  | .freeTsm => true
  | .freeTls => true
  | .freeBox => true
  | .munmap => true
  | .exit => true
  | .dead => true

/-- T is past the write of the result slot (or in the panic handler) -/
def tPastWrite (t : TPc) : Bool :=
  match t with
  | .notStarted => false
  | .run => false
  | .write _ => false
  | .pRead => true
  | .cas => true
  | .setTid => true
  | .dropVal => true
  | .freeTsm => true
  | .freeTls => true
  | .freeBox => true
  | .munmap => true
  | .exit => true
  | .dead => true

/-- which pcs belong to the returning path / the panic path -/
def tOkP (p : Bool) (t : TPc) : Bool :=
  match t with
  | .notStarted => !p
  | .run => !p
  | .write _ => !p
  | .pRead => p
  | .dropVal => !p
  | .freeBox => !p
  | _ => true

def isParked (h : HPc) : Bool :=
  match h with
  | .wParked _ => true
  | .fresh | .sp1 | .sp2 | .sp3 | .sp4 | .uTls | .uStack | .uBox _ | .uTsm _ | .failed _ | .handle | .wLoad _ | .wSys _
  | .jRead | .jFree | .joined | .dCas | .dFree | .detached | .dropped => false

def hFreedTsm (h : HPc) : Bool :=
  match h with
  | .fresh => false
  | .sp1 => false
  | .sp2 => false
  | .sp3 => false
  | .sp4 => false
  | .uTls => false
  | .uStack => false
  | .uBox _ => false
  | .uTsm _ => false
  | .failed _ => true
  | .handle => false
  | .wLoad _ => false
  | .wSys _ => false
  | .wParked _ => false
  | .jRead => false
  | .jFree => false
  | .joined => true
  | .dCas => false
  | .dFree => false
  | .detached => false
  | .dropped => true

/-- H lost the drop CAS -/
def hLostPath (h : HPc) : Bool :=
  match h with
  | .fresh => false
  | .sp1 => false
  | .sp2 => false
  | .sp3 => false
  | .sp4 => false
  | .uTls => false
  | .uStack => false
  | .uBox _ => false
  | .uTsm _ => false
  | .failed _ => false
  | .handle => false
  | .wLoad b => !b
  | .wSys b => !b
  | .wParked b => !b
  | .jRead => false
  | .jFree => false
  | .joined => false
  | .dCas => false
  | .dFree => true
  | .detached => false
  | .dropped => true

/-- H has returned from futex_wait_fast -/
def hAfterWait (h : HPc) : Bool :=
  match h with
  | .fresh => false
  | .sp1 => false
  | .sp2 => false
  | .sp3 => false
  | .sp4 => false
  | .uTls => false
  | .uStack => false
  | .uBox _ => false
  | .uTsm _ => false
  | .failed _ => false
  | .handle => false
  | .wLoad _ => false
  | .wSys _ => false
  | .wParked _ => false
  | .jRead => true
  | .jFree => true
  | .joined => true
  | .dCas => false
  | .dFree => true
  | .detached => false
  | .dropped => true

def hReadDone (h : HPc) : Bool :=
  match h with
  | .fresh => false
  | .sp1 => false
  | .sp2 => false
  | .sp3 => false
  | .sp4 => false
  | .uTls => false
  | .uStack => false
  | .uBox _ => false
  | .uTsm _ => false
  | .failed _ => false
  | .handle => false
  | .wLoad _ => false
  | .wSys _ => false
  | .wParked _ => false
  | .jRead => false
  | .jFree => true
  | .joined => true
  | .dCas => false
  | .dFree => false
  | .detached => false
  | .dropped => false

def tlsH (h : HPc) : RSt :=
  match h with
  | .fresh => .unalloc
  | .sp1 => .unalloc
  | .sp2 => .unalloc
  | .sp3 => .unalloc
  | .sp4 => .live
  | .uTls => .live
  | .uStack => .freed
  | .uBox b => if b then .freed else .unalloc
  | .uTsm b => if b then .freed else .unalloc
  | .failed b => if b then .freed else .unalloc
  | .handle => .unalloc
  | .wLoad _ => .unalloc
  | .wSys _ => .unalloc
  | .wParked _ => .unalloc
  | .jRead => .unalloc
  | .jFree => .unalloc
  | .joined => .unalloc
  | .dCas => .unalloc
  | .dFree => .unalloc
  | .detached => .unalloc
  | .dropped => .unalloc

def stackH (h : HPc) : RSt :=
  match h with
  | .fresh => .unalloc
  | .sp1 => .unalloc
  | .sp2 => .unalloc
  | .sp3 => .live
  | .sp4 => .live
  | .uTls => .live
  | .uStack => .live
  | .uBox b => if b then .freed else .unalloc
  | .uTsm b => if b then .freed else .unalloc
  | .failed b => if b then .freed else .unalloc
  | .handle => .unalloc
  | .wLoad _ => .unalloc
  | .wSys _ => .unalloc
  | .wParked _ => .unalloc
  | .jRead => .unalloc
  | .jFree => .unalloc
  | .joined => .unalloc
  | .dCas => .unalloc
  | .dFree => .unalloc
  | .detached => .unalloc
  | .dropped => .unalloc

def boxH (h : HPc) : RSt :=
  match h with
  | .fresh => .unalloc
  | .sp1 => .unalloc
  | .sp2 => .live
  | .sp3 => .live
  | .sp4 => .live
  | .uTls => .live
  | .uStack => .live
  | .uBox _ => .live
  | .uTsm _ => .freed
  | .failed _ => .freed
  | .handle => .live
  | .wLoad _ => .live
  | .wSys _ => .live
  | .wParked _ => .live
  | .jRead => .live
  | .jFree => .live
  | .joined => .live
  | .dCas => .live
  | .dFree => .live
  | .detached => .live
  | .dropped => .live

def tlsOf (x : Inst) : RSt :=
  if spawnedOk x.h then (if tFreedTls x.panicked x.t then .freed else .live) else tlsH x.h
def stackOf (x : Inst) : RSt :=
  if spawnedOk x.h then (if tFreedStack x.t then .freed else .live) else stackH x.h
def boxOf (x : Inst) : RSt :=
  if spawnedOk x.h then (if tFreedBox x.panicked x.t then .freed else .live) else boxH x.h
def tsmOf (x : Inst) : RSt :=
  if x.h = .fresh then .unalloc
  else if hFreedTsm x.h ∨ (x.winner = some .H ∧ tPastFlag x.panicked x.t = true) then .freed else .live

/-- T (having lost the CAS) is past the drop of the unread result -/
def tDropped (p : Bool) (t : TPc) : Bool :=
  match t with
  | .freeTsm => true
  | _ => tPastFlag p t

def valOf (x : Inst) : RSt :=
  if (x.panicked = true ∧ x.dpanic = false) ∨ tRan x.t = false then .unalloc
  else if x.dpanic = true ∨ hReadDone x.h = true ∨ x.h = .dropped ∨ (x.winner = some .H ∧ tDropped x.panicked x.t = true) then .freed else .live

def cnt (r : RSt) : Nat := if r = .freed then 1 else 0

/-- the inductive invariant of one instance (for the repaired code and the stated environment: `Cfg.Good`) -/
structure IInv (x : Inst) : Prop where
  started : x.t = .notStarted ↔ spawnedOk x.h = false
  tlsEq : x.tls = tlsOf x
  stackEq : x.stack = stackOf x
  boxEq : x.box = boxOf x
  tsmEq : x.tsm = tsmOf x
  valEq : x.val = valOf x
  tlsC : x.tlsFrees = cnt x.tls
  stackC : x.stackFrees = cnt x.stack
  boxC : x.boxFrees = cnt x.box
  tsmC : x.tsmFrees = cnt x.tsm
  nbad : x.bad = false
  nrace : x.raced = false
  wH : x.winner = some .H ↔ x.h = .detached
  wT : x.winner = some .T → tPastFlag x.panicked x.t = true
  flagT : x.flag = true → x.winner = some .H ∨ x.winner = some .T
  flagF : x.flag = false → x.winner = none
  lost : tLost x.t = true → x.winner = some .H
  pastW : tPastFlag x.panicked x.t = true → x.flag = true
  pOK : tOkP x.panicked x.t = true
  dpath : hLostPath x.h = true → x.winner = some .T
  aw : hAfterWait x.h = true → x.kdone = true ∧ x.hsees = true
  kd : x.kdone = true → x.t = .dead
  wordI : x.h ≠ .fresh → (x.word = 1 ∧ (x.kdone = false ∨ x.ctid = false)) ∨ (x.word = 0 ∧ x.kdone = true ∧ x.ctid = true)
  ctidW : x.t ≠ .notStarted → x.ctid = false → x.winner = some .H
  parkedI : isParked x.h = true → x.kdone = false
  ctidI : (x.t = .freeTsm ∨ x.t = .dropVal ∨ (x.winner = some .H ∧ tPastFlag x.panicked x.t = true)) → x.ctid = false
  runsI : x.runs = b2n (tRan x.t)
  ret0 : tRan x.t = false → x.ret = none ∧ x.panicked = false
  ret1 : ∀ v, x.t = .write v → x.ret = some (some v) ∧ x.panicked = false
  ret2 : tPastWrite x.t = true → x.ret = some x.slot ∧ ((x.panicked = true ∧ x.dpanic = false) ↔ x.slot = none)
  dpI : x.dpanic = true → x.panicked = true ∧ x.winner = some .H ∧ tPastWrite x.t = true ∧ tRan x.t = true
  slot0 : tPastWrite x.t = false → x.slot = none
  joinI : x.joinRes = if hReadDone x.h then some x.slot else none

theorem init_inv : IInv Inst.init := by
  constructor <;> simp [Inst.init, spawnedOk, tlsOf, stackOf, boxOf, tsmOf, valOf, tlsH, stackH, boxH, cnt, hFreedTsm,
    tPastFlag, tLost, hLostPath, hAfterWait, tRan, b2n, tPastWrite, hReadDone, tOkP, isParked, tDropped]


/-! relations between the H-side predicates (so that T's and K's steps never need a case split on H's pc) -/
theorem hFreed_cases (h : HPc) (hf : hFreedTsm h = true) : hAfterWait h = true ∨ spawnedOk h = false := by
  cases h <;> simp_all [hFreedTsm, hAfterWait, spawnedOk]
theorem hLost_spawned (h : HPc) (hf : hLostPath h = true) : spawnedOk h = true := by
  cases h <;> simp_all [hLostPath, spawnedOk]
theorem hAfter_spawned (h : HPc) (hf : hAfterWait h = true) : spawnedOk h = true := by
  cases h <;> simp_all [hAfterWait, spawnedOk]
theorem hRead_after (h : HPc) (hf : hReadDone h = true) : hAfterWait h = true := by
  cases h <;> simp_all [hAfterWait, hReadDone]

theorem isParked_cases (h : HPc) (hf : isParked h = true) : h = .wParked true ∨ h = .wParked false := by
  cases h <;> simp_all [isParked]

attribute [grind] touchTsm touchTls touchStack touchBox freeTsm freeTls freeStack freeBox notLive
     tlsOf stackOf boxOf tsmOf valOf takeVal cnt spawnedOk tlsH stackH boxH hFreedTsm hLostPath hAfterWait hReadDone
     tPastFlag tFreedTls tFreedStack tFreedBox tLost tRan tPastWrite b2n afterWait retTo afterFlag afterTid expectOf tOkP isParked tDropped
attribute [grind →] hFreed_cases hLost_spawned hAfter_spawned hRead_after isParked_cases

set_option hygiene false in
/-- unfold one event of `stepI`, discard the disabled branches, and re-establish every clause -/
macro "inv_event" : tactic => `(tactic| (
  obtain ⟨c1, c2, c3, c4, c5, c6, c7, c8, c9, c10⟩ := hc
  simp only [stepI] at h
  obtain ⟨started, tlsEq, stackEq, boxEq, tsmEq, valEq, tlsC, stackC, boxC, tsmC, nbad, nrace, wH, wT, flagT, flagF, lost, pastW, pOK, dpath, aw, kd,
    wordI, ctidW, parkedI, ctidI, runsI, ret0, ret1, ret2, dpI, slot0, joinI⟩ := hinv
  repeat' split at h
  all_goals first | (simp at h; done) | skip
  all_goals (simp only [Option.some.injEq] at h; subst h)
  all_goals (constructor <;> grind)))

end TinyVerif.Thread
