/-
Helper lemmas for C08 (Model/MemFns.lean): the two array laws of the memory, word access = 8 byte
accesses, the `Blit` (memmove-semantics) predicate with its forward/backward composition, and the
loop lemmas (induction on fuel) of every copy loop.
-/
import TinyVerif.Model.MemFns
namespace TinyVerif.MemFns

/-! ## the memory laws -/

theorem rd_wr (m : Mem) (a b : Nat) (v : UInt8) : (m.wr a v).rd b = if b = a then v else m.rd b := by
  unfold Mem.wr Mem.rd
  by_cases h1 : a < m.base
  · simp only [h1, if_true, lookup]
    by_cases hb : b = a
    · subst hb; simp [h1]
    · have : ¬ a = b := fun h => hb h.symm
      simp [this, hb]
  · by_cases h2 : a - m.base < m.data.size
    · simp only [h1, h2, if_false, if_true, Array.size_setIfInBounds]
      by_cases hb : b = a
      · subst hb; simp [h1, h2]
      · simp only [hb, if_false]
        by_cases h3 : b < m.base
        · simp [h3]
        · by_cases h4 : b - m.base < m.data.size
          · simp only [h3, h4, if_false, dite_true]
            rw [Array.getElem_setIfInBounds]
            have : ¬ (a - m.base = b - m.base) := by omega
            simp [this]
            exact h4
          · simp [h3, h4]
    · simp only [h1, h2, if_false, lookup]
      by_cases hb : b = a
      · subst hb; simp [h1, h2]
      · have : ¬ a = b := fun h => hb h.symm
        simp [this, hb]

@[simp] theorem bad_wr (m : Mem) (a : Nat) (v : UInt8) : (m.wr a v).bad = m.bad := by
  unfold Mem.wr; split
  · rfl
  · split <;> rfl

/-! ## the access logs: `wr` logs its address in `wlog`, `note`/`noteWord` log in `rlog`, nothing else moves -/

@[simp] theorem rlog_wr (m : Mem) (a : Nat) (v : UInt8) : (m.wr a v).rlog = m.rlog := by
  unfold Mem.wr; split
  · rfl
  · split <;> rfl

@[simp] theorem wlog_wr (m : Mem) (a : Nat) (v : UInt8) : (m.wr a v).wlog = a :: m.wlog := by
  unfold Mem.wr; split
  · rfl
  · split <;> rfl

@[simp] theorem rd_note (m : Mem) (a x : Nat) : (m.note a).rd x = m.rd x := rfl
@[simp] theorem bad_note (m : Mem) (a : Nat) : (m.note a).bad = m.bad := rfl
@[simp] theorem rlog_note (m : Mem) (a : Nat) : (m.note a).rlog = a :: m.rlog := rfl
@[simp] theorem wlog_note (m : Mem) (a : Nat) : (m.note a).wlog = m.wlog := rfl
@[simp] theorem rd_noteWord (m : Mem) (a x : Nat) : (noteWord m a).rd x = m.rd x := rfl
@[simp] theorem bad_noteWord (m : Mem) (a : Nat) : (noteWord m a).bad = m.bad := rfl
@[simp] theorem wlog_noteWord (m : Mem) (a : Nat) : (noteWord m a).wlog = m.wlog := rfl
theorem rlog_noteWord (m : Mem) (a : Nat) : (noteWord m a).rlog =
    (a + 7) :: (a + 6) :: (a + 5) :: (a + 4) :: (a + 3) :: (a + 2) :: (a + 1) :: a :: m.rlog := rfl
@[simp] theorem rdWord_noteWord (m : Mem) (a s : Nat) : rdWord (noteWord m a) s = rdWord m s := rfl

/-- `m'` came from `m0` by loads at addresses in `[rlo, rhi)` and stores at addresses in `[wlo, whi)` only:
every entry of the logs of `m'` is an entry of the logs of `m0` or lies in the respective range -/
def Acc (m0 m' : Mem) (rlo rhi wlo whi : Nat) : Prop :=
  (∀ a, a ∈ m'.rlog → a ∈ m0.rlog ∨ (rlo ≤ a ∧ a < rhi)) ∧
  (∀ a, a ∈ m'.wlog → a ∈ m0.wlog ∨ (wlo ≤ a ∧ a < whi))

theorem Acc.refl (m : Mem) (rlo rhi wlo whi : Nat) : Acc m m rlo rhi wlo whi :=
  ⟨fun _ h => Or.inl h, fun _ h => Or.inl h⟩

/-- composition with widening of the ranges -/
theorem Acc.comp {m0 m1 m2 : Mem} {rl1 rh1 wl1 wh1 rl2 rh2 wl2 wh2 rl rh wl wh : Nat}
    (h1 : Acc m0 m1 rl1 rh1 wl1 wh1) (h2 : Acc m1 m2 rl2 rh2 wl2 wh2)
    (hr1 : rl ≤ rl1 ∧ rh1 ≤ rh) (hr2 : rl ≤ rl2 ∧ rh2 ≤ rh) (hw1 : wl ≤ wl1 ∧ wh1 ≤ wh) (hw2 : wl ≤ wl2 ∧ wh2 ≤ wh) :
    Acc m0 m2 rl rh wl wh := by
  refine ⟨fun a ha => ?_, fun a ha => ?_⟩
  · rcases h2.1 a ha with h | h
    · rcases h1.1 a h with h | h
      · exact Or.inl h
      · exact Or.inr (by omega)
    · exact Or.inr (by omega)
  · rcases h2.2 a ha with h | h
    · rcases h1.2 a h with h | h
      · exact Or.inl h
      · exact Or.inr (by omega)
    · exact Or.inr (by omega)

theorem wlog_wrWord (m : Mem) (a w : Nat) : (wrWord m a w).wlog =
    (a + 7) :: (a + 6) :: (a + 5) :: (a + 4) :: (a + 3) :: (a + 2) :: (a + 1) :: a :: m.wlog := by
  simp [wrWord]

@[simp] theorem rlog_wrWord (m : Mem) (a w : Nat) : (wrWord m a w).rlog = m.rlog := by
  simp [wrWord]

/-- one byte copied: a load at `s`, a store at `d` -/
theorem Acc.byte (m : Mem) (d s : Nat) (v : UInt8) : Acc m ((m.note s).wr d v) s (s + 1) d (d + 1) := by
  refine ⟨fun a ha => ?_, fun a ha => ?_⟩
  · simp only [rlog_wr, rlog_note, List.mem_cons] at ha
    rcases ha with h | h
    · exact Or.inr (by omega)
    · exact Or.inl h
  · simp only [wlog_wr, wlog_note, List.mem_cons] at ha
    rcases ha with h | h
    · exact Or.inr (by omega)
    · exact Or.inl h

/-- one word copied: loads at `s .. s+7`, stores at `d .. d+7` -/
theorem Acc.word (m : Mem) (d s w : Nat) : Acc m (wrWord (noteWord m s) d w) s (s + 8) d (d + 8) := by
  refine ⟨fun a ha => ?_, fun a ha => ?_⟩
  · simp only [rlog_wrWord, rlog_noteWord, List.mem_cons] at ha
    rcases ha with h | h | h | h | h | h | h | h | h
    all_goals first | exact Or.inl h | exact Or.inr (by omega)
  · simp only [wlog_wrWord, wlog_noteWord, List.mem_cons] at ha
    rcases ha with h | h | h | h | h | h | h | h | h
    all_goals first | exact Or.inl h | exact Or.inr (by omega)

/-- one byte / one word stored, nothing loaded -/
theorem Acc.setByte (m : Mem) (d : Nat) (v : UInt8) : Acc m (m.wr d v) 0 0 d (d + 1) := by
  refine ⟨fun a ha => ?_, fun a ha => ?_⟩
  · simp only [rlog_wr] at ha; exact Or.inl ha
  · simp only [wlog_wr, List.mem_cons] at ha
    rcases ha with h | h
    · exact Or.inr (by omega)
    · exact Or.inl h

theorem Acc.setWord (m : Mem) (d w : Nat) : Acc m (wrWord m d w) 0 0 d (d + 8) := by
  refine ⟨fun a ha => ?_, fun a ha => ?_⟩
  · simp only [rlog_wrWord] at ha; exact Or.inl ha
  · simp only [wlog_wrWord, List.mem_cons] at ha
    rcases ha with h | h | h | h | h | h | h | h | h
    all_goals first | exact Or.inl h | exact Or.inr (by omega)
/-! ## word access -/

theorem rd_wrWord (m : Mem) (a w x : Nat) :
    (wrWord m a w).rd x = if a ≤ x ∧ x < a + 8 then byteOf w (x - a) else m.rd x := by
  simp only [wrWord, rd_wr]
  by_cases h : a ≤ x ∧ x < a + 8
  · rw [if_pos h]
    have : x = a ∨ x = a + 1 ∨ x = a + 2 ∨ x = a + 3 ∨ x = a + 4 ∨ x = a + 5 ∨ x = a + 6 ∨ x = a + 7 := by omega
    rcases this with h | h | h | h | h | h | h | h <;> subst h <;> simp
  · rw [if_neg h]
    have h0 : ¬ x = a := by omega
    have h1 : ¬ x = a + 1 := by omega
    have h2 : ¬ x = a + 2 := by omega
    have h3 : ¬ x = a + 3 := by omega
    have h4 : ¬ x = a + 4 := by omega
    have h5 : ¬ x = a + 5 := by omega
    have h6 : ¬ x = a + 6 := by omega
    have h7 : ¬ x = a + 7 := by omega
    simp only [h0, h1, h2, h3, h4, h5, h6, h7, if_false]

@[simp] theorem bad_wrWord (m : Mem) (a w : Nat) : (wrWord m a w).bad = m.bad := by
  simp [wrWord]

theorem ofNat_eq_of (P : Nat) (b : UInt8) (h : P = b.toNat) : UInt8.ofNat P = b := by
  rw [h, UInt8.ofNat_toNat]

theorem byteOf_rdWord (m : Mem) (s j : Nat) (hj : j < 8) : byteOf (rdWord m s) j = m.rd (s + j) := by
  have b0 := (m.rd s).toNat_lt
  have b1 := (m.rd (s+1)).toNat_lt
  have b2 := (m.rd (s+2)).toNat_lt
  have b3 := (m.rd (s+3)).toNat_lt
  have b4 := (m.rd (s+4)).toNat_lt
  have b5 := (m.rd (s+5)).toNat_lt
  have b6 := (m.rd (s+6)).toNat_lt
  have b7 := (m.rd (s+7)).toNat_lt
  have : j = 0 ∨ j = 1 ∨ j = 2 ∨ j = 3 ∨ j = 4 ∨ j = 5 ∨ j = 6 ∨ j = 7 := by omega
  unfold byteOf rdWord
  rcases this with h | h | h | h | h | h | h | h <;> subst h
  all_goals
    simp only [Nat.pow_zero, Nat.reducePow, Nat.add_zero] at *
    apply ofNat_eq_of
    omega
/-! ## memmove-semantics predicate and the copy loops -/

/-- `m'` is `m0` after a `memmove`-semantics copy of `r` bytes from `s` to `d`: the destination range holds
the *original* source bytes, every other address is unchanged, and no bad event was recorded -/
def Blit (m0 m' : Mem) (d s r : Nat) : Prop :=
  m'.bad = m0.bad ∧ (∀ x, m'.rd x = if d ≤ x ∧ x < d + r then m0.rd (s + (x - d)) else m0.rd x) ∧
  Acc m0 m' s (s + r) d (d + r)

theorem Blit.zero (m : Mem) (d s : Nat) : Blit m m d s 0 :=
  ⟨rfl, fun x => by rw [if_neg (by omega)], Acc.refl _ _ _ _ _⟩

theorem Blit.fwd_comp {m0 m1 m2 : Mem} {d s a d' s' b r : Nat}
    (h1 : Blit m0 m1 d s a) (h2 : Blit m1 m2 d' s' b) (hd : d' = d + a) (hs : s' = s + a) (hr : r = a + b)
    (hz : d ≤ s ∨ s + r ≤ d) : Blit m0 m2 d s r := by
  subst hd hs hr
  refine ⟨h2.1.trans h1.1, fun x => ?_,
    Acc.comp h1.2.2 h2.2.2 (by omega) (by omega) (by omega) (by omega)⟩
  rw [h2.2.1 x]
  by_cases hx : d + a ≤ x ∧ x < d + a + b
  · rw [if_pos hx, h1.2.1, if_neg (by omega), if_pos (by omega)]
    congr 1; omega
  · rw [if_neg hx, h1.2.1 x]
    by_cases hx2 : d ≤ x ∧ x < d + a
    · rw [if_pos hx2, if_pos (by omega)]
    · rw [if_neg hx2, if_neg (by omega)]

theorem Blit.bwd_comp {m0 m1 m2 : Mem} {d s a d' s' b r : Nat}
    (h1 : Blit m0 m1 d' s' b) (h2 : Blit m1 m2 d s a) (hd : d' = d + a) (hs : s' = s + a) (hr : r = a + b)
    (hz : s ≤ d ∨ d + r ≤ s) : Blit m0 m2 d s r := by
  subst hd hs hr
  refine ⟨h2.1.trans h1.1, fun x => ?_,
    Acc.comp h1.2.2 h2.2.2 (by omega) (by omega) (by omega) (by omega)⟩
  rw [h2.2.1 x]
  by_cases hx : d ≤ x ∧ x < d + a
  · rw [if_pos hx, h1.2.1, if_neg (by omega), if_pos (by omega)]
  · rw [if_neg hx, h1.2.1 x]
    by_cases hx2 : d + a ≤ x ∧ x < d + a + b
    · rw [if_pos hx2, if_pos (by omega)]
      congr 1; omega
    · rw [if_neg hx2, if_neg (by omega)]

theorem Blit.byte (m : Mem) (d s : Nat) : Blit m ((m.note s).wr d ((m.note s).rd s)) d s 1 := by
  refine ⟨by simp, fun x => ?_, Acc.byte m d s _⟩
  rw [rd_wr, rd_note, rd_note]
  by_cases hx : x = d
  · subst hx; rw [if_pos rfl, if_pos (by omega)]; congr 1; omega
  · rw [if_neg hx, if_neg (by omega)]

theorem chkAligned_of (m : Mem) (a : Nat) (h : a % 8 = 0) : chkAligned m a = m := by
  unfold chkAligned; rw [if_pos h]

theorem Blit.word (m : Mem) (d s : Nat) :
    Blit m (wrWord (noteWord m s) d (rdWord (noteWord m s) s)) d s 8 := by
  refine ⟨by simp, fun x => ?_, Acc.word m d s _⟩
  rw [rd_wrWord, rdWord_noteWord, rd_noteWord]
  by_cases hx : d ≤ x ∧ x < d + 8
  · rw [if_pos hx, if_pos hx, byteOf_rdWord _ _ _ (by omega)]
  · rw [if_neg hx, if_neg hx]

theorem copyForwardBytesLoop_spec : ∀ (f : Nat) (m : Mem) (dest src r : Nat), r ≤ f → (dest ≤ src ∨ src + r ≤ dest) →
    Blit m (copyForwardBytesLoop f m dest src (dest + r)) dest src r := by
  intro f
  induction f with
  | zero =>
    intro m dest src r hr _
    have : r = 0 := by omega
    subst this
    simp only [copyForwardBytesLoop, Nat.add_zero, Nat.lt_irrefl, if_false]
    exact Blit.zero m dest src
  | succ f ih =>
    intro m dest src r hr hz
    unfold copyForwardBytesLoop
    by_cases h0 : r = 0
    · subst h0; simp only [Nat.add_zero, Nat.lt_irrefl, if_false]; exact Blit.zero m dest src
    · rw [if_pos (by omega)]
      have e : dest + r = (dest + 1) + (r - 1) := by omega
      rw [e]
      exact Blit.fwd_comp (Blit.byte m dest src) (ih _ (dest + 1) (src + 1) (r - 1) (by omega) (by omega)) rfl rfl (by omega) hz

theorem copyForwardBytes_spec (m : Mem) (dest src r : Nat) (hz : dest ≤ src ∨ src + r ≤ dest) :
    Blit m (copyForwardBytes m dest src r) dest src r :=
  copyForwardBytesLoop_spec r m dest src r (Nat.le_refl _) hz

theorem copyForwardAlignedWordsLoop_spec : ∀ (f : Nat) (m : Mem) (dest src k : Nat), k ≤ f → dest % 8 = 0 → src % 8 = 0 →
    (dest ≤ src ∨ src + 8 * k ≤ dest) →
    Blit m (copyForwardAlignedWordsLoop f m dest src (dest + 8 * k)) dest src (8 * k) := by
  intro f
  induction f with
  | zero =>
    intro m dest src k hk _ _ _
    have : k = 0 := by omega
    subst this
    simp only [copyForwardAlignedWordsLoop, Nat.mul_zero, Nat.add_zero, Nat.lt_irrefl, if_false]
    exact Blit.zero m dest src
  | succ f ih =>
    intro m dest src k hk hd hs hz
    unfold copyForwardAlignedWordsLoop
    by_cases h0 : k = 0
    · subst h0; simp only [Nat.mul_zero, Nat.add_zero, Nat.lt_irrefl, if_false]; exact Blit.zero m dest src
    · rw [if_pos (by omega)]
      simp only [chkAligned_of _ _ hs, chkAligned_of _ _ hd]
      have e : dest + 8 * k = (dest + WORD_SIZE) + 8 * (k - 1) := by simp only [WORD_SIZE]; omega
      rw [e]
      exact Blit.fwd_comp (Blit.word m dest src)
        (ih _ (dest + WORD_SIZE) (src + WORD_SIZE) (k - 1) (by omega) (by simp only [WORD_SIZE]; omega) (by simp only [WORD_SIZE]; omega)
          (by simp only [WORD_SIZE]; omega)) rfl rfl (by omega) hz


theorem copyForwardMisalignedWordsLoop_spec : ∀ (f : Nat) (m : Mem) (dest src k : Nat), k ≤ f → dest % 8 = 0 →
    (dest ≤ src ∨ src + 8 * k ≤ dest) →
    Blit m (copyForwardMisalignedWordsLoop f m dest src (dest + 8 * k)) dest src (8 * k) := by
  intro f
  induction f with
  | zero =>
    intro m dest src k hk _ _
    have : k = 0 := by omega
    subst this
    simp only [copyForwardMisalignedWordsLoop, Nat.mul_zero, Nat.add_zero, Nat.lt_irrefl, if_false]
    exact Blit.zero m dest src
  | succ f ih =>
    intro m dest src k hk hd hz
    unfold copyForwardMisalignedWordsLoop
    by_cases h0 : k = 0
    · subst h0; simp only [Nat.mul_zero, Nat.add_zero, Nat.lt_irrefl, if_false]; exact Blit.zero m dest src
    · rw [if_pos (by omega)]
      simp only [chkAligned_of _ _ hd]
      have e : dest + 8 * k = (dest + WORD_SIZE) + 8 * (k - 1) := by simp only [WORD_SIZE]; omega
      rw [e]
      exact Blit.fwd_comp (Blit.word m dest src)
        (ih _ (dest + WORD_SIZE) (src + WORD_SIZE) (k - 1) (by omega) (by simp only [WORD_SIZE]; omega)
          (by simp only [WORD_SIZE]; omega)) rfl rfl (by omega) hz

/-! backward loops: `dest`, `src` are the pointers past the end -/

theorem copyBackwardBytesLoop_spec : ∀ (f : Nat) (m : Mem) (dest src r : Nat), r ≤ f → r ≤ dest → r ≤ src →
    (src ≤ dest ∨ dest ≤ src - r) →
    Blit m (copyBackwardBytesLoop f m dest src (dest - r)) (dest - r) (src - r) r := by
  intro f
  induction f with
  | zero =>
    intro m dest src r hr _ _ _
    have : r = 0 := by omega
    subst this
    simp only [copyBackwardBytesLoop, Nat.sub_zero, Nat.lt_irrefl, if_false]
    exact Blit.zero m dest src
  | succ f ih =>
    intro m dest src r hr hd hs hz
    unfold copyBackwardBytesLoop
    by_cases h0 : r = 0
    · subst h0; simp only [Nat.sub_zero, Nat.lt_irrefl, if_false]; exact Blit.zero m dest src
    · rw [if_pos (by omega)]
      have e : dest - r = (dest - 1) - (r - 1) := by omega
      have ih' := ih ((m.note (src - 1)).wr (dest - 1) ((m.note (src - 1)).rd (src - 1))) (dest - 1) (src - 1) (r - 1) (by omega) (by omega) (by omega) (by omega)
      have e2 : src - r = (src - 1) - (r - 1) := by omega
      rw [← e, ← e2] at ih'
      exact Blit.bwd_comp (d := dest - r) (s := src - r) (a := r - 1) (b := 1) (Blit.byte m (dest - 1) (src - 1)) ih'
        (by omega) (by omega) (by omega) (by omega)

theorem copyBackwardBytes_spec (m : Mem) (dest src r : Nat) (hd : r ≤ dest) (hs : r ≤ src)
    (hz : src ≤ dest ∨ dest ≤ src - r) :
    Blit m (copyBackwardBytes m dest src r) (dest - r) (src - r) r :=
  copyBackwardBytesLoop_spec r m dest src r (Nat.le_refl _) hd hs hz

theorem copyBackwardAlignedWordsLoop_spec : ∀ (f : Nat) (m : Mem) (dest src k : Nat), k ≤ f → 8 * k ≤ dest → 8 * k ≤ src →
    dest % 8 = 0 → src % 8 = 0 → (src ≤ dest ∨ dest ≤ src - 8 * k) →
    Blit m (copyBackwardAlignedWordsLoop f m dest src (dest - 8 * k)) (dest - 8 * k) (src - 8 * k) (8 * k) := by
  intro f
  induction f with
  | zero =>
    intro m dest src k hk _ _ _ _ _
    have : k = 0 := by omega
    subst this
    simp only [copyBackwardAlignedWordsLoop, Nat.mul_zero, Nat.sub_zero, Nat.lt_irrefl, if_false]
    exact Blit.zero m dest src
  | succ f ih =>
    intro m dest src k hk hd hs had has hz
    unfold copyBackwardAlignedWordsLoop
    by_cases h0 : k = 0
    · subst h0; simp only [Nat.mul_zero, Nat.sub_zero, Nat.lt_irrefl, if_false]; exact Blit.zero m dest src
    · rw [if_pos (by omega)]
      simp only [WORD_SIZE]
      have a1 : (src - 8) % 8 = 0 := by omega
      have a2 : (dest - 8) % 8 = 0 := by omega
      simp only [chkAligned_of _ _ a1, chkAligned_of _ _ a2]
      have e : dest - 8 * k = (dest - 8) - 8 * (k - 1) := by omega
      have e2 : src - 8 * k = (src - 8) - 8 * (k - 1) := by omega
      have ih' := ih (wrWord (noteWord m (src - 8)) (dest - 8) (rdWord (noteWord m (src - 8)) (src - 8))) (dest - 8) (src - 8) (k - 1)
        (by omega) (by omega) (by omega) a2 a1 (by omega)
      rw [← e, ← e2] at ih'
      exact Blit.bwd_comp (d := dest - 8 * k) (s := src - 8 * k) (a := 8 * (k - 1)) (b := 8)
        (Blit.word m (dest - 8) (src - 8)) ih' (by omega) (by omega) (by omega) (by omega)

theorem copyBackwardMisalignedWordsLoop_spec : ∀ (f : Nat) (m : Mem) (dest src k : Nat), k ≤ f → 8 * k ≤ dest → 8 * k ≤ src →
    dest % 8 = 0 → (src ≤ dest ∨ dest ≤ src - 8 * k) →
    Blit m (copyBackwardMisalignedWordsLoop f m dest src (dest - 8 * k)) (dest - 8 * k) (src - 8 * k) (8 * k) := by
  intro f
  induction f with
  | zero =>
    intro m dest src k hk _ _ _ _
    have : k = 0 := by omega
    subst this
    simp only [copyBackwardMisalignedWordsLoop, Nat.mul_zero, Nat.sub_zero, Nat.lt_irrefl, if_false]
    exact Blit.zero m dest src
  | succ f ih =>
    intro m dest src k hk hd hs had hz
    unfold copyBackwardMisalignedWordsLoop
    by_cases h0 : k = 0
    · subst h0; simp only [Nat.mul_zero, Nat.sub_zero, Nat.lt_irrefl, if_false]; exact Blit.zero m dest src
    · rw [if_pos (by omega)]
      simp only [WORD_SIZE]
      have a2 : (dest - 8) % 8 = 0 := by omega
      simp only [chkAligned_of _ _ a2]
      have e : dest - 8 * k = (dest - 8) - 8 * (k - 1) := by omega
      have e2 : src - 8 * k = (src - 8) - 8 * (k - 1) := by omega
      have ih' := ih (wrWord (noteWord m (src - 8)) (dest - 8) (rdWord (noteWord m (src - 8)) (src - 8))) (dest - 8) (src - 8) (k - 1)
        (by omega) (by omega) (by omega) a2 (by omega)
      rw [← e, ← e2] at ih'
      exact Blit.bwd_comp (d := dest - 8 * k) (s := src - 8 * k) (a := 8 * (k - 1)) (b := 8)
        (Blit.word m (dest - 8) (src - 8)) ih' (by omega) (by omega) (by omega) (by omega)

/-! ## masks, the whole copy functions, memmove's direction choice -/

theorem and_mask (x : Nat) : x &&& WORD_MASK = x % 8 := Nat.and_two_pow_sub_one_eq_mod x 3

theorem andNotMask_eq (n : Nat) : andNotMask n = 8 * (n / 8) := by
  unfold andNotMask; rw [and_mask]; omega

theorem fwd_mis (dest : Nat) :
    (dest + (wrappingNeg dest &&& WORD_MASK)) % 8 = 0 ∧ (wrappingNeg dest &&& WORD_MASK) < 8 := by
  rw [and_mask]; unfold wrappingNeg; simp only [TWO64] at *; omega

theorem copyForward_blit (m : Mem) (dest src n : Nat)
    (hz : dest ≤ src ∨ src + n ≤ dest) : Blit m (copyForward m dest src n) dest src n := by
  unfold copyForward
  by_cases hn : n ≥ WORD_COPY_THRESHOLD
  · rw [if_pos hn]
    have hn16 : n ≥ 16 := hn
    obtain ⟨hal, hlt⟩ := fwd_mis dest
    generalize hmis : wrappingNeg dest &&& WORD_MASK = mis at *
    simp only []
    rw [if_neg (show ¬ mis > n by omega), andNotMask_eq, and_mask]
    have B1 := copyForwardBytes_spec m dest src mis (by omega)
    generalize copyForwardBytes m dest src mis = m1 at *
    have B3 : ∀ m2, Blit m2 (copyForwardBytes m2 (dest + mis + 8 * ((n - mis) / 8)) (src + mis + 8 * ((n - mis) / 8))
        (n - mis - 8 * ((n - mis) / 8))) (dest + mis + 8 * ((n - mis) / 8)) (src + mis + 8 * ((n - mis) / 8))
        (n - mis - 8 * ((n - mis) / 8)) := fun m2 => copyForwardBytes_spec m2 _ _ _ (by omega)
    have hz2 : dest + mis ≤ src + mis ∨ src + mis + 8 * ((n - mis) / 8) ≤ dest + mis := by omega
    by_cases hs : (src + mis) % 8 = 0
    · rw [if_pos hs]
      have B2 := copyForwardAlignedWordsLoop_spec (8 * ((n - mis) / 8)) m1 (dest + mis) (src + mis) ((n - mis) / 8)
        (by omega) hal hs hz2
      exact Blit.fwd_comp (Blit.fwd_comp B1 B2 rfl rfl rfl (by omega)) (B3 _) (by omega) (by omega) (by omega) hz
    · rw [if_neg hs]
      have B2 := copyForwardMisalignedWordsLoop_spec (8 * ((n - mis) / 8)) m1 (dest + mis) (src + mis) ((n - mis) / 8)
        (by omega) hal hz2
      exact Blit.fwd_comp (Blit.fwd_comp B1 B2 rfl rfl rfl (by omega)) (B3 _) (by omega) (by omega) (by omega) hz
  · rw [if_neg hn]
    exact copyForwardBytes_spec m dest src n hz

theorem copyBackward_blit (m : Mem) (dest src n : Nat)
    (hz : src ≤ dest ∨ dest + n ≤ src) : Blit m (copyBackward m dest src n) dest src n := by
  unfold copyBackward
  simp only []
  by_cases hn : n ≥ WORD_COPY_THRESHOLD
  · rw [if_pos hn]
    have hn16 : n ≥ 16 := hn
    simp only [and_mask, andNotMask_eq]
    have hlt : (dest + n) % 8 < 8 := by omega
    have hal : (dest + n - (dest + n) % 8) % 8 = 0 := by omega
    generalize hmis : (dest + n) % 8 = mis at *
    rw [if_neg (show ¬ mis > n by omega)]
    have B1 := copyBackwardBytes_spec m (dest + n) (src + n) mis (by omega) (by omega) (by omega)
    generalize copyBackwardBytes m (dest + n) (src + n) mis = m1 at *
    have B3 : ∀ m2, Blit m2 (copyBackwardBytes m2 (dest + n - mis - 8 * ((n - mis) / 8)) (src + n - mis - 8 * ((n - mis) / 8))
        (n - mis - 8 * ((n - mis) / 8)))
        (dest + n - mis - 8 * ((n - mis) / 8) - (n - mis - 8 * ((n - mis) / 8)))
        (src + n - mis - 8 * ((n - mis) / 8) - (n - mis - 8 * ((n - mis) / 8)))
        (n - mis - 8 * ((n - mis) / 8)) := fun m2 => copyBackwardBytes_spec m2 _ _ _ (by omega) (by omega) (by omega)
    have hz2 : src + n - mis ≤ dest + n - mis ∨ dest + n - mis ≤ src + n - mis - 8 * ((n - mis) / 8) := by omega
    have ed : dest + n - mis - 8 * ((n - mis) / 8) - (n - mis - 8 * ((n - mis) / 8)) = dest := by omega
    have es : src + n - mis - 8 * ((n - mis) / 8) - (n - mis - 8 * ((n - mis) / 8)) = src := by omega
    rw [ed, es] at B3
    by_cases hs : (src + n - mis) % 8 = 0
    · rw [if_pos hs]
      have B2 := copyBackwardAlignedWordsLoop_spec (8 * ((n - mis) / 8)) m1 (dest + n - mis) (src + n - mis) ((n - mis) / 8)
        (by omega) (by omega) (by omega) hal hs hz2
      exact Blit.bwd_comp (Blit.bwd_comp B1 B2 (by omega) (by omega) rfl (by omega)) (B3 _) (by omega) (by omega) (by omega) hz
    · rw [if_neg hs]
      have B2 := copyBackwardMisalignedWordsLoop_spec (8 * ((n - mis) / 8)) m1 (dest + n - mis) (src + n - mis) ((n - mis) / 8)
        (by omega) (by omega) (by omega) hal hz2
      exact Blit.bwd_comp (Blit.bwd_comp B1 B2 (by omega) (by omega) rfl (by omega)) (B3 _) (by omega) (by omega) (by omega) hz
  · rw [if_neg hn]
    have B := copyBackwardBytes_spec m (dest + n) (src + n) n (by omega) (by omega) (by omega)
    have ed : dest + n - n = dest := by omega
    have es : src + n - n = src := by omega
    rw [ed, es] at B
    exact B

theorem wrappingSub_eq (a b : Nat) (ha : a < TWO64) (hb : b < TWO64) :
    wrappingSub a b = if b ≤ a then a - b else a + TWO64 - b := by
  unfold wrappingSub; simp only [TWO64] at *; split <;> omega

theorem memmove_blit (m : Mem) (dest src n : Nat) (hd : dest + n ≤ TWO64) (hs : src + n ≤ TWO64) :
    Blit m (memmove m dest src n).1 dest src n ∧ (memmove m dest src n).2 = dest := by
  unfold memmove
  simp only []
  by_cases h0 : n = 0
  · subst h0
    rw [if_pos (Nat.zero_le _)]
    exact ⟨copyForward_blit m dest src 0 (by omega), rfl⟩
  · rw [wrappingSub_eq dest src (by simp only [TWO64] at *; omega) (by simp only [TWO64] at *; omega)]
    split
    · split
      · exact ⟨copyForward_blit m dest src n (by omega), rfl⟩
      · exact ⟨copyBackward_blit m dest src n (by omega), rfl⟩
    · split
      · exact ⟨copyForward_blit m dest src n (by omega), rfl⟩
      · exfalso; simp only [TWO64] at *; omega
/-! ## memset and memcmp -/

/-- `m'` is `m0` with `[d, d+r)` filled with `c`, everything else unchanged, no bad event -/
def Filled (m0 m' : Mem) (d : Nat) (c : UInt8) (r : Nat) : Prop :=
  m'.bad = m0.bad ∧ (∀ x, m'.rd x = if d ≤ x ∧ x < d + r then c else m0.rd x) ∧ Acc m0 m' 0 0 d (d + r)

theorem Filled.zero (m : Mem) (d : Nat) (c : UInt8) : Filled m m d c 0 :=
  ⟨rfl, fun x => by rw [if_neg (by omega)], Acc.refl _ _ _ _ _⟩

theorem Filled.comp {m0 m1 m2 : Mem} {d d' a b r : Nat} {c : UInt8}
    (h1 : Filled m0 m1 d c a) (h2 : Filled m1 m2 d' c b) (hd : d' = d + a) (hr : r = a + b) : Filled m0 m2 d c r := by
  subst hd hr
  refine ⟨h2.1.trans h1.1, fun x => ?_,
    Acc.comp h1.2.2 h2.2.2 (by omega) (by omega) (by omega) (by omega)⟩
  rw [h2.2.1 x]
  by_cases hx : d + a ≤ x ∧ x < d + a + b
  · rw [if_pos hx, if_pos (by omega)]
  · rw [if_neg hx, h1.2.1 x]
    by_cases hx2 : d ≤ x ∧ x < d + a
    · rw [if_pos hx2, if_pos (by omega)]
    · rw [if_neg hx2, if_neg (by omega)]

theorem Filled.byte (m : Mem) (d : Nat) (c : UInt8) : Filled m (m.wr d c) d c 1 := by
  refine ⟨by simp, fun x => ?_, Acc.setByte m d c⟩
  rw [rd_wr]
  by_cases hx : x = d
  · subst hx; rw [if_pos rfl, if_pos (by omega)]
  · rw [if_neg hx, if_neg (by omega)]

theorem broadcast_table : ∀ n, n < 256 → ∀ j, j < 8 → broadcastLoop 8 n 8 / 256 ^ j % 256 = n := by
  decide +kernel

theorem byteOf_broadcast (c : UInt8) (j : Nat) (hj : j < 8) : byteOf (broadcast c) j = c := by
  unfold byteOf broadcast
  rw [broadcast_table c.toNat c.toNat_lt j hj, UInt8.ofNat_toNat]

theorem Filled.word (m : Mem) (d : Nat) (c : UInt8) : Filled m (wrWord m d (broadcast c)) d c 8 := by
  refine ⟨by simp, fun x => ?_, Acc.setWord m d _⟩
  rw [rd_wrWord]
  by_cases hx : d ≤ x ∧ x < d + 8
  · rw [if_pos hx, if_pos hx, byteOf_broadcast _ _ (by omega)]
  · rw [if_neg hx, if_neg hx]

theorem setBytesBytesLoop_spec : ∀ (f : Nat) (m : Mem) (s : Nat) (c : UInt8) (r : Nat), r ≤ f →
    Filled m (setBytesBytesLoop f m s c (s + r)) s c r := by
  intro f
  induction f with
  | zero =>
    intro m s c r hr
    have : r = 0 := by omega
    subst this
    simp only [setBytesBytesLoop, Nat.add_zero, Nat.lt_irrefl, if_false]
    exact Filled.zero m s c
  | succ f ih =>
    intro m s c r hr
    unfold setBytesBytesLoop
    by_cases h0 : r = 0
    · subst h0; simp only [Nat.add_zero, Nat.lt_irrefl, if_false]; exact Filled.zero m s c
    · rw [if_pos (by omega)]
      have e : s + r = (s + 1) + (r - 1) := by omega
      rw [e]
      exact Filled.comp (Filled.byte m s c) (ih _ (s + 1) c (r - 1) (by omega)) rfl (by omega)

theorem setBytesBytes_spec (m : Mem) (s : Nat) (c : UInt8) (r : Nat) : Filled m (setBytesBytes m s c r) s c r :=
  setBytesBytesLoop_spec r m s c r (Nat.le_refl _)

theorem setBytesWordsLoop_spec (c : UInt8) : ∀ (f : Nat) (m : Mem) (s k : Nat), k ≤ f → s % 8 = 0 →
    Filled m (setBytesWordsLoop f m s (broadcast c) (s + 8 * k)) s c (8 * k) := by
  intro f
  induction f with
  | zero =>
    intro m s k hk _
    have : k = 0 := by omega
    subst this
    simp only [setBytesWordsLoop, Nat.mul_zero, Nat.add_zero, Nat.lt_irrefl, if_false]
    exact Filled.zero m s c
  | succ f ih =>
    intro m s k hk hs
    unfold setBytesWordsLoop
    by_cases h0 : k = 0
    · subst h0; simp only [Nat.mul_zero, Nat.add_zero, Nat.lt_irrefl, if_false]; exact Filled.zero m s c
    · rw [if_pos (by omega)]
      simp only [chkAligned_of _ _ hs, WORD_SIZE]
      have e : s + 8 * k = (s + 8) + 8 * (k - 1) := by omega
      rw [e]
      exact Filled.comp (Filled.word m s c) (ih _ (s + 8) (k - 1) (by omega) (by omega)) rfl (by omega)

theorem setBytes_filled (m : Mem) (s : Nat) (c : UInt8) (n : Nat) : Filled m (setBytes m s c n) s c n := by
  unfold setBytes
  by_cases hn : n ≥ WORD_COPY_THRESHOLD
  · rw [if_pos hn]
    have hn16 : n ≥ 16 := hn
    obtain ⟨hal, hlt⟩ := fwd_mis s
    generalize hmis : wrappingNeg s &&& WORD_MASK = mis at *
    simp only []
    rw [if_neg (show ¬ mis > n by omega), andNotMask_eq]
    have B1 := setBytesBytes_spec m s c mis
    generalize setBytesBytes m s c mis = m1 at *
    have B2 := setBytesWordsLoop_spec c (8 * ((n - mis) / 8)) m1 (s + mis) ((n - mis) / 8) (by omega) hal
    exact Filled.comp (Filled.comp B1 B2 rfl rfl) (setBytesBytes_spec _ _ c _) (by omega) (by omega)
  · rw [if_neg hn]
    exact setBytesBytes_spec m s c n

/-! compare -/

def CmpPost (m : Mem) (s1 s2 n : Nat) : Option Int → Prop
  | none => False
  | some v =>
    (v = 0 ∧ ∀ j, j < n → m.rd (s1 + j) = m.rd (s2 + j)) ∨
    (∃ p, p < n ∧ (∀ j, j < p → m.rd (s1 + j) = m.rd (s2 + j)) ∧ m.rd (s1 + p) ≠ m.rd (s2 + p) ∧
      v = ((m.rd (s1 + p)).toNat : Int) - ((m.rd (s2 + p)).toNat : Int))

theorem CmpPost_note (m : Mem) (a s1 s2 n : Nat) (r : Option Int) :
    CmpPost (m.note a) s1 s2 n r ↔ CmpPost m s1 s2 n r := Iff.rfl

theorem compareBytesLoop_spec (s1 s2 n : Nat) : ∀ (f : Nat) (m : Mem) (i : Nat), n - i ≤ f → i ≤ n →
    (∀ j, j < i → m.rd (s1 + j) = m.rd (s2 + j)) → CmpPost m s1 s2 n (compareBytesLoop f m s1 s2 n i).2 := by
  intro f
  induction f with
  | zero =>
    intro m i hf hi hpre
    have : i = n := by omega
    subst this
    simp only [compareBytesLoop, Nat.lt_irrefl, if_false]
    exact Or.inl ⟨rfl, hpre⟩
  | succ f ih =>
    intro m i hf hi hpre
    unfold compareBytesLoop
    by_cases hlt : i < n
    · rw [if_pos hlt]
      simp only []
      split
      · next hne =>
        have hab : m.rd (s1 + i) ≠ m.rd (s2 + i) := hne
        exact Or.inr ⟨i, hlt, hpre, hab, rfl⟩
      · next heq =>
        have hab : m.rd (s1 + i) = m.rd (s2 + i) := Classical.not_not.mp heq
        rw [← CmpPost_note _ (s1 + i), ← CmpPost_note _ (s2 + i)]
        apply ih _ (i + 1) (by omega) (by omega)
        intro j hj
        simp only [rd_note]
        by_cases hji : j = i
        · subst hji; exact hab
        · exact hpre j (by omega)
    · rw [if_neg hlt]
      have : i = n := by omega
      subst this
      exact Or.inl ⟨rfl, hpre⟩

theorem compareBytes_spec (m : Mem) (s1 s2 n : Nat) : CmpPost m s1 s2 n (compareBytes m s1 s2 n).2 :=
  compareBytesLoop_spec s1 s2 n n m 0 (by omega) (by omega) (fun j hj => by omega)

/-- what the compare loop touches: loads of `s1[i]`, `s2[i]` with `i < n` only, no store, and the memory content
(and `bad`) comes back as it was -/
def CmpAcc (m0 m' : Mem) (s1 s2 n : Nat) : Prop :=
  (∀ a, a ∈ m'.rlog → a ∈ m0.rlog ∨ (∃ i, i < n ∧ (a = s1 + i ∨ a = s2 + i))) ∧
  m'.wlog = m0.wlog ∧ m'.bad = m0.bad ∧ ∀ x, m'.rd x = m0.rd x

theorem compareBytesLoop_acc (s1 s2 n : Nat) : ∀ (f : Nat) (m : Mem) (i : Nat),
    CmpAcc m (compareBytesLoop f m s1 s2 n i).1 s1 s2 n := by
  intro f
  induction f with
  | zero => intro m i; exact ⟨fun _ h => Or.inl h, rfl, rfl, fun _ => rfl⟩
  | succ f ih =>
    intro m i
    unfold compareBytesLoop
    by_cases hlt : i < n
    · rw [if_pos hlt]
      have step : CmpAcc m ((m.note (s1 + i)).note (s2 + i)) s1 s2 n := by
        refine ⟨fun a ha => ?_, rfl, rfl, fun _ => rfl⟩
        simp only [rlog_note, List.mem_cons] at ha
        rcases ha with h | h | h
        · exact Or.inr ⟨i, hlt, Or.inr h⟩
        · exact Or.inr ⟨i, hlt, Or.inl h⟩
        · exact Or.inl h
      simp only []
      split
      · exact step
      · have h2 := ih ((m.note (s1 + i)).note (s2 + i)) (i + 1)
        refine ⟨fun a ha => ?_, h2.2.1.trans step.2.1, h2.2.2.1.trans step.2.2.1, fun x => (h2.2.2.2 x).trans (step.2.2.2 x)⟩
        rcases h2.1 a ha with h | h
        · exact step.1 a h
        · exact Or.inr h
    · rw [if_neg hlt]
      exact ⟨fun _ h => Or.inl h, rfl, rfl, fun _ => rfl⟩

theorem compareBytes_acc (m : Mem) (s1 s2 n : Nat) : CmpAcc m (compareBytes m s1 s2 n).1 s1 s2 n :=
  compareBytesLoop_acc s1 s2 n n m 0

end TinyVerif.MemFns
