import TinyVerif.Proofs.MutexInv
set_option maxRecDepth 2000
set_option linter.unusedSimpArgs false
set_option linter.unusedVariables false
namespace TinyVerif.Mutex

/-! ### possibility-form liveness: from every reachable state a thread inside `lock()` can be driven to
hold the lock using only steps the model allows (the current holder runs to its unlocking swap, then the
waiter runs alone) -/

theorem run_append (c : Cfg) (s : St) (a b : List (Nat × Ev)) :
    run c s (a ++ b) = (run c s a).bind (fun s' => run c s' b) := by
  induction a generalizing s with
  | nil => rfl
  | cons x rest ih =>
    obtain ⟨i, e⟩ := x
    simp only [List.cons_append, run]
    cases h : step c s i e with
    | none => rfl
    | some s1 => simp [ih]

theorem run_single (c : Cfg) (s s' : St) (i : Nat) (e : Ev) (h : step c s i e = some s') :
    run c s [(i, e)] = some s' := by simp [run, h]

/-- a thread that is not idle has its current transaction at the head of its program -/
def PInv (s : St) : Prop := ∀ i, (s.ths i).pc ≠ .idle → (s.ths i).prog ≠ []

theorem init_pinv (progs : List (List Txn)) : PInv (init progs) := by
  intro i h; simp [init] at h

theorem step_pinv (c : Cfg) (s s' : St) (i : Nat) (e : Ev) (h : step c s i e = some s') (hp : PInv s) : PInv s' := by
  unfold step at h
  split at h
  · simp at h
  · simp only [] at h
    have key : ∀ (t' : Th), (t'.pc ≠ .idle → t'.prog ≠ []) → PInv (setTh s i t') := by
      intro t' ht j hj
      by_cases hji : j = i
      · subst hji; simp at hj ⊢; exact ht hj
      · simp [setTh_ths, hji] at hj ⊢; exact hp j hj
    have keep : ∀ pc', (s.ths i).pc ≠ .idle → PInv (setTh s i { s.ths i with pc := pc' }) := by
      intro pc' hne; apply key; intro _; exact hp i hne
    split at h
    all_goals (try (simp at h; done))
    · rename_i hpc
      split at h
      · rename_i tx rest heq
        split at h
        · simp at h
        · cases h; apply key; intro _; simp [heq]
      · simp at h
    · rename_i hpc
      split at h
      · rename_i tx rest heq
        split at h
        · cases h; apply key; intro _; simp [heq]
        · simp at h
      · simp at h
    · rename_i tr ok old hpc
      have hne : (s.ths i).pc ≠ .idle := by rw [hpc]; simp
      split at h
      · simp at h
      · split at h
        · split at h
          · cases h
            unfold rmw
            intro j hj
            by_cases hji : j = i
            · subst hji; simp at hj ⊢; exact hp j hne
            · simp [setTh_ths, hji] at hj ⊢; exact hp j hj
          · simp at h
        · split at h
          · simp at h
          · cases h; exact keep _ hne
    · rename_i hpc
      cases h; apply key; intro hh; simp at hh
    · rename_i n first v hpc
      have hne : (s.ths i).pc ≠ .idle := by rw [hpc]; simp
      split at h <;> (cases h; exact keep _ hne)
    · rename_i ok old hpc
      have hne : (s.ths i).pc ≠ .idle := by rw [hpc]; simp
      split at h
      · simp at h
      · split at h
        · split at h
          · cases h
            unfold rmw
            intro j hj
            by_cases hji : j = i
            · subst hji; simp at hj ⊢; exact hp j hne
            · simp [setTh_ths, hji] at hj ⊢; exact hp j hj
          · simp at h
        · split at h
          · simp at h
          · cases h; exact keep _ hne
    · rename_i new old hpc
      have hne : (s.ths i).pc ≠ .idle := by rw [hpc]; simp
      split at h
      · simp at h
      · cases h
        unfold rmw
        intro j hj
        by_cases hji : j = i
        · subst hji; simp at hj ⊢; exact hp j hne
        · simp [setTh_ths, hji] at hj ⊢; exact hp j hj
    · rename_i v hpc
      have hne : (s.ths i).pc ≠ .idle := by rw [hpc]; simp
      cases h; exact keep _ hne
    · rename_i expect park hpc
      have hne : (s.ths i).pc ≠ .idle := by rw [hpc]; simp
      split at h
      · simp at h
      · split at h
        · split at h
          · cases h; exact keep _ hne
          · simp at h
        · split at h
          · simp at h
          · cases h; exact keep _ hne
    · rename_i eintr hpc
      have hne : (s.ths i).pc ≠ .idle := by rw [hpc]; simp
      cases h; exact keep _ hne
    · rename_i hpc
      have hne : (s.ths i).pc ≠ .idle := by rw [hpc]; simp
      split at h
      · cases h; exact keep _ hne
      · simp at h
    · rename_i k hpc
      have hne : (s.ths i).pc ≠ .idle := by rw [hpc]; simp
      cases h
      intro j hj
      by_cases hji : j = i
      · subst hji; simp at hj ⊢; exact hp j hne
      · simp [setTh_ths, hji] at hj ⊢; exact hp j hj
    · rename_i hpc
      have hne : (s.ths i).pc ≠ .idle := by rw [hpc]; simp
      cases h; exact keep _ hne
    · rename_i new old hpc
      have hne : (s.ths i).pc ≠ .idle := by rw [hpc]; simp
      split at h
      · simp at h
      · cases h
        unfold rmw
        intro j hj
        by_cases hji : j = i
        · subst hji
          simp at hj ⊢
          simp [hj]; exact hp j hne
        · simp [setTh_ths, hji] at hj ⊢; exact hp j hj
    · rename_i num woken hpc
      split at h
      · simp at h
      · split at h
        · split at h
          · simp at h
          · cases h; apply key; intro hh; simp at hh
        · rename_i j
          split at h
          · simp at h
          · split at h
            · simp at h
            · rename_i hjp
              simp only [Decidable.not_not] at hjp
              cases h
              intro k hk
              by_cases hki : k = i
              · subst hki; simp at hk
              · by_cases hkj : k = j
                · subst hkj
                  simp [setTh_ths, hki] at hk ⊢
                  exact hp k (by rw [hjp]; simp)
                · simp [setTh_ths, hki, hkj] at hk ⊢; exact hp k hk


/-- `s'` is reachable from `s` by steps of thread `u` alone (spurious futex returns of `u` included) -/
def Drives (c : Cfg) (s s' : St) (u : Nat) : Prop :=
  ∃ evs : List (Nat × Ev), (∀ x ∈ evs, x.1 = u) ∧ run c s evs = some s' ∧ s'.n = s.n ∧ ∀ j, j ≠ u → s'.ths j = s.ths j

theorem Drives.refl (c : Cfg) (s : St) (u : Nat) : Drives c s s u := ⟨[], by simp, rfl, rfl, fun _ _ => rfl⟩

theorem Drives.trans {c : Cfg} {s s1 s2 : St} {u : Nat} (h1 : Drives c s s1 u) (h2 : Drives c s1 s2 u) : Drives c s s2 u := by
  obtain ⟨e1, a1, r1, n1, o1⟩ := h1
  obtain ⟨e2, a2, r2, n2, o2⟩ := h2
  refine ⟨e1 ++ e2, ?_, ?_, by rw [n2, n1], fun j hj => by rw [o2 j hj, o1 j hj]⟩
  · intro x hx; rcases List.mem_append.mp hx with h | h
    · exact a1 x h
    · exact a2 x h
  · rw [run_append, r1]; exact r2

theorem Drives.one {c : Cfg} {s s' : St} {u : Nat} (e : Ev) (h : step c s u e = some s')
    (hn : s'.n = s.n) (ho : ∀ j, j ≠ u → s'.ths j = s.ths j) : Drives c s s' u :=
  ⟨[(u, e)], by simp, run_single c s s' u e h, hn, ho⟩

/-- one step of `u` that only rewrites `u`'s thread record and possibly the memory fields -/
theorem drives_setTh {c : Cfg} {s : St} {u : Nat} (e : Ev) (s0 : St) (t' : Th)
    (h : step c s u e = some (setTh s0 u t')) (hn : s0.n = s.n) (ht : s0.ths = s.ths) :
    Drives c s (setTh s0 u t') u :=
  Drives.one e h (by simpa using hn) (by intro j hj; simp [setTh_ths, hj, ht])

section release
variable (c : Cfg)

theorem release_unlockSwap (s : St) (u : Nat) (hu : u < s.n) (hpc : (s.ths u).pc = .unlockSwap) :
    ∃ s', Drives c s s' u ∧ s'.wval = 0 := by
  refine ⟨_, Drives.one (.swap 0 s.wval) (s' := rmw s u { s.ths u with prog := if s.wval = 2 then (s.ths u).prog else popTxn (s.ths u) }
      false c.unlockRel 0 (if s.wval = 2 then .wake else .idle)) ?_ ?_ ?_, ?_⟩
  · unfold step
    have : ¬ u ≥ s.n := by omega
    simp [this, hpc]
  · simp [rmw]
  · intro j hj; simp [rmw, setTh_ths, hj]
  · simp [rmw]

theorem release_hold (s : St) (u k : Nat) (hu : u < s.n) (hpc : (s.ths u).pc = .hold k) :
    ∃ s', Drives c s s' u ∧ s'.wval = 0 := by
  induction k generalizing s with
  | zero =>
    have h1 : step c s u .rel = some (setTh s u { s.ths u with pc := .unlockSwap }) := by
      unfold step
      have : ¬ u ≥ s.n := by omega
      simp [this, hpc]
    obtain ⟨s2, d2, w2⟩ := release_unlockSwap c (setTh s u { s.ths u with pc := .unlockSwap }) u (by simpa using hu) (by simp)
    exact ⟨s2, (drives_setTh .rel s _ h1 rfl rfl).trans d2, w2⟩
  | succ k ih =>
    let s1 : St := setTh { s with raced := s.raced || ((s.ths u).dv != s.dlatest), dlatest := s.dlatest + 1 } u
        { s.ths u with pc := .hold k, dv := s.dlatest + 1 }
    have h1 : step c s u .data = some s1 := by
      unfold step
      have : ¬ u ≥ s.n := by omega
      simp [this, hpc, s1]
    obtain ⟨s2, d2, w2⟩ := ih s1 (by simpa [s1] using hu) (by simp [s1])
    exact ⟨s2, (Drives.one .data h1 (by simp [s1]) (by intro j hj; simp [s1, setTh_ths, hj])).trans d2, w2⟩

theorem release_holder (s : St) (u : Nat) (hu : u < s.n) (hp : PInv s) (hh : holds (s.ths u) = true) :
    ∃ s', Drives c s s' u ∧ s'.wval = 0 := by
  cases hpc : (s.ths u).pc <;> simp [holds, hpc] at hh
  case acquired =>
    have hne := hp u (by rw [hpc]; simp)
    cases hprog : (s.ths u).prog with
    | nil => exact absurd hprog hne
    | cons tx rest =>
      have h1 : step c s u .acq = some (setTh s u { s.ths u with pc := .hold tx.acc }) := by
        unfold step
        have : ¬ u ≥ s.n := by omega
        simp [this, hpc, hprog]
      obtain ⟨s2, d2, w2⟩ := release_hold c (setTh s u { s.ths u with pc := .hold tx.acc }) u tx.acc (by simpa using hu) (by simp)
      exact ⟨s2, (drives_setTh .acq s _ h1 rfl rfl).trans d2, w2⟩
  case hold k => exact release_hold c s u k hu hpc
  case unlockSwap => exact release_unlockSwap c s u hu hpc

end release

/-- thread `t` is inside a blocking `lock()` call -/
def inLock (t : Th) : Bool :=
  match t.pc with
  | .fastCas false | .spin _ _ | .casAfterSpin | .swap2 | .waitLoad | .waitSys | .parked => true
  | _ => false

section acquire
variable (c : Cfg)

theorem acquire_cas (s : St) (t : Nat) (ht : t < s.n) (h0 : s.wval = 0)
    (hpc : (s.ths t).pc = .fastCas false ∨ (s.ths t).pc = .casAfterSpin) :
    ∃ s', Drives c s s' t ∧ holds (s'.ths t) = true := by
  have hn : ¬ t ≥ s.n := by omega
  rcases hpc with hpc | hpc
  · refine ⟨rmw s t (s.ths t) c.lockAcq false 1 .acquired, Drives.one (.cas true 0) ?_ (by simp [rmw]) (by intro j hj; simp [rmw, setTh_ths, hj]), by simp [rmw, holds]⟩
    unfold step; simp [hn, hpc, h0]
  · refine ⟨rmw s t (s.ths t) c.cas2Acq false 1 .acquired, Drives.one (.cas true 0) ?_ (by simp [rmw]) (by intro j hj; simp [rmw, setTh_ths, hj]), by simp [rmw, holds]⟩
    unfold step; simp [hn, hpc, h0]

theorem acquire_swap2 (s : St) (t : Nat) (ht : t < s.n) (h0 : s.wval = 0) (hpc : (s.ths t).pc = .swap2) :
    ∃ s', Drives c s s' t ∧ holds (s'.ths t) = true := by
  have hn : ¬ t ≥ s.n := by omega
  refine ⟨rmw s t (s.ths t) c.swap2Acq false 2 .acquired, Drives.one (.swap 2 0) ?_ (by simp [rmw]) (by intro j hj; simp [rmw, setTh_ths, hj]), by simp [rmw, holds]⟩
  unfold step; simp [hn, hpc, h0]

theorem acquire_spin (s : St) (t n : Nat) (first : Bool) (ht : t < s.n) (h0 : s.wval = 0) (hpc : (s.ths t).pc = .spin n first) :
    ∃ s', Drives c s s' t ∧ holds (s'.ths t) = true := by
  have hn : ¬ t ≥ s.n := by omega
  -- the spin load observes the (latest) value 0
  have h1 : step c s t (.load 0) = some (setTh s t { s.ths t with pc := if first = true then .casAfterSpin else .swap2 }) := by
    unfold step
    simp [hn, hpc, loopTop]
  cases first with
  | true =>
    simp only [if_true] at h1
    obtain ⟨s2, d2, w2⟩ := acquire_cas c (setTh s t { s.ths t with pc := .casAfterSpin }) t (by simpa using ht) (by simpa using h0) (Or.inr (by simp))
    exact ⟨s2, (drives_setTh (.load 0) s _ h1 rfl rfl).trans d2, w2⟩
  | false =>
    simp only [Bool.false_eq_true, if_false] at h1
    obtain ⟨s2, d2, w2⟩ := acquire_swap2 c (setTh s t { s.ths t with pc := .swap2 }) t (by simpa using ht) (by simpa using h0) (by simp)
    exact ⟨s2, (drives_setTh (.load 0) s _ h1 rfl rfl).trans d2, w2⟩

/-- with the word free, a thread anywhere inside `lock()` can be driven (alone) to hold the lock -/
theorem acquire_when_free (s : St) (t : Nat) (ht : t < s.n) (h0 : s.wval = 0) (hl : inLock (s.ths t) = true) :
    ∃ s', Drives c s s' t ∧ holds (s'.ths t) = true := by
  have hn : ¬ t ≥ s.n := by omega
  cases hpc : (s.ths t).pc <;> simp [inLock, hpc] at hl
  case fastCas tr => cases tr <;> simp at hl; exact acquire_cas c s t ht h0 (Or.inl hpc)
  case spin n first => exact acquire_spin c s t n first ht h0 hpc
  case casAfterSpin => exact acquire_cas c s t ht h0 (Or.inr hpc)
  case swap2 => exact acquire_swap2 c s t ht h0 hpc
  case waitLoad =>
    have h1 : step c s t (.load 0) = some (setTh s t { s.ths t with pc := .spin c.spinMax false }) := by
      unfold step; simp [hn, hpc]
    obtain ⟨s2, d2, w2⟩ := acquire_spin c (setTh s t { s.ths t with pc := .spin c.spinMax false }) t c.spinMax false
      (by simpa using ht) (by simpa using h0) (by simp)
    exact ⟨s2, (drives_setTh (.load 0) s _ h1 rfl rfl).trans d2, w2⟩
  case waitSys =>
    have h1 : step c s t (.fwait 2 false) = some (setTh s t { s.ths t with pc := .spin c.spinMax false }) := by
      unfold step; simp [hn, hpc, h0]
    obtain ⟨s2, d2, w2⟩ := acquire_spin c (setTh s t { s.ths t with pc := .spin c.spinMax false }) t c.spinMax false
      (by simpa using ht) (by simpa using h0) (by simp)
    exact ⟨s2, (drives_setTh (.fwait 2 false) s _ h1 rfl rfl).trans d2, w2⟩
  case parked =>
    have h1 : step c s t (.spur false) = some (setTh s t { s.ths t with pc := .spin c.spinMax false }) := by
      unfold step; simp [hn, hpc]
    obtain ⟨s2, d2, w2⟩ := acquire_spin c (setTh s t { s.ths t with pc := .spin c.spinMax false }) t c.spinMax false
      (by simpa using ht) (by simpa using h0) (by simp)
    exact ⟨s2, (drives_setTh (.spur false) s _ h1 rfl rfl).trans d2, w2⟩

end acquire

end TinyVerif.Mutex
