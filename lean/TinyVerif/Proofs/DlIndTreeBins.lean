import TinyVerif.Proofs.DlIndTree
import TinyVerif.Proofs.DlFresh
/-!
Bin-level layer of the inductiveness proof of `wfb`: what the heap wrappers of the bin operations
(`insert_small_chunk`, `take_first_small`, `unlink_small_chunk`, `insert_large_chunk`,
`unlink_large_chunk`, `insert_chunk`, `unlink_chunk`, `replace_dv`) do to

* the state (`*_spec`: exactly one bin is replaced; `BinFrame`: nothing else changes),
* the multiset of binned chunks (`binned`, `freeList`, as `List.Perm`),
* the checker's conjuncts `sbinsOk` / `tbinsOk`,

plus the relation between the derived bitmaps and bin emptiness (`mapBits_testBit`) and progress
facts for the two unlink operations.  Pure trie facts are in `Proofs/DlIndTree.lean`.
-/
namespace TinyVerif.Dl

open List

/-! ### the two conjuncts, named -/

/-- the `sbinsOk` conjunct of `wfParts` -/
def sbinsOk (h : Heap) : Bool := decide (h.sbins.length = 32) && sbinsFrom h.ents 0 h.sbins
/-- the `tbinsOk` conjunct of `wfParts` -/
def tbinsOk (h : Heap) : Bool := decide (h.tbins.length = 32) && tbinsFrom h.ents 0 h.tbins

theorem WFParts.sbinsOk {hs : Hist} (p : WFParts hs) : sbinsOk hs.st.h = true := p.sbins
theorem WFParts.tbinsOk {hs : Hist} (p : WFParts hs) : tbinsOk hs.st.h = true := p.tbins

/-- every header size fits a machine word (follows from `entsOk`, `allInSegs`, `tiles`, `segsOk`;
needed for tree bin 31 only, whose keys are the sizes themselves modulo 2^64) -/
def EntsLt (es : List Ent) : Prop := ∀ a e, findEnt es a = some e → e.size < U64

theorem sizeAt_iff {es : List Ent} {a s : Nat} : sizeAt es a s = true ↔ ∃ e, findEnt es a = some e ∧ e.size = s := by
  unfold sizeAt
  cases findEnt es a with
  | none => simp
  | some e => simp

theorem sizeAt_lt {es : List Ent} {a s : Nat} (hl : EntsLt es) (h : sizeAt es a s = true) : s < U64 := by
  obtain ⟨e, he, rfl⟩ := sizeAt_iff.1 h
  exact hl a e he

theorem sizeAt_unique {es : List Ent} {a s s' : Nat} (h : sizeAt es a s = true) (h' : sizeAt es a s' = true) :
    s = s' := by
  obtain ⟨e, he, rfl⟩ := sizeAt_iff.1 h
  obtain ⟨e', he', rfl⟩ := sizeAt_iff.1 h'
  rw [he] at he'; injection he' with he'; rw [he']

/-! ### `joinAll` -/

theorem count_joinAll_set (ls : List (List Nat)) : ∀ (i : Nat) (l l' : List Nat), ls[i]? = some l → ∀ v,
    count v (joinAll (ls.set i l')) + count v l = count v (joinAll ls) + count v l' := by
  induction ls with
  | nil => intro i l l' h; simp at h
  | cons x xs ih =>
    intro i l l' h v
    cases i with
    | zero =>
      simp only [List.getElem?_cons_zero, Option.some.injEq] at h
      subst h
      simp only [List.set_cons_zero, joinAll, List.count_append]; omega
    | succ i =>
      simp only [List.getElem?_cons_succ] at h
      have := ih i l l' h v
      simp only [List.set_cons_succ, joinAll, List.count_append]; omega

theorem mem_joinAll_iff {ls : List (List Nat)} {a : Nat} :
    a ∈ joinAll ls ↔ ∃ (i : Nat) (l : List Nat), ls[i]? = some l ∧ a ∈ l := by
  induction ls with
  | nil => simp [joinAll]
  | cons x xs ih =>
    simp only [joinAll, List.mem_append, ih]
    constructor
    · rintro (h | ⟨i, l, h1, h2⟩)
      · exact ⟨0, x, rfl, h⟩
      · exact ⟨i + 1, l, by simpa using h1, h2⟩
    · rintro ⟨i, l, h1, h2⟩
      cases i with
      | zero => simp only [List.getElem?_cons_zero, Option.some.injEq] at h1; subst h1; exact Or.inl h2
      | succ i => exact Or.inr ⟨i, l, by simpa using h1, h2⟩

theorem mem_joinAll_map_iff {ts : List Tree} {a : Nat} :
    a ∈ joinAll (ts.map Tree.members) ↔ ∃ (i : Nat) (t : Tree), ts[i]? = some t ∧ a ∈ t.members := by
  rw [mem_joinAll_iff]
  constructor
  · rintro ⟨i, l, h1, h2⟩
    rw [List.getElem?_map] at h1
    cases ht : ts[i]? with
    | none => rw [ht] at h1; cases h1
    | some t =>
      rw [ht] at h1; simp only [Option.map_some, Option.some.injEq] at h1
      subst h1; exact ⟨i, t, ht, h2⟩
  · rintro ⟨i, t, h1, h2⟩
    exact ⟨i, t.members, by rw [List.getElem?_map, h1]; rfl, h2⟩

/-! ### what the wrappers do to the state -/

/-- everything but the bins is unchanged -/
structure BinFrame (h h' : Heap) : Prop where
  ents : h'.ents = h.ents
  dv : h'.dv = h.dv
  dvsize : h'.dvsize = h.dvsize
  top : h'.top = h.top
  topsize : h'.topsize = h.topsize
  tr : h'.tr = h.tr

theorem BinFrame.refl (h : Heap) : BinFrame h h := ⟨rfl, rfl, rfl, rfl, rfl, rfl⟩
theorem BinFrame.trans {a b c : Heap} (h1 : BinFrame a b) (h2 : BinFrame b c) : BinFrame a c :=
  ⟨h2.ents.trans h1.ents, h2.dv.trans h1.dv, h2.dvsize.trans h1.dvsize, h2.top.trans h1.top,
    h2.topsize.trans h1.topsize, h2.tr.trans h1.tr⟩

theorem setBin_frame (h : Heap) (i : Nat) (l : List Nat) :
    BinFrame h (setBin h i l) ∧ (setBin h i l).tbins = h.tbins ∧ (setBin h i l).sbins = h.sbins.set i l :=
  ⟨⟨rfl, rfl, rfl, rfl, rfl, rfl⟩, rfl, rfl⟩

theorem setTree_frame (h : Heap) (i : Nat) (t : Tree) :
    BinFrame h (setTree h i t) ∧ (setTree h i t).sbins = h.sbins ∧ (setTree h i t).tbins = h.tbins.set i t :=
  ⟨⟨rfl, rfl, rfl, rfl, rfl, rfl⟩, rfl, rfl⟩

theorem getBin_ok {h : Heap} {i : Nat} {l : List Nat} : getBin h i = .ok l ↔ h.sbins[i]? = some l := by
  unfold getBin
  cases h.sbins[i]? with
  | none => simp [throw, throwThe, MonadExceptOf.throw]
  | some l' => simp [pure, Except.pure]

theorem getTree_ok {h : Heap} {i : Nat} {t : Tree} : getTree h i = .ok t ↔ h.tbins[i]? = some t := by
  unfold getTree
  cases h.tbins[i]? with
  | none => simp [throw, throwThe, MonadExceptOf.throw]
  | some l' => simp [pure, Except.pure]

theorem getE_ok {h : Heap} {a : Nat} {e : Ent} : getE h a = .ok e ↔ findEnt h.ents a = some e := by
  unfold getE
  cases findEnt h.ents a with
  | none => simp [throw, throwThe, MonadExceptOf.throw]
  | some l' => simp [pure, Except.pure]

theorem insert_small_chunk_spec {h h' : Heap} {c sz : Nat} (hh : insert_small_chunk h c sz = .ok h') :
    MIN_CHUNK_SIZE ≤ sz ∧ ∃ l, h.sbins[small_index sz]? = some l ∧ h' = setBin h (small_index sz) (c :: l) := by
  unfold insert_small_chunk at hh
  dsimp only at hh
  msimp at hh
  obtain ⟨_, h1, l, h2, h3⟩ := hh
  simp only [decide_eq_false_iff_not, Nat.not_lt] at h1
  exact ⟨h1, l, getBin_ok.1 h2, h3.symm⟩

theorem take_first_small_spec' {h h' : Heap} {idx p : Nat} (hh : take_first_small h idx = .ok (h', p)) :
    ∃ rest e, h.sbins[idx]? = some (p :: rest) ∧ findEnt h.ents p = some e ∧
      e.size = small_index2size idx ∧ h' = setBin h idx rest := by
  unfold take_first_small at hh
  msimp at hh
  obtain ⟨l, hl, hh⟩ := hh
  split at hh
  · msimp at hh
  · rename_i p' rest
    msimp at hh
    obtain ⟨e, he, _, hs, hh⟩ := hh
    simp only [Prod.mk.injEq] at hh
    obtain ⟨h1, hp⟩ := hh; subst hp
    simp only [ne_eq, decide_eq_false_iff_not, Decidable.not_not] at hs
    exact ⟨rest, e, getBin_ok.1 hl, getE_ok.1 he, hs, h1.symm⟩

theorem unlink_small_chunk_spec {h h' : Heap} {c sz : Nat} (hh : unlink_small_chunk h c sz = .ok h') :
    ∃ l e, h.sbins[small_index sz]? = some l ∧ findEnt h.ents c = some e ∧
      e.size = small_index2size (small_index sz) ∧ c ∈ l ∧ h' = setBin h (small_index sz) (l.erase c) := by
  unfold unlink_small_chunk at hh
  dsimp only at hh
  msimp at hh
  obtain ⟨l, hl, e, he, _, hs, hh⟩ := hh
  simp only [ne_eq, decide_eq_false_iff_not, Decidable.not_not] at hs
  split at hh
  · rename_i hc
    msimp at hh
    exact ⟨l, e, getBin_ok.1 hl, getE_ok.1 he, hs, List.contains_iff_mem.1 hc, hh.symm⟩
  · msimp at hh

theorem insert_large_chunk_spec {h h' : Heap} {c sz : Nat} (hh : insert_large_chunk h c sz = .ok h') :
    ∃ t, h.tbins[compute_tree_index sz]? = some t ∧
      h' = setTree h (compute_tree_index sz) (t.insert (skey (compute_tree_index sz) sz) c sz) := by
  unfold insert_large_chunk at hh
  dsimp only at hh
  msimp at hh
  obtain ⟨t, ht, hh⟩ := hh
  exact ⟨t, getTree_ok.1 ht, hh.symm⟩

theorem unlink_large_chunk_spec {h h' : Heap} {c : Nat} (hh : unlink_large_chunk h c = .ok h') :
    ∃ e t t', findEnt h.ents c = some e ∧ h.tbins[compute_tree_index e.size]? = some t ∧
      t.remove c = some t' ∧ h' = setTree h (compute_tree_index e.size) t' := by
  unfold unlink_large_chunk at hh
  dsimp only at hh
  msimp at hh
  obtain ⟨e, he, t, ht, hh⟩ := hh
  split at hh
  · rename_i t' ht'
    msimp at hh
    exact ⟨e, t, t', getE_ok.1 he, getTree_ok.1 ht, ht', hh.symm⟩
  · msimp at hh

/-- `replace_dv`: the old `dv` (if there is one) goes to its small bin, then `dv`/`dvsize` are set -/
theorem replace_dv_spec {h h' : Heap} {c sz : Nat} (hh : replace_dv h c sz = .ok h') :
    is_small h.dvsize = true ∧ ∃ h1, (if h.dvsize ≠ 0 then insert_small_chunk h h.dv h.dvsize = .ok h1 else h1 = h) ∧
      h' = { h1 with dvsize := sz, dv := c } := by
  unfold replace_dv at hh
  msimp at hh
  obtain ⟨_, h1, hh⟩ := hh
  simp only [Bool.not_eq_false'] at h1
  refine ⟨h1, ?_⟩
  split at hh
  · rename_i hne
    msimp at hh
    obtain ⟨h2, h3, h4⟩ := hh
    exact ⟨h2, by rw [if_pos hne]; exact h3, h4.symm⟩
  · rename_i hne
    msimp at hh
    obtain ⟨h2, h3, h4⟩ := hh
    exact ⟨h2, by rw [if_neg hne]; exact h3.symm, h4.symm⟩

/-! ### the multiset of binned chunks -/

theorem count_binned_setBin {h : Heap} {i : Nat} {l : List Nat} (hl : h.sbins[i]? = some l) (l' : List Nat) (v : Nat) :
    count v (binned (setBin h i l')) + count v l = count v (binned h) + count v l' := by
  have := count_joinAll_set h.sbins i l l' hl v
  simp only [binned, setBin, List.count_append]; omega

theorem count_binned_setTree {h : Heap} {i : Nat} {t : Tree} (ht : h.tbins[i]? = some t) (t' : Tree) (v : Nat) :
    count v (binned (setTree h i t')) + count v t.members = count v (binned h) + count v t'.members := by
  have := count_joinAll_set (h.tbins.map Tree.members) i t.members t'.members
    (by rw [List.getElem?_map, ht]; rfl) v
  simp only [binned, setTree, List.count_append, List.map_set]; omega

theorem perm_cons_of_count {l l' : List Nat} {c : Nat} (h : ∀ v, count v l' = count v [c] + count v l) :
    l' ~ c :: l := by
  rw [List.perm_iff_count]; intro v
  rw [h v]; simp only [List.count_cons, List.count_nil]; omega

/-- `freeList` follows `binned` when `top` and `dv` stay -/
theorem freeList_perm_of_binned {h h' : Heap} {c : Nat} (ht : h'.top = h.top) (hd : h'.dv = h.dv)
    (hp : binned h' ~ c :: binned h) : freeList h' ~ c :: freeList h := by
  unfold freeList
  rw [ht, hd]
  refine List.Perm.trans (List.Perm.append_left _ (List.Perm.append_left _ hp)) ?_
  rw [List.perm_iff_count]; intro v
  simp only [List.count_cons, List.count_append]; omega

theorem insert_small_chunk_frame {h h' : Heap} {c sz : Nat} (hh : insert_small_chunk h c sz = .ok h') :
    BinFrame h h' ∧ h'.tbins = h.tbins := by
  obtain ⟨_, l, _, rfl⟩ := insert_small_chunk_spec hh
  exact ⟨(setBin_frame ..).1, rfl⟩

theorem insert_small_chunk_binned {h h' : Heap} {c sz : Nat} (hh : insert_small_chunk h c sz = .ok h') :
    binned h' ~ c :: binned h := by
  obtain ⟨_, l, hl, rfl⟩ := insert_small_chunk_spec hh
  apply perm_cons_of_count; intro v
  have := count_binned_setBin hl (c :: l) v
  simp only [List.count_cons, List.count_nil] at this ⊢; omega

theorem take_first_small_frame {h h' : Heap} {idx p : Nat} (hh : take_first_small h idx = .ok (h', p)) :
    BinFrame h h' ∧ h'.tbins = h.tbins := by
  obtain ⟨rest, e, _, _, _, rfl⟩ := take_first_small_spec' hh
  exact ⟨(setBin_frame ..).1, rfl⟩

theorem take_first_small_binned {h h' : Heap} {idx p : Nat} (hh : take_first_small h idx = .ok (h', p)) :
    binned h ~ p :: binned h' := by
  obtain ⟨rest, e, hl, _, _, rfl⟩ := take_first_small_spec' hh
  apply perm_cons_of_count; intro v
  have := count_binned_setBin hl rest v
  simp only [List.count_cons, List.count_nil] at this ⊢; omega

theorem unlink_small_chunk_frame {h h' : Heap} {c sz : Nat} (hh : unlink_small_chunk h c sz = .ok h') :
    BinFrame h h' ∧ h'.tbins = h.tbins := by
  obtain ⟨l, e, _, _, _, _, rfl⟩ := unlink_small_chunk_spec hh
  exact ⟨(setBin_frame ..).1, rfl⟩

theorem unlink_small_chunk_binned {h h' : Heap} {c sz : Nat} (hh : unlink_small_chunk h c sz = .ok h') :
    binned h ~ c :: binned h' := by
  obtain ⟨l, e, hl, _, _, hc, rfl⟩ := unlink_small_chunk_spec hh
  apply perm_cons_of_count; intro v
  have := count_binned_setBin hl (l.erase c) v
  have := count_erase_add hc v
  omega

theorem insert_large_chunk_frame {h h' : Heap} {c sz : Nat} (hh : insert_large_chunk h c sz = .ok h') :
    BinFrame h h' ∧ h'.sbins = h.sbins := by
  obtain ⟨t, _, rfl⟩ := insert_large_chunk_spec hh
  exact ⟨(setTree_frame ..).1, rfl⟩

theorem insert_large_chunk_binned {h h' : Heap} {c sz : Nat} (hh : insert_large_chunk h c sz = .ok h') :
    binned h' ~ c :: binned h := by
  obtain ⟨t, ht, rfl⟩ := insert_large_chunk_spec hh
  apply perm_cons_of_count; intro v
  have := count_binned_setTree ht (t.insert (skey (compute_tree_index sz) sz) c sz) v
  rw [insert_count] at this
  omega

theorem unlink_large_chunk_frame {h h' : Heap} {c : Nat} (hh : unlink_large_chunk h c = .ok h') :
    BinFrame h h' ∧ h'.sbins = h.sbins := by
  obtain ⟨e, t, t', _, _, _, rfl⟩ := unlink_large_chunk_spec hh
  exact ⟨(setTree_frame ..).1, rfl⟩

theorem unlink_large_chunk_binned {h h' : Heap} {c : Nat} (hh : unlink_large_chunk h c = .ok h') :
    binned h ~ c :: binned h' := by
  obtain ⟨e, t, t', _, ht, hr, rfl⟩ := unlink_large_chunk_spec hh
  apply perm_cons_of_count; intro v
  have := count_binned_setTree ht t' v
  have := remove_count t c t' hr v
  omega

theorem insert_chunk_frame {h h' : Heap} {c sz : Nat} (hh : insert_chunk h c sz = .ok h') : BinFrame h h' := by
  unfold insert_chunk at hh
  split at hh
  · exact (insert_small_chunk_frame hh).1
  · exact (insert_large_chunk_frame hh).1

theorem insert_chunk_binned {h h' : Heap} {c sz : Nat} (hh : insert_chunk h c sz = .ok h') :
    binned h' ~ c :: binned h := by
  unfold insert_chunk at hh
  split at hh
  · exact insert_small_chunk_binned hh
  · exact insert_large_chunk_binned hh

theorem unlink_chunk_frame {h h' : Heap} {c sz : Nat} (hh : unlink_chunk h c sz = .ok h') : BinFrame h h' := by
  unfold unlink_chunk at hh
  split at hh
  · exact (unlink_small_chunk_frame hh).1
  · exact (unlink_large_chunk_frame hh).1

theorem unlink_chunk_binned {h h' : Heap} {c sz : Nat} (hh : unlink_chunk h c sz = .ok h') :
    binned h ~ c :: binned h' := by
  unfold unlink_chunk at hh
  split at hh
  · exact unlink_small_chunk_binned hh
  · exact unlink_large_chunk_binned hh

/-- inserting into a bin adds the chunk to the free list … -/
theorem insert_chunk_freeList {h h' : Heap} {c sz : Nat} (hh : insert_chunk h c sz = .ok h') :
    freeList h' ~ c :: freeList h :=
  have f := insert_chunk_frame hh
  freeList_perm_of_binned f.top f.dv (insert_chunk_binned hh)

theorem insert_small_chunk_freeList {h h' : Heap} {c sz : Nat} (hh : insert_small_chunk h c sz = .ok h') :
    freeList h' ~ c :: freeList h :=
  have f := (insert_small_chunk_frame hh).1
  freeList_perm_of_binned f.top f.dv (insert_small_chunk_binned hh)

theorem insert_large_chunk_freeList {h h' : Heap} {c sz : Nat} (hh : insert_large_chunk h c sz = .ok h') :
    freeList h' ~ c :: freeList h :=
  have f := (insert_large_chunk_frame hh).1
  freeList_perm_of_binned f.top f.dv (insert_large_chunk_binned hh)

/-- … and unlinking takes it out -/
theorem unlink_chunk_freeList {h h' : Heap} {c sz : Nat} (hh : unlink_chunk h c sz = .ok h') :
    freeList h ~ c :: freeList h' :=
  have f := unlink_chunk_frame hh
  freeList_perm_of_binned f.top.symm f.dv.symm (unlink_chunk_binned hh)

theorem unlink_small_chunk_freeList {h h' : Heap} {c sz : Nat} (hh : unlink_small_chunk h c sz = .ok h') :
    freeList h ~ c :: freeList h' :=
  have f := (unlink_small_chunk_frame hh).1
  freeList_perm_of_binned f.top.symm f.dv.symm (unlink_small_chunk_binned hh)

theorem unlink_large_chunk_freeList {h h' : Heap} {c : Nat} (hh : unlink_large_chunk h c = .ok h') :
    freeList h ~ c :: freeList h' :=
  have f := (unlink_large_chunk_frame hh).1
  freeList_perm_of_binned f.top.symm f.dv.symm (unlink_large_chunk_binned hh)

theorem take_first_small_freeList {h h' : Heap} {idx p : Nat} (hh : take_first_small h idx = .ok (h', p)) :
    freeList h ~ p :: freeList h' :=
  have f := (take_first_small_frame hh).1
  freeList_perm_of_binned f.top.symm f.dv.symm (take_first_small_binned hh)

/-- the `nodupB (freeList _)` conjunct of `freeListOk` after adding a chunk -/
theorem nodupB_cons_perm {l l' : List Nat} {c : Nat} (p : l' ~ c :: l) :
    nodupB l' = (!l.contains c && nodupB l) := by
  rw [nodupB_perm p]; rfl

/-- `replace_dv`: the heap apart from the small bins and `dv`/`dvsize` is unchanged -/
theorem replace_dv_frame {h h' : Heap} {c sz : Nat} (hh : replace_dv h c sz = .ok h') :
    h'.ents = h.ents ∧ h'.tbins = h.tbins ∧ h'.top = h.top ∧ h'.topsize = h.topsize ∧ h'.tr = h.tr ∧
      h'.dv = c ∧ h'.dvsize = sz ∧ is_small h.dvsize = true ∧ (h.dvsize = 0 → h'.sbins = h.sbins) := by
  obtain ⟨hs, h1, hi, rfl⟩ := replace_dv_spec hh
  split at hi
  · rename_i hne
    obtain ⟨f, ft⟩ := insert_small_chunk_frame hi
    exact ⟨f.ents, ft, f.top, f.topsize, f.tr, rfl, rfl, hs, fun h0 => absurd h0 hne⟩
  · subst hi
    exact ⟨rfl, rfl, rfl, rfl, rfl, rfl, rfl, hs, fun _ => rfl⟩

/-- `replace_dv`: the old `dv` chunk (when `dvsize ≠ 0`) joins the binned chunks -/
theorem replace_dv_binned {h h' : Heap} {c sz : Nat} (hh : replace_dv h c sz = .ok h') :
    binned h' ~ (if h.dvsize ≠ 0 then [h.dv] else []) ++ binned h := by
  obtain ⟨hs, h1, hi, rfl⟩ := replace_dv_spec hh
  split at hi
  · rename_i hne
    rw [if_pos hne]
    exact (insert_small_chunk_binned hi : binned h1 ~ h.dv :: binned h)
  · rename_i hne
    subst hi
    rw [if_neg hne]; exact List.Perm.refl _

/-- `replace_dv` on a state whose `dv` is null exactly when `dvsize` is 0 (as `dvOk` says): the free
list only gains the new `dv` -/
theorem replace_dv_freeList {h h' : Heap} {c sz : Nat} (hh : replace_dv h c sz = .ok h')
    (hdv : h.dv = 0 ↔ h.dvsize = 0) :
    freeList h' ~ (if c = 0 then [] else [c]) ++ freeList h := by
  have hb := replace_dv_binned hh
  obtain ⟨_, _, ht, _, _, hd, _⟩ := replace_dv_frame hh
  unfold freeList
  rw [ht, hd]
  rw [List.perm_iff_count]; intro v
  have hb' := (List.perm_iff_count.1 hb) v
  simp only [List.count_append] at hb' ⊢
  rw [hb']
  by_cases h0 : h.dvsize = 0
  · have := hdv.2 h0
    simp only [h0, this, ne_eq, not_true_eq_false, if_false, if_true, List.count_nil]; omega
  · have : h.dv ≠ 0 := fun hz => h0 (hdv.1 hz)
    simp only [h0, this, ne_eq, not_false_eq_true, if_false, if_true]; omega

/-! ### `sbinsFrom` / `tbinsFrom`: reading and replacing one bin, frame -/

/-- what `sbinsFrom` says about the chunks of bin `i` -/
def sbinOk (es : List Ent) (i : Nat) (l : List Nat) : Prop :=
  ∀ a ∈ l, sizeAt es a (i * 8) = true ∧ 32 ≤ i * 8

theorem sbinsFrom_cons (es : List Ent) (i : Nat) (l : List Nat) (ls : List (List Nat)) :
    sbinsFrom es i (l :: ls) = true ↔ sbinOk es i l ∧ sbinsFrom es (i + 1) ls = true := by
  simp only [sbinsFrom, sbinOk, Bool.and_eq_true, List.all_eq_true, decide_eq_true_eq]

theorem sbinsFrom_get {es : List Ent} (ls : List (List Nat)) : ∀ (i j : Nat) (l : List Nat),
    sbinsFrom es i ls = true → ls[j]? = some l → sbinOk es (i + j) l := by
  induction ls with
  | nil => intro i j l _ h; simp at h
  | cons x xs ih =>
    intro i j l h hj
    rw [sbinsFrom_cons] at h
    cases j with
    | zero => simp only [List.getElem?_cons_zero, Option.some.injEq] at hj; subst hj; exact h.1
    | succ j =>
      simp only [List.getElem?_cons_succ] at hj
      have := ih (i + 1) j l h.2 hj
      rwa [show i + 1 + j = i + (j + 1) by omega] at this

theorem sbinsFrom_set {es : List Ent} (ls : List (List Nat)) : ∀ (i j : Nat) (l' : List Nat),
    sbinsFrom es i ls = true → sbinOk es (i + j) l' → sbinsFrom es i (ls.set j l') = true := by
  induction ls with
  | nil => intro i j l' _ _; rfl
  | cons x xs ih =>
    intro i j l' h hl
    rw [sbinsFrom_cons] at h
    cases j with
    | zero => simp only [List.set_cons_zero]; rw [sbinsFrom_cons]; exact ⟨hl, h.2⟩
    | succ j =>
      simp only [List.set_cons_succ]; rw [sbinsFrom_cons]
      exact ⟨h.1, ih (i + 1) j l' h.2 (by rwa [show i + 1 + j = i + (j + 1) by omega])⟩

/-- frame: `sbinsFrom` only reads the headers of the binned chunks -/
theorem sbinsFrom_frame {es es' : List Ent} (ls : List (List Nat)) : ∀ (i : Nat),
    sbinsFrom es i ls = true → (∀ a ∈ joinAll ls, findEnt es' a = findEnt es a) →
    sbinsFrom es' i ls = true := by
  induction ls with
  | nil => intro i _ _; rfl
  | cons x xs ih =>
    intro i h hf
    rw [sbinsFrom_cons] at h ⊢
    refine ⟨fun a ha => ?_, ih (i + 1) h.2 fun a ha => hf a (by simp [joinAll, ha])⟩
    have := h.1 a ha
    unfold sizeAt at this ⊢
    rw [hf a (by simp [joinAll, ha])]; exact this

theorem tbinsFrom_cons (es : List Ent) (i : Nat) (t : Tree) (ts : List Tree) :
    tbinsFrom es i (t :: ts) = true ↔
      (trieOk es i t [] = true ∧ nodupB t.nodeSizes = true) ∧ tbinsFrom es (i + 1) ts = true := by
  simp only [tbinsFrom, Bool.and_eq_true]

theorem tbinsFrom_get {es : List Ent} (ts : List Tree) : ∀ (i j : Nat) (t : Tree),
    tbinsFrom es i ts = true → ts[j]? = some t → trieOk es (i + j) t [] = true ∧ nodupB t.nodeSizes = true := by
  induction ts with
  | nil => intro i j l _ h; simp at h
  | cons x xs ih =>
    intro i j t h hj
    rw [tbinsFrom_cons] at h
    cases j with
    | zero => simp only [List.getElem?_cons_zero, Option.some.injEq] at hj; subst hj; exact h.1
    | succ j =>
      simp only [List.getElem?_cons_succ] at hj
      have := ih (i + 1) j t h.2 hj
      rwa [show i + 1 + j = i + (j + 1) by omega] at this

theorem tbinsFrom_set {es : List Ent} (ts : List Tree) : ∀ (i j : Nat) (t' : Tree),
    tbinsFrom es i ts = true → trieOk es (i + j) t' [] = true → nodupB t'.nodeSizes = true →
    tbinsFrom es i (ts.set j t') = true := by
  induction ts with
  | nil => intro i j l' _ _ _; rfl
  | cons x xs ih =>
    intro i j t' h h1 h2
    rw [tbinsFrom_cons] at h
    cases j with
    | zero => simp only [List.set_cons_zero]; rw [tbinsFrom_cons]; exact ⟨⟨h1, h2⟩, h.2⟩
    | succ j =>
      simp only [List.set_cons_succ]; rw [tbinsFrom_cons]
      exact ⟨h.1, ih (i + 1) j t' h.2 (by rwa [show i + 1 + j = i + (j + 1) by omega]) h2⟩

/-- frame: `tbinsFrom` only reads the headers of the binned chunks -/
theorem tbinsFrom_frame {es es' : List Ent} (ts : List Tree) : ∀ (i : Nat),
    tbinsFrom es i ts = true → (∀ a ∈ joinAll (ts.map Tree.members), findEnt es' a = findEnt es a) →
    tbinsFrom es' i ts = true := by
  induction ts with
  | nil => intro i _ _; rfl
  | cons x xs ih =>
    intro i h hf
    rw [tbinsFrom_cons] at h ⊢
    exact ⟨⟨trieOk_frame x [] h.1.1 fun a ha => hf a (by simp [joinAll, ha]), h.1.2⟩,
      ih (i + 1) h.2 fun a ha => hf a (by simp only [List.map_cons, joinAll, List.mem_append]; exact Or.inr ha)⟩

/-- the two bin conjuncts only read the headers of the binned chunks -/
theorem sbinsOk_frame {h h' : Heap} (hs : sbinsOk h = true) (hb : h'.sbins = h.sbins)
    (hf : ∀ a ∈ joinAll h.sbins, findEnt h'.ents a = findEnt h.ents a) : sbinsOk h' = true := by
  unfold sbinsOk at hs ⊢
  rw [hb]
  rw [Bool.and_eq_true] at hs ⊢
  exact ⟨hs.1, sbinsFrom_frame _ 0 hs.2 hf⟩

theorem tbinsOk_frame {h h' : Heap} (hs : tbinsOk h = true) (hb : h'.tbins = h.tbins)
    (hf : ∀ a ∈ joinAll (h.tbins.map Tree.members), findEnt h'.ents a = findEnt h.ents a) : tbinsOk h' = true := by
  unfold tbinsOk at hs ⊢
  rw [hb]
  rw [Bool.and_eq_true] at hs ⊢
  exact ⟨hs.1, tbinsFrom_frame _ 0 hs.2 hf⟩

theorem sbinsOk_congr {h h' : Heap} (he : h'.ents = h.ents) (hb : h'.sbins = h.sbins) : sbinsOk h' = sbinsOk h := by
  unfold sbinsOk; rw [he, hb]

theorem tbinsOk_congr {h h' : Heap} (he : h'.ents = h.ents) (hb : h'.tbins = h.tbins) : tbinsOk h' = tbinsOk h := by
  unfold tbinsOk; rw [he, hb]

/-! ### the bin operations preserve `tbinsOk` / `sbinsOk` -/

/-- `insert_large_chunk` keeps the tree bins well-formed.  Bounds needed: `256 ≤ sz` (not small) and
every header size `< 2^64` (hence also `sz < 2^64`, through `sizeAt`); no `2^63` bound is needed. -/
theorem insert_large_chunk_tbinsOk {h h' : Heap} {c sz : Nat} (hh : insert_large_chunk h c sz = .ok h')
    (h256 : 256 ≤ sz) (hlt : EntsLt h.ents) (hc : sizeAt h.ents c sz = true) (ht : tbinsOk h = true) :
    tbinsOk h' = true := by
  obtain ⟨t, hget, rfl⟩ := insert_large_chunk_spec hh
  unfold tbinsOk at ht ⊢
  rw [Bool.and_eq_true, decide_eq_true_eq] at ht ⊢
  obtain ⟨hlen, hfrom⟩ := ht
  refine ⟨by simp only [setTree, List.length_set]; exact hlen, ?_⟩
  obtain ⟨g1, g2⟩ := tbinsFrom_get _ 0 _ t hfrom hget
  rw [Nat.zero_add] at g1
  have hb : ∀ s ∈ t.nodeSizes, s < U64 := by
    intro s hs
    obtain ⟨a, _, ha, _⟩ := trieOk_size_at t [] g1 s hs
    exact sizeAt_lt hlt ha
  have hszlt : sz < U64 := sizeAt_lt hlt hc
  have hk : skey (compute_tree_index sz) sz
      = (skey (compute_tree_index sz) sz <<< ([] : List Bool).length) % U64 := by
    simp only [List.length_nil, Nat.shiftLeft_zero, Nat.mod_mod]
  apply tbinsFrom_set _ 0 _ _ hfrom
  · rw [Nat.zero_add]
    exact trieOk_insert hc rfl h256 hszlt t [] _ g1 hb rfl hk
  · exact nodup_insert rfl h256 hszlt t [] _ g1 hb rfl hk g2

theorem insert_large_chunk_sbinsOk {h h' : Heap} {c sz : Nat} (hh : insert_large_chunk h c sz = .ok h') :
    sbinsOk h' = sbinsOk h :=
  have f := insert_large_chunk_frame hh
  sbinsOk_congr f.1.ents f.2

/-- `unlink_large_chunk` keeps the tree bins well-formed (no side condition) -/
theorem unlink_large_chunk_tbinsOk {h h' : Heap} {c : Nat} (hh : unlink_large_chunk h c = .ok h')
    (ht : tbinsOk h = true) : tbinsOk h' = true := by
  obtain ⟨e, t, t', _, hget, hrem, rfl⟩ := unlink_large_chunk_spec hh
  unfold tbinsOk at ht ⊢
  rw [Bool.and_eq_true, decide_eq_true_eq] at ht ⊢
  obtain ⟨hlen, hfrom⟩ := ht
  refine ⟨by simp only [setTree, List.length_set]; exact hlen, ?_⟩
  obtain ⟨g1, g2⟩ := tbinsFrom_get _ 0 _ t hfrom hget
  exact tbinsFrom_set _ 0 _ _ hfrom (trieOk_remove t [] c t' g1 hrem) (nodup_remove hrem g2)

theorem unlink_large_chunk_sbinsOk {h h' : Heap} {c : Nat} (hh : unlink_large_chunk h c = .ok h') :
    sbinsOk h' = sbinsOk h :=
  have f := unlink_large_chunk_frame hh
  sbinsOk_congr f.1.ents f.2

/-- `insert_small_chunk` keeps the small bins well-formed: the size must be a small multiple of 8 and
be the size in the chunk's header (`32 ≤ sz` is checked by the operation itself) -/
theorem insert_small_chunk_sbinsOk {h h' : Heap} {c sz : Nat} (hh : insert_small_chunk h c sz = .ok h')
    (h8 : sz % 8 = 0) (hlt : sz < 256) (hc : sizeAt h.ents c sz = true) (hs : sbinsOk h = true) :
    sbinsOk h' = true := by
  obtain ⟨h32, l, hget, rfl⟩ := insert_small_chunk_spec hh
  rw [MIN_CHUNK_SIZE_eq] at h32
  unfold sbinsOk at hs ⊢
  rw [Bool.and_eq_true, decide_eq_true_eq] at hs ⊢
  obtain ⟨hlen, hfrom⟩ := hs
  refine ⟨by simp only [setBin, List.length_set]; exact hlen, ?_⟩
  have g := sbinsFrom_get _ 0 _ l hfrom hget
  apply sbinsFrom_set _ 0 _ _ hfrom
  rw [Nat.zero_add] at g ⊢
  have hi : small_index sz * 8 = sz := by rw [small_index_eq sz (by omega)]; omega
  intro a ha
  rcases List.mem_cons.1 ha with rfl | ha
  · rw [hi]; exact ⟨hc, h32⟩
  · exact g a ha

theorem insert_small_chunk_tbinsOk {h h' : Heap} {c sz : Nat} (hh : insert_small_chunk h c sz = .ok h') :
    tbinsOk h' = tbinsOk h :=
  have f := insert_small_chunk_frame hh
  tbinsOk_congr f.1.ents f.2

theorem take_first_small_sbinsOk {h h' : Heap} {idx p : Nat} (hh : take_first_small h idx = .ok (h', p))
    (hs : sbinsOk h = true) : sbinsOk h' = true := by
  obtain ⟨rest, e, hget, _, _, rfl⟩ := take_first_small_spec' hh
  unfold sbinsOk at hs ⊢
  rw [Bool.and_eq_true, decide_eq_true_eq] at hs ⊢
  obtain ⟨hlen, hfrom⟩ := hs
  refine ⟨by simp only [setBin, List.length_set]; exact hlen, ?_⟩
  have g := sbinsFrom_get _ 0 _ _ hfrom hget
  exact sbinsFrom_set _ 0 _ _ hfrom fun a ha => g a (List.mem_cons_of_mem _ ha)

theorem take_first_small_tbinsOk {h h' : Heap} {idx p : Nat} (hh : take_first_small h idx = .ok (h', p)) :
    tbinsOk h' = tbinsOk h :=
  have f := take_first_small_frame hh
  tbinsOk_congr f.1.ents f.2

theorem unlink_small_chunk_sbinsOk {h h' : Heap} {c sz : Nat} (hh : unlink_small_chunk h c sz = .ok h')
    (hs : sbinsOk h = true) : sbinsOk h' = true := by
  obtain ⟨l, e, hget, _, _, _, rfl⟩ := unlink_small_chunk_spec hh
  unfold sbinsOk at hs ⊢
  rw [Bool.and_eq_true, decide_eq_true_eq] at hs ⊢
  obtain ⟨hlen, hfrom⟩ := hs
  refine ⟨by simp only [setBin, List.length_set]; exact hlen, ?_⟩
  have g := sbinsFrom_get _ 0 _ _ hfrom hget
  exact sbinsFrom_set _ 0 _ _ hfrom fun a ha => g a (List.mem_of_mem_erase ha)

theorem unlink_small_chunk_tbinsOk {h h' : Heap} {c sz : Nat} (hh : unlink_small_chunk h c sz = .ok h') :
    tbinsOk h' = tbinsOk h :=
  have f := unlink_small_chunk_frame hh
  tbinsOk_congr f.1.ents f.2

/-- `insert_chunk` keeps both bin conjuncts: `sz` is the header size of `c`, a multiple of 8, and all
header sizes are `< 2^64` -/
theorem insert_chunk_binsOk {h h' : Heap} {c sz : Nat} (hh : insert_chunk h c sz = .ok h')
    (h8 : sz % 8 = 0) (hlt : EntsLt h.ents) (hc : sizeAt h.ents c sz = true)
    (hs : sbinsOk h = true) (ht : tbinsOk h = true) : sbinsOk h' = true ∧ tbinsOk h' = true := by
  unfold insert_chunk at hh
  split at hh
  · rename_i hsm
    exact ⟨insert_small_chunk_sbinsOk hh h8 ((is_small_iff sz).1 hsm) hc hs,
      by rw [insert_small_chunk_tbinsOk hh]; exact ht⟩
  · rename_i hsm
    have h256 : 256 ≤ sz := by
      apply Nat.le_of_not_lt; intro hl; exact hsm ((is_small_iff sz).2 hl)
    exact ⟨by rw [insert_large_chunk_sbinsOk hh]; exact hs, insert_large_chunk_tbinsOk hh h256 hlt hc ht⟩

theorem unlink_chunk_binsOk {h h' : Heap} {c sz : Nat} (hh : unlink_chunk h c sz = .ok h')
    (hs : sbinsOk h = true) (ht : tbinsOk h = true) : sbinsOk h' = true ∧ tbinsOk h' = true := by
  unfold unlink_chunk at hh
  split at hh
  · exact ⟨unlink_small_chunk_sbinsOk hh hs, by rw [unlink_small_chunk_tbinsOk hh]; exact ht⟩
  · exact ⟨by rw [unlink_large_chunk_sbinsOk hh]; exact hs, unlink_large_chunk_tbinsOk hh ht⟩

/-- `replace_dv` keeps both bin conjuncts when the old `dv` is a proper small chunk (what `dvOk`,
`shapeOk` and the `is_small` assertion give): header size `dvsize`, a multiple of 8 -/
theorem replace_dv_binsOk {h h' : Heap} {c sz : Nat} (hh : replace_dv h c sz = .ok h')
    (hdv : h.dvsize ≠ 0 → sizeAt h.ents h.dv h.dvsize = true ∧ h.dvsize % 8 = 0)
    (hs : sbinsOk h = true) (ht : tbinsOk h = true) : sbinsOk h' = true ∧ tbinsOk h' = true := by
  obtain ⟨hsm, h1, hi, rfl⟩ := replace_dv_spec hh
  split at hi
  · rename_i hne
    obtain ⟨d1, d2⟩ := hdv hne
    have s1 := insert_small_chunk_sbinsOk hi d2 ((is_small_iff _).1 hsm) d1 hs
    have t1 := insert_small_chunk_tbinsOk hi
    exact ⟨s1, by rw [← t1] at ht; exact ht⟩
  · subst hi; exact ⟨hs, ht⟩

/-! ### the derived bitmaps: bit `i` set ↔ bin `i` non-empty -/

theorem mapBits_scale {α : Type} (empty : α → Bool) (bs : List α) : ∀ w,
    mapBits empty bs w = w * mapBits empty bs 1 := by
  induction bs with
  | nil => intro w; simp [mapBits]
  | cons b bs ih =>
    intro w
    simp only [mapBits]
    rw [ih (2 * w), ih (2 * 1)]
    cases empty b <;> simp [Nat.mul_add, Nat.mul_assoc, Nat.mul_left_comm]

theorem mapBits_cons_one {α : Type} (empty : α → Bool) (b : α) (bs : List α) :
    mapBits empty (b :: bs) 1 = (if empty b then 0 else 1) + 2 * mapBits empty bs 1 := by
  simp only [mapBits]; rw [mapBits_scale empty bs (2 * 1)]

theorem mapBits_testBit {α : Type} (empty : α → Bool) (bs : List α) : ∀ i,
    (mapBits empty bs 1).testBit i = match bs[i]? with
      | some b => !empty b
      | none => false := by
  induction bs with
  | nil => intro i; simp [mapBits]
  | cons b bs ih =>
    intro i
    rw [mapBits_cons_one]
    cases i with
    | zero =>
      rw [Nat.testBit_zero, List.getElem?_cons_zero]
      show decide (_ % 2 = 1) = !empty b
      cases empty b
      · simp only [Bool.false_eq_true, if_false, Bool.not_false, decide_eq_true_eq]; omega
      · simp only [if_true, Bool.not_true, decide_eq_false_iff_not]; omega
    | succ i =>
      rw [Nat.testBit_succ, List.getElem?_cons_succ, ← ih i]
      congr 1
      split <;> omega

theorem mapBits_lt {α : Type} (empty : α → Bool) (bs : List α) : mapBits empty bs 1 < 2 ^ bs.length := by
  induction bs with
  | nil => simp [mapBits]
  | cons b bs ih =>
    rw [mapBits_cons_one, List.length_cons, Nat.pow_succ]
    cases empty b <;> simp <;> omega

/-- bit `i` of `smallmap` is set exactly when small bin `i` is non-empty -/
theorem smallmap_testBit (h : Heap) (i : Nat) :
    (smallmap h).testBit i = true ↔ ∃ l, h.sbins[i]? = some l ∧ l ≠ [] := by
  unfold smallmap
  rw [mapBits_testBit]
  cases h.sbins[i]? with
  | none => simp
  | some l => cases l <;> simp

/-- bit `i` of `treemap` is set exactly when tree bin `i` is non-empty -/
theorem treemap_testBit (h : Heap) (i : Nat) :
    (treemap h).testBit i = true ↔ ∃ t, h.tbins[i]? = some t ∧ t ≠ Tree.nil := by
  unfold treemap
  rw [mapBits_testBit]
  cases h.tbins[i]? with
  | none => simp
  | some t => cases t <;> simp

theorem smallmap_lt (h : Heap) (hl : h.sbins.length = 32) : smallmap h < U32 := by
  have := mapBits_lt (fun (l : List Nat) => l.isEmpty) h.sbins
  rw [hl] at this; exact this

theorem treemap_lt (h : Heap) (hl : h.tbins.length = 32) : treemap h < U32 := by
  have := mapBits_lt (fun (t : Tree) => match t with | .nil => true | _ => false) h.tbins
  rw [hl] at this; exact this

/-- the form in which the code tests a map bit -/
theorem shift_and_one (x i : Nat) : (x >>> i) &&& 1 = if x.testBit i then 1 else 0 := by
  rw [Nat.testBit_eq_decide_div_mod_eq, Nat.and_one_is_mod, Nat.shiftRight_eq_div_pow]
  have := Nat.mod_lt (x / 2 ^ i) (show 0 < 2 by decide)
  by_cases h : x / 2 ^ i % 2 = 1
  · simp [h]
  · simp [h]; omega

/-- `smallbits & 3 != 0` in `malloc`: bin `idx` or bin `idx + 1` is non-empty -/
theorem shift_and_three (x i : Nat) :
    (x >>> i) &&& 3 ≠ 0 ↔ x.testBit i = true ∨ x.testBit (i + 1) = true := by
  rw [show (3 : Nat) = 2 ^ 2 - 1 from rfl, Nat.and_two_pow_sub_one_eq_mod,
    Nat.testBit_eq_decide_div_mod_eq, Nat.testBit_eq_decide_div_mod_eq, Nat.shiftRight_eq_div_pow,
    show 2 ^ (i + 1) = 2 ^ i * 2 from Nat.pow_succ .., ← Nat.div_div_eq_div_mul]
  simp only [decide_eq_true_eq, Nat.reducePow]
  generalize x / 2 ^ i = y
  omega

/-- a map is non-zero exactly when one of its bits is set -/
theorem ne_zero_iff_testBit (x : Nat) : x ≠ 0 ↔ ∃ i, x.testBit i = true := by
  constructor
  · intro h
    exact Nat.exists_testBit_of_ne_zero h
  · rintro ⟨i, hi⟩ h0
    subst h0; simp at hi

theorem treemap_ne_zero (h : Heap) : treemap h ≠ 0 ↔ ∃ (i : Nat) (t : Tree), h.tbins[i]? = some t ∧ t ≠ Tree.nil := by
  rw [ne_zero_iff_testBit]
  constructor
  · rintro ⟨i, hi⟩; exact ⟨i, (treemap_testBit h i).1 hi⟩
  · rintro ⟨i, hi⟩; exact ⟨i, (treemap_testBit h i).2 hi⟩

/-! ### progress: the unlink operations do not fail on binned chunks -/

/-- a chunk sitting in a tree bin of a state with well-formed tree bins can be unlinked -/
theorem unlink_large_chunk_progress {h : Heap} {c : Nat} (ht : tbinsOk h = true)
    (hm : c ∈ joinAll (h.tbins.map Tree.members)) : ∃ h', unlink_large_chunk h c = .ok h' := by
  obtain ⟨i, t, hget, hc⟩ := mem_joinAll_map_iff.1 hm
  unfold tbinsOk at ht
  rw [Bool.and_eq_true] at ht
  obtain ⟨g1, _⟩ := tbinsFrom_get _ 0 _ t ht.2 hget
  rw [Nat.zero_add] at g1
  obtain ⟨s, _, hs, hidx, _⟩ := trieOk_member_sized t [] g1 c hc
  obtain ⟨e, he, rfl⟩ := sizeAt_iff.1 hs
  obtain ⟨t', hr⟩ := remove_isSome_of_mem hc
  refine ⟨setTree h (compute_tree_index e.size) t', ?_⟩
  unfold unlink_large_chunk
  rw [getE_ok.2 he]
  simp only [bind, Except.bind]
  rw [hidx, getTree_ok.2 hget]
  simp only [hr]
  rfl

/-- the same, stated with the bin the chunk's header size indexes -/
theorem unlink_large_chunk_progress' {h : Heap} {c : Nat} {e : Ent} {t : Tree}
    (he : findEnt h.ents c = some e) (hget : h.tbins[compute_tree_index e.size]? = some t)
    (hc : c ∈ t.members) : ∃ h', unlink_large_chunk h c = .ok h' := by
  obtain ⟨t', hr⟩ := remove_isSome_of_mem hc
  refine ⟨setTree h (compute_tree_index e.size) t', ?_⟩
  unfold unlink_large_chunk
  rw [getE_ok.2 he]
  simp only [bind, Except.bind]
  rw [getTree_ok.2 hget]
  simp only [hr]
  rfl

/-- a chunk sitting in a small bin of a state with well-formed small bins can be unlinked, with the
size of its header as the size argument -/
theorem unlink_small_chunk_progress {h : Heap} {c sz : Nat} (hs : sbinsOk h = true)
    (hm : c ∈ joinAll h.sbins) (hsz : sizeAt h.ents c sz = true) :
    ∃ h', unlink_small_chunk h c sz = .ok h' := by
  obtain ⟨i, l, hget, hc⟩ := mem_joinAll_iff.1 hm
  unfold sbinsOk at hs
  rw [Bool.and_eq_true, decide_eq_true_eq] at hs
  have g := sbinsFrom_get _ 0 _ l hs.2 hget
  rw [Nat.zero_add] at g
  have hi : i < 32 := by
    have := (List.getElem?_eq_some_iff.1 hget).1
    omega
  have e1 : sz = i * 8 := sizeAt_unique hsz (g c hc).1
  have e2 : small_index sz = i := by rw [small_index_eq sz (by omega)]; omega
  obtain ⟨e, he, hes⟩ := sizeAt_iff.1 hsz
  refine ⟨setBin h i (l.erase c), ?_⟩
  unfold unlink_small_chunk
  simp only [e2]
  rw [getBin_ok.2 hget, getE_ok.2 he]
  simp only [bind, Except.bind]
  have : (e.size ≠ small_index2size i) = False := by
    rw [small_index2size_eq i (by omega), hes, e1]; simp
  simp only [failIf, this, decide_false, Bool.false_eq_true, if_false, pure, Except.pure,
    List.contains_iff_mem.2 hc, if_true]

/-- sizes of binned chunks: small bins hold sizes `< 256`, tree bins sizes `≥ 256` -/
theorem sbins_size_lt {h : Heap} {c sz : Nat} (hs : sbinsOk h = true) (hm : c ∈ joinAll h.sbins)
    (hsz : sizeAt h.ents c sz = true) : 32 ≤ sz ∧ sz < 256 ∧ sz % 8 = 0 := by
  obtain ⟨i, l, hget, hc⟩ := mem_joinAll_iff.1 hm
  unfold sbinsOk at hs
  rw [Bool.and_eq_true, decide_eq_true_eq] at hs
  have g := sbinsFrom_get _ 0 _ l hs.2 hget
  rw [Nat.zero_add] at g
  have hi : i < 32 := by
    have := (List.getElem?_eq_some_iff.1 hget).1
    omega
  have e1 : sz = i * 8 := sizeAt_unique hsz (g c hc).1
  have := (g c hc).2
  omega

theorem tbins_size_ge {h : Heap} {c sz : Nat} (ht : tbinsOk h = true)
    (hm : c ∈ joinAll (h.tbins.map Tree.members)) (hsz : sizeAt h.ents c sz = true) : 256 ≤ sz := by
  obtain ⟨i, t, hget, hc⟩ := mem_joinAll_map_iff.1 hm
  unfold tbinsOk at ht
  rw [Bool.and_eq_true] at ht
  obtain ⟨g1, _⟩ := tbinsFrom_get _ 0 _ t ht.2 hget
  obtain ⟨s, _, hs, _, h256⟩ := trieOk_member_sized t _ g1 c hc
  rw [sizeAt_unique hsz hs]; exact h256

/-- `unlink_chunk` does not fail on a binned chunk when called with the chunk's header size -/
theorem unlink_chunk_progress {h : Heap} {c sz : Nat} (hs : sbinsOk h = true) (ht : tbinsOk h = true)
    (hm : c ∈ binned h) (hsz : sizeAt h.ents c sz = true) : ∃ h', unlink_chunk h c sz = .ok h' := by
  unfold unlink_chunk
  unfold binned at hm
  rcases List.mem_append.1 hm with hm | hm
  · have := sbins_size_lt hs hm hsz
    rw [if_pos ((is_small_iff sz).2 this.2.1)]
    exact unlink_small_chunk_progress hs hm hsz
  · have := tbins_size_ge ht hm hsz
    have hns : ¬ is_small sz = true := fun h => by have := (is_small_iff sz).1 h; omega
    rw [if_neg hns]
    exact unlink_large_chunk_progress ht hm

/-! ### `EntsLt` from a check, and non-vacuity -/

theorem entsLt_of_all {es : List Ent} (h : (es.all fun e => decide (e.size < U64)) = true) : EntsLt es := by
  intro a e he
  have := List.all_eq_true.1 h e (findEnt_some he).1
  simpa using this

/-- `EntsLt` is a consequence of `WF`: every header lies in a tiled segment that ends at or below 2^64 -/
theorem WF.entsLt {hs : Hist} (h : WF hs) : EntsLt hs.st.h.ents := by
  intro a e he
  obtain ⟨hm, _⟩ := findEnt_some he
  have hin := h.parts.inSegs
  simp only [List.all_eq_true, List.any_eq_true] at hin
  obtain ⟨g, hg, hge⟩ := hin e hm
  have ht := h.parts.tiles
  simp only [List.all_eq_true] at ht
  have hmem : e ∈ segEnts hs.st.h.ents g := by
    unfold segEnts
    exact List.mem_filter.2 ⟨hm, hge⟩
  obtain ⟨t1, t2⟩ := tiles_end (ht g hg) e hmem
  have hsg := h.parts.segs
  unfold segsOk at hsg
  simp only [Bool.and_eq_true, List.all_eq_true, decide_eq_true_eq] at hsg
  have := hsg.2 g hg
  simp only [U64]; omega

/-- a heap with three free large chunks (sizes 512, 520, 512 — all of tree bin 2) and a small one, nothing binned yet -/
def exHeap : Heap :=
  { ents := [⟨4096, 512, false, true, 0⟩, ⟨8192, 520, false, true, 0⟩, ⟨12288, 512, false, true, 0⟩,
             ⟨16384, 48, false, true, 0⟩],
    sbins := emptyBins, tbins := emptyTrees, dv := 0, dvsize := 0, top := 0, topsize := 0, tr := [] }

/-- run a sequence of bin operations -/
def exRun (h : Heap) : List (Heap → M Heap) → M Heap
  | [] => pure h
  | f :: fs => do let h ← f h; exRun h fs

def exOk (r : M Heap) (p : Heap → Bool) : Bool :=
  match r with
  | .ok h => p h
  | .error _ => false

example : EntsLt exHeap.ents := entsLt_of_all (by decide)
example : tbinsOk exHeap = true ∧ sbinsOk exHeap = true := by decide
example : sizeAt exHeap.ents 4096 512 = true ∧ sizeAt exHeap.ents 8192 520 = true := by decide

/-- the hypotheses of `insert_large_chunk_tbinsOk` hold at each step of: insert 512, insert 520 (a
second trie node below the first), insert the second 512 (into the ring), unlink the root (the ring
successor takes its place), unlink that one too (the leaf 520 moves up), and the conclusion is
observed on the way -/
example : exOk (exRun exHeap [(insert_chunk · 4096 512), (insert_chunk · 8192 520), (insert_chunk · 12288 512),
      (insert_chunk · 16384 48)])
    (fun h => tbinsOk h && sbinsOk h && decide (h.tbins[2]? = some (.node 4096 512 [12288] (.node 8192 520 [] .nil .nil) .nil))
      && decide (treemap h = 4) && decide (smallmap h = 64)) = true := by decide

example : exOk (exRun exHeap [(insert_chunk · 4096 512), (insert_chunk · 8192 520), (insert_chunk · 12288 512),
      (unlink_chunk · 4096 512), (unlink_large_chunk · 12288)])
    (fun h => tbinsOk h && decide (h.tbins[2]? = some (.node 8192 520 [] .nil .nil))) = true := by decide

/-! ### the header-size bound is needed (tree bin 31)

The model's sizes are unbounded naturals and bin 31 keys are the sizes modulo 2^64.  Without the bound
on the sizes already in the trie the insertion lemma is false, even for `sz < 2^63`: below, a trie of
bin 31 satisfying `trieOk` and `nodupB nodeSizes` whose node at depth 64 has size `sz + 2^64` (same
key as `sz`); `insert` walks past it with an exhausted key (`k = 0`, "left") and creates a node at a
65-step path whose last step contradicts what `pathOk` reads there (bit 0 of the key, which is 1). -/

def cexSize (d : Nat) : Nat :=
  if d = 0 then 2 ^ 64 - 1 else if d = 64 then 2 ^ 64 + (2 ^ 63 - 1) else 2 ^ 63 - 1 - 2 ^ (63 - d)
def cexChain : Nat → Nat → Tree
  | 0, _ => .nil
  | n + 1, d => .node (4096 * (d + 1)) (cexSize d) [] .nil (cexChain n (d + 1))
def cexTree : Tree := .node 4096 (cexSize 0) [] (cexChain 64 1) .nil
def cexEnts : List Ent :=
  (List.range 65).map (fun d => ⟨4096 * (d + 1), cexSize d, false, true, 0⟩) ++
    [⟨409600, 2 ^ 63 - 1, false, true, 0⟩]

example : trieOk cexEnts 31 cexTree [] = true ∧ nodupB cexTree.nodeSizes = true ∧
    sizeAt cexEnts 409600 (2 ^ 63 - 1) = true ∧ compute_tree_index (2 ^ 63 - 1) = 31 ∧
    trieOk cexEnts 31 (cexTree.insert (skey 31 (2 ^ 63 - 1)) 409600 (2 ^ 63 - 1)) [] = false := by
  decide +kernel

end TinyVerif.Dl
