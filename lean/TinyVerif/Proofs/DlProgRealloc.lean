import TinyVerif.Proofs.DlProgSpec
import TinyVerif.Proofs.DlIndAll
/-!
# Progress for `split_inuse`, `try_realloc_chunk`, `memalign_fix` (tag `rp_`)

`rp_split_inuse_prog : split_inuse_Prog`,
`rp_try_realloc_chunk_prog : dispose_chunk_Prog → try_realloc_chunk_Prog`,
`rp_memalign_fix_prog : dispose_chunk_Prog → memalign_fix_Prog`.

`set_inuse` / `writeHead` fail only on a size with flag bits (`rp_set_inuse_total`); the `mmapped` guards are
dead for user chunks; `getE next` finds the header after a user chunk (`ra_user_parts`); a free successor that
is neither `top` nor `dv` is binned, so `unlink_chunk` succeeds (`rp_unlink_total`, from `freeListOk` and
`unlink_chunk_progress`); `setFoot` / `clearPin` find the header after the old `dv` (`rp_stub_free_total`);
`dispose_chunk` is applied to a user chunk (≥ 32 bytes) of the state after the split (`rp_dispose_after_split`,
`rp_into_next_split_mid`, `rp_leader_mid`).  memalign: `leadsize ≤ e.size`, `nb ≤ e.size` at the end and
`align_up mem' = mem'` follow from the arithmetic (`rp_aligned_room`: an aligned address below `2^64` has room
for one more alignment unit, so `align_up` does not overflow), not from an ok-hypothesis.
-/
namespace TinyVerif.Dl

/-! ## plumbing -/

theorem rp_bind_ok {α β : Type} {x : M α} {f : α → M β} {a : α} (hx : x = .ok a) (hf : Total (f a)) :
    Total (x >>= f) := by
  rw [hx]; exact hf

theorem rp_failIf_false {c : Bool} {msg : String} (h : c = false) : failIf c msg = .ok () := by
  subst h; rfl

/-- `set_inuse` fails only on a size with flag bits -/
theorem rp_set_inuse_total (h : Heap) (a : Nat) {sz : Nat} (h8 : sz % 8 = 0) : ∃ h', set_inuse h a sz = .ok h' := by
  unfold set_inuse
  dsimp only
  rw [writeHead_eq h8]
  exact ⟨_, rfl⟩

theorem rp_user_not_mmapped {e : Ent} (hc : e.cin = true) : e.mmapped = false := by
  simp [Ent.mmapped, hc]

/-- **`split_inuse_Prog`** -/
theorem rp_split_inuse_prog : split_inuse_Prog := by
  intro s _ p nb rsize _ hnb _ hrs _
  obtain ⟨h1, e1⟩ := rp_set_inuse_total s.h p (sz := nb) (by omega)
  obtain ⟨h2, e2⟩ := rp_set_inuse_total h1 (p + nb) (sz := rsize) (by omega)
  exact ⟨h1, h2, e1, e2⟩

/-- after a split: `dispose_chunk` of the remainder, called on the tagged heap, is applied to a user chunk -/
theorem rp_dispose_after_split (hdp : dispose_chunk_Prog) {s : St} {h2 : Heap} {p nb rs : Nat} (t : String)
    (i2 : SInv { s with h := h2 }) (sp : ra_SplitU s { s with h := h2 } p nb rs) (hrs : 32 ≤ rs) :
    Total (dispose_chunk (h2.tag t) (p + nb) rs) := by
  have i2t : SInv { s with h := h2.tag t } := ra_sinv_same (s := { s with h := h2 }) i2 (ra_sameHeap_tag h2 t)
  have hut : User { s with h := h2.tag t } (p + nb) rs :=
    (ra_user_same (s := { s with h := h2 }) (H := h2.tag t) rfl _ _).2 ((sp.2 _ _).2 (Or.inr (Or.inr ⟨rfl, rfl⟩)))
  exact hdp (s := { s with h := h2.tag t }) i2t hut hrs

/-- the state between the two header writes and `dispose_chunk` in `realloc-into-next-split` (the first
half of `ra_into_next_split`) -/
theorem rp_into_next_split_mid {s : St} (hi : SInv s) {p z nb : Nat} {pre post : List Ent}
    {e x y : Ent} {g : Seg} (ga : ra_GrowAt s p z pre post e x y g) (hcd : x.addr ≠ s.h.dv)
    (hnb16 : nb % 16 = 0) (hnb : 16 ≤ nb) (hlt : z < nb) (hfit : nb + 16 ≤ z + x.size)
    {h0 h1 h2 : Heap} (e0 : unlink_chunk s.h x.addr x.size = .ok h0)
    (e1 : set_inuse h0 p nb = .ok h1) (e2 : set_inuse h1 (p + nb) (z + x.size - nb) = .ok h2) :
    SInv { s with h := h2 } ∧ ra_SplitU s { s with h := h2 } p nb (z + x.size - nb) := by
  have w := hi.wfs
  have u := ga.u
  have hea := u.ea
  have hesz := u.es
  have hxa := u.ya
  have hya := ga.ya
  have hz16 := u.z16
  have hp16 := u.p16
  subst hea
  have fr := unlink_chunk_frame e0
  obtain ⟨hxc, hxp⟩ := isFree_iff.1 ga.xf
  obtain ⟨hx16, hxs16, hxsz⟩ := shapeOk_free w.shape u.mem_y hxc
  have hok := w.ents
  rw [u.hes] at hok
  have hok2 : entsOk ((pre ++ [e, x]) ++ y :: post) = true := by simpa using hok
  obtain ⟨o1, _, _, _, _⟩ := entsOk_mid2 hok
  have b2 := entsOk_head_le (entsOk_append.1 hok2).2.1
  have r1 := ra_grow_part e1 (by rw [fr.ents]; exact u.hes) (by rw [fr.ents]; exact w.ents) (by omega) hya
    (by omega) (by omega)
  subst r1
  have r2 := ra_stub_inuse e2 (pre := pre) (post := post) (y := y)
    (np := { addr := e.addr, size := nb, cin := true, pin := e.pin, pfoot := e.pfoot }) rfl
    (by intro q hq; have := o1 q hq; omega) (by simp only; omega) (by omega) (by omega)
    (by intro q hq; have := b2 q hq; have := entsOk_pos w.ents y (by rw [u.hes]; simp); omega)
  obtain ⟨i1, rt1⟩ := ra_merge_exhaust_core hi ga
    (H := { h0 with ents := pre ++ [{ addr := e.addr, size := z + x.size, cin := true, pin := e.pin, pfoot := e.pfoot },
      { y with pin := true }] ++ post })
    (np := { addr := e.addr, size := z + x.size, cin := true, pin := e.pin, pfoot := e.pfoot })
    (ny := { y with pin := true }) rfl (ra_delisted_unlink w e0 hcd rfl rfl rfl rfl rfl rfl)
    rfl rfl rfl rfl rfl rfl rfl ga.yc rfl
  have hge := inSeg_iff.1 u.ge
  have hgy := inSeg_iff.1 ga.gy
  have u1 : ra_UserAt { s with h := { h0 with ents := pre ++
      [{ addr := e.addr, size := z + x.size, cin := true, pin := e.pin, pfoot := e.pfoot }, { y with pin := true }] ++ post } }
      e.addr (nb + (z + x.size - nb)) pre post
      { addr := e.addr, size := z + x.size, cin := true, pin := e.pin, pfoot := e.pfoot } { y with pin := true } g :=
    ⟨by simp, rfl, by simp only; omega, rfl, (gl_isRecord_addr (segs := s.segs) (e := e) rfl).trans u.er, by omega, hp16,
      by omega, by omega, u.hg, inSeg_iff.2 hge, inSeg_iff.2 hgy, by simp only; omega, rfl⟩
  obtain ⟨i2, sp1⟩ := ra_split_core i1 u1 hnb16 hnb (by omega) (by omega) (H := h2)
    (by rw [r2]; exact ⟨rfl, rfl, rfl, rfl, rfl, rfl, rfl⟩)
  exact ⟨i2, ra_splitU_of_resizedTo rt1 sp1 (by omega)⟩

/-- a free chunk that is neither `top` nor `dv` is binned, so `unlink_chunk` with its header size succeeds -/
theorem rp_unlink_total {s : St} (w : WFS s) {x : Ent} (hx : x ∈ s.h.ents) (hf : isFree x = true)
    (hnt : x.addr ≠ s.h.top) (hnd : x.addr ≠ s.h.dv) : ∃ h', unlink_chunk s.h x.addr x.size = .ok h' := by
  have hfl := ((freeListOk_iff s.h).1 w.freeList).2.1 x hx hf
  have hb : x.addr ∈ binned s.h := by
    rcases mem_freeList.1 hfl with ⟨_, h⟩ | ⟨_, h⟩ | h
    · exact absurd h hnt
    · exact absurd h hnd
    · exact h
  exact unlink_chunk_progress w.sbins w.tbins hb (sizeAt_iff.2 ⟨x, entsOk_find x hx w.ents, rfl⟩)

/-- `set_size_and_pinuse_of_free_chunk` over the header-less entry, then `clear_pinuse` of the header after it -/
theorem rp_stub_free_total {h : Heap} {pre post : List Ent} {np y : Ent} {a rs : Nat}
    (hes : h.ents = pre ++ [np, { addr := a, size := 0, cin := false, pin := true, pfoot := 0 }] ++ y :: post)
    (hpre : ∀ q ∈ pre, q.addr < a) (hnp : np.addr < a) (hya : y.addr = a + rs) (hrs : 0 < rs) (h8 : rs % 8 = 0)
    (hpost : ∀ q ∈ post, y.addr < q.addr) :
    ∃ h2 h3, set_size_and_pinuse_of_free_chunk h a rs = .ok h2 ∧ clearPin h2 (a + rs) = .ok h3 := by
  have hpre' : ∀ q ∈ pre ++ [np], q.addr < a := by
    intro q hq
    rcases List.mem_append.1 hq with hq | hq
    · exact hpre q hq
    · simp only [List.mem_singleton] at hq; subst hq; exact hnp
  have r1 := writeHead_window (h := h) (c := false) (p := true) h8 (pre := pre ++ [np])
    (ms := [{ addr := a, size := 0, cin := false, pin := true, pfoot := 0 }]) (post := y :: post)
    (by rw [hes]; simp) hpre'
    (by intro q hq; simp only [List.mem_singleton] at hq; subst hq; simp only; omega)
    (by
      intro q hq
      cases hq with
      | head => omega
      | tail _ hq => have := hpost q hq; omega)
  generalize hnr : ({ addr := a, size := rs, cin := false, pin := true, pfoot := pfootAt h.ents a } : Ent) = nr at r1
  have nr1 : nr.addr = a := by rw [← hnr]
  have hpre2 : ∀ q ∈ pre ++ [np, nr], q.addr ≠ y.addr := by
    intro q hq
    simp only [List.mem_append, List.mem_cons, List.not_mem_nil, or_false] at hq
    rcases hq with hq | hq | hq
    · have := hpre q hq; omega
    · subst hq; omega
    · subst hq; omega
  have r2 := setFoot_at (h := { h with ents := pre ++ [np] ++ nr :: y :: post }) (pre := pre ++ [np, nr]) (x := y)
    (post := post) (v := rs) (by simp) hpre2
  have r3 := clearPin_at (h := { h with ents := pre ++ [np, nr] ++ { y with pfoot := rs } :: post })
    (pre := pre ++ [np, nr]) (x := { y with pfoot := rs }) (post := post) rfl hpre2
  have s1 : set_size_and_pinuse_of_free_chunk h a rs =
      .ok { h with ents := pre ++ [np, nr] ++ { y with pfoot := rs } :: post } := by
    unfold set_size_and_pinuse_of_free_chunk
    rw [r1]
    show setFoot _ (a + rs) rs = _
    rw [← hya]
    exact r2
  exact ⟨_, _, s1, by rw [← hya]; exact r3⟩

/-- **`try_realloc_chunk_Prog`** (given `dispose_chunk_Prog`) -/
theorem rp_try_realloc_chunk_prog : dispose_chunk_Prog → try_realloc_chunk_Prog := by
  intro hdp s hi p nb z hu hz32 hnb
  have w := hi.wfs
  obtain ⟨pre, post, e, x, g, u⟩ := ra_user_parts w hu
  have hnb16 := hnb.1
  have hnb32 := hnb.2.1
  have hz16 := u.z16
  have hxa := u.ya
  unfold try_realloc_chunk
  dsimp only
  refine rp_bind_ok (getE_ok.2 (u.find w)) ?_
  refine rp_bind_ok (rp_failIf_false (rp_user_not_mmapped u.ec)) ?_
  have hesz := u.es
  subst hesz
  simp only [MIN_CHUNK_SIZE_eq]
  split
  · rename_i hge
    split
    · -- shrink-split
      rename_i hrs
      obtain ⟨h1, e1⟩ := rp_set_inuse_total s.h p (sz := nb) (by omega)
      obtain ⟨h2, e2⟩ := rp_set_inuse_total h1 (p + nb) (sz := e.size - nb) (by omega)
      refine rp_bind_ok e1 (rp_bind_ok e2 ?_)
      have hu' : User s p (nb + (e.size - nb)) := by rw [show nb + (e.size - nb) = e.size by omega]; exact hu
      obtain ⟨i2, sp⟩ := ra_split_inuse hi hu' hnb16 (by omega) (by omega) (by omega) e1 e2
      exact Total.bind (rp_dispose_after_split hdp _ i2 sp hrs) (fun a _ => total_pure _)
    · exact total_pure _
  · rename_i hlt
    split
    · rename_i ht
      split
      · exact total_pure _
      · -- into-top
        obtain ⟨f, post', rest, hp, hsegs, hxf, hxs, _⟩ := ra_next_top w u ht
        obtain ⟨_, hxs16, _⟩ := shapeOk_free w.shape u.mem_y (isFree_iff.1 hxf).1
        obtain ⟨h1, e1⟩ := rp_set_inuse_total s.h p (sz := nb) (by omega)
        refine rp_bind_ok e1 ?_
        exact rp_bind_ok (writeHead_eq (by omega)) (total_pure _)
    · rename_i hnt
      split
      · rename_i hdv
        obtain ⟨hxf, hxs, hd32, hd0⟩ := ra_dv_at w u.mem_y (by rw [u.ya, hdv])
        obtain ⟨_, hxs16, _⟩ := shapeOk_free w.shape u.mem_y (isFree_iff.1 hxf).1
        split
        · exact total_pure _
        · split
          · -- into-dv-split
            rename_i hfit hds
            obtain ⟨y, post', hp, ga⟩ := ra_grow_parts w u hxf (by rw [u.ya]; exact hnt)
            subst hp
            have hea := u.ea
            have hya := ga.ya
            subst hea
            have hok := w.ents
            rw [u.hes] at hok
            have hok2 : entsOk ((pre ++ [e, x]) ++ y :: post') = true := by simpa using hok
            obtain ⟨o1, _, _, _, _⟩ := entsOk_mid2 hok
            have b2 := entsOk_head_le (entsOk_append.1 hok2).2.1
            obtain ⟨h1, e1⟩ := rp_set_inuse_total s.h e.addr (sz := nb) (by omega)
            have r1 := ra_grow_part e1 u.hes w.ents (by omega) hya (by omega) (by omega)
            obtain ⟨h2, h3, e2, e3⟩ := rp_stub_free_total (h := h1) (pre := pre) (post := post') (y := y)
              (np := { addr := e.addr, size := nb, cin := true, pin := e.pin, pfoot := e.pfoot })
              (a := e.addr + nb) (rs := e.size + s.h.dvsize - nb) (by rw [r1])
              (by intro q hq; have := o1 q hq; omega) (by simp only; omega) (by omega) (by omega) (by omega)
              (by intro q hq; have := b2 q hq; have := entsOk_pos w.ents y (by rw [u.hes]; simp); omega)
            exact rp_bind_ok e1 (rp_bind_ok e2 (rp_bind_ok e3 (total_pure _)))
          · -- into-dv-exhaust
            obtain ⟨h1, e1⟩ := rp_set_inuse_total s.h p (sz := e.size + s.h.dvsize) (by omega)
            exact rp_bind_ok e1 (total_pure _)
      · rename_i hndv
        have hfx : findEnt s.h.ents (p + e.size) = some x := by rw [← u.ya]; exact entsOk_find x u.mem_y w.ents
        refine rp_bind_ok (getE_ok.2 hfx) ?_
        split
        · rename_i hcin
          have hxf : isFree x = true := by
            simp only [Bool.not_eq_true'] at hcin
            exact isFree_iff.2 ⟨hcin, u.yp⟩
          obtain ⟨_, hxs16, _⟩ := shapeOk_free w.shape u.mem_y (isFree_iff.1 hxf).1
          split
          · exact total_pure _
          · rename_i hfit
            obtain ⟨h0, e0⟩ := rp_unlink_total w u.mem_y hxf (by rw [u.ya]; exact hnt) (by rw [u.ya]; exact hndv)
            refine rp_bind_ok (by rw [← u.ya]; exact e0) ?_
            split
            · -- into-next-exhaust
              obtain ⟨h1, e1⟩ := rp_set_inuse_total h0 p (sz := e.size + x.size) (by omega)
              exact rp_bind_ok e1 (total_pure _)
            · -- into-next-split
              rename_i hrs
              obtain ⟨y, post', hp, ga⟩ := ra_grow_parts w u hxf (by rw [u.ya]; exact hnt)
              obtain ⟨h1, e1⟩ := rp_set_inuse_total h0 p (sz := nb) (by omega)
              obtain ⟨h2, e2⟩ := rp_set_inuse_total h1 (p + nb) (sz := e.size + x.size - nb) (by omega)
              refine rp_bind_ok e1 (rp_bind_ok e2 ?_)
              obtain ⟨i2, sp⟩ := rp_into_next_split_mid hi ga (by rw [u.ya]; exact hndv) hnb16 (by omega) (by omega)
                (by omega) e0 e1 e2
              exact Total.bind (rp_dispose_after_split hdp _ i2 sp (by omega)) (fun a _ => total_pure _)
        · exact total_pure _

/-! ## `memalign_fix` -/

/-- an aligned address below `2^64` has room for one more alignment unit -/
theorem rp_aligned_room {a k : Nat} (hk : k ≤ 64) (ha : a % 2 ^ k = 0) (hlt : a < 2 ^ 64) : a + 2 ^ k ≤ 2 ^ 64 := by
  obtain ⟨c, hc⟩ := Nat.dvd_of_mod_eq_zero ha
  have h64 : (2 : Nat) ^ 64 = 2 ^ k * 2 ^ (64 - k) := by rw [← Nat.pow_add]; congr 1; omega
  rw [h64] at hlt ⊢
  rw [hc] at hlt ⊢
  have hc' : c < 2 ^ (64 - k) := Nat.lt_of_mul_lt_mul_left hlt
  calc 2 ^ k * c + 2 ^ k = 2 ^ k * (c + 1) := by rw [Nat.mul_add, Nat.mul_one]
    _ ≤ 2 ^ k * 2 ^ (64 - k) := Nat.mul_le_mul_left _ hc'

/-- the state between the two header writes of the leader and `dispose_chunk` -/
theorem rp_leader_mid {s : St} (hi : SInv s) {p0 z lead : Nat} (hu : User s p0 z)
    (hl16 : lead % 16 = 0) (hl : 16 ≤ lead) (hlz : lead + 16 ≤ z) {h1 h2 : Heap}
    (e1 : set_inuse s.h (p0 + lead) (z - lead) = .ok h1) (e2 : set_inuse h1 p0 lead = .ok h2) :
    SInv { s with h := h2 } ∧ ra_SplitU s { s with h := h2 } p0 lead (z - lead) := by
  obtain ⟨pre, post, e, y, g, u⟩ := ra_user_parts hi.wfs hu
  have hz16 := u.z16
  have hea := u.ea
  subst hea
  have u' : ra_UserAt s e.addr (lead + (z - lead)) pre post e y g := by
    rw [show lead + (z - lead) = z by omega]; exact u
  have r := ra_set_inuse_pair_rev e1 e2 u.hes hi.wfs.ents (by omega) (by omega) (by rw [u.es]; omega)
    (by rw [u.ya, u.es])
  exact ra_split_core hi u' hl16 hl (by omega) (by omega) (H := h2)
    (by rw [r]; exact ⟨rfl, rfl, rfl, rfl, rfl, rfl, rfl⟩)

/-- the second half of `memalign_fix` (trailer, the two final `debug_assert!`s), from a state in which the
aligned chunk is a user chunk of at least `nb` bytes -/
theorem rp_ma_tail (hdp : dispose_chunk_Prog) {s1 : St} (i1 : SInv s1) {p z1 nb k : Nat} (hu1 : User s1 p z1)
    (hnb : NbOk nb) (hz1 : nb ≤ z1) (hal : align_up (p + 16) (2 ^ k) = p + 16) :
    Total (do
      let e ← getE s1.h p
      failIf (e.mmapped) "mmapped-branch:memalign-trailer"
      let h ← (do
        if e.size > nb + 32 then
          let h ← set_inuse s1.h p nb
          let h ← set_inuse h (p + nb) (e.size - nb)
          dispose_chunk (h.tag "memalign-trailer") (p + nb) (e.size - nb)
        else pure s1.h : M Heap)
      let e ← getE h p
      failIf (e.size < nb) "debug_assert:memalign-size"
      failIf (align_up (p + 16) (2 ^ k) ≠ p + 16) "debug_assert:memalign-aligned"
      pure (h, p + 16)) := by
  obtain ⟨e1, he1, hc1, hs1, h81, hr1⟩ := id hu1
  refine rp_bind_ok (getE_ok.2 he1) ?_
  refine rp_bind_ok (rp_failIf_false (rp_user_not_mmapped hc1)) ?_
  rw [hs1]
  -- the trailer is total, and leaves a user chunk of at least `nb` bytes at `p`
  have htr : ∃ h2, (if z1 > nb + 32 then do
        let h ← set_inuse s1.h p nb
        let h ← set_inuse h (p + nb) (z1 - nb)
        dispose_chunk (h.tag "memalign-trailer") (p + nb) (z1 - nb)
      else pure s1.h : M Heap) = .ok h2 ∧ ∃ sz, nb ≤ sz ∧ User { s1 with h := h2 } p sz := by
    have htot : Total (if z1 > nb + 32 then do
          let h ← set_inuse s1.h p nb
          let h ← set_inuse h (p + nb) (z1 - nb)
          dispose_chunk (h.tag "memalign-trailer") (p + nb) (z1 - nb)
        else pure s1.h : M Heap) := by
      split
      · rename_i hgt
        obtain ⟨_, _, _, _, _, u⟩ := ra_user_parts i1.wfs hu1
        have hz16 := u.z16
        have h1 := hnb.1
        obtain ⟨h1', e1'⟩ := rp_set_inuse_total s1.h p (sz := nb) (by omega)
        obtain ⟨h2', e2'⟩ := rp_set_inuse_total h1' (p + nb) (sz := z1 - nb) (by omega)
        refine rp_bind_ok e1' (rp_bind_ok e2' ?_)
        have hu' : User s1 p (nb + (z1 - nb)) := by rw [show nb + (z1 - nb) = z1 by omega]; exact hu1
        obtain ⟨i2, sp⟩ := ra_split_inuse i1 hu' hnb.1 (by have := hnb.2.1; omega) (by omega) (by omega) e1' e2'
        exact rp_dispose_after_split hdp _ i2 sp (by omega)
      · exact total_pure _
    obtain ⟨h2, hh2⟩ := htot
    obtain ⟨_, sz, hsz, rt⟩ := ma_trailer all_dispose_chunk i1 hu1 hnb hz1 hh2
    exact ⟨h2, hh2, sz, hsz, (rt p sz).2 (Or.inr ⟨rfl, rfl⟩)⟩
  obtain ⟨h2, hh2, sz, hsz, e2, he2, _, hs2, _⟩ := htr
  refine rp_bind_ok hh2 ?_
  refine rp_bind_ok (getE_ok.2 he2) ?_
  refine rp_bind_ok (rp_failIf_false (by simp only [decide_eq_false_iff_not]; omega)) ?_
  refine rp_bind_ok (rp_failIf_false (by simp [hal])) ?_
  exact total_pure _

/-- **`memalign_fix_Prog`** (given `dispose_chunk_Prog`) -/
theorem rp_memalign_fix_prog : dispose_chunk_Prog → memalign_fix_Prog := by
  intro hdp s hi mem k nb z h16 hu hnb hk hk2 hz
  have w := hi.wfs
  obtain ⟨pre, post, e, y, g, u⟩ := ra_user_parts w hu
  have hp016 := u.p16
  have hz16 := u.z16
  have hnb16 := hnb.1
  have hnb32 := hnb.2.1
  have hP32 : 32 ≤ 2 ^ k :=
    calc 32 = 2 ^ 5 := by decide
      _ ≤ 2 ^ k := Nat.pow_le_pow_right (by decide) hk
  have hP16 : 16 ∣ 2 ^ k := by
    have := Nat.pow_dvd_pow 2 (show 4 ≤ k by omega)
    simpa using this
  have hend := (w.struct.in_seg u.hg u.mem_e u.ge).2
  have hseg := ma_segs_le w u.hg
  have hea := u.ea
  have hesz := u.es
  have hov : mem + 2 ^ k ≤ 2 ^ 64 := by omega
  have hA1 := align_up_ge mem k hov
  have hA2 := align_up_lt mem k hov
  have hA3 := align_up_dvd mem k hov
  have hA16 : 16 ∣ align_up mem (2 ^ k) := Nat.dvd_trans hP16 hA3
  have hfe : findEnt s.h.ents (mem - 16) = some e := u.find w
  unfold memalign_fix
  dsimp only
  simp only [MEM_OFFSET_eq, MIN_CHUNK_SIZE_eq]
  refine rp_bind_ok (rp_failIf_false (by simp only [decide_eq_false_iff_not]; omega)) ?_
  by_cases hc : mem &&& 2 ^ k - 1 ≠ 0
  · rw [if_pos hc]
    simp only [bind_assoc, pure_bind]
    generalize hpos : (if align_up mem (2 ^ k) - 16 - (mem - 16) > 32 then align_up mem (2 ^ k) - 16
      else align_up mem (2 ^ k) - 16 + 2 ^ k) = pos
    have hmod : (pos + 16) % 2 ^ k = 0 := by
      split at hpos
      · rw [← hpos, show align_up mem (2 ^ k) - 16 + 16 = align_up mem (2 ^ k) by omega]
        exact Nat.mod_eq_zero_of_dvd hA3
      · rw [← hpos, show align_up mem (2 ^ k) - 16 + 2 ^ k + 16 = align_up mem (2 ^ k) + 2 ^ k by omega,
          Nat.add_mod_right]
        exact Nat.mod_eq_zero_of_dvd hA3
    have hfacts : mem - 16 ≤ pos ∧ (pos - (mem - 16)) % 16 = 0 ∧ 32 ≤ pos - (mem - 16) ∧
        nb + (pos - (mem - 16)) ≤ z := by
      split at hpos <;> omega
    obtain ⟨f1, f2, f3, f4⟩ := hfacts
    generalize hlead : pos - (mem - 16) = lead at *
    have hpl : pos = mem - 16 + lead := by omega
    subst hpl
    refine rp_bind_ok (getE_ok.2 hfe) ?_
    refine rp_bind_ok (rp_failIf_false (by simp only [decide_eq_false_iff_not]; omega)) ?_
    refine rp_bind_ok (rp_failIf_false (rp_user_not_mmapped u.ec)) ?_
    rw [hesz]
    obtain ⟨h1, e1⟩ := rp_set_inuse_total s.h (mem - 16 + lead) (sz := z - lead) (by omega)
    obtain ⟨h2, e2⟩ := rp_set_inuse_total h1 (mem - 16) (sz := lead) (by omega)
    refine rp_bind_ok e1 (rp_bind_ok e2 ?_)
    obtain ⟨i2, sp⟩ := rp_leader_mid hi hu f2 (by omega) (by omega) e1 e2
    have i2t : SInv { s with h := h2.tag "memalign-leader" } :=
      ra_sinv_same (s := { s with h := h2 }) i2 (ra_sameHeap_tag h2 _)
    have hut : User { s with h := h2.tag "memalign-leader" } (mem - 16) lead :=
      (ra_user_same (s := { s with h := h2 }) (H := h2.tag "memalign-leader") rfl _ _).2
        ((sp.2 _ _).2 (Or.inr (Or.inl ⟨rfl, rfl⟩)))
    obtain ⟨h3, e3⟩ := hdp (s := { s with h := h2.tag "memalign-leader" }) i2t hut f3
    refine rp_bind_ok e3 ?_
    obtain ⟨r1, r2, _⟩ := ma_leader all_dispose_chunk hi hu f2 (by omega) (by omega) e1 e2 e3
    have hu1 : User { s with h := h3 } (mem - 16 + lead) (z - lead) := (r2 _ _).2 (Or.inr ⟨rfl, rfl⟩)
    have hal : align_up (mem - 16 + lead + 16) (2 ^ k) = mem - 16 + lead + 16 :=
      align_up_of_aligned _ k (rp_aligned_room (by omega) hmod (by omega)) hmod
    exact rp_ma_tail hdp (s1 := { s with h := h3 }) r1 hu1 hnb (by omega) hal
  · rw [if_neg hc]
    simp only [pure_bind]
    have hm : mem % 2 ^ k = 0 := by
      rw [← Nat.and_two_pow_sub_one_eq_mod]
      exact Decidable.not_not.1 hc
    have hsame : ∀ a z', User { s with h := s.h.tag "memalign-aligned" } a z' ↔ User s a z' :=
      fun a z' => ra_user_same (H := s.h.tag "memalign-aligned") rfl a z'
    have hal : align_up (mem - 16 + 16) (2 ^ k) = mem - 16 + 16 := by
      rw [show mem - 16 + 16 = mem by omega]
      exact align_up_of_aligned mem k hov hm
    exact rp_ma_tail hdp (s1 := { s with h := s.h.tag "memalign-aligned" }) (ra_sinv_same hi (ra_sameHeap_tag _ _))
      ((hsame _ _).2 hu) hnb (by omega) hal

end TinyVerif.Dl
