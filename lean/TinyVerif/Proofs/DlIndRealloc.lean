import TinyVerif.Proofs.DlIndGlue
/-!
# `split_inuse_Spec`, `try_realloc_chunk_Spec` (tag `ra_`)

## A. `set_inuse` as table surgery
`ra_set_inuse_w` (the header write over a window, then `orPin` at the end of the new chunk),
`ra_orPin_stub` (the `orPin` on a word that holds no header inserts the header-less entry
`{size := 0, pin := true}`), `ra_set_inuse_pair` (the two calls `set_inuse p nb; set_inuse (p+nb) rs` on a
chunk of `nb + rs` bytes — the intermediate table violates `entsOk`), `ra_set_inuse_pair_rev` (the order
`memalign` uses for the leader: second header first).
-/
namespace TinyVerif.Dl

/-! ## A. `set_inuse` as table surgery -/

/-- the PINUSE bit `set_inuse` reads from the word already there -/
def ra_pinAt (es : List Ent) (a : Nat) : Bool :=
  match findEnt es a with
  | some e => e.pin
  | none => false

theorem ra_pinAt_some {es : List Ent} {a : Nat} {e : Ent} (h : findEnt es a = some e) : ra_pinAt es a = e.pin := by
  simp [ra_pinAt, h]

theorem ra_pinAt_none {es : List Ent} {a : Nat} (h : findEnt es a = none) : ra_pinAt es a = false := by
  simp [ra_pinAt, h]

/-- `findEnt` skips a prefix of lower addresses -/
theorem ra_findEnt_pre {pre l : List Ent} {a : Nat} (h : ∀ q ∈ pre, q.addr < a) :
    findEnt (pre ++ l) a = findEnt l a :=
  findEnt_skip (fun q hq => by have := h q hq; omega)

/-- `set_inuse` over a window of the table: the header write, then `orPin` at the end of the chunk -/
theorem ra_set_inuse_w {h h' : Heap} {pre ms post : List Ent} {a sz : Nat}
    (e : set_inuse h a sz = .ok h') (hes : h.ents = pre ++ ms ++ post)
    (hpre : ∀ q ∈ pre, q.addr < a)
    (hms : ∀ m ∈ ms, a ≤ m.addr ∧ (m.addr = a ∨ m.addr < a + sz))
    (hpost : ∀ q ∈ post, a < q.addr ∧ a + sz ≤ q.addr) :
    h' = orPin { h with ents := pre ++ { addr := a, size := sz, cin := true, pin := ra_pinAt h.ents a, pfoot := pfootAt h.ents a } :: post }
      (a + sz) := by
  unfold set_inuse at e
  dsimp only at e
  msimp at e
  obtain ⟨h1, e1, e2⟩ := e
  have r1 := writeHead_window_ok e1 hes hpre hms hpost
  subst r1
  exact e2.symm

/-- `orPin` on a word that holds no header: the header-less entry `{size := 0, pin := true}` appears -/
theorem ra_orPin_stub {h : Heap} {pre post : List Ent} {a : Nat} (hes : h.ents = pre ++ post)
    (hpre : ∀ q ∈ pre, q.addr < a) (hpost : ∀ q ∈ post, a < q.addr) :
    orPin h a = { h with ents := pre ++ { addr := a, size := 0, cin := false, pin := true, pfoot := 0 } :: post } := by
  have hn : modEnt (fun e => { e with pin := true }) h.ents a = none := by
    rw [hes]
    apply modEnt_none
    intro e he
    rcases List.mem_append.1 he with h1 | h1
    · have := hpre e h1; omega
    · have := hpost e h1; omega
  have hp := putEnt_window (pre := pre) (ms := []) (post := post)
    (e := { addr := a, size := 0, cin := false, pin := true, pfoot := 0 }) hpre (by simp)
    (fun q hq => ⟨hpost q hq, by have := hpost q hq; simp only; omega⟩)
  simp only [List.append_nil] at hp
  unfold orPin
  rw [hn]
  simp only
  rw [hes, hp]

/-- `{y with pin := true}` is `y` when PINUSE is already set -/
theorem ra_pin_true_eq {y : Ent} (h : y.pin = true) : ({ y with pin := true } : Ent) = y := by
  cases y; simp_all

/-- **the two calls of a split together**: `set_inuse p nb; set_inuse (p+nb) rs` on the header `x` of
`nb + rs` bytes followed by `y` -/
theorem ra_set_inuse_pair {h h1 h2 : Heap} {pre post : List Ent} {x y : Ent} {nb rs : Nat}
    (e1 : set_inuse h x.addr nb = .ok h1) (e2 : set_inuse h1 (x.addr + nb) rs = .ok h2)
    (hes : h.ents = pre ++ x :: y :: post) (hok : entsOk h.ents = true)
    (hnb : 0 < nb) (hrs : 0 < rs) (hsz : x.size = nb + rs) (hya : y.addr = x.addr + x.size) :
    h2 = { h with ents := pre ++ [{ addr := x.addr, size := nb, cin := true, pin := x.pin, pfoot := x.pfoot },
      { addr := x.addr + nb, size := rs, cin := true, pin := true, pfoot := 0 }, { y with pin := true }] ++ post } := by
  have hok2 : entsOk (pre ++ x :: y :: post) = true := by rw [hes] at hok; exact hok
  obtain ⟨o1, o2, o3, o4, o5⟩ := entsOk_mid2 hok2
  have hfx : findEnt h.ents x.addr = some x := entsOk_find x (by rw [hes]; simp) hok
  -- first call: header over `x`, then the stub at `p + nb`
  have r1 := ra_set_inuse_w e1 (pre := pre) (ms := [x]) (post := y :: post) (by rw [hes]; simp)
    (by intro q hq; exact (o1 q hq).2)
    (by intro q hq; simp only [List.mem_singleton] at hq; subst hq; omega)
    (by
      intro q hq
      cases hq with
      | head => omega
      | tail _ hq => have := o5 q hq; omega)
  rw [ra_pinAt_some hfx, pfootAt_some hfx] at r1
  rw [ra_orPin_stub (pre := pre ++ [{ addr := x.addr, size := nb, cin := true, pin := x.pin, pfoot := x.pfoot }])
    (post := y :: post) (by simp)
    (by
      intro q hq
      rcases List.mem_append.1 hq with hq | hq
      · have := o1 q hq; omega
      · simp only [List.mem_singleton] at hq; subst hq; simp only; omega)
    (by
      intro q hq
      cases hq with
      | head => omega
      | tail _ hq => have := o5 q hq; omega)] at r1
  subst r1
  -- second call: header over the stub, then `orPin` on `y`
  have hfs : findEnt (pre ++ [{ addr := x.addr, size := nb, cin := true, pin := x.pin, pfoot := x.pfoot }] ++
      { addr := x.addr + nb, size := 0, cin := false, pin := true, pfoot := 0 } :: y :: post) (x.addr + nb) =
      some { addr := x.addr + nb, size := 0, cin := false, pin := true, pfoot := 0 } := by
    rw [ra_findEnt_pre (by
      intro q hq
      rcases List.mem_append.1 hq with hq | hq
      · have := o1 q hq; omega
      · simp only [List.mem_singleton] at hq; subst hq; simp only; omega)]
    exact findEnt_head
  have r2 := ra_set_inuse_w e2
    (pre := pre ++ [{ addr := x.addr, size := nb, cin := true, pin := x.pin, pfoot := x.pfoot }])
    (ms := [{ addr := x.addr + nb, size := 0, cin := false, pin := true, pfoot := 0 }]) (post := y :: post)
    (by simp)
    (by
      intro q hq
      rcases List.mem_append.1 hq with hq | hq
      · have := o1 q hq; omega
      · simp only [List.mem_singleton] at hq; subst hq; simp only; omega)
    (by intro q hq; simp only [List.mem_singleton] at hq; subst hq; simp only; omega)
    (by
      intro q hq
      cases hq with
      | head => omega
      | tail _ hq => have := o5 q hq; omega)
  dsimp only at r2
  rw [ra_pinAt_some hfs, pfootAt_some hfs] at r2
  rw [show x.addr + nb + rs = y.addr by omega] at r2
  rw [orPin_at (pre := pre ++ [{ addr := x.addr, size := nb, cin := true, pin := x.pin, pfoot := x.pfoot },
      { addr := x.addr + nb, size := rs, cin := true, pin := true, pfoot := 0 }]) (x := y) (post := post) (by simp)
    (by
      intro q hq
      simp only [List.mem_append, List.mem_cons, List.not_mem_nil, or_false] at hq
      rcases hq with hq | hq | hq
      · have := o1 q hq; omega
      · subst hq; simp only; omega
      · subst hq; simp only; omega)] at r2
  rw [r2]
  simp

end TinyVerif.Dl
