import TinyVerif.Proofs.DlIndGlue
/-!
# `split_inuse_Spec`, `try_realloc_chunk_Spec` (tag `ra_`)

Main results: `ra_split_inuse_spec : split_inuse_Spec`,
`ra_try_realloc_chunk_spec : dispose_chunk_Spec → try_realloc_chunk_Spec`.

## A. `set_inuse` as table surgery
`ra_set_inuse_w` (the header write over a window, then `orPin` at the end of the new chunk),
`ra_orPin_stub` (the `orPin` on a word that holds no header inserts the header-less entry
`{size := 0, pin := true}`), `ra_set_inuse_pair` (the two calls `set_inuse p nb; set_inuse (p+nb) rs` on a
chunk of `nb + rs` bytes — the intermediate table violates `entsOk`), `ra_set_inuse_pair_rev` (the order
`memalign` uses for the leader: second header first); later `ra_grow_exact` / `ra_grow_part` (the header
swallows the free chunk after the user chunk, completely / partly), `ra_stub_inuse` / `ra_stub_free` (the
header-less entry becomes an in-use / a free header).

## B. `ra_UserAt` / `ra_user_parts`: what `User s p z` says about the table (header, successor with PINUSE);
`ra_sinv_same`, `ra_user_same` (ghost trace).
## C. `ra_wfs_inuse_window` (window replacement among in-use headers), `ra_split_core` (the split on the
final table; `ra_SplitU` = the `User` delta of `split_inuse_Spec` plus "no user chunk started at `p + nb`"),
`ra_split_inuse`, **`ra_split_inuse_spec`**.
## D–F. neighbours (`ra_next_top`, `ra_next_free`, `ra_GrowAt`), `ra_resizeAtTab_window`, `ra_ResizedTo`,
`ra_sinv_resizeTo`; table cores `ra_into_top_core`, `ra_merge_exhaust_core` (with `ra_Delisted`: the free chunk
taken off the free list — `ra_delisted_dv`, `ra_delisted_unlink`), `ra_dv_split_core`.
## G. the branches (`ra_shrink_split`, `ra_into_top`, `ra_into_dv_split`, `ra_grow_exhaust`,
`ra_into_next_split` = virtual exhaust + split) and **`ra_try_realloc_chunk_spec`**.
-/
namespace TinyVerif.Dl

/-! ## A. `set_inuse` as table surgery -/

/-- the PINUSE bit `set_inuse` reads from the word already there -/
def ra_pinAt (es : List Ent) (a : Nat) : Bool :=
  match findEnt es a with
  | some e => e.pin
  | none => false

theorem ra_pinAt_some {es : List Ent} {a : Nat} {e : Ent} (h : findEnt es a = some e) : ra_pinAt es a = e.pin := by
  simp [ra_pinAt, h]

theorem ra_pinAt_none {es : List Ent} {a : Nat} (h : findEnt es a = none) : ra_pinAt es a = false := by
  simp [ra_pinAt, h]

/-- `findEnt` skips a prefix of lower addresses -/
theorem ra_findEnt_pre {pre l : List Ent} {a : Nat} (h : ∀ q ∈ pre, q.addr < a) :
    findEnt (pre ++ l) a = findEnt l a :=
  findEnt_skip (fun q hq => by have := h q hq; omega)

/-- `set_inuse` over a window of the table: the header write, then `orPin` at the end of the chunk -/
theorem ra_set_inuse_w {h h' : Heap} {pre ms post : List Ent} {a sz : Nat}
    (e : set_inuse h a sz = .ok h') (hes : h.ents = pre ++ ms ++ post)
    (hpre : ∀ q ∈ pre, q.addr < a)
    (hms : ∀ m ∈ ms, a ≤ m.addr ∧ (m.addr = a ∨ m.addr < a + sz))
    (hpost : ∀ q ∈ post, a < q.addr ∧ a + sz ≤ q.addr) :
    h' = orPin { h with ents := pre ++ { addr := a, size := sz, cin := true, pin := ra_pinAt h.ents a, pfoot := pfootAt h.ents a } :: post }
      (a + sz) := by
  unfold set_inuse at e
  dsimp only at e
  msimp at e
  obtain ⟨h1, e1, e2⟩ := e
  have r1 := writeHead_window_ok e1 hes hpre hms hpost
  subst r1
  exact e2.symm

/-- `orPin` on a word that holds no header: the header-less entry `{size := 0, pin := true}` appears -/
theorem ra_orPin_stub {h : Heap} {pre post : List Ent} {a : Nat} (hes : h.ents = pre ++ post)
    (hpre : ∀ q ∈ pre, q.addr < a) (hpost : ∀ q ∈ post, a < q.addr) :
    orPin h a = { h with ents := pre ++ { addr := a, size := 0, cin := false, pin := true, pfoot := 0 } :: post } := by
  have hn : modEnt (fun e => { e with pin := true }) h.ents a = none := by
    rw [hes]
    apply modEnt_none
    intro e he
    rcases List.mem_append.1 he with h1 | h1
    · have := hpre e h1; omega
    · have := hpost e h1; omega
  have hp := putEnt_window (pre := pre) (ms := []) (post := post)
    (e := { addr := a, size := 0, cin := false, pin := true, pfoot := 0 }) hpre (by simp)
    (fun q hq => ⟨hpost q hq, by have := hpost q hq; simp only; omega⟩)
  simp only [List.append_nil] at hp
  unfold orPin
  rw [hn]
  simp only
  rw [hes, hp]

/-- `{y with pin := true}` is `y` when PINUSE is already set -/
theorem ra_pin_true_eq {y : Ent} (h : y.pin = true) : ({ y with pin := true } : Ent) = y := by
  cases y; simp_all

/-- **the two calls of a split together**: `set_inuse p nb; set_inuse (p+nb) rs` on the header `x` of
`nb + rs` bytes followed by `y` -/
theorem ra_set_inuse_pair {h h1 h2 : Heap} {pre post : List Ent} {x y : Ent} {nb rs : Nat}
    (e1 : set_inuse h x.addr nb = .ok h1) (e2 : set_inuse h1 (x.addr + nb) rs = .ok h2)
    (hes : h.ents = pre ++ x :: y :: post) (hok : entsOk h.ents = true)
    (hnb : 0 < nb) (hrs : 0 < rs) (hsz : x.size = nb + rs) (hya : y.addr = x.addr + x.size) :
    h2 = { h with ents := pre ++ [{ addr := x.addr, size := nb, cin := true, pin := x.pin, pfoot := x.pfoot },
      { addr := x.addr + nb, size := rs, cin := true, pin := true, pfoot := 0 }, { y with pin := true }] ++ post } := by
  have hok2 : entsOk (pre ++ x :: y :: post) = true := by rw [hes] at hok; exact hok
  obtain ⟨o1, o2, o3, o4, o5⟩ := entsOk_mid2 hok2
  have hfx : findEnt h.ents x.addr = some x := entsOk_find x (by rw [hes]; simp) hok
  -- first call: header over `x`, then the stub at `p + nb`
  have r1 := ra_set_inuse_w e1 (pre := pre) (ms := [x]) (post := y :: post) (by rw [hes]; simp)
    (by intro q hq; exact (o1 q hq).2)
    (by intro q hq; simp only [List.mem_singleton] at hq; subst hq; omega)
    (by
      intro q hq
      cases hq with
      | head => omega
      | tail _ hq => have := o5 q hq; omega)
  rw [ra_pinAt_some hfx, pfootAt_some hfx] at r1
  rw [ra_orPin_stub (pre := pre ++ [{ addr := x.addr, size := nb, cin := true, pin := x.pin, pfoot := x.pfoot }])
    (post := y :: post) (by simp)
    (by
      intro q hq
      rcases List.mem_append.1 hq with hq | hq
      · have := o1 q hq; omega
      · simp only [List.mem_singleton] at hq; subst hq; simp only; omega)
    (by
      intro q hq
      cases hq with
      | head => omega
      | tail _ hq => have := o5 q hq; omega)] at r1
  subst r1
  -- second call: header over the stub, then `orPin` on `y`
  have hfs : findEnt (pre ++ [{ addr := x.addr, size := nb, cin := true, pin := x.pin, pfoot := x.pfoot }] ++
      { addr := x.addr + nb, size := 0, cin := false, pin := true, pfoot := 0 } :: y :: post) (x.addr + nb) =
      some { addr := x.addr + nb, size := 0, cin := false, pin := true, pfoot := 0 } := by
    rw [ra_findEnt_pre (by
      intro q hq
      rcases List.mem_append.1 hq with hq | hq
      · have := o1 q hq; omega
      · simp only [List.mem_singleton] at hq; subst hq; simp only; omega)]
    exact findEnt_head
  have r2 := ra_set_inuse_w e2
    (pre := pre ++ [{ addr := x.addr, size := nb, cin := true, pin := x.pin, pfoot := x.pfoot }])
    (ms := [{ addr := x.addr + nb, size := 0, cin := false, pin := true, pfoot := 0 }]) (post := y :: post)
    (by simp)
    (by
      intro q hq
      rcases List.mem_append.1 hq with hq | hq
      · have := o1 q hq; omega
      · simp only [List.mem_singleton] at hq; subst hq; simp only; omega)
    (by intro q hq; simp only [List.mem_singleton] at hq; subst hq; simp only; omega)
    (by
      intro q hq
      cases hq with
      | head => omega
      | tail _ hq => have := o5 q hq; omega)
  dsimp only at r2
  rw [ra_pinAt_some hfs, pfootAt_some hfs] at r2
  rw [show x.addr + nb + rs = y.addr by omega] at r2
  rw [orPin_at (pre := pre ++ [{ addr := x.addr, size := nb, cin := true, pin := x.pin, pfoot := x.pfoot },
      { addr := x.addr + nb, size := rs, cin := true, pin := true, pfoot := 0 }]) (x := y) (post := post) (by simp)
    (by
      intro q hq
      simp only [List.mem_append, List.mem_cons, List.not_mem_nil, or_false] at hq
      rcases hq with hq | hq | hq
      · have := o1 q hq; omega
      · subst hq; simp only; omega
      · subst hq; simp only; omega)] at r2
  rw [r2]
  simp

/-- the same two headers written in the order `memalign` uses for the leader: the second header first
(strictly inside `x`, on a word that holds no header: PINUSE reads as clear), then the first one, whose
`orPin` sets the PINUSE bit of the second -/
theorem ra_set_inuse_pair_rev {h h1 h2 : Heap} {pre post : List Ent} {x y : Ent} {nb rs : Nat}
    (e1 : set_inuse h (x.addr + nb) rs = .ok h1) (e2 : set_inuse h1 x.addr nb = .ok h2)
    (hes : h.ents = pre ++ x :: y :: post) (hok : entsOk h.ents = true)
    (hnb : 0 < nb) (hrs : 0 < rs) (hsz : x.size = nb + rs) (hya : y.addr = x.addr + x.size) :
    h2 = { h with ents := pre ++ [{ addr := x.addr, size := nb, cin := true, pin := x.pin, pfoot := x.pfoot },
      { addr := x.addr + nb, size := rs, cin := true, pin := true, pfoot := 0 }, { y with pin := true }] ++ post } := by
  have hok2 : entsOk (pre ++ x :: y :: post) = true := by rw [hes] at hok; exact hok
  obtain ⟨o1, o2, o3, o4, o5⟩ := entsOk_mid2 hok2
  have hxm : x ∈ h.ents := by rw [hes]; simp
  have hfn : findEnt h.ents (x.addr + nb) = none :=
    findEnt_none (entsOk_no_inside hok hxm (by omega) (by omega))
  -- first call: the second header, strictly inside `x`; `orPin` on `y`
  have r1 := ra_set_inuse_w e1 (pre := pre ++ [x]) (ms := []) (post := y :: post) (by rw [hes]; simp)
    (by
      intro q hq
      rcases List.mem_append.1 hq with hq | hq
      · have := o1 q hq; omega
      · simp only [List.mem_singleton] at hq; subst hq; omega)
    (by simp)
    (by
      intro q hq
      cases hq with
      | head => omega
      | tail _ hq => have := o5 q hq; omega)
  rw [ra_pinAt_none hfn, pfootAt_none hfn] at r1
  rw [show x.addr + nb + rs = y.addr by omega] at r1
  rw [orPin_at (pre := pre ++ [x, { addr := x.addr + nb, size := rs, cin := true, pin := false, pfoot := 0 }])
    (x := y) (post := post) (by simp)
    (by
      intro q hq
      simp only [List.mem_append, List.mem_cons, List.not_mem_nil, or_false] at hq
      rcases hq with hq | hq | hq
      · have := o1 q hq; omega
      · subst hq; omega
      · subst hq; simp only; omega)] at r1
  subst r1
  -- second call: the first header over `x`; `orPin` on the second header
  have hfx : findEnt (pre ++ [x, { addr := x.addr + nb, size := rs, cin := true, pin := false, pfoot := 0 }] ++
      { y with pin := true } :: post) x.addr = some x := by
    rw [List.append_assoc, ra_findEnt_pre (fun q hq => (o1 q hq).2)]
    exact findEnt_head
  have r2 := ra_set_inuse_w e2 (pre := pre) (ms := [x])
    (post := { addr := x.addr + nb, size := rs, cin := true, pin := false, pfoot := 0 } :: { y with pin := true } :: post)
    (by simp)
    (by intro q hq; exact (o1 q hq).2)
    (by intro q hq; simp only [List.mem_singleton] at hq; subst hq; omega)
    (by
      intro q hq
      simp only [List.mem_cons] at hq
      rcases hq with hq | hq | hq
      · subst hq; simp only; omega
      · subst hq; simp only; omega
      · have := o5 q hq; omega)
  dsimp only at r2
  rw [ra_pinAt_some hfx, pfootAt_some hfx] at r2
  have r3 := orPin_at (h := { h with ents := pre ++ { addr := x.addr, size := nb, cin := true, pin := x.pin, pfoot := x.pfoot } ::
      { addr := x.addr + nb, size := rs, cin := true, pin := false, pfoot := 0 } :: { y with pin := true } :: post })
    (pre := pre ++ [{ addr := x.addr, size := nb, cin := true, pin := x.pin, pfoot := x.pfoot }])
    (x := { addr := x.addr + nb, size := rs, cin := true, pin := false, pfoot := 0 }) (post := { y with pin := true } :: post)
    (by simp)
    (by
      intro q hq
      simp only [List.mem_append, List.mem_cons, List.not_mem_nil, or_false] at hq
      rcases hq with hq | hq
      · have := o1 q hq; simp only; omega
      · subst hq; simp only; omega)
  dsimp only at r3
  rw [r3] at r2
  rw [r2]
  simp

/-! ## B. a user chunk in the table; states that differ in ghost fields only -/

/-- what `User s p z` says about the table: the header `e` at `p`, in use, no fencepost, no record, and
the header `y` right after it (whose PINUSE bit is set) -/
structure ra_UserAt (s : St) (p z : Nat) (pre post : List Ent) (e y : Ent) (g : Seg) : Prop where
  hes : s.h.ents = pre ++ e :: y :: post
  ea : e.addr = p
  es : e.size = z
  ec : e.cin = true
  er : isRecord s.segs e = false
  z8 : z ≠ 8
  p16 : p % 16 = 0
  z16 : z % 16 = 0
  zge : 16 ≤ z
  hg : g ∈ s.segs
  ge : inSeg g e = true
  gy : inSeg g y = true
  ya : y.addr = p + z
  yp : y.pin = true

theorem ra_user_parts {s : St} (w : WFS s) {p z : Nat} (hu : User s p z) :
    ∃ pre post e y g, ra_UserAt s p z pre post e y g := by
  obtain ⟨e, he, hc, hz, h8, hr⟩ := hu
  obtain ⟨hm, ha⟩ := findEnt_some he
  obtain ⟨pre, post, hes⟩ := List.append_of_mem hm
  obtain ⟨g, hg, hge⟩ := w.struct.seg_of hm
  have hnt : isTrailerEnd e = false := by
    simp only [isTrailerEnd, hc, Bool.not_true, Bool.false_and, Bool.false_or, decide_eq_false_iff_not]
    omega
  obtain ⟨y, post', hp, hya, hgy, hl⟩ := next_entry w.struct hes hg hge hnt
  subst hp
  have hyp : y.pin = true := by
    simp only [linkOk, Bool.and_eq_true, beq_iff_eq] at hl
    rw [hl.1, hc]
  have hsh : e.addr % 16 = 0 ∧ e.size % 16 = 0 ∧ 16 ≤ e.size := by
    rcases shapeOk_mem w.shape hm with h | h
    · omega
    · exact h
  exact ⟨pre, post', e, y, g, hes, ha, hz, hc, hr, h8, by omega, by omega, by omega, hg, hge, hgy, by omega, hyp⟩

theorem ra_UserAt.mem_e {s : St} {p z : Nat} {pre post : List Ent} {e y : Ent} {g : Seg}
    (u : ra_UserAt s p z pre post e y g) : e ∈ s.h.ents := by rw [u.hes]; simp

theorem ra_UserAt.mem_y {s : St} {p z : Nat} {pre post : List Ent} {e y : Ent} {g : Seg}
    (u : ra_UserAt s p z pre post e y g) : y ∈ s.h.ents := by rw [u.hes]; simp

theorem ra_UserAt.find {s : St} (w : WFS s) {p z : Nat} {pre post : List Ent} {e y : Ent} {g : Seg}
    (u : ra_UserAt s p z pre post e y g) : findEnt s.h.ents p = some e := by
  rw [← u.ea]; exact entsOk_find e u.mem_e w.ents

/-- the user chunk is not `top` -/
theorem ra_UserAt.ne_top {s : St} (w : WFS s) {p z : Nat} {pre post : List Ent} {e y : Ent} {g : Seg}
    (u : ra_UserAt s p z pre post e y g) : p ≠ s.h.top := by
  intro heq
  obtain ⟨_, _, _, xt, _, _, _, htes, hxta, hxtf, _⟩ := w.top_parts (w.topsize_ne u.hg)
  have hxtm : xt ∈ s.h.ents := by rw [htes]; simp
  have := entsOk_addr_inj w.ents u.mem_e hxtm (by rw [u.ea, hxta, heq])
  subst this
  have := u.ec
  rw [(isFree_iff.1 hxtf).1] at this
  cases this

/-- no segment record points into the middle of a chunk -/
theorem ra_not_record_inside {s : St} (w : WFS s) (hr : RecsOk s) {x : Ent} (hx : x ∈ s.h.ents) {a : Nat}
    (h1 : x.addr < a) (h2 : a < x.addr + x.size) (e' : Ent) (he' : e'.addr = a) : isRecord s.segs e' = false := by
  cases hrec : isRecord s.segs e' with
  | false => rfl
  | true =>
    exfalso
    obtain ⟨g, hg, hga⟩ := gl_isRecord_iff.1 hrec
    obtain ⟨_, e, he, _⟩ := hr g hg (by omega)
    rw [hga, he', show a + 16 - 16 = a by omega] at he
    exact entsOk_no_inside w.ents hx h1 h2 e (findEnt_some he).1 (findEnt_some he).2

/-- no user chunk starts in the middle of a chunk -/
theorem ra_no_user_inside {s : St} (w : WFS s) {x : Ent} (hx : x ∈ s.h.ents) {a : Nat}
    (h1 : x.addr < a) (h2 : a < x.addr + x.size) : ∀ z, ¬ User s a z := by
  rintro z ⟨e, he, _⟩
  exact entsOk_no_inside w.ents hx h1 h2 e (findEnt_some he).1 (findEnt_some he).2

/-- `SInv` and `User` do not look at the ghost trace -/
theorem ra_sinv_same {s : St} (hi : SInv s) {H : Heap} (hh : SameHeap H s.h) : SInv { s with h := H } := by
  have hents : H.ents = s.h.ents := hh.1
  refine gl_sinv_of_kept hi (hi.wfs.of_same hh rfl rfl rfl) ?_ ?_
  · intro x hx hc _
    exact ⟨x, by rw [hents]; exact entsOk_find x hx hi.wfs.ents, rfl, hc⟩
  · intro y hy h8
    exact ⟨y, by rw [← hents]; exact hy, rfl, h8⟩

theorem ra_user_same {s : St} {H : Heap} (hh : H.ents = s.h.ents) (a z : Nat) :
    User { s with h := H } a z ↔ User s a z := by
  unfold User
  show (∃ e, findEnt H.ents a = some e ∧ _) ↔ _
  rw [hh]

theorem ra_sameHeap_tag (h : Heap) (t : String) : SameHeap (h.tag t) h := ⟨rfl, rfl, rfl, rfl, rfl, rfl, rfl⟩

/-- `HeapIs` names the fields of the heap itself -/
theorem ra_heapIs_self (h : Heap) : HeapIs h h.ents h.sbins h.tbins h.dv h.dvsize h.top h.topsize :=
  ⟨rfl, rfl, rfl, rfl, rfl, rfl, rfl⟩

/-! ## C. window replacement among in-use headers; the split -/

theorem ra_freeSet_nil {l : List Ent} (h : ∀ e ∈ l, e.cin = true) : freeSet l = [] := by
  apply List.eq_nil_iff_forall_not_mem.2
  intro a ha
  obtain ⟨e, he, hf, _⟩ := mem_freeSet.1 ha
  have := h e he
  rw [(isFree_iff.1 hf).1] at this
  cases this

/-- headers outside the window are found unchanged in the new table -/
theorem ra_find_outer {pre mid mid' post : List Ent} (hok' : entsOk (pre ++ mid' ++ post) = true) {x : Ent}
    (hx : x ∈ pre ++ mid ++ post) (hn : x ∉ mid) : findEnt (pre ++ mid' ++ post) x.addr = some x := by
  refine entsOk_find x ?_ hok'
  simp only [List.mem_append] at hx ⊢
  rcases hx with (h | h) | h
  · exact Or.inl (Or.inl h)
  · exact absurd h hn
  · exact Or.inr h

/-- a header of the new table outside the new window is a header of the old table -/
theorem ra_mem_outer {pre mid mid' post : List Ent} {x : Ent} (hx : x ∈ pre ++ mid' ++ post) (hn : x ∉ mid') :
    x ∈ pre ++ mid ++ post := by
  simp only [List.mem_append] at hx ⊢
  rcases hx with (h | h) | h
  · exact Or.inl (Or.inl h)
  · exact absurd h hn
  · exact Or.inr h

theorem ra_fencesOld_window {pre mid mid' post : List Ent}
    (h8 : ∀ e ∈ mid', e.size = 8 → ∃ e0 ∈ mid, e0.addr = e.addr ∧ e0.size = 8) :
    FencesOld (pre ++ mid ++ post) (pre ++ mid' ++ post) := by
  intro y' hy' hy8
  by_cases hm : y' ∈ mid'
  · obtain ⟨e0, he0, h1, h2⟩ := h8 y' hm hy8
    exact ⟨e0, by simp [he0], h1, h2⟩
  · exact ⟨y', ra_mem_outer hy' hm, rfl, hy8⟩

/-- **window replacement among in-use headers**: old and new window consist of in-use headers, nothing
else of the heap changes -/
theorem ra_wfs_inuse_window {s : St} (w : WFS s) {H : Heap} {pre mid mid' post : List Ent}
    (hes : s.h.ents = pre ++ mid ++ post)
    (hH : HeapIs H (pre ++ mid' ++ post) s.h.sbins s.h.tbins s.h.dv s.h.dvsize s.h.top s.h.topsize)
    (hst : StructOk (pre ++ mid' ++ post) s.segs s.h.top) (hne : s.segs ≠ [])
    (hmid : ∀ e ∈ mid, e.cin = true) (hmid' : ∀ e ∈ mid', e.cin = true) : WFS { s with h := H } := by
  have hok' : entsOk H.ents = true := by rw [hH.ents]; exact hst.ents
  have hnf : ∀ e ∈ mid, isFree e = true → False := by
    intro e he hf
    have := hmid e he
    rw [(isFree_iff.1 hf).1] at this
    cases this
  have hfl : freeList H = freeList s.h := by
    unfold freeList binned; rw [hH.top, hH.dv, hH.sbins, hH.tbins]
  refine wfs_of_parts w (by rw [hH.ents, hH.top]; exact hst) ?_ ?_ ?_ ?_ ?_
  · refine freeListOk_window hes hH.ents w.ents hok' w.freeList ?_ ?_
    · rw [hfl]; exact ((freeListOk_iff s.h).1 w.freeList).1
    · intro a
      rw [hfl, ra_freeSet_nil hmid, ra_freeSet_nil hmid']
      simp
  · exact (bins_window w hes hH.ents hok' hH.sbins hH.tbins (fun e he hf => (hnf e he hf).elim)).1
  · exact (bins_window w hes hH.ents hok' hH.sbins hH.tbins (fun e he hf => (hnf e he hf).elim)).2
  · exact dvOk_window w hes hH.ents hok' hH.dv hH.dvsize (fun e he hf => (hnf e he hf).elim)
  · exact topOk_window w hes hH.ents hok' hne hH.top hH.topsize
      (fun e he => ⟨fun hf => (hnf e he hf).elim, Or.inl (hmid e he)⟩)

/-- how the user chunks change in a split -/
def ra_SplitU (s s' : St) (p nb rs : Nat) : Prop :=
  (∀ z, ¬ User s (p + nb) z) ∧
  ∀ a z, User s' a z ↔ ((a ≠ p ∧ User s a z) ∨ (a = p ∧ z = nb) ∨ (a = p + nb ∧ z = rs))

/-- **the split**, on the final table: the user chunk `e` of `nb + rs` bytes became the two user chunks
`np` (`nb` bytes) and `nr` (`rs` bytes) -/
theorem ra_split_core {s : St} (hi : SInv s) {p nb rs : Nat} {pre post : List Ent} {e y : Ent} {g : Seg}
    (u : ra_UserAt s p (nb + rs) pre post e y g)
    (hnb16 : nb % 16 = 0) (hnb : 16 ≤ nb) (hrs16 : rs % 16 = 0) (hrs : 16 ≤ rs) {H : Heap}
    (hH : HeapIs H (pre ++ [{ addr := p, size := nb, cin := true, pin := e.pin, pfoot := e.pfoot },
      { addr := p + nb, size := rs, cin := true, pin := true, pfoot := 0 }, { y with pin := true }] ++ post)
      s.h.sbins s.h.tbins s.h.dv s.h.dvsize s.h.top s.h.topsize) :
    SInv { s with h := H } ∧ ra_SplitU s { s with h := H } p nb rs := by
  have w := hi.wfs
  have hu : User s p (nb + rs) := ⟨e, u.find w, u.ec, u.es, u.z8, u.er⟩
  have hem := u.mem_e
  have hea := u.ea
  have hesz := u.es
  have hes : s.h.ents = pre ++ [e] ++ (y :: post) := by rw [u.hes]; simp
  generalize hnp : ({ addr := p, size := nb, cin := true, pin := e.pin, pfoot := e.pfoot } : Ent) = np at hH
  generalize hnr : ({ addr := p + nb, size := rs, cin := true, pin := true, pfoot := 0 } : Ent) = nr at hH
  have np1 : np.addr = p := by rw [← hnp]
  have np2 : np.size = nb := by rw [← hnp]
  have np3 : np.cin = true := by rw [← hnp]
  have np4 : np.pin = e.pin := by rw [← hnp]
  have np5 : np.pfoot = e.pfoot := by rw [← hnp]
  have nr1 : nr.addr = p + nb := by rw [← hnr]
  have nr2 : nr.size = rs := by rw [← hnr]
  have nr3 : nr.cin = true := by rw [← hnr]
  have nr4 : nr.pin = true := by rw [← hnr]
  have hH' : HeapIs H (pre ++ [np, nr] ++ (y :: post)) s.h.sbins s.h.tbins s.h.dv s.h.dvsize s.h.top s.h.topsize := by
    rw [ra_pin_true_eq u.yp] at hH
    obtain ⟨h1, h2, h3, h4, h5, h6, h7⟩ := hH
    exact ⟨by rw [h1]; simp, h2, h3, h4, h5, h6, h7⟩
  clear hH
  have hst0 : StructOk (pre ++ (e :: []) ++ (y :: post)) s.segs s.h.top := by
    have := w.struct; rw [hes] at this; exact this
  have hst : StructOk (pre ++ (np :: [nr]) ++ (y :: post)) s.segs s.h.top :=
    struct_window hst0 w.segsDisjoint u.hg
      (by intro x hx; simp only [List.mem_singleton] at hx; subst hx; exact u.ge)
      (by simp only [contig, Bool.and_eq_true, decide_eq_true_eq, Bool.and_true]; omega)
      (by simp only [endE, lastE]; omega)
      (by
        have := u.p16
        simp only [shapeOk, List.all_cons, List.all_nil, Bool.and_true, Bool.and_eq_true, Bool.or_eq_true,
          decide_eq_true_eq]
        exact ⟨Or.inr ⟨⟨by omega, by omega⟩, by omega⟩, Or.inr ⟨⟨by omega, by omega⟩, by omega⟩⟩)
      (by
        intro h
        have h8 := u.z8
        simp only [lastE, isTrailerEnd, u.ec, Bool.not_true, Bool.false_and, Bool.false_or] at h
        have := of_decide_eq_true h
        omega)
      (fun _ _ => Iff.rfl)
      ⟨np4, fun _ => ⟨by rw [np3, u.ec], np5⟩⟩
      ⟨by simp only [lastE]; rw [nr3, u.ec], fun hf => by simp [lastE, isFree, nr3] at hf⟩
      (by simp [tagsFrom, linkOk, isFree, np3, nr4])
  have hne : s.segs ≠ [] := fun h => by have := u.hg; rw [h] at this; cases this
  have w' : WFS { s with h := H } := ra_wfs_inuse_window w hes hH' hst hne
    (by intro x hx; simp only [List.mem_singleton] at hx; subst hx; exact u.ec)
    (by
      intro x hx
      simp only [List.mem_cons, List.not_mem_nil, or_false] at hx
      rcases hx with rfl | rfl
      · exact np3
      · exact nr3)
  have hok' : entsOk (pre ++ [np, nr] ++ (y :: post)) = true := hst.ents
  have hfnp : findEnt H.ents p = some np := by
    rw [hH'.ents, ← np1]; exact entsOk_find np (by simp) hok'
  have hfnr : findEnt H.ents (p + nb) = some nr := by
    rw [hH'.ents, ← nr1]; exact entsOk_find nr (by simp) hok'
  -- in-use headers other than `e` are kept
  have hkept : ∀ x ∈ s.h.ents, x.cin = true → x.addr ≠ p →
      ∃ x', findEnt H.ents x.addr = some x' ∧ x'.size = x.size ∧ x'.cin = true := by
    intro x hx hc hne
    refine ⟨x, ?_, rfl, hc⟩
    rw [hH'.ents]
    rw [hes] at hx
    refine ra_find_outer hok' hx ?_
    intro hm
    simp only [List.mem_singleton] at hm
    subst hm
    exact hne hea
  have hcin : ∀ a, a ∈ cinSet H.ents → a = p ∨ a = p + nb ∨ a ∈ cinSet s.h.ents := by
    intro a ha
    obtain ⟨x, hx, hc, hxa⟩ := mem_cinSet.1 ha
    rw [hH'.ents] at hx
    by_cases hm : x ∈ [np, nr]
    · simp only [List.mem_cons, List.not_mem_nil, or_false] at hm
      rcases hm with rfl | rfl
      · exact Or.inl (by omega)
      · exact Or.inr (Or.inl (by omega))
    · refine Or.inr (Or.inr (mem_cinSet.2 ⟨x, ?_, hc, hxa⟩))
      rw [hes]; exact ra_mem_outer hx hm
  have hk : NonUserKept s H.ents := gl_nonUserKept_except (gl_user_except w.ents hu) hkept
  have hfo : FencesOld s.h.ents H.ents := by
    rw [hes, hH'.ents]
    refine ra_fencesOld_window ?_
    intro x hx h8
    simp only [List.mem_cons, List.not_mem_nil, or_false] at hx
    rcases hx with rfl | rfl <;> omega
  have hins : ∀ z, ¬ User s (p + nb) z := ra_no_user_inside w hem (by omega) (by omega)
  refine ⟨gl_sinv_of_kept hi w' hk hfo, hins, ?_⟩
  intro a z
  by_cases hap : a = p
  · subst hap
    have h1 : User { s with h := H } a z ↔ z = np.size :=
      gl_user_at (s := { s with h := H }) hfnp np3 (by omega)
        (by rw [gl_isRecord_addr (e := e) (by omega)]; exact u.er)
    rw [h1, np2]
    constructor
    · intro h; exact Or.inr (Or.inl ⟨rfl, h⟩)
    · rintro (⟨h, _⟩ | ⟨_, h⟩ | ⟨h, _⟩)
      · exact absurd rfl h
      · exact h
      · omega
  · by_cases har : a = p + nb
    · subst har
      have h1 : User { s with h := H } (p + nb) z ↔ z = nr.size :=
        gl_user_at (s := { s with h := H }) hfnr nr3 (by omega)
          (ra_not_record_inside w hi.recs hem (by omega) (by omega) nr nr1)
      rw [h1, nr2]
      constructor
      · intro h; exact Or.inr (Or.inr ⟨rfl, h⟩)
      · rintro (⟨_, h⟩ | ⟨h, _⟩ | ⟨_, h⟩)
        · exact absurd h (hins z)
        · omega
        · exact h
    · have h1 : User { s with h := H } a z ↔ User s a z := by
        refine gl_user_frame w.ents ?_ ?_
        · intro h
          rcases hcin a h with h | h | h
          · exact absurd h hap
          · exact absurd h har
          · exact h
        · intro x hx hxa hc
          obtain ⟨x', h1, h2, h3⟩ := hkept x hx hc (by omega)
          exact ⟨x', hxa ▸ h1, h2, h3⟩
      rw [h1]
      constructor
      · intro h; exact Or.inl ⟨hap, h⟩
      · rintro (⟨_, h⟩ | ⟨h, _⟩ | ⟨h, _⟩)
        · exact h
        · exact absurd h hap
        · exact absurd h har

/-- **`split_inuse_Spec`**, with the additional fact that no user chunk started at `p + nb` before -/
theorem ra_split_inuse {s : St} (hi : SInv s) {p nb rsize : Nat} {h1 h2 : Heap} (hu : User s p (nb + rsize))
    (hnb16 : nb % 16 = 0) (hnb : 16 ≤ nb) (hrs16 : rsize % 16 = 0) (hrs : 16 ≤ rsize)
    (e1 : set_inuse s.h p nb = .ok h1) (e2 : set_inuse h1 (p + nb) rsize = .ok h2) :
    SInv { s with h := h2 } ∧ ra_SplitU s { s with h := h2 } p nb rsize := by
  obtain ⟨pre, post, e, y, g, u⟩ := ra_user_parts hi.wfs hu
  have hea := u.ea
  subst hea
  have r := ra_set_inuse_pair e1 e2 u.hes hi.wfs.ents (by omega) (by omega) u.es (by rw [u.ya, u.es])
  exact ra_split_core hi u hnb16 hnb hrs16 hrs (by rw [r]; exact ⟨rfl, rfl, rfl, rfl, rfl, rfl, rfl⟩)

theorem ra_split_inuse_spec : split_inuse_Spec := by
  intro s hi p nb rsize h1 h2 hu hnb16 hnb hrs16 hrs e1 e2
  obtain ⟨r1, _, r2⟩ := ra_split_inuse hi hu hnb16 (by omega) hrs16 (by omega) e1 e2
  exact ⟨r1, r2⟩

/-! ## D. growing in place: the neighbours of a user chunk -/

/-- the header after a user chunk is `top`: then the foot word follows -/
theorem ra_next_top {s : St} (w : WFS s) {p z : Nat} {pre post : List Ent} {e y : Ent} {g : Seg}
    (u : ra_UserAt s p z pre post e y g) (ht : p + z = s.h.top) :
    ∃ f post' rest, post = f :: post' ∧ s.segs = g :: rest ∧ isFree y = true ∧ y.size = s.h.topsize ∧
      f.addr = s.h.top + s.h.topsize ∧ f.cin = false ∧ f.pin = false ∧ f.size = 80 ∧ inSeg g f = true ∧
      g.base ≤ s.h.top ∧ s.h.top + s.h.topsize + 80 = g.base + g.size ∧ s.h.top ≠ 0 ∧ 0 < s.h.topsize := by
  obtain ⟨g0, rest, tpre, xt, ft, tpost, hsegs, htes, hxta, hxtf, hxts, hfta, hftc, hftp, hfts, hgb, hge, ht0, hgx, hgf⟩ :=
    w.top_parts (w.topsize_ne u.hg)
  have hxtm : xt ∈ s.h.ents := by rw [htes]; simp
  have hftm : ft ∈ s.h.ents := by rw [htes]; simp
  have hyx : y = xt := entsOk_addr_inj w.ents u.mem_y hxtm (by rw [u.ya, hxta, ht])
  subst hyx
  have hg0 : g0 ∈ s.segs := by rw [hsegs]; exact List.mem_cons_self
  have hgg : g0 = g := gl_seg_unique w.segsDisjoint hg0 u.hg hgx u.gy rfl
  subst hgg
  have hes' : s.h.ents = (pre ++ [e]) ++ y :: post := by rw [u.hes]; simp
  obtain ⟨f, post', hp, hfa, hgf', _⟩ := next_entry w.struct hes' u.hg u.gy (isTrailerEnd_free w.shape hxtm hxtf)
  have hfm : f ∈ s.h.ents := by rw [hes', hp]; simp
  have hff : f = ft := entsOk_addr_inj w.ents hfm hftm (by rw [hfa, hfta, hxta, hxts])
  subst hff
  have := w.topsize_ne u.hg
  exact ⟨f, post', rest, hp, hsegs, hxtf, hxts, hfta, hftc, hftp, hfts, hgf, hgb, hge, ht0, by omega⟩

/-- the header after a user chunk is a free chunk other than `top`: then an in-use header follows -/
theorem ra_next_free {s : St} (w : WFS s) {p z : Nat} {pre post : List Ent} {e y : Ent} {g : Seg}
    (u : ra_UserAt s p z pre post e y g) (hf : isFree y = true) (hnt : y.addr ≠ s.h.top) :
    ∃ c post', post = c :: post' ∧ c.addr = y.addr + y.size ∧ inSeg g c = true ∧ c.cin = true ∧ c.pin = false ∧
      c.pfoot = y.size := by
  have hes' : s.h.ents = (pre ++ [e]) ++ y :: post := by rw [u.hes]; simp
  obtain ⟨c, post', hp, hca, hgc, hl⟩ := next_entry w.struct hes' u.hg u.gy (isTrailerEnd_free w.shape u.mem_y hf)
  obtain ⟨l1, l2, l3⟩ := linkOk_free hl hf hnt
  exact ⟨c, post', hp, hca, hgc, l1, l2, l3⟩

/-- `ResizeAtTab` for a window replacement -/
theorem ra_resizeAtTab_window {pre mid mid' post : List Ent} {p sz : Nat}
    (hok' : entsOk (pre ++ mid' ++ post) = true)
    (hcin : ∀ x ∈ mid', x.cin = true → x.addr = p ∨ ∃ x0 ∈ mid, x0.cin = true ∧ x0.addr = x.addr)
    (hhere : ∃ e' ∈ mid', e'.addr = p ∧ e'.cin = true ∧ e'.size = sz)
    (hkept : ∀ x ∈ mid, x.cin = true → x.addr ≠ p → ∃ x' ∈ mid', x'.addr = x.addr ∧ x'.size = x.size ∧ x'.cin = true) :
    ResizeAtTab (pre ++ mid ++ post) (pre ++ mid' ++ post) p sz := by
  refine ⟨?_, ?_, ?_⟩
  · intro a ha
    obtain ⟨x, hx, hc, hxa⟩ := mem_cinSet.1 ha
    by_cases hm : x ∈ mid'
    · rcases hcin x hm hc with h | ⟨x0, hx0, hc0, ha0⟩
      · exact Or.inl (by omega)
      · exact Or.inr (mem_cinSet.2 ⟨x0, by simp [hx0], hc0, by omega⟩)
    · exact Or.inr (mem_cinSet.2 ⟨x, ra_mem_outer hx hm, hc, hxa⟩)
  · obtain ⟨e', he', h1, h2, h3⟩ := hhere
    exact ⟨e', h1 ▸ entsOk_find e' (by simp [he']) hok', h2, h3⟩
  · intro x hx hc hne
    by_cases hm : x ∈ mid
    · obtain ⟨x', hx', h1, h2, h3⟩ := hkept x hm hc hne
      exact ⟨x', h1 ▸ entsOk_find x' (by simp [hx']) hok', h2, h3⟩
    · exact ⟨x, ra_find_outer hok' hx hm, rfl, hc⟩

/-- `Resized` with the new size named -/
def ra_ResizedTo (s s' : St) (p sz : Nat) : Prop :=
  ∀ a z, User s' a z ↔ ((a ≠ p ∧ User s a z) ∨ (a = p ∧ z = sz))

theorem ra_ResizedTo.resized {s s' : St} {p sz nb : Nat} (h : ra_ResizedTo s s' p sz) (hle : nb ≤ sz) :
    Resized s s' p nb := ⟨sz, hle, h⟩

/-- `SInv` and the exact user delta from `WFS` of the new state and a `ResizeAtTab` -/
theorem ra_sinv_resizeTo {s : St} (hi : SInv s) {H : Heap} (w' : WFS { s with h := H }) {p z sz : Nat}
    (hu : User s p z) (hf : ResizeAtTab s.h.ents H.ents p sz) (hsz : sz ≠ 8) :
    SInv { s with h := H } ∧ ra_ResizedTo s { s with h := H } p sz := by
  obtain ⟨r1, sz', _, r2⟩ := gl_sinv_resizeAtTab hi w' hu hf (Nat.le_refl sz) hsz
  refine ⟨r1, ?_⟩
  obtain ⟨e', he', hc', hs'⟩ := hf.here
  have hup : User { s with h := H } p sz :=
    ⟨e', he', hc', hs', hsz, gl_user_not_record hu e' (findEnt_some he').2⟩
  have : sz = sz' := by
    rcases (r2 p sz).1 hup with ⟨h, _⟩ | ⟨_, h⟩
    · exact absurd rfl h
    · exact h
  subst this
  exact r2

/-! ## E. `realloc-into-top` -/

/-- the final table of `realloc-into-top`: `[e, x, f]` (user chunk, `top`, foot word) became
`[np, nt, f]` (the grown chunk, the new `top`, the same foot word) -/
theorem ra_into_top_core {s : St} (hi : SInv s) {p nb z : Nat} {pre post : List Ent} {e x f : Ent} {g : Seg}
    {rest : List Seg} (u : ra_UserAt s p z pre (f :: post) e x g) (hsegs : s.segs = g :: rest)
    (hnb16 : nb % 16 = 0) (hlt : z < nb) (hfit : nb < z + s.h.topsize) (ht : p + z = s.h.top)
    (hxf : isFree x = true) (hxs : x.size = s.h.topsize)
    (hfa : f.addr = s.h.top + s.h.topsize) (hfc : f.cin = false) (hfp : f.pin = false) (hgf : inSeg g f = true)
    (hgb : g.base ≤ s.h.top) (hge : s.h.top + s.h.topsize + 80 = g.base + g.size) (ht0 : s.h.top ≠ 0)
    {H : Heap} {np nt : Ent}
    (hH : HeapIs H (pre ++ [np, nt, f] ++ post) s.h.sbins s.h.tbins s.h.dv s.h.dvsize (p + nb) (z + s.h.topsize - nb))
    (np1 : np.addr = p) (np2 : np.size = nb) (np3 : np.cin = true) (np4 : np.pin = e.pin) (np5 : np.pfoot = e.pfoot)
    (nt1 : nt.addr = p + nb) (nt2 : nt.size = z + s.h.topsize - nb) (nt3 : nt.cin = false) (nt4 : nt.pin = true) :
    SInv { s with h := H } ∧ ra_ResizedTo s { s with h := H } p nb := by
  have w := hi.wfs
  have hu : User s p z := ⟨e, u.find w, u.ec, u.es, u.z8, u.er⟩
  have hem := u.mem_e
  have hxm := u.mem_y
  have hea := u.ea
  have hesz := u.es
  have hxa := u.ya
  have hp16 := u.p16
  have hz16 := u.z16
  have hes : s.h.ents = pre ++ [e, x, f] ++ post := by rw [u.hes]; simp
  have hfm : f ∈ s.h.ents := by rw [hes]; simp
  obtain ⟨hxc, hxp⟩ := isFree_iff.1 hxf
  obtain ⟨hx16, hxs16, _⟩ := shapeOk_free w.shape hxm hxc
  obtain ⟨hf16, hfs16, hfs⟩ := shapeOk_free w.shape hfm hfc
  have hffree : isFree f = false := by simp [isFree, hfp]
  have hefree : isFree e = false := by simp [isFree, u.ec]
  have hst0 : StructOk (pre ++ (e :: [x, f]) ++ post) s.segs s.h.top := by
    have := w.struct; rw [hes] at this; exact this
  have hok := w.ents
  rw [hes] at hok
  obtain ⟨b1, b2⟩ := entsOk_window_bounds hok
  simp only [endE, lastE] at b2
  have hinside : ∀ q ∈ s.h.ents, q.addr ≠ p + nb :=
    entsOk_no_inside w.ents hxm (a := p + nb) (by omega) (by omega)
  have hg : g ∈ s.segs := u.hg
  have hst : StructOk (pre ++ (np :: [nt, f]) ++ post) s.segs (p + nb) :=
    struct_window hst0 w.segsDisjoint hg
      (by
        intro q hq
        simp only [List.mem_cons, List.not_mem_nil, or_false] at hq
        rcases hq with rfl | rfl | rfl
        · exact u.ge
        · exact u.gy
        · exact hgf)
      (by simp only [contig, Bool.and_eq_true, decide_eq_true_eq, Bool.and_true]; omega)
      (by simp only [endE, lastE])
      (by
        simp only [shapeOk, List.all_cons, List.all_nil, Bool.and_true, Bool.and_eq_true, Bool.or_eq_true,
          decide_eq_true_eq]
        exact ⟨Or.inr ⟨⟨by omega, by omega⟩, by omega⟩, Or.inr ⟨⟨by omega, by omega⟩, by omega⟩,
          Or.inr ⟨⟨by omega, by omega⟩, by omega⟩⟩)
      id
      (by
        intro q hq
        rcases List.mem_append.1 hq with hq | hq
        · have := b1 q hq
          have := entsOk_pos w.ents q (by rw [hes]; simp [hq])
          constructor <;> intro h <;> omega
        · have := b2 q hq
          constructor <;> intro h <;> omega)
      ⟨np4, fun _ => ⟨by rw [np3, u.ec], np5⟩⟩
      ⟨rfl, fun hf => by simp [lastE, hffree] at hf⟩
      (by simp [tagsFrom, linkOk, isFree, np3, nt1, nt3, nt4, hfc, hfp])
  have hok' : entsOk H.ents = true := by rw [hH.ents]; exact hst.ents
  have hfreemid : ∀ q ∈ [e, x, f], isFree q = true → q.addr = s.h.top ∨ q.addr = s.h.dv := by
    intro q hq hf
    simp only [List.mem_cons, List.not_mem_nil, or_false] at hq
    rcases hq with rfl | rfl | rfl
    · rw [hefree] at hf; cases hf
    · exact Or.inl (by omega)
    · rw [hffree] at hf; cases hf
  have hfnt : findEnt H.ents (p + nb) = some nt := by
    rw [hH.ents, ← nt1]; exact entsOk_find nt (by simp) hst.ents
  have hff : findEnt H.ents (s.h.top + s.h.topsize) = some f := by
    rw [hH.ents, ← hfa]; exact entsOk_find f (by simp) hst.ents
  have fs1 : freeSet [e, x, f] = [s.h.top] := by
    simp [freeSet, List.filter, hxf, hffree, hefree]; omega
  have fs2 : freeSet [np, nt, f] = [p + nb] := by
    simp [freeSet, List.filter, isFree, np3, nt3, nt4, hfp, nt1]
  have w' : WFS { s with h := H } := by
    refine wfs_of_parts w (by rw [hH.ents, hH.top]; exact hst) ?_ ?_ ?_ ?_ ?_
    · refine freeListOk_replace w hes hH.ents hok' (A := [])
        (B := (if s.h.dv = 0 then [] else [s.h.dv]) ++ binned s.h) ?_ ?_ (by rw [fs2]; simp) ?_
      · rw [fs1]; exact freeList_top ht0
      · rw [fs2, freeList_top (by rw [hH.top]; omega), hH.top, hH.dv, binned_congr hH.sbins hH.tbins]
      · intro a ha
        rw [fs2, List.mem_singleton] at ha
        subst ha
        have := w.not_listed hinside
        rw [freeList_top ht0] at this
        exact not_mem_mid this
    · exact (bins_window w hes hH.ents hok' hH.sbins hH.tbins hfreemid).1
    · exact (bins_window w hes hH.ents hok' hH.sbins hH.tbins hfreemid).2
    · refine dvOk_window w hes hH.ents hok' hH.dv hH.dvsize ?_
      intro q hq hf
      simp only [List.mem_cons, List.not_mem_nil, or_false] at hq
      rcases hq with rfl | rfl | rfl
      · rw [hefree] at hf; cases hf
      · rw [hxa, ht]; exact fun h => w.dv_ne_top ht0 h.symm
      · rw [hffree] at hf; cases hf
    · have htop := w.top
      unfold topOk at htop ⊢
      simp only [hsegs] at htop ⊢
      rw [hH.top, hH.topsize, hfnt, show p + nb + (z + s.h.topsize - nb) = s.h.top + s.h.topsize by omega, hff]
      simp only [Bool.and_eq_true, decide_eq_true_eq, Bool.not_eq_true'] at htop ⊢
      obtain ⟨⟨⟨⟨⟨⟨t1, t2⟩, t3⟩, t4⟩, t5⟩, t6⟩, t7⟩ := htop
      rw [top_foot_size_eq] at t4 ⊢
      refine ⟨⟨⟨⟨⟨⟨by omega, by omega⟩, by omega⟩, by omega⟩, t5⟩, ?_, nt2⟩, ⟨hfc, hfp⟩, ?_⟩
      · simp [isFree, nt3, nt4]
      · have : findEnt s.h.ents (s.h.top + s.h.topsize) = some f := by rw [← hfa]; exact entsOk_find f hfm w.ents
        rw [this] at t7
        simp only [Bool.and_eq_true, decide_eq_true_eq, Bool.not_eq_true'] at t7
        exact t7.2
  have hrt : ResizeAtTab s.h.ents H.ents p nb := by
    rw [hes, hH.ents]
    refine ra_resizeAtTab_window hst.ents ?_ ⟨np, by simp, np1, np3, np2⟩ ?_
    · intro q hq hc
      simp only [List.mem_cons, List.not_mem_nil, or_false] at hq
      rcases hq with rfl | rfl | rfl
      · exact Or.inl np1
      · rw [nt3] at hc; cases hc
      · rw [hfc] at hc; cases hc
    · intro q hq hc hne
      simp only [List.mem_cons, List.not_mem_nil, or_false] at hq
      rcases hq with rfl | rfl | rfl
      · exact absurd hea hne
      · rw [hxc] at hc; cases hc
      · rw [hfc] at hc; cases hc
  exact ra_sinv_resizeTo hi w' hu hrt (by omega)

/-- the heap operations of `realloc-into-top` -/
theorem ra_into_top {s : St} (hi : SInv s) {p nb z : Nat} (hu : User s p z) (hnb16 : nb % 16 = 0)
    (hlt : z < nb) (hfit : nb < z + s.h.topsize) (ht : p + z = s.h.top) {h1 h2 H : Heap}
    (e1 : set_inuse s.h p nb = .ok h1) (e2 : writeHead h1 (p + nb) (z + s.h.topsize - nb) false true = .ok h2)
    (hH : HeapIs H h2.ents h2.sbins h2.tbins h2.dv h2.dvsize (p + nb) (z + s.h.topsize - nb)) :
    SInv { s with h := H } ∧ ra_ResizedTo s { s with h := H } p nb := by
  have w := hi.wfs
  obtain ⟨pre, post, e, x, g, u⟩ := ra_user_parts w hu
  obtain ⟨f, post', rest, hp, hsegs, hxf, hxs, hfa, hfc, hfp, hfs, hgf, hgb, hge, ht0, hts⟩ := ra_next_top w u ht
  subst hp
  have hea := u.ea
  have hxa := u.ya
  have hok := w.ents
  rw [u.hes] at hok
  have hokt := hok
  rw [show pre ++ e :: x :: f :: post' = (pre ++ [e]) ++ x :: f :: post' by simp] at hokt
  obtain ⟨o1, o2, o3, o4, o5⟩ := entsOk_mid2 hok
  obtain ⟨_, _, q3, q4, q5⟩ := entsOk_mid2 hokt
  have hfe : findEnt s.h.ents p = some e := u.find w
  -- `set_inuse p nb`: the header swallows `e` and the old `top` header; the stub at `p + nb`
  have r1 := ra_set_inuse_w e1 (pre := pre) (ms := [e, x]) (post := f :: post') (by rw [u.hes]; simp)
    (by intro q hq; have := o1 q hq; omega)
    (by
      intro q hq
      simp only [List.mem_cons, List.not_mem_nil, or_false] at hq
      rcases hq with rfl | rfl <;> omega)
    (by
      intro q hq
      cases hq with
      | head => omega
      | tail _ hq => have := q5 q hq; omega)
  rw [ra_pinAt_some hfe, pfootAt_some hfe] at r1
  rw [ra_orPin_stub (pre := pre ++ [{ addr := p, size := nb, cin := true, pin := e.pin, pfoot := e.pfoot }])
    (post := f :: post') (by simp)
    (by
      intro q hq
      rcases List.mem_append.1 hq with hq | hq
      · have := o1 q hq; omega
      · simp only [List.mem_singleton] at hq; subst hq; simp only; omega)
    (by
      intro q hq
      cases hq with
      | head => omega
      | tail _ hq => have := q5 q hq; omega)] at r1
  subst r1
  -- the new `top` header over the stub
  have hfs' : findEnt (pre ++ [{ addr := p, size := nb, cin := true, pin := e.pin, pfoot := e.pfoot }] ++
      { addr := p + nb, size := 0, cin := false, pin := true, pfoot := 0 } :: f :: post') (p + nb) =
      some { addr := p + nb, size := 0, cin := false, pin := true, pfoot := 0 } := by
    rw [ra_findEnt_pre (by
      intro q hq
      rcases List.mem_append.1 hq with hq | hq
      · have := o1 q hq; omega
      · simp only [List.mem_singleton] at hq; subst hq; simp only; omega)]
    exact findEnt_head
  have r2 := writeHead_window_ok e2
    (pre := pre ++ [{ addr := p, size := nb, cin := true, pin := e.pin, pfoot := e.pfoot }])
    (ms := [{ addr := p + nb, size := 0, cin := false, pin := true, pfoot := 0 }]) (post := f :: post')
    (by simp)
    (by
      intro q hq
      rcases List.mem_append.1 hq with hq | hq
      · have := o1 q hq; omega
      · simp only [List.mem_singleton] at hq; subst hq; simp only; omega)
    (by intro q hq; simp only [List.mem_singleton] at hq; subst hq; simp only; omega)
    (by
      intro q hq
      cases hq with
      | head => omega
      | tail _ hq => have := q5 q hq; omega)
  dsimp only at r2
  rw [pfootAt_some hfs'] at r2
  subst r2
  obtain ⟨i1, i2, i3, i4, i5, i6, i7⟩ := hH
  exact ra_into_top_core hi u hsegs hnb16 hlt hfit ht hxf hxs hfa hfc hfp hgf hgb hge ht0
    (np := { addr := p, size := nb, cin := true, pin := e.pin, pfoot := e.pfoot })
    (nt := { addr := p + nb, size := z + s.h.topsize - nb, cin := false, pin := true, pfoot := 0 })
    ⟨by rw [i1]; simp, i2, i3, i4, i5, i6, i7⟩ rfl rfl rfl rfl rfl rfl rfl rfl rfl

/-! ## F. growing into the free chunk after the user chunk (`dv` or a binned chunk) -/

/-- the bookkeeping side of taking the free chunk at `c` off the free list: `H` (of which only the fields
other than `ents` matter) lists the free chunks of `s.h` except `c` -/
structure ra_Delisted (s : St) (H : Heap) (c : Nat) : Prop where
  top : H.top = s.h.top
  topsize : H.topsize = s.h.topsize
  nd : (freeList H).Nodup
  mem : ∀ a, a ∈ freeList H ↔ (a ∈ freeList s.h ∧ a ≠ c)
  sb : (decide (H.sbins.length = 32) && sbinsFrom s.h.ents 0 H.sbins) = true
  tb : (decide (H.tbins.length = 32) && tbinsFrom s.h.ents 0 H.tbins) = true
  sub : ∀ a ∈ binned H, a ∈ binned s.h
  dv : (H.dv = s.h.dv ∧ H.dvsize = s.h.dvsize ∧ c ≠ s.h.dv) ∨ (H.dv = 0 ∧ H.dvsize = 0)

/-- `dv` given up -/
theorem ra_delisted_dv {s : St} (w : WFS s) (hd0 : s.h.dv ≠ 0) {H : Heap} (h1 : H.sbins = s.h.sbins)
    (h2 : H.tbins = s.h.tbins) (h3 : H.top = s.h.top) (h4 : H.topsize = s.h.topsize) (h5 : H.dv = 0)
    (h6 : H.dvsize = 0) : ra_Delisted s H s.h.dv := by
  have hnd0 := ((freeListOk_iff s.h).1 w.freeList).1
  rw [freeList_dv hd0] at hnd0
  have hfl : freeList H = (if s.h.top = 0 then [] else [s.h.top]) ++ ([] ++ binned s.h) := by
    rw [freeList_nodv h5, h3, binned_congr h1 h2]
  refine ⟨h3, h4, ?_, ?_, by rw [h1]; exact w.sbins, by rw [h2]; exact w.tbins, ?_, Or.inr ⟨h5, h6⟩⟩
  · rw [hfl]; exact nodup_mid_replace hnd0 (by simp) (by simp)
  · intro a
    rw [hfl, freeList_dv hd0, mem_mid_replace hnd0 a]
    simp
  · intro a ha; rw [binned_congr h1 h2] at ha; exact ha

/-- a binned chunk unlinked -/
theorem ra_delisted_unlink {s : St} (w : WFS s) {c sz : Nat} {h1 : Heap} (e : unlink_chunk s.h c sz = .ok h1)
    (hcd : c ≠ s.h.dv) {H : Heap} (i1 : H.sbins = h1.sbins) (i2 : H.tbins = h1.tbins) (i3 : H.top = h1.top)
    (i4 : H.topsize = h1.topsize) (i5 : H.dv = h1.dv) (i6 : H.dvsize = h1.dvsize) : ra_Delisted s H c := by
  have fr := unlink_chunk_frame e
  have hfl : freeList H = freeList h1 := by unfold freeList binned; rw [i1, i2, i3, i5]
  have hperm := unlink_chunk_freeList e
  have hnd0 := ((freeListOk_iff s.h).1 w.freeList).1
  have hnd1 : (c :: freeList h1).Nodup := (List.Perm.nodup_iff hperm).1 hnd0
  obtain ⟨hc1, hnd2⟩ := List.nodup_cons.1 hnd1
  have hbins := unlink_chunk_binsOk e w.sbins w.tbins
  unfold sbinsOk tbinsOk at hbins
  rw [fr.ents] at hbins
  refine ⟨i3.trans fr.top, i4.trans fr.topsize, by rw [hfl]; exact hnd2, ?_, by rw [i1]; exact hbins.1,
    by rw [i2]; exact hbins.2, ?_, Or.inl ⟨i5.trans fr.dv, i6.trans fr.dvsize, hcd⟩⟩
  · intro a
    rw [hfl, List.Perm.mem_iff hperm, List.mem_cons]
    constructor
    · intro h; exact ⟨Or.inr h, fun hac => hc1 (hac ▸ h)⟩
    · rintro ⟨h | h, hne⟩
      · exact absurd h hne
      · exact h
  · intro a ha
    rw [binned_congr i1 i2] at ha
    exact (List.Perm.mem_iff (unlink_chunk_binned e)).2 (List.mem_cons_of_mem _ ha)

/-- the window `[e, x, y]`: a user chunk, the free chunk after it (not `top`), the in-use header after that -/
structure ra_GrowAt (s : St) (p z : Nat) (pre post : List Ent) (e x y : Ent) (g : Seg) : Prop where
  u : ra_UserAt s p z pre (y :: post) e x g
  xf : isFree x = true
  xt : x.addr ≠ s.h.top
  ya : y.addr = x.addr + x.size
  gy : inSeg g y = true
  yc : y.cin = true
  yp : y.pin = false
  yf : y.pfoot = x.size

theorem ra_grow_parts {s : St} (w : WFS s) {p z : Nat} {pre post : List Ent} {e x : Ent} {g : Seg}
    (u : ra_UserAt s p z pre post e x g) (hf : isFree x = true) (hnt : x.addr ≠ s.h.top) :
    ∃ y post', post = y :: post' ∧ ra_GrowAt s p z pre post' e x y g := by
  obtain ⟨y, post', hp, h1, h2, h3, h4, h5⟩ := ra_next_free w u hf hnt
  subst hp
  exact ⟨y, post', rfl, u, hf, hnt, h1, h2, h3, h4, h5⟩

/-- **exhaust**: the user chunk swallows the whole free chunk after it, which has been taken off the
free list: `[e, x, y] ↦ [np, ny]` -/
theorem ra_merge_exhaust_core {s : St} (hi : SInv s) {p z : Nat} {pre post : List Ent} {e x y : Ent} {g : Seg}
    (ga : ra_GrowAt s p z pre post e x y g) {H : Heap} {np ny : Ent}
    (hents : H.ents = pre ++ [np, ny] ++ post) (hD : ra_Delisted s H x.addr)
    (np1 : np.addr = p) (np2 : np.size = z + x.size) (np3 : np.cin = true) (np4 : np.pin = e.pin)
    (np5 : np.pfoot = e.pfoot)
    (ny1 : ny.addr = y.addr) (ny2 : ny.size = y.size) (ny3 : ny.cin = true) (ny4 : ny.pin = true) :
    SInv { s with h := H } ∧ ra_ResizedTo s { s with h := H } p (z + x.size) := by
  have w := hi.wfs
  obtain ⟨u, hxf, hxt, hya, hgy, hyc, hyp, hyf⟩ := ga
  have hu : User s p z := ⟨e, u.find w, u.ec, u.es, u.z8, u.er⟩
  have hem := u.mem_e
  have hxm := u.mem_y
  have hea := u.ea
  have hesz := u.es
  have hxa := u.ya
  have hp16 := u.p16
  have hz16 := u.z16
  have hes : s.h.ents = pre ++ [e, x, y] ++ post := by rw [u.hes]; simp
  have hym : y ∈ s.h.ents := by rw [hes]; simp
  obtain ⟨hxc, hxp⟩ := isFree_iff.1 hxf
  obtain ⟨hx16, hxs16, hxs⟩ := shapeOk_free w.shape hxm hxc
  have hysh : y.addr % 16 = 0 ∧ y.size % 16 = 0 ∧ 16 ≤ y.size := by
    rcases shapeOk_mem w.shape hym with h | h
    · rw [hyp] at h; exact absurd h.2.2 (by decide)
    · exact h
  have hyfree : isFree y = false := by simp [isFree, hyc]
  have hefree : isFree e = false := by simp [isFree, u.ec]
  have hst0 : StructOk (pre ++ (e :: [x, y]) ++ post) s.segs s.h.top := by
    have := w.struct; rw [hes] at this; exact this
  have hg : g ∈ s.segs := u.hg
  have hst : StructOk (pre ++ (np :: [ny]) ++ post) s.segs s.h.top :=
    struct_window hst0 w.segsDisjoint hg
      (by
        intro q hq
        simp only [List.mem_cons, List.not_mem_nil, or_false] at hq
        rcases hq with rfl | rfl | rfl
        · exact u.ge
        · exact u.gy
        · exact hgy)
      (by simp only [contig, Bool.and_eq_true, decide_eq_true_eq, Bool.and_true]; omega)
      (by simp only [endE, lastE]; omega)
      (by
        simp only [shapeOk, List.all_cons, List.all_nil, Bool.and_true, Bool.and_eq_true, Bool.or_eq_true,
          decide_eq_true_eq]
        exact ⟨Or.inr ⟨⟨by omega, by omega⟩, by omega⟩, Or.inr ⟨⟨by omega, by omega⟩, by omega⟩⟩)
      (by simp only [lastE, isTrailerEnd, hyc, ny2, ny3]; exact id)
      (fun _ _ => Iff.rfl)
      ⟨np4, fun _ => ⟨by rw [np3, u.ec], np5⟩⟩
      ⟨by simp only [lastE]; rw [ny3, hyc], fun hf => by simp [lastE, isFree, ny3] at hf⟩
      (by simp [tagsFrom, linkOk, isFree, np3, ny4])
  have hok' : entsOk H.ents = true := by rw [hents]; exact hst.ents
  have hne : s.segs ≠ [] := fun h => by rw [h] at hg; cases hg
  have fs1 : freeSet [e, x, y] = [x.addr] := by simp [freeSet, List.filter, hxf, hyfree, hefree]
  have fs2 : freeSet [np, ny] = [] := by simp [freeSet, List.filter, isFree, np3, ny3]
  have hxnb : x.addr ∉ binned H := by
    intro hb
    exact ((hD.mem x.addr).1 (mem_freeList_of_binned hb)).2 rfl
  have w' : WFS { s with h := H } := by
    have hbins := bins_window' w hes hents hok' hD.sb hD.tb hD.sub (by
      intro q hq hf
      simp only [List.mem_cons, List.not_mem_nil, or_false] at hq
      rcases hq with rfl | rfl | rfl
      · rw [hefree] at hf; cases hf
      · exact Or.inr (Or.inr hxnb)
      · rw [hyfree] at hf; cases hf)
    refine wfs_of_parts w (by rw [hents, hD.top]; exact hst) ?_ hbins.1 hbins.2 ?_ ?_
    · refine freeListOk_window hes hents w.ents hok' w.freeList hD.nd ?_
      intro a
      rw [hD.mem a, fs1, fs2]
      simp
    · rcases hD.dv with ⟨d1, d2, d3⟩ | ⟨d1, d2⟩
      · refine dvOk_window w hes hents hok' d1 d2 ?_
        intro q hq hf
        simp only [List.mem_cons, List.not_mem_nil, or_false] at hq
        rcases hq with rfl | rfl | rfl
        · rw [hefree] at hf; cases hf
        · exact d3
        · rw [hyfree] at hf; cases hf
      · unfold dvOk; rw [d1, d2]; rfl
    · refine topOk_window w hes hents hok' hne hD.top hD.topsize ?_
      intro q hq
      simp only [List.mem_cons, List.not_mem_nil, or_false] at hq
      rcases hq with rfl | rfl | rfl
      · exact ⟨fun hf => (by rw [hefree] at hf; cases hf), Or.inl u.ec⟩
      · exact ⟨fun _ => hxt, Or.inr hxp⟩
      · exact ⟨fun hf => (by rw [hyfree] at hf; cases hf), Or.inl hyc⟩
  have hrt : ResizeAtTab s.h.ents H.ents p (z + x.size) := by
    rw [hes, hents]
    refine ra_resizeAtTab_window hst.ents ?_ ⟨np, by simp, np1, np3, np2⟩ ?_
    · intro q hq hc
      simp only [List.mem_cons, List.not_mem_nil, or_false] at hq
      rcases hq with rfl | rfl
      · exact Or.inl np1
      · exact Or.inr ⟨y, by simp, hyc, ny1.symm⟩
    · intro q hq hc hne
      simp only [List.mem_cons, List.not_mem_nil, or_false] at hq
      rcases hq with rfl | rfl | rfl
      · exact absurd hea hne
      · rw [hxc] at hc; cases hc
      · exact ⟨ny, by simp, ny1, ny2, ny3⟩
  exact ra_sinv_resizeTo hi w' hu hrt (by omega)

/-- **`dv` split**: the user chunk grows into `dv`, the rest of `dv` stays `dv`:
`[e, x, y] ↦ [np, nr, ny]` -/
theorem ra_dv_split_core {s : St} (hi : SInv s) {p z nb : Nat} {pre post : List Ent} {e x y : Ent} {g : Seg}
    (ga : ra_GrowAt s p z pre post e x y g) (hxd : x.addr = s.h.dv) (hxs : x.size = s.h.dvsize)
    (hd0 : s.h.dv ≠ 0)
    (hnb16 : nb % 16 = 0) (hlt : z < nb) (hfit : nb + 32 ≤ z + s.h.dvsize)
    {H : Heap} {np nr ny : Ent}
    (hH : HeapIs H (pre ++ [np, nr, ny] ++ post) s.h.sbins s.h.tbins (p + nb) (z + s.h.dvsize - nb) s.h.top s.h.topsize)
    (np1 : np.addr = p) (np2 : np.size = nb) (np3 : np.cin = true) (np4 : np.pin = e.pin) (np5 : np.pfoot = e.pfoot)
    (nr1 : nr.addr = p + nb) (nr2 : nr.size = z + s.h.dvsize - nb) (nr3 : nr.cin = false) (nr4 : nr.pin = true)
    (ny1 : ny.addr = y.addr) (ny2 : ny.size = y.size) (ny3 : ny.cin = true) (ny4 : ny.pin = false)
    (ny5 : ny.pfoot = z + s.h.dvsize - nb) :
    SInv { s with h := H } ∧ ra_ResizedTo s { s with h := H } p nb := by
  have w := hi.wfs
  obtain ⟨u, hxf, hxt, hya, hgy, hyc, hyp, hyf⟩ := ga
  have hu : User s p z := ⟨e, u.find w, u.ec, u.es, u.z8, u.er⟩
  have hem := u.mem_e
  have hxm := u.mem_y
  have hea := u.ea
  have hesz := u.es
  have hxa := u.ya
  have hp16 := u.p16
  have hz16 := u.z16
  have hes : s.h.ents = pre ++ [e, x, y] ++ post := by rw [u.hes]; simp
  have hym : y ∈ s.h.ents := by rw [hes]; simp
  obtain ⟨hxc, hxp⟩ := isFree_iff.1 hxf
  obtain ⟨hx16, hxs16, hxsz⟩ := shapeOk_free w.shape hxm hxc
  have hysh : y.addr % 16 = 0 ∧ y.size % 16 = 0 ∧ 16 ≤ y.size := by
    rcases shapeOk_mem w.shape hym with h | h
    · rw [hyp] at h; exact absurd h.2.2 (by decide)
    · exact h
  have hyfree : isFree y = false := by simp [isFree, hyc]
  have hefree : isFree e = false := by simp [isFree, u.ec]
  have hst0 : StructOk (pre ++ (e :: [x, y]) ++ post) s.segs s.h.top := by
    have := w.struct; rw [hes] at this; exact this
  have hg : g ∈ s.segs := u.hg
  have hinside : ∀ q ∈ s.h.ents, q.addr ≠ p + nb :=
    entsOk_no_inside w.ents hxm (a := p + nb) (by omega) (by omega)
  obtain ⟨_, _, _, xtop, _, _, _, htes, hxta, _⟩ := w.top_parts (w.topsize_ne hg)
  have hxtm : xtop ∈ s.h.ents := by rw [htes]; simp
  have hrtop : p + nb ≠ s.h.top := fun heq => hinside xtop hxtm (by omega)
  have hst : StructOk (pre ++ (np :: [nr, ny]) ++ post) s.segs s.h.top :=
    struct_window hst0 w.segsDisjoint hg
      (by
        intro q hq
        simp only [List.mem_cons, List.not_mem_nil, or_false] at hq
        rcases hq with rfl | rfl | rfl
        · exact u.ge
        · exact u.gy
        · exact hgy)
      (by simp only [contig, Bool.and_eq_true, decide_eq_true_eq, Bool.and_true]; omega)
      (by simp only [endE, lastE]; omega)
      (by
        simp only [shapeOk, List.all_cons, List.all_nil, Bool.and_true, Bool.and_eq_true, Bool.or_eq_true,
          decide_eq_true_eq]
        exact ⟨Or.inr ⟨⟨by omega, by omega⟩, by omega⟩, Or.inr ⟨⟨by omega, by omega⟩, by omega⟩,
          Or.inr ⟨⟨by omega, by omega⟩, by omega⟩⟩)
      (by simp only [lastE, isTrailerEnd, hyc, hyp, ny2, ny3, ny4]; exact id)
      (fun _ _ => Iff.rfl)
      ⟨np4, fun _ => ⟨by rw [np3, u.ec], np5⟩⟩
      ⟨by simp only [lastE]; rw [ny3, hyc], fun hf => by simp [lastE, isFree, ny3] at hf⟩
      (by simp [tagsFrom, linkOk, isFree, np3, nr1, nr2, nr3, nr4, ny3, ny4, ny5, hrtop])
  have hok' : entsOk H.ents = true := by rw [hH.ents]; exact hst.ents
  have hne : s.segs ≠ [] := fun h => by rw [h] at hg; cases hg
  have fs1 : freeSet [e, x, y] = [s.h.dv] := by simp [freeSet, List.filter, hxf, hyfree, hefree, hxd]
  have fs2 : freeSet [np, nr, ny] = [p + nb] := by
    simp [freeSet, List.filter, isFree, np3, nr3, nr4, ny3, nr1]
  have hfnr : findEnt H.ents (p + nb) = some nr := by
    rw [hH.ents, ← nr1]; exact entsOk_find nr (by simp) hst.ents
  have hfreemid : ∀ q ∈ [e, x, y], isFree q = true → q.addr = s.h.top ∨ q.addr = s.h.dv := by
    intro q hq hf
    simp only [List.mem_cons, List.not_mem_nil, or_false] at hq
    rcases hq with rfl | rfl | rfl
    · rw [hefree] at hf; cases hf
    · exact Or.inr hxd
    · rw [hyfree] at hf; cases hf
  have w' : WFS { s with h := H } := by
    refine wfs_of_parts w (by rw [hH.ents, hH.top]; exact hst) ?_ ?_ ?_ ?_ ?_
    · refine freeListOk_replace w hes hH.ents hok' (A := if s.h.top = 0 then [] else [s.h.top]) (B := binned s.h)
        ?_ ?_ (by rw [fs2]; simp) ?_
      · rw [fs1]; exact freeList_dv hd0
      · rw [fs2, freeList_dv (by rw [hH.dv]; omega), hH.top, hH.dv, binned_congr hH.sbins hH.tbins]
      · intro a ha
        rw [fs2, List.mem_singleton] at ha
        subst ha
        have := w.not_listed hinside
        rw [freeList_dv hd0] at this
        exact not_mem_mid this
    · exact (bins_window w hes hH.ents hok' hH.sbins hH.tbins hfreemid).1
    · exact (bins_window w hes hH.ents hok' hH.sbins hH.tbins hfreemid).2
    · unfold dvOk
      rw [hH.dv, hH.dvsize, if_neg (by omega), hfnr]
      simp [isFree, nr2, nr3, nr4]; omega
    · refine topOk_window w hes hH.ents hok' hne hH.top hH.topsize ?_
      intro q hq
      simp only [List.mem_cons, List.not_mem_nil, or_false] at hq
      rcases hq with rfl | rfl | rfl
      · exact ⟨fun hf => (by rw [hefree] at hf; cases hf), Or.inl u.ec⟩
      · exact ⟨fun _ => hxt, Or.inr hxp⟩
      · exact ⟨fun hf => (by rw [hyfree] at hf; cases hf), Or.inl hyc⟩
  have hrt : ResizeAtTab s.h.ents H.ents p nb := by
    rw [hes, hH.ents]
    refine ra_resizeAtTab_window hst.ents ?_ ⟨np, by simp, np1, np3, np2⟩ ?_
    · intro q hq hc
      simp only [List.mem_cons, List.not_mem_nil, or_false] at hq
      rcases hq with rfl | rfl | rfl
      · exact Or.inl np1
      · rw [nr3] at hc; cases hc
      · exact Or.inr ⟨y, by simp, hyc, ny1.symm⟩
    · intro q hq hc hne
      simp only [List.mem_cons, List.not_mem_nil, or_false] at hq
      rcases hq with rfl | rfl | rfl
      · exact absurd hea hne
      · rw [hxc] at hc; cases hc
      · exact ⟨ny, by simp, ny1, ny2, ny3⟩
  exact ra_sinv_resizeTo hi w' hu hrt (by omega)


/-- `set_inuse p nb` on a user chunk followed by the header `x`, with `nb` = both sizes together: the
header swallows `x`, `orPin` hits the header `y` after `x` -/
theorem ra_grow_exact {h h1 : Heap} {pre post : List Ent} {e x y : Ent} {nb : Nat}
    (e1 : set_inuse h e.addr nb = .ok h1) (hes : h.ents = pre ++ e :: x :: y :: post)
    (hok : entsOk h.ents = true) (hxa : x.addr = e.addr + e.size) (hya : y.addr = x.addr + x.size)
    (hnb : nb = e.size + x.size) :
    h1 = { h with ents := pre ++ [{ addr := e.addr, size := nb, cin := true, pin := e.pin, pfoot := e.pfoot },
      { y with pin := true }] ++ post } := by
  have hok1 : entsOk (pre ++ e :: x :: y :: post) = true := by rw [hes] at hok; exact hok
  have hok2 : entsOk ((pre ++ [e]) ++ x :: y :: post) = true := by simpa using hok1
  obtain ⟨o1, o2, o3, o4, o5⟩ := entsOk_mid2 hok1
  obtain ⟨_, _, q3, q4, q5⟩ := entsOk_mid2 hok2
  have hfe : findEnt h.ents e.addr = some e := entsOk_find e (by rw [hes]; simp) hok
  have r1 := ra_set_inuse_w e1 (pre := pre) (ms := [e, x]) (post := y :: post) (by rw [hes]; simp)
    (by intro q hq; exact (o1 q hq).2)
    (by
      intro q hq
      simp only [List.mem_cons, List.not_mem_nil, or_false] at hq
      rcases hq with rfl | rfl <;> omega)
    (by
      intro q hq
      cases hq with
      | head => omega
      | tail _ hq => have := q5 q hq; omega)
  rw [ra_pinAt_some hfe, pfootAt_some hfe, show e.addr + nb = y.addr by omega] at r1
  rw [orPin_at (pre := pre ++ [{ addr := e.addr, size := nb, cin := true, pin := e.pin, pfoot := e.pfoot }])
    (x := y) (post := post) (by simp)
    (by
      intro q hq
      rcases List.mem_append.1 hq with hq | hq
      · have := o1 q hq; omega
      · simp only [List.mem_singleton] at hq; subst hq; simp only; omega)] at r1
  rw [r1]
  simp

/-- `set_inuse p nb` with `nb` ending strictly inside `x`: the header swallows `x`, `orPin` leaves the
header-less entry at `p + nb` -/
theorem ra_grow_part {h h1 : Heap} {pre post : List Ent} {e x y : Ent} {nb : Nat}
    (e1 : set_inuse h e.addr nb = .ok h1) (hes : h.ents = pre ++ e :: x :: y :: post)
    (hok : entsOk h.ents = true) (hxa : x.addr = e.addr + e.size) (hya : y.addr = x.addr + x.size)
    (hlt : e.size < nb) (hfit : nb < e.size + x.size) :
    h1 = { h with ents := pre ++ [{ addr := e.addr, size := nb, cin := true, pin := e.pin, pfoot := e.pfoot },
      { addr := e.addr + nb, size := 0, cin := false, pin := true, pfoot := 0 }] ++ y :: post } := by
  have hok1 : entsOk (pre ++ e :: x :: y :: post) = true := by rw [hes] at hok; exact hok
  have hok2 : entsOk ((pre ++ [e]) ++ x :: y :: post) = true := by simpa using hok1
  obtain ⟨o1, o2, o3, o4, o5⟩ := entsOk_mid2 hok1
  obtain ⟨_, _, q3, q4, q5⟩ := entsOk_mid2 hok2
  have hfe : findEnt h.ents e.addr = some e := entsOk_find e (by rw [hes]; simp) hok
  have r1 := ra_set_inuse_w e1 (pre := pre) (ms := [e, x]) (post := y :: post) (by rw [hes]; simp)
    (by intro q hq; exact (o1 q hq).2)
    (by
      intro q hq
      simp only [List.mem_cons, List.not_mem_nil, or_false] at hq
      rcases hq with rfl | rfl <;> omega)
    (by
      intro q hq
      cases hq with
      | head => omega
      | tail _ hq => have := q5 q hq; omega)
  rw [ra_pinAt_some hfe, pfootAt_some hfe] at r1
  rw [ra_orPin_stub (pre := pre ++ [{ addr := e.addr, size := nb, cin := true, pin := e.pin, pfoot := e.pfoot }])
    (post := y :: post) (by simp)
    (by
      intro q hq
      rcases List.mem_append.1 hq with hq | hq
      · have := o1 q hq; omega
      · simp only [List.mem_singleton] at hq; subst hq; simp only; omega)
    (by
      intro q hq
      cases hq with
      | head => omega
      | tail _ hq => have := q5 q hq; omega)] at r1
  rw [r1]
  simp

/-- the header-less entry becomes an in-use header (`set_inuse` of the remainder) -/
theorem ra_stub_inuse {h h2 : Heap} {pre post : List Ent} {np y : Ent} {a rs : Nat}
    (e2 : set_inuse h a rs = .ok h2)
    (hes : h.ents = pre ++ [np, { addr := a, size := 0, cin := false, pin := true, pfoot := 0 }] ++ y :: post)
    (hpre : ∀ q ∈ pre, q.addr < a) (hnp : np.addr < a) (hya : y.addr = a + rs) (hrs : 0 < rs)
    (hpost : ∀ q ∈ post, y.addr < q.addr) :
    h2 = { h with ents := pre ++ [np, { addr := a, size := rs, cin := true, pin := true, pfoot := 0 },
      { y with pin := true }] ++ post } := by
  have hpre' : ∀ q ∈ pre ++ [np], q.addr < a := by
    intro q hq
    rcases List.mem_append.1 hq with hq | hq
    · exact hpre q hq
    · simp only [List.mem_singleton] at hq; subst hq; exact hnp
  have hfs : findEnt h.ents a = some { addr := a, size := 0, cin := false, pin := true, pfoot := 0 } := by
    rw [hes, show pre ++ [np, ({ addr := a, size := 0, cin := false, pin := true, pfoot := 0 } : Ent)] ++ y :: post =
      (pre ++ [np]) ++ ({ addr := a, size := 0, cin := false, pin := true, pfoot := 0 } : Ent) :: y :: post by simp,
      ra_findEnt_pre hpre']
    exact findEnt_head
  have r2 := ra_set_inuse_w e2 (pre := pre ++ [np])
    (ms := [{ addr := a, size := 0, cin := false, pin := true, pfoot := 0 }]) (post := y :: post)
    (by rw [hes]; simp) hpre'
    (by intro q hq; simp only [List.mem_singleton] at hq; subst hq; simp only; omega)
    (by
      intro q hq
      cases hq with
      | head => omega
      | tail _ hq => have := hpost q hq; omega)
  rw [ra_pinAt_some hfs, pfootAt_some hfs, ← hya] at r2
  rw [orPin_at (pre := pre ++ [np, { addr := a, size := rs, cin := true, pin := true, pfoot := 0 }])
    (x := y) (post := post) (by simp)
    (by
      intro q hq
      simp only [List.mem_append, List.mem_cons, List.not_mem_nil, or_false] at hq
      rcases hq with hq | hq | hq
      · have := hpre q hq; omega
      · subst hq; omega
      · subst hq; simp only; omega)] at r2
  rw [r2]
  simp

/-- the header-less entry becomes the header of a free chunk (`set_size_and_pinuse_of_free_chunk` of the
remainder, then `clear_pinuse` of the header after it) -/
theorem ra_stub_free {h h2 h3 : Heap} {pre post : List Ent} {np y : Ent} {a rs : Nat}
    (e2 : set_size_and_pinuse_of_free_chunk h a rs = .ok h2) (e3 : clearPin h2 (a + rs) = .ok h3)
    (hes : h.ents = pre ++ [np, { addr := a, size := 0, cin := false, pin := true, pfoot := 0 }] ++ y :: post)
    (hpre : ∀ q ∈ pre, q.addr < a) (hnp : np.addr < a) (hya : y.addr = a + rs) (hrs : 0 < rs)
    (hpost : ∀ q ∈ post, y.addr < q.addr) :
    h3 = { h with ents := pre ++ [np, { addr := a, size := rs, cin := false, pin := true, pfoot := 0 },
      { y with pfoot := rs, pin := false }] ++ post } := by
  have hpre' : ∀ q ∈ pre ++ [np], q.addr < a := by
    intro q hq
    rcases List.mem_append.1 hq with hq | hq
    · exact hpre q hq
    · simp only [List.mem_singleton] at hq; subst hq; exact hnp
  have hfs : findEnt h.ents a = some { addr := a, size := 0, cin := false, pin := true, pfoot := 0 } := by
    rw [hes, show pre ++ [np, ({ addr := a, size := 0, cin := false, pin := true, pfoot := 0 } : Ent)] ++ y :: post =
      (pre ++ [np]) ++ ({ addr := a, size := 0, cin := false, pin := true, pfoot := 0 } : Ent) :: y :: post by simp,
      ra_findEnt_pre hpre']
    exact findEnt_head
  unfold set_size_and_pinuse_of_free_chunk at e2
  msimp at e2
  obtain ⟨h1, e1, e2⟩ := e2
  have r1 := writeHead_window_ok e1 (pre := pre ++ [np])
    (ms := [{ addr := a, size := 0, cin := false, pin := true, pfoot := 0 }]) (post := y :: post)
    (by rw [hes]; simp) hpre'
    (by intro q hq; simp only [List.mem_singleton] at hq; subst hq; simp only; omega)
    (by
      intro q hq
      cases hq with
      | head => omega
      | tail _ hq => have := hpost q hq; omega)
  rw [pfootAt_some hfs] at r1
  subst r1
  have hpre2 : ∀ q ∈ pre ++ [np, { addr := a, size := rs, cin := false, pin := true, pfoot := 0 }], q.addr ≠ y.addr := by
    intro q hq
    simp only [List.mem_append, List.mem_cons, List.not_mem_nil, or_false] at hq
    rcases hq with hq | hq | hq
    · have := hpre q hq; omega
    · subst hq; omega
    · subst hq; simp only; omega
  have r2 := setFoot_at_ok e2 (pre := pre ++ [np, { addr := a, size := rs, cin := false, pin := true, pfoot := 0 }])
    (x := y) (post := post) (by simp) hya hpre2
  subst r2
  have r3 := clearPin_at_ok e3 (pre := pre ++ [np, { addr := a, size := rs, cin := false, pin := true, pfoot := 0 }])
    (x := { y with pfoot := rs }) (post := post) (by simp) hya hpre2
  rw [r3]
  simp



/-! ## G. the branches of `try_realloc_chunk` -/

theorem ra_resized_of_split_freed {s s2 s2' s3 : St} {p nb rs : Nat} (sp : ra_SplitU s s2 p nb rs)
    (hsame : ∀ a z, User s2' a z ↔ User s2 a z) (fr : Freed s2' s3 (p + nb + 16)) (hnb : 0 < nb) :
    ra_ResizedTo s s3 p nb := by
  intro a z
  rw [fr a z, hsame a z, sp.2 a z, show p + nb + 16 - 16 = p + nb by omega]
  constructor
  · rintro ⟨(h | h | h), hne⟩
    · exact Or.inl h
    · exact Or.inr h
    · exact absurd h.1 hne
  · rintro (⟨h1, h2⟩ | ⟨h1, h2⟩)
    · refine ⟨Or.inl ⟨h1, h2⟩, ?_⟩
      intro heq
      subst heq
      exact sp.1 z h2
    · exact ⟨Or.inr (Or.inl ⟨h1, h2⟩), by omega⟩

theorem ra_splitU_of_resizedTo {s s1 s2 : St} {p sz nb rs : Nat} (rt : ra_ResizedTo s s1 p sz)
    (sp : ra_SplitU s1 s2 p nb rs) (hnb : 0 < nb) : ra_SplitU s s2 p nb rs := by
  refine ⟨?_, ?_⟩
  · intro z hz
    exact sp.1 z ((rt _ _).2 (Or.inl ⟨by omega, hz⟩))
  · intro a z
    rw [sp.2 a z]
    constructor
    · rintro (⟨h1, h2⟩ | h)
      · rcases (rt a z).1 h2 with ⟨_, h3⟩ | ⟨h3, _⟩
        · exact Or.inl ⟨h1, h3⟩
        · exact absurd h3 h1
      · exact Or.inr h
    · rintro (⟨h1, h2⟩ | h)
      · exact Or.inl ⟨h1, (rt a z).2 (Or.inl ⟨h1, h2⟩)⟩
      · exact Or.inr h

/-- after a split: `dispose_chunk` of the remainder (called on the tagged heap) -/
theorem ra_split_dispose (hd : dispose_chunk_Spec) {s : St} {h2 h3 : Heap} {p nb rs : Nat} {t : String}
    (i2 : SInv { s with h := h2 }) (sp : ra_SplitU s { s with h := h2 } p nb rs) (hnb : 0 < nb)
    (e3 : dispose_chunk (h2.tag t) (p + nb) rs = .ok h3) :
    SInv { s with h := h3 } ∧ ra_ResizedTo s { s with h := h3 } p nb := by
  have i2t : SInv { s with h := h2.tag t } := ra_sinv_same (s := { s with h := h2 }) i2 (ra_sameHeap_tag h2 t)
  have hsame : ∀ a z, User { s with h := h2.tag t } a z ↔ User { s with h := h2 } a z :=
    fun a z => ra_user_same (s := { s with h := h2 }) (H := h2.tag t) rfl a z
  have hut : User { s with h := h2.tag t } (p + nb) rs :=
    (hsame _ _).2 ((sp.2 _ _).2 (Or.inr (Or.inr ⟨rfl, rfl⟩)))
  obtain ⟨i3, fr⟩ := hd (s := { s with h := h2.tag t }) i2t hut e3
  exact ⟨i3, ra_resized_of_split_freed sp hsame fr hnb⟩

/-- `realloc-shrink-split` -/
theorem ra_shrink_split (hd : dispose_chunk_Spec) {s : St} (hi : SInv s) {p nb z : Nat} (hu : User s p z)
    (hnb : NbOk nb) (hle : nb ≤ z) (hge : 32 ≤ z - nb) {h1 h2 h3 : Heap} {t : String}
    (e1 : set_inuse s.h p nb = .ok h1) (e2 : set_inuse h1 (p + nb) (z - nb) = .ok h2)
    (e3 : dispose_chunk (h2.tag t) (p + nb) (z - nb) = .ok h3) :
    SInv { s with h := h3 } ∧ Resized s { s with h := h3 } p nb := by
  obtain ⟨pre, post, e, y, g, u⟩ := ra_user_parts hi.wfs hu
  have hz16 := u.z16
  have hu' : User s p (nb + (z - nb)) := by rw [show nb + (z - nb) = z by omega]; exact hu
  obtain ⟨i2, sp⟩ := ra_split_inuse hi hu' hnb.1 (by have := hnb.2.1; omega) (by have := hnb.1; omega) (by omega) e1 e2
  obtain ⟨r1, r2⟩ := ra_split_dispose hd i2 sp (by have := hnb.2.1; omega) e3
  exact ⟨r1, r2.resized (Nat.le_refl nb)⟩

/-- the header at `dv` -/
theorem ra_dv_at {s : St} (w : WFS s) {x : Ent} (hx : x ∈ s.h.ents) (hxa : x.addr = s.h.dv) :
    isFree x = true ∧ x.size = s.h.dvsize ∧ 32 ≤ s.h.dvsize ∧ s.h.dv ≠ 0 := by
  have hpos := w.addr_pos hx
  have hd0 : s.h.dv ≠ 0 := by omega
  have hd := w.dv
  unfold dvOk at hd
  rw [if_neg hd0, ← hxa, entsOk_find x hx w.ents] at hd
  simp only [Bool.and_eq_true, decide_eq_true_eq] at hd
  exact ⟨hd.1.1, hd.1.2, hd.2, hd0⟩

/-- `realloc-into-dv-split` -/
theorem ra_into_dv_split {s : St} (hi : SInv s) {p nb z : Nat} (hu : User s p z) (hnb16 : nb % 16 = 0)
    (hlt : z < nb) (hnt : p + z ≠ s.h.top) (hdv : p + z = s.h.dv) (hfit : nb + 32 ≤ z + s.h.dvsize)
    {h1 h2 h3 H : Heap} (e1 : set_inuse s.h p nb = .ok h1)
    (e2 : set_size_and_pinuse_of_free_chunk h1 (p + nb) (z + s.h.dvsize - nb) = .ok h2)
    (e3 : clearPin h2 (p + nb + (z + s.h.dvsize - nb)) = .ok h3)
    (hH : HeapIs H h3.ents h3.sbins h3.tbins (p + nb) (z + s.h.dvsize - nb) h3.top h3.topsize) :
    SInv { s with h := H } ∧ ra_ResizedTo s { s with h := H } p nb := by
  have w := hi.wfs
  obtain ⟨pre, post, e, x, g, u⟩ := ra_user_parts w hu
  obtain ⟨hxf, hxs, hd32, hd0⟩ := ra_dv_at w u.mem_y (by rw [u.ya, hdv])
  obtain ⟨y, post', hp, ga⟩ := ra_grow_parts w u hxf (by rw [u.ya]; exact hnt)
  subst hp
  have hea := u.ea
  have hesz := u.es
  have hxa := u.ya
  have hya := ga.ya
  subst hea
  have hok := w.ents
  rw [u.hes] at hok
  have hok2 : entsOk ((pre ++ [e, x]) ++ y :: post') = true := by simpa using hok
  obtain ⟨o1, _, _, _, _⟩ := entsOk_mid2 hok
  have b2 := entsOk_head_le (entsOk_append.1 hok2).2.1
  have r1 := ra_grow_part e1 u.hes w.ents (by omega) hya (by omega) (by omega)
  subst r1
  have r3 := ra_stub_free e2 e3 (pre := pre) (post := post') (y := y)
    (np := { addr := e.addr, size := nb, cin := true, pin := e.pin, pfoot := e.pfoot }) rfl
    (by intro q hq; have := o1 q hq; omega) (by simp only; omega) (by omega) (by omega)
    (by intro q hq; have := b2 q hq; have := entsOk_pos w.ents y (by rw [u.hes]; simp); omega)
  subst r3
  obtain ⟨i1, i2, i3, i4, i5, i6, i7⟩ := hH
  exact ra_dv_split_core hi ga (by omega) hxs hd0 hnb16 hlt hfit
    (np := { addr := e.addr, size := nb, cin := true, pin := e.pin, pfoot := e.pfoot })
    (nr := { addr := e.addr + nb, size := z + s.h.dvsize - nb, cin := false, pin := true, pfoot := 0 })
    (ny := { y with pfoot := z + s.h.dvsize - nb, pin := false })
    ⟨i1, i2, i3, i4, i5, i6, i7⟩ rfl rfl rfl rfl rfl rfl rfl rfl rfl rfl rfl ga.yc rfl rfl

/-- `realloc-into-dv-exhaust` and `realloc-into-next-exhaust`: the header write on a heap `h0` that has the
table of `s.h` and from whose free list the chunk after the user chunk has been taken -/
theorem ra_grow_exhaust {s : St} (hi : SInv s) {p z : Nat} {pre post : List Ent} {e x y : Ent} {g : Seg}
    (ga : ra_GrowAt s p z pre post e x y g) {h0 h1 H : Heap} (h0e : h0.ents = s.h.ents)
    (e1 : set_inuse h0 p (z + x.size) = .ok h1) (hH : H.ents = h1.ents) (hD : ra_Delisted s H x.addr) :
    SInv { s with h := H } ∧ ra_ResizedTo s { s with h := H } p (z + x.size) := by
  have w := hi.wfs
  have u := ga.u
  have hea := u.ea
  have hesz := u.es
  have hxa := u.ya
  subst hea
  have r1 := ra_grow_exact e1 (by rw [h0e]; exact u.hes) (by rw [h0e]; exact w.ents) (by omega) ga.ya (by omega)
  subst r1
  exact ra_merge_exhaust_core hi ga
    (np := { addr := e.addr, size := z + x.size, cin := true, pin := e.pin, pfoot := e.pfoot })
    (ny := { y with pin := true }) hH hD rfl rfl rfl rfl rfl rfl rfl ga.yc rfl

/-- `realloc-into-next-split`: the merged chunk is split again; seen as `exhaust` (a state that is never
materialised) followed by a split -/
theorem ra_into_next_split (hd : dispose_chunk_Spec) {s : St} (hi : SInv s) {p z nb : Nat} {pre post : List Ent}
    {e x y : Ent} {g : Seg} (ga : ra_GrowAt s p z pre post e x y g) (hcd : x.addr ≠ s.h.dv)
    (hnb16 : nb % 16 = 0) (hnb : 16 ≤ nb) (hlt : z < nb) (hfit : nb + 16 ≤ z + x.size)
    {h0 h1 h2 h3 : Heap} {t : String} (e0 : unlink_chunk s.h x.addr x.size = .ok h0)
    (e1 : set_inuse h0 p nb = .ok h1) (e2 : set_inuse h1 (p + nb) (z + x.size - nb) = .ok h2)
    (e3 : dispose_chunk (h2.tag t) (p + nb) (z + x.size - nb) = .ok h3) :
    SInv { s with h := h3 } ∧ Resized s { s with h := h3 } p nb := by
  have w := hi.wfs
  have u := ga.u
  have hea := u.ea
  have hesz := u.es
  have hxa := u.ya
  have hya := ga.ya
  have hz16 := u.z16
  have hp16 := u.p16
  subst hea
  have fr := unlink_chunk_frame e0
  obtain ⟨hxc, hxp⟩ := isFree_iff.1 ga.xf
  obtain ⟨hx16, hxs16, hxsz⟩ := shapeOk_free w.shape u.mem_y hxc
  have hok := w.ents
  rw [u.hes] at hok
  have hok2 : entsOk ((pre ++ [e, x]) ++ y :: post) = true := by simpa using hok
  obtain ⟨o1, _, _, _, _⟩ := entsOk_mid2 hok
  have b2 := entsOk_head_le (entsOk_append.1 hok2).2.1
  -- the two header writes
  have r1 := ra_grow_part e1 (by rw [fr.ents]; exact u.hes) (by rw [fr.ents]; exact w.ents) (by omega) hya
    (by omega) (by omega)
  subst r1
  have r2 := ra_stub_inuse e2 (pre := pre) (post := post) (y := y)
    (np := { addr := e.addr, size := nb, cin := true, pin := e.pin, pfoot := e.pfoot }) rfl
    (by intro q hq; have := o1 q hq; omega) (by simp only; omega) (by omega) (by omega)
    (by intro q hq; have := b2 q hq; have := entsOk_pos w.ents y (by rw [u.hes]; simp); omega)
  -- the virtual state after `exhaust`
  obtain ⟨i1, rt1⟩ := ra_merge_exhaust_core hi ga
    (H := { h0 with ents := pre ++ [{ addr := e.addr, size := z + x.size, cin := true, pin := e.pin, pfoot := e.pfoot },
      { y with pin := true }] ++ post })
    (np := { addr := e.addr, size := z + x.size, cin := true, pin := e.pin, pfoot := e.pfoot })
    (ny := { y with pin := true }) rfl (ra_delisted_unlink w e0 hcd rfl rfl rfl rfl rfl rfl)
    rfl rfl rfl rfl rfl rfl rfl ga.yc rfl
  have hge := inSeg_iff.1 u.ge
  have hgy := inSeg_iff.1 ga.gy
  have u1 : ra_UserAt { s with h := { h0 with ents := pre ++
      [{ addr := e.addr, size := z + x.size, cin := true, pin := e.pin, pfoot := e.pfoot }, { y with pin := true }] ++ post } }
      e.addr (nb + (z + x.size - nb)) pre post
      { addr := e.addr, size := z + x.size, cin := true, pin := e.pin, pfoot := e.pfoot } { y with pin := true } g :=
    ⟨by simp, rfl, by simp only; omega, rfl, (gl_isRecord_addr (segs := s.segs) (e := e) rfl).trans u.er, by omega, hp16,
      by omega, by omega, u.hg, inSeg_iff.2 hge, inSeg_iff.2 hgy, by simp only; omega, rfl⟩
  obtain ⟨i2, sp1⟩ := ra_split_core i1 u1 hnb16 hnb (by omega) (by omega) (H := h2)
    (by rw [r2]; exact ⟨rfl, rfl, rfl, rfl, rfl, rfl, rfl⟩)
  obtain ⟨r1, r2⟩ := ra_split_dispose hd (s := s) i2 (ra_splitU_of_resizedTo rt1 sp1 (by omega)) (by omega) e3
  exact ⟨r1, r2.resized (Nat.le_refl nb)⟩

/-- `set_inuse` changes the header table only -/
theorem ra_set_inuse_fields {h h' : Heap} {a sz : Nat} (e : set_inuse h a sz = .ok h') :
    h'.sbins = h.sbins ∧ h'.tbins = h.tbins ∧ h'.dv = h.dv ∧ h'.dvsize = h.dvsize ∧ h'.top = h.top ∧
      h'.topsize = h.topsize := by
  unfold set_inuse at e
  dsimp only at e
  msimp at e
  obtain ⟨h1, e1, e2⟩ := e
  unfold writeHead at e1
  split at e1
  · msimp at e1
  · msimp at e1
    subst e1
    subst e2
    unfold orPin
    dsimp only
    split <;> exact ⟨rfl, rfl, rfl, rfl, rfl, rfl⟩

/-- **`try_realloc_chunk_Spec`** (given `dispose_chunk_Spec`) -/
theorem ra_try_realloc_chunk_spec (hd : dispose_chunk_Spec) : try_realloc_chunk_Spec := by
  intro s hi p nb z h' hu hnb hh
  have w := hi.wfs
  obtain ⟨pre, post, e, x, g, u⟩ := ra_user_parts w hu
  have hnb16 := hnb.1
  have hnb32 := hnb.2.1
  unfold try_realloc_chunk at hh
  dsimp only at hh
  msimp at hh
  obtain ⟨e0, he0, _, _, hh⟩ := hh
  have := getE_spec he0
  rw [u.find w] at this
  injection this with this
  subst this
  have hesz := u.es
  subst hesz
  rw [MIN_CHUNK_SIZE_eq] at hh
  split at hh
  · rename_i hge
    split at hh
    · -- shrink-split
      rename_i hrs
      msimp at hh
      obtain ⟨h1, e1, h2, e2, h3, e3, hh⟩ := hh
      injection hh with hh
      subst hh
      exact ra_shrink_split hd hi hu hnb hge hrs e1 e2 e3
    · -- shrink-keep
      msimp at hh
      injection hh with hh
      subst hh
      refine ⟨ra_sinv_same hi (ra_sameHeap_tag _ _), e.size, hge, ?_⟩
      intro a z'
      rw [ra_user_same (H := s.h.tag "realloc-shrink-keep") rfl a z']
      constructor
      · intro h
        by_cases hap : a = p
        · subst hap; exact Or.inr ⟨rfl, gl_user_size h hu⟩
        · exact Or.inl ⟨hap, h⟩
      · rintro (⟨_, h⟩ | ⟨h1, h2⟩)
        · exact h
        · subst h1; subst h2; exact hu
  · rename_i hlt
    split at hh
    · rename_i ht
      split at hh
      · msimp at hh
        cases hh
      · -- into-top
        rename_i hfit
        msimp at hh
        obtain ⟨h1, e1, h2, e2, hh⟩ := hh
        injection hh with hh
        subst hh
        obtain ⟨r1, r2⟩ := ra_into_top hi hu hnb16 (by omega) (by omega) ht e1 e2
          (H := ({ h2 with top := p + nb, topsize := e.size + s.h.topsize - nb } : Heap).tag "realloc-into-top")
          ⟨rfl, rfl, rfl, rfl, rfl, rfl, rfl⟩
        exact ⟨r1, r2.resized (Nat.le_refl nb)⟩
    · rename_i hnt
      split at hh
      · rename_i hdv
        split at hh
        · msimp at hh
          cases hh
        · rename_i hfit
          split at hh
          · -- into-dv-split
            rename_i hds
            msimp at hh
            obtain ⟨h1, e1, h2, e2, h3, e3, hh⟩ := hh
            injection hh with hh
            subst hh
            obtain ⟨r1, r2⟩ := ra_into_dv_split hi hu hnb16 (by omega) hnt hdv (by omega) e1 e2 e3
              (H := ({ h3 with dvsize := e.size + s.h.dvsize - nb, dv := p + nb } : Heap).tag "realloc-into-dv-split")
              ⟨rfl, rfl, rfl, rfl, rfl, rfl, rfl⟩
            exact ⟨r1, r2.resized (Nat.le_refl nb)⟩
          · -- into-dv-exhaust
            msimp at hh
            obtain ⟨h1, e1, hh⟩ := hh
            injection hh with hh
            subst hh
            obtain ⟨hxf, hxs, hd32, hd0⟩ := ra_dv_at w u.mem_y (by rw [u.ya, hdv])
            obtain ⟨y, post', hp, ga⟩ := ra_grow_parts w u hxf (by rw [u.ya]; exact hnt)
            subst hp
            rw [← hxs] at e1
            have hxd : x.addr = s.h.dv := by rw [u.ya, hdv]
            obtain ⟨f1, f2, f3, f4, f5, f6⟩ := ra_set_inuse_fields e1
            obtain ⟨r1, r2⟩ := ra_grow_exhaust hi ga (h0 := s.h) rfl e1
              (H := ({ h1 with dvsize := 0, dv := 0 } : Heap).tag "realloc-into-dv-exhaust") rfl
              (by rw [hxd]; exact ra_delisted_dv w hd0 f1 f2 f5 f6 rfl rfl)
            exact ⟨r1, r2.resized (by omega)⟩
      · rename_i hndv
        msimp at hh
        obtain ⟨en, hen, hh⟩ := hh
        have hfx : findEnt s.h.ents (p + e.size) = some x := by rw [← u.ya]; exact entsOk_find x u.mem_y w.ents
        have := getE_spec hen
        rw [hfx] at this
        injection this with this
        subst this
        split at hh
        · rename_i hcin
          have hxf : isFree x = true := by
            simp only [Bool.not_eq_true'] at hcin
            exact isFree_iff.2 ⟨hcin, u.yp⟩
          obtain ⟨y, post', hp, ga⟩ := ra_grow_parts w u hxf (by rw [u.ya]; exact hnt)
          subst hp
          have hcd : x.addr ≠ s.h.dv := by rw [u.ya]; exact hndv
          split at hh
          · msimp at hh
            cases hh
          · rename_i hfit
            msimp at hh
            obtain ⟨h0, e0', hh⟩ := hh
            rw [← u.ya] at e0'
            split at hh
            · -- into-next-exhaust
              msimp at hh
              obtain ⟨h1, e1, hh⟩ := hh
              injection hh with hh
              subst hh
              obtain ⟨f1, f2, f3, f4, f5, f6⟩ := ra_set_inuse_fields e1
              obtain ⟨r1, r2⟩ := ra_grow_exhaust hi ga (h0 := h0) (unlink_chunk_frame e0').ents e1
                (H := h1.tag "realloc-into-next-exhaust") rfl
                (ra_delisted_unlink w e0' hcd f1 f2 f5 f6 f3 f4)
              exact ⟨r1, r2.resized (by omega)⟩
            · -- into-next-split
              rename_i hrs
              msimp at hh
              obtain ⟨h1, e1, h2, e2, h3, e3, hh⟩ := hh
              injection hh with hh
              subst hh
              exact ra_into_next_split hd hi ga hcd hnb16 (by omega) (by omega) (by omega) e0' e1 e2 e3
        · msimp at hh
          cases hh

/-! ## H. non-vacuity -/

/-- `try_realloc_chunk h p nb` succeeds in place and the branch tag `tag` was recorded -/
def ra_branchIs (h : Heap) (p nb : Nat) (tag : String) : Bool :=
  match try_realloc_chunk { h with tr := [] } p nb with
  | .ok (some h') => h'.tr.contains tag
  | _ => false

def ra_userB (s : St) (a z : Nat) : Bool :=
  match findEnt s.h.ents a with
  | some e => e.cin && decide (e.size = z) && decide (z ≠ 8) && !isRecord s.segs e
  | none => false

theorem ra_user_of_check {s : St} {a z : Nat} (h : ra_userB s a z = true) : User s a z := by
  unfold ra_userB at h
  split at h
  · rename_i e he
    simp only [Bool.and_eq_true, decide_eq_true_eq, Bool.not_eq_true'] at h
    exact ⟨e, he, h.1.1.1, h.1.1.2, h.1.2, h.2⟩
  · cases h

set_option maxRecDepth 40000 in
/-- non-vacuity: the hypotheses of `try_realloc_chunk_Spec` hold on reachable states on which each of the
seven successful branches is taken -/
example : Inv smallState ∧ User smallState.st 1048576 112 ∧ User smallState.st 1048800 112 ∧
    ra_branchIs smallState.st.h 1048576 48 "realloc-shrink-split" = true ∧
    ra_branchIs smallState.st.h 1048576 96 "realloc-shrink-keep" = true ∧
    ra_branchIs smallState.st.h 1048576 128 "realloc-into-next-split" = true ∧
    ra_branchIs smallState.st.h 1048576 208 "realloc-into-next-exhaust" = true ∧
    ra_branchIs smallState.st.h 1048800 256 "realloc-into-top" = true ∧
    Inv pilotState ∧ User pilotState.st 1048688 32 ∧
    ra_branchIs pilotState.st.h 1048688 48 "realloc-into-dv-split" = true ∧
    ra_branchIs pilotState.st.h 1048688 96 "realloc-into-dv-exhaust" = true :=
  ⟨gl_inv_of_check (by decide) (by decide) (by decide) (by decide) (by decide) (by decide),
    ra_user_of_check (by decide), ra_user_of_check (by decide), by decide, by decide, by decide, by decide, by decide,
    gl_inv_of_check (by decide) (by decide) (by decide) (by decide) (by decide) (by decide),
    ra_user_of_check (by decide), by decide, by decide⟩

end TinyVerif.Dl
