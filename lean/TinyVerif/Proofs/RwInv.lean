import TinyVerif.Model.RwLock
set_option linter.unusedSimpArgs false
set_option linter.unusedVariables false
set_option maxRecDepth 4000
namespace TinyVerif.RwLock

/-- unfold the numeric constants, then linear arithmetic -/
macro "komega" : tactic => `(tactic| ((try simp only [cnt, MASK, WRITE_LOCKED, MAX_READERS, RW, WW, TWO32, beq_iff_eq, Bool.not_eq_true, beq_eq_false_iff_ne, ne_eq] at *) <;> omega))

theorem readLockable_iff (x : Nat) :
    isReadLockable x = true ↔ (x % 1073741824 < 1073741822 ∧ x / 1073741824 % 2 ≠ 1 ∧ x / 2147483648 % 2 ≠ 1) := by
  unfold isReadLockable hasRW hasWW cnt
  simp only [Bool.and_eq_true, Bool.not_eq_true', beq_eq_false_iff_ne, ne_eq]
  constructor
  · rintro ⟨⟨h1, h2⟩, h3⟩; exact ⟨of_decide_eq_true h1, h2, h3⟩
  · rintro ⟨h1, h2, h3⟩; exact ⟨⟨decide_eq_true h1, h2⟩, h3⟩

theorem unlocked_iff (x : Nat) : isUnlocked x = true ↔ x % 1073741824 = 0 := by
  unfold isUnlocked cnt; simp

/-! ### counting reader guards over the (finite) live thread range -/

def nR (s : St) : Nat := (List.range s.n).countP (fun j => holdsR (s.ths j))

theorem countP_range_update (f g : Nat → Bool) (n i : Nat) (hi : i < n) (hfg : ∀ j, j ≠ i → g j = f j) :
    (List.range n).countP g + (if f i then 1 else 0) = (List.range n).countP f + (if g i then 1 else 0) := by
  induction n with
  | zero => omega
  | succ m ih =>
    simp only [List.range_succ, List.countP_append, List.countP_cons, List.countP_nil]
    by_cases him : i = m
    · subst him
      have hsame : (List.range i).countP g = (List.range i).countP f := by
        apply List.countP_congr
        intro j hj
        simp only [List.mem_range] at hj
        rw [hfg j (by omega)]
      rw [hsame]
      cases f i <;> cases g i <;> simp
    · have := ih (by omega)
      have hm : g m = f m := hfg m (by omega)
      rw [hm]
      omega

theorem countP_range_same (f g : Nat → Bool) (n : Nat) (hfg : ∀ j, j < n → g j = f j) :
    (List.range n).countP g = (List.range n).countP f := by
  apply List.countP_congr
  intro j hj
  simp only [List.mem_range] at hj
  rw [hfg j hj]

theorem countP_range_zero_iff (f : Nat → Bool) (n : Nat) :
    (List.range n).countP f = 0 ↔ ∀ j, j < n → f j = false := by
  simp [List.countP_eq_zero]

@[simp] theorem setTh_ths_same (s : St) (i : Nat) (t : Th) : (setTh s i t).ths i = t := by simp [setTh]
theorem setTh_ths (s : St) (i j : Nat) (t : Th) : (setTh s i t).ths j = if j = i then t else s.ths j := rfl
@[simp] theorem setTh_state (s : St) (i : Nat) (t : Th) : (setTh s i t).state = s.state := rfl
@[simp] theorem setTh_notify (s : St) (i : Nat) (t : Th) : (setTh s i t).notify = s.notify := rfl
@[simp] theorem setTh_wseen (s : St) (i : Nat) (t : Th) : (setTh s i t).wseen = s.wseen := rfl
@[simp] theorem setTh_nrel (s : St) (i : Nat) (t : Th) : (setTh s i t).nrel = s.nrel := rfl
@[simp] theorem setTh_lastWrel (s : St) (i : Nat) (t : Th) : (setTh s i t).lastWrel = s.lastWrel := rfl
@[simp] theorem setTh_raced (s : St) (i : Nat) (t : Th) : (setTh s i t).raced = s.raced := rfl
@[simp] theorem setTh_n (s : St) (i : Nat) (t : Th) : (setTh s i t).n = s.n := rfl

theorem nR_setTh (s : St) (i : Nat) (t' : Th) (hi : i < s.n) :
    nR (setTh s i t') + (if holdsR (s.ths i) then 1 else 0) = nR s + (if holdsR t' then 1 else 0) := by
  unfold nR
  have := countP_range_update (fun j => holdsR (s.ths j)) (fun j => holdsR ((setTh s i t').ths j)) s.n i hi
    (by intro j hj; simp [setTh_ths, hj])
  simpa using this

/-- facts a program counter carries about its local copy of `state` -/
def PcWf : Pc → Prop
  | .rFastCas st => isReadLockable st = true
  | .rCas st => isReadLockable st = true
  | .tCas w st => (if w then isUnlocked st else isReadLockable st) = true
  | .wCas st _ => isUnlocked st = true
  | .kCasA st => st = WW
  | .kCasB st => st = RW + WW
  | _ => True

/-- the safety invariant: exclusion bookkeeping of `state` and the visibility bookkeeping -/
structure RInv (s : St) : Prop where
  outside : ∀ i, s.n ≤ i → (s.ths i).pc = .idle
  lt32 : s.state < TWO32
  pcwf : ∀ i, PcWf (s.ths i).pc
  wl : cnt s.state = WRITE_LOCKED ↔ ∃ i, holdsW (s.ths i) = true
  cntR : cnt s.state ≠ WRITE_LOCKED → cnt s.state = nR s
  noRW : (∃ i, holdsW (s.ths i) = true) → nR s = 0
  uniqW : ∀ i j, holdsW (s.ths i) = true → holdsW (s.ths j) = true → i = j
  nrace : s.raced = false
  chain : s.wseen = s.nrel
  lw : s.lastWrel ≤ s.nrel
  seenle : ∀ i, (s.ths i).seen ≤ s.nrel
  seenW : ∀ i, holdsW (s.ths i) = true → (s.ths i).seen = s.nrel
  seenR : ∀ i, holdsR (s.ths i) = true → s.lastWrel ≤ (s.ths i).seen

theorem init_inv (progs : List (List Txn)) : RInv (init progs) := by
  constructor <;> simp [init, holdsR, holdsW, PcWf, nR, cnt, TWO32]

theorem holdsR_lt (s : St) (hinv : RInv s) (i : Nat) (h : holdsR (s.ths i) = true) : i < s.n := by
  by_cases hi : i < s.n
  · exact hi
  · have := hinv.outside i (by omega)
    simp [holdsR, this] at h

theorem holdsW_lt (s : St) (hinv : RInv s) (i : Nat) (h : holdsW (s.ths i) = true) : i < s.n := by
  by_cases hi : i < s.n
  · exact hi
  · have := hinv.outside i (by omega)
    simp [holdsW, this] at h

/-- thread-local step: pc / program change of a thread whose guard status does not change, memory untouched
apart from a `state` value with the same reader count -/
theorem inv_frame (s : St) (i : Nat) (t' : Th) (new : Nat) (hinv : RInv s) (hi : i < s.n)
    (hnew : new < TWO32) (hcnt : cnt new = cnt s.state)
    (hseen : t'.seen = (s.ths i).seen) (hR : holdsR t' = holdsR (s.ths i)) (hW : holdsW t' = holdsW (s.ths i))
    (hwf : PcWf t'.pc) :
    RInv (setTh { s with state := new } i t') := by
  have hnR : nR (setTh { s with state := new } i t') = nR s := by
    have := nR_setTh { s with state := new } i t' hi
    simp only [hR] at this
    have e : nR { s with state := new } = nR s := rfl
    rw [e] at this
    have e2 : ({ s with state := new } : St).ths i = s.ths i := rfl
    rw [e2] at this
    omega
  have hWiff : ∀ j, holdsW ((setTh { s with state := new } i t').ths j) = holdsW (s.ths j) := by
    intro j; by_cases hj : j = i
    · subst hj; simp [hW]
    · simp [setTh_ths, hj]
  have hRiff : ∀ j, holdsR ((setTh { s with state := new } i t').ths j) = holdsR (s.ths j) := by
    intro j; by_cases hj : j = i
    · subst hj; simp [hR]
    · simp [setTh_ths, hj]
  have hSeen : ∀ j, ((setTh { s with state := new } i t').ths j).seen = (s.ths j).seen := by
    intro j; by_cases hj : j = i
    · subst hj; simp [hseen]
    · simp [setTh_ths, hj]
  obtain ⟨o, lt32, pcwf, wl, cntR, noRW, uniqW, nrace, chain, lw, seenle, seenW, seenR⟩ := hinv
  refine ⟨?_, ?_, ?_, ?_, ?_, ?_, ?_, ?_, ?_, ?_, ?_, ?_, ?_⟩
  · intro j hj
    have : j ≠ i := by simp at hj; omega
    simp [setTh_ths, this]; exact o j hj
  · simpa using hnew
  · intro j; by_cases hj : j = i
    · subst hj; simpa using hwf
    · simp [setTh_ths, hj]; exact pcwf j
  · simp only [setTh_state, hcnt, hWiff]; exact wl
  · simp only [setTh_state, hcnt, hnR]; exact cntR
  · simp only [hWiff, hnR]; exact noRW
  · simp only [hWiff]; exact uniqW
  · simpa using nrace
  · simpa using chain
  · simpa using lw
  · intro j; simp only [hSeen]; exact seenle j
  · intro j; simp only [hSeen, hWiff]; exact seenW j
  · intro j; simp only [hSeen, hRiff]; exact seenR j


theorem nR_zero_no_reader (s : St) (hinv : RInv s) (h : nR s = 0) : ∀ j, holdsR (s.ths j) = false := by
  intro j
  by_cases hj : j < s.n
  · exact (countP_range_zero_iff _ _).mp h j hj
  · have := hinv.outside j (by komega); simp [holdsR, this]

theorem no_writer_of_cnt (s : St) (hinv : RInv s) (h : cnt s.state ≠ WRITE_LOCKED) : ∀ j, holdsW (s.ths j) = false := by
  intro j
  cases hj : holdsW (s.ths j) with
  | false => rfl
  | true => exact absurd (hinv.wl.mpr ⟨j, hj⟩) h

/-- a reader wins: acquire-CAS `st → st + 1` on a read-lockable `state` -/
theorem inv_acquireR (s : St) (i : Nat) (hinv : RInv s) (hi : i < s.n)
    (hl : isReadLockable s.state = true)
    (hR : holdsR (s.ths i) = false) (hW : holdsW (s.ths i) = false) :
    RInv (rmwState s i true false (s.state + 1) (.acquired false)) := by
  have hlt := hinv.lt32
  obtain ⟨hc, hrw, hww⟩ := (readLockable_iff _).mp hl
  have hcnt1 : cnt (s.state + 1) = cnt s.state + 1 := by simp only [cnt]; komega
  have hnwl : cnt s.state ≠ WRITE_LOCKED := by simp only [cnt]; komega
  have hnow := no_writer_of_cnt s hinv hnwl
  have hcntR := hinv.cntR hnwl
  unfold rmwState
  simp only [if_true, Bool.false_eq_true, false_and, if_false]
  have hnR : nR (setTh { s with state := s.state + 1, wseen := s.wseen } i
      { s.ths i with pc := .acquired false, seen := max (s.ths i).seen s.wseen }) = nR s + 1 := by
    have := nR_setTh { s with state := s.state + 1, wseen := s.wseen } i
      { s.ths i with pc := .acquired false, seen := max (s.ths i).seen s.wseen } hi
    have e : nR { s with state := s.state + 1, wseen := s.wseen } = nR s := rfl
    have e2 : ({ s with state := s.state + 1, wseen := s.wseen } : St).ths i = s.ths i := rfl
    rw [e, e2, hR] at this
    simpa [holdsR] using this
  obtain ⟨o, lt32, pcwf, wl, cntR, noRW, uniqW, nrace, chain, lw, seenle, seenW, seenR⟩ := hinv
  have hWall : ∀ j, holdsW ((setTh { s with state := s.state + 1, wseen := s.wseen } i
      { s.ths i with pc := .acquired false, seen := max (s.ths i).seen s.wseen }).ths j) = false := by
    intro j; by_cases hj : j = i
    · subst hj; simp [holdsW]
    · simp [setTh_ths, hj]; exact hnow j
  refine ⟨?_, ?_, ?_, ?_, ?_, ?_, ?_, ?_, ?_, ?_, ?_, ?_, ?_⟩
  · intro j hj
    have : j ≠ i := by simp at hj; komega
    simp [setTh_ths, this]; exact o j hj
  · simp only [setTh_state]; komega
  · intro j; by_cases hj : j = i
    · subst hj; simp [PcWf]
    · simp [setTh_ths, hj]; exact pcwf j
  · simp only [setTh_state, hcnt1]
    constructor
    · intro h; komega
    · rintro ⟨j, hj⟩; rw [hWall j] at hj; cases hj
  · intro _; simp only [setTh_state, hcnt1, hnR, hcntR]
  · rintro ⟨j, hj⟩; rw [hWall j] at hj; cases hj
  · intro a b ha; rw [hWall a] at ha; cases ha
  · simpa using nrace
  · simpa using chain
  · simpa using lw
  · intro j; by_cases hj : j = i
    · subst hj; simp; have := seenle j; komega
    · simp [setTh_ths, hj]; exact seenle j
  · intro j hj; rw [hWall j] at hj; cases hj
  · intro j hj; by_cases hji : j = i
    · subst hji; simp; komega
    · simp [setTh_ths, hji] at hj ⊢; exact seenR j hj

/-- a writer wins: acquire-CAS on an unlocked `state` to a value whose count field is `WRITE_LOCKED` -/
theorem inv_acquireW (s : St) (i : Nat) (new : Nat) (hinv : RInv s) (hi : i < s.n)
    (hu : isUnlocked s.state = true) (hnew : new < TWO32) (hcn : cnt new = WRITE_LOCKED)
    (hR : holdsR (s.ths i) = false) (hW : holdsW (s.ths i) = false) :
    RInv (rmwState s i true false new (.acquired true)) := by
  have hu := (unlocked_iff _).mp hu
  have hnwl : cnt s.state ≠ WRITE_LOCKED := by komega
  have hnow := no_writer_of_cnt s hinv hnwl
  have hcntR := hinv.cntR hnwl
  have hnr0 : nR s = 0 := by komega
  have hnor := nR_zero_no_reader s hinv hnr0
  unfold rmwState
  simp only [if_true, Bool.false_eq_true, false_and, if_false]
  have hnR : nR (setTh { s with state := new, wseen := s.wseen } i
      { s.ths i with pc := .acquired true, seen := max (s.ths i).seen s.wseen }) = 0 := by
    have := nR_setTh { s with state := new, wseen := s.wseen } i
      { s.ths i with pc := .acquired true, seen := max (s.ths i).seen s.wseen } hi
    have e : nR { s with state := new, wseen := s.wseen } = nR s := rfl
    have e2 : ({ s with state := new, wseen := s.wseen } : St).ths i = s.ths i := rfl
    rw [e, e2, hR] at this
    simp [holdsR] at this; komega
  obtain ⟨o, lt32, pcwf, wl, cntR, noRW, uniqW, nrace, chain, lw, seenle, seenW, seenR⟩ := hinv
  have hWother : ∀ j, j ≠ i → holdsW ((setTh { s with state := new, wseen := s.wseen } i
      { s.ths i with pc := .acquired true, seen := max (s.ths i).seen s.wseen }).ths j) = false := by
    intro j hj; simp [setTh_ths, hj]; exact hnow j
  refine ⟨?_, ?_, ?_, ?_, ?_, ?_, ?_, ?_, ?_, ?_, ?_, ?_, ?_⟩
  · intro j hj
    have : j ≠ i := by simp at hj; komega
    simp [setTh_ths, this]; exact o j hj
  · simpa using hnew
  · intro j; by_cases hj : j = i
    · subst hj; simp [PcWf]
    · simp [setTh_ths, hj]; exact pcwf j
  · simp only [setTh_state, hcn, true_iff]; exact ⟨i, by simp [holdsW]⟩
  · intro h; simp only [setTh_state] at h; exact absurd hcn h
  · intro _; exact hnR
  · intro a b ha hb
    by_cases h1 : a = i
    · by_cases h2 : b = i
      · komega
      · rw [hWother b h2] at hb; cases hb
    · rw [hWother a h1] at ha; cases ha
  · simpa using nrace
  · simpa using chain
  · simpa using lw
  · intro j; by_cases hj : j = i
    · subst hj; simp; have := seenle j; komega
    · simp [setTh_ths, hj]; exact seenle j
  · intro j hj; by_cases hji : j = i
    · subst hji; simp; have := seenle j; komega
    · rw [hWother j hji] at hj; cases hj
  · intro j hj; by_cases hji : j = i
    · subst hji; simp [holdsR] at hj
    · simp [setTh_ths, hji] at hj ⊢; exact seenR j hj


theorem pcwf_wakeEntry (x : Nat) : PcWf (wakeEntry x) := by
  unfold wakeEntry
  repeat' split
  all_goals simp_all [PcWf]

theorem pcwf_wakeAfterA (x : Nat) : PcWf (wakeAfterA x) := by
  unfold wakeAfterA
  repeat' split
  all_goals simp_all [PcWf]

theorem not_holds_wakeEntry (x : Nat) : holdsR { pc := wakeEntry x, seen := a, prog := p } = false ∧
    holdsW { pc := wakeEntry x, seen := a, prog := p } = false := by
  unfold wakeEntry
  repeat' split
  all_goals simp [holdsR, holdsW]

theorem nR_upd (s s' : St) (i : Nat) (t' : Th) (hi : i < s.n) (hn : s'.n = s.n)
    (hths : ∀ j, s'.ths j = if j = i then t' else s.ths j) :
    nR s' + (if holdsR (s.ths i) then 1 else 0) = nR s + (if holdsR t' then 1 else 0) := by
  unfold nR
  rw [hn]
  have := countP_range_update (fun j => holdsR (s.ths j)) (fun j => holdsR (s'.ths j)) s.n i hi
    (by intro j hj; simp [hths, hj])
  simpa [hths] using this

/-- dropping a guard (abstractly: any `s'` whose fields are what the Release `fetch_sub` of
`read_unlock` / `write_unlock` produces) -/
theorem inv_unlock' (s s' : St) (i : Nat) (w : Bool) (t' : Th) (hinv : RInv s) (hi : i < s.n)
    (hpc : (s.ths i).pc = .unlock w) (hwf : PcWf t'.pc) (hseen : t'.seen = (s.ths i).seen)
    (hnR : holdsR t' = false) (hnW : holdsW t' = false)
    (hn : s'.n = s.n) (hths : ∀ j, s'.ths j = if j = i then t' else s.ths j)
    (hstate : s'.state = wsub s.state (if w then WRITE_LOCKED else 1))
    (hwseen : s'.wseen = s.nrel + 1) (hnrel : s'.nrel = s.nrel + 1)
    (hlastw : s'.lastWrel = if w then s.nrel + 1 else s.lastWrel) (hraced : s'.raced = s.raced) :
    RInv s' := by
  have hlt := hinv.lt32
  have hthsi : s'.ths i = t' := by simp [hths]
  have hthsj : ∀ j, j ≠ i → s'.ths j = s.ths j := by intro j hj; simp [hths, hj]
  cases w with
  | false =>
    have hR : holdsR (s.ths i) = true := by simp [holdsR, hpc]
    have hnow : ∀ j, holdsW (s.ths j) = false := by
      intro j
      cases hj : holdsW (s.ths j) with
      | false => rfl
      | true =>
        have h0 := hinv.noRW ⟨j, hj⟩
        have := nR_zero_no_reader s hinv h0 i
        rw [hR] at this; cases this
    have hnwl : cnt s.state ≠ WRITE_LOCKED := by
      intro h; obtain ⟨j, hj⟩ := hinv.wl.mp h; rw [hnow j] at hj; cases hj
    have hcntR := hinv.cntR hnwl
    have hge1 : 1 ≤ nR s := by
      have : nR s ≠ 0 := by
        intro h0; have := nR_zero_no_reader s hinv h0 i; rw [hR] at this; cases this
      omega
    have hnew : s'.state = s.state - 1 := by
      rw [hstate]; simp only [Bool.false_eq_true, if_false]
      have : 1 ≤ s.state := by komega
      unfold wsub; komega
    have hcnt' : cnt (s.state - 1) + 1 = cnt s.state := by komega
    have hnR' : nR s' + 1 = nR s := by
      have := nR_upd s s' i t' hi hn hths
      rw [hR, hnR] at this
      simpa using this
    have hWall : ∀ j, holdsW (s'.ths j) = false := by
      intro j; by_cases hj : j = i
      · subst hj; rw [hthsi]; exact hnW
      · rw [hthsj j hj]; exact hnow j
    obtain ⟨o, lt32, pcwf, wl, cntR, noRW, uniqW, nrace, chain, lw, seenle, seenW, seenR⟩ := hinv
    simp only [Bool.false_eq_true, if_false] at hlastw
    refine ⟨?_, ?_, ?_, ?_, ?_, ?_, ?_, ?_, ?_, ?_, ?_, ?_, ?_⟩
    · intro j hj
      have : j ≠ i := by omega
      rw [hthsj j this]; exact o j (by omega)
    · rw [hnew]; komega
    · intro j; by_cases hj : j = i
      · subst hj; rw [hthsi]; exact hwf
      · rw [hthsj j hj]; exact pcwf j
    · rw [hnew]
      constructor
      · intro h; exfalso; komega
      · rintro ⟨j, hj⟩; rw [hWall j] at hj; cases hj
    · intro _; rw [hnew]; omega
    · rintro ⟨j, hj⟩; rw [hWall j] at hj; cases hj
    · intro a b ha; rw [hWall a] at ha; cases ha
    · rw [hraced]; exact nrace
    · rw [hwseen, hnrel]
    · rw [hlastw, hnrel]; omega
    · intro j; rw [hnrel]; by_cases hj : j = i
      · subst hj; rw [hthsi, hseen]; have := seenle j; omega
      · rw [hthsj j hj]; have := seenle j; omega
    · intro j hj; rw [hWall j] at hj; cases hj
    · intro j hj; rw [hlastw]; by_cases hji : j = i
      · subst hji; rw [hthsi, hnR] at hj; cases hj
      · rw [hthsj j hji] at hj ⊢; exact seenR j hj
  | true =>
    have hWi : holdsW (s.ths i) = true := by simp [holdsW, hpc]
    have hwl : cnt s.state = WRITE_LOCKED := hinv.wl.mpr ⟨i, hWi⟩
    have hnr0 : nR s = 0 := hinv.noRW ⟨i, hWi⟩
    have hnor := nR_zero_no_reader s hinv hnr0
    have hnew : s'.state = s.state - WRITE_LOCKED := by
      rw [hstate]; simp only [if_true]
      have : WRITE_LOCKED ≤ s.state := by komega
      unfold wsub; komega
    have hcnt' : cnt (s.state - WRITE_LOCKED) = 0 := by komega
    obtain ⟨o, lt32, pcwf, wl, cntR, noRW, uniqW, nrace, chain, lw, seenle, seenW, seenR⟩ := hinv
    simp only [if_true] at hlastw
    have hWall : ∀ j, holdsW (s'.ths j) = false := by
      intro j; by_cases hj : j = i
      · subst hj; rw [hthsi]; exact hnW
      · rw [hthsj j hj]
        cases h : holdsW (s.ths j) with
        | false => rfl
        | true => exact absurd (uniqW j i h hWi) hj
    have hRall : ∀ j, holdsR (s'.ths j) = false := by
      intro j; by_cases hj : j = i
      · subst hj; rw [hthsi]; exact hnR
      · rw [hthsj j hj]; exact hnor j
    have hnR' : nR s' = 0 := by
      unfold nR
      rw [countP_range_zero_iff]
      intro j _; exact hRall j
    refine ⟨?_, ?_, ?_, ?_, ?_, ?_, ?_, ?_, ?_, ?_, ?_, ?_, ?_⟩
    · intro j hj
      have : j ≠ i := by omega
      rw [hthsj j this]; exact o j (by omega)
    · rw [hnew]; komega
    · intro j; by_cases hj : j = i
      · subst hj; rw [hthsi]; exact hwf
      · rw [hthsj j hj]; exact pcwf j
    · rw [hnew]
      constructor
      · intro h; exfalso; komega
      · rintro ⟨j, hj⟩; rw [hWall j] at hj; cases hj
    · intro _; rw [hnew, hnR']; exact hcnt'
    · rintro ⟨j, hj⟩; rw [hWall j] at hj; cases hj
    · intro a b ha; rw [hWall a] at ha; cases ha
    · rw [hraced]; exact nrace
    · rw [hwseen, hnrel]
    · rw [hlastw, hnrel]; omega
    · intro j; rw [hnrel]; by_cases hj : j = i
      · subst hj; rw [hthsi, hseen]; have := seenle j; omega
      · rw [hthsj j hj]; have := seenle j; omega
    · intro j hj; rw [hWall j] at hj; cases hj
    · intro j hj; rw [hRall j] at hj; cases hj

theorem inv_unlockR (s s' : St) (i : Nat) (t' : Th) (hinv : RInv s) (hi : i < s.n)
    (hpc : (s.ths i).pc = .unlock false) (hwf : PcWf t'.pc) (hseen : t'.seen = (s.ths i).seen)
    (hnR : holdsR t' = false) (hnW : holdsW t' = false)
    (hn : s'.n = s.n) (hths : ∀ j, s'.ths j = if j = i then t' else s.ths j)
    (hstate : s'.state = wsub s.state 1)
    (hwseen : s'.wseen = s.nrel + 1) (hnrel : s'.nrel = s.nrel + 1)
    (hlastw : s'.lastWrel = s.lastWrel) (hraced : s'.raced = s.raced) : RInv s' :=
  inv_unlock' s s' i false t' hinv hi hpc hwf hseen hnR hnW hn hths (by simpa using hstate) hwseen hnrel
    (by simpa using hlastw) hraced

theorem inv_unlockW (s s' : St) (i : Nat) (t' : Th) (hinv : RInv s) (hi : i < s.n)
    (hpc : (s.ths i).pc = .unlock true) (hwf : PcWf t'.pc) (hseen : t'.seen = (s.ths i).seen)
    (hnR : holdsR t' = false) (hnW : holdsW t' = false)
    (hn : s'.n = s.n) (hths : ∀ j, s'.ths j = if j = i then t' else s.ths j)
    (hstate : s'.state = wsub s.state WRITE_LOCKED)
    (hwseen : s'.wseen = s.nrel + 1) (hnrel : s'.nrel = s.nrel + 1)
    (hlastw : s'.lastWrel = s.nrel + 1) (hraced : s'.raced = s.raced) : RInv s' :=
  inv_unlock' s s' i true t' hinv hi hpc hwf hseen hnR hnW hn hths (by simpa using hstate) hwseen hnrel
    (by simpa using hlastw) hraced

/-- a guarded access by a guard holder never races -/
theorem inv_data (s : St) (i : Nat) (w : Bool) (k : Nat) (hinv : RInv s) (hi : i < s.n)
    (hpc : (s.ths i).pc = .hold w (k + 1)) :
    RInv (setPc { s with raced := s.raced ||
        (if w then decide ((s.ths i).seen < s.nrel) else decide ((s.ths i).seen < s.lastWrel)) } i (.hold w k)) := by
  have hbad : (if w then decide ((s.ths i).seen < s.nrel) else decide ((s.ths i).seen < s.lastWrel)) = false := by
    cases w with
    | true =>
      have := hinv.seenW i (by simp [holdsW, hpc])
      simp; omega
    | false =>
      have := hinv.seenR i (by simp [holdsR, hpc])
      simp; omega
  rw [hbad, Bool.or_false]
  have := inv_frame s i { s.ths i with pc := .hold w k } s.state hinv hi hinv.lt32 rfl rfl
    (by cases w <;> simp [holdsR, hpc]) (by cases w <;> simp [holdsW, hpc]) (by simp [PcWf])
  exact this

theorem inv_notify (s : St) (x : Nat) (hinv : RInv s) : RInv { s with notify := x } :=
  ⟨hinv.outside, hinv.lt32, hinv.pcwf, hinv.wl, hinv.cntR, hinv.noRW, hinv.uniqW, hinv.nrace, hinv.chain, hinv.lw,
    hinv.seenle, hinv.seenW, hinv.seenR⟩

theorem setPc_eq (s : St) (i : Nat) (pc : Pc) : setPc s i pc = setTh s i { s.ths i with pc := pc } := rfl

/-- pc-only step of a thread that holds no guard before or after -/
theorem inv_setpc (s : St) (i : Nat) (pc : Pc) (hinv : RInv s) (hi : i < s.n)
    (hR : holdsR { s.ths i with pc := pc } = holdsR (s.ths i)) (hW : holdsW { s.ths i with pc := pc } = holdsW (s.ths i))
    (hwf : PcWf pc) : RInv (setPc s i pc) :=
  inv_frame s i { s.ths i with pc := pc } s.state hinv hi hinv.lt32 rfl rfl hR hW hwf

theorem inv_wakeOne (c : Cfg) (s : St) (j : Nat) (hinv : RInv s) (hj : j < s.n) : RInv (wakeOne c s j) := by
  unfold wakeOne
  refine inv_frame s j _ s.state hinv hj hinv.lt32 rfl rfl ?_ ?_ ?_
  · cases hp : (s.ths j).pc <;> simp [holdsR, wokenPc, hp]
  · cases hp : (s.ths j).pc <;> simp [holdsW, wokenPc, hp]
  · have := hinv.pcwf j
    cases hp : (s.ths j).pc <;> simp_all [PcWf, wokenPc]

theorem inv_wakeAll (c : Cfg) (s : St) (l : List Nat) (hinv : RInv s) (hl : ∀ j ∈ l, j < s.n) :
    RInv (wakeAll c s l) ∧ (wakeAll c s l).n = s.n := by
  induction l generalizing s with
  | nil => exact ⟨hinv, rfl⟩
  | cons j rest ih =>
    simp only [wakeAll]
    have hj : j < s.n := hl j (by simp)
    have := ih (wakeOne c s j) (inv_wakeOne c s j hinv hj) (by intro k hk; simpa [wakeOne] using hl k (by simp [hk]))
    exact ⟨this.1, this.2.trans rfl⟩

/-! ### pc-level views of the guard predicates, and facts about the computed continuations -/

def Pc.isR : Pc → Bool
  | .acquired false | .hold false _ | .unlock false => true
  | _ => false
def Pc.isW : Pc → Bool
  | .acquired true | .hold true _ | .unlock true => true
  | _ => false

theorem holdsR_eq (t : Th) : holdsR t = t.pc.isR := by
  unfold holdsR Pc.isR; cases t.pc <;> rfl
theorem holdsW_eq (t : Th) : holdsW t = t.pc.isW := by
  unfold holdsW Pc.isW; cases t.pc <;> rfl

/-- a pc that carries no guard and whose local-state facts hold -/
def Plain (pc : Pc) : Prop := pc.isR = false ∧ pc.isW = false ∧ PcWf pc

theorem plain_rNext (v : Nat) : Plain (rNext v) := by
  unfold rNext Plain
  split
  · simp_all [Pc.isR, Pc.isW, PcWf]
  · repeat' split
    all_goals simp [Pc.isR, Pc.isW, PcWf]

theorem plain_wNext (v : Nat) (o : Bool) : Plain (wNext v o) := by
  unfold wNext Plain
  split
  · simp_all [Pc.isR, Pc.isW, PcWf]
  · repeat' split
    all_goals simp [Pc.isR, Pc.isW, PcWf]

theorem plain_wakeEntry (v : Nat) : Plain (wakeEntry v) := by
  unfold wakeEntry Plain
  repeat' split
  all_goals simp_all [Pc.isR, Pc.isW, PcWf]

theorem plain_wakeAfterA (v : Nat) : Plain (wakeAfterA v) := by
  unfold wakeAfterA Plain
  repeat' split
  all_goals simp_all [Pc.isR, Pc.isW, PcWf]

/-- pc-only step to a plain pc from a pc that carries no guard -/
theorem inv_plain (s : St) (i : Nat) (pc : Pc) (hinv : RInv s) (hi : i < s.n)
    (h0 : (s.ths i).pc.isR = false ∧ (s.ths i).pc.isW = false) (hp : Plain pc) : RInv (setPc s i pc) := by
  refine inv_setpc s i pc hinv hi ?_ ?_ hp.2.2
  · rw [holdsR_eq, holdsR_eq]; simp [hp.1, h0.1]
  · rw [holdsW_eq, holdsW_eq]; simp [hp.2.1, h0.2]

/-- relaxed RMW on `state` that keeps the count field (setting / clearing waiting bits) by a guard-less thread -/
theorem inv_bits (s : St) (i : Nat) (new : Nat) (pc : Pc) (hinv : RInv s) (hi : i < s.n)
    (hnew : new < TWO32) (hcnt : cnt new = cnt s.state)
    (h0 : (s.ths i).pc.isR = false ∧ (s.ths i).pc.isW = false) (hp : Plain pc) :
    RInv (rmwState s i false false new pc) := by
  unfold rmwState
  simp only [Bool.false_eq_true, if_false, false_and]
  refine inv_frame s i _ new hinv hi hnew hcnt rfl ?_ ?_ hp.2.2
  · rw [holdsR_eq, holdsR_eq]; simp [hp.1, h0.1]
  · rw [holdsW_eq, holdsW_eq]; simp [hp.2.1, h0.2]

end TinyVerif.RwLock
