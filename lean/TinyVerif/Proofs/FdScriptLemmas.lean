/- Helper lemmas for C12: the symbolic table of `chkAux` is the table of `run`, on every path. -/
import TinyVerif.Model.FdScript
namespace TinyVerif.FdScript

/-- nothing released twice, nothing foreign released, no slot open twice -/
def St.Clean (s : St) : Prop := s.dbl = [] ∧ s.foreign = [] ∧ s.opn.Nodup

/-- every enclosing loop body checks from the table recorded at its entry -/
def StackOK : List Script → List (List Var) → Prop
  | [], [] => True
  | b :: bs, h :: hs => chkAux b h (h :: hs) = true ∧ StackOK bs hs
  | [], _ :: _ => False
  | _ :: _, [] => False

/-- what `chk` guarantees of a finished (or interrupted) run -/
def Good (f : Final) : Prop :=
  f.cfg.st.Clean ∧ ∀ ok h, f.out = .ret ok h → ∀ v, v ∈ f.cfg.st.opn ↔ v ∈ h

theorem subset_iff (a b : List Var) : subset a b = true ↔ ∀ v, v ∈ a → v ∈ b := by
  simp [subset, List.all_eq_true]

theorem nodupB_iff (l : List Var) : nodupB l = true ↔ l.Nodup := by
  induction l with
  | nil => simp [nodupB]
  | cons a t ih => simp [nodupB, ih, List.nodup_cons]

theorem open1_clean (s : St) (v : Var) (h : s.Clean) (hv : v ∉ s.opn) : (s.open1 v).Clean := by
  obtain ⟨h1, h2, h3⟩ := h
  exact ⟨h1, h2, List.nodup_cons.mpr ⟨hv, h3⟩⟩

theorem close1_clean (s : St) (v : Var) (h : s.Clean) (hv : v ∈ s.opn) :
    (s.close1 v).Clean ∧ (s.close1 v).opn = s.opn.erase v := by
  obtain ⟨h1, h2, h3⟩ := h
  have e : s.close1 v = { s with opn := s.opn.erase v, closed := v :: s.closed } := by
    simp [St.close1, hv]
  rw [e]
  exact ⟨⟨h1, h2, h3.erase v⟩, rfl⟩

theorem effOk_sound (s : St) (eff : Eff) (o1 : List Var) (hc : s.Clean)
    (h : effOk s.opn eff = some o1) : (s.applyOk eff).Clean ∧ (s.applyOk eff).opn = o1 := by
  cases eff with
  | none => simp [effOk] at h; subst h; exact ⟨hc, rfl⟩
  | opens v =>
    simp only [effOk] at h
    split at h
    · cases h
    · rename_i hv
      simp at hv h
      subst h
      exact ⟨open1_clean s v hc hv, rfl⟩
  | maps v =>
    simp only [effOk] at h
    split at h
    · cases h
    · rename_i hv
      simp at hv h
      subst h
      exact ⟨open1_clean s v hc hv, rfl⟩
  | opens2 v w =>
    simp only [effOk] at h
    split at h
    · cases h
    · rename_i hv
      simp at hv h
      subst h
      obtain ⟨⟨hv1, hw⟩, hne⟩ := hv
      have c1 := open1_clean s v hc hv1
      have : w ∉ (s.open1 v).opn := by
        simp only [St.open1, List.mem_cons, not_or]
        exact ⟨fun e => hne e.symm, hw⟩
      exact ⟨open1_clean _ w c1 this, rfl⟩
  | closes v =>
    simp only [effOk] at h
    split at h
    · rename_i hv
      simp at hv h
      subst h
      exact close1_clean s v hc hv
    · cases h
  | unmaps v =>
    simp only [effOk] at h
    split at h
    · rename_i hv
      simp at hv h
      subst h
      exact close1_clean s v hc hv
    · cases h

theorem effErr_sound (s : St) (eff : Eff) (o1 : List Var) (hc : s.Clean)
    (h : effErr s.opn eff = some o1) : (s.applyErr eff).Clean ∧ (s.applyErr eff).opn = o1 := by
  cases eff with
  | closes v =>
    simp only [effErr] at h
    split at h
    · rename_i hv
      simp at hv h
      subst h
      exact close1_clean s v hc hv
    · cases h
  | none => simp [effErr] at h; subst h; exact ⟨hc, rfl⟩
  | opens v => simp [effErr] at h; subst h; exact ⟨hc, rfl⟩
  | opens2 v w => simp [effErr] at h; subst h; exact ⟨hc, rfl⟩
  | maps v => simp [effErr] at h; subst h; exact ⟨hc, rfl⟩
  | unmaps v => simp [effErr] at h; subst h; exact ⟨hc, rfl⟩

/-- The simulation: from a clean table that `chkAux` accepts, with every enclosing loop accepted from
    its entry table, every run — whatever the fuel, the answers, the step outcomes, the side of the fork —
    stays clean and, if it returns, returns with exactly the handed descriptors open. -/
theorem run_good : ∀ (n : Nat) (s : Script) (c : Cfg) (hs : List (List Var)),
    c.st.Clean → chkAux s c.st.opn hs = true → StackOK c.stack hs → Good (run n s c) := by
  intro n
  induction n with
  | zero =>
    intro s c hs hc _ _
    exact ⟨hc, by intro ok h e; cases e⟩
  | succ n ih =>
    intro s c hs hc hk hst
    cases s with
    | ret ok h =>
      simp only [chkAux, Bool.and_eq_true, subset_iff] at hk
      refine ⟨hc, ?_⟩
      intro ok' h' e v
      simp only [run] at e
      cases e
      exact ⟨hk.1 v, hk.2 v⟩
    | exits => exact ⟨hc, by intro ok h e; simp [run] at e⟩
    | execs => exact ⟨hc, by intro ok h e; simp [run] at e⟩
    | sys name eff ok err =>
      simp only [chkAux] at hk
      split at hk
      · rename_i o1 o2 h1 h2
        simp only [Bool.and_eq_true] at hk
        have s1 := effOk_sound c.st eff o1 hc h1
        have s2 := effErr_sound c.st eff o2 hc h2
        simp only [run]
        split
        · exact ⟨hc, by intro ok h e; cases e⟩
        · apply ih _ _ hs
          · exact s1.1
          · simp only [s1.2]; exact hk.1
          · exact hst
        · apply ih _ _ hs
          · exact s2.1
          · simp only [s2.2]; exact hk.2
          · exact hst
      · cases hk
    | ifVal v t f =>
      simp only [chkAux, Bool.and_eq_true] at hk
      simp only [run]
      split
      · split
        · exact ih _ _ hs hc hk.1 hst
        · exact ih _ _ hs hc hk.2 hst
      · exact ih _ _ hs hc hk.2 hst
    | ifErr e t f =>
      simp only [chkAux, Bool.and_eq_true] at hk
      simp only [run]
      split
      · split
        · exact ih _ _ hs hc hk.1 hst
        · exact ih _ _ hs hc hk.2 hst
      · exact ih _ _ hs hc hk.2 hst
    | step name y no =>
      simp only [chkAux, Bool.and_eq_true] at hk
      simp only [run]
      split
      · exact ⟨hc, by intro ok h e; cases e⟩
      · exact ih _ _ hs hc hk.1 hst
      · exact ih _ _ hs hc hk.2 hst
    | loop body =>
      simp only [chkAux] at hk
      simp only [run]
      exact ih _ _ (c.st.opn :: hs) hc hk ⟨hk, hst⟩
    | again =>
      simp only [run]
      cases hcs : c.stack with
      | nil => exact ⟨hc, by intro ok h e; cases e⟩
      | cons b bs =>
        cases hs with
        | nil => simp [chkAux] at hk
        | cons h0 hs' =>
          simp only [chkAux, beq_iff_eq] at hk
          rw [hcs] at hst
          simp only [StackOK] at hst
          apply ih _ _ (h0 :: hs') hc
          · rw [hk]; exact hst.1
          · rw [hcs]; exact hst
    | exit k =>
      simp only [run]
      cases hcs : c.stack with
      | nil => exact ⟨hc, by intro ok h e; cases e⟩
      | cons b bs =>
        cases hs with
        | nil => simp [chkAux] at hk
        | cons h0 hs' =>
          simp only [chkAux] at hk
          rw [hcs] at hst
          simp only [StackOK] at hst
          exact ih _ _ hs' hc hk hst.2
    | fork p ch e =>
      simp only [chkAux, Bool.and_eq_true] at hk
      simp only [run]
      split
      · exact ⟨hc, by intro ok h e; cases e⟩
      · exact ih _ _ hs hc hk.2 hst
      · split
        · exact ih _ _ hs hc hk.1.1 hst
        · exact ih _ _ hs hc hk.1.2 hst

end TinyVerif.FdScript
