/- Helper lemmas for C12: the symbolic table of `chkAux` is the table of `run`, on every path. -/
import TinyVerif.Model.FdScript
namespace TinyVerif.FdScript

/-- nothing released twice, nothing foreign released, no slot open twice -/
def St.Clean (s : St) : Prop := s.dbl = [] ∧ s.foreign = [] ∧ s.opn.Nodup

/-- every enclosing loop body checks from the table recorded at its entry -/
def StackOK : List Script → List (List Var) → Prop
  | [], [] => True
  | b :: bs, h :: hs => chkAux b h (h :: hs) = true ∧ StackOK bs hs
  | [], _ :: _ => False
  | _ :: _, [] => False

/-- what `chk` guarantees of a finished (or interrupted) run -/
def Good (f : Final) : Prop :=
  f.cfg.st.Clean ∧ ∀ ok h, f.out = .ret ok h → ∀ v, v ∈ f.cfg.st.opn ↔ v ∈ h

theorem subset_iff (a b : List Var) : subset a b = true ↔ ∀ v, v ∈ a → v ∈ b := by
  simp [subset, List.all_eq_true]

theorem nodupB_iff (l : List Var) : nodupB l = true ↔ l.Nodup := by
  induction l with
  | nil => simp [nodupB]
  | cons a t ih => simp [nodupB, ih, List.nodup_cons]

theorem open1_clean (s : St) (v : Var) (h : s.Clean) (hv : v ∉ s.opn) : (s.open1 v).Clean := by
  obtain ⟨h1, h2, h3⟩ := h
  exact ⟨h1, h2, List.nodup_cons.mpr ⟨hv, h3⟩⟩

theorem close1_clean (s : St) (v : Var) (h : s.Clean) (hv : v ∈ s.opn) :
    (s.close1 v).Clean ∧ (s.close1 v).opn = s.opn.erase v := by
  obtain ⟨h1, h2, h3⟩ := h
  have e : s.close1 v = { s with opn := s.opn.erase v, closed := v :: s.closed } := by
    simp [St.close1, hv]
  rw [e]
  exact ⟨⟨h1, h2, h3.erase v⟩, rfl⟩

theorem opensAll_sound : ∀ (vs : List Var) (s : St) (o1 : List Var), s.Clean → opensAll s.opn vs = some o1 →
    (vs.foldl St.open1 s).Clean ∧ (vs.foldl St.open1 s).opn = o1
  | [], s, o1, hc, h => by
    simp only [opensAll, Option.some.injEq] at h
    subst h
    exact ⟨hc, rfl⟩
  | v :: r, s, o1, hc, h => by
    simp only [opensAll] at h
    split at h
    · cases h
    · rename_i hv
      simp at hv
      exact opensAll_sound r (s.open1 v) o1 (open1_clean s v hc hv) h

theorem effOk_sound (s : St) (eff : Eff) (o1 : List Var) (hc : s.Clean)
    (h : effOk s.opn eff = some o1) : (s.applyOk eff).Clean ∧ (s.applyOk eff).opn = o1 := by
  cases eff with
  | none => simp [effOk] at h; subst h; exact ⟨hc, rfl⟩
  | opens v =>
    simp only [effOk] at h
    split at h
    · cases h
    · rename_i hv
      simp at hv h
      subst h
      exact ⟨open1_clean s v hc hv, rfl⟩
  | maps v =>
    simp only [effOk] at h
    split at h
    · cases h
    · rename_i hv
      simp at hv h
      subst h
      exact ⟨open1_clean s v hc hv, rfl⟩
  | opens2 v w =>
    simp only [effOk] at h
    split at h
    · cases h
    · rename_i hv
      simp at hv h
      subst h
      obtain ⟨⟨hv1, hw⟩, hne⟩ := hv
      have c1 := open1_clean s v hc hv1
      have : w ∉ (s.open1 v).opn := by
        simp only [St.open1, List.mem_cons, not_or]
        exact ⟨fun e => hne e.symm, hw⟩
      exact ⟨open1_clean _ w c1 this, rfl⟩
  | opensL vs => exact opensAll_sound vs s o1 hc h
  | closes v =>
    simp only [effOk] at h
    split at h
    · rename_i hv
      simp at hv h
      subst h
      exact close1_clean s v hc hv
    · cases h
  | unmaps v =>
    simp only [effOk] at h
    split at h
    · rename_i hv
      simp at hv h
      subst h
      exact close1_clean s v hc hv
    · cases h

theorem effErr_sound (s : St) (eff : Eff) (o1 : List Var) (hc : s.Clean)
    (h : effErr s.opn eff = some o1) : (s.applyErr eff).Clean ∧ (s.applyErr eff).opn = o1 := by
  cases eff with
  | closes v =>
    simp only [effErr] at h
    split at h
    · rename_i hv
      simp at hv h
      subst h
      exact close1_clean s v hc hv
    · cases h
  | none => simp [effErr] at h; subst h; exact ⟨hc, rfl⟩
  | opens v => simp [effErr] at h; subst h; exact ⟨hc, rfl⟩
  | opens2 v w => simp [effErr] at h; subst h; exact ⟨hc, rfl⟩
  | opensL vs => simp [effErr] at h; subst h; exact ⟨hc, rfl⟩
  | maps v => simp [effErr] at h; subst h; exact ⟨hc, rfl⟩
  | unmaps v => simp [effErr] at h; subst h; exact ⟨hc, rfl⟩

/-- The simulation: from a clean table that `chkAux` accepts, with every enclosing loop accepted from
    its entry table, every run — whatever the fuel, the answers, the step outcomes, the side of the fork —
    stays clean and, if it returns, returns with exactly the handed descriptors open. -/
theorem run_good : ∀ (n : Nat) (s : Script) (c : Cfg) (hs : List (List Var)),
    c.st.Clean → chkAux s c.st.opn hs = true → StackOK c.stack hs → Good (run n s c) := by
  intro n
  induction n with
  | zero =>
    intro s c hs hc _ _
    exact ⟨hc, by intro ok h e; cases e⟩
  | succ n ih =>
    intro s c hs hc hk hst
    cases s with
    | ret ok h =>
      simp only [chkAux, Bool.and_eq_true, subset_iff] at hk
      refine ⟨hc, ?_⟩
      intro ok' h' e v
      simp only [run] at e
      cases e
      exact ⟨hk.1 v, hk.2 v⟩
    | exits => exact ⟨hc, by intro ok h e; simp [run] at e⟩
    | execs => exact ⟨hc, by intro ok h e; simp [run] at e⟩
    | sys name eff ok err =>
      simp only [chkAux] at hk
      split at hk
      · rename_i o1 o2 h1 h2
        simp only [Bool.and_eq_true] at hk
        have s1 := effOk_sound c.st eff o1 hc h1
        have s2 := effErr_sound c.st eff o2 hc h2
        simp only [run]
        split
        · exact ⟨hc, by intro ok h e; cases e⟩
        · apply ih _ _ hs
          · exact s1.1
          · simp only [s1.2]; exact hk.1
          · exact hst
        · apply ih _ _ hs
          · exact s2.1
          · simp only [s2.2]; exact hk.2
          · exact hst
      · cases hk
    | ifVal v t f =>
      simp only [chkAux, Bool.and_eq_true] at hk
      simp only [run]
      split
      · split
        · exact ih _ _ hs hc hk.1 hst
        · exact ih _ _ hs hc hk.2 hst
      · exact ih _ _ hs hc hk.2 hst
    | ifErr e t f =>
      simp only [chkAux, Bool.and_eq_true] at hk
      simp only [run]
      split
      · split
        · exact ih _ _ hs hc hk.1 hst
        · exact ih _ _ hs hc hk.2 hst
      · exact ih _ _ hs hc hk.2 hst
    | step name y no =>
      simp only [chkAux, Bool.and_eq_true] at hk
      simp only [run]
      split
      · exact ⟨hc, by intro ok h e; cases e⟩
      · exact ih _ _ hs hc hk.1 hst
      · exact ih _ _ hs hc hk.2 hst
    | loop body =>
      simp only [chkAux] at hk
      simp only [run]
      exact ih _ _ (c.st.opn :: hs) hc hk ⟨hk, hst⟩
    | again =>
      simp only [run]
      cases hcs : c.stack with
      | nil => exact ⟨hc, by intro ok h e; cases e⟩
      | cons b bs =>
        cases hs with
        | nil => simp [chkAux] at hk
        | cons h0 hs' =>
          simp only [chkAux, beq_iff_eq] at hk
          rw [hcs] at hst
          simp only [StackOK] at hst
          apply ih _ _ (h0 :: hs') hc
          · rw [hk]; exact hst.1
          · rw [hcs]; exact hst
    | exit k =>
      simp only [run]
      cases hcs : c.stack with
      | nil => exact ⟨hc, by intro ok h e; cases e⟩
      | cons b bs =>
        cases hs with
        | nil => simp [chkAux] at hk
        | cons h0 hs' =>
          simp only [chkAux] at hk
          rw [hcs] at hst
          simp only [StackOK] at hst
          exact ih _ _ hs' hc hk hst.2
    | fork p ch e =>
      simp only [chkAux, Bool.and_eq_true] at hk
      simp only [run]
      split
      · exact ⟨hc, by intro ok h e; cases e⟩
      · exact ih _ _ hs hc hk.2 hst
      · split
        · exact ih _ _ hs hc hk.1.1 hst
        · exact ih _ _ hs hc hk.1.2 hst

/-! ## number level -/

theorem cnt_le (t : List Nat) (n : Nat) :
    (t.filter (fun x => decide (n + 1 ≤ x))).length ≤ (t.filter (fun x => decide (n ≤ x))).length := by
  induction t with
  | nil => simp
  | cons a r ih =>
    simp only [List.filter_cons]
    by_cases h1 : n + 1 ≤ a
    · have h2 : n ≤ a := by omega
      simp [h1, h2]; exact ih
    · by_cases h2 : n ≤ a
      · simp [h1, h2]; omega
      · simp [h1, h2]; exact ih

theorem cnt_lt (t : List Nat) (n : Nat) (h : n ∈ t) :
    (t.filter (fun x => decide (n + 1 ≤ x))).length < (t.filter (fun x => decide (n ≤ x))).length := by
  induction t with
  | nil => cases h
  | cons a r ih =>
    simp only [List.filter_cons]
    by_cases hna : n = a
    · subst hna
      have := cnt_le r n
      have h1 : ¬ (n + 1 ≤ n) := by omega
      simp [h1]; omega
    · have hr : n ∈ r := by
        cases h with
        | head => exact absurd rfl hna
        | tail _ h => exact h
      have := ih hr
      by_cases h1 : n + 1 ≤ a
      · have h2 : n ≤ a := by omega
        simp [h1, h2]; exact this
      · by_cases h2 : n ≤ a
        · exfalso; omega
        · simp [h1, h2]; exact this

theorem lfGo_not_mem (t : List Nat) : ∀ (f n : Nat),
    (t.filter (fun x => decide (n ≤ x))).length ≤ f → lfGo t f n ∉ t := by
  intro f
  induction f with
  | zero =>
    intro n h hm
    simp only [lfGo] at hm
    have : n ∈ t.filter (fun x => decide (n ≤ x)) := by simp [hm]
    have h0 : t.filter (fun x => decide (n ≤ x)) = [] := List.eq_nil_of_length_eq_zero (by omega)
    rw [h0] at this
    cases this
  | succ f ih =>
    intro n h
    simp only [lfGo]
    by_cases hc : t.contains n = true
    · simp only [hc, if_true]
      apply ih
      have := cnt_lt t n (by simpa using hc)
      omega
    · simp only [hc]
      simpa using hc

/-- the number handed out is free ... -/
theorem lowestFree_not_mem (t : List Nat) : lowestFree t ∉ t := by
  apply lfGo_not_mem
  exact List.length_filter_le _ _

theorem lfGo_least (t : List Nat) : ∀ (f n m : Nat), n ≤ m → m < lfGo t f n → m ∈ t := by
  intro f
  induction f with
  | zero => intro n m h1 h2; simp only [lfGo] at h2; omega
  | succ f ih =>
    intro n m h1 h2
    simp only [lfGo] at h2
    by_cases hc : t.contains n = true
    · simp only [hc, if_true] at h2
      by_cases hmn : m = n
      · subst hmn; simpa using hc
      · exact ih (n + 1) m (by omega) h2
    · simp only [hc] at h2
      exfalso
      simp at h2
      omega

/-- ... and it is the lowest free one -/
theorem lowestFree_least (t : List Nat) (m : Nat) (h : m < lowestFree t) : m ∈ t :=
  lfGo_least t t.length 0 m (Nat.zero_le _) h

theorem map_fst_unbind (b : List Binding) (v : Var) :
    (unbind b v).map Prod.fst = (b.map Prod.fst).erase v := by
  induction b with
  | nil => simp [unbind]
  | cons e r ih =>
    obtain ⟨w, m⟩ := e
    by_cases h : w = v
    · subst h; simp [unbind]
    · simp [unbind, h, ih]

theorem lookupB_none (b : List Binding) (v : Var) (h : v ∉ b.map Prod.fst) : lookupB b v = none := by
  induction b with
  | nil => simp [lookupB]
  | cons e r ih =>
    obtain ⟨w, m⟩ := e
    simp only [List.map_cons, List.mem_cons, not_or] at h
    simp only [lookupB]
    rw [if_neg (fun e => h.1 e.symm)]
    exact ih h.2

theorem lookupB_mem (b : List Binding) (v : Var) (h : v ∈ b.map Prod.fst) : ∃ m, lookupB b v = some m := by
  induction b with
  | nil => cases h
  | cons e r ih =>
    obtain ⟨w, m⟩ := e
    by_cases hw : w = v
    · exact ⟨m, by simp [lookupB, hw]⟩
    · simp only [List.map_cons, List.mem_cons] at h
      cases h with
      | inl h => exact absurd h.symm hw
      | inr h =>
        obtain ⟨m', hm⟩ := ih h
        exact ⟨m', by simp [lookupB, hw, hm]⟩

theorem lookupB_num_mem (b : List Binding) (v : Var) (n : Nat) (h : lookupB b v = some (some n)) : n ∈ numsOf b := by
  induction b with
  | nil => simp [lookupB] at h
  | cons e r ih =>
    obtain ⟨w, m⟩ := e
    simp only [lookupB] at h
    by_cases hw : w = v
    · simp only [hw, if_true, Option.some.injEq] at h
      subst h
      simp [numsOf]
    · simp only [hw, if_false] at h
      cases m with
      | none => simp only [numsOf]; exact ih h
      | some k => simp only [numsOf, List.mem_cons]; exact Or.inr (ih h)

theorem numsOf_unbind_some (T : List Nat) (b : List Binding) (v : Var) (n : Nat)
    (hn : (numsOf b ++ T).Nodup) (h : lookupB b v = some (some n)) :
    numsOf (unbind b v) ++ T = (numsOf b ++ T).erase n := by
  induction b with
  | nil => simp [lookupB] at h
  | cons e r ih =>
    obtain ⟨w, m⟩ := e
    simp only [lookupB] at h
    by_cases hw : w = v
    · simp only [hw, if_true, Option.some.injEq] at h
      subst h
      simp [unbind, hw, numsOf]
    · simp only [hw, if_false] at h
      cases m with
      | none =>
        simp only [numsOf] at hn ⊢
        simp only [unbind, hw, if_false, numsOf]
        exact ih hn h
      | some k =>
        simp only [numsOf, List.cons_append, List.nodup_cons] at hn
        have hk : k ≠ n := by
          intro e
          subst e
          exact hn.1 (List.mem_append_left _ (lookupB_num_mem r v k h))
        simp only [unbind, hw, if_false, numsOf, List.cons_append]
        rw [List.erase_cons_tail (by simpa using hk)]
        rw [ih hn.2 h]

theorem numsOf_unbind_none (b : List Binding) (v : Var) (h : lookupB b v = some none) :
    numsOf (unbind b v) = numsOf b := by
  induction b with
  | nil => simp [lookupB] at h
  | cons e r ih =>
    obtain ⟨w, m⟩ := e
    simp only [lookupB] at h
    by_cases hw : w = v
    · simp only [hw, if_true, Option.some.injEq] at h
      subst h
      simp [unbind, hw, numsOf]
    · simp only [hw, if_false] at h
      cases m with
      | none => simp only [unbind, hw, if_false, numsOf]; exact ih h
      | some k => simp only [unbind, hw, if_false, numsOf]; rw [ih h]

/-- the kernel table mirrors the operation's table: the same slots in the same order; the numbers open are
    those bound to the slots followed by the foreign ones `T`, unchanged; no number twice -/
def KInv (T : List Nat) (st : St) (k : KTab) : Prop :=
  k.bind.map Prod.fst = st.opn ∧ k.tab = numsOf k.bind ++ T ∧ k.tab.Nodup

theorem kinv_open1 (T : List Nat) (st : St) (k : KTab) (v : Var) (h : KInv T st k) :
    KInv T (st.open1 v) (k.open1 v) := by
  obtain ⟨h1, h2, h3⟩ := h
  refine ⟨by simp [KTab.open1, St.open1, h1], by simp [KTab.open1, numsOf, h2], ?_⟩
  simp only [KTab.open1, List.nodup_cons]
  exact ⟨lowestFree_not_mem _, h3⟩

theorem kinv_map1 (T : List Nat) (st : St) (k : KTab) (v : Var) (h : KInv T st k) :
    KInv T (st.open1 v) (k.map1 v) := by
  obtain ⟨h1, h2, h3⟩ := h
  exact ⟨by simp [KTab.map1, St.open1, h1], by simp [KTab.map1, numsOf, h2], by simpa [KTab.map1] using h3⟩

theorem kinv_close1 (T : List Nat) (st : St) (k : KTab) (v : Var) (h : KInv T st k) :
    KInv T (st.close1 v) (k.close1 v) := by
  obtain ⟨h1, h2, h3⟩ := h
  by_cases hv : v ∈ st.opn
  · have e : st.close1 v = { st with opn := st.opn.erase v, closed := v :: st.closed } := by
      simp [St.close1, hv]
    rw [e]
    obtain ⟨m, hm⟩ := lookupB_mem k.bind v (by rw [h1]; exact hv)
    cases m with
    | none =>
      simp only [KTab.close1, hm]
      refine ⟨by rw [map_fst_unbind, h1], ?_, h3⟩
      simp only [numsOf_unbind_none _ _ hm]
      exact h2
    | some n =>
      simp only [KTab.close1, hm]
      refine ⟨by rw [map_fst_unbind, h1], ?_, h3.erase n⟩
      simp only
      rw [numsOf_unbind_some T _ _ _ (by rw [← h2]; exact h3) hm, h2]
  · have hl := lookupB_none k.bind v (by rw [h1]; exact hv)
    have e : (st.close1 v).opn = st.opn := by
      simp only [St.close1, hv, if_false]
      split <;> rfl
    simp only [KTab.close1, hl]
    exact ⟨by rw [e]; exact h1, h2, h3⟩

theorem kinv_openAll (T : List Nat) : ∀ (vs : List Var) (st : St) (k : KTab), KInv T st k →
    KInv T (vs.foldl St.open1 st) (vs.foldl KTab.open1 k)
  | [], _, _, h => h
  | v :: r, st, k, h => kinv_openAll T r (st.open1 v) (k.open1 v) (kinv_open1 T st k v h)

theorem kinv_applyOk (T : List Nat) (st : St) (k : KTab) (eff : Eff) (h : KInv T st k) :
    KInv T (st.applyOk eff) (k.applyOk eff) := by
  cases eff with
  | none => exact h
  | opens v => exact kinv_open1 T st k v h
  | opens2 v w => exact kinv_open1 T _ _ w (kinv_open1 T st k v h)
  | opensL vs => exact kinv_openAll T vs st k h
  | closes v => exact kinv_close1 T st k v h
  | maps v => exact kinv_map1 T st k v h
  | unmaps v => exact kinv_close1 T st k v h

theorem kinv_applyErr (T : List Nat) (st : St) (k : KTab) (eff : Eff) (h : KInv T st k) :
    KInv T (st.applyErr eff) (k.applyErr eff) := by
  cases eff with
  | closes v => exact kinv_close1 T st k v h
  | none => exact h
  | opens v => exact h
  | opens2 v w => exact h
  | opensL vs => exact h
  | maps v => exact h
  | unmaps v => exact h

/-- `runK` is `run` with book-keeping: the same outcome, trace, slots on every input -/
theorem runK_fst : ∀ (n : Nat) (s : Script) (c : Cfg) (k : KTab), (runK n s c k).1 = run n s c := by
  intro n
  induction n with
  | zero => intro s c k; rfl
  | succ n ih =>
    intro s c k
    cases s with
    | ret ok h => rfl
    | exits => rfl
    | execs => rfl
    | sys name eff ok err =>
      simp only [runK, run]
      split <;> first | rfl | exact ih _ _ _
    | ifVal v t f =>
      simp only [runK, run]
      split
      · split <;> exact ih _ _ _
      · exact ih _ _ _
    | ifErr e t f =>
      simp only [runK, run]
      split
      · split <;> exact ih _ _ _
      · exact ih _ _ _
    | step name y no =>
      simp only [runK, run]
      split <;> first | rfl | exact ih _ _ _
    | loop body => simp only [runK, run]; exact ih _ _ _
    | again =>
      simp only [runK, run]
      split <;> first | rfl | exact ih _ _ _
    | exit kk =>
      simp only [runK, run]
      split <;> first | rfl | exact ih _ _ _
    | fork p ch e =>
      simp only [runK, run]
      split
      · rfl
      · exact ih _ _ _
      · split <;> exact ih _ _ _

/-- the mirror holds along every run, accepted by the checker or not -/
theorem runK_inv (T : List Nat) : ∀ (n : Nat) (s : Script) (c : Cfg) (k : KTab),
    KInv T c.st k → KInv T (runK n s c k).1.cfg.st (runK n s c k).2 := by
  intro n
  induction n with
  | zero => intro s c k h; exact h
  | succ n ih =>
    intro s c k h
    cases s with
    | ret ok hd => exact h
    | exits => exact h
    | execs => exact h
    | sys name eff ok err =>
      simp only [runK]
      split
      · exact h
      · exact ih _ _ _ (kinv_applyOk T _ _ eff h)
      · exact ih _ _ _ (kinv_applyErr T _ _ eff h)
    | ifVal v t f =>
      simp only [runK]
      split
      · split <;> exact ih _ _ _ h
      · exact ih _ _ _ h
    | ifErr e t f =>
      simp only [runK]
      split
      · split <;> exact ih _ _ _ h
      · exact ih _ _ _ h
    | step name y no =>
      simp only [runK]
      split
      · exact h
      · exact ih _ _ _ h
      · exact ih _ _ _ h
    | loop body => simp only [runK]; exact ih _ _ _ h
    | again =>
      simp only [runK]
      split
      · exact h
      · exact ih _ _ _ h
    | exit kk =>
      simp only [runK]
      split
      · exact h
      · exact ih _ _ _ h
    | fork p ch e =>
      simp only [runK]
      split
      · exact h
      · exact ih _ _ _ h
      · split <;> exact ih _ _ _ h

end TinyVerif.FdScript
