import TinyVerif.Proofs.DlProgSpec
import TinyVerif.Proofs.DlIndAll
/-!
# Progress of `free_heap` / `dispose_chunk` (tag `fp_`)

From `SInv s` and a user chunk of at least `MIN_CHUNK_SIZE` (32) bytes the coalescing code raises no error outcome:
`fp_free_heap_prog : free_heap_Prog`, `fp_dispose_chunk_prog : dispose_chunk_Prog`.

**Why the hypothesis `32 ≤ size`** (added to `DlProgSpec` after this finding): `SInv` does not say that a user chunk
has at least 32 bytes (`shapeOk` only gives 16; the bound for live chunks is part of `liveOk`).  `fp_cexSt` is a state
satisfying `SInv` with a 16-byte user chunk between in-use neighbours on which both functions end in
`debug_assert:insert_small_chunk-size` (`fp_cex`).  Unreachable — `malloc` never creates a chunk below 32 bytes —
so not a defect of the allocator; the bound is available at every call site (`liveOk` for live blocks,
`MIN_CHUNK_SIZE ≤ rsize` for the remainders handed to `dispose_chunk`).

Structure as in `Proofs/DlIndFree2.lean`: `fp_back_total` (the backward block `fr_backStep` is total), `fp_fwd`
(`fp_FwdT`: every primitive call of the forward step succeeds), instantiated twice.
-/
namespace TinyVerif.Dl

open List

/-! ## the heap primitives on a run: total -/

theorem fp_failIf {c : Bool} (msg : String) (h : c = false) : Total (failIf c msg) := ⟨(), failIf_ok.2 h⟩

theorem fp_set_size_free {h : Heap} {pre post : List Ent} {a y : Ent} {as : List Ent} {P sz : Nat}
    (hes : h.ents = pre ++ (a :: (as ++ [y])) ++ post) (hb : fr_Bounds pre a as y post) (hP : a.addr = P)
    (hend : y.addr = P + sz) (h8 : sz % 8 = 0) : Total (set_size_and_pinuse_of_free_chunk h P sz) := by
  unfold set_size_and_pinuse_of_free_chunk
  refine Total.bind ⟨_, writeHead_eq h8⟩ ?_
  intro h1 e1
  have r1 := fr_writeHead_run e1 hes hb hP hend
  subst r1
  obtain ⟨b1, b2, b3, b4⟩ := hb
  rw [← hend]
  refine ⟨_, setFoot_at (pre := pre ++ [{ addr := P, size := sz, cin := false, pin := true, pfoot := a.pfoot }])
    (x := y) (post := post) (by simp) ?_⟩
  intro q hq
  rcases List.mem_append.1 hq with hq | hq
  · have := b1 q hq; have := b2 a List.mem_cons_self; omega
  · simp only [List.mem_singleton] at hq; subst hq
    have := b2 a List.mem_cons_self
    simp only; omega

theorem fp_set_free {h : Heap} {pre post : List Ent} {a y : Ent} {as : List Ent} {P sz nx : Nat}
    (hes : h.ents = pre ++ (a :: (as ++ [y])) ++ post) (hb : fr_Bounds pre a as y post) (hP : a.addr = P)
    (hend : y.addr = P + sz) (hnx : nx = y.addr) (h8 : sz % 8 = 0) : Total (set_free_with_pinuse h P sz nx) := by
  unfold set_free_with_pinuse
  subst hnx
  have e1 := clearPin_at (h := h) (pre := pre ++ a :: as) (x := y) (post := post) (by rw [hes]; simp)
    (by
      intro q hq
      obtain ⟨b1, b2, b3, b4⟩ := hb
      rcases List.mem_append.1 hq with hq | hq
      · have := b1 q hq; have := b2 a List.mem_cons_self; omega
      · have := b2 q hq; omega)
  refine Total.bind ⟨_, e1⟩ ?_
  intro h1 e1'
  rw [e1] at e1'
  injection e1' with e1'
  subst e1'
  exact fp_set_size_free (pre := pre) (post := post) (a := a) (as := as) (y := { y with pin := false })
    (by simp) hb hP hend h8

theorem fp_insert_chunk_total {h : Heap} (hs : h.sbins.length = 32) (ht : h.tbins.length = 32) {c sz : Nat}
    (h32 : 32 ≤ sz) : Total (insert_chunk h c sz) := by
  unfold insert_chunk
  split
  · rename_i hsm
    have hlt := (is_small_iff sz).1 hsm
    unfold insert_small_chunk
    dsimp only
    refine Total.bind (fp_failIf _ (by rw [MIN_CHUNK_SIZE_eq]; simpa using h32)) ?_
    intro _ _
    have hidx : small_index sz < h.sbins.length := by
      rw [small_index_eq sz (by omega), hs]; omega
    refine Total.bind ⟨h.sbins[small_index sz], getBin_ok.2 (List.getElem?_eq_getElem hidx)⟩ ?_
    intro l _
    exact total_pure _
  · unfold insert_large_chunk
    dsimp only
    have hidx : compute_tree_index sz < h.tbins.length := by rw [ht]; exact compute_tree_index_lt sz
    refine Total.bind ⟨h.tbins[compute_tree_index sz], getTree_ok.2 (List.getElem?_eq_getElem hidx)⟩ ?_
    intro l _
    exact total_pure _

theorem fp_free_bin_total {h : Heap} {p sz : Nat} (hh : Total (insert_chunk h p sz)) :
    Total (free_heap.free_bin h p sz) := by
  unfold insert_chunk at hh
  unfold free_heap.free_bin
  split
  · rename_i hs
    rw [if_pos hs] at hh
    exact Total.bind hh (fun _ _ => total_pure _)
  · rename_i hs
    rw [if_neg hs] at hh
    exact Total.bind hh (fun _ _ => total_pure _)

theorem fp_lengths {h : Heap} (hs : sbinsOk h = true) (ht : tbinsOk h = true) :
    h.sbins.length = 32 ∧ h.tbins.length = 32 := by
  unfold sbinsOk at hs
  unfold tbinsOk at ht
  simp only [Bool.and_eq_true, decide_eq_true_eq] at hs ht
  exact ⟨hs.1, ht.1⟩

/-- a free header other than `top` and `dv` is binned -/
theorem fp_free_binned {s : St} (w : WFS s) {e : Ent} (he : e ∈ s.h.ents) (hf : isFree e = true)
    (ht : e.addr ≠ s.h.top) (hd : e.addr ≠ s.h.dv) : e.addr ∈ binned s.h := by
  have := ((freeListOk_iff s.h).1 w.freeList).2.1 e he hf
  rcases mem_freeList.1 this with ⟨_, h⟩ | ⟨_, h⟩ | h
  · exact absurd h ht
  · exact absurd h hd
  · exact h

/-! ## the backward step is total -/

theorem fp_back_total {s : St} (hi : SInv s) {p0 psize0 : Nat} {x en : Ent} (hx : findEnt s.h.ents p0 = some x)
    (hxc : x.cin = true) (hxs : x.size = psize0) (h8 : psize0 ≠ 8) (hr : isRecord s.segs x = false)
    (hen : findEnt s.h.ents (p0 + psize0) = some en) (m1 m2 tg : String) :
    Total (fr_backStep m1 m2 tg s.h x en p0 psize0 (p0 + psize0)) := by
  have w := hi.wfs
  obtain ⟨hxm, hxa⟩ := findEnt_some hx
  have hx8 : x.size ≠ 8 := by omega
  unfold fr_backStep
  dsimp only
  cases hxp : x.pin with
  | true => exact total_pure _
  | false =>
    rw [if_pos (show (!false) = true from rfl)]
    obtain ⟨pre, wv, post, g, hes, hg, hgw, hgx, hwf, hwt, hxaw, hpf⟩ := fr_prev_free w hxm hxc hxp
    have hes' : s.h.ents = (pre ++ [wv]) ++ x :: post := by rw [hes]; simp
    obtain ⟨n, post', hp, hna, hgn, hnp, hn8⟩ := fr_next hi hes' hxc hx8 hr hg hgx
    subst hp
    have hnm : n ∈ s.h.ents := by rw [hes]; simp
    have hwm : wv ∈ s.h.ents := by rw [hes]; simp
    have : n = en := by
      have := entsOk_find n hnm w.ents
      rw [hna, hxa, hxs, hen] at this
      injection this with this
      exact this.symm
    subst this
    have hPw : p0 - x.pfoot = wv.addr := by omega
    refine Total.bind (fp_failIf _ (by simp [Ent.mmapped, hxc])) ?_
    intro _ _
    refine Total.bind (fp_failIf _ (by simp only [decide_eq_false_iff_not]; omega)) ?_
    intro _ _
    rw [hPw]
    split
    · rename_i hd
      have hb := fp_free_binned w hwm hwf hwt hd
      obtain ⟨h', e'⟩ := unlink_chunk_progress (sz := x.pfoot) w.sbins w.tbins hb
        (sizeAt_iff.2 ⟨wv, entsOk_find wv hwm w.ents, hpf.symm⟩)
      exact Total.bind ⟨h', e'⟩ (fun _ _ => total_pure _)
    · split
      · have hW := fr_win1 w hes hg hgw hgx hgn hxaw hna hwf
        have hwsh := shapeOk_free w.shape hwm (isFree_iff.1 hwf).1
        have hnsh := fr_user_shape w hnm hn8
        have hents : ({ s.h with dvsize := psize0 + x.pfoot } : Heap).ents = pre ++ (wv :: ([x] ++ [n])) ++ post' := by
          show s.h.ents = _
          rw [hes]; simp
        refine Total.bind (fp_set_free hents (hW.bounds w) rfl (by omega) (by omega) (by omega)) ?_
        intro _ _
        exact total_pure _
      · exact total_pure _

/-! ## the forward step is total -/

/-- every primitive call of the forward step succeeds -/
def fp_FwdT (h1 : Heap) (P S next : Nat) (en : Ent) : Prop :=
  (en.cin = true ∧ ∃ h3, set_free_with_pinuse h1 P S next = .ok h3 ∧ ∀ t, Total (insert_chunk (h3.tag t) P S)) ∨
  (en.cin = false ∧ next = h1.top ∧ (h1.topsize + S) % 8 = 0) ∨
  (en.cin = false ∧ next ≠ h1.top ∧ next = h1.dv ∧
    Total (set_size_and_pinuse_of_free_chunk { h1 with dvsize := h1.dvsize + S, dv := P } P (h1.dvsize + S))) ∨
  (en.cin = false ∧ next ≠ h1.top ∧ next ≠ h1.dv ∧
    ∃ h2 h3, unlink_chunk h1 next en.size = .ok h2 ∧
      set_size_and_pinuse_of_free_chunk h2 P (S + en.size) = .ok h3 ∧
      ∀ t, Total (insert_chunk (h3.tag t) P (S + en.size)))

theorem fp_fwd {s : St} (hi : SInv s) {pre post : List Ent} {a n : Ent} {as : List Ent} {g : Seg} {p0 : Nat}
    {h1 : Heap} {rem : List Nat} {S : Nat} (bk : fr_BackOk s pre post a as n g p0 h1 rem S) (h32 : 32 ≤ S) :
    fp_FwdT h1 a.addr S n.addr n := by
  have w := hi.wfs
  have hnm : n ∈ s.h.ents := bk.W.mem n (fr_mem_run.2 (Or.inr rfl))
  have ham : a ∈ s.h.ents := bk.W.mem_run a List.mem_cons_self
  have hents1 : h1.ents = pre ++ (a :: (as ++ [n])) ++ post := bk.u.frame.ents.trans bk.W.hes
  have hb := bk.W.bounds w
  have hash := fr_user_shape w ham bk.W.a8
  have hnsh := fr_user_shape w hnm bk.n8
  have hnS := bk.nS
  obtain ⟨hl1, hl2⟩ := fp_lengths bk.u.sb bk.u.tb
  cases hnc : n.cin with
  | true =>
    obtain ⟨h3, e1⟩ := fp_set_free (nx := n.addr) hents1 hb rfl bk.nS rfl (by omega)
    have r := fr_set_free_at e1 hents1 hb rfl bk.nS rfl
    refine Or.inl ⟨hnc, h3, e1, fun t => fp_insert_chunk_total ?_ ?_ h32⟩
    · rw [r]; exact hl1
    · rw [r]; exact hl2
  | false =>
    have hnf : isFree n = true := isFree_iff.2 ⟨hnc, bk.npin⟩
    by_cases hnt : n.addr = h1.top
    · refine Or.inr (Or.inl ⟨hnc, hnt, ?_⟩)
      obtain ⟨_, _, _, xt, _, _, _, htes, hxta, hxtf, hxts, _⟩ := w.top_parts (w.topsize_ne bk.W.hg)
      have hxtm : xt ∈ s.h.ents := by rw [htes]; simp
      have := shapeOk_free w.shape hxtm (isFree_iff.1 hxtf).1
      rw [bk.u.frame.topsize, ← hxts]
      omega
    · have hnt' : n.addr ≠ s.h.top := fun h => hnt (h.trans bk.u.frame.top.symm)
      obtain ⟨y, post', hp, hya, hgy, hl⟩ := fr_after_free w bk.W hnf
      subst hp
      obtain ⟨hyc, hyp, hypf⟩ := linkOk_free hl hnf hnt'
      have W' := fr_win_snoc bk.W hnc hgy hya
      have hym : y ∈ s.h.ents := W'.mem y (fr_mem_run.2 (Or.inr rfl))
      have hy8 : y.size ≠ 8 := by
        intro h
        have := (gl_fence_cin w.shape hym h).2
        rw [hyp] at this; cases this
      have hysh := fr_user_shape w hym hy8
      by_cases hnd : n.addr = h1.dv
      · refine Or.inr (Or.inr (Or.inl ⟨hnc, hnt, hnd, ?_⟩))
        have hnd' : n.addr = s.h.dv := hnd.trans bk.u.frame.dv
        have hdv0 : s.h.dv ≠ 0 := by have := w.addr_pos hnm; omega
        obtain ⟨xd, hxdm, hxda, _, hxds, _, _, _⟩ := w.dv_parts (fr_dvsize_ne w hdv0)
        have : n = xd := entsOk_addr_inj w.ents hnm hxdm (by omega)
        subst this
        have hds := bk.u.frame.dvsize
        have hents1' : ({ h1 with dvsize := h1.dvsize + S, dv := a.addr } : Heap).ents =
            pre ++ (a :: ((as ++ [n]) ++ [y])) ++ post' := by
          show h1.ents = _
          rw [hents1]; simp
        exact fp_set_size_free hents1' (W'.bounds w) rfl (by omega) (by omega)
      · have hnd' : n.addr ≠ s.h.dv := fun h => hnd (h.trans bk.u.frame.dv.symm)
        -- `n` is still binned in `h1`
        have hbin : n.addr ∈ binned h1 := by
          have h1' := ((freeListOk_iff s.h).1 w.freeList).2.1 n hnm hnf
          have h2 := bk.u.fl.mem_iff.1 h1'
          rcases List.mem_append.1 h2 with h | h
          · exfalso
            obtain ⟨e, he, _, hea⟩ := bk.hrem _ h
            have := (hb.2.1 e he).2
            omega
          · rcases mem_freeList.1 h with ⟨_, h⟩ | ⟨_, h⟩ | h
            · exact absurd h hnt
            · exact absurd h hnd
            · exact h
        obtain ⟨h2, e1⟩ := unlink_chunk_progress (sz := n.size) bk.u.sb bk.u.tb hbin
          (sizeAt_iff.2 ⟨n, by rw [bk.u.frame.ents]; exact entsOk_find n hnm w.ents, rfl⟩)
        have u2 := fr_unl_step bk.u e1
        have hents2 : h2.ents = pre ++ (a :: ((as ++ [n]) ++ [y])) ++ post' := by
          rw [u2.frame.ents, bk.W.hes]; simp
        have hend : y.addr = a.addr + (S + n.size) := by omega
        obtain ⟨h3, e2⟩ := fp_set_size_free hents2 (W'.bounds w) rfl hend (by omega)
        have r := fr_set_size_free_at e2 hents2 (W'.bounds w) rfl hend
        obtain ⟨hl1', hl2'⟩ := fp_lengths u2.sb u2.tb
        refine Or.inr (Or.inr (Or.inr ⟨hnc, hnt, hnd, h2, h3, e1, e2, fun t => fp_insert_chunk_total ?_ ?_ (by omega)⟩))
        · rw [r]; exact hl1'
        · rw [r]; exact hl2'

theorem fp_back_size {h : Heap} {e en : Ent} {p0 psize0 next : Nat} {h1 : Heap} {P S : Nat} {stop : Bool}
    (hb : fr_Back h e en p0 psize0 next h1 P S stop) : psize0 ≤ S := by
  rcases hb with ⟨_, _, _, h, _⟩ | ⟨_, _, _, h, _⟩ <;> omega

/-! ## the two functions -/

/-- **`dispose_chunk` on a user chunk of at least 32 bytes raises no error** -/
theorem fp_dispose_chunk_prog : dispose_chunk_Prog := by
  intro s hi p psize hu h32
  have w := hi.wfs
  obtain ⟨x, hx, hxc, hxs, h8, hr⟩ := hu
  obtain ⟨hxm, hxa⟩ := findEnt_some hx
  obtain ⟨g, hg, hgx⟩ := w.struct.seg_of hxm
  obtain ⟨pre, post, hes⟩ := List.append_of_mem hxm
  obtain ⟨n, post', hp, hna, hgn, hnp, hn8⟩ := fr_next hi hes hxc (by omega) hr hg hgx
  have hen : findEnt s.h.ents (p + psize) = some n := by
    rw [← hxa, ← hxs, ← hna]
    exact entsOk_find n (by rw [hes, hp]; simp) w.ents
  unfold dispose_chunk
  dsimp only
  refine Total.bind ⟨x, getE_ok.2 hx⟩ ?_
  intro e he
  have : e = x := by rw [getE_ok.2 hx] at he; injection he with he; exact he.symm
  subst this
  refine Total.bind ⟨n, getE_ok.2 hen⟩ ?_
  intro en hen'
  have : en = n := by rw [getE_ok.2 hen] at hen'; injection hen' with hen'; exact hen'.symm
  subst this
  refine Total.bind (fp_back_total hi hx hxc hxs h8 hr hen _ _ _) ?_
  rintro ⟨h1, P, S, stop⟩ hback
  have hb := fr_backStep_ok hback
  dsimp only
  cases stop with
  | true => rw [if_pos rfl]; exact total_pure _
  | false =>
    rw [if_neg (by simp)]
    obtain ⟨pre, post, a, as, g, rem, haP, bk⟩ := fr_back_ok hi hx hxc hxs h8 hr hen hb
    subst haP
    have hf := fp_fwd hi bk (by have := fp_back_size hb; omega)
    rw [(findEnt_some hen).2] at hf
    rcases hf with ⟨hc, h3, e1, hins⟩ | ⟨hc, ht, h8'⟩ | ⟨hc, ht, hd, hT⟩ | ⟨hc, ht, hd, h2, h3, e1, e2, hins⟩
    · rw [if_pos hc]
      refine Total.bind ⟨h3, e1⟩ ?_
      intro h' he'
      rw [e1] at he'; injection he' with he'; subst he'
      exact hins _
    · rw [if_neg (by simp [hc]), if_pos ht]
      exact Total.bind ⟨_, writeHead_eq h8'⟩ (fun _ _ => total_pure _)
    · rw [if_neg (by simp [hc]), if_neg ht, if_pos hd]
      exact Total.bind hT (fun _ _ => total_pure _)
    · rw [if_neg (by simp [hc]), if_neg ht, if_neg hd]
      refine Total.bind ⟨h2, e1⟩ ?_
      intro h2' e1'
      rw [e1] at e1'; injection e1' with e1'; subst e1'
      refine Total.bind ⟨h3, e2⟩ ?_
      intro h3' e2'
      rw [e2] at e2'; injection e2' with e2'; subst e2'
      split
      · exact total_pure _
      · exact hins _

/-- **`free_heap` on a user chunk of at least 32 bytes raises no error** -/
theorem fp_free_heap_prog : free_heap_Prog := by
  intro s hi mem h16 hu
  obtain ⟨z, hu, h32⟩ := hu
  have w := hi.wfs
  obtain ⟨x, hx, hxc, hxs, h8, hr⟩ := hu
  subst hxs
  obtain ⟨hxm, hxa⟩ := findEnt_some hx
  obtain ⟨g, hg, hgx⟩ := w.struct.seg_of hxm
  obtain ⟨pre, post, hes⟩ := List.append_of_mem hxm
  obtain ⟨n, post', hp, hna, hgn, hnp, hn8⟩ := fr_next hi hes hxc h8 hr hg hgx
  have hen : findEnt s.h.ents (mem - 16 + x.size) = some n := by
    rw [← hxa, ← hna]
    exact entsOk_find n (by rw [hes, hp]; simp) w.ents
  unfold free_heap
  dsimp only
  simp only [MEM_OFFSET_eq]
  refine Total.bind (fp_failIf _ (by simp only [decide_eq_false_iff_not]; omega)) ?_
  intro _ _
  refine Total.bind ⟨x, getE_ok.2 hx⟩ ?_
  intro e he
  have : e = x := by rw [getE_ok.2 hx] at he; injection he with he; exact he.symm
  subst this
  refine Total.bind ⟨n, getE_ok.2 hen⟩ ?_
  intro en hen'
  have : en = n := by rw [getE_ok.2 hen] at hen'; injection hen' with hen'; exact hen'.symm
  subst this
  refine Total.bind (fp_back_total hi hx hxc rfl h8 hr hen _ _ _) ?_
  rintro ⟨h1, P, S, stop⟩ hback
  have hb := fr_backStep_ok hback
  dsimp only
  cases stop with
  | true => rw [if_pos rfl]; exact total_pure _
  | false =>
    rw [if_neg (by simp)]
    obtain ⟨pre, post, a, as, g, rem, haP, bk⟩ := fr_back_ok hi hx hxc rfl h8 hr hen hb
    subst haP
    have hf := fp_fwd hi bk (by have := fp_back_size hb; omega)
    rw [(findEnt_some hen).2] at hf
    rcases hf with ⟨hc, h3, e1, hins⟩ | ⟨hc, ht, h8'⟩ | ⟨hc, ht, hd, hT⟩ | ⟨hc, ht, hd, h2, h3, e1, e2, hins⟩
    · rw [if_pos hc]
      refine Total.bind ⟨h3, e1⟩ ?_
      intro h' he'
      rw [e1] at he'; injection he' with he'; subst he'
      exact fp_free_bin_total (hins _)
    · rw [if_neg (by simp [hc]), if_pos ht]
      exact Total.bind ⟨_, writeHead_eq h8'⟩ (fun _ _ => total_pure _)
    · rw [if_neg (by simp [hc]), if_neg ht, if_pos hd]
      exact Total.bind hT (fun _ _ => total_pure _)
    · rw [if_neg (by simp [hc]), if_neg ht, if_neg hd]
      refine Total.bind ⟨h2, e1⟩ ?_
      intro h2' e1'
      rw [e1] at e1'; injection e1' with e1'; subst e1'
      refine Total.bind ⟨h3, e2⟩ ?_
      intro h3' e2'
      rw [e2] at e2'; injection e2' with e2'; subst e2'
      split
      · exact total_pure _
      · exact fp_free_bin_total (hins _)

/-! ## why `32 ≤ size` is needed -/

/-- a state satisfying `SInv` whose first chunk is a 16-byte user chunk between the segment start and an in-use
chunk (unreachable: `malloc` never creates a chunk below `MIN_CHUNK_SIZE`) -/
def fp_cexSt : St :=
  { h := { ents := [⟨1048576, 16, true, true, 0⟩, ⟨1048592, 112, true, true, 0⟩, ⟨1048704, 65328, false, true, 0⟩,
                    ⟨1114032, 80, false, false, 0⟩],
           sbins := emptyBins, tbins := emptyTrees, dv := 0, dvsize := 0, top := 1048704, topsize := 65328, tr := [] },
    segs := [⟨1048576, 65536, 0⟩], footprint := 65536, maxfp := 65536, trim_check := 2097152, release_checks := 4095,
    least_addr := 1048576, osq := [], evs := [] }

set_option maxRecDepth 100000 in
/-- without the size bound both functions can trip `debug_assert!(size >= MIN_CHUNK_SIZE)` of `insert_small_chunk`
from a state satisfying `SInv` -/
theorem fp_cex : SInv fp_cexSt ∧ User fp_cexSt 1048576 16 ∧
    free_heap fp_cexSt.h (1048576 + 16) = .error "debug_assert:insert_small_chunk-size" ∧
    dispose_chunk fp_cexSt.h 1048576 16 = .error "debug_assert:insert_small_chunk-size" :=
  ⟨⟨⟨by decide, by decide, by decide, by decide, by decide, by decide, by decide, by decide, by decide, by decide,
      by decide⟩, gl_recsOk_of_check (by decide), gl_fenceOk_of_check (by decide), gl_tailOk_of_check (by decide),
      gl_headOk_of_check (by decide), gl_recIn_of_check (by decide)⟩,
    ⟨⟨1048576, 16, true, true, 0⟩, by decide, rfl, rfl, by decide, by decide⟩, by rfl, by rfl⟩

/-! ## non-vacuity: the hypotheses hold, and every branch runs, on the reachable states of `DlIndFree2` -/

set_option maxRecDepth 100000 in
example : fr_caseF fr_ops 1 "free-plain" = true ∧ fr_caseF (fr_ops ++ [(.free 4, [])]) 3 "free-fwd-dv" = true ∧
    fr_caseD fr_ops 3 "dispose-back-dv" = true :=
  ⟨by decide, by decide, by decide⟩

end TinyVerif.Dl
