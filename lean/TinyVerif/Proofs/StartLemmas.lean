/- Helper lemmas for C07: little-endian memory reads/writes, C strings, word blocks. -/
import TinyVerif.Model.Start
set_option linter.unusedSimpArgs false
namespace TinyVerif.Start

@[simp] theorem R.bind_ok {α β : Type} (a : α) (f : α → R β) : (R.ok a).bind f = f a := rfl
@[simp] theorem R.bind_fault {α β : Type} (f : α → R β) : (R.fault : R α).bind f = .fault := rfl
@[simp] theorem R.bind_panic {α β : Type} (f : α → R β) : (R.panic : R α).bind f = .panic := rfl
@[simp] theorem R.bind_fuel {α β : Type} (f : α → R β) : (R.fuel : R α).bind f = .fuel := rfl

theorem pow8 : (256 : Nat) ^ 8 = W64 := by decide

/-! ## little-endian reads -/

theorem rdLE_of_bytes (m : Mem) : ∀ (n a v : Nat),
    (∀ k, k < n → m (a + k) = some (v / 256 ^ k % 256)) → rdLE m a n = .ok (v % 256 ^ n)
  | 0, a, v, _ => by simp [rdLE, Nat.mod_one]
  | n + 1, a, v, h => by
    have h0 : m a = some (v % 256) := by simpa using h 0 (by omega)
    have ih := rdLE_of_bytes m n (a + 1) (v / 256) (by
      intro k hk
      have := h (k + 1) (by omega)
      rw [Nat.pow_succ', ← Nat.div_div_eq_div_mul] at this
      rw [← this]; congr 1; omega)
    simp only [rdLE, rd8, h0, R.bind_ok, ih]
    rw [Nat.pow_succ', Nat.mod_mul]

theorem rdLE_congr (m1 m2 : Mem) : ∀ (n a : Nat), (∀ k, k < n → m1 (a + k) = m2 (a + k)) → rdLE m1 a n = rdLE m2 a n
  | 0, _, _ => rfl
  | n + 1, a, h => by
    have h0 : m1 a = m2 a := by simpa using h 0 (by omega)
    have ih := rdLE_congr m1 m2 n (a + 1) (by
      intro k hk
      have := h (k + 1) (by omega)
      rw [show a + 1 + k = a + (k + 1) by omega]; exact this)
    simp only [rdLE, rd8, h0, ih]

theorem st64_same (m : Mem) (a v k : Nat) (hk : k < 8) : st64 m a v (a + k) = some (v / 256 ^ k % 256) := by
  simp only [st64]
  rw [if_pos (by omega), Nat.add_sub_cancel_left]

theorem st64_other (m : Mem) (a v x : Nat) (h : x < a ∨ a + 8 ≤ x) : st64 m a v x = m x := by
  simp only [st64]
  rw [if_neg (by omega)]

theorem rd64_st64_same (m : Mem) (a v : Nat) (hv : v < W64) : rd64 (st64 m a v) a = .ok v := by
  have := rdLE_of_bytes (st64 m a v) 8 a v (fun k hk => st64_same m a v k hk)
  rw [pow8, Nat.mod_eq_of_lt hv] at this
  exact this

theorem rdLE_st64_other (m : Mem) (a v b n : Nat) (h : b + n ≤ a ∨ a + 8 ≤ b) :
    rdLE (st64 m a v) b n = rdLE m b n :=
  rdLE_congr _ _ n b (fun k hk => st64_other m a v (b + k) (by omega))

theorem rd64_st64_other (m : Mem) (a v b : Nat) (h : b + 8 ≤ a ∨ a + 8 ≤ b) :
    rd64 (st64 m a v) b = rd64 m b := rdLE_st64_other m a v b 8 h

theorem wr64_ok (m : Mem) (a v w : Nat) (h : rd64 m a = .ok w) : wr64 m a v = .ok (st64 m a v) := by
  simp [wr64, h]

/-! ## C strings -/

/-- the NUL-terminated string `s` sits at `p` -/
def CStrAt (m : Mem) (p : Nat) (s : Bytes) : Prop :=
  (∀ k (h : k < s.length), m (p + k) = some s[k]) ∧ m (p + s.length) = some 0

theorem cstrLoop_eq (m : Mem) (p : Nat) (s : Bytes) (hs : CStrAt m p s) (h0 : 0 ∉ s) :
    ∀ (f i : Nat), i ≤ s.length → s.length - i < f → cstrLoop m p f i = .ok (s.drop i)
  | 0, _, _, hf => by omega
  | f + 1, i, hi, hf => by
    by_cases hlt : i < s.length
    · have hb := hs.1 i hlt
      have hne : s[i] ≠ 0 := fun h => h0 (h ▸ List.getElem_mem hlt)
      have ih := cstrLoop_eq m p s hs h0 f (i + 1) (by omega) (by omega)
      simp only [cstrLoop, rd8, hb, R.bind_ok, if_neg hne, ih]
      rw [List.drop_eq_getElem_cons hlt]
    · have : i = s.length := by omega
      subst this
      simp [cstrLoop, rd8, hs.2]

theorem cstr_eq (m : Mem) (p : Nat) (s : Bytes) (fuel : Nat) (hs : CStrAt m p s) (h0 : 0 ∉ s) (hf : s.length < fuel) :
    cstr m p fuel = .ok s := by
  have := cstrLoop_eq m p s hs h0 fuel 0 (by omega) (by omega)
  simpa [cstr] using this

/-! ## word blocks -/

/-- the 64-bit words `ws` sit at `a`, `a+8`, … -/
def WordsAt (m : Mem) : Nat → List Nat → Prop
  | _, [] => True
  | a, w :: ws => rd64 m a = .ok w ∧ WordsAt m (a + 8) ws

theorem WordsAt_append (m : Mem) : ∀ (xs ys : List Nat) (a : Nat),
    WordsAt m a (xs ++ ys) ↔ WordsAt m a xs ∧ WordsAt m (a + 8 * xs.length) ys
  | [], ys, a => by simp [WordsAt]
  | x :: xs, ys, a => by
    have ih := WordsAt_append m xs ys (a + 8)
    simp only [List.cons_append, WordsAt, ih, List.length_cons]
    rw [show a + 8 + 8 * xs.length = a + 8 * (xs.length + 1) by omega]
    exact and_assoc.symm

/-- strings `ss` sit at the addresses `ps` -/
def StrsAt (m : Mem) : List Nat → List Bytes → Prop
  | [], [] => True
  | p :: ps, s :: ss => CStrAt m p s ∧ StrsAt m ps ss
  | _, _ => False

theorem StrsAt_length (m : Mem) : ∀ (ps : List Nat) (ss : List Bytes), StrsAt m ps ss → ps.length = ss.length
  | [], [], _ => rfl
  | _ :: ps, _ :: ss, h => by simp [StrsAt_length m ps ss h.2]
  | [], _ :: _, h => by simp [StrsAt] at h
  | _ :: _, [], h => by simp [StrsAt] at h


/-! ## `resolve`'s walks -/

theorem nullLoop_eq (m : Mem) (envp : Nat) : ∀ (ps : List Nat) (off f : Nat),
    WordsAt m (envp + 8 * off) (ps ++ [0]) → (∀ p ∈ ps, p ≠ 0) → ps.length < f →
    nullLoop m envp f off = .ok (off + ps.length)
  | _, _, 0, _, _, hf => by omega
  | [], off, f + 1, hw, _, _ => by
    simp only [List.nil_append, WordsAt] at hw
    simp [nullLoop, hw.1]
  | p :: ps, off, f + 1, hw, hne, hf => by
    simp only [List.cons_append, WordsAt] at hw
    have hp : p ≠ 0 := hne p (by simp)
    have ih := nullLoop_eq m envp ps (off + 1) f (by rw [show envp + 8 * (off + 1) = envp + 8 * off + 8 by omega]; exact hw.2)
      (fun q hq => hne q (by simp [hq])) (by simp at hf; omega)
    simp only [nullLoop, hw.1, R.bind_ok, if_neg hp, ih, List.length_cons]
    congr 1; omega

theorem auxSet_not_kept (c : AuxValues) (k v : Nat) (h : ¬ (k ≤ 51 ∧ k ∈ keptKeys)) : auxSet c k v = c := by
  unfold auxSet
  by_cases h51 : k ≤ 51
  · have hk : k ∉ keptKeys := fun hk => h ⟨h51, hk⟩
    simp only [keptKeys, List.mem_cons, List.not_mem_nil, or_false, not_or] at hk
    simp only [if_pos h51]
    obtain ⟨h1, h2, h3, h4, h5, h6, h7, h8, h9, h10⟩ := hk
    simp only [if_neg h1, if_neg h2, if_neg h3, if_neg h4, if_neg h5, if_neg h6, if_neg h7, if_neg h8, if_neg h9, if_neg h10]
  · simp only [if_neg h51]

/-- first key of an aux list, 0 (= AT_NULL) for the empty list -/
def headKey : List (Nat × Nat) → Nat
  | [] => 0
  | kv :: _ => kv.1

theorem auxLoop_eq (m : Mem) (auxv : Nat) : ∀ (aux : List (Nat × Nat)) (i f : Nat) (c : AuxValues),
    WordsAt m (auxv + 8 * i) (auxFlat aux ++ [0, 0]) → (∀ kv ∈ aux, kv.1 ≠ 0) → aux.length < f →
    auxLoop m auxv f i (headKey aux) c = .ok (aux.foldl (fun c kv => auxSet c kv.1 kv.2) c)
  | _, _, 0, _, _, _, hf => by omega
  | [], i, f + 1, c, _, _, _ => by simp [auxLoop, headKey]
  | (k, v) :: aux, i, f + 1, c, hw, hne, hf => by
    have hk : k ≠ 0 := hne (k, v) (by simp)
    simp only [auxFlat, List.flatMap_cons, List.cons_append, List.nil_append, WordsAt] at hw
    obtain ⟨_, hv, hrest⟩ := hw
    have hnext : rd64 m (auxv + 8 * (i + 2)) = .ok (headKey aux) := by
      rw [show auxv + 8 * (i + 2) = auxv + 8 * i + 8 + 8 by omega]
      cases aux with
      | nil => simp only [List.flatMap_nil, List.nil_append, WordsAt] at hrest; exact hrest.1
      | cons kv aux => simp only [List.flatMap_cons, List.cons_append, WordsAt] at hrest; exact hrest.1
    have ih := auxLoop_eq m auxv aux (i + 2) f
    show auxLoop m auxv (f + 1) i k c = _
    simp only [auxLoop, if_neg hk, List.foldl_cons]
    rw [show auxv + 8 * (i + 1) = auxv + 8 * i + 8 by omega, hv]
    have hstep : (if k ≤ 51 ∧ k ∈ keptKeys then (R.ok v).bind fun v => R.ok (auxSet c k v) else R.ok c) = R.ok (auxSet c k v) := by
      split
      · rfl
      · rename_i h; rw [auxSet_not_kept c k v h]
    rw [hstep, R.bind_ok, hnext, R.bind_ok]
    exact ih (auxSet c k v) (by rw [show auxv + 8 * (i + 2) = auxv + 8 * i + 8 + 8 by omega]; exact hrest)
      (fun kv h => hne kv (by simp [h])) (by simp at hf; omega)

theorem auxSet_at_phdr (c : AuxValues) (k v : Nat) :
    (auxSet c k v).at_phdr = if k = AT_PHDR then v else c.at_phdr := by
  unfold auxSet
  (repeat' split) <;> first | rfl | (simp only [AT_PHDR, AT_PHENT, AT_PHNUM, AT_BASE, AT_UID, AT_GID, AT_SECURE, AT_RANDOM, AT_SYSINFO_EHDR, AT_EXECFN] at *; omega)

theorem auxSet_at_phent (c : AuxValues) (k v : Nat) :
    (auxSet c k v).at_phent = if k = AT_PHENT then v else c.at_phent := by
  unfold auxSet
  (repeat' split) <;> first | rfl | (simp only [AT_PHDR, AT_PHENT, AT_PHNUM, AT_BASE, AT_UID, AT_GID, AT_SECURE, AT_RANDOM, AT_SYSINFO_EHDR, AT_EXECFN] at *; omega)

theorem auxSet_at_phnum (c : AuxValues) (k v : Nat) :
    (auxSet c k v).at_phnum = if k = AT_PHNUM then v else c.at_phnum := by
  unfold auxSet
  (repeat' split) <;> first | rfl | (simp only [AT_PHDR, AT_PHENT, AT_PHNUM, AT_BASE, AT_UID, AT_GID, AT_SECURE, AT_RANDOM, AT_SYSINFO_EHDR, AT_EXECFN] at *; omega)

theorem auxSet_at_base (c : AuxValues) (k v : Nat) :
    (auxSet c k v).at_base = if k = AT_BASE then v else c.at_base := by
  unfold auxSet
  (repeat' split) <;> first | rfl | (simp only [AT_PHDR, AT_PHENT, AT_PHNUM, AT_BASE, AT_UID, AT_GID, AT_SECURE, AT_RANDOM, AT_SYSINFO_EHDR, AT_EXECFN] at *; omega)

theorem auxSet_at_uid (c : AuxValues) (k v : Nat) :
    (auxSet c k v).at_uid = if k = AT_UID then v else c.at_uid := by
  unfold auxSet
  (repeat' split) <;> first | rfl | (simp only [AT_PHDR, AT_PHENT, AT_PHNUM, AT_BASE, AT_UID, AT_GID, AT_SECURE, AT_RANDOM, AT_SYSINFO_EHDR, AT_EXECFN] at *; omega)

theorem auxSet_at_gid (c : AuxValues) (k v : Nat) :
    (auxSet c k v).at_gid = if k = AT_GID then v else c.at_gid := by
  unfold auxSet
  (repeat' split) <;> first | rfl | (simp only [AT_PHDR, AT_PHENT, AT_PHNUM, AT_BASE, AT_UID, AT_GID, AT_SECURE, AT_RANDOM, AT_SYSINFO_EHDR, AT_EXECFN] at *; omega)

theorem auxSet_at_secure (c : AuxValues) (k v : Nat) :
    (auxSet c k v).at_secure = if k = AT_SECURE then v else c.at_secure := by
  unfold auxSet
  (repeat' split) <;> first | rfl | (simp only [AT_PHDR, AT_PHENT, AT_PHNUM, AT_BASE, AT_UID, AT_GID, AT_SECURE, AT_RANDOM, AT_SYSINFO_EHDR, AT_EXECFN] at *; omega)

theorem auxSet_at_random (c : AuxValues) (k v : Nat) :
    (auxSet c k v).at_random = if k = AT_RANDOM then v else c.at_random := by
  unfold auxSet
  (repeat' split) <;> first | rfl | (simp only [AT_PHDR, AT_PHENT, AT_PHNUM, AT_BASE, AT_UID, AT_GID, AT_SECURE, AT_RANDOM, AT_SYSINFO_EHDR, AT_EXECFN] at *; omega)

theorem auxSet_at_sysinfo_ehdr (c : AuxValues) (k v : Nat) :
    (auxSet c k v).at_sysinfo_ehdr = if k = AT_SYSINFO_EHDR then v else c.at_sysinfo_ehdr := by
  unfold auxSet
  (repeat' split) <;> first | rfl | (simp only [AT_PHDR, AT_PHENT, AT_PHNUM, AT_BASE, AT_UID, AT_GID, AT_SECURE, AT_RANDOM, AT_SYSINFO_EHDR, AT_EXECFN] at *; omega)

theorem auxSet_at_execfn (c : AuxValues) (k v : Nat) :
    (auxSet c k v).at_execfn = if k = AT_EXECFN then v else c.at_execfn := by
  unfold auxSet
  (repeat' split) <;> first | rfl | (simp only [AT_PHDR, AT_PHENT, AT_PHNUM, AT_BASE, AT_UID, AT_GID, AT_SECURE, AT_RANDOM, AT_SYSINFO_EHDR, AT_EXECFN] at *; omega)

theorem get_auxSet (c : AuxValues) (k v key : Nat) (hkey : key ∈ keptKeys) :
    (auxSet c k v).get key = if k = key then v else c.get key := by
  simp only [keptKeys, List.mem_cons, List.not_mem_nil, or_false] at hkey
  rcases hkey with h | h | h | h | h | h | h | h | h | h <;> subst h
  · exact auxSet_at_phdr c k v
  · exact auxSet_at_phent c k v
  · exact auxSet_at_phnum c k v
  · exact auxSet_at_base c k v
  · exact auxSet_at_uid c k v
  · exact auxSet_at_gid c k v
  · exact auxSet_at_secure c k v
  · exact auxSet_at_random c k v
  · exact auxSet_at_sysinfo_ehdr c k v
  · exact auxSet_at_execfn c k v

theorem get_fold (key : Nat) (hkey : key ∈ keptKeys) : ∀ (aux : List (Nat × Nat)) (c : AuxValues),
    (aux.foldl (fun c kv => auxSet c kv.1 kv.2) c).get key =
      aux.foldl (fun acc kv => if kv.1 = key then kv.2 else acc) (c.get key)
  | [], _ => rfl
  | kv :: aux, c => by
    simp only [List.foldl_cons]
    rw [get_fold key hkey aux, get_auxSet c kv.1 kv.2 key hkey]


theorem collectOs_eq (m : Mem) (e : Env) (fuel n : Nat) :
    ∀ (ps : List Nat) (ss : List Bytes) (i k : Nat),
    WordsAt m (e.argv + 8 * i) ps → StrsAt m ps ss → (∀ p ∈ ps, p ≠ 0) → (∀ s ∈ ss, 0 ∉ s ∧ s.length < fuel) →
    n = i + ps.length → 0 < e.argv → ps.length < k →
    collectOs m e fuel k ⟨i, n⟩ = .ok ss
  | _, _, _, 0, _, _, _, _, _, _, hk => by omega
  | [], [], i, k + 1, _, _, _, _, hn, _, _ => by
    simp at hn
    simp [collectOs, ArgsOs.next, hn]
  | [], _ :: _, _, _ + 1, _, hs, _, _, _, _, _ => by simp [StrsAt] at hs
  | _ :: _, [], _, _ + 1, _, hs, _, _, _, _, _ => by simp [StrsAt] at hs
  | p :: ps, s :: ss, i, k + 1, hw, hs, hne, hss, hn, ha, hk => by
    simp only [WordsAt] at hw
    simp only [StrsAt] at hs
    have hp : p ≠ 0 := hne p (by simp)
    have hs0 := hss s (by simp)
    have ih := collectOs_eq m e fuel n ps ss (i + 1) k
      (by rw [show e.argv + 8 * (i + 1) = e.argv + 8 * i + 8 by omega]; exact hw.2) hs.2
      (fun q hq => hne q (by simp [hq])) (fun t ht => hss t (by simp [ht])) (by simp at hn; omega) ha (by simp at hk; omega)
    have hlt : i < n := by simp at hn; omega
    have hnz : e.argv + 8 * i ≠ 0 := by omega
    simp only [collectOs, ArgsOs.next, if_pos hlt, if_neg hnz, hw.1, R.bind_ok, if_neg hp,
      cstr_eq m p s fuel hs.1 hs0.1 hs0.2, ih]

theorem envWalk_eq (m : Mem) (fuel : Nat) : ∀ (ps : List Nat) (ss : List Bytes) (envPtr k : Nat),
    WordsAt m envPtr (ps ++ [0]) → StrsAt m ps ss → (∀ p ∈ ps, p ≠ 0) → (∀ s ∈ ss, 0 ∉ s ∧ s.length < fuel) →
    0 < envPtr → ps.length < k →
    envWalk m fuel k envPtr = .ok ss
  | _, _, _, 0, _, _, _, _, _, hk => by omega
  | [], [], envPtr, k + 1, hw, _, _, _, ha, _ => by
    simp only [List.nil_append, WordsAt] at hw
    have : envPtr ≠ 0 := by omega
    simp [envWalk, this, hw.1]
  | [], _ :: _, _, _ + 1, _, hs, _, _, _, _ => by simp [StrsAt] at hs
  | _ :: _, [], _, _ + 1, _, hs, _, _, _, _ => by simp [StrsAt] at hs
  | p :: ps, s :: ss, envPtr, k + 1, hw, hs, hne, hss, ha, hk => by
    simp only [List.cons_append, WordsAt] at hw
    simp only [StrsAt] at hs
    have hp : p ≠ 0 := hne p (by simp)
    have hs0 := hss s (by simp)
    have ih := envWalk_eq m fuel ps ss (envPtr + 8) k hw.2 hs.2
      (fun q hq => hne q (by simp [hq])) (fun t ht => hss t (by simp [ht])) (by omega) (by simp at hk; omega)
    have hnz : envPtr ≠ 0 := by omega
    simp only [envWalk, if_neg hnz, hw.1, R.bind_ok, if_neg hp, cstr_eq m p s fuel hs.1 hs0.1 hs0.2, ih]

theorem collectArgs_eq (m : Mem) (e : Env) (fuel : Nat) : ∀ (k : Nat) (it : ArgsOs),
    collectArgs m e fuel k it = (collectOs m e fuel k it).bind fun l => .ok (l.map asStr)
  | 0, _ => rfl
  | k + 1, it => by
    simp only [collectArgs, collectOs, Args.next]
    cases h : it.next m e fuel with
    | ok r =>
      obtain ⟨o, it'⟩ := r
      cases o with
      | none => simp
      | some s =>
        simp only [R.bind_ok, Option.map_some]
        rw [collectArgs_eq m e fuel k it']
        cases collectOs m e fuel k it' <;> simp
    | fault => simp
    | panic => simp
    | fuel => simp


/-- memory `m` holds an ABI-conformant initial process stack at `sp` for (argv, env, aux), the strings being
    at the addresses `aptrs` / `eptrs` (anywhere: the kernel's padding, AT_RANDOM bytes, platform string … are
    not constrained) -/
structure StackAt (m : Mem) (sp : Nat) (argv env : List Bytes) (aux : List (Nat × Nat))
    (aptrs eptrs : List Nat) : Prop where
  words : WordsAt m sp (stackWords argv.length aptrs eptrs aux)
  astrs : StrsAt m aptrs argv
  estrs : StrsAt m eptrs env
  aptrs_ne : ∀ p ∈ aptrs, p ≠ 0
  eptrs_ne : ∀ p ∈ eptrs, p ≠ 0
  aux_keys : ∀ kv ∈ aux, kv.1 ≠ 0
  argv_nul_free : ∀ s ∈ argv, 0 ∉ s
  env_nul_free : ∀ s ∈ env, 0 ∉ s
  argc_small : 8 * argv.length + 16 < W64

/-- what `from_auxv` collects: later entries overwrite earlier ones -/
def auxOf (aux : List (Nat × Nat)) : AuxValues := aux.foldl (fun c kv => auxSet c kv.1 kv.2) AuxValues.zeroed

/-- the pointers `resolve` must return -/
def envOf (sp argc : Nat) : Env := ⟨argc, sp + 8, sp + (8 + argc * 8 + 8)⟩

theorem headKey_word (m : Mem) (a : Nat) (aux : List (Nat × Nat)) (h : WordsAt m a (auxFlat aux ++ [0, 0])) :
    rd64 m a = .ok (headKey aux) := by
  cases aux with
  | nil => simp only [auxFlat, List.flatMap_nil, List.nil_append, WordsAt] at h; exact h.1
  | cons kv aux => simp only [auxFlat, List.flatMap_cons, List.cons_append, WordsAt] at h; exact h.1

theorem stack_parts {m : Mem} {sp : Nat} {argv env : List Bytes} {aux : List (Nat × Nat)} {aptrs eptrs : List Nat}
    (h : StackAt m sp argv env aux aptrs eptrs) :
    rd64 m sp = .ok argv.length ∧ WordsAt m (sp + 8) aptrs ∧
    WordsAt m (sp + (8 + argv.length * 8 + 8)) (eptrs ++ [0]) ∧
    WordsAt m (sp + (8 + argv.length * 8 + 8) + 8 * eptrs.length + 8) (auxFlat aux ++ [0, 0]) := by
  have hw := h.words
  have hl := StrsAt_length m aptrs argv h.astrs
  simp only [stackWords, List.append_assoc, List.cons_append, List.nil_append, WordsAt, WordsAt_append] at hw
  obtain ⟨h1, h2, h3, h4, h5, h6⟩ := hw
  rw [hl] at h3 h4 h5 h6
  refine ⟨h1, h2, ?_, ?_⟩
  · rw [WordsAt_append]
    refine ⟨?_, ?_, trivial⟩
    · rw [show sp + (8 + argv.length * 8 + 8) = sp + 8 + 8 * argv.length + 8 by omega]; exact h4
    · rw [show sp + (8 + argv.length * 8 + 8) + 8 * eptrs.length = sp + 8 + 8 * argv.length + 8 + 8 * eptrs.length by omega]; exact h5
  · rw [show sp + (8 + argv.length * 8 + 8) + 8 * eptrs.length + 8 = sp + 8 + 8 * argv.length + 8 + 8 * eptrs.length + 8 by omega]
    rw [WordsAt_append]
    exact ⟨h6.1, h6.2.1, h6.2.2.1, trivial⟩

theorem resolve_eq {m : Mem} {sp : Nat} {argv env : List Bytes} {aux : List (Nat × Nat)} {aptrs eptrs : List Nat}
    (h : StackAt m sp argv env aux aptrs eptrs) (dynv fuel : Nat) (hf : env.length < fuel ∧ aux.length < fuel) :
    resolve m sp dynv fuel =
      (relocateSymbols m dynv (auxOf aux) fuel).bind fun m' => .ok (envOf sp argv.length, auxOf aux, m') := by
  obtain ⟨h1, _, h3, h4⟩ := stack_parts h
  have hle := StrsAt_length m eptrs env h.estrs
  have hs := h.argc_small
  have hnull := nullLoop_eq m (sp + (8 + argv.length * 8 + 8)) eptrs 0 fuel (by simpa using h3) h.eptrs_ne (by omega)
  have haux := auxLoop_eq m (sp + (8 + argv.length * 8 + 8) + 8 * eptrs.length + 8) aux 0 fuel AuxValues.zeroed
    (by simpa using h4) h.aux_keys hf.2
  unfold resolve
  simp only [h1, R.bind_ok, chk]
  rw [if_pos (by omega), R.bind_ok, if_pos (by omega), R.bind_ok, if_pos (by omega), R.bind_ok, hnull, R.bind_ok]
  simp only [Nat.zero_add]
  unfold fromAuxv
  rw [headKey_word m _ aux h4, R.bind_ok, haux, R.bind_ok]
  rfl


/-! ## relocation tables -/

structure RelaEnt where
  off : Nat
  info : Nat
  addend : Nat
  deriving Repr, DecidableEq

/-- the `Elf64_Rela` records `es` sit at `a`, `a+24`, … -/
def RelaAt (m : Mem) : Nat → List RelaEnt → Prop
  | _, [] => True
  | a, e :: es => rd64 m a = .ok e.off ∧ rd64 m (a + 8) = .ok e.info ∧ rd64 m (a + 16) = .ok e.addend ∧
      RelaAt m (a + 24) es

theorem RelaAt_frame (m m' : Mem) : ∀ (es : List RelaEnt) (a : Nat),
    (∀ x, a ≤ x → x < a + 24 * es.length → m' x = m x) → RelaAt m a es → RelaAt m' a es
  | [], _, _, _ => trivial
  | e :: es, a, hfr, h => by
    simp only [RelaAt] at h ⊢
    simp only [List.length_cons] at hfr
    have r : ∀ b, a ≤ b → b + 8 ≤ a + 24 → rd64 m' b = rd64 m b := fun b h1 h2 =>
      rdLE_congr m' m 8 b (fun k hk => hfr (b + k) (by omega) (by omega))
    refine ⟨by rw [r a (by omega) (by omega)]; exact h.1, by rw [r (a + 8) (by omega) (by omega)]; exact h.2.1,
      by rw [r (a + 16) (by omega) (by omega)]; exact h.2.2.1, ?_⟩
    exact RelaAt_frame m m' es (a + 24) (fun x h1 h2 => hfr x (by omega) (by omega)) h.2.2.2

/-- two 8-byte words do not overlap -/
def Apart (a b : Nat) : Prop := a + 8 ≤ b ∨ b + 8 ≤ a

theorem relaLoop_exact (base tbl lo hi : Nat) : ∀ (es : List RelaEnt) (i : Nat) (m : Mem),
    RelaAt m (tbl + 24 * i) es → lo ≤ tbl + 24 * i → tbl + 24 * (i + es.length) ≤ hi →
    (∀ e ∈ es, e.info = R_RELATIVE → base + e.off < W64 ∧ base + e.addend < W64) →
    (∀ e ∈ es, e.info = R_RELATIVE → ∃ w, rd64 m (base + e.off) = .ok w) →
    (∀ e ∈ es, e.info = R_RELATIVE → base + e.off + 8 ≤ lo ∨ hi ≤ base + e.off) →
    es.Pairwise (fun e1 e2 => e1.info = R_RELATIVE → e2.info = R_RELATIVE → Apart (base + e1.off) (base + e2.off)) →
    ∃ m', relaLoop base tbl es.length i m = .ok m' ∧
      (∀ e ∈ es, e.info = R_RELATIVE → rd64 m' (base + e.off) = .ok (base + e.addend)) ∧
      (∀ x, (∀ e ∈ es, e.info = R_RELATIVE → x < base + e.off ∨ base + e.off + 8 ≤ x) → m' x = m x)
  | [], i, m, _, _, _, _, _, _, _ => ⟨m, rfl, by simp, fun _ _ => rfl⟩
  | e :: es, i, m, hat, hlo, hhi, hrange, hmap, hoff, hdist => by
    simp only [RelaAt] at hat
    obtain ⟨hoffw, hinfo, haddw, hrest⟩ := hat
    simp only [List.length_cons] at hhi
    rw [List.pairwise_cons] at hdist
    have hrest' : RelaAt m (tbl + 24 * (i + 1)) es := by
      rw [show tbl + 24 * (i + 1) = tbl + 24 * i + 24 by omega]; exact hrest
    by_cases hrel : e.info = R_RELATIVE
    · obtain ⟨hr1, hr2⟩ := hrange e (by simp) hrel
      obtain ⟨w, hw⟩ := hmap e (by simp) hrel
      have hofft := hoff e (by simp) hrel
      let m1 := st64 m (base + e.off) (base + e.addend)
      have hat1 : RelaAt m1 (tbl + 24 * (i + 1)) es :=
        RelaAt_frame m m1 es _ (fun x h1 h2 => st64_other m _ _ x (by omega)) hrest'
      have hmap1 : ∀ e' ∈ es, e'.info = R_RELATIVE → ∃ w, rd64 m1 (base + e'.off) = .ok w := by
        intro e' he' hr'
        obtain ⟨w', hw'⟩ := hmap e' (by simp [he']) hr'
        refine ⟨w', ?_⟩
        have hap := hdist.1 e' he' hrel hr'
        show rd64 (st64 m _ _) _ = _
        rw [rd64_st64_other m _ _ _ (by unfold Apart at hap; omega)]; exact hw'
      obtain ⟨m', hrun, hP1, hP2⟩ := relaLoop_exact base tbl lo hi es (i + 1) m1 hat1 (by omega) (by omega)
        (fun e' he' => hrange e' (by simp [he'])) hmap1 (fun e' he' => hoff e' (by simp [he'])) hdist.2
      refine ⟨m', ?_, ?_, ?_⟩
      · simp only [List.length_cons, relaLoop, SZ_RELA, hinfo, R.bind_ok, if_pos hrel, hoffw, chk, if_pos hr1,
          if_pos hr2, wr64_ok m _ _ w hw]
        rw [show tbl + 24 * i + 16 = tbl + 24 * i + 16 from rfl, haddw, R.bind_ok, if_pos hr2, R.bind_ok]
        exact hrun
      · intro e' he' hr'
        rcases List.mem_cons.1 he' with rfl | he'
        · have : rd64 m' (base + e'.off) = rd64 m1 (base + e'.off) :=
            rdLE_congr m' m1 8 _ (fun k hk => hP2 _ (fun e2 he2 hr2' => by
              have hap := hdist.1 e2 he2 hrel hr2'
              unfold Apart at hap; omega))
          rw [this]
          exact rd64_st64_same m _ _ hr2
        · exact hP1 e' he' hr'
      · intro x hx
        rw [hP2 x (fun e' he' hr' => hx e' (by simp [he']) hr')]
        exact st64_other m _ _ x (by have := hx e (by simp) hrel; omega)
    · obtain ⟨m', hrun, hP1, hP2⟩ := relaLoop_exact base tbl lo hi es (i + 1) m hrest' (by omega) (by omega)
        (fun e' he' => hrange e' (by simp [he'])) (fun e' he' => hmap e' (by simp [he']))
        (fun e' he' => hoff e' (by simp [he'])) hdist.2
      refine ⟨m', ?_, ?_, ?_⟩
      · simp only [List.length_cons, relaLoop, SZ_RELA, hinfo, R.bind_ok, if_neg hrel]
        exact hrun
      · intro e' he' hr'
        rcases List.mem_cons.1 he' with rfl | he'
        · exact absurd hr' hrel
        · exact hP1 e' he' hr'
      · intro x hx
        exact hP2 x (fun e' he' hr' => hx e' (by simp [he']) hr')


structure RelEnt where
  off : Nat
  info : Nat
  deriving Repr, DecidableEq

/-- the `Elf64_Rel` records `es` sit at `a`, `a+16`, … -/
def RelAt (m : Mem) : Nat → List RelEnt → Prop
  | _, [] => True
  | a, e :: es => rd64 m a = .ok e.off ∧ rd64 m (a + 8) = .ok e.info ∧ RelAt m (a + 16) es

theorem RelAt_frame (m m' : Mem) : ∀ (es : List RelEnt) (a : Nat),
    (∀ x, a ≤ x → x < a + 16 * es.length → m' x = m x) → RelAt m a es → RelAt m' a es
  | [], _, _, _ => trivial
  | e :: es, a, hfr, h => by
    simp only [RelAt] at h ⊢
    simp only [List.length_cons] at hfr
    have r : ∀ b, a ≤ b → b + 8 ≤ a + 16 → rd64 m' b = rd64 m b := fun b h1 h2 =>
      rdLE_congr m' m 8 b (fun k hk => hfr (b + k) (by omega) (by omega))
    refine ⟨by rw [r a (by omega) (by omega)]; exact h.1, by rw [r (a + 8) (by omega) (by omega)]; exact h.2.1, ?_⟩
    exact RelAt_frame m m' es (a + 16) (fun x h1 h2 => hfr x (by omega) (by omega)) h.2.2

theorem relLoop_exact (base tbl lo hi : Nat) : ∀ (es : List RelEnt) (i : Nat) (m : Mem),
    RelAt m (tbl + 16 * i) es → lo ≤ tbl + 16 * i → tbl + 16 * (i + es.length) ≤ hi →
    (∀ e ∈ es, e.info = R_RELATIVE → base + e.off < W64 ∧ ∃ old, rd64 m (base + e.off) = .ok old ∧ old + base < W64) →
    (∀ e ∈ es, e.info = R_RELATIVE → base + e.off + 8 ≤ lo ∨ hi ≤ base + e.off) →
    es.Pairwise (fun e1 e2 => e1.info = R_RELATIVE → e2.info = R_RELATIVE → Apart (base + e1.off) (base + e2.off)) →
    ∃ m', relLoop base tbl es.length i m = .ok m' ∧
      (∀ e ∈ es, e.info = R_RELATIVE → ∀ old, rd64 m (base + e.off) = .ok old → rd64 m' (base + e.off) = .ok (old + base)) ∧
      (∀ x, (∀ e ∈ es, e.info = R_RELATIVE → x < base + e.off ∨ base + e.off + 8 ≤ x) → m' x = m x)
  | [], i, m, _, _, _, _, _, _ => ⟨m, rfl, by simp, fun _ _ => rfl⟩
  | e :: es, i, m, hat, hlo, hhi, hrange, hoff, hdist => by
    simp only [RelAt] at hat
    obtain ⟨hoffw, hinfo, hrest⟩ := hat
    simp only [List.length_cons] at hhi
    rw [List.pairwise_cons] at hdist
    have hrest' : RelAt m (tbl + 16 * (i + 1)) es := by
      rw [show tbl + 16 * (i + 1) = tbl + 16 * i + 16 by omega]; exact hrest
    by_cases hrel : e.info = R_RELATIVE
    · obtain ⟨hr1, old, hold, hr2⟩ := hrange e (by simp) hrel
      have hofft := hoff e (by simp) hrel
      let m1 := st64 m (base + e.off) (old + base)
      have hat1 : RelAt m1 (tbl + 16 * (i + 1)) es :=
        RelAt_frame m m1 es _ (fun x h1 h2 => st64_other m _ _ x (by omega)) hrest'
      have hsame : ∀ e' ∈ es, e'.info = R_RELATIVE → rd64 m1 (base + e'.off) = rd64 m (base + e'.off) := by
        intro e' he' hr'
        have hap := hdist.1 e' he' hrel hr'
        exact rd64_st64_other m _ _ _ (by unfold Apart at hap; omega)
      obtain ⟨m', hrun, hP1, hP2⟩ := relLoop_exact base tbl lo hi es (i + 1) m1 hat1 (by omega) (by omega)
        (fun e' he' hr' => by
          obtain ⟨a, o, b, c⟩ := hrange e' (by simp [he']) hr'
          exact ⟨a, o, by rw [hsame e' he' hr']; exact b, c⟩)
        (fun e' he' => hoff e' (by simp [he'])) hdist.2
      refine ⟨m', ?_, ?_, ?_⟩
      · simp only [List.length_cons, relLoop, SZ_REL, hinfo, R.bind_ok, if_pos hrel, hoffw, chk, if_pos hr1,
          hold, if_pos hr2, wr64_ok m _ _ old hold]
        exact hrun
      · intro e' he' hr' old' hold'
        rcases List.mem_cons.1 he' with rfl | he'
        · have : rd64 m' (base + e'.off) = rd64 m1 (base + e'.off) :=
            rdLE_congr m' m1 8 _ (fun k hk => hP2 _ (fun e2 he2 hr2' => by
              have hap := hdist.1 e2 he2 hrel hr2'
              unfold Apart at hap; omega))
          rw [this]
          have : old' = old := by rw [hold] at hold'; exact (R.ok.inj hold').symm
          subst this
          exact rd64_st64_same m _ _ hr2
        · exact hP1 e' he' hr' old' (by rw [hsame e' he' hr']; exact hold')
      · intro x hx
        rw [hP2 x (fun e' he' hr' => hx e' (by simp [he']) hr')]
        exact st64_other m _ _ x (by have := hx e (by simp) hrel; omega)
    · obtain ⟨m', hrun, hP1, hP2⟩ := relLoop_exact base tbl lo hi es (i + 1) m hrest' (by omega) (by omega)
        (fun e' he' => hrange e' (by simp [he']))
        (fun e' he' => hoff e' (by simp [he'])) hdist.2
      refine ⟨m', ?_, ?_, ?_⟩
      · simp only [List.length_cons, relLoop, SZ_REL, hinfo, R.bind_ok, if_neg hrel]
        exact hrun
      · intro e' he' hr'
        rcases List.mem_cons.1 he' with rfl | he'
        · exact absurd hr' hrel
        · exact hP1 e' he' hr'
      · intro x hx
        exact hP2 x (fun e' he' hr' => hx e' (by simp [he']) hr')


/-! ## `.dynamic` and program headers -/

theorem dynSet_not_kept (d : DynSection) (k v : Nat) (h : ¬ (k < 19 ∧ k ∈ [DT_RELA, DT_RELASZ, DT_REL, DT_RELSZ])) :
    dynSet d k v = d := by
  unfold dynSet
  by_cases h19 : k < 19
  · have hk : k ∉ [DT_RELA, DT_RELASZ, DT_REL, DT_RELSZ] := fun hk => h ⟨h19, hk⟩
    simp only [List.mem_cons, List.not_mem_nil, or_false, not_or] at hk
    obtain ⟨h1, h2, h3, h4⟩ := hk
    simp only [if_pos h19, if_neg h1, if_neg h2, if_neg h3, if_neg h4]
  · simp only [if_neg h19]

/-- what `init_from_dynv` collects -/
def dynOf (dyn : List (Nat × Nat)) : DynSection := dyn.foldl (fun d kv => dynSet d kv.1 kv.2) ⟨0, 0, 0, 0⟩

theorem dynLoop_eq (m : Mem) (dynv : Nat) : ∀ (dyn : List (Nat × Nat)) (i f : Nat) (d : DynSection),
    WordsAt m (dynv + 8 * i) (auxFlat dyn ++ [0, 0]) → (∀ kv ∈ dyn, kv.1 ≠ 0) → dyn.length < f →
    dynLoop m dynv f i (headKey dyn) d = .ok (dyn.foldl (fun d kv => dynSet d kv.1 kv.2) d)
  | _, _, 0, _, _, _, hf => by omega
  | [], i, f + 1, d, _, _, _ => by simp [dynLoop, headKey]
  | (k, v) :: dyn, i, f + 1, d, hw, hne, hf => by
    have hk : k ≠ 0 := hne (k, v) (by simp)
    simp only [auxFlat, List.flatMap_cons, List.cons_append, List.nil_append, WordsAt] at hw
    obtain ⟨_, hv, hrest⟩ := hw
    have hrest' : WordsAt m (dynv + 8 * (i + 2)) (auxFlat dyn ++ [0, 0]) := by
      rw [show dynv + 8 * (i + 2) = dynv + 8 * i + 8 + 8 by omega]; exact hrest
    have hnext := headKey_word m _ dyn hrest'
    show dynLoop m dynv (f + 1) i k d = _
    simp only [dynLoop, if_neg hk, List.foldl_cons]
    rw [show dynv + 8 * (i + 1) = dynv + 8 * i + 8 by omega, hv]
    have hstep : (if k < 19 ∧ k ∈ [DT_RELA, DT_RELASZ, DT_REL, DT_RELSZ] then (R.ok v).bind fun v => R.ok (dynSet d k v) else R.ok d)
        = R.ok (dynSet d k v) := by
      split
      · rfl
      · rename_i h; rw [dynSet_not_kept d k v h]
    rw [hstep, R.bind_ok, hnext, R.bind_ok]
    exact dynLoop_eq m dynv dyn (i + 2) f (dynSet d k v) hrest' (fun kv h => hne kv (by simp [h])) (by simp at hf; omega)

theorem initFromDynv_eq (m : Mem) (dynv fuel : Nat) (dyn : List (Nat × Nat))
    (hw : WordsAt m dynv (auxFlat dyn ++ [0, 0])) (hne : ∀ kv ∈ dyn, kv.1 ≠ 0) (hf : dyn.length < fuel) :
    initFromDynv m dynv fuel = .ok (dynOf dyn) := by
  unfold initFromDynv
  rw [headKey_word m dynv dyn hw, R.bind_ok]
  exact dynLoop_eq m dynv dyn 0 fuel _ (by simpa using hw) hne hf

/-- program headers (p_type, p_vaddr) at `a`, `a + phent`, … -/
def PhdrsAt (m : Mem) (phent : Nat) : Nat → List (Nat × Nat) → Prop
  | _, [] => True
  | a, h :: hs => rd32 m a = .ok h.1 ∧ rd64 m (a + OFF_P_VADDR) = .ok h.2 ∧ PhdrsAt m phent (a + phent) hs

/-- `p_vaddr` of the first PT_DYNAMIC header in a list -/
def firstDyn : List (Nat × Nat) → Option Nat
  | [] => none
  | h :: hs => if h.1 = PT_DYNAMIC then some h.2 else firstDyn hs

theorem findBaseLoop_eq (m : Mem) (dynv phent : Nat) : ∀ (hs : List (Nat × Nat)) (pb : Nat),
    PhdrsAt m phent (pb + phent) hs → pb + phent * hs.length < W64 →
    (∀ va, firstDyn hs = some va → va ≤ dynv) →
    findBaseLoop m dynv phent hs.length pb = .ok ((firstDyn hs).map (dynv - ·))
  | [], _, _, _, _ => rfl
  | h :: hs, pb, hat, hlt, hva => by
    simp only [PhdrsAt] at hat
    simp only [List.length_cons] at hlt
    have hlt' : pb + phent < W64 := by
      have : phent ≤ phent * (hs.length + 1) := Nat.le_mul_of_pos_right _ (by omega)
      omega
    simp only [List.length_cons, findBaseLoop, chk, if_pos hlt', R.bind_ok, hat.1, firstDyn]
    by_cases hty : h.1 = PT_DYNAMIC
    · have := hva h.2 (by simp [firstDyn, hty])
      simp [hty, hat.2.1, this]
    · rw [if_neg hty, if_neg hty]
      exact findBaseLoop_eq m dynv phent hs (pb + phent) hat.2.2
        (by rw [Nat.mul_succ] at hlt; omega) (fun va h' => hva va (by simp [firstDyn, hty, h']))


/-- ELF well-formedness assumed of a static-PIE image loaded at `base`, for `DynSection::relocate` -/
structure RelocWF (m : Mem) (base : Nat) (d : DynSection) (rels : List RelEnt) (relas : List RelaEnt) : Prop where
  rel_count : rels.length = d.relSz / SZ_REL
  rela_count : relas.length = d.relaSz / SZ_RELA
  rel_addr : base + d.rel < W64
  rela_addr : base + d.rela < W64
  rel_at : RelAt m (base + d.rel) rels
  rela_at : RelaAt m (base + d.rela) relas
  /-- REL targets are mapped words whose relocated value fits in 64 bits -/
  rel_range : ∀ e ∈ rels, e.info = R_RELATIVE → base + e.off < W64 ∧ ∃ old, rd64 m (base + e.off) = .ok old ∧ old + base < W64
  rela_range : ∀ e ∈ relas, e.info = R_RELATIVE → base + e.off < W64 ∧ base + e.addend < W64
  rela_mapped : ∀ e ∈ relas, e.info = R_RELATIVE → ∃ w, rd64 m (base + e.off) = .ok w
  /-- no target lies inside a relocation table that is still to be read -/
  rel_off_rel : ∀ e ∈ rels, e.info = R_RELATIVE →
    base + e.off + 8 ≤ base + d.rel ∨ base + d.rel + 16 * rels.length ≤ base + e.off
  rel_off_rela : ∀ e ∈ rels, e.info = R_RELATIVE →
    base + e.off + 8 ≤ base + d.rela ∨ base + d.rela + 24 * relas.length ≤ base + e.off
  rela_off_rela : ∀ e ∈ relas, e.info = R_RELATIVE →
    base + e.off + 8 ≤ base + d.rela ∨ base + d.rela + 24 * relas.length ≤ base + e.off
  /-- targets pairwise distinct (non-overlapping words) -/
  rel_distinct : rels.Pairwise fun e1 e2 => e1.info = R_RELATIVE → e2.info = R_RELATIVE → Apart (base + e1.off) (base + e2.off)
  rela_distinct : relas.Pairwise fun e1 e2 => e1.info = R_RELATIVE → e2.info = R_RELATIVE → Apart (base + e1.off) (base + e2.off)
  cross_distinct : ∀ e1 ∈ rels, ∀ e2 ∈ relas, e1.info = R_RELATIVE → e2.info = R_RELATIVE → Apart (base + e1.off) (base + e2.off)

theorem rel_phase (base a n : Nat) (m : Mem) (ha : a < W64) :
    (if n = 0 then R.ok m else (chk a).bind fun tbl => relLoop base tbl n 0 m) = relLoop base a n 0 m := by
  by_cases h : n = 0
  · subst h; rfl
  · simp [h, chk, ha]

theorem rela_phase (base a n : Nat) (m : Mem) (ha : a < W64) :
    (if n = 0 then R.ok m else (chk a).bind fun tbl => relaLoop base tbl n 0 m) = relaLoop base a n 0 m := by
  by_cases h : n = 0
  · subst h; rfl
  · simp [h, chk, ha]

theorem relocate_correct {m : Mem} {base : Nat} {d : DynSection} {rels : List RelEnt} {relas : List RelaEnt}
    (wf : RelocWF m base d rels relas) :
    ∃ m', relocate m d base = .ok m' ∧
      (∀ e ∈ rels, e.info = R_RELATIVE → ∀ old, rd64 m (base + e.off) = .ok old → rd64 m' (base + e.off) = .ok (old + base)) ∧
      (∀ e ∈ relas, e.info = R_RELATIVE → rd64 m' (base + e.off) = .ok (base + e.addend)) ∧
      (∀ x, (∀ e ∈ rels, e.info = R_RELATIVE → x < base + e.off ∨ base + e.off + 8 ≤ x) →
            (∀ e ∈ relas, e.info = R_RELATIVE → x < base + e.off ∨ base + e.off + 8 ≤ x) → m' x = m x) := by
  obtain ⟨m1, hrun1, hA1, hF1⟩ := relLoop_exact base (base + d.rel) (base + d.rel) (base + d.rel + 16 * rels.length)
    rels 0 m (by simpa using wf.rel_at) (by omega) (by omega) wf.rel_range wf.rel_off_rel wf.rel_distinct
  have hat1 : RelaAt m1 (base + d.rela) relas :=
    RelaAt_frame m m1 relas _ (fun x h1 h2 => hF1 x (fun e he hr => by have := wf.rel_off_rela e he hr; omega)) wf.rela_at
  have hsame1 : ∀ e ∈ relas, e.info = R_RELATIVE → rd64 m1 (base + e.off) = rd64 m (base + e.off) := by
    intro e he hr
    exact rdLE_congr m1 m 8 _ (fun k hk => hF1 _ (fun e1 he1 hr1 => by
      have := wf.cross_distinct e1 he1 e he hr1 hr; unfold Apart at this; omega))
  obtain ⟨m', hrun2, hA2, hF2⟩ := relaLoop_exact base (base + d.rela) (base + d.rela) (base + d.rela + 24 * relas.length)
    relas 0 m1 (by simpa using hat1) (by omega) (by omega) wf.rela_range
    (fun e he hr => by rw [hsame1 e he hr]; exact wf.rela_mapped e he hr) wf.rela_off_rela wf.rela_distinct
  refine ⟨m', ?_, ?_, hA2, ?_⟩
  · unfold relocate
    rw [rel_phase base _ _ m wf.rel_addr, ← wf.rel_count, hrun1, R.bind_ok,
      rela_phase base _ _ m1 wf.rela_addr, ← wf.rela_count, hrun2]
  · intro e he hr old hold
    have : rd64 m' (base + e.off) = rd64 m1 (base + e.off) :=
      rdLE_congr m' m1 8 _ (fun k hk => hF2 _ (fun e2 he2 hr2 => by
        have := wf.cross_distinct e he e2 he2 hr hr2; unfold Apart at this; omega))
    rw [this]; exact hA1 e he hr old hold
  · intro x h1 h2
    rw [hF2 x h2, hF1 x h1]


theorem le_length : ∀ (n w : Nat), (le n w).length = n
  | 0, _ => rfl
  | n + 1, w => by simp [le, le_length n]

theorem le_get : ∀ (n w k : Nat), k < n → (le n w)[k]? = some (w / 256 ^ k % 256)
  | 0, _, _, h => by omega
  | n + 1, w, 0, _ => by simp [le]
  | n + 1, w, k + 1, h => by
    simp only [le, List.getElem?_cons_succ]
    rw [le_get n (w / 256) k (by omega), Nat.pow_succ', Nat.div_div_eq_div_mul]

theorem memOf_at (base : Nat) (pre mid post : Bytes) (k : Nat) (hk : k < mid.length) :
    memOf base (pre ++ mid ++ post) (base + pre.length + k) = mid[k]? := by
  unfold memOf
  rw [if_neg (by omega), show base + pre.length + k - base = pre.length + k by omega, List.append_assoc,
    List.getElem?_append_right (by omega), show pre.length + k - pre.length = k by omega,
    List.getElem?_append_left hk]

theorem WordsAt_leWords (base : Nat) : ∀ (ws : List Nat) (pre post : Bytes), (∀ w ∈ ws, w < W64) →
    WordsAt (memOf base (pre ++ leWords ws ++ post)) (base + pre.length) ws
  | [], _, _, _ => trivial
  | w :: ws, pre, post, h => by
    have hw : w < W64 := h w (by simp)
    refine ⟨?_, ?_⟩
    · have := rdLE_of_bytes (memOf base (pre ++ leWords (w :: ws) ++ post)) 8 (base + pre.length) w (by
        intro k hk
        have e : leWords (w :: ws) = le 8 w ++ leWords ws := by simp [leWords]
        rw [e, show pre ++ (le 8 w ++ leWords ws) ++ post = pre ++ le 8 w ++ (leWords ws ++ post) by simp,
          memOf_at base pre (le 8 w) _ k (by rw [le_length]; exact hk)]
        exact le_get 8 w k hk)
      rw [pow8, Nat.mod_eq_of_lt hw] at this
      exact this
    · have ih := WordsAt_leWords base ws (pre ++ le 8 w) post (fun x hx => h x (by simp [hx]))
      have e : pre ++ leWords (w :: ws) ++ post = pre ++ le 8 w ++ leWords ws ++ post := by simp [leWords]
      rw [e]
      rw [List.length_append, le_length] at ih
      rw [show base + pre.length + 8 = base + (pre.length + 8) by omega]
      exact ih

theorem StrsAt_strBytes (base : Nat) : ∀ (ss : List Bytes) (pre post : Bytes),
    StrsAt (memOf base (pre ++ strBytes ss ++ post)) (ptrsFrom (base + pre.length) ss) ss
  | [], _, _ => trivial
  | s :: ss, pre, post => by
    have e : pre ++ strBytes (s :: ss) ++ post = pre ++ (s ++ [0]) ++ (strBytes ss ++ post) := by simp [strBytes]
    refine ⟨⟨?_, ?_⟩, ?_⟩
    · intro k hk
      rw [e, memOf_at base pre (s ++ [0]) _ k (by simp; omega), List.getElem?_append_left hk]
      exact List.getElem?_eq_getElem hk
    · rw [e, memOf_at base pre (s ++ [0]) _ s.length (by simp)]
      simp
    · have ih := StrsAt_strBytes base ss (pre ++ (s ++ [0])) post
      have e2 : pre ++ strBytes (s :: ss) ++ post = pre ++ (s ++ [0]) ++ strBytes ss ++ post := by simp [strBytes]
      rw [e2]
      simp only [List.length_append, List.length_cons, List.length_nil] at ih
      rw [show base + pre.length + s.length + 1 = base + (pre.length + (s.length + (0 + 1))) by omega]
      exact ih

theorem ptrsFrom_pos : ∀ (ss : List Bytes) (p : Nat), 0 < p → ∀ q ∈ ptrsFrom p ss, q ≠ 0
  | [], _, _, _, h => by simp [ptrsFrom] at h
  | s :: ss, p, hp, q, h => by
    simp only [ptrsFrom, List.mem_cons] at h
    rcases h with rfl | h
    · omega
    · exact ptrsFrom_pos ss (p + s.length + 1) (by omega) q h

theorem ptrsFrom_lt : ∀ (ss : List Bytes) (p : Nat), ∀ q ∈ ptrsFrom p ss, q < p + (strBytes ss).length
  | [], _, _, h => by simp [ptrsFrom] at h
  | s :: ss, p, q, h => by
    simp only [ptrsFrom, List.mem_cons] at h
    have e : (strBytes (s :: ss)).length = s.length + 1 + (strBytes ss).length := by simp [strBytes]; omega
    rcases h with rfl | h
    · omega
    · have := ptrsFrom_lt ss (p + s.length + 1) q h; omega

theorem ptrsFrom_length : ∀ (ss : List Bytes) (p : Nat), (ptrsFrom p ss).length = ss.length
  | [], _ => rfl
  | s :: ss, p => by simp [ptrsFrom, ptrsFrom_length ss]

theorem leWords_length (ws : List Nat) : (leWords ws).length = 8 * ws.length := by
  induction ws with
  | nil => rfl
  | cons w ws ih => simp only [leWords, List.flatMap_cons, List.length_append, le_length] at ih ⊢; rw [ih]; simp; omega

theorem auxFlat_length (aux : List (Nat × Nat)) : (auxFlat aux).length = 2 * aux.length := by
  induction aux with
  | nil => rfl
  | cons kv aux ih => simp only [auxFlat, List.flatMap_cons, List.length_append] at ih ⊢; rw [ih]; simp; omega

theorem length_le_strBytes : ∀ ss : List Bytes, ss.length ≤ (strBytes ss).length
  | [] => by simp
  | s :: ss => by
    have ih := length_le_strBytes ss
    have e : (strBytes (s :: ss)).length = s.length + 1 + (strBytes ss).length := by simp [strBytes]; omega
    rw [e]; simp; omega

/-- the spec-side image satisfies the ABI predicate, for every argv / env / aux that fits the address space -/
theorem buildStack_wf (sp : Nat) (argv env : List Bytes) (aux : List (Nat × Nat))
    (hsp : sp + (buildStack sp argv env aux).length < W64)
    (haux : ∀ kv ∈ aux, kv.1 ≠ 0 ∧ kv.1 < W64 ∧ kv.2 < W64)
    (ha : ∀ s ∈ argv, 0 ∉ s) (he : ∀ s ∈ env, 0 ∉ s) :
    StackAt (memOf sp (buildStack sp argv env aux)) sp argv env aux
      (ptrsFrom (sp + 8 * nWords argv env aux) argv)
      (ptrsFrom (sp + 8 * nWords argv env aux + (strBytes argv).length) env) := by
  suffices key : ∀ sb, sp + 8 * nWords argv env aux = sb →
      StackAt (memOf sp (buildStack sp argv env aux)) sp argv env aux (ptrsFrom sb argv)
        (ptrsFrom (sb + (strBytes argv).length) env) from key _ rfl
  intro sb hsb
  have hbs : buildStack sp argv env aux = leWords (stackWords argv.length (ptrsFrom sb argv)
      (ptrsFrom (sb + (strBytes argv).length) env) aux) ++ strBytes argv ++ strBytes env := by
    rw [← hsb]; rfl
  have hlenW : (stackWords argv.length (ptrsFrom sb argv) (ptrsFrom (sb + (strBytes argv).length) env) aux).length
      = nWords argv env aux := by
    simp [stackWords, nWords, ptrsFrom_length, auxFlat_length]; omega
  have hlen : (buildStack sp argv env aux).length = 8 * nWords argv env aux + (strBytes argv).length + (strBytes env).length := by
    rw [hbs]; simp only [List.length_append, leWords_length, hlenW]
  have hn : 5 ≤ nWords argv env aux := by unfold nWords; omega
  have hal : argv.length ≤ (strBytes argv).length := length_le_strBytes argv
  refine ⟨?_, ?_, ?_, ?_, ?_, fun kv h => (haux kv h).1, ha, he, ?_⟩
  · have := WordsAt_leWords sp (stackWords argv.length (ptrsFrom sb argv) (ptrsFrom (sb + (strBytes argv).length) env) aux)
      [] (strBytes argv ++ strBytes env) (by
        intro w hw
        simp only [stackWords, List.mem_append, List.mem_cons, List.not_mem_nil, or_false, auxFlat, List.mem_flatMap] at hw
        rcases hw with ((((((rfl | h) | rfl) | h) | rfl) | ⟨kv, hkv, h⟩) | h)
        · unfold nWords at hlen; omega
        · have := ptrsFrom_lt argv sb w h; omega
        · decide
        · have := ptrsFrom_lt env _ w h; omega
        · decide
        · rcases h with rfl | rfl
          · exact (haux kv hkv).2.1
          · exact (haux kv hkv).2.2
        · rcases h with rfl | rfl <;> decide)
    rw [hbs]; simpa [List.append_assoc] using this
  · have := StrsAt_strBytes sp argv (leWords (stackWords argv.length (ptrsFrom sb argv) (ptrsFrom (sb + (strBytes argv).length) env) aux)) (strBytes env)
    rw [leWords_length, hlenW, hsb] at this
    rw [hbs]; exact this
  · have := StrsAt_strBytes sp env (leWords (stackWords argv.length (ptrsFrom sb argv) (ptrsFrom (sb + (strBytes argv).length) env) aux) ++ strBytes argv) []
    rw [List.length_append, leWords_length, hlenW, List.append_nil, ← Nat.add_assoc, hsb] at this
    rw [hbs]; exact this
  · exact ptrsFrom_pos argv sb (by omega)
  · exact ptrsFrom_pos env _ (by omega)
  · unfold nWords at hlen; omega

end TinyVerif.Start
