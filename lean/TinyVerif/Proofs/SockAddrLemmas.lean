/- helper lemmas for C16 part 2 (socket address encoding) -/
import TinyVerif.Model.SockAddr
namespace TinyVerif.SockAddr

theorem swap16_swap16 (p : Nat) (h : p < 65536) : swap16 (swap16 p) = p := by
  simp only [swap16]
  have h1 : p / 256 % 256 = p / 256 := by omega
  have h2 : (p % 256 * 256 + p / 256) % 256 = p / 256 := by omega
  have h3 : (p % 256 * 256 + p / 256) / 256 = p % 256 := by omega
  rw [h1, h2, h3]; omega

theorem le4_unle (a b c d : Nat) (ha : a < 256) (hb : b < 256) (hc : c < 256) (hd : d < 256) :
    le 4 (unle [a, b, c, d]) = [a, b, c, d] := by
  simp only [le, unle, List.cons.injEq, and_true]
  refine ⟨?_, ?_, ?_, ?_⟩ <;> omega

def SevenBit (s : List Nat) : Prop := ∀ c ∈ s, 1 ≤ c ∧ c < 128

theorem unixLoop_ok (s rest buf : List Nat) (hs : SevenBit s) (hlen : buf.length + s.length ≤ 107) :
    unixLoop (s ++ 0 :: rest) buf =
      .ok ((buf ++ s) ++ List.replicate (SUN_PATH - (buf ++ s).length) 0) ((buf ++ s).length + 1 + 2) := by
  induction s generalizing buf with
  | nil =>
    simp only [List.nil_append, List.append_nil, unixLoop]
    simp only [List.length_nil, Nat.add_zero] at hlen
    rw [if_neg (by omega), if_neg (by simp only [SUN_PATH]; omega), if_neg (by simp)]
    simp
  | cons c t ih =>
    have hc := hs c (by simp)
    simp only [List.length_cons] at hlen
    simp only [List.cons_append, unixLoop]
    rw [if_neg (by omega), if_neg (by simp only [SUN_PATH]; omega), if_neg (by omega), if_neg (by omega)]
    rw [ih (buf ++ [c]) (fun x hx => hs x (by simp [hx])) (by simp; omega)]
    simp [List.append_assoc]

theorem unixLoop_tooLong (s rest buf : List Nat) (hs : SevenBit s) (hb : buf.length ≤ 107)
    (hlen : 108 ≤ buf.length + s.length) : unixLoop (s ++ rest) buf = .tooLong := by
  induction s generalizing buf with
  | nil => simp only [List.length_nil] at hlen; omega
  | cons c t ih =>
    have hc := hs c (by simp)
    simp only [List.length_cons] at hlen
    simp only [List.cons_append, unixLoop]
    rw [if_neg (by omega), if_neg (by simp only [SUN_PATH]; omega)]
    by_cases h107 : buf.length = 107
    · rw [if_pos ⟨h107, by omega⟩]
    · rw [if_neg (by omega), if_neg (by omega)]
      exact ih (buf ++ [c]) (fun x hx => hs x (by simp [hx])) (by simp; omega) (by simp; omega)

theorem unixLoop_eightBit (s rest buf : List Nat) (c : Nat) (hs : SevenBit s) (hc : 128 ≤ c)
    (hlen : buf.length + s.length ≤ 107) : unixLoop (s ++ c :: rest) buf = .eightBit := by
  induction s generalizing buf with
  | nil => simp only [List.nil_append, unixLoop]; rw [if_pos hc]
  | cons d t ih =>
    have hd := hs d (by simp)
    simp only [List.length_cons] at hlen
    simp only [List.cons_append, unixLoop]
    rw [if_neg (by omega), if_neg (by simp only [SUN_PATH]; omega), if_neg (by omega), if_neg (by omega)]
    exact ih (buf ++ [d]) (fun x hx => hs x (by simp [hx])) (by simp; omega)

theorem unixLoop_no_panic (path buf : List Nat) (h0 : 0 ∈ path) (hb : buf.length ≤ 107) :
    unixLoop path buf ≠ .panic := by
  induction path generalizing buf with
  | nil => simp at h0
  | cons c rest ih =>
    simp only [unixLoop]
    split
    · simp
    · split
      · rename_i h; simp only [SUN_PATH] at h; omega
      · split
        · simp
        · split
          · simp
          · rename_i h1 h2 h3 h4
            have : 0 ∈ rest := by
              simp only [List.mem_cons] at h0
              rcases h0 with h | h
              · exact absurd h.symm h4
              · exact h
            exact ih (buf ++ [c]) this (by simp; omega)

/-- the ok result never has more than 108 path bytes -/
theorem unixLoop_len (path buf p : List Nat) (n : Nat) (h : unixLoop path buf = .ok p n) :
    p.length = SUN_PATH ∧ n ≤ SUN_PATH + 2 := by
  induction path generalizing buf with
  | nil => simp [unixLoop] at h
  | cons c rest ih =>
    simp only [unixLoop] at h
    split at h
    · cases h
    · split at h
      · cases h
      · split at h
        · cases h
        · split at h
          · rename_i h1 h2 h3 h4
            simp only [UnixRes.ok.injEq] at h
            obtain ⟨rfl, rfl⟩ := h
            simp only [SUN_PATH] at *
            simp; omega
          · exact ih _ h

end TinyVerif.SockAddr
