/- Helper lemmas for C18: byte-level round trip of the SQE image, and soundness of the table check. -/
import TinyVerif.Model.UringAbi
namespace TinyVerif.Sqe

theorem le_length (w v : Nat) : (le w v).length = w := by
  induction w generalizing v with
  | zero => rfl
  | succ w ih => simp [le, ih]

theorem un_le (w v : Nat) : un (le w v) = v % 256 ^ w := by
  induction w generalizing v with
  | zero => simp [le, un, Nat.mod_one]
  | succ w ih =>
    simp only [le, un, ih]
    rw [Nat.pow_succ, Nat.mul_comm (256 ^ w) 256, Nat.mod_mul]

theorem takeLE_le (w v : Nat) (rest : List Nat) :
    takeLE w (le w v ++ rest) = some (v % 256 ^ w, rest) := by
  unfold takeLE
  have hl := le_length w v
  rw [if_pos (by simp [hl])]
  have h1 : (le w v ++ rest).take w = le w v := List.take_left' hl
  have h2 : (le w v ++ rest).drop w = rest := List.drop_left' hl
  rw [h1, h2, un_le]

theorem wrap_lt (b : Nat) (v : Int) : wrap b v < 256 ^ b := by
  unfold wrap
  have hp : (0 : Int) < ((256 ^ b : Nat) : Int) := by
    have : 0 < 256 ^ b := Nat.pow_pos (by decide)
    omega
  have h1 := Int.emod_nonneg v (Int.ne_of_gt hp)
  have h2 := Int.emod_lt_of_pos v hp
  omega

/-- field values that fit their widths -/
structure Sqe.WF (s : Sqe) : Prop where
  h1 : s.opcode < 256 ^ 1
  h2 : s.flags < 256 ^ 1
  h3 : s.ioprio < 256 ^ 2
  h4 : s.fd < 256 ^ 4
  h5 : s.off < 256 ^ 8
  h6 : s.addr < 256 ^ 8
  h7 : s.len < 256 ^ 4
  h8 : s.opflags < 256 ^ 4
  h9 : s.userData < 256 ^ 8
  h10 : s.bufIndex < 256 ^ 2
  h11 : s.personality < 256 ^ 2
  h12 : s.fileIndex < 256 ^ 4
  h13 : s.addr3 < 256 ^ 8
  h14 : s.pad < 256 ^ 8

theorem parse_serialize (s : Sqe) (h : s.WF) : parse (serialize s) = some s := by
  unfold parse serialize
  simp only [takeLE_le, bind, Option.bind]
  have e14 : takeLE 8 (le 8 s.pad) = some (s.pad % 256 ^ 8, []) := by
    have := takeLE_le 8 s.pad []
    rwa [List.append_nil] at this
  simp only [e14, Nat.mod_eq_of_lt h.h1, Nat.mod_eq_of_lt h.h2, Nat.mod_eq_of_lt h.h3, Nat.mod_eq_of_lt h.h4,
    Nat.mod_eq_of_lt h.h5, Nat.mod_eq_of_lt h.h6, Nat.mod_eq_of_lt h.h7, Nat.mod_eq_of_lt h.h8,
    Nat.mod_eq_of_lt h.h9, Nat.mod_eq_of_lt h.h10, Nat.mod_eq_of_lt h.h11, Nat.mod_eq_of_lt h.h12,
    Nat.mod_eq_of_lt h.h13, Nat.mod_eq_of_lt h.h14, if_true]

theorem serialize_length (s : Sqe) : (serialize s).length = 64 := by
  simp [serialize, le_length]

/-- values valid for the constructor's operands -/
def ValidArgs (ops : List (String × Kind)) (a : Nat → Int) : Prop :=
  ∀ i k, kindAt ops i = some k → k.lo ≤ a i ∧ a i ≤ k.hi

theorem evalSrc_range (ops : List (String × Kind)) (a : Nat → Int) (hv : ValidArgs ops a)
    (src : Src) (lo hi : Int) (h : srcRange ops src = some (lo, hi)) :
    lo ≤ evalSrc a src ∧ evalSrc a src ≤ hi := by
  cases src with
  | const n =>
    simp only [srcRange, Option.some.injEq, Prod.mk.injEq] at h
    simp only [evalSrc]; omega
  | arg i =>
    simp only [srcRange, Option.map_eq_some_iff] at h
    obtain ⟨k, hk, he⟩ := h
    simp only [Prod.mk.injEq] at he
    have := hv i k hk
    simp only [evalSrc]; omega
  | optFd i =>
    simp only [srcRange] at h
    split at h
    · rename_i hk
      simp only [Option.some.injEq, Prod.mk.injEq] at h
      have := hv i .optfd hk
      simp only [Kind.lo, Kind.hi] at this
      simp only [evalSrc]; split <;> omega
    · cases h
  | optU64 i =>
    simp only [srcRange] at h
    split at h
    · rename_i hk
      simp only [Option.some.injEq, Prod.mk.injEq] at h
      have := hv i .optu64 hk
      simp only [Kind.lo, Kind.hi] at this
      simp only [evalSrc]; split <;> omega
    · cases h
  | ite i t e =>
    simp only [srcRange] at h
    split at h
    · simp only [Option.some.injEq, Prod.mk.injEq] at h
      simp only [evalSrc]; split <;> omega
    · cases h

theorem interp_wrap (ty : Ty) (w : Nat) (v : Int) (hw : w = 2 ∨ w = 4 ∨ w = 8)
    (hfit : ty.hi < (256 ^ w : Nat)) (hs : ty ≠ .s32 ∨ w = 4) (hlo : ty.lo ≤ v) (hhi : v ≤ ty.hi) :
    ty.interp (wrap w v) = v := by
  rcases hw with rfl | rfl | rfl <;> cases ty <;>
    simp only [Ty.hi, Ty.lo, Ty.interp, wrap, Nat.reducePow, ne_eq, not_true_eq_false,
      false_or, reduceCtorEq, not_false_eq_true, true_or] at * <;> omega

/-- what the kernel makes of field value `n` under `role`, against what the wrapper meant -/
def fieldMeaning (ops : List (String × Kind)) (intent : List (String × Want)) (a : Nat → Int)
    (role : Role) (n : Nat) : Prop :=
  match role with
  | .unused => n = 0
  | .operand nm ty => ∃ w s, lookup intent nm = some w ∧ wantSrc ops w = some s ∧ ty.interp n = evalSrc a s

theorem fieldOk_sound (ops : List (String × Kind)) (intent : List (String × Want)) (a : Nat → Int)
    (hv : ValidArgs ops a) (role : Role) (src : Src) (bytes width : Nat)
    (hw : width = 2 ∨ width = 4 ∨ width = 8)
    (h : fieldOk ops intent role src bytes width = true) :
    fieldMeaning ops intent a role (wrap bytes (evalSrc a src)) := by
  cases role with
  | unused =>
    simp only [fieldOk, beq_iff_eq] at h
    subst h
    simp [fieldMeaning, evalSrc, wrap]
  | operand nm ty =>
    simp only [fieldOk] at h
    split at h
    · cases h
    · rename_i w hw'
      split at h
      · rename_i s lo hi hs hr
        simp only [Bool.and_eq_true, beq_iff_eq, decide_eq_true_eq, Bool.or_eq_true, bne_iff_ne, ne_eq] at h
        obtain ⟨⟨⟨⟨⟨h1, h2⟩, h3⟩, h4⟩, h5⟩, h6⟩ := h
        subst h1 h6
        obtain ⟨r1, r2⟩ := evalSrc_range ops a hv src lo hi hr
        refine ⟨w, src, hw', hs, ?_⟩
        exact interp_wrap ty bytes _ hw h4 h5 (by omega) (by omega)
      · cases h

end TinyVerif.Sqe
