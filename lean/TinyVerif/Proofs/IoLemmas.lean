import TinyVerif.Model.Io
/-! Helper lemmas for C15 (Props/C15.lean). -/
namespace TinyVerif.Io

/-- the ReadBuf the main read builds, when the carried-over count is sound -/
theorem rb_main (n carry g : Nat) (h : carry ≤ g) (hg : g ≤ n) :
    ((ReadBuf.uninit n g).assumeInit carry).initializeUnfilled = .ok (n, ⟨n, 0, n, n, false⟩) := by
  by_cases hn : n > carry
  · simp [ReadBuf.uninit, ReadBuf.assumeInit, ReadBuf.initializeUnfilled, ReadBuf.remaining,
      ReadBuf.initializeUnfilledTo, hn]
    have h1 : ¬ (n < carry) := by omega
    have h2 : ¬ (g < carry) := by omega
    have e1 : max carry n = n := by omega
    have e2 : max g (carry + (n - carry)) = n := by omega
    simp [h1, h2, h, e1, e2]
  · have : carry = n := by omega
    subst this
    have : g = carry := by omega
    subst this
    simp [ReadBuf.uninit, ReadBuf.assumeInit, ReadBuf.initializeUnfilled, ReadBuf.remaining,
      ReadBuf.initializeUnfilledTo]

/-- loop invariant of `default_read_to_end` (between reader calls) -/
structure Inv (startLen : Nat) (probe : Bool) (s : St) : Prop where
  lenCap : s.buf.length ≤ s.cap
  start : startLen ≤ s.buf.length
  carry : s.carry ≤ s.ginit
  ginit : s.ginit ≤ s.cap - s.buf.length
  pr : probe = true → s.buf.length = s.cap

theorem pick_ge (caps : List Nat) (need : Nat) : need ≤ (pick caps need).1 := by
  cases caps <;> simp [pick] <;> omega

theorem grow_inv {L : Nat} {p : Bool} {s : St} (h : Inv L p s) :
    Inv L false (growIfFull s) ∧ (growIfFull s).buf = s.buf ∧ (growIfFull s).buf.length < (growIfFull s).cap := by
  obtain ⟨h1, h2, h3, h4, h5⟩ := h
  unfold growIfFull
  by_cases hc : s.buf.length = s.cap
  · have hp := pick_ge s.caps (s.buf.length + GROW)
    simp only [hc, beq_self_eq_true, if_true]
    simp only [hc, GROW] at hp
    refine ⟨⟨?_, ?_, ?_, ?_, ?_⟩, ?_, ?_⟩ <;> simp only [GROW] <;> first | omega | simp
  · have hc' : (s.buf.length == s.cap) = false := by simp [hc]
    simp only [hc', Bool.false_eq_true, if_false]
    exact ⟨⟨h1, h2, h3, h4, by simp⟩, trivial, by omega⟩


theorem mainData_spec {L : Nat} {s1 : St} (C : Nat) (h : Inv L false s1) (bs : List Nat) :
    mainData L C s1 ⟨s1.cap - s1.buf.length, 0, s1.cap - s1.buf.length, s1.cap - s1.buf.length, false⟩
        ⟨false, s1.cap - s1.buf.length, s1.carry⟩ bs =
      if bs.length = 0 then
        .stop (.ok (s1.buf.length - L)) { s1 with ginit := s1.cap - s1.buf.length } (some ⟨false, s1.cap - s1.buf.length, s1.carry⟩) false
      else if s1.cap - s1.buf.length < bs.length then
        .stop (.panic .setFilledAssert) { s1 with ginit := s1.cap - s1.buf.length } (some ⟨false, s1.cap - s1.buf.length, s1.carry⟩) false
      else
        .next (bs.length + s1.buf.length == s1.cap && s1.cap == C)
          { s1 with buf := s1.buf ++ bs, carry := s1.cap - s1.buf.length - bs.length, ginit := s1.cap - s1.buf.length - bs.length }
          ⟨false, s1.cap - s1.buf.length, s1.carry⟩ false := by
  obtain ⟨h1, h2, h3, h4, _⟩ := h
  by_cases hz : bs.length = 0
  · have hL : ¬ (s1.buf.length < L) := by omega
    simp [mainData, ReadBuf.addFilled, ReadBuf.setFilled, retOk, hz, hL]
  · by_cases hb : s1.cap - s1.buf.length < bs.length
    · have : ¬ (bs.length ≤ s1.cap - s1.buf.length) := by omega
      simp [mainData, ReadBuf.addFilled, ReadBuf.setFilled, hz, hb, this]
    · have h5 : bs.length ≤ s1.cap - s1.buf.length := by omega
      have h6 : ¬ (s1.cap < bs.length + s1.buf.length) := by omega
      simp [mainData, ReadBuf.addFilled, ReadBuf.setFilled, hz, hb, h5, h6]

theorem mainRead_spec {L : Nat} {s1 : St} (C : Nat) (h : Inv L false s1) (r : RResp) :
    mainRead L C s1 r =
      let n := s1.cap - s1.buf.length
      let call : Call := ⟨false, n, s1.carry⟩
      let rb1 : ReadBuf := ⟨n, 0, n, n, false⟩
      let s2 : St := { s1 with ginit := n }
      match r with
      | .data bs => mainData L C s1 rb1 call bs
      | .eof => mainData L C s1 rb1 call []
      | .eintr => .next false s2 call false
      | .err e => if e == EINTR then .next false s2 call false else .stop (.err (.os e)) s2 (some call) false
      | .uerr => .stop (.err .user) s2 (some call) false := by
  have hh := h
  obtain ⟨h1, h2, h3, h4, _⟩ := hh
  have hc : ¬ (s1.cap < s1.buf.length) := by omega
  unfold mainRead
  simp only [hc, if_false]
  rw [rb_main _ _ _ h3 h4]
  cases r <;> rfl


/-! classification of reader responses (specification side) -/
def RResp.retry : RResp → Bool
  | .eintr => true
  | .err e => e == EINTR
  | _ => false

def RResp.hard : RResp → Option IoErr
  | .err e => if e == EINTR then none else some (.os e)
  | .uerr => some .user
  | _ => none

def RResp.isEof : RResp → Bool
  | .eof => true
  | .data bs => bs.length == 0
  | _ => false

def StepOK (L : Nat) (s : St) (r : RResp) : Step → Prop
  | .next p' s' c u => u = false ∧ Inv L p' s' ∧
      ((r.retry = true ∧ s'.buf = s.buf) ∨
       (∃ bs, r = .data bs ∧ bs.length ≠ 0 ∧ bs.length ≤ c.offered ∧ s'.buf = s.buf ++ bs))
  | .stop res s' c u => u = false ∧ s'.buf = s.buf ∧
      ((r.isEof = true ∧ res = .ok (s.buf.length - L)) ∨
       (∃ e, r.hard = some e ∧ res = .err e) ∨
       (∃ bs site co, r = .data bs ∧ res = .panic site ∧ c = some co ∧ co.offered < bs.length))

theorem mainStep_ok {L : Nat} {p : Bool} {s : St} (C : Nat) (h : Inv L p s) (r : RResp) :
    StepOK L s r (mainStep L C s r) := by
  obtain ⟨hi, hb, hlt⟩ := grow_inv h
  unfold mainStep
  rw [mainRead_spec C hi r]
  have hi' := hi
  obtain ⟨h1, h2, h3, h4, _⟩ := hi'
  cases r with
  | data bs =>
    simp only []
    rw [mainData_spec C hi bs]
    by_cases hz : bs.length = 0
    · simp [hz, StepOK, RResp.isEof, hb]
    · by_cases hlen : (growIfFull s).cap - (growIfFull s).buf.length < bs.length
      · simp only [hz, hlen, if_true, if_false]; unfold StepOK
        refine ⟨rfl, hb, Or.inr (Or.inr ⟨bs, _, _, rfl, rfl, rfl, hlen⟩)⟩
      · simp only [hz, hlen, if_false]; unfold StepOK
        refine ⟨rfl, ⟨?_, ?_, ?_, ?_, ?_⟩, Or.inr ⟨bs, rfl, hz, by simp only []; omega, by simp [hb]⟩⟩
        · simp; omega
        · simp; omega
        · simp
        · simp; omega
        · intro hp; simp at hp; simp; omega
  | eof =>
    simp only []
    rw [mainData_spec C hi []]
    simp [StepOK, RResp.isEof, hb]
  | eintr =>
    unfold StepOK
    exact ⟨rfl, ⟨h1, h2, by simp; omega, by simp, by simp⟩, Or.inl ⟨rfl, hb⟩⟩
  | err e =>
    simp only []
    by_cases he : (e == EINTR) = true
    · simp only [he, if_true]; unfold StepOK
      exact ⟨rfl, ⟨h1, h2, by simp; omega, by simp, by simp⟩, Or.inl ⟨by simp [RResp.retry, he], hb⟩⟩
    · simp only [he]; unfold StepOK
      exact ⟨rfl, hb, Or.inr (Or.inl ⟨_, by simp [RResp.hard, he], rfl⟩)⟩
  | uerr =>
    unfold StepOK
    exact ⟨rfl, hb, Or.inr (Or.inl ⟨_, rfl, rfl⟩)⟩


theorem probeStep_ok {L : Nat} {s : St} (h : Inv L true s) (r : RResp) :
    StepOK L s r (probeStep L s r) := by
  have hh := h
  obtain ⟨h1, h2, h3, h4, h5⟩ := hh
  have h5 := h5 rfl
  have key : ∀ bs : List Nat, StepOK L s (.data bs) (probeData L s ⟨true, PROBE, 0⟩ bs) := by
    intro bs
    unfold probeData
    by_cases hz : bs.length = 0
    · have hL : ¬ (s.buf.length < L) := by omega
      simp only [hz, beq_self_eq_true, if_true, retOk, hL, if_false]
      unfold StepOK
      exact ⟨rfl, rfl, Or.inl ⟨by simp [RResp.isEof, hz], rfl⟩⟩
    · have hz' : (bs.length == 0) = false := by simp [hz]
      by_cases hp : PROBE < bs.length
      · simp only [hz', hp, if_true, Bool.false_eq_true, if_false]
        unfold StepOK
        exact ⟨rfl, rfl, Or.inr (Or.inr ⟨bs, _, _, rfl, rfl, rfl, hp⟩)⟩
      · have hc : ¬ (s.cap < s.buf.length) := by omega
        have hg : s.cap - s.buf.length < bs.length := by omega
        have hpk := pick_ge s.caps (s.buf.length + bs.length)
        simp only [hz', hp, hc, hg, if_true, Bool.false_eq_true, if_false]
        unfold StepOK
        refine ⟨rfl, ⟨?_, ?_, ?_, ?_, ?_⟩, Or.inr ⟨bs, rfl, hz, by simp only []; omega, rfl⟩⟩
        · simp; omega
        · simp; omega
        · simp; omega
        · simp
        · intro hf; cases hf
  unfold probeStep
  cases r with
  | data bs => exact key bs
  | eof =>
    have := key []
    unfold StepOK at this ⊢
    simp only [] at this ⊢
    revert this
    cases probeData L s ⟨true, PROBE, 0⟩ [] <;> simp [RResp.isEof, RResp.retry, RResp.hard]
  | eintr =>
    unfold StepOK
    exact ⟨rfl, h, Or.inl ⟨rfl, rfl⟩⟩
  | err e =>
    simp only []
    by_cases he : (e == EINTR) = true
    · simp only [he, if_true]; unfold StepOK
      exact ⟨rfl, h, Or.inl ⟨by simp [RResp.retry, he], rfl⟩⟩
    · simp only [he]; unfold StepOK
      exact ⟨rfl, rfl, Or.inr (Or.inl ⟨_, by simp [RResp.hard, he], rfl⟩)⟩
  | uerr =>
    unfold StepOK
    exact ⟨rfl, rfl, Or.inr (Or.inl ⟨_, rfl, rfl⟩)⟩


theorem step_ok {L : Nat} {p : Bool} {s : St} (C : Nat) (h : Inv L p s) (r : RResp) :
    StepOK L s r (step L C p s r) := by
  unfold step
  cases p with
  | true => simp only [if_true]; exact probeStep_ok h r
  | false => simp only [Bool.false_eq_true, if_false]; exact mainStep_ok C h r

/-! ## specification of a reader script (independent of the loop) -/

/-- the bytes a script hands over before its first end-of-file / non-EINTR error -/
def delivered : List RResp → List Nat
  | [] => []
  | .data bs :: rest => if bs.length = 0 then [] else bs ++ delivered rest
  | .eintr :: rest => delivered rest
  | .err e :: rest => if e = EINTR then delivered rest else []
  | .eof :: _ => []
  | .uerr :: _ => []

/-- how the script ends: `none` = end of file, `some e` = the first non-EINTR error -/
def ending : List RResp → Option IoErr
  | [] => none
  | .data bs :: rest => if bs.length = 0 then none else ending rest
  | .eintr :: rest => ending rest
  | .err e :: rest => if e = EINTR then ending rest else some (.os e)
  | .eof :: _ => none
  | .uerr :: _ => some .user

/-- number of responses up to and including the one that ends the transfer -/
def consumed : List RResp → Nat
  | [] => 0
  | .data bs :: rest => if bs.length = 0 then 1 else 1 + consumed rest
  | .eintr :: rest => 1 + consumed rest
  | .err e :: rest => if e = EINTR then 1 + consumed rest else 1
  | .eof :: _ => 1
  | .uerr :: _ => 1

/-- the reader never claimed more bytes than the buffer it was offered (call log against script) -/
def Conforming : List Call → List RResp → Prop
  | c :: cs, r :: rs => (∀ bs, r = .data bs → bs.length ≤ c.offered) ∧ Conforming cs rs
  | _, _ => True

theorem spec_retry {r : RResp} (rest : List RResp) (h : r.retry = true) :
    delivered (r :: rest) = delivered rest ∧ ending (r :: rest) = ending rest ∧ consumed (r :: rest) = 1 + consumed rest := by
  cases r <;> simp_all [RResp.retry, delivered, ending, consumed]

theorem spec_eof {r : RResp} (rest : List RResp) (h : r.isEof = true) :
    delivered (r :: rest) = [] ∧ ending (r :: rest) = none ∧ consumed (r :: rest) = 1 := by
  cases r <;> simp_all [RResp.isEof, delivered, ending, consumed]

theorem spec_hard {r : RResp} {e : IoErr} (rest : List RResp) (h : r.hard = some e) :
    delivered (r :: rest) = [] ∧ ending (r :: rest) = some e ∧ consumed (r :: rest) = 1 := by
  cases r <;> simp_all [RResp.hard, delivered, ending, consumed]
  all_goals (split at h <;> simp_all)

theorem spec_data (bs : List Nat) (rest : List RResp) (h : bs.length ≠ 0) :
    delivered (.data bs :: rest) = bs ++ delivered rest ∧ ending (.data bs :: rest) = ending rest ∧
      consumed (.data bs :: rest) = 1 + consumed rest := by
  simp [delivered, ending, consumed, h]


/-- expected result of `default_read_to_end` on a script, from a buffer of length `len` -/
def expectRes (L len : Nat) (script : List RResp) : Res Nat :=
  match ending script with
  | none => .ok (len + (delivered script).length - L)
  | some e => .err e

theorem rte_spec (L C : Nat) : ∀ (script : List RResp) (p : Bool) (s : St), Inv L p s →
    (rte L C p s script).unsound = false ∧
    (∀ site, (rte L C p s script).res = .panic site → ¬ Conforming (rte L C p s script).log script) ∧
    ((∀ site, (rte L C p s script).res ≠ .panic site) →
      (rte L C p s script).buf = s.buf ++ delivered script ∧
      (rte L C p s script).res = expectRes L s.buf.length script ∧
      (rte L C p s script).used = consumed script) := by
  intro script
  induction script with
  | nil =>
    intro p s h
    have hs := step_ok C h .eof
    unfold rte
    cases hstep : step L C p s .eof with
    | stop res s' c u =>
      rw [hstep] at hs
      unfold StepOK at hs
      obtain ⟨hu, hb, hc⟩ := hs
      simp only []
      rcases hc with ⟨_, hr⟩ | ⟨e, he, _⟩ | ⟨bs, _, _, hd, _⟩
      · subst hr
        refine ⟨hu, (fun site hx => by cases hx), fun _ => ⟨by simp [delivered, hb], by simp [expectRes, ending, delivered], rfl⟩⟩
      · simp [RResp.hard] at he
      · cases hd
    | next p' s' c u =>
      rw [hstep] at hs
      unfold StepOK at hs
      obtain ⟨_, _, hc⟩ := hs
      rcases hc with ⟨hr, _⟩ | ⟨bs, hd, _⟩
      · simp [RResp.retry] at hr
      · cases hd
  | cons r rest ih =>
    intro p s h
    have hs := step_ok C h r
    unfold rte
    cases hstep : step L C p s r with
    | stop res s' c u =>
      rw [hstep] at hs
      unfold StepOK at hs
      obtain ⟨hu, hb, hc⟩ := hs
      simp only []
      rcases hc with ⟨he, hr⟩ | ⟨e, he, hr⟩ | ⟨bs, site, co, hd, hr, hco, hlt⟩
      · obtain ⟨d1, d2, d3⟩ := spec_eof rest he
        subst hr
        refine ⟨hu, (fun site hx => by cases hx), fun _ => ⟨by simp [d1, hb], by simp [expectRes, d1, d2], by simp [d3]⟩⟩
      · obtain ⟨d1, d2, d3⟩ := spec_hard rest he
        subst hr
        refine ⟨hu, (fun site hx => by cases hx), fun _ => ⟨by simp [d1, hb], by simp [expectRes, d2], by simp [d3]⟩⟩
      · subst hr hco hd
        refine ⟨hu, ?_, fun hn => absurd rfl (hn site)⟩
        intro _ _ hconf
        simp only [optList, Conforming] at hconf
        have := hconf.1 bs rfl
        omega
    | next p' s' c u =>
      rw [hstep] at hs
      unfold StepOK at hs
      obtain ⟨hu, hinv, hc⟩ := hs
      obtain ⟨i1, i2, i3⟩ := ih p' s' hinv
      simp only [Out.push]
      subst hu
      refine ⟨by simp [i1], ?_, ?_⟩
      · intro site hx hconf
        simp only [Conforming] at hconf
        exact i2 site hx hconf.2
      · intro hn
        obtain ⟨j1, j2, j3⟩ := i3 hn
        rcases hc with ⟨hr, hb⟩ | ⟨bs, hd, hz, _, hb⟩
        · obtain ⟨d1, d2, d3⟩ := spec_retry rest hr
          refine ⟨by simp [j1, hb, d1], ?_, by simp [j3, d3]; omega⟩
          rw [j2]; simp [expectRes, d1, d2, hb]
        · subst hd
          obtain ⟨d1, d2, d3⟩ := spec_data bs rest hz
          refine ⟨by simp [j1, hb, d1], ?_, by simp [j3, d3]; omega⟩
          rw [j2]; simp only [expectRes, d1, d2, hb, List.length_append]
          cases ending rest <;> simp <;> omega


theorem readExact_spec : ∀ (script : List RResp) (n : Nat),
    (∀ site, (readExact n script).res ≠ .panic site) →
    (readExact n script).written = delivered (script.take (readExact n script).used) ∧
    (readExact n script).written.length ≤ n ∧
    ((readExact n script).written.length = n → (readExact n script).res = .ok ()) ∧
    ((readExact n script).written.length < n →
      (readExact n script).used = consumed script ∧
      (readExact n script).res = .err ((ending script).getD .unexpectedEof)) := by
  intro script
  induction script with
  | nil =>
    intro n _
    cases n <;> simp [readExact, delivered, consumed, ending]
  | cons r rest ih =>
    intro n hp
    cases n with
    | zero => simp [readExact, delivered]
    | succ n =>
      cases r with
      | data bs =>
        by_cases hz : bs.length = 0
        · simp [readExact, hz, delivered, consumed, ending]
        · by_cases hb : n + 1 < bs.length
          · exfalso
            apply hp .readExactSlice
            simp [readExact, hz, hb]
          · have hp' : ∀ site, (readExact (n + 1 - bs.length) rest).res ≠ .panic site := by
              intro site hx
              apply hp site
              simp [readExact, hz, hb, XOut.push, hx]
            obtain ⟨i1, i2, i3, i4⟩ := ih (n + 1 - bs.length) hp'
            simp only [readExact, hz, hb, beq_iff_eq, if_false, XOut.push, List.take_succ_cons, delivered,
              consumed, ending, List.length_append]
            refine ⟨by rw [i1], by omega, fun h => i3 (by omega), fun h => ?_⟩
            obtain ⟨j1, j2⟩ := i4 (by omega)
            exact ⟨by omega, j2⟩
      | eof => simp [readExact, delivered, consumed, ending]
      | uerr => simp [readExact, delivered, consumed, ending]
      | eintr =>
        have hp' : ∀ site, (readExact (n + 1) rest).res ≠ .panic site := by
          intro site hx
          apply hp site
          simp [readExact, XOut.push, hx]
        obtain ⟨i1, i2, i3, i4⟩ := ih (n + 1) hp'
        simp only [readExact, XOut.push, List.take_succ_cons, delivered, consumed, ending, List.nil_append]
        refine ⟨i1, i2, i3, fun h => ?_⟩
        obtain ⟨j1, j2⟩ := i4 h
        exact ⟨by omega, j2⟩
      | err e =>
        by_cases he : e = EINTR
        · have hp' : ∀ site, (readExact (n + 1) rest).res ≠ .panic site := by
            intro site hx
            apply hp site
            simp [readExact, XOut.push, hx, he]
          obtain ⟨i1, i2, i3, i4⟩ := ih (n + 1) hp'
          simp only [readExact, he, beq_self_eq_true, if_true, XOut.push, List.take_succ_cons, delivered, consumed, ending,
            List.nil_append]
          refine ⟨i1, i2, i3, fun h => ?_⟩
          obtain ⟨j1, j2⟩ := i4 h
          exact ⟨by omega, j2⟩
        · simp [readExact, he, delivered, consumed, ending]


/-- a writer answer that ends `write_all` with an error -/
def WResp.hard : WResp → Option IoErr
  | .accept k => if k = 0 then some .writeZero else none
  | .err e => if e = EINTR then none else some (.os e)
  | .uerr => some .user
  | .eintr => none

/-- bytes taken by the answers of a script prefix -/
def acceptedSum : List WResp → Nat
  | [] => 0
  | .accept k :: r => k + acceptedSum r
  | _ :: r => acceptedSum r

/-- what "every byte exactly once and in order, or the writer's error" means for one `write_all` -/
def WSpec (data : List Nat) (script : List WResp) (o : WOut) : Prop :=
    o.sink = data.take o.sink.length ∧
    o.rest = script.drop o.used ∧
    (o.res = .ok () → o.sink = data) ∧
    (∀ e, o.res = .err e →
      o.sink.length < data.length ∧
      o.sink.length = acceptedSum (script.take o.used) ∧
      ∃ pre r, script.take o.used = pre ++ [r] ∧ r.hard = some e ∧ ∀ x ∈ pre, x.hard = none)

theorem writeAll_spec : ∀ (script : List WResp) (data : List Nat),
    (∀ site, (writeAll data script).res ≠ .panic site) → WSpec data script (writeAll data script) := by
  intro script
  induction script with
  | nil =>
    intro data _
    cases data <;> simp [writeAll, WSpec]
  | cons r rest ih =>
    intro data hp
    cases data with
    | nil => simp [writeAll, WSpec]
    | cons b bs =>
      have recur : ∀ (pre : List Nat) (d' : List Nat), (b :: bs) = pre ++ d' → r.hard = none →
          acceptedSum [r] = pre.length →
          (∀ site, (writeAll d' rest).res ≠ .panic site) →
          writeAll (b :: bs) (r :: rest) = (writeAll d' rest).push pre (b :: bs).length →
          WSpec (b :: bs) (r :: rest) (writeAll (b :: bs) (r :: rest)) := by
        intro pre d' hd hh hacc hp' heq
        obtain ⟨i1, i2, i3, i4⟩ := ih d' hp'
        rw [heq]
        unfold WSpec
        simp only [WOut.push, List.length_append, List.take_succ_cons, List.drop_succ_cons]
        refine ⟨?_, i2, ?_, ?_⟩
        · rw [hd, List.take_length_add_append, ← i1]
        · intro h; rw [hd, i3 h]
        · intro e h
          obtain ⟨j1, j2, pre', r', j3, j4, j5⟩ := i4 e h
          refine ⟨by rw [hd]; simp; omega, ?_, r :: pre', r', by simp [j3], j4, ?_⟩
          · cases r <;> simp_all [acceptedSum] <;> omega
          · intro x hx
            cases hx with
            | head => exact hh
            | tail _ hx => exact j5 x hx
      cases r with
      | accept k =>
        by_cases hz : k = 0
        · subst hz
          simp [writeAll, acceptedSum, WResp.hard, WSpec]
          exact ⟨[], by simp⟩
        · by_cases hk : (b :: bs).length < k
          · have hk' : bs.length + 1 < k := by simpa using hk
            exfalso; apply hp .writeAllSlice; simp [writeAll, hz, hk']
          · have e1 : writeAll (b :: bs) (.accept k :: rest) = (writeAll ((b :: bs).drop k) rest).push ((b :: bs).take k) (b :: bs).length := by
              have hk' : ¬ (bs.length + 1 < k) := by simpa using hk
              simp [writeAll, hz, hk']
            refine recur ((b :: bs).take k) ((b :: bs).drop k) (by simp) (by simp [WResp.hard, hz]) ?_ ?_ e1
            · simp [acceptedSum]; simp at hk; omega
            · intro site hx; apply hp site; rw [e1]; simpa [WOut.push] using hx
      | eintr =>
        have e1 : writeAll (b :: bs) (.eintr :: rest) = (writeAll (b :: bs) rest).push [] (b :: bs).length := by
          simp [writeAll]
        refine recur [] (b :: bs) (by simp) rfl (by simp [acceptedSum]) ?_ e1
        intro site hx; apply hp site; rw [e1]; simpa [WOut.push] using hx
      | err e =>
        by_cases he : e = EINTR
        · have e1 : writeAll (b :: bs) (.err e :: rest) = (writeAll (b :: bs) rest).push [] (b :: bs).length := by
            simp [writeAll, he]
          refine recur [] (b :: bs) (by simp) (by simp [WResp.hard, he]) (by simp [acceptedSum]) ?_ e1
          intro site hx; apply hp site; rw [e1]; simpa [WOut.push] using hx
        · simp [writeAll, he, acceptedSum, WResp.hard, WSpec]
          exact ⟨[], .err e, by simp [he]⟩
      | uerr =>
        simp [writeAll, acceptedSum, WResp.hard, WSpec]
        exact ⟨[], by simp⟩


theorem writeFmt_spec : ∀ (bss : List (List Nat)) (script : List WResp),
    (∀ site, (writeFmt (bss.map .str) script).res ≠ .panic site) →
    (writeFmt (bss.map .str) script).sink = bss.flatten.take (writeFmt (bss.map .str) script).sink.length ∧
    ((writeFmt (bss.map .str) script).res = .ok () → (writeFmt (bss.map .str) script).sink = bss.flatten) ∧
    (∀ e, (writeFmt (bss.map .str) script).res = .err e →
      (writeFmt (bss.map .str) script).sink.length < bss.flatten.length) := by
  intro bss
  induction bss with
  | nil => intro script _; simp [writeFmt]
  | cons bs rest ih =>
    intro script hp
    simp only [List.map_cons, writeFmt] at hp ⊢
    cases h1 : (writeAll bs script).res with
    | panic site => exfalso; apply hp site; simp [h1]
    | err e =>
      have hp1 : ∀ site, (writeAll bs script).res ≠ .panic site := by intro site hx; rw [h1] at hx; cases hx
      obtain ⟨w1, _, _, w4⟩ := writeAll_spec script bs hp1
      obtain ⟨w5, _⟩ := w4 e h1
      simp only [h1, List.flatten_cons, List.length_append]
      refine ⟨?_, fun h => (by cases h), fun _ _ => by omega⟩
      rw [List.take_append_of_le_length (by omega)]
      exact w1
    | ok u =>
      have hp1 : ∀ site, (writeAll bs script).res ≠ .panic site := by intro site hx; rw [h1] at hx; cases hx
      obtain ⟨_, _, w3, _⟩ := writeAll_spec script bs hp1
      have w3 := w3 (by rw [h1])
      simp only [h1] at hp
      have hp2 : ∀ site, (writeFmt (rest.map .str) (writeAll bs script).rest).res ≠ .panic site := by
        intro site hx; apply hp site; simp [WOut.after, hx]
      obtain ⟨i1, i2, i3⟩ := ih _ hp2
      simp only [WOut.after, List.flatten_cons, List.length_append, w3]
      refine ⟨?_, fun h => by rw [i2 h], fun e h => by have := i3 e h; omega⟩
      rw [List.take_length_add_append, ← i1]


end TinyVerif.Io
