/- per-event preservation of the instance invariant (generated layout, proofs by the `inv_event` tactic of ThreadInv) -/
import TinyVerif.Proofs.ThreadInv
set_option maxRecDepth 4000
set_option linter.unusedVariables false
namespace TinyVerif.Thread

theorem inv_hUndoTsm (c : Cfg) (hc : c.Good) (x x' : Inst) (h : stepI c x .hUndoTsm = some x') (hinv : IInv x) :
    IInv x' := by
  inv_event

theorem inv_hJoin (c : Cfg) (hc : c.Good) (x x' : Inst) (h : stepI c x .hJoin = some x') (hinv : IInv x) :
    IInv x' := by
  inv_event

theorem inv_hDrop (c : Cfg) (hc : c.Good) (x x' : Inst) (h : stepI c x .hDrop = some x') (hinv : IInv x) :
    IInv x' := by
  inv_event

theorem inv_hLoad (c : Cfg) (hc : c.Good) (x x' : Inst) (v : Nat) (h : stepI c x (.hLoad v) = some x') (hinv : IInv x) :
    IInv x' := by
  inv_event

theorem inv_hFwait (c : Cfg) (hc : c.Good) (x x' : Inst) (park : Bool) (h : stepI c x (.hFwait park) = some x') (hinv : IInv x) :
    IInv x' := by
  inv_event

theorem inv_hEintr (c : Cfg) (hc : c.Good) (x x' : Inst) (h : stepI c x .hEintr = some x') (hinv : IInv x) :
    IInv x' := by
  inv_event

theorem inv_hSpur (c : Cfg) (hc : c.Good) (x x' : Inst) (h : stepI c x .hSpur = some x') (hinv : IInv x) :
    IInv x' := by
  inv_event

end TinyVerif.Thread
