import TinyVerif.Proofs.DlIndSpec
/-!
# Interface of the PROGRESS proof: from a state satisfying the invariant no operation raises one of the
model's error outcomes

The theorems of `Props/C03Ind.lean` speak about runs in which `step = .ok …`.  The model raises explicit `error`
outcomes for: a failed `debug_assert!` of the port, an arithmetic underflow, a read of a header word that was never
written, the dead direct-mmap branches, a chunk that is not in the bin it should be in, and an OS answer of the
wrong kind (`os-desync:*`: the answer list handed to `step` does not match the system calls the operation makes —
an artefact of taking the OS answers as a list, not a behaviour of the allocator).  Progress = from `SInv`
(+ what the call site knows) only the `os-desync` outcomes are possible; in particular no `debug_assert!` of the
port can fail and no subtraction underflows, in debug and release builds alike.

`SInv` does not bound the size of a user chunk below by 32 (that is in `liveOk`): the chunk-freeing functions
take `32 ≤ size` as a call-site fact (a 16-byte in-use chunk would trip `insert_small_chunk`'s assert; unreachable,
kernel-checked example in `DlProgFree.lean`).

One `f_Prog : Prop` per model function; proofs of `g_Prog` may take `f_Prog` AND `f_Spec` of callees as hypotheses.
-/
namespace TinyVerif.Dl

/-- the only error outcomes an operation started in a state satisfying the invariant can have -/
def IsDesync (e : String) : Prop :=
  e = "os-desync:mmap" ∨ e = "os-desync:mremap" ∨ e = "os-desync:munmap"

/-- "fails only by OS-answer desynchronisation" -/
def Prog {α : Type} (x : M α) : Prop := ∀ e, x = .error e → IsDesync e

/-- "does not fail" (functions that make no system call) -/
def Total {α : Type} (x : M α) : Prop := ∃ r, x = .ok r

theorem Total.prog {α : Type} {x : M α} (h : Total x) : Prog x := by
  obtain ⟨r, hr⟩ := h
  intro e he
  rw [hr] at he
  cases he

theorem Prog.bind {α β : Type} {x : M α} {f : α → M β} (hx : Prog x) (hf : ∀ a, x = .ok a → Prog (f a)) :
    Prog (x >>= f) := by
  intro e he
  cases hxx : x with
  | error e' =>
    rw [hxx] at he
    have : e' = e := by
      change (Except.error e' : M β) = .error e at he
      injection he
    exact this ▸ hx e' hxx
  | ok a =>
    rw [hxx] at he
    exact hf a hxx e he

theorem Total.bind {α β : Type} {x : M α} {f : α → M β} (hx : Total x) (hf : ∀ a, x = .ok a → Total (f a)) :
    Total (x >>= f) := by
  obtain ⟨a, ha⟩ := hx
  obtain ⟨b, hb⟩ := hf a ha
  exact ⟨b, by rw [ha]; exact hb⟩

theorem prog_pure {α : Type} (a : α) : Prog (pure a : M α) := by
  intro e he; cases he

theorem total_pure {α : Type} (a : α) : Total (pure a : M α) := ⟨a, rfl⟩

/-! ## heap-level functions: total -/

def malloc_nosys_Prog : Prop :=
  ∀ {s : St} (_ : SInv s) {size : Nat}, Total (malloc_nosys s.h size)

def dispose_chunk_Prog : Prop :=
  ∀ {s : St} (_ : SInv s) {p psize : Nat}, User s p psize → 32 ≤ psize → Total (dispose_chunk s.h p psize)

/-- the two `set_inuse` calls of a split of a user chunk of size `nb + rsize` -/
def split_inuse_Prog : Prop :=
  ∀ {s : St} (_ : SInv s) {p nb rsize : Nat}, User s p (nb + rsize) → nb % 16 = 0 → 32 ≤ nb → rsize % 16 = 0 →
    32 ≤ rsize → ∃ h1 h2, set_inuse s.h p nb = .ok h1 ∧ set_inuse h1 (p + nb) rsize = .ok h2

def free_heap_Prog : Prop :=
  ∀ {s : St} (_ : SInv s) {mem : Nat}, 16 ≤ mem → (∃ z, User s (mem - 16) z ∧ 32 ≤ z) → Total (free_heap s.h mem)

def try_realloc_chunk_Prog : Prop :=
  ∀ {s : St} (_ : SInv s) {p nb z : Nat}, User s p z → 32 ≤ z → NbOk nb → Total (try_realloc_chunk s.h p nb)

def memalign_fix_Prog : Prop :=
  ∀ {s : St} (_ : SInv s) {mem k nb z : Nat}, 16 ≤ mem → User s (mem - 16) z → NbOk nb → 5 ≤ k → k ≤ 32 →
    nb + 2 ^ k + 24 ≤ z → Total (memalign_fix s.h mem (2 ^ k) nb)

/-! ## functions that talk to the OS: fail only by desync -/

def sys_alloc_Prog : Prop :=
  ∀ {s : St} (_ : SInv s) {nb : Nat}, NbOk nb → OsOk s (sysLen nb) → Prog (sys_alloc s nb)

/-- the footprint counter equals the sum of the segment sizes (`Props/C04.lean` `footprint_exact`; inductive by the
`*_book` lemmas of `Proofs/DlStep.lean`): without it `footprint - released` can underflow (kernel-checked example in
`DlProgSys.lean`) -/
def FpOk (s : St) : Prop := s.footprint = (s.segs.map (·.size)).sum

def release_unused_segments_Prog : Prop :=
  ∀ {s : St} (_ : SInv s) (_ : FpOk s), Prog (release_unused_segments s)

def sys_trim_Prog : Prop :=
  ∀ {s : St} (_ : SInv s) (_ : FpOk s) {pad : Nat}, Prog (sys_trim s pad)

/-! ## entry points -/

def inner_malloc_Prog : Prop :=
  ∀ {s : St} (_ : SInv s) {size : Nat}, nbOf size < 2 ^ 63 → OsOk s (mapSize size) → Prog (inner_malloc s size)

/-- `release_checks` is decremented on every large free: it must not be 0 (`underflow:release_checks`): part of
what `free` needs from the state beyond `SInv` -/
def RcOk (s : St) : Prop := s.h.top ≠ 0 → 0 < s.release_checks

def free_Prog : Prop :=
  ∀ {s : St} (_ : SInv s) (_ : RcOk s) (_ : FpOk s) {mem : Nat}, 16 ≤ mem → (∃ z, User s (mem - 16) z ∧ 32 ≤ z) →
    Prog (free s mem)

def malloc_Prog : Prop :=
  ∀ {s : St} (_ : SInv s) {size k : Nat}, k ≤ 32 → nbOf (reqOf size (2 ^ k)) < 2 ^ 63 →
    OsOk s (mapSize (reqOf size (2 ^ k))) → Prog (malloc s size (2 ^ k))

def realloc_Prog : Prop :=
  ∀ {s : St} (_ : SInv s) (_ : RcOk s) (_ : FpOk s) {ptr osz k ns z : Nat}, 16 ≤ ptr → User s (ptr - 16) z → 32 ≤ z →
    k ≤ 32 →
    ptr % 2 ^ k = 0 → nbOf (reqOf ns (2 ^ k)) < 2 ^ 63 → OsOk s (mapSize (reqOf ns (2 ^ k))) →
    Prog (realloc s ptr osz (2 ^ k) ns)

end TinyVerif.Dl
