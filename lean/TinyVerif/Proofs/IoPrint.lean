import TinyVerif.Proofs.IoLemmas
/-! Lemmas for the print path of C15: `tryPrint`, `printFmt`, `printMacro`, `printSeq` (Model/Io.lean, mirror of
tiny-std/src/unix/print.rs).  The specification side talks about the *consumed* part of the kernel's response script
only: `pos` = the kernel took a positive number of bytes (a short or full write), `isZero` = it returned 0,
`isErr` = it returned an error (EINTR included: `try_print` does not retry). -/
namespace TinyVerif.Io

def WResp.pos : WResp → Bool
  | .accept k => k != 0
  | _ => false

def WResp.isZero : WResp → Bool
  | .accept k => k == 0
  | _ => false

def WResp.isErr : WResp → Bool
  | .accept _ => false
  | _ => true

/-- a call of `write`: the size of the buffer offered and the kernel's answer -/
abbrev Call2 := Nat × WResp

/-- the kernel answered `0` although it was offered a non-empty buffer -/
def badZero (c : Call2) : Bool := c.2.isZero && c.1 != 0

/-- a call whose answer makes `try_print` give up with `fmt::Error`: an error (EINTR included), or `0` although a
non-empty buffer was offered (`0` for the zero-length write of an empty piece is the normal answer) -/
def failing (c : Call2) : Bool := c.2.isErr || badZero c

/-- the calls that consumed a script element: offered size (from the model's log) paired with the answer -/
def WOut.calls (o : WOut) (script : List WResp) : List Call2 := o.log.zip (script.take o.used)

theorem zip_append_short {α β : Type} : ∀ (l1 l2 : List α) (s : List β), s.length ≤ l1.length → (l1 ++ l2).zip s = l1.zip s := by
  intro l1
  induction l1 with
  | nil => intro l2 s h; cases s <;> simp_all
  | cons a l1 ih =>
    intro l2 s h
    cases s with
    | nil => simp
    | cons b s => simp only [List.cons_append, List.zip_cons_cons]; rw [ih l2 s (by simpa using h)]

/-- the calls of a run followed by a second run on the rest of the script -/
theorem zip_after (l1 l2 : List Nat) (script : List WResp) (u1 u2 : Nat)
    (h : l1.length = u1 ∨ (script.drop u1 = [] ∧ u1 ≤ l1.length)) (hu1 : u1 ≤ script.length)
    (hu2 : u2 ≤ (script.drop u1).length) :
    (l1 ++ l2).zip (script.take (u1 + u2)) = l1.zip (script.take u1) ++ l2.zip ((script.drop u1).take u2) := by
  rcases h with h | ⟨h, h'⟩
  · rw [List.take_add]
    exact List.zip_append (by simp [h, Nat.min_eq_left hu1])
  · have : u2 = 0 := by rw [h] at hu2; simpa using hu2
    subst this
    simp only [Nat.add_zero, List.take_zero, List.zip_nil_right, List.append_nil]
    exact zip_append_short l1 l2 _ (by simp; omega)

theorem pos_not_failing {c : Call2} (h : c.2.pos = true) : failing c = false := by
  obtain ⟨n, r⟩ := c
  cases r <;> simp_all [failing, badZero, WResp.pos, WResp.isZero, WResp.isErr]

theorem pos_calls_ok {l : List Nat} {s : List WResp} (h : ∀ r ∈ s, r.pos = true) : ∀ c ∈ l.zip s, failing c = false := by
  intro c hc
  exact pos_not_failing (h c.2 (List.of_mem_zip hc).2)

theorem WResp.pos_not_zero {r : WResp} (h : r.pos = true) : r.isZero = false := by
  cases r <;> simp_all [WResp.pos, WResp.isZero]

theorem WResp.pos_not_err {r : WResp} (h : r.pos = true) : r.isErr = false := by
  cases r <;> simp_all [WResp.pos, WResp.isErr]

/-- what one `try_print(fd, data)` guarantees against the script `script` -/
structure PSpec (data : List Nat) (script : List WResp) (o : WOut) : Prop where
  /-- the descriptor received a prefix of the piece, in order, each byte once -/
  pre : o.sink = data.take o.sink.length
  rest : o.rest = script.drop o.used
  usedLe : o.used ≤ script.length
  noPanic : o.res = .ok () ∨ o.res = .err .formatter
  /-- every call but those past the end of the script consumed one answer -/
  logLen : o.log.length = o.used ∨ (o.rest = [] ∧ o.used ≤ o.log.length)
  /-- `Ok` means everything was delivered -/
  complete : o.res = .ok () → o.sink = data
  /-- `Ok` only if no call failed -/
  okCalls : o.res = .ok () → ∀ c ∈ o.calls script, failing c = false
  /-- `Err` exactly when the last call failed (an error, or `0` for a non-empty rest); all answers before it were
  positive counts, and no `write` is issued after it -/
  err : ∀ e, o.res = .err e → o.log.length = o.used ∧
    ∃ p c, o.calls script = p ++ [c] ∧ failing c = true ∧ ∀ x ∈ p, x.2.pos = true

theorem tryPrint_spec : ∀ (script : List WResp) (data : List Nat), PSpec data script (tryPrint data script) := by
  intro script
  induction script with
  | nil =>
    intro data
    exact ⟨by simp [tryPrint], by simp [tryPrint], by simp [tryPrint], by simp [tryPrint], by simp [tryPrint],
      by simp [tryPrint], by simp [tryPrint, WOut.calls], by simp [tryPrint]⟩
  | cons r rest ih =>
    intro data
    cases r with
    | accept k =>
      by_cases hz : k = 0
      · subst hz
        by_cases hd : data.length = 0
        · have hn : data = [] := List.eq_nil_of_length_eq_zero hd
          subst hn
          exact ⟨by simp [tryPrint], by simp [tryPrint], by simp [tryPrint], by simp [tryPrint], by simp [tryPrint],
            by simp [tryPrint], by simp [tryPrint, WOut.calls, failing, badZero, WResp.isErr, WResp.isZero],
            by simp [tryPrint]⟩
        · have e1 : tryPrint data (.accept 0 :: rest) = ⟨.err .formatter, [], rest, [data.length], 1⟩ := by
            simp [tryPrint, hd]
          rw [e1]
          refine ⟨by simp, by simp, by simp, by simp, by simp, by simp, by simp, ?_⟩
          intro e _
          refine ⟨by simp, [], (data.length, .accept 0), by simp [WOut.calls], ?_, by simp⟩
          simp [failing, badZero, WResp.isErr, WResp.isZero, hd]
      · by_cases hk : data.length ≤ k
        · exact ⟨by simp [tryPrint, hz, hk], by simp [tryPrint, hz, hk], by simp [tryPrint, hz, hk],
            by simp [tryPrint, hz, hk], by simp [tryPrint, hz, hk], by simp [tryPrint, hz, hk],
            by simp [tryPrint, hz, hk, WOut.calls, failing, badZero, WResp.isErr, WResp.isZero],
            by simp [tryPrint, hz, hk]⟩
        · have e1 : tryPrint data (.accept k :: rest) = (tryPrint (data.drop k) rest).push (data.take k) data.length := by
            simp [tryPrint, hz, hk]
          have hk' : k < data.length := by omega
          obtain ⟨i1, i2, i3, i4, i7, i5, i8, i6⟩ := ih (data.drop k)
          rw [e1]
          refine ⟨?_, ?_, ?_, ?_, ?_, ?_, ?_, ?_⟩
          · simp only [WOut.push, List.length_append, List.length_take, Nat.min_eq_left (Nat.le_of_lt hk')]
            rw [List.take_add]
            congr 1
          · simpa [WOut.push] using i2
          · simp only [WOut.push, List.length_cons]; omega
          · simpa [WOut.push] using i4
          · simp only [WOut.push, List.length_cons]
            rcases i7 with h | ⟨h, h'⟩
            · left; omega
            · right; exact ⟨h, by omega⟩
          · intro hok
            simp only [WOut.push] at hok ⊢
            rw [i5 hok, List.take_append_drop]
          · intro hok c hc
            simp only [WOut.push, WOut.calls, List.take_succ_cons, List.zip_cons_cons, List.mem_cons] at hok hc
            rcases hc with hc | hc
            · subst hc
              simp [failing, badZero, WResp.isErr, WResp.isZero, hz]
            · exact i8 hok c hc
          · intro e he
            simp only [WOut.push] at he
            obtain ⟨j0, p, c, j1, j2, j3⟩ := i6 e he
            refine ⟨by simp only [WOut.push, List.length_cons]; omega, (data.length, .accept k) :: p, c, ?_, j2, ?_⟩
            · simp only [WOut.calls] at j1
              simp [WOut.push, WOut.calls, j1]
            · intro x hx
              cases hx with
              | head => simp [WResp.pos, hz]
              | tail _ hx => exact j3 x hx
    | eintr =>
      exact ⟨by simp [tryPrint], by simp [tryPrint], by simp [tryPrint], by simp [tryPrint], by simp [tryPrint],
        by simp [tryPrint], by simp [tryPrint],
        by intro e _; exact ⟨by simp [tryPrint], [], (data.length, .eintr), by simp [tryPrint, WOut.calls], rfl, by simp⟩⟩
    | err e =>
      exact ⟨by simp [tryPrint], by simp [tryPrint], by simp [tryPrint], by simp [tryPrint], by simp [tryPrint],
        by simp [tryPrint], by simp [tryPrint],
        by intro e' _; exact ⟨by simp [tryPrint], [], (data.length, .err e), by simp [tryPrint, WOut.calls], rfl, by simp⟩⟩
    | uerr =>
      exact ⟨by simp [tryPrint], by simp [tryPrint], by simp [tryPrint], by simp [tryPrint], by simp [tryPrint],
        by simp [tryPrint], by simp [tryPrint],
        by intro e _; exact ⟨by simp [tryPrint], [], (data.length, .uerr), by simp [tryPrint, WOut.calls], rfl, by simp⟩⟩

/-- the result is decided by the calls: `Ok` exactly when no call failed -/
theorem PSpec.ok_iff {data : List Nat} {script : List WResp} {o : WOut} (s : PSpec data script o) :
    o.res = .ok () ↔ ∀ c ∈ o.calls script, failing c = false := by
  refine ⟨s.okCalls, fun h => ?_⟩
  rcases s.noPanic with h1 | h1
  · exact h1
  · obtain ⟨_, p, c, j1, j2, _⟩ := s.err _ h1
    have := h c (by rw [j1]; simp)
    rw [this] at j2
    cases j2

/-- short writes only (every consumed answer a positive count) ⇒ `Ok` and the whole piece delivered -/
theorem tryPrint_short_writes (data : List Nat) (script : List WResp)
    (h : ∀ r ∈ script.take (tryPrint data script).used, r.pos = true) :
    (tryPrint data script).res = .ok () ∧ (tryPrint data script).sink = data := by
  have s := tryPrint_spec script data
  have hok : (tryPrint data script).res = .ok () := s.ok_iff.2 (pos_calls_ok h)
  exact ⟨hok, s.complete hok⟩

/-- the bookkeeping every run on a script satisfies: what is left of the script, and that the log pairs up with
the consumed answers -/
structure Str (script : List WResp) (o : WOut) : Prop where
  rest : o.rest = script.drop o.used
  usedLe : o.used ≤ script.length
  logLen : o.log.length = o.used ∨ (o.rest = [] ∧ o.used ≤ o.log.length)

theorem PSpec.str {data : List Nat} {script : List WResp} {o : WOut} (s : PSpec data script o) : Str script o :=
  ⟨s.rest, s.usedLe, s.logLen⟩

/-- what `fmt::write` into the `__UnixWriter` guarantees for the pieces `bss` -/
structure FSpec (bss : List (List Nat)) (script : List WResp) (o : WOut) : Prop where
  rest : o.rest = script.drop o.used
  usedLe : o.used ≤ script.length
  noPanic : o.res = .ok () ∨ o.res = .err .formatter
  logLen : o.log.length = o.used ∨ (o.rest = [] ∧ o.used ≤ o.log.length)
  /-- in order, each byte once, no hole -/
  pre : o.sink = bss.flatten.take o.sink.length
  /-- `Ok` means the whole rendering was delivered -/
  complete : o.res = .ok () → o.sink = bss.flatten
  /-- `Ok` only if no call failed -/
  okCalls : o.res = .ok () → ∀ c ∈ o.calls script, failing c = false
  /-- `Err` exactly when a call failed; that call is the first failing one and the LAST call made: neither the rest
  of its piece nor any later piece is written -/
  err : ∀ e, o.res = .err e → o.log.length = o.used ∧
    ∃ p c, o.calls script = p ++ [c] ∧ failing c = true ∧ ∀ x ∈ p, failing x = false

theorem FSpec.str {bss : List (List Nat)} {script : List WResp} {o : WOut} (s : FSpec bss script o) : Str script o :=
  ⟨s.rest, s.usedLe, s.logLen⟩

theorem FSpec.ok_iff {bss : List (List Nat)} {script : List WResp} {o : WOut} (s : FSpec bss script o) :
    o.res = .ok () ↔ ∀ c ∈ o.calls script, failing c = false := by
  refine ⟨s.okCalls, fun h => ?_⟩
  rcases s.noPanic with h1 | h1
  · exact h1
  · obtain ⟨_, p, c, j1, j2, _⟩ := s.err _ h1
    have := h c (by rw [j1]; simp)
    rw [this] at j2
    cases j2

/-- the calls of `first.after second` when `second` ran on what `first` left -/
theorem calls_after (o1 o2 : WOut) (script : List WResp)
    (h1 : o1.log.length = o1.used ∨ (o1.rest = [] ∧ o1.used ≤ o1.log.length))
    (hr : o1.rest = script.drop o1.used) (hu1 : o1.used ≤ script.length) (hu2 : o2.used ≤ o1.rest.length) :
    (o1.after o2).calls script = o1.calls script ++ o2.calls o1.rest := by
  simp only [WOut.calls, WOut.after]
  rw [hr] at hu2 h1 ⊢
  exact zip_after o1.log o2.log script o1.used o2.used h1 hu1 hu2

theorem logLen_after (o1 o2 : WOut)
    (h1 : o1.log.length = o1.used ∨ (o1.rest = [] ∧ o1.used ≤ o1.log.length))
    (h2 : o2.log.length = o2.used ∨ (o2.rest = [] ∧ o2.used ≤ o2.log.length))
    (hu2 : o2.used ≤ o1.rest.length) (hr2 : o2.rest = o1.rest.drop o2.used) :
    (o1.after o2).log.length = (o1.after o2).used ∨ ((o1.after o2).rest = [] ∧ (o1.after o2).used ≤ (o1.after o2).log.length) := by
  simp only [WOut.after, List.length_append]
  rcases h1 with a | ⟨a, a'⟩
  · rcases h2 with b | ⟨b, b'⟩
    · left; omega
    · right; exact ⟨b, by omega⟩
  · have : o2.used = 0 := by rw [a] at hu2; simpa using hu2
    rcases h2 with b | ⟨b, b'⟩
    · right
      exact ⟨by rw [hr2, a]; simp, by omega⟩
    · right; exact ⟨b, by omega⟩

/-- a run followed by a second run on the rest of the script: bookkeeping and calls -/
theorem Str.after {script : List WResp} {o1 o2 : WOut} (h1 : Str script o1) (h2 : Str o1.rest o2) :
    Str script (o1.after o2) := by
  refine ⟨?_, ?_, logLen_after _ _ h1.logLen h2.logLen h2.usedLe h2.rest⟩
  · simp only [WOut.after]
    rw [h2.rest, h1.rest, List.drop_drop]
  · have := h1.usedLe
    have := h2.usedLe
    have h3 : o1.rest.length = script.length - o1.used := by rw [h1.rest]; simp
    simp only [WOut.after]; omega

theorem Str.calls_after {script : List WResp} {o1 o2 : WOut} (h1 : Str script o1) (h2 : Str o1.rest o2) :
    (o1.after o2).calls script = o1.calls script ++ o2.calls o1.rest :=
  TinyVerif.Io.calls_after o1 o2 script h1.logLen h1.rest h1.usedLe h2.usedLe

/-- the second run consumed something only if the log of the first pairs up exactly with what it consumed -/
theorem Str.log_exact_of_next {script : List WResp} {o1 : WOut} (h1 : Str script o1) {u2 : Nat}
    (hu : u2 ≤ o1.rest.length) (hpos : 0 < u2) : o1.log.length = o1.used := by
  rcases h1.logLen with h | ⟨h, _⟩
  · exact h
  · rw [h] at hu; simp at hu; omega

theorem printFmt_spec : ∀ (bss : List (List Nat)) (script : List WResp),
    FSpec bss script (printFmt (bss.map .str) script) := by
  intro bss
  induction bss with
  | nil =>
    intro script
    exact ⟨by simp [printFmt], by simp [printFmt], by simp [printFmt], by simp [printFmt], by simp [printFmt],
      by simp [printFmt], by simp [printFmt, WOut.calls], by simp [printFmt]⟩
  | cons bs more ih =>
    intro script
    have s := tryPrint_spec script bs
    simp only [List.map_cons, printFmt]
    cases h1 : (tryPrint bs script).res with
    | panic site => rcases s.noPanic with h | h <;> rw [h1] at h <;> cases h
    | err e =>
      simp only []
      refine ⟨s.rest, s.usedLe, s.noPanic, s.logLen, ?_, ?_, ?_, ?_⟩
      · have hl : (tryPrint bs script).sink.length ≤ bs.length := by
          have := congrArg List.length s.pre
          simp only [List.length_take] at this
          omega
        rw [List.flatten_cons, List.take_append_of_le_length hl]
        exact s.pre
      · intro h; rw [h1] at h; cases h
      · intro h; rw [h1] at h; cases h
      · intro e' _
        obtain ⟨j0, p, c, j1, j2, j3⟩ := s.err e h1
        exact ⟨j0, p, c, j1, j2, fun x hx => pos_not_failing (j3 x hx)⟩
    | ok u =>
      simp only []
      have t := ih (tryPrint bs script).rest
      have hok : (tryPrint bs script).res = .ok () := by rw [h1]
      have st := Str.after s.str t.str
      have hc := Str.calls_after s.str t.str
      refine ⟨st.rest, st.usedLe, ?_, st.logLen, ?_, ?_, ?_, ?_⟩
      · simpa [WOut.after] using t.noPanic
      · simp only [WOut.after]
        rw [s.complete hok, List.flatten_cons, List.length_append, List.take_length_add_append, ← t.pre]
      · intro hok2
        simp only [WOut.after] at hok2 ⊢
        rw [s.complete hok, t.complete hok2, List.flatten_cons]
      · intro hok2 c hx
        rw [hc] at hx
        simp only [WOut.after] at hok2
        rcases List.mem_append.1 hx with hx | hx
        · exact s.okCalls hok c hx
        · exact t.okCalls hok2 c hx
      · intro e he
        simp only [WOut.after] at he
        obtain ⟨j0, p, c, j1, j2, j3⟩ := t.err e he
        have hpos : 0 < (printFmt (more.map .str) (tryPrint bs script).rest).used := by
          have := congrArg List.length j1
          simp only [WOut.calls, List.length_zip, List.length_take, List.length_append, List.length_cons,
            List.length_nil] at this
          omega
        have hl := s.str.log_exact_of_next t.usedLe hpos
        refine ⟨by simp only [WOut.after, List.length_append]; omega,
          (tryPrint bs script).calls script ++ p, c, ?_, j2, ?_⟩
        · rw [hc, j1, List.append_assoc]
        · intro x hx
          rcases List.mem_append.1 hx with hx | hx
          · exact s.okCalls hok x hx
          · exact j3 x hx

/-- short writes only ⇒ `Ok` and the whole rendering delivered, in order -/
theorem printFmt_short_writes (bss : List (List Nat)) (script : List WResp)
    (h : ∀ r ∈ script.take (printFmt (bss.map .str) script).used, r.pos = true) :
    (printFmt (bss.map .str) script).res = .ok () ∧ (printFmt (bss.map .str) script).sink = bss.flatten := by
  have s := printFmt_spec bss script
  have hok : (printFmt (bss.map .str) script).res = .ok () := s.ok_iff.2 (pos_calls_ok h)
  exact ⟨hok, s.complete hok⟩

/-- the newline the `ln` forms add -/
def nlOf (ln : Bool) : List Nat := if ln then NL else []

/-- what `__write_newline` gets onto the descriptor, as a function of the next kernel answer: the newline if the
answer is a positive count (or the script is exhausted), nothing if it is `0` or an error -/
def nlPart : List WResp → List Nat
  | [] => NL
  | r :: _ => if r.pos then NL else []

/-- `try_print("\n")`: exactly one `write` of one byte, whatever the answer -/
theorem tryPrint_nl (script : List WResp) :
    (tryPrint NL script).sink = nlPart script ∧ (tryPrint NL script).log = [1] ∧
    (tryPrint NL script).used = min 1 script.length ∧
    ((tryPrint NL script).res = .ok () ↔ nlPart script = NL) := by
  cases script with
  | nil => simp [tryPrint, nlPart]
  | cons r rest =>
    cases r with
    | accept k =>
      by_cases hz : k = 0
      · subst hz; simp [tryPrint, nlPart, WResp.pos]
      · have hk : 1 ≤ k := by omega
        simp [tryPrint, nlPart, WResp.pos, hz, hk]
    | eintr => simp [tryPrint, nlPart, WResp.pos]
    | err e => simp [tryPrint, nlPart, WResp.pos]
    | uerr => simp [tryPrint, nlPart, WResp.pos]

theorem printMacro_str (ln : Bool) (bss : List (List Nat)) (script : List WResp) :
    Str script (printMacro ln (bss.map .str) script) := by
  have s := printFmt_spec bss script
  unfold printMacro
  cases ln with
  | false => simpa using s.str
  | true =>
    simp only [if_true]
    exact Str.after s.str (tryPrint_spec (printFmt (bss.map .str) script).rest NL).str

theorem printMacro_rest (ln : Bool) (bss : List (List Nat)) (script : List WResp) :
    (printMacro ln (bss.map .str) script).rest = script.drop (printMacro ln (bss.map .str) script).used :=
  (printMacro_str ln bss script).rest

theorem printMacro_used_true (bss : List (List Nat)) (script : List WResp) :
    script.take (printMacro true (bss.map .str) script).used =
      script.take (printFmt (bss.map .str) script).used ++
        ((printFmt (bss.map .str) script).rest).take (tryPrint NL (printFmt (bss.map .str) script).rest).used := by
  have s := printFmt_spec bss script
  simp only [printMacro, if_true, WOut.after]
  rw [s.rest]; exact List.take_add

theorem printMacro_calls_true (bss : List (List Nat)) (script : List WResp) :
    (printMacro true (bss.map .str) script).calls script =
      (printFmt (bss.map .str) script).calls script ++
        (tryPrint NL (printFmt (bss.map .str) script).rest).calls (printFmt (bss.map .str) script).rest := by
  have s := printFmt_spec bss script
  have t := tryPrint_spec (printFmt (bss.map .str) script).rest NL
  simp only [printMacro, if_true]
  exact Str.calls_after s.str t.str

/-- the form of what reaches the descriptor, for every script: a prefix of the rendering, then a prefix of the
newline -/
theorem printMacro_form (ln : Bool) (bss : List (List Nat)) (script : List WResp) :
    ∃ n m, (printMacro ln (bss.map .str) script).sink = bss.flatten.take n ++ (nlOf ln).take m := by
  have s := printFmt_spec bss script
  cases ln with
  | false =>
    refine ⟨(printFmt (bss.map .str) script).sink.length, 0, ?_⟩
    simp only [printMacro]
    simpa using s.pre
  | true =>
    have t := tryPrint_spec (printFmt (bss.map .str) script).rest NL
    refine ⟨(printFmt (bss.map .str) script).sink.length,
      (tryPrint NL (printFmt (bss.map .str) script).rest).sink.length, ?_⟩
    simp only [printMacro, if_true, WOut.after, nlOf]
    rw [← s.pre, ← t.pre]

/-- no failing call (no error, no `0` for a non-empty buffer) ⇒ the whole message and its newline, in order, each
byte once -/
theorem printMacro_complete (ln : Bool) (bss : List (List Nat)) (script : List WResp)
    (h : ∀ c ∈ (printMacro ln (bss.map .str) script).calls script, failing c = false) :
    (printMacro ln (bss.map .str) script).sink = bss.flatten ++ nlOf ln := by
  have s := printFmt_spec bss script
  cases ln with
  | false =>
    simp only [printMacro] at h ⊢
    simpa [nlOf] using s.complete (s.ok_iff.2 h)
  | true =>
    have t := tryPrint_spec (printFmt (bss.map .str) script).rest NL
    rw [printMacro_calls_true] at h
    have a := s.complete (s.ok_iff.2 fun c hc => h c (List.mem_append_left _ hc))
    have b := t.complete (t.ok_iff.2 fun c hc => h c (List.mem_append_right _ hc))
    simp only [printMacro, if_true, WOut.after, nlOf]
    rw [a, b]

/-- `println!`/`eprintln!` exactly: the message part is what `write_fmt` delivered, and `__write_newline` is called
whatever `write_fmt` returned — one more `write` of one byte, whose fate depends on the next answer alone -/
theorem printMacro_ln (items : List FmtItem) (script : List WResp) :
    (printMacro true items script).sink = (printFmt items script).sink ++ nlPart (printFmt items script).rest ∧
    (printMacro true items script).log = (printFmt items script).log ++ [1] ∧
    (printMacro true items script).used = (printFmt items script).used + min 1 (printFmt items script).rest.length := by
  have t := tryPrint_nl (printFmt items script).rest
  simp only [printMacro, if_true, WOut.after]
  rw [t.1, t.2.1, t.2.2.1]
  exact ⟨rfl, rfl, rfl⟩

/-- short writes only ⇒ the whole message and its newline, in order, each byte once -/
theorem printMacro_short_writes (ln : Bool) (bss : List (List Nat)) (script : List WResp)
    (h : ∀ r ∈ script.take (printMacro ln (bss.map .str) script).used, r.pos = true) :
    (printMacro ln (bss.map .str) script).sink = bss.flatten ++ nlOf ln :=
  printMacro_complete ln bss script (pos_calls_ok h)

/-- the rendering of a sequence of macro expansions -/
def seqRender : List (Bool × List (List Nat)) → List Nat
  | [] => []
  | (ln, bss) :: more => bss.flatten ++ nlOf ln ++ seqRender more

def seqItems (ms : List (Bool × List (List Nat))) : List (Bool × List FmtItem) :=
  ms.map fun m => (m.1, m.2.map .str)

theorem printSeq_str : ∀ (ms : List (Bool × List (List Nat))) (script : List WResp),
    Str script (printSeq (seqItems ms) script) := by
  intro ms
  induction ms with
  | nil => intro script; exact ⟨by simp [printSeq, seqItems], by simp [printSeq, seqItems], by simp [printSeq, seqItems]⟩
  | cons m more ih =>
    intro script
    obtain ⟨ln, bss⟩ := m
    simp only [seqItems, List.map_cons, printSeq]
    exact Str.after (printMacro_str ln bss script) (ih _)

/-- a sequence of expansions on one descriptor: no failing call ⇒ every message and newline, in order -/
theorem printSeq_complete : ∀ (ms : List (Bool × List (List Nat))) (script : List WResp),
    (∀ c ∈ (printSeq (seqItems ms) script).calls script, failing c = false) →
    (printSeq (seqItems ms) script).sink = seqRender ms := by
  intro ms
  induction ms with
  | nil => intro script _; simp [printSeq, seqItems, seqRender]
  | cons m more ih =>
    intro script h
    obtain ⟨ln, bss⟩ := m
    have hc := Str.calls_after (printMacro_str ln bss script) (printSeq_str more (printMacro ln (bss.map .str) script).rest)
    simp only [seqItems, List.map_cons, printSeq, seqRender] at h hc ⊢
    rw [hc] at h
    simp only [WOut.after]
    rw [printMacro_complete ln bss script (fun c hx => h c (List.mem_append_left _ hx))]
    have := ih (printMacro ln (bss.map .str) script).rest (fun c hx => h c (List.mem_append_right _ hx))
    simp only [seqItems] at this
    rw [this]

theorem printSeq_short_writes (ms : List (Bool × List (List Nat))) (script : List WResp)
    (h : ∀ r ∈ script.take (printSeq (seqItems ms) script).used, r.pos = true) :
    (printSeq (seqItems ms) script).sink = seqRender ms :=
  printSeq_complete ms script (pos_calls_ok h)

end TinyVerif.Io
