import TinyVerif.Proofs.IoLemmas
/-! Lemmas for the print path of C15: `tryPrint`, `printFmt`, `printMacro`, `printSeq` (Model/Io.lean, mirror of
tiny-std/src/unix/print.rs).  The specification side talks about the *consumed* part of the kernel's response script
only: `pos` = the kernel took a positive number of bytes (a short or full write), `isZero` = it returned 0,
`isErr` = it returned an error (EINTR included: `try_print` does not retry). -/
namespace TinyVerif.Io

def WResp.pos : WResp → Bool
  | .accept k => k != 0
  | _ => false

def WResp.isZero : WResp → Bool
  | .accept k => k == 0
  | _ => false

def WResp.isErr : WResp → Bool
  | .accept _ => false
  | _ => true

/-- a call of `write`: the size of the buffer offered and the kernel's answer -/
abbrev Call2 := Nat × WResp

/-- the kernel answered `0` although it was offered a non-empty buffer (the excluded input class) -/
def badZero (c : Call2) : Bool := c.2.isZero && c.1 != 0

/-- the calls that consumed a script element: offered size (from the model's log) paired with the answer -/
def WOut.calls (o : WOut) (script : List WResp) : List Call2 := o.log.zip (script.take o.used)

theorem zip_append_short {α β : Type} : ∀ (l1 l2 : List α) (s : List β), s.length ≤ l1.length → (l1 ++ l2).zip s = l1.zip s := by
  intro l1
  induction l1 with
  | nil => intro l2 s h; cases s <;> simp_all
  | cons a l1 ih =>
    intro l2 s h
    cases s with
    | nil => simp
    | cons b s => simp only [List.cons_append, List.zip_cons_cons]; rw [ih l2 s (by simpa using h)]

/-- the calls of a run followed by a second run on the rest of the script -/
theorem zip_after (l1 l2 : List Nat) (script : List WResp) (u1 u2 : Nat)
    (h : l1.length = u1 ∨ (script.drop u1 = [] ∧ u1 ≤ l1.length)) (hu1 : u1 ≤ script.length)
    (hu2 : u2 ≤ (script.drop u1).length) :
    (l1 ++ l2).zip (script.take (u1 + u2)) = l1.zip (script.take u1) ++ l2.zip ((script.drop u1).take u2) := by
  rcases h with h | ⟨h, h'⟩
  · rw [List.take_add]
    exact List.zip_append (by simp [h, Nat.min_eq_left hu1])
  · have : u2 = 0 := by rw [h] at hu2; simpa using hu2
    subst this
    simp only [Nat.add_zero, List.take_zero, List.zip_nil_right, List.append_nil]
    exact zip_append_short l1 l2 _ (by simp; omega)

theorem pos_calls_ok {l : List Nat} {s : List WResp} (h : ∀ r ∈ s, r.pos = true) : ∀ c ∈ l.zip s, badZero c = false := by
  intro c hc
  have := h c.2 (List.of_mem_zip hc).2
  cases hr : c.2 <;> simp_all [badZero, WResp.pos, WResp.isZero]

theorem WResp.pos_not_zero {r : WResp} (h : r.pos = true) : r.isZero = false := by
  cases r <;> simp_all [WResp.pos, WResp.isZero]

theorem WResp.pos_not_err {r : WResp} (h : r.pos = true) : r.isErr = false := by
  cases r <;> simp_all [WResp.pos, WResp.isErr]

/-- what one `try_print(fd, data)` guarantees against the script `script` -/
structure PSpec (data : List Nat) (script : List WResp) (o : WOut) : Prop where
  /-- the descriptor received a prefix of the piece, in order, each byte once -/
  pre : o.sink = data.take o.sink.length
  rest : o.rest = script.drop o.used
  usedLe : o.used ≤ script.length
  noPanic : o.res = .ok () ∨ o.res = .err .formatter
  /-- every call but those past the end of the script consumed one answer -/
  logLen : o.log.length = o.used ∨ (o.rest = [] ∧ o.used ≤ o.log.length)
  /-- `Ok` means everything was delivered — unless the kernel answered 0 to a non-empty buffer -/
  complete : (∀ c ∈ o.calls script, badZero c = false) → o.res = .ok () → o.sink = data
  /-- `Err` exactly when the last consumed answer is an error; all answers before it were positive counts -/
  err : ∀ e, o.res = .err e → ∃ p r, script.take o.used = p ++ [r] ∧ r.isErr = true ∧ ∀ x ∈ p, x.pos = true

theorem tryPrint_spec : ∀ (script : List WResp) (data : List Nat), PSpec data script (tryPrint data script) := by
  intro script
  induction script with
  | nil =>
    intro data
    exact ⟨by simp [tryPrint], by simp [tryPrint], by simp [tryPrint], by simp [tryPrint], by simp [tryPrint],
      by simp [tryPrint], by simp [tryPrint]⟩
  | cons r rest ih =>
    intro data
    cases r with
    | accept k =>
      by_cases hz : k = 0
      · subst hz
        refine ⟨by simp [tryPrint], by simp [tryPrint], by simp [tryPrint], by simp [tryPrint], by simp [tryPrint], ?_,
          by simp [tryPrint]⟩
        intro h _
        have := h (data.length, .accept 0) (by simp [tryPrint, WOut.calls])
        simp only [badZero, WResp.isZero, beq_self_eq_true, Bool.true_and, bne_eq_false_iff_eq] at this
        simp [tryPrint, List.eq_nil_of_length_eq_zero this]
      · by_cases hk : data.length ≤ k
        · exact ⟨by simp [tryPrint, hz, hk], by simp [tryPrint, hz, hk], by simp [tryPrint, hz, hk],
            by simp [tryPrint, hz, hk], by simp [tryPrint, hz, hk], by simp [tryPrint, hz, hk], by simp [tryPrint, hz, hk]⟩
        · have e1 : tryPrint data (.accept k :: rest) = (tryPrint (data.drop k) rest).push (data.take k) data.length := by
            simp [tryPrint, hz, hk]
          have hk' : k < data.length := by omega
          obtain ⟨i1, i2, i3, i4, i7, i5, i6⟩ := ih (data.drop k)
          rw [e1]
          refine ⟨?_, ?_, ?_, ?_, ?_, ?_, ?_⟩
          · simp only [WOut.push, List.length_append, List.length_take, Nat.min_eq_left (Nat.le_of_lt hk')]
            rw [List.take_add]
            congr 1
          · simpa [WOut.push] using i2
          · simp only [WOut.push, List.length_cons]; omega
          · simpa [WOut.push] using i4
          · simp only [WOut.push, List.length_cons]
            rcases i7 with h | ⟨h, h'⟩
            · left; omega
            · right; exact ⟨h, by omega⟩
          · intro h hok
            simp only [WOut.push, WOut.calls, List.take_succ_cons, List.zip_cons_cons] at h hok ⊢
            have := i5 (fun x hx => h x (List.mem_cons_of_mem _ hx)) hok
            rw [this, List.take_append_drop]
          · intro e he
            simp only [WOut.push] at he
            obtain ⟨p, r, j1, j2, j3⟩ := i6 e he
            refine ⟨.accept k :: p, r, by simp [WOut.push, j1], j2, ?_⟩
            intro x hx
            cases hx with
            | head => simp [WResp.pos, hz]
            | tail _ hx => exact j3 x hx
    | eintr =>
      exact ⟨by simp [tryPrint], by simp [tryPrint], by simp [tryPrint], by simp [tryPrint], by simp [tryPrint],
        by simp [tryPrint], by intro e _; exact ⟨[], .eintr, by simp [tryPrint], rfl, by simp⟩⟩
    | err e =>
      exact ⟨by simp [tryPrint], by simp [tryPrint], by simp [tryPrint], by simp [tryPrint], by simp [tryPrint],
        by simp [tryPrint], by intro e' _; exact ⟨[], .err e, by simp [tryPrint], rfl, by simp⟩⟩
    | uerr =>
      exact ⟨by simp [tryPrint], by simp [tryPrint], by simp [tryPrint], by simp [tryPrint], by simp [tryPrint],
        by simp [tryPrint], by intro e _; exact ⟨[], .uerr, by simp [tryPrint], rfl, by simp⟩⟩

/-- short writes only (every consumed answer a positive count) ⇒ `Ok` and the whole piece delivered -/
theorem tryPrint_short_writes (data : List Nat) (script : List WResp)
    (h : ∀ r ∈ script.take (tryPrint data script).used, r.pos = true) :
    (tryPrint data script).res = .ok () ∧ (tryPrint data script).sink = data := by
  have s := tryPrint_spec script data
  have hok : (tryPrint data script).res = .ok () := by
    rcases s.noPanic with h1 | h1
    · exact h1
    · obtain ⟨p, r, j1, j2, _⟩ := s.err _ h1
      have := h r (by rw [j1]; simp)
      rw [WResp.pos_not_err this] at j2
      cases j2
  exact ⟨hok, s.complete (pos_calls_ok h) hok⟩

/-- what `fmt::write` into the `__UnixWriter` guarantees for the pieces `bss` -/
structure FSpec (bss : List (List Nat)) (script : List WResp) (o : WOut) : Prop where
  rest : o.rest = script.drop o.used
  usedLe : o.used ≤ script.length
  noPanic : o.res = .ok () ∨ o.res = .err .formatter
  logLen : o.log.length = o.used ∨ (o.rest = [] ∧ o.used ≤ o.log.length)
  /-- in order, each byte once, no hole — unless the kernel answered 0 to a non-empty buffer -/
  pre : (∀ c ∈ o.calls script, badZero c = false) → o.sink = bss.flatten.take o.sink.length
  complete : (∀ c ∈ o.calls script, badZero c = false) → o.res = .ok () → o.sink = bss.flatten
  err : ∀ e, o.res = .err e → ∃ r ∈ script.take o.used, r.isErr = true

/-- the calls of `first.after second` when `second` ran on what `first` left -/
theorem calls_after (o1 o2 : WOut) (script : List WResp)
    (h1 : o1.log.length = o1.used ∨ (o1.rest = [] ∧ o1.used ≤ o1.log.length))
    (hr : o1.rest = script.drop o1.used) (hu1 : o1.used ≤ script.length) (hu2 : o2.used ≤ o1.rest.length) :
    (o1.after o2).calls script = o1.calls script ++ o2.calls o1.rest := by
  simp only [WOut.calls, WOut.after]
  rw [hr] at hu2 h1 ⊢
  exact zip_after o1.log o2.log script o1.used o2.used h1 hu1 hu2

theorem logLen_after (o1 o2 : WOut)
    (h1 : o1.log.length = o1.used ∨ (o1.rest = [] ∧ o1.used ≤ o1.log.length))
    (h2 : o2.log.length = o2.used ∨ (o2.rest = [] ∧ o2.used ≤ o2.log.length))
    (hu2 : o2.used ≤ o1.rest.length) (hr2 : o2.rest = o1.rest.drop o2.used) :
    (o1.after o2).log.length = (o1.after o2).used ∨ ((o1.after o2).rest = [] ∧ (o1.after o2).used ≤ (o1.after o2).log.length) := by
  simp only [WOut.after, List.length_append]
  rcases h1 with a | ⟨a, a'⟩
  · rcases h2 with b | ⟨b, b'⟩
    · left; omega
    · right; exact ⟨b, by omega⟩
  · have : o2.used = 0 := by rw [a] at hu2; simpa using hu2
    rcases h2 with b | ⟨b, b'⟩
    · right
      exact ⟨by rw [hr2, a]; simp, by omega⟩
    · right; exact ⟨b, by omega⟩

theorem printFmt_spec : ∀ (bss : List (List Nat)) (script : List WResp),
    FSpec bss script (printFmt (bss.map .str) script) := by
  intro bss
  induction bss with
  | nil =>
    intro script
    exact ⟨by simp [printFmt], by simp [printFmt], by simp [printFmt], by simp [printFmt], by simp [printFmt],
      by simp [printFmt], by simp [printFmt]⟩
  | cons bs more ih =>
    intro script
    have s := tryPrint_spec script bs
    simp only [List.map_cons, printFmt]
    cases h1 : (tryPrint bs script).res with
    | panic site => rcases s.noPanic with h | h <;> rw [h1] at h <;> cases h
    | err e =>
      simp only []
      refine ⟨s.rest, s.usedLe, s.noPanic, s.logLen, ?_, ?_, ?_⟩
      · intro _
        have hl : (tryPrint bs script).sink.length ≤ bs.length := by
          have := congrArg List.length s.pre
          simp only [List.length_take] at this
          omega
        rw [List.flatten_cons, List.take_append_of_le_length hl]
        exact s.pre
      · intro _ h; rw [h1] at h; cases h
      · intro e' h
        obtain ⟨p, r, j1, j2, _⟩ := s.err e h1
        exact ⟨r, by rw [j1]; simp, j2⟩
    | ok u =>
      simp only []
      have t := ih (tryPrint bs script).rest
      have hu2 : (printFmt (more.map .str) (tryPrint bs script).rest).used ≤ (tryPrint bs script).rest.length := t.usedLe
      have hc := calls_after (tryPrint bs script) (printFmt (more.map .str) (tryPrint bs script).rest) script
        s.logLen s.rest s.usedLe hu2
      have hu : script.take ((tryPrint bs script).used + (printFmt (more.map .str) (tryPrint bs script).rest).used) =
          script.take (tryPrint bs script).used ++
            ((tryPrint bs script).rest).take (printFmt (more.map .str) (tryPrint bs script).rest).used := by
        rw [s.rest]; exact List.take_add
      refine ⟨?_, ?_, ?_, ?_, ?_, ?_, ?_⟩
      · simp only [WOut.after]
        rw [t.rest, s.rest, List.drop_drop]
      · have := s.usedLe
        have h3 : (tryPrint bs script).rest.length = script.length - (tryPrint bs script).used := by
          rw [s.rest]; simp
        simp only [WOut.after]; omega
      · simpa [WOut.after] using t.noPanic
      · exact logLen_after _ _ s.logLen t.logLen hu2 t.rest
      · intro hz
        rw [hc] at hz
        have hz1 := fun c hx => hz c (List.mem_append_left _ hx)
        have hz2 := fun c hx => hz c (List.mem_append_right _ hx)
        have c1 := s.complete hz1 (by rw [h1])
        simp only [WOut.after]
        rw [c1, List.flatten_cons, List.length_append, List.take_length_add_append, ← t.pre hz2]
      · intro hz hok
        rw [hc] at hz
        have hz1 := fun c hx => hz c (List.mem_append_left _ hx)
        have hz2 := fun c hx => hz c (List.mem_append_right _ hx)
        simp only [WOut.after] at hok ⊢
        rw [s.complete hz1 (by rw [h1]), t.complete hz2 hok, List.flatten_cons]
      · intro e he
        simp only [WOut.after] at he ⊢
        obtain ⟨r, hr, hre⟩ := t.err e he
        exact ⟨r, by rw [hu]; exact List.mem_append_right _ hr, hre⟩

/-- short writes only ⇒ `Ok` and the whole rendering delivered, in order -/
theorem printFmt_short_writes (bss : List (List Nat)) (script : List WResp)
    (h : ∀ r ∈ script.take (printFmt (bss.map .str) script).used, r.pos = true) :
    (printFmt (bss.map .str) script).res = .ok () ∧ (printFmt (bss.map .str) script).sink = bss.flatten := by
  have s := printFmt_spec bss script
  have hok : (printFmt (bss.map .str) script).res = .ok () := by
    rcases s.noPanic with h1 | h1
    · exact h1
    · obtain ⟨r, hr, j2⟩ := s.err _ h1
      have := h r hr
      rw [WResp.pos_not_err this] at j2
      cases j2
  exact ⟨hok, s.complete (pos_calls_ok h) hok⟩

/-- the newline the `ln` forms add -/
def nlOf (ln : Bool) : List Nat := if ln then NL else []

theorem printMacro_rest (ln : Bool) (bss : List (List Nat)) (script : List WResp) :
    (printMacro ln (bss.map .str) script).rest = script.drop (printMacro ln (bss.map .str) script).used := by
  have s := printFmt_spec bss script
  unfold printMacro
  cases ln with
  | false => simpa using s.rest
  | true =>
    have t := tryPrint_spec (printFmt (bss.map .str) script).rest NL
    simp only [if_true, WOut.after]
    rw [t.rest, s.rest, List.drop_drop]

theorem printMacro_used_true (bss : List (List Nat)) (script : List WResp) :
    script.take (printMacro true (bss.map .str) script).used =
      script.take (printFmt (bss.map .str) script).used ++
        ((printFmt (bss.map .str) script).rest).take (tryPrint NL (printFmt (bss.map .str) script).rest).used := by
  have s := printFmt_spec bss script
  simp only [printMacro, if_true, WOut.after]
  rw [s.rest]; exact List.take_add

theorem printMacro_calls_true (bss : List (List Nat)) (script : List WResp) :
    (printMacro true (bss.map .str) script).calls script =
      (printFmt (bss.map .str) script).calls script ++
        (tryPrint NL (printFmt (bss.map .str) script).rest).calls (printFmt (bss.map .str) script).rest := by
  have s := printFmt_spec bss script
  have t := tryPrint_spec (printFmt (bss.map .str) script).rest NL
  simp only [printMacro, if_true]
  exact calls_after _ _ script s.logLen s.rest s.usedLe t.usedLe

/-- the form of what reaches the descriptor: a prefix of the rendering, then a prefix of the newline -/
theorem printMacro_form (ln : Bool) (bss : List (List Nat)) (script : List WResp)
    (hz : ∀ c ∈ (printMacro ln (bss.map .str) script).calls script, badZero c = false) :
    ∃ n m, (printMacro ln (bss.map .str) script).sink = bss.flatten.take n ++ (nlOf ln).take m := by
  have s := printFmt_spec bss script
  cases ln with
  | false =>
    refine ⟨(printFmt (bss.map .str) script).sink.length, 0, ?_⟩
    simp only [printMacro] at hz ⊢
    simpa using s.pre hz
  | true =>
    have t := tryPrint_spec (printFmt (bss.map .str) script).rest NL
    rw [printMacro_calls_true] at hz
    refine ⟨(printFmt (bss.map .str) script).sink.length,
      (tryPrint NL (printFmt (bss.map .str) script).rest).sink.length, ?_⟩
    simp only [printMacro, if_true, WOut.after, nlOf]
    rw [← s.pre (fun r hr => hz r (List.mem_append_left _ hr)), ← t.pre]

/-- short writes only ⇒ the whole message and its newline, in order, each byte once -/
theorem printMacro_short_writes (ln : Bool) (bss : List (List Nat)) (script : List WResp)
    (h : ∀ r ∈ script.take (printMacro ln (bss.map .str) script).used, r.pos = true) :
    (printMacro ln (bss.map .str) script).sink = bss.flatten ++ nlOf ln := by
  cases ln with
  | false =>
    simp only [printMacro] at h ⊢
    simpa [nlOf] using (printFmt_short_writes bss script h).2
  | true =>
    rw [printMacro_used_true] at h
    have a := printFmt_short_writes bss script (fun r hr => h r (List.mem_append_left _ hr))
    have b := tryPrint_short_writes NL (printFmt (bss.map .str) script).rest
      (fun r hr => h r (List.mem_append_right _ hr))
    simp only [printMacro, if_true, WOut.after, nlOf]
    rw [a.2, b.2]

/-- the rendering of a sequence of macro expansions -/
def seqRender : List (Bool × List (List Nat)) → List Nat
  | [] => []
  | (ln, bss) :: more => bss.flatten ++ nlOf ln ++ seqRender more

def seqItems (ms : List (Bool × List (List Nat))) : List (Bool × List FmtItem) :=
  ms.map fun m => (m.1, m.2.map .str)

theorem printSeq_short_writes : ∀ (ms : List (Bool × List (List Nat))) (script : List WResp),
    (∀ r ∈ script.take (printSeq (seqItems ms) script).used, r.pos = true) →
    (printSeq (seqItems ms) script).sink = seqRender ms := by
  intro ms
  induction ms with
  | nil => intro script _; simp [printSeq, seqItems, seqRender]
  | cons m more ih =>
    intro script h
    obtain ⟨ln, bss⟩ := m
    simp only [seqItems, List.map_cons, printSeq, WOut.after, seqRender] at h ⊢
    have hr := printMacro_rest ln bss script
    rw [List.take_add, ← hr] at h
    rw [printMacro_short_writes ln bss script (fun r hx => h r (List.mem_append_left _ hx))]
    have := ih (printMacro ln (bss.map .str) script).rest (fun r hx => h r (List.mem_append_right _ hx))
    simp only [seqItems] at this
    rw [this]

end TinyVerif.Io
