/- the instance invariant is inductive; lifting to the unbounded family of instances and to event lists -/
import TinyVerif.Proofs.ThreadStepA
import TinyVerif.Proofs.ThreadStepB
import TinyVerif.Proofs.ThreadStepC
import TinyVerif.Proofs.ThreadStepD
set_option linter.unusedVariables false
namespace TinyVerif.Thread

theorem stepI_inv (c : Cfg) (hc : c.Good) (x x' : Inst) (e : Ev) (h : stepI c x e = some x') (hinv : IInv x) : IInv x' := by
  cases e with
  | hAllocTsm => exact inv_hAllocTsm c hc x x' h hinv
  | hBox => exact inv_hBox c hc x x' h hinv
  | hMmap a => exact inv_hMmap c hc x x' a h hinv
  | hAllocTls => exact inv_hAllocTls c hc x x' h hinv
  | hClone a => exact inv_hClone c hc x x' a h hinv
  | hUndoTls => exact inv_hUndoTls c hc x x' h hinv
  | hUndoStack => exact inv_hUndoStack c hc x x' h hinv
  | hUndoBox => exact inv_hUndoBox c hc x x' h hinv
  | hUndoTsm => exact inv_hUndoTsm c hc x x' h hinv
  | hJoin => exact inv_hJoin c hc x x' h hinv
  | hDrop => exact inv_hDrop c hc x x' h hinv
  | hLoad a => exact inv_hLoad c hc x x' a h hinv
  | hFwait a => exact inv_hFwait c hc x x' a h hinv
  | hEintr => exact inv_hEintr c hc x x' h hinv
  | hSpur => exact inv_hSpur c hc x x' h hinv
  | hReadSlot => exact inv_hReadSlot c hc x x' h hinv
  | hFreeTsm => exact inv_hFreeTsm c hc x x' h hinv
  | hCas a => exact inv_hCas c hc x x' a h hinv
  | tRet a => exact inv_tRet c hc x x' a h hinv
  | tPanic => exact inv_tPanic c hc x x' h hinv
  | tWrite => exact inv_tWrite c hc x x' h hinv
  | tPanicRead => exact inv_tPanicRead c hc x x' h hinv
  | tCas a => exact inv_tCas c hc x x' a h hinv
  | tSetTid => exact inv_tSetTid c hc x x' h hinv
  | tFreeTsm => exact inv_tFreeTsm c hc x x' h hinv
  | tFreeTls => exact inv_tFreeTls c hc x x' h hinv
  | tFreeBox => exact inv_tFreeBox c hc x x' h hinv
  | tMunmap => exact inv_tMunmap c hc x x' h hinv
  | tExit => exact inv_tExit c hc x x' h hinv
  | kExit => exact inv_kExit c hc x x' h hinv
  | tDropVal => exact inv_tDropVal c hc x x' h hinv
  | tDropPanic => exact inv_tDropPanic c hc x x' h hinv

/-- every instance satisfies the invariant -/
def SInv (s : St) : Prop := ∀ i, IInv (s.inst i)

theorem init_sinv : SInv St.init := fun _ => init_inv

theorem step_other (c : Cfg) (s s' : St) (i : Nat) (e : Ev) (h : step c s i e = some s') (j : Nat) (hj : j ≠ i) :
    s'.inst j = s.inst j := by
  unfold step at h
  split at h
  · cases h; simp [setInst, hj]
  · simp at h

theorem step_self (c : Cfg) (s s' : St) (i : Nat) (e : Ev) (h : step c s i e = some s') :
    stepI c (s.inst i) e = some (s'.inst i) := by
  unfold step at h
  split at h
  · rename_i x hx; cases h; simp [setInst, hx]
  · simp at h

theorem step_sinv (c : Cfg) (hc : c.Good) (s s' : St) (i : Nat) (e : Ev) (h : step c s i e = some s') (hinv : SInv s) :
    SInv s' := by
  intro j
  by_cases hj : j = i
  · subst hj; exact stepI_inv c hc _ _ e (step_self c s s' j e h) (hinv j)
  · rw [step_other c s s' i e h j hj]; exact hinv j

theorem run_sinv (c : Cfg) (hc : c.Good) (s s' : St) (evs : List (Nat × Ev)) (h : run c s evs = some s')
    (hinv : SInv s) : SInv s' := by
  induction evs generalizing s with
  | nil => simp [run] at h; subst h; exact hinv
  | cons x rest ih =>
    obtain ⟨i, e⟩ := x
    simp only [run] at h
    split at h
    · rename_i s1 h1
      exact ih s1 h (step_sinv c hc s s1 i e h1 hinv)
    · simp at h

end TinyVerif.Thread
