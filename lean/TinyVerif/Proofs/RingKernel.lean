/-
C18: the kernel contract of Model/Ring.lean (`kstep`: consume / complete / flushOvf / idle, composed
with the wrapper's get / flush / reap / wake) — the invariant `KInv` tying the contract's bookkeeping
(in-flight requests, overflow list, ghost order of completion) to the ring model's ghost lists, its
preservation by every step, and the preservation of the ring invariant `Inv` of Proofs/RingInv.lean.
-/
import TinyVerif.Proofs.RingInv
namespace TinyVerif.Ring

/-! ### frame facts of the ring steps (what they leave alone) -/

theorem get_frame (s : St) (v : Nat) :
    (step .fixed s (.get v)).1.consumed = s.consumed ∧ (step .fixed s (.get v)).1.posted = s.posted ∧
    (step .fixed s (.get v)).1.reaped = s.reaped ∧ (step .fixed s (.get v)).1.flags = s.flags := by
  rw [step_get]
  unfold getNextSqeSlot addU32 subU32
  simp only
  by_cases hc : (W + (s.tail + 1) % W - s.sqKHead) % W ≤ s.sqEntries
  · rw [if_pos hc]; simp
  · rw [if_neg hc]; simp

theorem flush_frame (s : St) :
    (step .fixed s .flush).1.consumed = s.consumed ∧ (step .fixed s .flush).1.posted = s.posted ∧
    (step .fixed s .flush).1.reaped = s.reaped ∧ (step .fixed s .flush).1.flags = s.flags := by
  rw [step_flush]
  unfold flushSubmissionQueue subU32
  simp only
  by_cases hc : s.head ≠ s.tail
  · rw [if_pos hc]; simp
  · rw [if_neg hc]; simp

theorem reap_frame (s : St) :
    (step .fixed s .reap).1.consumed = s.consumed ∧ (step .fixed s .reap).1.posted = s.posted ∧
    (step .fixed s .reap).1.flags = s.flags := by
  have fr := relStep_frame s
  rw [step_reap, getNextCqe_fixed]
  by_cases hc : ((relStep s).cqKTail == (relStep s).cqKHead) = true
  · rw [if_pos hc]; exact ⟨fr.2.2.1, fr.2.1, fr.2.2.2.1⟩
  · rw [if_neg hc]; exact ⟨fr.2.2.1, fr.2.1, fr.2.2.2.1⟩

theorem kPost1_frame (s : St) (v : Nat) :
    (kPost1 s v).1.consumed = s.consumed ∧ (kPost1 s v).1.reaped = s.reaped ∧ (kPost1 s v).1.flags = s.flags ∧
    (kPost1 s v).1.flushed = s.flushed ∧ (kPost1 s v).1.filled = s.filled ∧
    ((kPost1 s v).2 = true → (kPost1 s v).1.posted.map Ent.val = s.posted.map Ent.val ++ [v]) ∧
    ((kPost1 s v).2 = false → (kPost1 s v).1 = s) := by
  unfold kPost1
  split <;> simp

theorem kConsume1_frame (s : St) :
    (kConsume1 s).1.posted = s.posted ∧ (kConsume1 s).1.reaped = s.reaped ∧ (kConsume1 s).1.flags = s.flags := by
  unfold kConsume1
  split <;> simp

theorem kConsume_frame (n : Nat) : ∀ (s : St),
    (kConsume n s).1.posted = s.posted ∧ (kConsume n s).1.reaped = s.reaped ∧ (kConsume n s).1.flags = s.flags := by
  induction n with
  | zero => intro s; simp [kConsume]
  | succ n ih =>
    intro s
    have h1 := kConsume1_frame s
    unfold kConsume
    split
    · rename_i s1 he; rw [he] at h1; simpa using h1
    · rename_i s1 e he; rw [he] at h1
      have := ih s1
      simp only at h1 ⊢
      rw [this.1, this.2.1, this.2.2]; exact h1


theorem kConsume1_consumed (s : St) :
    (kConsume1 s).1.consumed = s.consumed ++ (match (kConsume1 s).2 with | none => [] | some e => [e]) := by
  unfold kConsume1
  split <;> simp

theorem kConsume_consumed (n : Nat) : ∀ (s : St), (kConsume n s).1.consumed = s.consumed ++ (kConsume n s).2 := by
  induction n with
  | zero => intro s; simp [kConsume]
  | succ n ih =>
    intro s
    have h1 := kConsume1_consumed s
    unfold kConsume
    split
    · rename_i s1 he; rw [he] at h1; simpa using h1
    · rename_i s1 e he; rw [he] at h1
      simp only at h1 ⊢
      rw [ih s1, h1, List.append_assoc]; rfl

/-! ### the link structure and the closed form of the outcomes -/

theorem tagReqs_length (K : Kern) : ∀ (es : List Ent) (n : Nat) (p : Option Nat), (tagReqs K n p es).length = es.length := by
  intro es
  induction es with
  | nil => intro n p; rfl
  | cons e es ih => intro n p; simp [tagReqs, ih]

theorem tagReqs_seq (K : Kern) : ∀ (es : List Ent) (n : Nat) (p : Option Nat),
    (tagReqs K n p es).map Req.seq = List.range' n es.length := by
  intro es
  induction es with
  | nil => intro n p; rfl
  | cons e es ih => intro n p; simp [tagReqs, ih, List.range'_succ]

theorem tagReqs_get (K : Kern) : ∀ (es : List Ent) (n : Nat) (p : Option Nat) (j : Nat) (r : Req),
    (tagReqs K n p es)[j]? = some r →
      r.seq = n + j ∧ es[j]? = some r.ent ∧
      (∀ m, r.dep = some m → (j = 0 ∧ p = some m) ∨
        (∃ e, 1 ≤ j ∧ m + 1 = n + j ∧ es[j - 1]? = some e ∧ K.link e.val = true)) := by
  intro es
  induction es with
  | nil => intro n p j r h; simp [tagReqs] at h
  | cons e es ih =>
    intro n p j r h
    cases j with
    | zero =>
      simp only [tagReqs, List.getElem?_cons_zero, Option.some.injEq] at h
      subst h
      exact ⟨rfl, rfl, fun m hm => Or.inl ⟨rfl, hm⟩⟩
    | succ j =>
      simp only [tagReqs, List.getElem?_cons_succ] at h
      obtain ⟨h1, h2, h3⟩ := ih _ _ j r h
      refine ⟨by omega, by simpa using h2, ?_⟩
      intro m hm
      right
      rcases h3 m hm with ⟨hj, hp⟩ | ⟨e', hj, hm', he', hl⟩
      · subst hj
        by_cases hl : K.link e.val = true
        · rw [if_pos hl] at hp
          injection hp with hp
          exact ⟨e, by omega, by omega, by simp, hl⟩
        · rw [if_neg hl] at hp; cases hp
      · refine ⟨e', by omega, by omega, ?_, hl⟩
        have : j + 1 - 1 = (j - 1) + 1 := by omega
        rw [this, List.getElem?_cons_succ]; exact he'

theorem linkedBehind_append (d d' : List (Option Nat)) (q : Nat) (hq : q < d.length) :
    linkedBehind (d ++ d') q = linkedBehind d q := by
  unfold linkedBehind
  rw [List.getElem?_append_left hq]

theorem outcome_append (K : Kern) (c c' : List Ent) (d d' : List (Option Nat)) (hl : d.length = c.length) :
    ∀ q, q < c.length → outcome K (c ++ c') (d ++ d') q = outcome K c d q := by
  intro q
  induction q with
  | zero => intro hq; simp only [outcome]; rw [List.getElem?_append_left hq]
  | succ q ih =>
    intro hq
    simp only [outcome]
    rw [List.getElem?_append_left hq, linkedBehind_append d d' (q + 1) (by omega), ih (by omega)]

theorem expWord_append (K : Kern) (c c' : List Ent) (d d' : List (Option Nat)) (hl : d.length = c.length)
    (q : Nat) (hq : q < c.length) : expWord K (c ++ c') (d ++ d') q = expWord K c d q := by
  unfold expWord
  rw [List.getElem?_append_left hq, outcome_append K c c' d d' hl q hq]

/-- one-step characterisation of `outcome` through the link structure -/
theorem outcome_eq (K : Kern) (c : List Ent) (d : List (Option Nat)) (q : Nat) (dep : Option Nat)
    (hd : d[q]? = some dep) (hdep : ∀ m, dep = some m → m + 1 = q) :
    outcome K c d q = outcomeOf K q c[q]?
      (dep.any fun m => (outcome K c d m).2) := by
  cases q with
  | zero =>
    cases dep with
    | none => rfl
    | some m => have := hdep m rfl; omega
  | succ q =>
    simp only [outcome, linkedBehind, hd]
    cases dep with
    | none => simp
    | some m =>
      have := hdep m rfl
      have : m = q := by omega
      subst this
      simp

/-! ### the invariant of the contract's bookkeeping -/

theorem perm_cons_eraseIdx {α : Type} : ∀ (l : List α) (i : Nat) (a : α), l[i]? = some a → l.Perm (a :: l.eraseIdx i) := by
  intro l
  induction l with
  | nil => intro i a h; simp at h
  | cons x tl ih =>
    intro i a h
    cases i with
    | zero => simp at h; subst h; simp
    | succ i =>
      simp only [List.getElem?_cons_succ] at h
      rw [List.eraseIdx_cons_succ]
      exact ((ih i a h).cons x).trans (List.Perm.swap a x _)

/-- the contract's bookkeeping, tied to the ring model's ghost lists `consumed` and `posted` -/
structure KInv (K : Kern) (s : KSt) : Prop where
  deps_len : s.deps.length = s.ring.consumed.length
  pend_ok : ∀ r ∈ s.pend, s.ring.consumed[r.seq]? = some r.ent ∧ s.deps[r.seq]? = some r.dep
  seqs : (s.pend.map Req.seq ++ s.done).Perm (List.range s.ring.consumed.length)
  done_eq : s.done = s.postedSeq ++ s.ovf.map Prod.fst
  posted_ok : s.ring.posted.map Ent.val = s.postedSeq.map (expWord K s.ring.consumed s.deps)
  ovf_ok : s.ovf.map Prod.snd = (s.ovf.map Prod.fst).map (expWord K s.ring.consumed s.deps)
  dep_ok : ∀ (q m : Nat), s.deps[q]? = some (some m) →
    m + 1 = q ∧ ∃ e, s.ring.consumed[m]? = some e ∧ K.link e.val = true
  order : ∀ (i q m : Nat), s.done[i]? = some q → s.deps[q]? = some (some m) → ∃ j, j < i ∧ s.done[j]? = some m
  failed_sub : ∀ q ∈ s.failed, q ∈ s.done
  failed_ok : ∀ q ∈ s.done, s.failed.contains q = (outcome K s.ring.consumed s.deps q).2

theorem kinv_init (K : Kern) (flags k kc c cc : Nat) : KInv K (kinit flags k kc c cc) := by
  constructor <;> simp [kinit, init]

section
variable {K : Kern} {s : KSt}

theorem KInv.nodup (h : KInv K s) : (s.pend.map Req.seq ++ s.done).Nodup :=
  (h.seqs.nodup_iff).mpr List.nodup_range

theorem KInv.done_lt (h : KInv K s) {q : Nat} (hq : q ∈ s.done) : q < s.ring.consumed.length := by
  have : q ∈ s.pend.map Req.seq ++ s.done := List.mem_append_right _ hq
  exact List.mem_range.mp ((h.seqs.mem_iff).mp this)

theorem KInv.pend_not_done (h : KInv K s) {r : Req} (hr : r ∈ s.pend) : r.seq ∉ s.done := by
  intro hd
  have := (List.nodup_append.mp h.nodup).2.2 r.seq (List.mem_map_of_mem hr) r.seq hd
  exact this rfl

/-- a step that changes the ring but neither `consumed` nor `posted` -/
theorem KInv.ring_frame (h : KInv K s) (r' : St) (hc : r'.consumed = s.ring.consumed)
    (hp : r'.posted = s.ring.posted) : KInv K { s with ring := r' } := by
  constructor
  · simpa [hc] using h.deps_len
  · simpa [hc] using h.pend_ok
  · simpa [hc] using h.seqs
  · exact h.done_eq
  · simpa [hc, hp] using h.posted_ok
  · simpa [hc] using h.ovf_ok
  · simpa [hc] using h.dep_ok
  · exact h.order
  · exact h.failed_sub
  · simpa [hc] using h.failed_ok


theorem getElem?_lt {α : Type} {l : List α} {i : Nat} {a : α} (h : l[i]? = some a) : i < l.length := by
  obtain ⟨hl, _⟩ := List.getElem?_eq_some_iff.mp h
  exact hl

/-- `consume`: a batch of entries `es` is appended to `consumed` and becomes in-flight -/
theorem KInv.consume (h : KInv K s) (ring' : St) (es : List Ent)
    (hc : ring'.consumed = s.ring.consumed ++ es) (hp : ring'.posted = s.ring.posted) :
    KInv K { s with ring := ring', pend := s.pend ++ tagReqs K s.ring.consumed.length none es,
                    deps := s.deps ++ (tagReqs K s.ring.consumed.length none es).map Req.dep } := by
  have hdl := h.deps_len
  have stab : ∀ q, q ∈ s.done → expWord K (s.ring.consumed ++ es)
      (s.deps ++ (tagReqs K s.ring.consumed.length none es).map Req.dep) q = expWord K s.ring.consumed s.deps q :=
    fun q hq => expWord_append K _ _ _ _ hdl q (h.done_lt hq)
  constructor
  · simp [hc, hdl, tagReqs_length]
  · intro r hr
    simp only [hc]
    rcases List.mem_append.mp hr with hr | hr
    · obtain ⟨a, b⟩ := h.pend_ok r hr
      rw [List.getElem?_append_left (getElem?_lt a), List.getElem?_append_left (getElem?_lt b)]
      exact ⟨a, b⟩
    · obtain ⟨j, hj⟩ := List.getElem?_of_mem hr
      obtain ⟨h1, h2, _⟩ := tagReqs_get K es _ none j r hj
      rw [h1, List.getElem?_append_right (by omega), List.getElem?_append_right (by omega)]
      refine ⟨by rw [← h2]; congr 1; omega, ?_⟩
      rw [hdl, List.getElem?_map]
      have : s.ring.consumed.length + j - s.ring.consumed.length = j := by omega
      rw [this, hj]; rfl
  · simp only [hc, List.map_append, tagReqs_seq, List.length_append]
    rw [List.range_add, ← List.range'_eq_map_range]
    have e1 : (List.map Req.seq s.pend ++ List.range' s.ring.consumed.length es.length ++ s.done).Perm
        ((List.map Req.seq s.pend ++ s.done) ++ List.range' s.ring.consumed.length es.length) := by
      rw [List.append_assoc, List.append_assoc]
      exact List.Perm.append_left _ List.perm_append_comm
    exact e1.trans (List.Perm.append_right _ h.seqs)
  · exact h.done_eq
  · simp only [hc, hp]
    rw [h.posted_ok]
    apply List.map_congr_left
    intro q hq
    exact (stab q (by rw [h.done_eq]; exact List.mem_append_left _ hq)).symm
  · simp only [hc]
    rw [h.ovf_ok]
    apply List.map_congr_left
    intro q hq
    exact (stab q (by rw [h.done_eq]; exact List.mem_append_right _ hq)).symm
  · intro q m hq
    simp only [hc] at hq ⊢
    by_cases hlt : q < s.deps.length
    · rw [List.getElem?_append_left hlt] at hq
      obtain ⟨a, e, b, c⟩ := h.dep_ok q m hq
      exact ⟨a, e, by rw [List.getElem?_append_left (getElem?_lt b)]; exact b, c⟩
    · rw [List.getElem?_append_right (by omega), List.getElem?_map] at hq
      cases hr : (tagReqs K s.ring.consumed.length none es)[q - s.deps.length]? with
      | none => rw [hr] at hq; cases hq
      | some r =>
        rw [hr] at hq
        simp only [Option.map_some, Option.some.injEq] at hq
        obtain ⟨h1, _, h3⟩ := tagReqs_get K es _ none _ r hr
        rcases h3 m hq with ⟨_, hn⟩ | ⟨e, hj, hm, he, hl⟩
        · cases hn
        · refine ⟨by omega, e, ?_, hl⟩
          rw [List.getElem?_append_right (by omega), ← he]
          congr 1; omega
  · intro i q m hi hq
    simp only at hi hq ⊢
    have hlt : q < s.deps.length := by rw [hdl]; exact h.done_lt (List.mem_of_getElem? hi)
    rw [List.getElem?_append_left hlt] at hq
    exact h.order i q m hi hq
  · exact h.failed_sub
  · intro q hq
    simp only [hc]
    rw [outcome_append K _ _ _ _ hdl q (h.done_lt hq)]
    exact h.failed_ok q hq


/-- what `kComplete` computes for a ready in-flight request is the closed form -/
theorem KInv.complete_word (h : KInv K s) (r : Req) (hr : r ∈ s.pend)
    (hready : ∀ m, r.dep = some m → m ∈ s.done) :
    outcome K s.ring.consumed s.deps r.seq =
      outcomeOf K r.seq (some r.ent) (r.dep.any fun m => s.failed.contains m) := by
  obtain ⟨a, b⟩ := h.pend_ok r hr
  rw [outcome_eq K s.ring.consumed s.deps r.seq r.dep b (fun m hm => (h.dep_ok r.seq m (by rw [b, hm])).1), a]
  cases hd : r.dep with
  | none => rfl
  | some m =>
    simp only [Option.any_some]
    rw [h.failed_ok m (hready m hd)]

/-- `complete`: request `r` leaves `pend`, its completion `w` goes to the ring (first alternative) or
to the tail of the overflow list (second) -/
theorem KInv.complete (h : KInv K s) (i : Nat) (r : Req) (hr : s.pend[i]? = some r)
    (hready : ∀ m, r.dep = some m → m ∈ s.done) (w : Nat)
    (hw : w = expWord K s.ring.consumed s.deps r.seq) (s' : KSt)
    (h_pend : s'.pend = s.pend.eraseIdx i) (h_done : s'.done = s.done ++ [r.seq])
    (h_failed : s'.failed = if (outcome K s.ring.consumed s.deps r.seq).2 then s.failed ++ [r.seq] else s.failed)
    (h_deps : s'.deps = s.deps) (h_cons : s'.ring.consumed = s.ring.consumed)
    (h_alt : (s'.postedSeq = s.postedSeq ++ [r.seq] ∧ s.ovf = [] ∧ s'.ovf = [] ∧
                s'.ring.posted.map Ent.val = s.ring.posted.map Ent.val ++ [w]) ∨
             (s'.postedSeq = s.postedSeq ∧ s'.ovf = s.ovf ++ [(r.seq, w)] ∧ s'.ring.posted = s.ring.posted)) :
    KInv K s' := by
  have hmem : r ∈ s.pend := List.mem_of_getElem? hr
  have hnd : r.seq ∉ s.done := h.pend_not_done hmem
  have hnf : r.seq ∉ s.failed := fun hf => hnd (h.failed_sub _ hf)
  constructor
  · rw [h_deps, h_cons]; exact h.deps_len
  · intro r' hr'
    rw [h_pend] at hr'
    rw [h_deps, h_cons]
    exact h.pend_ok r' (List.mem_of_mem_eraseIdx hr')
  · rw [h_pend, h_done, h_cons]
    have p1 := (perm_cons_eraseIdx s.pend i r hr).map Req.seq
    simp only [List.map_cons] at p1
    have p2 : (List.map Req.seq (s.pend.eraseIdx i) ++ (s.done ++ [r.seq])).Perm
        ((r.seq :: List.map Req.seq (s.pend.eraseIdx i)) ++ s.done) := by
      rw [← List.append_assoc]
      exact List.perm_append_singleton _ _
    exact p2.trans ((List.Perm.append_right _ p1.symm).trans h.seqs)
  · rw [h_done, h.done_eq]
    rcases h_alt with ⟨a1, a2, a3, _⟩ | ⟨a1, a2, _⟩
    · rw [a1, a2, a3]; simp
    · rw [a1, a2]; simp
  · rw [h_cons, h_deps]
    rcases h_alt with ⟨a1, _, _, a4⟩ | ⟨a1, _, a3⟩
    · rw [a4, a1, h.posted_ok, hw]; simp
    · rw [a3, a1]; exact h.posted_ok
  · rw [h_cons, h_deps]
    rcases h_alt with ⟨_, _, a3, _⟩ | ⟨_, a2, _⟩
    · rw [a3]; rfl
    · rw [a2]; simp only [List.map_append, List.map_cons, List.map_nil]; rw [h.ovf_ok, hw]
  · rw [h_deps, h_cons]; exact h.dep_ok
  · intro i' q m hi hq
    rw [h_done] at hi ⊢
    rw [h_deps] at hq
    by_cases hlt : i' < s.done.length
    · rw [List.getElem?_append_left hlt] at hi
      obtain ⟨j, hj, hm⟩ := h.order i' q m hi hq
      exact ⟨j, hj, by rw [List.getElem?_append_left (by omega)]; exact hm⟩
    · rw [List.getElem?_append_right (by omega)] at hi
      have hq' : q = r.seq := by
        cases hx : i' - s.done.length with
        | zero => rw [hx] at hi; simpa using hi.symm
        | succ n => rw [hx] at hi; simp at hi
      subst hq'
      rw [(h.pend_ok r hmem).2] at hq
      injection hq with hq
      obtain ⟨j, hj⟩ := List.getElem?_of_mem (hready m hq)
      exact ⟨j, by have := getElem?_lt hj; omega, by rw [List.getElem?_append_left (getElem?_lt hj)]; exact hj⟩
  · intro q hq
    rw [h_failed] at hq
    rw [h_done]
    split at hq
    · rcases List.mem_append.mp hq with hq | hq
      · exact List.mem_append_left _ (h.failed_sub q hq)
      · exact List.mem_append_right _ hq
    · exact List.mem_append_left _ (h.failed_sub q hq)
  · intro q hq
    rw [h_done] at hq
    rw [h_failed, h_cons, h_deps]
    rcases List.mem_append.mp hq with hq | hq
    · have hne : q ≠ r.seq := fun he => hnd (he ▸ hq)
      rw [← h.failed_ok q hq]
      split
      · rw [List.contains_append]; simp [hne]
      · rfl
    · have : q = r.seq := by simpa using hq
      subst this
      split
      · rename_i ht; rw [ht]; simp
      · rename_i hf
        have : (outcome K s.ring.consumed s.deps r.seq).2 = false := by simpa using hf
        rw [this]
        simpa using hnf

/-- `flushOvf`, one entry: the oldest overflowed completion moves into the ring -/
theorem KInv.flush1 (h : KInv K s) (q w : Nat) (rest : List (Nat × Nat)) (ho : s.ovf = (q, w) :: rest)
    (ring1 : St) (hc : ring1.consumed = s.ring.consumed)
    (hp : ring1.posted.map Ent.val = s.ring.posted.map Ent.val ++ [w]) :
    KInv K { s with ring := ring1, ovf := rest, postedSeq := s.postedSeq ++ [q] } := by
  have ho1 := h.ovf_ok
  have hd := h.done_eq
  rw [ho] at ho1 hd
  simp only [List.map_cons, List.cons.injEq] at ho1
  constructor
  · simpa [hc] using h.deps_len
  · simpa [hc] using h.pend_ok
  · simpa [hc] using h.seqs
  · simp only [hd]; simp
  · simp only [hc, hp, List.map_append, List.map_cons, List.map_nil]
    rw [h.posted_ok, ho1.1]
  · simp only [hc]; exact ho1.2
  · simpa [hc] using h.dep_ok
  · exact h.order
  · exact h.failed_sub
  · simpa [hc] using h.failed_ok


theorem KInv.wake_frame (h : KInv K s) (b : Bool) : KInv K { s with needWake := b } := by
  cases h; constructor <;> assumption

theorem kComplete_kinv (h : KInv K s) (i : Nat) : KInv K (kComplete K s i).1 := by
  unfold kComplete
  cases hr : s.pend[i]? with
  | none => exact h
  | some r =>
    simp only
    by_cases hready : (r.dep.all fun m => s.done.contains m) = true
    · rw [if_pos hready]
      have hready' : ∀ m, r.dep = some m → m ∈ s.done := by
        intro m hm
        rw [hm] at hready
        simpa using hready
      have hmem : r ∈ s.pend := List.mem_of_getElem? hr
      have hword := h.complete_word r hmem hready'
      have hw : cqeWord (K.ud r.ent.val)
          (if (r.dep.any fun m => s.failed.contains m) = true then ECANCELED else K.sys r.seq r.ent.val) =
          expWord K s.ring.consumed s.deps r.seq := by
        unfold expWord
        rw [(h.pend_ok r hmem).1, hword]
        rfl
      have hf : ((r.dep.any fun m => s.failed.contains m) || K.severs r.ent.val
          (if (r.dep.any fun m => s.failed.contains m) = true then ECANCELED else K.sys r.seq r.ent.val)) =
          (outcome K s.ring.consumed s.deps r.seq).2 := by
        rw [hword]; rfl
      have fr := kPost1_frame s.ring (cqeWord (K.ud r.ent.val)
          (if (r.dep.any fun m => s.failed.contains m) = true then ECANCELED else K.sys r.seq r.ent.val))
      by_cases hov : s.ovf.isEmpty = true
      · rw [if_pos hov]
        have hov' : s.ovf = [] := by simpa using hov
        split
        · rename_i ring1 hk
          rw [hk] at fr
          refine h.complete i r hr hready' _ hw _ rfl rfl ?_ rfl fr.1 (Or.inl ⟨rfl, hov', hov', fr.2.2.2.2.2.1 rfl⟩)
          simp only [hf]
        · rename_i ring1 hk
          refine h.complete i r hr hready' _ hw _ rfl rfl ?_ rfl rfl (Or.inr ⟨rfl, rfl, rfl⟩)
          simp only [hf]
      · rw [if_neg hov]
        refine h.complete i r hr hready' _ hw _ rfl rfl ?_ rfl rfl (Or.inr ⟨rfl, rfl, rfl⟩)
        simp only [hf]
    · rw [if_neg hready]; exact h

theorem kFlushOvf_kinv (n : Nat) : ∀ {s : KSt}, KInv K s → KInv K (kFlushOvf n s).1 := by
  induction n with
  | zero => intro s h; exact h
  | succ n ih =>
    intro s h
    unfold kFlushOvf
    split
    · exact h
    · rename_i q w rest ho
      have fr := kPost1_frame s.ring w
      split
      · exact h
      · rename_i ring1 hk
        rw [hk] at fr
        exact ih (h.flush1 q w rest ho ring1 fr.1 (fr.2.2.2.2.2.1 rfl))

theorem kstep_kinv (h : KInv K s) (op : KOp) : KInv K (kstep K .fixed s op).1 := by
  cases op with
  | get v => exact h.ring_frame _ (get_frame s.ring v).1 (get_frame s.ring v).2.1
  | flush => exact h.ring_frame _ (flush_frame s.ring).1 (flush_frame s.ring).2.1
  | reap => exact h.ring_frame _ (reap_frame s.ring).1 (reap_frame s.ring).2.1
  | wake => exact h.wake_frame _
  | idle => exact h.wake_frame _
  | consume k =>
    show KInv K (kConsumeK K k s).1
    unfold kConsumeK
    split
    · exact h
    · exact h.consume _ _ (kConsume_consumed k s.ring) (kConsume_frame k s.ring).1
  | complete i => exact kComplete_kinv h i
  | flushOvf n => exact kFlushOvf_kinv n h

theorem krun_kinv (ops : List KOp) : ∀ {s : KSt}, KInv K s → KInv K (krun K .fixed s ops).1 := by
  induction ops with
  | nil => intro s h; exact h
  | cons op ops ih => intro s h; exact ih (kstep_kinv h op)

end

/-! ### the ring invariant under the contract's steps -/

/-- the ring invariant of Proofs/RingInv.lean with its ghost queues hidden, except `hold`: the reaped entries whose
slot the application has not released yet (none, or the last one) -/
def HInv (k kc c cc : Nat) (r : St) (hold : List Ent) : Prop := ∃ inq unpub cinq, Inv k kc c cc r inq unpub cinq hold

def RInv (k kc c cc : Nat) (r : St) : Prop := ∃ hold, HInv k kc c cc r hold

section
variable {K : Kern} {k kc c cc : Nat} {hold : List Ent}

theorem hinv_kPost1 {r : St} (h : HInv k kc c cc r hold) (v : Nat) : HInv k kc c cc (kPost1 r v).1 hold := by
  obtain ⟨inq, unpub, cinq, hi⟩ := h
  obtain ⟨h0, h1⟩ := inv_post1 hi v
  by_cases hlt : hold.length + cinq.length < 2 ^ kc
  · exact ⟨_, _, _, (h1 hlt).2⟩
  · rw [h0 hlt]; exact ⟨_, _, _, hi⟩

theorem hinv_kFlushOvf (n : Nat) : ∀ {s : KSt}, HInv k kc c cc s.ring hold →
    HInv k kc c cc (kFlushOvf n s).1.ring hold ∧ (kFlushOvf n s).1.ring.reaped = s.ring.reaped := by
  induction n with
  | zero => intro s h; exact ⟨h, rfl⟩
  | succ n ih =>
    intro s h
    unfold kFlushOvf
    split
    · exact ⟨h, rfl⟩
    · rename_i q w rest ho
      have hp := hinv_kPost1 h w
      have hr := kPost1_reaped s.ring w
      split
      · exact ⟨h, rfl⟩
      · rename_i ring1 hk
        rw [hk] at hp hr
        obtain ⟨a, b⟩ := ih (s := { s with ring := ring1, ovf := rest, postedSeq := s.postedSeq ++ [q] }) hp
        exact ⟨a, by rw [b]; exact hr⟩

theorem hinv_kComplete {s : KSt} (h : HInv k kc c cc s.ring hold) (i : Nat) :
    HInv k kc c cc (kComplete K s i).1.ring hold ∧ (kComplete K s i).1.ring.reaped = s.ring.reaped := by
  unfold kComplete
  split
  · exact ⟨h, rfl⟩
  · rename_i r hr
    simp only
    split
    · have hp := hinv_kPost1 h (cqeWord (K.ud r.ent.val)
          (if (r.dep.any fun m => s.failed.contains m) = true then ECANCELED else K.sys r.seq r.ent.val))
      have hrp := kPost1_reaped s.ring (cqeWord (K.ud r.ent.val)
          (if (r.dep.any fun m => s.failed.contains m) = true then ECANCELED else K.sys r.seq r.ent.val))
      split
      · split
        · rename_i ring1 hk; rw [hk] at hp hrp; exact ⟨hp, hrp⟩
        · exact ⟨h, rfl⟩
      · exact ⟨h, rfl⟩
    · exact ⟨h, rfl⟩

/-- every step of the contract model except the application's `reap` keeps what is held and what was reaped -/
theorem kstep_hinv {s : KSt} (h : HInv k kc c cc s.ring hold) (op : KOp) (hop : op ≠ .reap) :
    HInv k kc c cc (kstep K .fixed s op).1.ring hold ∧ (kstep K .fixed s op).1.ring.reaped = s.ring.reaped := by
  obtain ⟨inq, unpub, cinq, hi⟩ := h
  cases op with
  | get v =>
    obtain ⟨_, _, _, a, b⟩ := inv_step_hold hi (.get v) (by simp)
    exact ⟨⟨_, _, _, a⟩, b⟩
  | flush =>
    obtain ⟨_, _, _, a, b⟩ := inv_step_hold hi .flush (by simp)
    exact ⟨⟨_, _, _, a⟩, b⟩
  | reap => exact absurd rfl hop
  | wake => exact ⟨⟨_, _, _, hi⟩, rfl⟩
  | idle => exact ⟨⟨_, _, _, hi⟩, rfl⟩
  | consume n =>
    show HInv k kc c cc (kConsumeK K n s).1.ring hold ∧ (kConsumeK K n s).1.ring.reaped = s.ring.reaped
    unfold kConsumeK
    split
    · exact ⟨⟨_, _, _, hi⟩, rfl⟩
    · obtain ⟨inq', hi', _⟩ := inv_consume n hi
      exact ⟨⟨_, _, _, hi'⟩, kConsume_reaped n s.ring⟩
  | complete i => exact hinv_kComplete ⟨_, _, _, hi⟩ i
  | flushOvf n => exact hinv_kFlushOvf n ⟨_, _, _, hi⟩

theorem kstep_rinv {s : KSt} (h : RInv k kc c cc s.ring) (op : KOp) : RInv k kc c cc (kstep K .fixed s op).1.ring := by
  obtain ⟨hold, h⟩ := h
  by_cases hop : op = .reap
  · subst hop
    obtain ⟨inq, unpub, cinq, hi⟩ := h
    obtain ⟨_, _, _, hold', h'⟩ := inv_step hi .reap
    exact ⟨hold', _, _, _, h'⟩
  · exact ⟨hold, (kstep_hinv h op hop).1⟩

theorem krun_rinv (ops : List KOp) : ∀ {s : KSt}, RInv k kc c cc s.ring → RInv k kc c cc (krun K .fixed s ops).1.ring := by
  induction ops with
  | nil => intro s h; exact h
  | cons op ops ih => intro s h; exact ih (kstep_rinv h op)

end

/-! ### what the two invariants give, for any state that satisfies them -/

/-- the completion entries the contract owes for the consumed entries, in consumption order -/
def owed (K : Kern) (s : KSt) : List Nat :=
  (List.range s.ring.consumed.length).map (expWord K s.ring.consumed s.deps)

/-- request numbers of the completions the application has reaped, in reaping order -/
def reapedSeq (s : KSt) : List Nat := s.postedSeq.take s.ring.reaped.length

section
variable {K : Kern} {k kc c cc : Nat} {s : KSt}

theorem reaped_words (h : KInv K s) (hr : RInv k kc c cc s.ring) :
    s.ring.reaped.map Ent.val = (reapedSeq s).map (expWord K s.ring.consumed s.deps) ∧
    s.ring.reaped.length ≤ s.postedSeq.length := by
  obtain ⟨hold, inq, unpub, cinq, hi⟩ := hr
  have hp := h.posted_ok
  rw [hi.posted_eq, List.map_append] at hp
  have hl : s.ring.reaped.length ≤ s.postedSeq.length := by
    have := congrArg List.length hp
    simp only [List.length_append, List.length_map] at this
    omega
  refine ⟨?_, hl⟩
  have := congrArg (List.take s.ring.reaped.length) hp
  rw [List.take_left' (by simp)] at this
  rw [this, reapedSeq, List.map_take]

theorem reapedSeq_prefix_done (h : KInv K s) : reapedSeq s <+: s.done := by
  rw [h.done_eq]
  exact (List.take_prefix _ _).trans (List.prefix_append _ _)

/-- safety, state level -/
theorem safety_state (h : KInv K s) (hr : RInv k kc c cc s.ring) :
    s.ring.reaped.map Ent.val = (reapedSeq s).map (expWord K s.ring.consumed s.deps) ∧
    (reapedSeq s).Nodup ∧ (∀ q ∈ reapedSeq s, q < s.ring.consumed.length) ∧
    ∃ rest, (s.ring.reaped.map Ent.val ++ rest).Perm (owed K s) := by
  obtain ⟨hw, hl⟩ := reaped_words h hr
  have hpre := reapedSeq_prefix_done h
  have hnd : s.done.Nodup := (List.nodup_append.mp h.nodup).2.1
  refine ⟨hw, hpre.sublist.nodup hnd, fun q hq => h.done_lt (hpre.sublist.subset hq), ?_⟩
  refine ⟨((s.postedSeq.drop s.ring.reaped.length ++ s.ovf.map Prod.fst) ++ s.pend.map Req.seq).map
    (expWord K s.ring.consumed s.deps), ?_⟩
  rw [hw, ← List.map_append, owed]
  apply List.Perm.map
  have e : reapedSeq s ++ ((s.postedSeq.drop s.ring.reaped.length ++ s.ovf.map Prod.fst) ++ s.pend.map Req.seq) =
      s.done ++ s.pend.map Req.seq := by
    rw [h.done_eq, reapedSeq, ← List.append_assoc, ← List.append_assoc, List.take_append_drop]
  rw [e]
  exact List.perm_append_comm.trans h.seqs

/-- the kernel has nothing pending: nothing published is unconsumed, nothing in flight, nothing overflowed -/
def KQuiet (s : KSt) : Prop := s.ring.sqKHead = s.ring.sqKTail ∧ s.pend = [] ∧ s.ovf = []

/-- completeness at quiescence, state level -/
theorem complete_state (h : KInv K s) (hr : RInv k kc c cc s.ring) (hq : KQuiet s)
    (hempty : (step .fixed s.ring .reap).2 = .noCqe) :
    s.ring.consumed = s.ring.flushed ∧ (s.ring.reaped.map Ent.val).Perm (owed K s) := by
  obtain ⟨hold, inq, unpub, cinq, hi⟩ := hr
  obtain ⟨hq1, hq2, hq3⟩ := hq
  have hinq : inq = [] := by
    cases hc : inq with
    | nil => rfl
    | cons e rest =>
      have := ((inv_consume1 hi).2 e rest hc).1
      unfold kConsume1 at this
      rw [if_pos hq1] at this
      cases this
  have hcinq : cinq = [] := by
    cases hc : cinq with
    | nil => rfl
    | cons e rest =>
      have := ((inv_reap hi).2 e rest hc).1
      rw [hempty] at this
      cases this
  refine ⟨by rw [hi.flushed_eq, hinq, List.append_nil], ?_⟩
  have hp := h.posted_ok
  rw [hi.posted_eq, hcinq, List.append_nil] at hp
  have hd := h.done_eq
  rw [hq3, List.map_nil, List.append_nil] at hd
  have hs := h.seqs
  rw [hq2, List.map_nil, List.nil_append, hd] at hs
  rw [hp, owed]
  exact hs.map _

/-- order within a link chain, state level -/
theorem link_order_state (h : KInv K s) (i q m : Nat) (hi : (reapedSeq s)[i]? = some q)
    (hd : s.deps[q]? = some (some m)) : ∃ j, j < i ∧ (reapedSeq s)[j]? = some m := by
  have hpre := reapedSeq_prefix_done h
  obtain ⟨t, ht⟩ := hpre
  have hlt := getElem?_lt hi
  have hdone : s.done[i]? = some q := by rw [← ht, List.getElem?_append_left hlt]; exact hi
  obtain ⟨j, hj, hm⟩ := h.order i q m hdone hd
  refine ⟨j, hj, ?_⟩
  rw [← ht, List.getElem?_append_left (by omega)] at hm
  exact hm

end

/-! ### decoding a completion entry; the unlinked case -/

theorem cqeUd_cqeWord (u r : Nat) : cqeUd (cqeWord u r) = u % U64 := by
  unfold cqeUd cqeWord; simp only [U64, W]; omega

theorem cqeRes_cqeWord (u r : Nat) : cqeRes (cqeWord u r) = r % W := by
  unfold cqeRes cqeWord; simp only [U64, W]; omega

theorem range_map_mapIdx {α β : Type} (l : List α) (g : Nat → β) (f : Nat → α → β)
    (hg : ∀ i a, l[i]? = some a → g i = f i a) : (List.range l.length).map g = l.mapIdx f := by
  apply List.ext_getElem?
  intro i
  rw [List.getElem?_map, List.getElem?_mapIdx]
  by_cases hi : i < l.length
  · rw [List.getElem?_range hi]
    have : l[i]? = some l[i] := List.getElem?_eq_getElem hi
    rw [this]
    simp [hg i _ this]
  · have h1 : (List.range l.length)[i]? = none := List.getElem?_eq_none (by simpa using hi)
    have h2 : l[i]? = none := List.getElem?_eq_none (by omega)
    rw [h1, h2]; rfl

/-- without link flags every request's outcome is the direct system call's -/
theorem outcome_nolink (K : Kern) (c : List Ent) (d : List (Option Nat))
    (hd : ∀ q, linkedBehind d q = false) (q : Nat) : outcome K c d q = outcomeOf K q c[q]? false := by
  cases q with
  | zero => rfl
  | succ q => simp only [outcome, hd, Bool.false_and]

theorem tagReqs_adjacent (K : Kern) : ∀ (es : List Ent) (n : Nat) (p : Option Nat) (j : Nat) (r r' : Req),
    (tagReqs K n p es)[j]? = some r → (tagReqs K n p es)[j + 1]? = some r' →
    r'.dep = if K.link r.ent.val then some r.seq else none := by
  intro es
  induction es with
  | nil => intro n p j r r' h0; simp [tagReqs] at h0
  | cons e es ih =>
    intro n p j r r' h0 h1
    cases j with
    | zero =>
      simp only [tagReqs, List.getElem?_cons_zero, Option.some.injEq] at h0
      simp only [tagReqs, List.getElem?_cons_succ] at h1
      subst h0
      cases es with
      | nil => simp [tagReqs] at h1
      | cons e2 es2 =>
        simp only [tagReqs, List.getElem?_cons_zero, Option.some.injEq] at h1
        subst h1
        rfl
    | succ j =>
      simp only [tagReqs, List.getElem?_cons_succ] at h0 h1
      exact ih _ _ j r r' h0 h1

/-- the (user_data, res) pairs the application has read from the completions it reaped, in order -/
def reapedPairs (s : KSt) : List (Nat × Nat) := s.ring.reaped.map fun e => (cqeUd e.val, cqeRes e.val)

/-- for every entry the application filled and flushed, in order: its user_data (u64) and the direct
system call's result (i32 bit pattern), the n-th entry executed as the n-th submission -/
def flushedPairs (K : Kern) (s : KSt) : List (Nat × Nat) :=
  s.ring.flushed.mapIdx fun n e => (K.ud e.val % U64, K.sys n e.val % W)

section
variable {K : Kern} {k kc c cc : Nat} {s : KSt}

theorem owed_pairs_nolink (h : KInv K s) (hnl : ∀ e ∈ s.ring.consumed, K.link e.val = false) :
    (owed K s).map (fun w => (cqeUd w, cqeRes w)) =
      s.ring.consumed.mapIdx fun n e => (K.ud e.val % U64, K.sys n e.val % W) := by
  have hd : ∀ q, linkedBehind s.deps q = false := by
    intro q
    unfold linkedBehind
    cases hq : s.deps[q]? with
    | none => rfl
    | some d =>
      cases d with
      | none => rfl
      | some m =>
        obtain ⟨_, e, he, hl⟩ := h.dep_ok q m hq
        rw [hnl e (List.mem_of_getElem? he)] at hl
        cases hl
  rw [owed, List.map_map]
  apply range_map_mapIdx
  intro i a ha
  simp only [Function.comp, expWord, ha, outcome_nolink K _ _ hd, outcomeOf, cqeUd_cqeWord, cqeRes_cqeWord]
  rfl

/-- the unlinked case in the property's own terms, state level -/
theorem pairs_state (h : KInv K s) (hr : RInv k kc c cc s.ring) (hnl : ∀ e ∈ s.ring.filled, K.link e.val = false) :
    (∃ rest, (reapedPairs s ++ rest).Perm (flushedPairs K s)) ∧
    (KQuiet s → (step .fixed s.ring .reap).2 = .noCqe → (reapedPairs s).Perm (flushedPairs K s)) := by
  obtain ⟨hold, inq, unpub, cinq, hi⟩ := id hr
  have hsub : ∀ e ∈ s.ring.consumed, K.link e.val = false := by
    intro e he
    apply hnl
    rw [hi.filled_eq, hi.flushed_eq]
    exact List.mem_append_left _ (List.mem_append_left _ he)
  have hop := owed_pairs_nolink h hsub
  constructor
  · obtain ⟨_, _, _, rest, hperm⟩ := safety_state h hr
    have hm := hperm.map (fun w => (cqeUd w, cqeRes w))
    rw [hop, List.map_append, List.map_map] at hm
    refine ⟨rest.map (fun w => (cqeUd w, cqeRes w)) ++
      inq.mapIdx (fun i e => (K.ud e.val % U64, K.sys (i + s.ring.consumed.length) e.val % W)), ?_⟩
    rw [flushedPairs, hi.flushed_eq, List.mapIdx_append, ← List.append_assoc]
    exact List.Perm.append_right _ hm
  · intro hq hempty
    obtain ⟨hcf, hperm⟩ := complete_state h hr hq hempty
    have hm := hperm.map (fun w => (cqeUd w, cqeRes w))
    rw [hop, List.map_map, hcf] at hm
    exact hm

end

/-! ### below call granularity: the split-reap model -/

/-- the invariant of the split-reap model: the two invariants of the contract model on `s.k`, and the bookkeeping of
the held reference — what the application has read (`readLog`) is what was handed out (`reaped`), minus the entry
whose reference is held and not read yet; that entry is `hold`: it still occupies its slot, with its content -/
structure K2Inv (K : Kern) (k kc c cc : Nat) (s : KSt2) : Prop where
  kinv : KInv K s.k
  ring : ∃ hold, HInv k kc c cc s.k.ring hold ∧
    match s.held with
    | none => s.readLog = s.k.ring.reaped
    | some i => ∃ e, hold = [e] ∧ e.slot = i ∧ s.k.ring.reaped = s.readLog ++ [e]

theorem k2inv_init (K : Kern) (flags k kc c cc : Nat) (hk : k ≤ 30) (hkc : kc ≤ 30) (hc : c < W) (hcc : cc < W) :
    K2Inv K k kc c cc (kinit2 flags k kc c cc) :=
  ⟨kinv_init K flags k kc c cc, [], ⟨_, _, _, inv_init flags k kc c cc hk hkc hc hcc⟩, rfl⟩

section
variable {K : Kern} {k kc c cc : Nat} {s : KSt2}

theorem kReapBegin_inv (h : K2Inv K k kc c cc s) : K2Inv K k kc c cc (kReapBegin .fixed s).1 := by
  obtain ⟨hk, hold, ⟨inq, unpub, cinq, hi⟩, hh⟩ := h
  unfold kReapBegin
  cases hheld : s.held with
  | some i => exact ⟨hk, hold, ⟨_, _, _, hi⟩, hh⟩
  | none =>
    rw [hheld] at hh
    simp only at hh ⊢
    obtain ⟨h1, h2⟩ := inv_reap hi
    have fr := reap_frame s.k.ring
    cases hc : cinq with
    | nil =>
      obtain ⟨_, a2, _, a4⟩ := h1 hc
      rw [step_reap, reap_fixed_nil hi hc] at a2 a4 fr
      rw [reap_fixed_nil hi hc]
      simp only at a2 a4 fr ⊢
      exact ⟨hk.ring_frame _ fr.1 fr.2.1, [], ⟨_, _, _, a4⟩, by simp only [hheld]; rw [a2]; exact hh⟩
    | cons e rest =>
      obtain ⟨_, a2, _, a4⟩ := h2 e rest hc
      obtain ⟨hr, hm⟩ := reap_fixed_cons hi e rest hc
      rw [step_reap, hr] at a2 a4 fr
      rw [hr]
      simp only at a2 a4 fr ⊢
      refine ⟨hk.ring_frame _ fr.1 fr.2.1, [e], ⟨_, _, _, a4⟩, ?_⟩
      simp only
      refine ⟨e, rfl, ?_, ?_⟩
      · have := congrArg (fun l => (l.getLast?).map Ent.slot) a2
        simpa using this
      · rw [a2, hh]

theorem kReapRead_inv (h : K2Inv K k kc c cc s) : K2Inv K k kc c cc (kReapRead s).1 := by
  obtain ⟨hk, hold, ⟨inq, unpub, cinq, hi⟩, hh⟩ := h
  unfold kReapRead
  cases hheld : s.held with
  | none => exact ⟨hk, hold, ⟨_, _, _, hi⟩, hh⟩
  | some i =>
    rw [hheld] at hh
    obtain ⟨e, he, hs, hr⟩ := hh
    subst he
    have hm := hi.held_content e (by simp)
    simp only
    refine ⟨hk, [e], ⟨_, _, _, hi⟩, ?_⟩
    simp only
    rw [hr, ← hs, hm]

theorem k2inv_kstep (h : K2Inv K k kc c cc s) (op : KOp) (hop : op ≠ .reap) :
    K2Inv K k kc c cc { s with k := (kstep K .fixed s.k op).1 } := by
  obtain ⟨hk, hold, hhi, hh⟩ := h
  obtain ⟨a, b⟩ := kstep_hinv (K := K) hhi op hop
  refine ⟨kstep_kinv hk op, hold, a, ?_⟩
  cases hheld : s.held with
  | none => rw [hheld] at hh; simp only [hheld]; rw [b]; exact hh
  | some i => rw [hheld] at hh; simp only [hheld]; rw [b]; exact hh

theorem kstep2_inv (h : K2Inv K k kc c cc s) (op : KOp2) : K2Inv K k kc c cc (kstep2 K .fixed s op).1 := by
  cases op with
  | reapBegin => exact kReapBegin_inv h
  | reapRead => exact kReapRead_inv h
  | k op =>
    simp only [kstep2]
    split
    · exact h
    · cases op with
      | reap =>
        simp only
        have hb1 := kReapBegin_inv h
        split
        · exact kReapRead_inv hb1
        · exact hb1
      | get v => exact k2inv_kstep h _ (by simp)
      | flush => exact k2inv_kstep h _ (by simp)
      | wake => exact k2inv_kstep h _ (by simp)
      | consume n => exact k2inv_kstep h _ (by simp)
      | complete i => exact k2inv_kstep h _ (by simp)
      | flushOvf n => exact k2inv_kstep h _ (by simp)
      | idle => exact k2inv_kstep h _ (by simp)

theorem krun2_inv (ops : List KOp2) : ∀ {s : KSt2}, K2Inv K k kc c cc s → K2Inv K k kc c cc (krun2 K .fixed s ops).1 := by
  induction ops with
  | nil => intro s h; exact h
  | cons op ops ih => intro s h; exact ih (kstep2_inv h op)

/-- what the application has read is a prefix of what was handed out — all of it when no reference is held -/
theorem K2Inv.readLog_prefix (h : K2Inv K k kc c cc s) :
    s.readLog <+: s.k.ring.reaped ∧ (s.held = none → s.readLog = s.k.ring.reaped) ∧ RInv k kc c cc s.k.ring := by
  obtain ⟨hk, hold, hhi, hh⟩ := h
  refine ⟨?_, ?_, ⟨hold, hhi⟩⟩
  · cases hheld : s.held with
    | none => rw [hheld] at hh; rw [hh]; exact List.prefix_refl _
    | some i => rw [hheld] at hh; obtain ⟨e, _, _, hr⟩ := hh; rw [hr]; exact List.prefix_append _ _
  · intro hn; rw [hn] at hh; exact hh

end

end TinyVerif.Ring
