import TinyVerif.Model.Mutex
set_option linter.unusedSimpArgs false
set_option linter.unusedVariables false
set_option maxRecDepth 2000
namespace TinyVerif.Mutex

/-- the inductive invariant of the mutex protocol (any number of threads) -/
structure MInv (s : St) : Prop where
  outside : ∀ i, s.n ≤ i → (s.ths i).pc = .idle
  wle : s.wval ≤ 2
  free : s.wval = 0 → ∀ i, holds (s.ths i) = false
  held : s.wval ≠ 0 → ∃ i, holds (s.ths i) = true
  uniq : ∀ i j, holds (s.ths i) = true → holds (s.ths j) = true → i = j
  nrace : s.raced = false
  dvle : ∀ i, (s.ths i).dv ≤ s.dlatest
  hdv : ∀ i, holds (s.ths i) = true → (s.ths i).dv = s.dlatest
  wvle : s.wview ≤ s.dlatest
  wv0 : s.wval = 0 → s.wview = s.dlatest
  nolost : (∃ i, isParked (s.ths i) = true) →
    s.wval = 2 ∨ (∃ i, wakePending (s.ths i) = true) ∨ (∃ i, contender (s.ths i) = true)

@[simp] theorem setTh_ths_same (s : St) (i : Nat) (t : Th) : (setTh s i t).ths i = t := by simp [setTh]
theorem setTh_ths (s : St) (i j : Nat) (t : Th) : (setTh s i t).ths j = if j = i then t else s.ths j := rfl
@[simp] theorem setTh_wval (s : St) (i : Nat) (t : Th) : (setTh s i t).wval = s.wval := rfl
@[simp] theorem setTh_wview (s : St) (i : Nat) (t : Th) : (setTh s i t).wview = s.wview := rfl
@[simp] theorem setTh_dlatest (s : St) (i : Nat) (t : Th) : (setTh s i t).dlatest = s.dlatest := rfl
@[simp] theorem setTh_raced (s : St) (i : Nat) (t : Th) : (setTh s i t).raced = s.raced := rfl
@[simp] theorem setTh_n (s : St) (i : Nat) (t : Th) : (setTh s i t).n = s.n := rfl

theorem init_inv (progs : List (List Txn)) : MInv (init progs) := by
  constructor <;> simp [init, holds, isParked, wakePending, contender]


def witness (t : Th) : Bool := contender t || wakePending t

/-- a step that only moves thread `i`'s program counter / program (no memory effect) -/
theorem inv_setpc_gen (s : St) (i : Nat) (t' : Th) (hinv : MInv s) (hi : i < s.n)
    (hdv : t'.dv = (s.ths i).dv) (hh : holds t' = holds (s.ths i))
    (hp : isParked t' = true → s.wval = 2)
    (hw : witness (s.ths i) = true → witness t' = true ∨ (∃ k, k ≠ i ∧ witness (s.ths k) = true) ∨
            (isParked t' = false ∧ ∀ k, k ≠ i → isParked (s.ths k) = false) ∨ s.wval = 2) :
    MInv (setTh s i t') := by
  obtain ⟨o, wle, free, held, uniq, nrace, dvle, hdv', wvle, wv0, nolost⟩ := hinv
  refine ⟨?_, wle, ?_, ?_, ?_, nrace, ?_, ?_, wvle, wv0, ?_⟩
  · intro j hj
    have : j ≠ i := by simp at hj; omega
    simp [setTh_ths, this]; exact o j hj
  · intro h0 j
    by_cases hj : j = i
    · subst hj; simp [hh]; exact free h0 j
    · simp [setTh_ths, hj]; exact free h0 j
  · intro h0
    obtain ⟨j, hj⟩ := held h0
    refine ⟨j, ?_⟩
    by_cases hji : j = i
    · subst hji; simp [hh, hj]
    · simp [setTh_ths, hji, hj]
  · intro a b ha hb
    have ha' : holds (s.ths a) = true := by
      by_cases h : a = i
      · subst h; simpa [hh] using ha
      · simpa [setTh_ths, h] using ha
    have hb' : holds (s.ths b) = true := by
      by_cases h : b = i
      · subst h; simpa [hh] using hb
      · simpa [setTh_ths, h] using hb
    exact uniq a b ha' hb'
  · intro j
    by_cases hj : j = i
    · subst hj; simp [hdv]; exact dvle j
    · simp [setTh_ths, hj]; exact dvle j
  · intro j hj
    by_cases hji : j = i
    · subst hji; simp [hh] at hj; simp [hdv]; exact hdv' j hj
    · simp [setTh_ths, hji] at hj ⊢; exact hdv' j hj
  · rintro ⟨j, hj⟩
    have wit_of : ∀ k, witness ((setTh s i t').ths k) = true →
        (∃ k, wakePending ((setTh s i t').ths k) = true) ∨ (∃ k, contender ((setTh s i t').ths k) = true) := by
      intro k hk
      simp only [witness, Bool.or_eq_true] at hk
      rcases hk with h | h
      · exact Or.inr ⟨k, h⟩
      · exact Or.inl ⟨k, h⟩
    have keep : ∀ k, k ≠ i → witness (s.ths k) = true → witness ((setTh s i t').ths k) = true := by
      intro k hk h; simpa [setTh_ths, hk] using h
    have fromOld : witness (s.ths i) = true →
        s.wval = 2 ∨ (∃ k, wakePending ((setTh s i t').ths k) = true) ∨ (∃ k, contender ((setTh s i t').ths k) = true) := by
      intro hwi
      rcases hw hwi with h | ⟨k, hk, h⟩ | ⟨hnp, hall⟩ | h
      · exact Or.inr (wit_of i (by simpa using h))
      · exact Or.inr (wit_of k (keep k hk h))
      · exfalso
        by_cases hji : j = i
        · subst hji; simp [hnp] at hj
        · have := hall j hji; simp [setTh_ths, hji, this] at hj
      · exact Or.inl h
    by_cases hji : j = i
    · subst hji; simp at hj; exact Or.inl (hp hj)
    · simp [setTh_ths, hji] at hj
      rcases nolost ⟨j, hj⟩ with h | ⟨k, hk⟩ | ⟨k, hk⟩
      · exact Or.inl h
      · by_cases hki : k = i
        · subst hki; exact fromOld (by simp [witness, hk])
        · exact Or.inr (wit_of k (keep k hki (by simp [witness, hk])))
      · by_cases hki : k = i
        · subst hki; exact fromOld (by simp [witness, hk])
        · exact Or.inr (wit_of k (keep k hki (by simp [witness, hk])))

theorem inv_setpc (s : St) (i : Nat) (t' : Th) (hinv : MInv s) (hi : i < s.n)
    (hdv : t'.dv = (s.ths i).dv) (hh : holds t' = holds (s.ths i))
    (hp : isParked t' = true → s.wval = 2)
    (hw : witness (s.ths i) = true → witness t' = true) :
    MInv (setTh s i t') :=
  inv_setpc_gen s i t' hinv hi hdv hh hp (fun h => Or.inl (hw h))


theorem witness_of_nolost {s : St} (hinv : MInv s) (j : Nat) (hj : isParked (s.ths j) = true) :
    s.wval = 2 ∨ ∃ k, witness (s.ths k) = true := by
  rcases hinv.nolost ⟨j, hj⟩ with h | ⟨k, hk⟩ | ⟨k, hk⟩
  · exact Or.inl h
  · exact Or.inr ⟨k, by simp [witness, hk]⟩
  · exact Or.inr ⟨k, by simp [witness, hk]⟩

theorem nolost_of_witness {s : St} (k : Nat) (hk : witness (s.ths k) = true) :
    s.wval = 2 ∨ (∃ i, wakePending (s.ths i) = true) ∨ (∃ i, contender (s.ths i) = true) := by
  simp only [witness, Bool.or_eq_true] at hk
  rcases hk with h | h
  · exact Or.inr (Or.inr ⟨k, h⟩)
  · exact Or.inr (Or.inl ⟨k, h⟩)

/-- winning the lock: an acquire RMW on an unlocked word (`0 → 1` by CAS, `0 → 2` by swap) -/
theorem inv_acquire (s : St) (i : Nat) (new : Nat) (hinv : MInv s) (hi : i < s.n)
    (h0 : s.wval = 0) (hnew : new = 1 ∨ new = 2)
    (hnp : isParked (s.ths i) = false)
    (hw : witness (s.ths i) = true → new = 2) :
    MInv (rmw s i (s.ths i) true false new .acquired) := by
  have hfree := hinv.free h0
  have hwv := hinv.wv0 h0
  obtain ⟨o, wle, free, held, uniq, nrace, dvle, hdv', wvle, wv0, nolost⟩ := hinv
  unfold rmw
  simp only [if_true]
  refine ⟨?_, ?_, ?_, ?_, ?_, ?_, ?_, ?_, ?_, ?_, ?_⟩
  · intro j hj
    have : j ≠ i := by simp at hj; omega
    simp [setTh_ths, this]; exact o j hj
  · simp; omega
  · intro h; simp at h; omega
  · intro _; exact ⟨i, by simp [holds]⟩
  · intro a b ha hb
    by_cases h1 : a = i
    · by_cases h2 : b = i
      · omega
      · simp [setTh_ths, h2, hfree b] at hb
    · simp [setTh_ths, h1, hfree a] at ha
  · simpa using nrace
  · intro j
    by_cases hj : j = i
    · subst hj; simp; have := dvle j; omega
    · simp [setTh_ths, hj]; exact dvle j
  · intro j hj
    by_cases hji : j = i
    · subst hji; simp; have := dvle j; omega
    · simp [setTh_ths, hji, hfree j] at hj
  · simpa using wvle
  · intro h; simp at h; omega
  · rintro ⟨j, hj⟩
    by_cases hji : j = i
    · subst hji; simp [isParked] at hj
    · simp [setTh_ths, hji] at hj
      rcases nolost ⟨j, hj⟩ with h | ⟨k, hk⟩ | ⟨k, hk⟩
      · omega
      · by_cases hki : k = i
        · subst hki; left; simp; exact hw (by simp [witness, hk])
        · exact Or.inr (Or.inl ⟨k, by simp [setTh_ths, hki, hk]⟩)
      · by_cases hki : k = i
        · subst hki; left; simp; exact hw (by simp [witness, hk])
        · exact Or.inr (Or.inr ⟨k, by simp [setTh_ths, hki, hk]⟩)

/-- `swap(2)` on a word that is held by someone else: mark contended, go wait -/
theorem inv_swap2_busy (s : St) (i : Nat) (acq : Bool) (hinv : MInv s) (hi : i < s.n)
    (h0 : s.wval ≠ 0) (hh : holds (s.ths i) = false) :
    MInv (rmw s i (s.ths i) acq false 2 .waitLoad) := by
  obtain ⟨o, wle, free, held, uniq, nrace, dvle, hdv', wvle, wv0, nolost⟩ := hinv
  unfold rmw
  simp only [Bool.false_eq_true, if_false]
  refine ⟨?_, ?_, ?_, ?_, ?_, ?_, ?_, ?_, ?_, ?_, ?_⟩
  · intro j hj
    have : j ≠ i := by simp at hj; omega
    simp [setTh_ths, this]; exact o j hj
  · simp
  · intro h; simp at h
  · intro _
    obtain ⟨j, hj⟩ := held h0
    have : j ≠ i := by intro h; subst h; simp [hh] at hj
    exact ⟨j, by simp [setTh_ths, this, hj]⟩
  · intro a b ha hb
    have ha' : holds (s.ths a) = true := by
      by_cases h : a = i
      · subst h; simp [holds] at ha
      · simpa [setTh_ths, h] using ha
    have hb' : holds (s.ths b) = true := by
      by_cases h : b = i
      · subst h; simp [holds] at hb
      · simpa [setTh_ths, h] using hb
    exact uniq a b ha' hb'
  · simpa using nrace
  · intro j
    by_cases hj : j = i
    · subst hj; simp; split <;> (have := dvle j; omega)
    · simp [setTh_ths, hj]; exact dvle j
  · intro j hj
    by_cases hji : j = i
    · subst hji; simp [holds] at hj
    · simp [setTh_ths, hji] at hj ⊢; exact hdv' j hj
  · simpa using wvle
  · intro h; simp at h
  · intro _; left; simp

/-- unlocking: the holder's release `swap(0)`; wake pending iff the old value was 2 -/
theorem inv_unlock (s : St) (i : Nat) (pr : List Txn) (hinv : MInv s) (hi : i < s.n)
    (hpc : (s.ths i).pc = .unlockSwap) :
    MInv (rmw s i { s.ths i with prog := pr } false true 0 (if s.wval = 2 then .wake else .idle)) := by
  have hhold : holds (s.ths i) = true := by simp [holds, hpc]
  have hdvi := hinv.hdv i hhold
  obtain ⟨o, wle, free, held, uniq, nrace, dvle, hdv', wvle, wv0, nolost⟩ := hinv
  unfold rmw
  simp only [Bool.false_eq_true, if_false, if_true]
  have hnh : ∀ j, j ≠ i → holds (s.ths j) = false := by
    intro j hj
    cases h : holds (s.ths j) with
    | false => rfl
    | true => exact absurd (uniq j i h hhold) hj
  have hpcs : ∀ p : Pc, (p = .wake ∨ p = .idle) → holds { pc := p, dv := (s.ths i).dv, prog := pr } = false := by
    intro p hp; rcases hp with h | h <;> simp [holds, h]
  have hsplit : (if s.wval = 2 then Pc.wake else Pc.idle) = .wake ∨ (if s.wval = 2 then Pc.wake else Pc.idle) = .idle := by
    split <;> simp
  refine ⟨?_, ?_, ?_, ?_, ?_, ?_, ?_, ?_, ?_, ?_, ?_⟩
  · intro j hj
    have : j ≠ i := by simp at hj; omega
    simp [setTh_ths, this]; exact o j hj
  · simp
  · intro _ j
    by_cases hj : j = i
    · subst hj; simp; exact hpcs _ hsplit
    · simp [setTh_ths, hj]; exact hnh j hj
  · intro h; simp at h
  · intro a b ha hb
    by_cases h1 : a = i
    · subst h1; simp [hpcs _ hsplit] at ha
    · simp [setTh_ths, h1, hnh a h1] at ha
  · simpa using nrace
  · intro j
    by_cases hj : j = i
    · subst hj; simp; exact dvle j
    · simp [setTh_ths, hj]; exact dvle j
  · intro j hj
    by_cases hji : j = i
    · subst hji; simp [hpcs _ hsplit] at hj
    · simp [setTh_ths, hji, hnh j hji] at hj
  · simp; omega
  · intro _; simp; omega
  · rintro ⟨j, hj⟩
    by_cases hji : j = i
    · subst hji
      rcases hsplit with h | h <;> simp [isParked, h] at hj
    · simp [setTh_ths, hji] at hj
      rcases nolost ⟨j, hj⟩ with h | ⟨k, hk⟩ | ⟨k, hk⟩
      · right; left; exact ⟨i, by simp [wakePending, h]⟩
      · have hki : k ≠ i := by intro h; subst h; simp [wakePending, hpc] at hk
        exact Or.inr (Or.inl ⟨k, by simp [setTh_ths, hki, hk]⟩)
      · have hki : k ≠ i := by intro h; subst h; simp [contender, hpc] at hk
        exact Or.inr (Or.inr ⟨k, by simp [setTh_ths, hki, hk]⟩)

/-- a guarded data access by the holder -/
theorem inv_data (s : St) (i k : Nat) (hinv : MInv s) (hi : i < s.n) (hpc : (s.ths i).pc = .hold (k + 1)) :
    MInv (setTh { s with raced := s.raced || ((s.ths i).dv != s.dlatest), dlatest := s.dlatest + 1 } i
          { s.ths i with pc := .hold k, dv := s.dlatest + 1 }) := by
  have hhold : holds (s.ths i) = true := by simp [holds, hpc]
  have hdvi := hinv.hdv i hhold
  have hw0 : s.wval ≠ 0 := by
    intro h; have := hinv.free h i; simp [hhold] at this
  obtain ⟨o, wle, free, held, uniq, nrace, dvle, hdv', wvle, wv0, nolost⟩ := hinv
  have hnh : ∀ j, j ≠ i → holds (s.ths j) = false := by
    intro j hj
    cases h : holds (s.ths j) with
    | false => rfl
    | true => exact absurd (uniq j i h hhold) hj
  refine ⟨?_, ?_, ?_, ?_, ?_, ?_, ?_, ?_, ?_, ?_, ?_⟩
  · intro j hj
    have : j ≠ i := by simp at hj; omega
    simp [setTh_ths, this]; exact o j hj
  · simpa using wle
  · intro h; simp at h; exact absurd h hw0
  · intro _; exact ⟨i, by simp [holds]⟩
  · intro a b ha hb
    by_cases h1 : a = i
    · by_cases h2 : b = i
      · omega
      · simp [setTh_ths, h2, hnh b h2] at hb
    · simp [setTh_ths, h1, hnh a h1] at ha
  · simp [nrace, hdvi]
  · intro j
    by_cases hj : j = i
    · subst hj; simp
    · simp [setTh_ths, hj]; have := dvle j; omega
  · intro j hj
    by_cases hji : j = i
    · subst hji; simp
    · simp [setTh_ths, hji, hnh j hji] at hj
  · simp; omega
  · intro h; simp at h; exact absurd h hw0
  · rintro ⟨j, hj⟩
    have hji : j ≠ i := by intro h; subst h; simp [isParked] at hj
    simp [setTh_ths, hji] at hj
    rcases nolost ⟨j, hj⟩ with h | ⟨k', hk⟩ | ⟨k', hk⟩
    · left; simpa using h
    · have hki : k' ≠ i := by intro h; subst h; simp [wakePending, hpc] at hk
      exact Or.inr (Or.inl ⟨k', by simp [setTh_ths, hki, hk]⟩)
    · have hki : k' ≠ i := by intro h; subst h; simp [contender, hpc] at hk
      exact Or.inr (Or.inr ⟨k', by simp [setTh_ths, hki, hk]⟩)

theorem anyParked_false {s : St} (hinv : MInv s) (h : anyParked s = false) : ∀ j, isParked (s.ths j) = false := by
  intro j
  by_cases hj : j < s.n
  · simp only [anyParked, List.any_eq_false, List.mem_range] at h
    have := h j hj
    simpa using this
  · have := hinv.outside j (by omega)
    simp [isParked, this]

macro "setpc_case" hpc:ident : tactic => `(tactic|
  (refine inv_setpc _ _ _ (by assumption) (by assumption) ?_ ?_ ?_ ?_ <;>
    simp (config := {decide := true}) [holds, isParked, witness, contender, wakePending, loopTop, $hpc:ident] <;>
    (try (repeat' split) <;> simp_all (config := {decide := true}) [holds, isParked, witness, contender, wakePending, loopTop])))

theorem step_inv (c : Cfg) (hc : c.Good) (s s' : St) (i : Nat) (e : Ev)
    (h : step c s i e = some s') (hinv : MInv s) : MInv s' := by
  obtain ⟨hc1, hc2, hc3, hc4, hc5⟩ := hc
  unfold step at h
  split at h
  · simp at h
  · rename_i hi
    have hi : i < s.n := by omega
    simp only [] at h
    split at h
    all_goals (try (simp at h; done))
    -- idle, callLock
    · rename_i hpc
      split at h
      · split at h
        · simp at h
        · cases h; setpc_case hpc
      · simp at h
    -- idle, callTry
    · rename_i hpc
      split at h
      · split at h
        · cases h; setpc_case hpc
        · simp at h
      · simp at h
    -- fastCas, cas
    · rename_i tr ok old hpc
      split at h
      · simp at h
      · rename_i hold
        split at h
        · split at h
          · rename_i hw0
            cases h
            have : (if tr = true then c.tryAcq else c.lockAcq) = true := by split <;> assumption
            rw [this]
            refine inv_acquire s i 1 hinv hi hw0 (Or.inl rfl) ?_ ?_ <;> simp [isParked, witness, contender, wakePending, hpc]
          · simp at h
        · split at h
          · simp at h
          · cases h; cases tr <;> setpc_case hpc
    -- tryFailed, tryfail
    · rename_i hpc
      cases h; setpc_case hpc
    -- spin, load
    · rename_i n first v hpc
      have key : ∀ p : Pc, ((p = .casAfterSpin ∧ first = true) ∨ p = .swap2 ∨ p = .waitLoad ∨ (∃ m, p = .spin m first)) →
          MInv (setTh s i { s.ths i with pc := p }) := by
        intro p hp
        refine inv_setpc s i _ hinv hi rfl ?_ ?_ ?_
        · rcases hp with ⟨h, _⟩ | h | h | ⟨m, h⟩ <;> simp [holds, h, hpc]
        · rcases hp with ⟨h, _⟩ | h | h | ⟨m, h⟩ <;> simp [isParked, h]
        · rcases hp with ⟨h, hf⟩ | h | h | ⟨m, h⟩
          · subst hf; simp [witness, contender, wakePending, hpc]
          · simp [witness, contender, wakePending, h]
          · simp [witness, contender, wakePending, h]
          · cases first <;> simp [witness, contender, wakePending, h, hpc]
      split at h
      · cases h
        apply key
        by_cases hf : first = true ∧ v = 0
        · simp [hf]
        · simp only [hf, if_false]
          unfold loopTop
          split <;> simp
      · cases h
        apply key
        exact Or.inr (Or.inr (Or.inr ⟨_, rfl⟩))
    -- casAfterSpin, cas
    · rename_i ok old hpc
      split at h
      · simp at h
      · split at h
        · split at h
          · rename_i hw0
            cases h
            rw [hc3]
            refine inv_acquire s i 1 hinv hi hw0 (Or.inl rfl) ?_ ?_ <;> simp [isParked, witness, contender, wakePending, hpc]
          · simp at h
        · split at h
          · simp at h
          · cases h
            refine inv_setpc s i _ hinv hi rfl ?_ ?_ ?_ <;>
              (unfold loopTop; split <;> simp [holds, isParked, witness, contender, wakePending, hpc])
    -- swap2, swap
    · rename_i new old hpc
      split at h
      · simp at h
      · rename_i hcond
        simp only [not_or, Decidable.not_not] at hcond
        obtain ⟨hn, ho⟩ := hcond
        cases h
        rw [hc4]
        by_cases hw0 : s.wval = 0
        · have : old = 0 := by omega
          simp only [this, if_true]
          refine inv_acquire s i 2 hinv hi hw0 (Or.inr rfl) ?_ ?_ <;> simp [isParked, witness, contender, wakePending, hpc]
        · have : old ≠ 0 := by omega
          simp only [this, if_false]
          refine inv_swap2_busy s i true hinv hi hw0 ?_
          simp [holds, hpc]
    -- waitLoad, load
    · rename_i v hpc
      cases h
      split <;> setpc_case hpc
    -- waitSys, fwait
    · rename_i expect park hpc
      split at h
      · simp at h
      · split at h
        · split at h
          · rename_i hw2
            cases h
            refine inv_setpc_gen s i _ hinv hi rfl ?_ ?_ ?_
            · simp [holds, hpc]
            · intro _; exact hw2
            · intro _; right; right; right; exact hw2
          · simp at h
        · split at h
          · simp at h
          · cases h; setpc_case hpc
    -- parked, spur
    · rename_i eintr hpc
      cases h
      cases eintr <;> setpc_case hpc
    -- acquired, acq
    · rename_i hpc
      split at h
      · cases h; setpc_case hpc
      · simp at h
    -- hold (k+1), data
    · rename_i k hpc
      cases h
      exact inv_data s i k hinv hi hpc
    -- hold 0, rel
    · rename_i hpc
      cases h; setpc_case hpc
    -- unlockSwap, swap
    · rename_i new old hpc
      split at h
      · simp at h
      · rename_i hcond
        simp only [not_or, Decidable.not_not] at hcond
        obtain ⟨hn, ho⟩ := hcond
        cases h
        rw [hc5]
        subst ho
        exact inv_unlock s i _ hinv hi hpc
    -- wake, fwake
    · rename_i num woken hpc
      split at h
      · simp at h
      · split at h
        · split at h
          · simp at h
          · rename_i hnp
            cases h
            have hall := anyParked_false hinv (by simpa using hnp)
            refine inv_setpc_gen s i _ hinv hi rfl ?_ ?_ ?_
            · simp [holds, hpc]
            · simp [isParked]
            · intro _; right; right
              left; exact ⟨by simp [isParked], fun k _ => hall k⟩
        · rename_i j
          split at h
          · simp at h
          · rename_i hj
            simp only [not_or, Nat.not_le] at hj
            split at h
            · simp at h
            · rename_i hjp
              simp only [Decidable.not_not] at hjp
              cases h
              have hji : j ≠ i := hj.2
              have h1 : MInv (setTh s j { s.ths j with pc := .spin c.spinMax false }) := by
                refine inv_setpc s j _ hinv hj.1 rfl ?_ ?_ ?_ <;> simp [holds, isParked, witness, contender, wakePending, hjp]
              have hti : (setTh s j { s.ths j with pc := .spin c.spinMax false }).ths i = s.ths i := by
                simp [setTh_ths, Ne.symm hji]
              refine inv_setpc_gen _ i _ h1 hi ?_ ?_ ?_ ?_
              · simp [hti]
              · simp [hti, holds, hpc]
              · simp [isParked]
              · intro _; right; left
                exact ⟨j, hji, by simp [witness, contender]⟩


end TinyVerif.Mutex
