import TinyVerif.Proofs.DlVictim
/-! `alloc_fresh` in full: where the block returned by an allocation lies — in a chunk that was free,
or in the mapping the OS just handed out — and why it overlaps nothing that was live, from `WF` of
the state BEFORE the call and the mmap contract. -/
namespace TinyVerif.Dl

theorem writeHead_keeps {h h' : Heap} {a size : Nat} {c p : Bool} (hh : writeHead h a size c p = .ok h') :
    h'.top = h.top ∧ h'.topsize = h.topsize ∧ h'.dv = h.dv ∧ h'.dvsize = h.dvsize ∧ h'.sbins = h.sbins ∧ h'.tbins = h.tbins := by
  unfold writeHead at hh
  split at hh
  · msimp at hh
  · msimp at hh
    subst hh
    exact ⟨rfl, rfl, rfl, rfl, rfl, rfl⟩

theorem init_top_spec {s s' : St} {ptr size : Nat} (h : init_top s ptr size = .ok s') :
    s'.h.top = ptr + align_offset_usize (ptr + MEM_OFFSET) ∧
    s'.h.topsize = size - align_offset_usize (ptr + MEM_OFFSET) ∧
    s'.trim_check = DEFAULT_TRIM_THRESHOLD := by
  unfold init_top at h
  dsimp only at h
  msimp at h
  obtain ⟨_, _, h1, hw1, h2, hw2, h⟩ := h
  subst h
  have k1 := writeHead_keeps hw1
  have k2 := writeHead_keeps hw2
  simp only at k1 k2
  refine ⟨?_, ?_, rfl⟩
  · show h2.top = _; rw [k2.1, k1.1]
  · show h2.topsize = _; rw [k2.2.1, k1.2.1]


/-- the fields of the heap that header / bin writes never touch -/
def SameTop (h h' : Heap) : Prop := h'.top = h.top ∧ h'.topsize = h.topsize

theorem SameTop.refl (h : Heap) : SameTop h h := ⟨rfl, rfl⟩
theorem SameTop.trans {a b c : Heap} (h1 : SameTop a b) (h2 : SameTop b c) : SameTop a c :=
  ⟨h2.1.trans h1.1, h2.2.trans h1.2⟩

theorem writeHead_sameTop {h h' : Heap} {a size : Nat} {c p : Bool} (hh : writeHead h a size c p = .ok h') : SameTop h h' := by
  unfold writeHead at hh
  split at hh
  · msimp at hh
  · msimp at hh; subst hh; exact ⟨rfl, rfl⟩

theorem setFoot_sameTop {h h' : Heap} {a v : Nat} (hh : setFoot h a v = .ok h') : SameTop h h' := by
  unfold setFoot at hh
  split at hh
  · msimp at hh; subst hh; exact ⟨rfl, rfl⟩
  · msimp at hh

theorem clearPin_sameTop {h h' : Heap} {a : Nat} (hh : clearPin h a = .ok h') : SameTop h h' := by
  unfold clearPin at hh
  split at hh
  · msimp at hh; subst hh; exact ⟨rfl, rfl⟩
  · msimp at hh

theorem set_free_sameTop {h h' : Heap} {p size n : Nat} (hh : set_free_with_pinuse h p size n = .ok h') : SameTop h h' := by
  unfold set_free_with_pinuse set_size_and_pinuse_of_free_chunk at hh
  msimp at hh
  obtain ⟨h1, e1, h2, e2, e3⟩ := hh
  exact (clearPin_sameTop e1).trans ((writeHead_sameTop e2).trans (setFoot_sameTop e3))

theorem insert_chunk_sameTop {h h' : Heap} {c size : Nat} (hh : insert_chunk h c size = .ok h') : SameTop h h' := by
  unfold insert_chunk at hh
  split at hh
  · unfold insert_small_chunk at hh
    dsimp only at hh
    msimp at hh
    mlast hh
    subst hh; exact ⟨rfl, rfl⟩
  · unfold insert_large_chunk at hh
    dsimp only at hh
    msimp at hh
    mlast hh
    subst hh; exact ⟨rfl, rfl⟩

theorem fences_sameTop : ∀ (fuel : Nat) {h h' : Heap} {p oe n n' : Nat}, fences fuel h p oe n = .ok (h', n') → SameTop h h' := by
  intro fuel
  induction fuel with
  | zero => intro h h' p oe n n' hh; unfold fences at hh; msimp at hh
  | succ k ih =>
    intro h h' p oe n n' hh
    unfold fences at hh
    dsimp only at hh
    msimp at hh
    obtain ⟨h1, e1, hh⟩ := hh
    split at hh
    · exact (writeHead_sameTop e1).trans (ih hh)
    · msimp at hh
      simp only [Prod.mk.injEq] at hh
      obtain ⟨e2, _⟩ := hh; subst e2
      exact writeHead_sameTop e1

theorem add_segment_oldtop_sameTop {h h' : Heap} {csp ot : Nat} (hh : add_segment_oldtop h csp ot = .ok h') : SameTop h h' := by
  unfold add_segment_oldtop at hh
  dsimp only at hh
  split at hh
  · msimp at hh
    obtain ⟨h4, e4, e5⟩ := hh
    have ht : SameTop h4 (h4.tag "addseg-oldtop-binned") := ⟨rfl, rfl⟩
    exact (set_free_sameTop e4).trans (SameTop.trans ht (insert_chunk_sameTop e5))
  · msimp at hh; subst hh; exact ⟨rfl, rfl⟩

/-- `add_segment` leaves `top` where `init_top` put it: at the start of the new mapping -/
theorem add_segment_top {s s' : St} {tbase tsize : Nat} (h : add_segment s tbase tsize = .ok s') :
    s'.h.top = tbase + align_offset_usize (tbase + MEM_OFFSET) ∧ s'.h.topsize ≤ tsize := by
  unfold add_segment at h
  dsimp only at h
  split at h
  · msimp at h
  · msimp at h
    obtain ⟨_, _, _, _, s1, hs1, _, _, h1, e1, ⟨h2, nf⟩, e2, _, _, h3, e3, h⟩ := h
    have i := init_top_spec hs1
    have t1 := writeHead_sameTop (show writeHead s1.h _ _ true true = .ok h1 from e1)
    have t2 := fences_sameTop _ e2
    have t3 := add_segment_oldtop_sameTop e3
    have t := (t1.trans t2).trans t3
    subst h
    refine ⟨by simp only; rw [t.1, i.1], by simp only; rw [t.2, i.2.1]; omega⟩


theorem prepend_alloc_mem {s s' : St} {nb ob size mem : Nat} (h : prepend_alloc s nb ob size = .ok (s', mem)) :
    mem = align_as_chunk nb + MEM_OFFSET := by
  unfold prepend_alloc at h
  dsimp only at h
  msimp at h
  mlast h
  simp only [Prod.mk.injEq] at h
  exact h.2.symm

/-- where the block returned by `sys_alloc` starts: at the beginning of the fresh mapping (first
initialisation, prepend, new segment), or at the old `top` when the mapping extends the segment
holding `top` -/
theorem sys_alloc_result {s s' : St} {nb mem : Nat} (h : sys_alloc s nb = .ok (s', mem)) (hne : mem ≠ 0) :
    ∃ tbase q, s.osq = .m (some tbase) :: q ∧
      ((mem = align_as_chunk tbase + MEM_OFFSET) ∨
       ((∃ sp ∈ s.segs, sp.top = tbase ∧ sp.holds s.h.top = true) ∧
         mem = s.h.top + align_offset_usize (s.h.top + MEM_OFFSET) + MEM_OFFSET ∧
         nb < s.h.topsize + align_up (nb + top_foot_size + MALLOC_ALIGNMENT) DEFAULT_GRANULARITY)) := by
  unfold sys_alloc at h
  dsimp only at h
  msimp at h
  obtain ⟨⟨res, s1⟩, hp, h⟩ := h
  obtain ⟨q, hq, hs1⟩ := popM_spec hp
  dsimp only at h
  split at h
  · msimp at h
    simp only [Prod.mk.injEq] at h
    exact absurd h.2.symm hne
  · rename_i tbase
    refine ⟨tbase, q, hq, ?_⟩
    msimp at h
    obtain ⟨r, hr, h⟩ := h
    -- which branch placed the mapping
    unfold sys_alloc_place at hr
    dsimp only at hr
    subst hs1
    simp only at hr
    split at hr
    · -- first initialisation
      msimp at hr
      obtain ⟨_, _, _, _, s2, hs2, hr⟩ := hr
      subst hr
      have i := init_top_spec hs2
      dsimp only at h
      split at h
      · msimp at h
        mlast h
        simp only [Prod.mk.injEq] at h
        left
        rw [← h.2]
        show (s2.tag "sys-init").h.top + MEM_OFFSET = _
        have : (s2.tag "sys-init").h.top = s2.h.top := rfl
        rw [this, i.1]; rfl
      · msimp at h
        simp only [Prod.mk.injEq] at h
        exact absurd h.2.symm hne
    · split at hr
      · -- extension of the segment holding top
        rename_i sp hext
        msimp at hr
        obtain ⟨s2, hs2, hr⟩ := hr
        subst hr
        have i := init_top_spec hs2
        have hsp : sp ∈ s.segs ∧ sp.top = tbase ∧ sp.holds s.h.top = true := by
          split at hext
          · rename_i sp' hf
            split at hext
            · rename_i hh
              injection hext with hext; subst hext
              have := List.find?_some hf
              simp only [decide_eq_true_eq] at this
              exact ⟨find?_mem hf, this, hh⟩
            · cases hext
          · cases hext
        dsimp only at h
        split at h
        · rename_i hlt
          msimp at h
          mlast h
          simp only [Prod.mk.injEq] at h
          right
          refine ⟨⟨sp, hsp.1, hsp.2.1, hsp.2.2⟩, ?_, ?_⟩
          · rw [← h.2]
            show (s2.tag "sys-extend").h.top + MEM_OFFSET = _
            have : (s2.tag "sys-extend").h.top = s2.h.top := rfl
            rw [this, i.1]
          · have : (s2.tag "sys-extend").h.topsize = s2.h.topsize := rfl
            rw [this, i.2.1] at hlt
            omega
        · msimp at h
          simp only [Prod.mk.injEq] at h
          exact absurd h.2.symm hne
      · split at hr
        · -- prepend
          msimp at hr
          obtain ⟨⟨s2, m⟩, hpa, hr⟩ := hr
          subst hr
          dsimp only at h
          msimp at h
          simp only [Prod.mk.injEq] at h
          left
          rw [← h.2]
          exact prepend_alloc_mem hpa
        · -- new segment
          msimp at hr
          obtain ⟨s2, ha, hr⟩ := hr
          subst hr
          have i := add_segment_top ha
          dsimp only at h
          split at h
          · msimp at h
            mlast h
            simp only [Prod.mk.injEq] at h
            left
            rw [← h.2]
            show (s2.tag "sys-addseg").h.top + MEM_OFFSET = _
            have : (s2.tag "sys-addseg").h.top = s2.h.top := rfl
            rw [this, i.1]; rfl
          · msimp at h
            simp only [Prod.mk.injEq] at h
            exact absurd h.2.symm hne


/-- the mmap contract for an answer the OS gives: 16-aligned (page-aligned in fact), not null, and
disjoint from every segment the allocator holds -/
def OsFresh (s : St) (tbase len : Nat) : Prop :=
  tbase % 16 = 0 ∧ 0 < tbase ∧ tbase + len ≤ 2 ^ 64 ∧ ∀ g ∈ s.segs, tbase + len ≤ g.base ∨ g.base + g.size ≤ tbase

theorem entsOk_find {es : List Ent} : ∀ x ∈ es, entsOk es = true → findEnt es x.addr = some x := by
  induction es with
  | nil => intro x hx; cases hx
  | cons a rest ih =>
    intro x hx hok
    simp only [findEnt]
    cases hx with
    | head => simp
    | tail _ hx' =>
      have hh := entsOk_head_le hok x hx'
      have hapos : 0 < a.size := by
        cases rest with
        | nil => cases hx'
        | cons r rs => simp only [entsOk, Bool.and_eq_true, decide_eq_true_eq] at hok; exact hok.1.2
      have hne : ¬ a.addr = x.addr := by omega
      simp only [hne, if_false]
      exact ih x hx' (entsOk_tail hok)

theorem segsDisjoint_pair {l : List Seg} (h : segsDisjoint l = true) :
    ∀ a ∈ l, ∀ b ∈ l, a = b ∨ a.base + a.size ≤ b.base ∨ b.base + b.size ≤ a.base := by
  induction l with
  | nil => intro a ha; cases ha
  | cons x xs ih =>
    intro a ha b hb
    simp only [segsDisjoint, Bool.and_eq_true, List.all_eq_true, Bool.or_eq_true, decide_eq_true_eq] at h
    cases ha with
    | head =>
      cases hb with
      | head => exact Or.inl rfl
      | tail _ hb' => exact Or.inr (h.1 b hb')
    | tail _ ha' =>
      cases hb with
      | head => have := h.1 a ha'; exact Or.inr (by omega)
      | tail _ hb' => exact ih h.2 a ha' b hb'

theorem align_as_chunk_aligned (a : Nat) (h16 : a % 16 = 0) (hlt : a + 32 ≤ 2 ^ 64) : align_as_chunk a = a := by
  unfold align_as_chunk
  rw [MEM_OFFSET_eq, align_offset_usize_eq (a + 16) (by omega)]
  omega

/-- a free chunk of at least 32 bytes ends at least 8 bytes before the end of its segment, which
ends inside the 64-bit address space -/
theorem free_chunk_bound {hs : Hist} (h : WF hs) {ev : Ent} (hev : ev ∈ hs.st.h.ents) (hf : isFree ev = true)
    (h32 : 32 ≤ ev.size) : ev.addr + ev.size + 8 ≤ 2 ^ 64 := by
  have hin := h.parts.inSegs
  simp only [List.all_eq_true, List.any_eq_true] at hin
  obtain ⟨g, hg, hge⟩ := hin ev hev
  have ht := h.parts.tiles
  simp only [List.all_eq_true] at ht
  have hmem : ev ∈ segEnts hs.st.h.ents g := by
    unfold segEnts
    exact List.mem_filter.2 ⟨hev, hge⟩
  have hnt : isTrailerEnd ev = false := by
    unfold isFree at hf
    simp only [Bool.and_eq_true, Bool.not_eq_true'] at hf
    unfold isTrailerEnd
    simp only [hf.1, hf.2, Bool.not_false, Bool.not_true, Bool.and_false, Bool.false_or, decide_eq_false_iff_not]
    omega
  have := tiles_not_last (ht g hg) ev hmem hnt
  have hs := h.parts.segs
  unfold segsOk at hs
  simp only [Bool.and_eq_true, List.all_eq_true, decide_eq_true_eq] at hs
  have := (hs.2 g hg).2
  omega

/-- **alloc_fresh, OS path**: the block `sys_alloc` returns lies in the fresh mapping, or starts at
the old `top` and runs into the mapping that extends it; under the mmap contract it overlaps no
live block (and ends inside the address space) -/
theorem sys_alloc_fresh {hs : Hist} (h : WF hs) {s s' : St} (hcore : s.h.ents = hs.st.h.ents ∧ s.h.top = hs.st.h.top ∧
      s.h.topsize = hs.st.h.topsize ∧ s.segs = hs.st.segs)
    {nb size mem : Nat} (hm : sys_alloc s nb = .ok (s', mem)) (hne : mem ≠ 0) (hfit : size + 8 ≤ nb)
    (hnb : nb + top_foot_size + MALLOC_ALIGNMENT + DEFAULT_GRANULARITY ≤ 2 ^ 64)
    (hos : ∀ tbase q, s.osq = .m (some tbase) :: q →
      OsFresh hs.st tbase (align_up (nb + top_foot_size + MALLOC_ALIGNMENT) DEFAULT_GRANULARITY)) :
    16 ≤ mem ∧ mem + size ≤ 2 ^ 64 ∧ ∀ b ∈ hs.live, mem + size ≤ b.ptr ∨ b.ptr + b.size ≤ mem := by
  obtain ⟨tbase, q, hq, hcase⟩ := sys_alloc_result hm hne
  obtain ⟨h16, hpos, hov, hfresh⟩ := hos tbase q hq
  have hasz : nb + 96 ≤ align_up (nb + top_foot_size + MALLOC_ALIGNMENT) DEFAULT_GRANULARITY := by
    have := align_up_ge (nb + top_foot_size + MALLOC_ALIGNMENT) 16 (by
      rw [top_foot_size_eq, MALLOC_ALIGNMENT_eq, DEFAULT_GRANULARITY_eq] at hnb; simp only [top_foot_size_eq, MALLOC_ALIGNMENT_eq]; omega)
    rw [top_foot_size_eq, MALLOC_ALIGNMENT_eq] at this ⊢
    rw [DEFAULT_GRANULARITY_eq]
    omega
  generalize align_up (nb + top_foot_size + MALLOC_ALIGNMENT) DEFAULT_GRANULARITY = asize at *
  rcases hcase with hmem | ⟨⟨sp, hsp, hsptop, hholds⟩, hmem, hlt⟩
  · -- block inside the fresh mapping
    rw [align_as_chunk_aligned tbase h16 (by omega), MEM_OFFSET_eq] at hmem
    refine ⟨by omega, by omega, ?_⟩
    intro b hb
    obtain ⟨g, hg, hg1, hg2⟩ := live_inside_segment h hb
    rcases hfresh g hg with h1 | h1
    · left; omega
    · right; omega
  · -- block starts at the old top
    rw [hcore.2.2.1] at hlt
    rw [hcore.2.1] at hmem hholds
    rw [hcore.2.2.2] at hsp
    have hseg0 : hs.st.segs ≠ [] := by intro h0; rw [h0] at hsp; cases hsp
    have htz : hs.st.h.topsize ≠ 0 := by
      intro hz
      have ht := h.parts.top
      unfold topOk at ht
      split at ht
      · rename_i hnil; exact hseg0 hnil
      · simp only [Bool.and_eq_true, decide_eq_true_eq] at ht; omega
    obtain ⟨g0, rest, et, ef, hsegs, het, hfree, hsz, hef, hfc, hfp, hfs, hg0b, hg0t, htop0⟩ := top_parts h htz
    obtain ⟨hmt, hat⟩ := findEnt_some het
    obtain ⟨hmf, haf⟩ := findEnt_some hef
    have hshape := h.parts.shape
    unfold shapeOk at hshape
    simp only [List.all_eq_true, Bool.or_eq_true, Bool.and_eq_true, decide_eq_true_eq] at hshape
    have htop16 : hs.st.h.top % 16 = 0 := by
      rcases hshape et hmt with h1 | h1
      · simp [isFree] at hfree; rw [h1.1.2] at hfree; simp at hfree
      · omega
    have hoff : align_offset_usize (hs.st.h.top + MEM_OFFSET) = 0 := by
      rw [MEM_OFFSET_eq, align_offset_usize_eq (hs.st.h.top + 16) (by
        unfold Seg.holds Seg.top at hholds
        simp only [Bool.and_eq_true, decide_eq_true_eq] at hholds
        unfold Seg.top at hsptop
        omega)]
      omega
    rw [hoff, MEM_OFFSET_eq] at hmem
    have hg0mem : g0 ∈ hs.st.segs := by rw [hsegs]; exact List.mem_cons_self
    have hsd : segsDisjoint hs.st.segs = true := by
      have := h.parts.segs; unfold segsOk at this
      simp only [Bool.and_eq_true] at this; exact this.1
    have hsame : sp.base + sp.size = g0.base + g0.size := by
      unfold Seg.holds Seg.top at hholds
      simp only [Bool.and_eq_true, decide_eq_true_eq] at hholds
      rcases segsDisjoint_pair hsd sp hsp g0 hg0mem with h1 | h1 | h1
      · rw [h1]
      · omega
      · rw [top_foot_size_eq] at hg0t; omega
    have htb : tbase = hs.st.h.top + hs.st.h.topsize + 80 := by
      unfold Seg.top at hsptop; rw [top_foot_size_eq] at hg0t; omega
    refine ⟨by omega, by omega, ?_⟩
    intro b hb
    obtain ⟨e, he, hcin, hs1, h32, hp1, _, _⟩ := live_block h hb
    obtain ⟨hm, ha⟩ := findEnt_some he
    have sep := entsOk_sep h.parts.ents
    rcases Nat.lt_trichotomy e.addr hs.st.h.top with hlt2 | heq | hgt
    · have := sep e hm et hmt (by omega)
      right; omega
    · exfalso
      have h1 := entsOk_find e hm h.parts.ents
      have h2 := entsOk_find et hmt h.parts.ents
      rw [hat] at h2; rw [heq, h2] at h1
      injection h1 with h1; subst h1
      simp [isFree, hcin] at hfree
    · have s1 := sep et hmt e hm (by omega)
      have hne2 : e.addr ≠ ef.addr := by
        intro heq2
        have h1 := entsOk_find e hm h.parts.ents
        have h2 := entsOk_find ef hmf h.parts.ents
        rw [heq2, h2] at h1
        injection h1 with h1; subst h1
        rw [hfc] at hcin; cases hcin
      have s2 := sep ef hmf e hm (by omega)
      rw [top_foot_size_eq] at hfs
      have hin := h.parts.inSegs
      simp only [List.all_eq_true, List.any_eq_true] at hin
      obtain ⟨g', hg', hge⟩ := hin e hm
      unfold inSeg at hge
      simp only [Bool.and_eq_true, decide_eq_true_eq] at hge
      rcases hfresh g' hg' with h1 | h1
      · left; omega
      · omega

theorem nbOf_eq (size : Nat) : nbOf size = request2size size := by
  unfold nbOf
  split
  · rfl
  · rename_i hs
    unfold request2size
    rw [if_neg (by rw [MIN_REQUEST_eq]; rw [MAX_SMALL_REQUEST_eq] at hs; omega)]

/-- the size of the mapping `sys_alloc` asks for when serving a request of `size` bytes -/
def mapSize (size : Nat) : Nat := align_up (nbOf size + top_foot_size + MALLOC_ALIGNMENT) DEFAULT_GRANULARITY

/-- two heaps that agree on everything but the ghost branch tags -/
def SameHeap (a b : Heap) : Prop :=
  a.ents = b.ents ∧ a.sbins = b.sbins ∧ a.tbins = b.tbins ∧ a.dv = b.dv ∧ a.dvsize = b.dvsize ∧
  a.top = b.top ∧ a.topsize = b.topsize

theorem victim_same {a b : Heap} (h : SameHeap a b) {nb mem : Nat} (hv : Victim a nb mem) : Victim b nb mem := by
  obtain ⟨h1, h2, h3, h4, h5, h6, h7⟩ := h
  unfold Victim binned at *
  rw [← h1, ← h2, ← h3, ← h4, ← h5, ← h6, ← h7]
  exact hv

/-- **alloc_fresh** for `inner_malloc`, with or without an OS call, from any start state that agrees
with the well-formed `hs` on the allocator fields -/
theorem inner_malloc_fresh_all {hs : Hist} (h : WF hs) {s s' : St} (hsame : SameHeap s.h hs.st.h)
    (hsegs : s.segs = hs.st.segs) {size mem : Nat}
    (hm : inner_malloc s size = .ok (s', mem)) (hne : mem ≠ 0) (hsz : 0 < size) (hmax : size < MAX_REQUEST)
    (hos : ∀ tbase q, s.osq = .m (some tbase) :: q → OsFresh hs.st tbase (mapSize size)) :
    16 ≤ mem ∧ mem + size ≤ 2 ^ 64 ∧ ∀ b ∈ hs.live, mem + size ≤ b.ptr ∨ b.ptr + b.size ≤ mem := by
  have hpad : size + 8 ≤ nbOf size ∧ 32 ≤ nbOf size := by
    rw [nbOf_eq]
    have := request2size_ge size (lt_max_request_no_overflow size hmax)
    have := request2size_ge_min size (lt_max_request_no_overflow size hmax)
    omega
  unfold inner_malloc at hm
  msimp at hm
  obtain ⟨r, hr, hm⟩ := hm
  split at hm
  · rename_i h1 m1
    msimp at hm
    simp only [Prod.mk.injEq] at hm
    obtain ⟨_, hm2⟩ := hm
    subst hm2
    have hvic : Victim hs.st.h (nbOf size) m1 := victim_same hsame (malloc_nosys_victim hr)
    obtain ⟨ev, hev, hmem, hfree, hle⟩ := victim_free h (by omega) hvic
    have hb := free_chunk_bound h hev hfree (by omega)
    refine ⟨by omega, by omega, ?_⟩
    intro b hb
    have := fresh_disjoint h hev hfree (size := size) (by omega) hb
    omega
  · msimp at hm
    simp only [Prod.mk.injEq] at hm
    exact absurd hm.2.symm hne
  · rename_i nb
    have hn := (malloc_nosys_needSys hr).1
    subst hn
    refine sys_alloc_fresh h ⟨hsame.1, hsame.2.2.2.2.2.1, hsame.2.2.2.2.2.2, hsegs⟩ hm hne hpad.1 ?_ hos
    rw [nbOf_eq]
    exact (request2size_lt_max size hmax).2

theorem inner_malloc_lt_max {s s' : St} {size mem : Nat} (hm : inner_malloc s size = .ok (s', mem)) (hne : mem ≠ 0) :
    size < MAX_REQUEST := by
  by_cases hs : size ≤ MAX_SMALL_REQUEST
  · rw [MAX_SMALL_REQUEST_eq] at hs; rw [MAX_REQUEST_eq]; omega
  · by_cases hlt : size < MAX_REQUEST
    · exact hlt
    · exfalso
      unfold inner_malloc at hm
      msimp at hm
      obtain ⟨r, hr, hm⟩ := hm
      unfold malloc_nosys at hr
      dsimp only at hr
      rw [if_neg hs, if_pos (by omega)] at hr
      msimp at hr
      subst hr
      dsimp only at hm
      msimp at hm
      simp only [Prod.mk.injEq] at hm
      exact hne hm.2.symm

/-- where `memalign_fix` places the aligned block inside the chunk it was given -/
theorem memalign_fix_result {h h' : Heap} {mem k nb mem' : Nat} (hh : memalign_fix h mem (2 ^ k) nb = .ok (h', mem'))
    (h16 : 16 ≤ mem) (hov : mem + 2 ^ k ≤ 2 ^ 64) :
    mem' = mem ∨ (mem' = align_up mem (2 ^ k)) ∨
      (mem' = align_up mem (2 ^ k) + 2 ^ k ∧ align_up mem (2 ^ k) - mem ≤ 32) := by
  have hge := align_up_ge mem k hov
  unfold memalign_fix at hh
  dsimp only at hh
  msimp at hh
  obtain ⟨_, _, ⟨h1, p⟩, hp, hh⟩ := hh
  have hfinal : mem' = p + MEM_OFFSET := by
    mlast hh
    simp only [Prod.mk.injEq] at hh
    exact hh.2.symm
  rw [MEM_OFFSET_eq] at hfinal hp
  split at hp
  · msimp at hp
    obtain ⟨e, _, _, _, _, _, h2, _, h3, _, h4, _, hp⟩ := hp
    simp only [Prod.mk.injEq] at hp
    obtain ⟨_, hp2⟩ := hp
    rw [MIN_CHUNK_SIZE_eq] at hp2
    split at hp2
    · right; left; omega
    · right; right; rename_i hc; constructor <;> omega
  · msimp at hp
    simp only [Prod.mk.injEq] at hp
    left; omega

/-- the request `memalign` passes to `inner_malloc` -/
def memalignReq (size al : Nat) : Nat := request2size size + al + MIN_CHUNK_SIZE - CHUNK_OVERHEAD

/-- **alloc_fresh** for over-aligned requests: the aligned block lies inside the chunk obtained for
the padded request, which is fresh -/
theorem memalign_fresh {hs : Hist} (h : WF hs) {s s' : St} (hsame : SameHeap s.h hs.st.h) (hsegs : s.segs = hs.st.segs)
    {size k mem : Nat} (hk : 5 ≤ k) (hk2 : k ≤ 32)
    (hm : memalign s (2 ^ k) size = .ok (s', mem)) (hne : mem ≠ 0) (hsz : 0 < size) (hmax : size < MAX_REQUEST)
    (hos : ∀ tbase q, s.osq = .m (some tbase) :: q → OsFresh hs.st tbase (mapSize (memalignReq size (2 ^ k)))) :
    ∀ b ∈ hs.live, mem + size ≤ b.ptr ∨ b.ptr + b.size ≤ mem := by
  have hpow : 32 ≤ 2 ^ k := by
    calc 32 = 2 ^ 5 := by decide
      _ ≤ 2 ^ k := Nat.pow_le_pow_right (by decide) hk
  unfold memalign at hm
  rw [if_neg (by rw [MIN_CHUNK_SIZE_eq]; omega)] at hm
  unfold memalign_body at hm
  dsimp only at hm
  msimp at hm
  obtain ⟨_, _, hm⟩ := hm
  split at hm
  · msimp at hm
    simp only [Prod.mk.injEq] at hm
    exact absurd hm.2.symm hne
  · msimp at hm
    obtain ⟨⟨s1, m1⟩, him, hm⟩ := hm
    dsimp only at hm
    split at hm
    · msimp at hm
      simp only [Prod.mk.injEq] at hm
      exact absurd hm.2.symm hne
    · rename_i hm1
      msimp at hm
      obtain ⟨⟨h2, m2⟩, hfix, hm⟩ := hm
      simp only [Prod.mk.injEq] at hm
      obtain ⟨_, hm2⟩ := hm
      subst hm2
      have hreq : request2size size + 2 ^ k + MIN_CHUNK_SIZE - CHUNK_OVERHEAD = memalignReq size (2 ^ k) := rfl
      rw [hreq] at him
      have hreqpos : 0 < memalignReq size (2 ^ k) := by
        unfold memalignReq; rw [MIN_CHUNK_SIZE_eq, CHUNK_OVERHEAD_eq]; omega
      have hreqmax := inner_malloc_lt_max him hm1
      obtain ⟨h16, hbound, hdis⟩ := inner_malloc_fresh_all h (s := s.tag "memalign") hsame hsegs him hm1 hreqpos hreqmax hos
      have hpad := request2size_ge size (lt_max_request_no_overflow size hmax)
      have hm1lt : m1 + 2 ^ k ≤ 2 ^ 64 := by
        unfold memalignReq at hbound
        rw [MIN_CHUNK_SIZE_eq, CHUNK_OVERHEAD_eq] at hbound
        omega
      have hr := memalign_fix_result hfix h16 hm1lt
      have hal1 := align_up_ge m1 k hm1lt
      have hal2 := align_up_lt m1 k hm1lt
      intro b hb
      have hb1 := hdis b hb
      unfold memalignReq at hb1
      rw [MIN_CHUNK_SIZE_eq, CHUNK_OVERHEAD_eq] at hb1
      rcases hr with hr | hr | ⟨hr, hr2⟩
      · rcases hb1 with h1 | h1
        · left; omega
        · right; omega
      · rcases hb1 with h1 | h1
        · left; omega
        · right; omega
      · rcases hb1 with h1 | h1
        · left; omega
        · right; omega

/-- the request size the entry point `malloc(size, align)` passes to `inner_malloc` -/
def reqOf (size align : Nat) : Nat := if align ≤ MALLOC_ALIGNMENT then size else memalignReq size align

theorem malloc_fresh {hs : Hist} (h : WF hs) {s s' : St} (hsame : SameHeap s.h hs.st.h) (hsegs : s.segs = hs.st.segs)
    {size k mem : Nat} (hk2 : k ≤ 32)
    (hm : malloc s size (2 ^ k) = .ok (s', mem)) (hne : mem ≠ 0) (hsz : 0 < size) (hmax : size < MAX_REQUEST)
    (hos : ∀ tbase q, s.osq = .m (some tbase) :: q → OsFresh hs.st tbase (mapSize (reqOf size (2 ^ k)))) :
    ∀ b ∈ hs.live, mem + size ≤ b.ptr ∨ b.ptr + b.size ≤ mem := by
  unfold malloc at hm
  unfold reqOf at hos
  split at hm
  · rename_i hal
    rw [if_pos hal] at hos
    exact (inner_malloc_fresh_all h hsame hsegs hm hne hsz hmax hos).2.2
  · rename_i hal
    rw [if_neg hal] at hos
    have hk : 5 ≤ k := by
      rw [MALLOC_ALIGNMENT_eq] at hal
      by_cases h5 : 5 ≤ k
      · exact h5
      · exfalso
        have : 2 ^ k ≤ 2 ^ 4 := Nat.pow_le_pow_right (by decide) (by omega)
        omega
    exact memalign_fresh h hsame hsegs hk hk2 hm hne hsz hmax hos

end TinyVerif.Dl
