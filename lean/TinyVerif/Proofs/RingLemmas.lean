/-
Helper lemmas for C17: masked indexing of a free-running u32 counter, distinctness of the slots
of a window shorter than the ring, and the "ring memory holds this list" predicate `Good`.
-/
import TinyVerif.Model.Ring
namespace TinyVerif.Ring

/-- slot (index into the entry array) of free-running position `p` in a ring of `2^k` entries with
index shift `sh` (1 for 128-byte SQEs / 32-byte CQEs) -/
def slotOf (k sh p : Nat) : Nat := (p % 2 ^ k) * 2 ^ sh

theorem W_eq : W = 2 ^ 32 := by decide

theorem two_pow_le_30 {k : Nat} (hk : k ≤ 30) : 2 ^ k ≤ 1073741824 := by
  have : 2 ^ k ≤ 2 ^ 30 := Nat.pow_le_pow_right (by decide) hk
  simpa using this

theorem two_pow_sh {sh : Nat} (hsh : sh ≤ 1) : 2 ^ sh ≤ 2 := by
  have : 2 ^ sh ≤ 2 ^ 1 := Nat.pow_le_pow_right (by decide) hsh
  simpa using this

/-- the code's `(counter & ring_mask) << shift` is the slot of the unbounded position -/
theorem index_eq (k sh p : Nat) (hk : k ≤ 30) (hsh : sh ≤ 1) :
    index (p % W) (2 ^ k - 1) sh = slotOf k sh p := by
  unfold index slotOf
  rw [Nat.and_two_pow_sub_one_eq_mod, Nat.shiftLeft_eq]
  have hd : 2 ^ k ∣ W := by rw [W_eq]; exact Nat.pow_dvd_pow 2 (by omega)
  rw [Nat.mod_mod_of_dvd _ hd]
  apply Nat.mod_eq_of_lt
  have h1 : p % 2 ^ k < 2 ^ k := Nat.mod_lt _ (Nat.two_pow_pos k)
  have h2 := two_pow_le_30 hk
  have h3 := two_pow_sh hsh
  have : p % 2 ^ k * 2 ^ sh ≤ 1073741824 * 2 := Nat.mul_le_mul (by omega) h3
  show p % 2 ^ k * 2 ^ sh < 4294967296
  omega

theorem slotOf_lt (k sh p : Nat) : slotOf k sh p < 2 ^ k * 2 ^ sh := by
  unfold slotOf
  exact Nat.mul_lt_mul_of_pos_right (Nat.mod_lt _ (Nat.two_pow_pos k)) (Nat.two_pow_pos sh)

/-- two positions less than a ring apart never share a slot -/
theorem slotOf_ne (k sh a b : Nat) (hab : a < b) (hd : b - a < 2 ^ k) :
    slotOf k sh a ≠ slotOf k sh b := by
  unfold slotOf
  intro h
  have h' : a % 2 ^ k = b % 2 ^ k := Nat.eq_of_mul_eq_mul_right (Nat.two_pow_pos sh) h
  have h0 := Nat.sub_mod_eq_zero_of_mod_eq h'.symm
  rw [Nat.mod_eq_of_lt hd] at h0
  omega

/-- the entry array `mem` holds exactly the entries `l` at consecutive positions from `b` -/
def Good (k sh : Nat) (mem : Nat → Nat) : Nat → List Ent → Prop
  | _, [] => True
  | b, e :: l => e.slot = slotOf k sh b ∧ mem e.slot = e.val ∧ Good k sh mem (b + 1) l

theorem good_push (k sh : Nat) (mem : Nat → Nat) (v : Nat) :
    ∀ (l : List Ent) (b : Nat), Good k sh mem b l → l.length < 2 ^ k →
      Good k sh (upd mem (slotOf k sh (b + l.length)) v) b
        (l ++ [⟨slotOf k sh (b + l.length), v⟩]) := by
  intro l
  induction l with
  | nil =>
    intro b _ _
    simp [Good, upd]
  | cons e l ih =>
    intro b hg hl
    obtain ⟨h1, h2, h3⟩ := hg
    simp only [List.length_cons] at hl
    have hne : slotOf k sh b ≠ slotOf k sh (b + (l.length + 1)) :=
      slotOf_ne k sh b (b + (l.length + 1)) (by omega) (by omega)
    have ih' := ih (b + 1) h3 (by omega)
    have e1 : b + 1 + l.length = b + (l.length + 1) := by omega
    rw [e1] at ih'
    simp only [List.cons_append, Good, List.length_cons]
    refine ⟨h1, ?_, ih'⟩
    simp only [upd]
    rw [if_neg (by rw [h1]; exact hne)]
    exact h2

theorem good_mem (k sh : Nat) (mem : Nat → Nat) :
    ∀ (l : List Ent) (b : Nat), Good k sh mem b l → ∀ e, e ∈ l →
      ∃ j, j < l.length ∧ e.slot = slotOf k sh (b + j) := by
  intro l
  induction l with
  | nil => intro b _ e he; cases he
  | cons x l ih =>
    intro b hg e he
    obtain ⟨h1, _, h3⟩ := hg
    rcases List.mem_cons.mp he with rfl | hm
    · exact ⟨0, by simp, by simpa using h1⟩
    · obtain ⟨j, hj, hs⟩ := ih (b + 1) h3 e hm
      refine ⟨j + 1, by simp; omega, ?_⟩
      rw [hs]; congr 1; omega

end TinyVerif.Ring
