import TinyVerif.Gen.DlmallocPure
/-! Omega-friendly characterisations of the GENERATED pure allocator functions
(`Gen/DlmallocPure.lean`, regenerated from tiny-std/src/allocator/dlmalloc.rs by checks/dl_extract.py).
They are statements about the generated definitions, so they re-check whenever the source changes.
NB `omega` does not see through the abbreviations `U64`/`U32`: `simp only [U64, U32]` first. -/
namespace TinyVerif.Dl

/-! ## constants -/
theorem SIZEOF_USIZE_eq : SIZEOF_USIZE = 8 := by decide
theorem SIZEOF_CHUNK_eq : SIZEOF_CHUNK = 32 := by decide
theorem SIZEOF_SEGMENT_eq : SIZEOF_SEGMENT = 32 := by decide
theorem NSMALLBINS_eq : NSMALLBINS = 32 := by decide
theorem NTREEBINS_eq : NTREEBINS = 32 := by decide
theorem SMALLBIN_SHIFT_eq : SMALLBIN_SHIFT = 3 := by decide
theorem TREEBIN_SHIFT_eq : TREEBIN_SHIFT = 8 := by decide
theorem DEFAULT_GRANULARITY_eq : DEFAULT_GRANULARITY = 65536 := by decide
theorem DEFAULT_TRIM_THRESHOLD_eq : DEFAULT_TRIM_THRESHOLD = 2097152 := by decide
theorem MAX_RELEASE_CHECK_RATE_eq : MAX_RELEASE_CHECK_RATE = 4095 := by decide
theorem PAGE_SIZE_eq : PAGE_SIZE = 4096 := by decide
theorem PINUSE_eq : PINUSE = 1 := by decide
theorem CINUSE_eq : CINUSE = 2 := by decide
theorem FLAG4_eq : FLAG4 = 4 := by decide
theorem INUSE_eq : INUSE = 3 := by decide
theorem FLAG_BITS_eq : FLAG_BITS = 7 := by decide
theorem FENCEPOST_HEAD_eq : FENCEPOST_HEAD = 11 := by decide
theorem MEM_OFFSET_eq : MEM_OFFSET = 16 := by decide
theorem MALLOC_ALIGNMENT_eq : MALLOC_ALIGNMENT = 16 := by decide
theorem CHUNK_OVERHEAD_eq : CHUNK_OVERHEAD = 8 := by decide
theorem MMAP_CHUNK_OVERHEAD_eq : MMAP_CHUNK_OVERHEAD = 16 := by decide
theorem MIN_LARGE_SIZE_eq : MIN_LARGE_SIZE = 256 := by decide
theorem MAX_SMALL_SIZE_eq : MAX_SMALL_SIZE = 255 := by decide
theorem MAX_SMALL_REQUEST_eq : MAX_SMALL_REQUEST = 232 := by decide
theorem MIN_CHUNK_SIZE_eq : MIN_CHUNK_SIZE = 32 := by decide
theorem MIN_REQUEST_eq : MIN_REQUEST = 23 := by decide
theorem top_foot_size_eq : top_foot_size = 80 := by decide
theorem mmap_foot_pad_eq : mmap_foot_pad = 32 := by decide
/-- 2^64 - 65639: the `min_sys_alloc_space` branch of `const_max_request` (the other is 2^64 - 128) -/
theorem const_max_request_eq : const_max_request = 18446744073709485977 := by decide
theorem MAX_REQUEST_eq : MAX_REQUEST = 18446744073709485977 := by decide
theorem MAX_REQUEST_lt : MAX_REQUEST < 2 ^ 64 := by decide

/-! ## align_up -/

/-- masking with `!(2^k - 1)` (64-bit complement) clears the low k bits -/
theorem and_not_low (x k : Nat) (hk : k ≤ 64) (hx : x < 2 ^ 64) :
    x &&& (2 ^ 64 - 1 - (2 ^ k - 1)) = x / 2 ^ k * 2 ^ k := by
  have h1 : 2 ^ k - 1 < 2 ^ 64 := by
    have : 2 ^ k ≤ 2 ^ 64 := Nat.pow_le_pow_right (by decide) hk
    have : 0 < 2 ^ k := Nat.two_pow_pos k
    omega
  apply Nat.eq_of_testBit_eq
  intro i
  rw [Nat.testBit_and, Nat.sub_sub, Nat.add_comm 1, Nat.testBit_two_pow_sub_succ h1,
    Nat.testBit_two_pow_sub_one, Nat.testBit_mul_two_pow, Nat.testBit_div_two_pow]
  by_cases hik : k ≤ i
  · by_cases hi : i < 64
    · simp [hik, hi, Nat.not_lt.mpr hik, Nat.sub_add_cancel hik]
    · have : x.testBit i = false := by
        apply Nat.testBit_lt_two_pow
        exact Nat.lt_of_lt_of_le hx (Nat.pow_le_pow_right (by decide) (by omega))
      simp [hik, hi, this, Nat.sub_add_cancel hik]
  · simp [hik]
    intro _ _; omega

private theorem k_le_64 {a k : Nat} (h : a + 2 ^ k ≤ 2 ^ 64) : k ≤ 64 := by
  apply Nat.le_of_not_lt; intro hlt
  have : 2 ^ 65 ≤ 2 ^ k := Nat.pow_le_pow_right (by decide) hlt
  omega

/-- `align_up` on a power-of-two alignment rounds up to the next multiple (when `a + 2^k` does not
overflow; the real code adds `2^k - 1`) -/
theorem align_up_pow2 (a k : Nat) (h : a + 2 ^ k ≤ 2 ^ 64) :
    align_up a (2 ^ k) = (a + 2 ^ k - 1) / 2 ^ k * 2 ^ k := by
  have hp : 0 < 2 ^ k := Nat.two_pow_pos k
  have hk : k ≤ 64 := k_le_64 h
  unfold align_up
  have := and_not_low (a + (2 ^ k - 1)) k hk (by omega)
  simp only [U64]
  rw [show (18446744073709551616 : Nat) = 2 ^ 64 from rfl, this]
  congr 2; omega

private theorem roundup_facts (a p : Nat) (hp : 0 < p) :
    a ≤ (a + p - 1) / p * p ∧ (a + p - 1) / p * p < a + p ∧ (a + p - 1) / p * p % p = 0 := by
  have h1 := Nat.div_add_mod (a + p - 1) p
  have h2 := Nat.mod_lt (a + p - 1) hp
  rw [Nat.mul_comm] at h1
  refine ⟨by omega, by omega, Nat.mul_mod_left _ _⟩

theorem align_up_ge (a k : Nat) (h : a + 2 ^ k ≤ 2 ^ 64) : a ≤ align_up a (2 ^ k) := by
  rw [align_up_pow2 a k h]; exact (roundup_facts a _ (Nat.two_pow_pos k)).1

theorem align_up_lt (a k : Nat) (h : a + 2 ^ k ≤ 2 ^ 64) : align_up a (2 ^ k) < a + 2 ^ k := by
  rw [align_up_pow2 a k h]; exact (roundup_facts a _ (Nat.two_pow_pos k)).2.1

theorem align_up_mod (a k : Nat) (h : a + 2 ^ k ≤ 2 ^ 64) : align_up a (2 ^ k) % 2 ^ k = 0 := by
  rw [align_up_pow2 a k h]; exact (roundup_facts a _ (Nat.two_pow_pos k)).2.2

theorem align_up_dvd (a k : Nat) (h : a + 2 ^ k ≤ 2 ^ 64) : 2 ^ k ∣ align_up a (2 ^ k) :=
  Nat.dvd_of_mod_eq_zero (align_up_mod a k h)

/-- an already aligned value is unchanged -/
theorem align_up_of_aligned (a k : Nat) (h : a + 2 ^ k ≤ 2 ^ 64) (ha : a % 2 ^ k = 0) :
    align_up a (2 ^ k) = a := by
  have hp : 0 < 2 ^ k := Nat.two_pow_pos k
  have h1 := align_up_ge a k h
  have h2 := align_up_lt a k h
  have h3 := align_up_mod a k h
  have e1 := Nat.div_add_mod a (2 ^ k)
  have e2 := Nat.div_add_mod (align_up a (2 ^ k)) (2 ^ k)
  rw [ha] at e1; rw [h3] at e2
  generalize align_up a (2 ^ k) = b at *
  -- b = p * (b/p), a = p * (a/p), a ≤ b < a + p
  have : b / 2 ^ k = a / 2 ^ k := by
    apply Nat.le_antisymm
    · apply Nat.le_of_lt_succ
      apply (Nat.div_lt_iff_lt_mul hp).mpr
      rw [Nat.succ_mul, Nat.mul_comm]; omega
    · exact Nat.div_le_div_right h1
  rw [this] at e2; omega

theorem align_up_16 (a : Nat) (h : a + 16 ≤ 2 ^ 64) : align_up a 16 = (a + 15) / 16 * 16 := by
  have := align_up_pow2 a 4 (by omega)
  simpa using this

theorem align_up_4096 (a : Nat) (h : a + 4096 ≤ 2 ^ 64) :
    align_up a 4096 = (a + 4095) / 4096 * 4096 := by
  have := align_up_pow2 a 12 (by omega)
  simpa using this

theorem align_up_64k (a : Nat) (h : a + 65536 ≤ 2 ^ 64) :
    align_up a 65536 = (a + 65535) / 65536 * 65536 := by
  have := align_up_pow2 a 16 (by omega)
  simpa using this

theorem mmap_align_eq (a : Nat) (h : a + 4096 ≤ 2 ^ 64) :
    mmap_align a = (a + 4095) / 4096 * 4096 := by
  unfold mmap_align; exact align_up_4096 a h

theorem is_aligned_iff (a : Nat) : is_aligned a = true ↔ a % 16 = 0 := by
  unfold is_aligned
  simp only [decide_eq_true_eq]
  rw [show MALLOC_ALIGNMENT - 1 = 2 ^ 4 - 1 from rfl, Nat.and_two_pow_sub_one_eq_mod]

theorem align_offset_usize_eq (a : Nat) (h : a + 16 ≤ 2 ^ 64) :
    align_offset_usize a = (a + 15) / 16 * 16 - a := by
  unfold align_offset_usize; rw [show MALLOC_ALIGNMENT = 16 from rfl, align_up_16 a h]

theorem align_offset_usize_lt (a : Nat) (h : a + 16 ≤ 2 ^ 64) : align_offset_usize a < 16 := by
  rw [align_offset_usize_eq a h]; omega

theorem align_offset_usize_aligned (a : Nat) (h : a + 16 ≤ 2 ^ 64) :
    (a + align_offset_usize a) % 16 = 0 := by
  rw [align_offset_usize_eq a h]; omega

/-! ## pad_request / request2size -/

theorem pad_request_eq (a : Nat) (h : a + 24 ≤ 2 ^ 64) : pad_request a = (a + 23) / 16 * 16 := by
  unfold pad_request
  rw [show MALLOC_ALIGNMENT = 16 from rfl, show CHUNK_OVERHEAD = 8 from rfl, align_up_16 _ (by omega)]

theorem pad_request_mono (a b : Nat) (hab : a ≤ b) (h : b + 24 ≤ 2 ^ 64) :
    pad_request a ≤ pad_request b := by
  rw [pad_request_eq a (by omega), pad_request_eq b h]; omega

theorem pad_request_ge (a : Nat) (h : a + 24 ≤ 2 ^ 64) : a + 8 ≤ pad_request a := by
  rw [pad_request_eq a h]; omega

theorem pad_request_lt (a : Nat) (h : a + 24 ≤ 2 ^ 64) : pad_request a < a + 24 := by
  rw [pad_request_eq a h]; omega

theorem pad_request_aligned (a : Nat) (h : a + 24 ≤ 2 ^ 64) : pad_request a % 16 = 0 := by
  rw [pad_request_eq a h]; omega

theorem request2size_eq (r : Nat) (h : r + 24 ≤ 2 ^ 64) :
    request2size r = if r < 23 then 32 else (r + 23) / 16 * 16 := by
  unfold request2size
  rw [show MIN_REQUEST = 23 from by decide, show MIN_CHUNK_SIZE = 32 from by decide, pad_request_eq r h]

theorem request2size_ge_min (r : Nat) (h : r + 24 ≤ 2 ^ 64) : 32 ≤ request2size r := by
  rw [request2size_eq r h]; split <;> omega

theorem request2size_mono (a b : Nat) (hab : a ≤ b) (h : b + 24 ≤ 2 ^ 64) :
    request2size a ≤ request2size b := by
  rw [request2size_eq a (by omega), request2size_eq b h]; split <;> split <;> omega

theorem request2size_ge (r : Nat) (h : r + 24 ≤ 2 ^ 64) : r + 8 ≤ request2size r := by
  rw [request2size_eq r h]; split <;> omega

theorem request2size_lt (r : Nat) (h : r + 24 ≤ 2 ^ 64) : request2size r < r + 33 := by
  rw [request2size_eq r h]; split <;> omega

theorem request2size_aligned (r : Nat) (h : r + 24 ≤ 2 ^ 64) : request2size r % 16 = 0 := by
  rw [request2size_eq r h]; split <;> omega

/-- a request below `MAX_REQUEST` does not overflow `pad_request` … -/
theorem lt_max_request_no_overflow (r : Nat) (h : r < MAX_REQUEST) : r + 24 ≤ 2 ^ 64 := by
  rw [MAX_REQUEST_eq] at h; omega

/-- … and its chunk size leaves exactly the room `sys_alloc` adds
(`top_foot_size + MALLOC_ALIGNMENT + (DEFAULT_GRANULARITY - 1)` reaches at most `usize::MAX`).
NB the bound is 2^64 - 65632, far above 2^63. -/
theorem request2size_lt_max (r : Nat) (h : r < MAX_REQUEST) :
    request2size r ≤ 18446744073709485984 ∧
    request2size r + top_foot_size + MALLOC_ALIGNMENT + DEFAULT_GRANULARITY ≤ 2 ^ 64 := by
  have h' := lt_max_request_no_overflow r h
  rw [MAX_REQUEST_eq] at h
  rw [request2size_eq r h', top_foot_size_eq, MALLOC_ALIGNMENT_eq, DEFAULT_GRANULARITY_eq]
  split <;> omega

/-! ## small bins -/
theorem small_index_eq (s : Nat) (h : s < 2 ^ 35) : small_index s = s / 8 := by
  unfold small_index
  simp only [U32, SMALLBIN_SHIFT, Nat.shiftRight_eq_div_pow]
  omega

theorem small_index2size_eq (i : Nat) (h : i < 2 ^ 32) : small_index2size i = i * 8 := by
  unfold small_index2size
  simp only [U64, SMALLBIN_SHIFT, Nat.shiftLeft_eq]
  omega

theorem is_small_iff (s : Nat) : is_small s = true ↔ s < 256 := by
  unfold is_small
  simp only [decide_eq_true_eq, SMALLBIN_SHIFT, NSMALLBINS, Nat.shiftRight_eq_div_pow]
  omega

theorem small_index_lt (s : Nat) (h : s < 256) : small_index s < 32 := by
  rw [small_index_eq s (by omega)]; omega

theorem small_index_roundtrip (s : Nat) (h8 : s % 8 = 0) (h : s < 256) :
    small_index2size (small_index s) = s := by
  rw [small_index_eq s (by omega), small_index2size_eq _ (by omega)]; omega

theorem small_index2size_roundtrip (i : Nat) (h : i < 2 ^ 32) :
    small_index (small_index2size i) = i := by
  rw [small_index2size_eq i h, small_index_eq _ (by omega)]; omega

/-! ## tree bins -/

theorem leftshift_eq (i : Nat) (h : i < 31) : leftshift_for_tree_index i = 63 - (i / 2 + 6) := by
  unfold leftshift_for_tree_index
  simp only [U32, NTREEBINS, SIZEOF_USIZE, TREEBIN_SHIFT, Nat.shiftRight_eq_div_pow]
  split <;> omega

theorem leftshift_31 : leftshift_for_tree_index 31 = 0 := by decide

theorem min_size_for_tree_index_eq (i : Nat) (h : i ≤ 32) :
    min_size_for_tree_index i = 2 ^ (i / 2 + 8) + (i % 2) * 2 ^ (i / 2 + 7) := by
  revert i; decide

private theorem min_size_sm_aux : ∀ j, j ≤ 32 → ∀ i, i < j →
    min_size_for_tree_index i < min_size_for_tree_index j := by decide

theorem min_size_for_tree_index_strict_mono (i j : Nat) (hij : i < j) (hj : j ≤ 32) :
    min_size_for_tree_index i < min_size_for_tree_index j := min_size_sm_aux j hj i hij

theorem min_size_for_tree_index_mono (i j : Nat) (hij : i ≤ j) (hj : j ≤ 32) :
    min_size_for_tree_index i ≤ min_size_for_tree_index j := by
  rcases Nat.lt_or_eq_of_le hij with h | h
  · exact Nat.le_of_lt (min_size_for_tree_index_strict_mono i j h hj)
  · subst h; exact Nat.le_refl _

theorem compute_tree_index_small (s : Nat) (h : s < 256) : compute_tree_index s = 0 := by
  unfold compute_tree_index
  simp only [TREEBIN_SHIFT, Nat.shiftRight_eq_div_pow]
  rw [if_pos (by omega)]

theorem compute_tree_index_big (s : Nat) (h : 2 ^ 24 ≤ s) : compute_tree_index s = 31 := by
  unfold compute_tree_index
  simp only [TREEBIN_SHIFT, Nat.shiftRight_eq_div_pow]
  rw [if_neg (by omega), if_pos (by omega)]
  decide

theorem compute_tree_index_mid (s : Nat) (h1 : 256 ≤ s) (h2 : s < 2 ^ 24) :
    compute_tree_index s
      = 2 * Nat.log2 (s / 256) + s / 2 ^ (Nat.log2 (s / 256) + 7) % 2 := by
  have hx0 : s / 256 ≠ 0 := by omega
  have hx1 : ¬ (s / 256 > 65535) := by omega
  have hk : Nat.log2 (s / 256) < 16 := (Nat.log2_lt hx0).mpr (by omega)
  unfold compute_tree_index
  simp only [TREEBIN_SHIFT, Nat.shiftRight_eq_div_pow, Nat.reducePow, if_neg hx0, if_neg hx1,
    leading_zeros64, SIZEOF_USIZE, U64, U32, Nat.shiftLeft_eq, Nat.and_one_is_mod]
  generalize Nat.log2 (s / 256) = k at *
  have e1 : 8 * 8 - 1 - (63 - k) = k := by omega
  have e2 : k + 8 - 1 = k + 7 := by omega
  rw [e1, e2]
  have hb := Nat.mod_lt (s / 2 ^ (k + 7)) (show 0 < 2 by decide)
  generalize s / 2 ^ (k + 7) % 2 = b at *
  omega

theorem compute_tree_index_lt (s : Nat) : compute_tree_index s < 32 := by
  by_cases h1 : s < 256
  · rw [compute_tree_index_small s h1]; decide
  · by_cases h2 : s < 2 ^ 24
    · have hx0 : s / 256 ≠ 0 := by omega
      have hk : Nat.log2 (s / 256) < 16 := (Nat.log2_lt hx0).mpr (by omega)
      rw [compute_tree_index_mid s (by omega) h2]
      have hb := Nat.mod_lt (s / 2 ^ (Nat.log2 (s / 256) + 7)) (show 0 < 2 by decide)
      omega
    · rw [compute_tree_index_big s (by omega)]; decide

/-- the tree bin of `s` brackets `s`: bin `i` holds sizes in `[min_size i, min_size (i+1))` -/
theorem tree_index_bracket (s : Nat) (h1 : 256 ≤ s) (h2 : s < 2 ^ 24) :
    min_size_for_tree_index (compute_tree_index s) ≤ s ∧
    s < min_size_for_tree_index (compute_tree_index s + 1) := by
  have hx0 : s / 256 ≠ 0 := by omega
  have hk : Nat.log2 (s / 256) < 16 := (Nat.log2_lt hx0).mpr (by omega)
  have hlo : 2 ^ Nat.log2 (s / 256) ≤ s / 256 := Nat.log2_self_le hx0
  have hhi : s / 256 < 2 ^ (Nat.log2 (s / 256) + 1) := Nat.lt_log2_self
  rw [compute_tree_index_mid s h1 h2]
  generalize Nat.log2 (s / 256) = k at *
  have hb := Nat.mod_lt (s / 2 ^ (k + 7)) (show 0 < 2 by decide)
  generalize hbd : s / 2 ^ (k + 7) % 2 = b at hb ⊢
  have hk' : k = 0 ∨ k = 1 ∨ k = 2 ∨ k = 3 ∨ k = 4 ∨ k = 5 ∨ k = 6 ∨ k = 7 ∨ k = 8 ∨ k = 9 ∨ k = 10 ∨
      k = 11 ∨ k = 12 ∨ k = 13 ∨ k = 14 ∨ k = 15 := by omega
  have hb' : b = 0 ∨ b = 1 := by omega
  rw [min_size_for_tree_index_eq _ (by omega), min_size_for_tree_index_eq _ (by omega)]
  rcases hb' with rfl | rfl <;>
  rcases hk' with rfl | rfl | rfl | rfl | rfl | rfl | rfl | rfl | rfl | rfl | rfl | rfl | rfl | rfl | rfl | rfl <;>
    (simp only [Nat.reducePow, Nat.reduceAdd, Nat.reduceMul, Nat.reduceDiv, Nat.reduceMod] at *; omega)

theorem min_size_le (s : Nat) (h : 256 ≤ s) :
    min_size_for_tree_index (compute_tree_index s) ≤ s := by
  by_cases h2 : s < 2 ^ 24
  · exact (tree_index_bracket s h h2).1
  · rw [compute_tree_index_big s (by omega)]
    have : min_size_for_tree_index 31 = 12582912 := by decide
    omega

/-- the bracket determines the bin -/
theorem compute_tree_index_unique (s i : Nat) (hi : i < 32)
    (h1 : min_size_for_tree_index i ≤ s) (h2 : s < min_size_for_tree_index (i + 1)) :
    compute_tree_index s = i := by
  have hlo : min_size_for_tree_index 0 ≤ min_size_for_tree_index i :=
    min_size_for_tree_index_mono 0 i (by omega) (by omega)
  have hhi : min_size_for_tree_index (i + 1) ≤ min_size_for_tree_index 32 :=
    min_size_for_tree_index_mono (i + 1) 32 (by omega) (by omega)
  have e0 : min_size_for_tree_index 0 = 256 := by decide
  have e32 : min_size_for_tree_index 32 = 2 ^ 24 := by decide
  have hb := tree_index_bracket s (by omega) (by omega)
  have hj := compute_tree_index_lt s
  generalize compute_tree_index s = j at *
  apply Nat.le_antisymm
  · apply Nat.le_of_not_lt; intro hlt
    have := min_size_for_tree_index_mono (i + 1) j (by omega) (by omega)
    omega
  · apply Nat.le_of_not_lt; intro hlt
    have := min_size_for_tree_index_mono (j + 1) i (by omega) (by omega)
    omega

/-! ## bit tricks (u32 maps) -/

private theorem left_bits_pow_aux : ∀ k, k < 32 → left_bits (2 ^ k) = (2 ^ 32 - 2 ^ (k + 1)) % 2 ^ 32 := by
  decide

/-- `left_bits (1 << k)`: all bits strictly above `k` (and nothing else) -/
theorem left_bits_pow (k : Nat) (h : k < 32) : left_bits (2 ^ k) = (2 ^ 32 - 2 ^ (k + 1)) % 2 ^ 32 :=
  left_bits_pow_aux k h

theorem left_bits_pow_lt (k : Nat) (h : k < 32) : left_bits (2 ^ k) < 2 ^ 32 := by
  rw [left_bits_pow k h]; exact Nat.mod_lt _ (by decide)

private theorem left_bits_testBit_aux : ∀ k, k < 32 → ∀ i, i < 32 →
    (left_bits (2 ^ k)).testBit i = decide (k < i) := by decide

theorem left_bits_pow_testBit (k i : Nat) (h : k < 32) :
    (left_bits (2 ^ k)).testBit i = (decide (k < i) && decide (i < 32)) := by
  by_cases hi : i < 32
  · simp [left_bits_testBit_aux k h i hi, hi]
  · have : (left_bits (2 ^ k)).testBit i = false := by
      apply Nat.testBit_lt_two_pow
      exact Nat.lt_of_lt_of_le (left_bits_pow_lt k h) (Nat.pow_le_pow_right (by decide) (by omega))
    simp [this, hi]

private theorem tz_pow_aux : ∀ k, k < 32 → trailing_zeros32 (2 ^ k) = k := by decide
theorem trailing_zeros32_pow (k : Nat) (h : k < 32) : trailing_zeros32 (2 ^ k) = k := tz_pow_aux k h

/-- `least_bit` isolates the lowest set bit -/
theorem least_bit_pow (m k : Nat) (h : 2 ^ k * (2 * m + 1) < 2 ^ 32) :
    least_bit (2 ^ k * (2 * m + 1)) = 2 ^ k := by
  have hp : 0 < 2 ^ k := Nat.two_pow_pos k
  have hx1 : 2 ^ k * (2 * m + 1) = 2 ^ k * (2 * m) + 2 ^ k := by rw [Nat.mul_add, Nat.mul_one]
  have hk : 2 ^ k < 2 ^ 32 := by
    have : 2 ^ k ≤ 2 ^ k * (2 * m + 1) := Nat.le_mul_of_pos_right _ (by omega)
    omega
  have hk32 : k < 32 := (Nat.pow_lt_pow_iff_right (by decide)).mp hk
  unfold least_bit
  simp only [U32]
  generalize hx : 2 ^ k * (2 * m + 1) = x at *
  have hx0 : 0 < x := by omega
  have e : (4294967296 - 1 - x) + 1 = 2 ^ 32 - ((x - 1) + 1) := by omega
  rw [e]
  apply Nat.eq_of_testBit_eq
  intro i
  rw [Nat.testBit_and, Nat.testBit_two_pow_sub_succ (by omega), Nat.testBit_two_pow]
  have ex : x = 2 ^ k * (2 * m + 1) + 0 := by omega
  have ex1 : x - 1 = 2 ^ k * (2 * m) + (2 ^ k - 1) := by omega
  rw [ex1]
  conv => lhs; arg 1; rw [ex]
  rw [Nat.testBit_two_pow_mul_add _ hp, Nat.testBit_two_pow_mul_add _ (by omega : 2 ^ k - 1 < 2 ^ k)]
  by_cases h1 : i < k
  · simp [h1]; omega
  · by_cases h2 : i = k
    · subst h2; simp [hk32]
    · have : i - k = (i - k - 1) + 1 := by omega
      rw [if_neg h1, if_neg h1, this, Nat.testBit_succ, Nat.testBit_succ]
      have e1 : (2 * m + 1) / 2 = m := by omega
      have e2 : (2 * m) / 2 = m := by omega
      rw [e1, e2]
      have : ¬ k = i := fun h => h2 h.symm
      simp [this]
      intro h _; exact h

theorem exists_odd_decomp (x : Nat) (h : x ≠ 0) : ∃ k m, x = 2 ^ k * (2 * m + 1) := by
  induction x using Nat.strongRecOn with
  | _ x ih =>
    by_cases hodd : x % 2 = 1
    · exact ⟨0, x / 2, by simp; omega⟩
    · obtain ⟨k, m, hkm⟩ := ih (x / 2) (by omega) (by omega)
      refine ⟨k + 1, m, ?_⟩
      rw [Nat.pow_succ, Nat.mul_right_comm, ← hkm]; omega

/-- for a non-zero u32, `least_bit x` is `2^k` where `k` is the index of the lowest set bit -/
theorem least_bit_spec (x : Nat) (h0 : x ≠ 0) (h : x < 2 ^ 32) :
    ∃ k, k < 32 ∧ least_bit x = 2 ^ k ∧ x % 2 ^ (k + 1) = 2 ^ k := by
  obtain ⟨k, m, rfl⟩ := exists_odd_decomp x h0
  have hp : 0 < 2 ^ k := Nat.two_pow_pos k
  have hk : 2 ^ k < 2 ^ 32 := by
    have : 2 ^ k ≤ 2 ^ k * (2 * m + 1) := Nat.le_mul_of_pos_right _ (by omega)
    omega
  refine ⟨k, (Nat.pow_lt_pow_iff_right (by decide)).mp hk, least_bit_pow m k h, ?_⟩
  have : 2 ^ k * (2 * m + 1) = 2 ^ (k + 1) * m + 2 ^ k := by
    rw [Nat.mul_add, Nat.mul_one, Nat.pow_succ, Nat.mul_assoc]
  rw [this, Nat.mul_add_mod]
  exact Nat.mod_eq_of_lt (by rw [Nat.pow_succ]; omega)

/-- the lowest set bit is a set bit, and no lower bit is set -/
theorem least_bit_testBit (x : Nat) (h0 : x ≠ 0) (h : x < 2 ^ 32) :
    ∃ k, k < 32 ∧ least_bit x = 2 ^ k ∧ x.testBit k = true ∧ ∀ j, j < k → x.testBit j = false := by
  obtain ⟨k, m, rfl⟩ := exists_odd_decomp x h0
  have hp : 0 < 2 ^ k := Nat.two_pow_pos k
  have hk : 2 ^ k < 2 ^ 32 := by
    have : 2 ^ k ≤ 2 ^ k * (2 * m + 1) := Nat.le_mul_of_pos_right _ (by omega)
    omega
  refine ⟨k, (Nat.pow_lt_pow_iff_right (by decide)).mp hk, least_bit_pow m k h, ?_, ?_⟩
  · have := Nat.testBit_two_pow_mul_add (2 * m + 1) hp k
    rw [Nat.add_zero] at this
    rw [this]; simp
  · intro j hj
    have := Nat.testBit_two_pow_mul_add (2 * m + 1) hp j
    rw [Nat.add_zero] at this
    rw [this]; simp [hj]

theorem should_trim_iff (size trim_check : Nat) : should_trim size trim_check = true ↔ trim_check < size := by
  unfold should_trim; simp

end TinyVerif.Dl
