import TinyVerif.Model.Fs
/-! Helper lemmas for C14 (frame properties of the tree operations, syscall inversions). -/
namespace TinyVerif.Fs
set_option linter.unusedSimpArgs false
set_option linter.unusedVariables false

/-! ### entries -/

theorem assoc_append (es fs : List (Name × Node)) (c : Name) :
    assoc (es ++ fs) c = match assoc es c with | some v => some v | none => assoc fs c := by
  induction es with
  | nil => simp [assoc]
  | cons e es ih =>
    obtain ⟨n, x⟩ := e
    simp only [List.cons_append, assoc]
    split <;> simp_all

theorem assoc_map_replace (es : List (Name × Node)) (c c' : Name) (x : Node) :
    assoc (es.map (fun e => if e.1 = c then (c, x) else e)) c' =
      if c' = c then (match assoc es c with | some _ => some x | none => none) else assoc es c' := by
  induction es with
  | nil => simp [assoc]
  | cons e es ih =>
    obtain ⟨n, y⟩ := e
    simp only [List.map_cons, assoc]
    by_cases h1 : n = c
    · subst h1
      simp only [if_true, assoc]
      by_cases h2 : c' = n
      · subst h2; simp
      · have : ¬ n = c' := fun h => h2 h.symm
        simp [this, h2, ih]
    · simp only [h1, if_false, assoc]
      by_cases h2 : c' = c
      · subst h2
        have : ¬ n = c' := h1
        simp [this, ih]
      · by_cases h3 : n = c'
        · simp [h3, h2]
        · simp [h3, h2, ih]

theorem assoc_put (es : List (Name × Node)) (c c' : Name) (x : Node) :
    assoc (put es c x) c' = if c' = c then some x else assoc es c' := by
  unfold put
  split
  · rename_i v h
    rw [assoc_map_replace, h]
  · rename_i h
    rw [assoc_append]
    by_cases h2 : c' = c
    · subst h2; simp [h, assoc]
    · have : ¬ c = c' := fun h => h2 h.symm
      simp [h2, assoc, this]
      split <;> simp_all

theorem assoc_del (es : List (Name × Node)) (c c' : Name) :
    assoc (del es c) c' = if c' = c then none else assoc es c' := by
  unfold del
  induction es with
  | nil => simp [assoc]
  | cons e es ih =>
    obtain ⟨n, y⟩ := e
    by_cases h1 : n = c
    · subst h1
      simp only [List.filter, ne_eq, not_true_eq_false, decide_false, assoc]
      rw [ih]
      by_cases h2 : c' = n
      · simp [h2]
      · have : ¬ n = c' := fun h => h2 h.symm
        simp [h2, this]
    · simp only [List.filter, ne_eq, h1, not_false_eq_true, decide_true, assoc]
      rw [ih]
      by_cases h2 : c' = c
      · subst h2; simp [h1]
      · simp [h2]


/-! ### getAt / setAt -/

theorem getAt_append (r : Node) (l m : List Name) :
    getAt r (l ++ m) = (getAt r l).bind (fun x => getAt x m) := by
  induction l generalizing r with
  | nil => simp [getAt]
  | cons c l ih =>
    cases r with
    | dir es =>
      simp only [List.cons_append, getAt]
      cases h : assoc es c with
      | none => simp
      | some x => simp [ih]
    | file b => simp [getAt]
    | symlink t => simp [getAt]
    | fifo => simp [getAt]

theorem kind_setAt (r : Node) (loc : List Name) (o : Option Node) (h : loc ≠ []) :
    (setAt r loc o).kind = r.kind := by
  cases loc with
  | nil => exact absurd rfl h
  | cons c l =>
    cases r with
    | dir es =>
      cases l with
      | nil => simp [setAt, Node.kind]
      | cons c' l' =>
        simp only [setAt]
        split <;> simp [Node.kind]
    | file b => simp [setAt]
    | symlink t => simp [setAt]
    | fifo => simp [setAt]

/-- every location that is neither `loc` nor below it looks the same after `setAt … loc …` -/
theorem view_setAt_other (r : Node) (loc q : List Name) (o : Option Node)
    (hne : q ≠ loc) (hnp : ¬ loc <+: q) : view (setAt r loc o) q = view r q := by
  induction loc generalizing r q with
  | nil => exact absurd (List.nil_prefix) hnp
  | cons c l ih =>
    cases q with
    | nil =>
      simp only [view, getAt, Option.map_some]
      rw [kind_setAt _ _ _ (by simp)]
    | cons d q' =>
      cases r with
      | dir es =>
        cases l with
        | nil =>
          have hdc : d ≠ c := by
            intro h; subst h
            exact hnp (by simp)
          cases o with
          | some x => simp [setAt, view, getAt, assoc_put, hdc]
          | none => simp [setAt, view, getAt, assoc_del, hdc]
        | cons c' l' =>
          simp only [setAt]
          cases hx : assoc es c with
          | none => simp
          | some x =>
            simp only [view, getAt, assoc_put]
            by_cases hdc : d = c
            · subst hdc
              simp only [if_true, hx]
              have h1 : q' ≠ c' :: l' := by
                intro h; subst h; exact hne rfl
              have h2 : ¬ (c' :: l') <+: q' := by
                intro h; exact hnp (by simpa using h)
              exact ih x q' h1 h2
            · simp [hdc]
      | file b => simp [setAt]
      | symlink t => simp [setAt]
      | fifo => simp [setAt]

/-- the parent of `loc` resolves to a directory (vacuous for the root) -/
def parentOk : Node → List Name → Prop
  | _, [] => True
  | .dir _, [_] => True
  | .dir es, c :: c' :: l => ∃ x, assoc es c = some x ∧ parentOk x (c' :: l)
  | .file _, _ :: _ => False
  | .symlink _, _ :: _ => False
  | .fifo, _ :: _ => False

theorem getAt_setAt_some (r : Node) (loc : List Name) (x : Node) (hp : parentOk r loc) :
    getAt (setAt r loc (some x)) loc = some x := by
  induction loc generalizing r with
  | nil => simp [setAt, getAt]
  | cons c l ih =>
    cases r with
    | dir es =>
      cases l with
      | nil => simp [setAt, getAt, assoc_put]
      | cons c' l' =>
        obtain ⟨y, hy, hp'⟩ := hp
        simp [setAt, hy, getAt, assoc_put, ih y hp']
    | file b => exact absurd hp (by simp [parentOk])
    | symlink t => exact absurd hp (by simp [parentOk])
    | fifo => exact absurd hp (by simp [parentOk])

theorem parentOk_setAt (r : Node) (loc : List Name) (o : Option Node) (hp : parentOk r loc) :
    parentOk (setAt r loc o) loc := by
  induction loc generalizing r with
  | nil => simp [parentOk]
  | cons c l ih =>
    cases r with
    | dir es =>
      cases l with
      | nil => simp [setAt, parentOk]
      | cons c' l' =>
        obtain ⟨y, hy, hp'⟩ := hp
        simp only [setAt, hy, parentOk, assoc_put, if_true]
        exact ⟨_, rfl, ih y hp'⟩
    | file b => exact absurd hp (by simp [parentOk])
    | symlink t => exact absurd hp (by simp [parentOk])
    | fifo => exact absurd hp (by simp [parentOk])

theorem getAt_setAt_none (r : Node) (loc : List Name) (h : loc ≠ []) :
    getAt (setAt r loc none) loc = none := by
  induction loc generalizing r with
  | nil => exact absurd rfl h
  | cons c l ih =>
    cases r with
    | dir es =>
      cases l with
      | nil => simp [setAt, getAt, assoc_del]
      | cons c' l' =>
        simp only [setAt]
        cases hx : assoc es c with
        | none => simp [getAt, hx]
        | some x => simp [getAt, assoc_put, ih x (by simp)]
    | file b => simp [setAt, getAt]
    | symlink t => simp [setAt, getAt]
    | fifo => simp [setAt, getAt]

/-! ### walk -/

theorem walk_found (r : Node) (loc : List Name) (n : Node) (h : walk r loc = .found n) :
    getAt r loc = some n ∧ parentOk r loc := by
  induction loc generalizing r with
  | nil => simp [walk] at h; simp [getAt, h, parentOk]
  | cons c l ih =>
    cases r with
    | dir es =>
      simp only [walk] at h
      split at h
      · cases h
      · cases hx : assoc es c with
        | none => rw [hx] at h; cases l <;> simp at h
        | some x =>
          rw [hx] at h
          have := ih x h
          refine ⟨by simp [getAt, hx, this.1], ?_⟩
          cases l with
          | nil => simp [parentOk]
          | cons c' l' => exact ⟨x, hx, this.2⟩
    | file b => simp [walk] at h
    | symlink t => simp [walk] at h
    | fifo => simp [walk] at h

theorem walk_missing (r : Node) (loc : List Name) (h : walk r loc = .missing) :
    getAt r loc = none ∧ parentOk r loc ∧ loc ≠ [] := by
  induction loc generalizing r with
  | nil => simp [walk] at h
  | cons c l ih =>
    cases r with
    | dir es =>
      simp only [walk] at h
      split at h
      · cases h
      · cases hx : assoc es c with
        | none =>
          rw [hx] at h
          cases l with
          | nil => simp [getAt, hx, parentOk]
          | cons c' l' => simp at h
        | some x =>
          rw [hx] at h
          have := ih x h
          refine ⟨by simp [getAt, hx, this.1], ?_, by simp⟩
          cases l with
          | nil => simp [parentOk]
          | cons c' l' => exact ⟨x, hx, this.2.1⟩
    | file b => simp [walk] at h
    | symlink t => simp [walk] at h
    | fifo => simp [walk] at h

/-- nothing lives below a location that is absent or not a directory -/
theorem view_below_none (r : Node) (loc m : List Name) (hm : m ≠ [])
    (h : getAt r loc = none ∨ (∃ b, getAt r loc = some (.file b)) ∨ (∃ t, getAt r loc = some (.symlink t)) ∨ getAt r loc = some .fifo) :
    view r (loc ++ m) = none := by
  cases m with
  | nil => exact absurd rfl hm
  | cons c m' =>
    simp only [view, getAt_append]
    rcases h with h | ⟨b, h⟩ | ⟨t, h⟩ | h <;> simp [h, getAt]

/-- replacing an absent node or a regular file by a regular file changes that one location only -/
theorem replace_file_frame (r : Node) (loc : List Name) (b' : Bytes)
    (hp : parentOk r loc)
    (hold : getAt r loc = none ∨ ∃ b, getAt r loc = some (.file b)) :
    getAt (setAt r loc (some (.file b'))) loc = some (.file b') ∧
    parentOk (setAt r loc (some (.file b'))) loc ∧
    ∀ q, q ≠ loc → view (setAt r loc (some (.file b'))) q = view r q := by
  refine ⟨getAt_setAt_some r loc _ hp, parentOk_setAt r loc _ hp, ?_⟩
  intro q hq
  by_cases hpre : loc <+: q
  · obtain ⟨m, rfl⟩ := hpre
    have hm : m ≠ [] := by intro h; subst h; simp at hq
    rw [view_below_none _ loc m hm (Or.inr (Or.inl ⟨b', getAt_setAt_some r loc _ hp⟩))]
    rw [view_below_none r loc m hm (by rcases hold with h | ⟨b, h⟩; exact Or.inl h; exact Or.inr (Or.inl ⟨b, h⟩))]
  · exact view_setAt_other r loc q _ hq hpre


abbrev F_WCT : Nat := 524865   -- O_CLOEXEC | O_WRONLY | O_CREAT | O_TRUNC

theorem openFlags_write : openFlags writeOpts 0 = some F_WCT := by decide
theorem openFlags_copy_dest : openFlags ⟨false, true, false, true, true, false⟩ 0 = some F_WCT := by decide

theorem walk_names (r : Node) (loc : List Name) (h : (∃ n, walk r loc = .found n) ∨ walk r loc = .missing) :
    ∀ c ∈ loc, c.length ≤ NAME_MAX := by
  induction loc generalizing r with
  | nil => simp
  | cons c l ih =>
    cases r with
    | dir es =>
      simp only [walk] at h
      by_cases hc : c.length > NAME_MAX
      · simp [hc] at h
      · simp only [hc, if_false] at h
        cases hx : assoc es c with
        | none =>
          rw [hx] at h
          cases l with
          | nil => intro c' hc'; simp at hc'; subst hc'; omega
          | cons c' l' => simp at h
        | some x =>
          rw [hx] at h
          intro c' hc'
          simp at hc'
          rcases hc' with rfl | hc'
          · omega
          · exact ih x h c' hc'
    | file b => simp [walk] at h
    | symlink t => simp [walk] at h
    | fifo => simp [walk] at h

theorem walk_of_getAt (r : Node) (loc : List Name) (n : Node) (hg : getAt r loc = some n)
    (hn : ∀ c ∈ loc, c.length ≤ NAME_MAX) : walk r loc = .found n := by
  induction loc generalizing r with
  | nil => simp [getAt] at hg; simp [walk, hg]
  | cons c l ih =>
    cases r with
    | dir es =>
      simp only [getAt] at hg
      have hc : ¬ c.length > NAME_MAX := by have := hn c (by simp); omega
      simp only [walk, hc, if_false]
      cases hx : assoc es c with
      | none => rw [hx] at hg; simp at hg
      | some x =>
        rw [hx] at hg
        exact ih x hg (fun c' hc' => hn c' (by simp [hc']))
    | file b => simp [getAt] at hg
    | symlink t => simp [getAt] at hg
    | fifo => simp [getAt] at hg

theorem parsePath_cwd (st st' : FS) (p : Bytes) (h : st'.cwd = st.cwd) : parsePath st' p = parsePath st p := by
  unfold parsePath; rw [h]

theorem fsRead_file (st : FS) (p : Bytes) (loc : List Name) (b : Bytes)
    (hp : parsePath st p = .ok (loc, false)) (hn : ∀ c ∈ loc, c.length ≤ NAME_MAX)
    (hg : getAt st.root loc = some (.file b)) : fsRead st p = .ok b := by
  have hf : openFlags ⟨true, false, false, false, false, false⟩ 0 = some 524288 := by decide
  have hw := walk_of_getAt _ _ _ hg hn
  have hb1 : hasBit 524288 O_CREAT = false := by decide
  have hb2 : hasBit 524288 O_EXCL = false := by decide
  have hb3 : hasBit 524288 O_TRUNC = false := by decide
  have hb4 : hasBit 524288 O_DIRECTORY = false := by decide
  simp [fsRead, optsOpen, hf, openat, hp, hw, hb1, hb2, hb3, hb4, hg]

theorem openat_wct_ok (st st1 : FS) (p : Bytes) (h : Handle)
    (hop : openat st p F_WCT = (st1, .ok h)) :
    parsePath st p = .ok (h.loc, false) ∧ (∀ c ∈ h.loc, c.length ≤ NAME_MAX) ∧ st1.cwd = st.cwd ∧ parentOk st.root h.loc ∧
      (getAt st.root h.loc = none ∨ ∃ b, getAt st.root h.loc = some (.file b)) ∧
      st1.root = setAt st.root h.loc (some (.file [])) ∧ h.isDir = false ∧ h.flags = F_WCT ∧ h.off = 0 := by
  unfold openat at hop
  cases hpp : parsePath st p with
  | error e => rw [hpp] at hop; simp at hop
  | ok lt =>
    obtain ⟨loc, tr⟩ := lt
    rw [hpp] at hop
    have hb1 : hasBit F_WCT O_CREAT = true := by decide
    have hb2 : hasBit F_WCT O_EXCL = false := by decide
    have hb3 : hasBit F_WCT O_TRUNC = true := by decide
    have hb4 : hasBit F_WCT O_DIRECTORY = false := by decide
    have hb5 : hasBit F_WCT O_NOFOLLOW = false := by decide
    have hb6 : F_WCT % 4 = 1 := by decide
    simp only [hb1, hb2, hb3, hb4, hb5, hb6] at hop
    cases hw : walk st.root loc with
    | err e => rw [hw] at hop; simp at hop
    | missing =>
      rw [hw] at hop
      have := walk_missing _ _ hw
      cases tr <;> simp at hop
      obtain ⟨h1, h2⟩ := hop
      subst h1 h2
      exact ⟨rfl, walk_names _ _ (Or.inr hw), rfl, this.2.1, Or.inl this.1, rfl, rfl, rfl, rfl⟩
    | found n =>
      rw [hw] at hop
      have := walk_found _ _ _ hw
      cases n with
      | dir es => simp at hop
      | symlink t => simp at hop
      | fifo => simp at hop
      | file b =>
        cases tr <;> simp at hop
        obtain ⟨h1, h2⟩ := hop
        subst h1 h2
        exact ⟨rfl, walk_names _ _ (Or.inl ⟨_, hw⟩), rfl, this.2, Or.inr ⟨b, this.1⟩, rfl, rfl, rfl, rfl⟩


theorem clamp_le (k want : Nat) : clamp k want ≤ want := by unfold clamp; split <;> omega

theorem writeAt_end (w chunk : Bytes) : writeAt w w.length chunk = w ++ chunk := by
  simp [writeAt]

/-- state reached while the file at `loc` is being (over)written: only `loc` differs from `r0` -/
structure FileInv (r0 r : Node) (loc : List Name) (w : Bytes) : Prop where
  here : getAt r loc = some (.file w)
  par : parentOk r loc
  frame : ∀ q, q ≠ loc → view r q = view r0 q

theorem FileInv.step {r0 r : Node} {loc : List Name} {w : Bytes} (inv : FileInv r0 r loc w) (w' : Bytes) :
    FileInv r0 (setAt r loc (some (.file w'))) loc w' := by
  have := replace_file_frame r loc w' inv.par (Or.inr ⟨w, inv.here⟩)
  exact ⟨this.1, this.2.1, fun q hq => (this.2.2 q hq).trans (inv.frame q hq)⟩

theorem sysWrite_ok (r0 : Node) (st st' : FS) (h h' : Handle) (w data : Bytes) (k n : Nat)
    (inv : FileInv r0 st.root h.loc w) (hd : h.isDir = false) (hf : h.flags = F_WCT) (ho : h.off = w.length)
    (hs : sysWrite st h data k = (st', .ok (h', n))) :
    n = clamp k data.length ∧ FileInv r0 st'.root h.loc (w ++ data.take n) ∧ st'.cwd = st.cwd ∧
      h'.loc = h.loc ∧ h'.isDir = false ∧ h'.flags = F_WCT ∧ h'.off = (w ++ data.take n).length := by
  unfold sysWrite at hs
  have hb : hasBit F_WCT O_APPEND = false := by decide
  have hb6 : F_WCT % 4 = 1 := by decide
  simp only [hd, hf, hb6, inv.here, hb, ho] at hs
  simp at hs
  obtain ⟨h1, h2, h3⟩ := hs
  subst h1 h2 h3
  have hcl : clamp k data.length ≤ data.length := by unfold clamp; split <;> omega
  refine ⟨rfl, ?_, rfl, rfl, rfl, rfl, ?_⟩
  · simp only [writeAt_end]
    exact inv.step _
  · simp [List.length_take]; omega

theorem writeAll_ok (r0 : Node) (script : List Nat) :
    ∀ (st st' : FS) (h : Handle) (w data : Bytes),
      FileInv r0 st.root h.loc w → h.isDir = false → h.flags = F_WCT → h.off = w.length →
      writeAll st h data script = (st', .ok ()) →
      FileInv r0 st'.root h.loc (w ++ data) ∧ st'.cwd = st.cwd := by
  induction script with
  | nil =>
    intro st st' h w data inv hd hf ho hs
    unfold writeAll at hs
    by_cases hdat : data = []
    · simp [hdat] at hs; subst hs; simpa [hdat] using inv
    · simp only [hdat, if_false] at hs
      cases hsw : sysWrite st h data 0 with
      | mk st2 r =>
        rw [hsw] at hs
        cases r with
        | error e => simp at hs
        | ok hn =>
          obtain ⟨h', n⟩ := hn
          simp at hs
          subst hs
          have := sysWrite_ok r0 st st2 h h' w data 0 n inv hd hf ho hsw
          have hn : n = data.length := by simp [this.1, clamp]
          subst hn
          have h2 := this.2.1
          rw [List.take_length] at h2
          exact ⟨h2, this.2.2.1⟩
  | cons k ks ih =>
    intro st st' h w data inv hd hf ho hs
    unfold writeAll at hs
    by_cases hdat : data = []
    · simp [hdat] at hs; subst hs; simpa [hdat] using inv
    · simp only [hdat, if_false] at hs
      cases hsw : sysWrite st h data k with
      | mk st2 r =>
        rw [hsw] at hs
        cases r with
        | error e => simp at hs
        | ok hn =>
          obtain ⟨h', n⟩ := hn
          simp only at hs
          have := sysWrite_ok r0 st st2 h h' w data k n inv hd hf ho hsw
          by_cases hn0 : n = 0
          · simp [hn0] at hs
          · simp only [hn0, if_false] at hs
            obtain ⟨_, inv2, hc, hl, hd', hf', ho'⟩ := this
            rw [← hl] at inv2
            have := ih st2 st' h' (w ++ data.take n) (data.drop n) inv2 hd' hf' ho' hs
            rw [hl] at this
            simpa [List.append_assoc, List.take_append_drop, hc] using this


/-- **write_post** -/
theorem write_post' (st st' : FS) (p data : Bytes) (script : List Nat)
    (h : fsWrite st p data script = (st', .ok ())) :
    ∃ loc, parsePath st p = .ok (loc, false) ∧
      getAt st'.root loc = some (.file data) ∧
      (∀ q, q ≠ loc → view st'.root q = view st.root q) ∧
      fsRead st' p = .ok data := by
  unfold fsWrite optsOpen at h
  rw [openFlags_write] at h
  simp only at h
  cases hop : openat st p F_WCT with
  | mk st1 r =>
    rw [hop] at h
    cases r with
    | error e => simp at h
    | ok hd =>
      simp only at h
      obtain ⟨hpp, hnames, hcwd, hpar, hold, hroot, hdir, hfl, hoff⟩ := openat_wct_ok st st1 p hd hop
      have inv0 : FileInv st.root st1.root hd.loc [] := by
        have := replace_file_frame st.root hd.loc [] hpar hold
        rw [hroot]
        exact ⟨this.1, this.2.1, this.2.2⟩
      have := writeAll_ok st.root script st1 st' hd [] data inv0 hdir hfl (by simp [hoff]) h
      simp only [List.nil_append] at this
      refine ⟨hd.loc, hpp, this.1.here, this.1.frame, ?_⟩
      apply fsRead_file st' p hd.loc data _ hnames this.1.here
      rw [parsePath_cwd st st' p (this.2.trans hcwd)]
      exact hpp


abbrev F_RD : Nat := 524288   -- O_CLOEXEC | O_RDONLY

theorem openat_rd_ok (st st0 : FS) (p : Bytes) (h : Handle)
    (hop : openat st p F_RD = (st0, .ok h)) :
    st0 = st ∧ (∃ tr, parsePath st p = .ok (h.loc, tr)) ∧
      (h.isDir = false → ∃ b, getAt st.root h.loc = some (.file b)) ∧
      (h.isDir = true → ∃ es, getAt st.root h.loc = some (.dir es)) := by
  unfold openat at hop
  cases hpp : parsePath st p with
  | error e => rw [hpp] at hop; simp at hop
  | ok lt =>
    obtain ⟨loc, tr⟩ := lt
    rw [hpp] at hop
    have hb1 : hasBit F_RD O_CREAT = false := by decide
    have hb2 : hasBit F_RD O_EXCL = false := by decide
    have hb3 : hasBit F_RD O_TRUNC = false := by decide
    have hb4 : hasBit F_RD O_DIRECTORY = false := by decide
    have hb5 : hasBit F_RD O_NOFOLLOW = false := by decide
    have hb6 : F_RD % 4 = 0 := by decide
    simp only [hb1, hb2, hb3, hb4, hb5, hb6] at hop
    cases hw : walk st.root loc with
    | err e => rw [hw] at hop; simp at hop
    | missing => rw [hw] at hop; simp at hop
    | found n =>
      rw [hw] at hop
      have := walk_found _ _ _ hw
      cases n with
      | symlink t => simp at hop
      | fifo => simp at hop
      | dir es =>
        simp at hop
        obtain ⟨h1, h2⟩ := hop
        subst h1 h2
        exact ⟨rfl, ⟨tr, rfl⟩, by simp, fun _ => ⟨es, this.1⟩⟩
      | file b =>
        cases tr <;> simp at hop
        obtain ⟨h1, h2⟩ := hop
        subst h1 h2
        exact ⟨rfl, ⟨false, rfl⟩, fun _ => ⟨b, this.1⟩, by simp⟩

theorem clamp_pos (k want : Nat) (h : 0 < want) : 0 < clamp k want := by unfold clamp; split <;> omega

theorem getAt_of_view_file (r : Node) (q : List Name) (b : Bytes) (h : view r q = some (.file b)) :
    getAt r q = some (.file b) := by
  unfold view at h
  cases hg : getAt r q with
  | none => simp [hg] at h
  | some n => cases n <;> simp_all [Node.kind]

theorem copyLoop_ok (r0 : Node) (s : Bytes) (src : Handle) (script : List Nat) :
    ∀ (st st' : FS) (dst : Handle) (offset : Nat),
      FileInv r0 st.root dst.loc (s.take offset) → offset ≤ s.length →
      view r0 src.loc = some (.file s) →
      copyLoop st src dst s.length offset script = (st', .ok ()) →
      FileInv r0 st'.root dst.loc s := by
  induction script with
  | nil =>
    intro st st' dst offset inv hle hsrc hs
    unfold copyLoop at hs
    by_cases hz : s.length - offset = 0
    · simp [hz] at hs; subst hs
      have : offset = s.length := by omega
      subst this; simpa using inv
    · simp only [hz, if_false] at hs
      unfold copyFileRange at hs
      by_cases hsame : src.loc = dst.loc
      · simp [hsame] at hs
      · simp only [hsame, if_false] at hs
        have hsg : getAt st.root src.loc = some (.file s) :=
          getAt_of_view_file _ _ _ ((inv.frame _ hsame).trans hsrc)
        simp only [hsg, inv.here] at hs
        simp at hs
        subst hs
        have hn : clamp 0 (s.length - offset) = s.length - offset := by simp [clamp]
        rw [hn]
        have hw : writeAt (s.take offset) offset ((s.drop offset).take (s.length - offset)) = s := by
          have h1 : (s.take offset).length = offset := by simp [List.length_take]; omega
          have := writeAt_end (s.take offset) ((s.drop offset).take (s.length - offset))
          rw [h1] at this
          rw [this]
          have h2 : (s.drop offset).take (s.length - offset) = s.drop offset := by
            apply List.take_of_length_le; simp
          rw [h2, List.take_append_drop]
        rw [hw]
        exact inv.step s
  | cons k ks ih =>
    intro st st' dst offset inv hle hsrc hs
    unfold copyLoop at hs
    by_cases hz : s.length - offset = 0
    · simp [hz] at hs; subst hs
      have : offset = s.length := by omega
      subst this; simpa using inv
    · simp only [hz, if_false] at hs
      unfold copyFileRange at hs
      by_cases hsame : src.loc = dst.loc
      · simp [hsame] at hs
      · simp only [hsame, if_false] at hs
        have hsg : getAt st.root src.loc = some (.file s) :=
          getAt_of_view_file _ _ _ ((inv.frame _ hsame).trans hsrc)
        simp only [hsg, inv.here] at hs
        simp only [Nat.min_self] at hs
        have hpos := clamp_pos k (s.length - offset) (by omega)
        have hcl := clamp_le k (s.length - offset)
        have hn0 : ¬ clamp k (s.length - offset) = 0 := by omega
        simp only [hn0, if_false] at hs
        refine ih _ st' dst (offset + clamp k (s.length - offset)) ?_ (by omega) hsrc hs
        have hw : writeAt (s.take offset) offset ((s.drop offset).take (clamp k (s.length - offset)))
            = s.take (offset + clamp k (s.length - offset)) := by
          have h1 : (s.take offset).length = offset := by simp [List.length_take]; omega
          have := writeAt_end (s.take offset) ((s.drop offset).take (clamp k (s.length - offset)))
          rw [h1] at this
          rw [this, List.take_add]
        simp only [hw]
        exact inv.step _

/-- **copy_post** (repaired code: destination opened with `truncate(true)`) -/
theorem copy_post' (st st' : FS) (src dst : Bytes) (script : List Nat)
    (h : copyFile st src dst script = (st', .ok ())) :
    ∃ sloc dloc s, (∃ tr, parsePath st src = .ok (sloc, tr)) ∧ parsePath st dst = .ok (dloc, false) ∧
      getAt st.root sloc = some (.file s) ∧
      getAt st'.root dloc = some (.file s) ∧
      (∀ q, q ≠ dloc → view st'.root q = view st.root q) := by
  unfold copyFile copyFileG optsOpen at h
  have hf : openFlags ⟨true, false, false, false, false, false⟩ 0 = some F_RD := by decide
  rw [hf] at h
  simp only at h
  cases hop : openat st src F_RD with
  | mk st0 r =>
    rw [hop] at h
    cases r with
    | error e => simp at h
    | ok hs =>
      simp only at h
      obtain ⟨hst0, hpp, hfile, _⟩ := openat_rd_ok st st0 src hs hop
      subst hst0
      by_cases hdir : hs.isDir = true
      · simp [hdir] at h
      · simp only [hdir] at h
        obtain ⟨s, hsg⟩ := hfile (by simpa using hdir)
        unfold fileCopy fstatSize optsOpen at h
        rw [hsg, openFlags_copy_dest] at h
        simp only at h
        cases hop2 : openat st0 dst F_WCT with
        | mk st1 r2 =>
          rw [hop2] at h
          cases r2 with
          | error e => simp at h
          | ok hd =>
            simp only at h
            obtain ⟨hpp2, hnames, hcwd, hpar, hold, hroot, hdir2, hfl, hoff⟩ := openat_wct_ok st0 st1 dst hd hop2
            have inv0 : FileInv st0.root st1.root hd.loc (s.take 0) := by
              have := replace_file_frame st0.root hd.loc [] hpar hold
              rw [hroot]
              exact ⟨this.1, this.2.1, this.2.2⟩
            have hv : view st0.root hs.loc = some (.file s) := by simp [view, hsg, Node.kind]
            have := copyLoop_ok st0.root s hs script st1 st' hd 0 inv0 (by omega) hv h
            exact ⟨hs.loc, hd.loc, s, hpp, hpp2, hsg, this.here, this.frame⟩


theorem unlinkat_rmdir_ok (st st' : FS) (p : Bytes) (h : unlinkat st p true = (st', .ok ())) :
    ∃ loc tr, parsePath st p = .ok (loc, tr) ∧ loc ≠ [] ∧ getAt st.root loc = some (.dir []) ∧
      st'.root = setAt st.root loc none ∧ st'.cwd = st.cwd := by
  unfold unlinkat at h
  cases hpp : parsePath st p with
  | error e => rw [hpp] at h; simp at h
  | ok lt =>
    obtain ⟨loc, tr⟩ := lt
    rw [hpp] at h
    simp only at h
    cases hw : walk st.root loc with
    | err e => rw [hw] at h; simp at h
    | missing => rw [hw] at h; simp at h
    | found n =>
      rw [hw] at h
      have hf := walk_found _ _ _ hw
      cases n with
      | symlink t => cases tr <;> simp at h
      | fifo => simp at h
      | file b => simp at h
      | dir es =>
        simp only [Bool.not_true, Bool.false_eq_true, if_false] at h
        by_cases h1 : (loc = [] || loc = st.cwd) = true
        · simp [h1] at h
        · simp only [h1, if_false] at h
          by_cases h2 : es ≠ []
          · simp [h2] at h
          · simp only [h2, if_false] at h
            simp at h2
            subst h2
            simp at h
            subst h
            refine ⟨loc, tr, rfl, ?_, hf.1, rfl, rfl⟩
            intro hl; simp [hl] at h1

theorem removeAllN_file (fuel : Nat) (b : Bytes) : (removeAllN fuel (.file b)).2 ≠ .ok () := by
  cases fuel with
  | zero => show (Except.error E.unmodelled : Out Unit) ≠ .ok (); intro h; cases h
  | succ n => show (Except.error (E.os ENOTDIR) : Out Unit) ≠ .ok (); intro h; cases h

/-- **remove_dir_all_post** -/
theorem remove_dir_all_post' (st st' : FS) (p : Bytes) (h : removeDirAll st p = (st', .ok ())) :
    ∃ loc, (∃ tr, parsePath st p = .ok (loc, tr)) ∧ loc ≠ [] ∧
      (∃ es, getAt st.root loc = some (.dir es)) ∧
      (∀ q, loc <+: q → getAt st'.root q = none) ∧
      (∀ q, ¬ loc <+: q → view st'.root q = view st.root q) := by
  unfold removeDirAll at h
  have hfl : (O_CLOEXEC ||| O_RDONLY) = F_RD := by decide
  rw [hfl] at h
  cases hop : openat st p F_RD with
  | mk st0 r =>
    rw [hop] at h
    cases r with
    | error e => simp at h
    | ok hd =>
      simp only at h
      obtain ⟨hst0, ⟨tr, hpp⟩, hfile, hdirn⟩ := openat_rd_ok st st0 p hd hop
      subst hst0
      cases hg : getAt st0.root hd.loc with
      | none => rw [hg] at h; simp at h
      | some d =>
        rw [hg] at h
        simp only at h
        cases hr : removeAllN (depth d + 1) d with
        | mk d' res =>
          rw [hr] at h
          cases res with
          | error e => simp at h
          | ok u =>
            simp only at h
            obtain ⟨loc, tr2, hpp2, hne, hgd, hroot, hcwd⟩ := unlinkat_rmdir_ok _ st' p h
            have hpc := parsePath_cwd st0 { root := setAt st0.root hd.loc (some d'), cwd := st0.cwd } p rfl
            rw [hpc, hpp] at hpp2
            simp at hpp2
            obtain ⟨hl, _⟩ := hpp2
            subst hl
            have hisdir : ∃ es, getAt st0.root hd.loc = some (.dir es) := by
              by_cases hb : hd.isDir = true
              · exact hdirn hb
              · have hb2 : hd.isDir = false := Bool.eq_false_iff.mpr hb
                obtain ⟨b, hb'⟩ := hfile hb2
                have hdb : d = .file b := by rw [hb'] at hg; exact (Option.some.inj hg).symm
                rw [hdb] at hr
                exact absurd (congrArg Prod.snd hr) (removeAllN_file _ b)
            refine ⟨hd.loc, ⟨tr, hpp⟩, hne, hisdir, ?_, ?_⟩
            · intro q hq
              obtain ⟨m, rfl⟩ := hq
              rw [hroot, getAt_append, getAt_setAt_none _ _ hne]
              rfl
            · intro q hq
              have hqne : q ≠ hd.loc := by intro h; subst h; exact hq (List.prefix_refl _)
              rw [hroot, view_setAt_other _ _ _ _ hqne hq]
              exact view_setAt_other _ _ _ _ hqne hq


/-- nothing that existed was changed or removed (directories may have gained entries) -/
def Mono (st st' : FS) : Prop :=
  st'.cwd = st.cwd ∧ ∀ q k, view st.root q = some k → view st'.root q = some k

theorem Mono.refl (st : FS) : Mono st st := ⟨rfl, fun _ _ h => h⟩

theorem Mono.trans {a b c : FS} (h1 : Mono a b) (h2 : Mono b c) : Mono a c :=
  ⟨h2.1.trans h1.1, fun q k h => h2.2 q k (h1.2 q k h)⟩

theorem mkdirat_mono (st : FS) (p : Bytes) : Mono st (mkdirat st p).1 := by
  unfold mkdirat
  cases hpp : parsePath st p with
  | error e => exact Mono.refl st
  | ok lt =>
    obtain ⟨loc, tr⟩ := lt
    simp only
    cases hw : walk st.root loc with
    | err e => exact Mono.refl st
    | found n => cases n <;> exact Mono.refl st
    | missing =>
      simp only
      refine ⟨rfl, ?_⟩
      intro q k hq
      obtain ⟨hnone, hpar, hne⟩ := walk_missing _ _ hw
      have hql : q ≠ loc := by
        intro h; subst h; simp [view, hnone] at hq
      by_cases hpre : loc <+: q
      · obtain ⟨m, rfl⟩ := hpre
        have hm : m ≠ [] := by intro h; subst h; simp at hql
        rw [view_below_none st.root loc m hm (Or.inl hnone)] at hq
        cases hq
      · rw [view_setAt_other _ _ _ _ hql hpre]; exact hq

theorem mkdirOrExists_mono (st : FS) (p : Bytes) : Mono st (mkdirOrExists st p).1 := by
  have := mkdirat_mono st p
  unfold mkdirOrExists
  cases h : mkdirat st p with
  | mk st' r =>
    rw [h] at this
    cases r with
    | ok u => exact this
    | error e => simp only; split <;> exact this

theorem scanDown_mono (buf : Bytes) (n : Nat) : ∀ st, Mono st (scanDown st buf n).1 := by
  induction n with
  | zero => intro st; exact Mono.refl st
  | succ n ih =>
    intro st
    unfold scanDown
    split
    · have hm := mkdirOrExists_mono st (buf.take (n + 1))
      cases h : mkdirOrExists st (buf.take (n + 1)) with
      | mk st' r =>
        rw [h] at hm
        cases r with
        | ok ex => exact hm
        | error e =>
          simp only
          split
          · exact hm.trans (ih st')
          · exact hm
    · exact ih st

theorem scanUp_mono (rest : Bytes) : ∀ st done ex, Mono st (scanUp st done ex rest).1 := by
  induction rest with
  | nil => intro st done ex; exact Mono.refl st
  | cons b rest ih =>
    intro st done ex
    unfold scanUp
    split
    · have hm := mkdirOrExists_mono st done
      cases h : mkdirOrExists st done with
      | mk st' r =>
        rw [h] at hm
        cases r with
        | ok ex' => exact hm.trans (ih st' _ _)
        | error e => exact hm
    · exact ih st _ _

theorem writeAllSubPaths_mono (st : FS) (buf : Bytes) : Mono st (writeAllSubPaths st buf).1 := by
  unfold writeAllSubPaths
  have h1 := scanDown_mono buf (buf.length - 1) st
  cases hd : scanDown st buf (buf.length - 1) with
  | mk st1 r1 =>
    rw [hd] at h1
    cases r1 with
    | error e => exact h1
    | ok ie =>
      obtain ⟨ind, ex⟩ := ie
      simp only
      have h2 := scanUp_mono (buf.drop (ind + 1)) st1 (buf.take (ind + 1)) ex
      cases hu : scanUp st1 (buf.take (ind + 1)) ex (buf.drop (ind + 1)) with
      | mk st2 r2 =>
        rw [hu] at h2
        cases r2 with
        | error e => exact h1.trans h2
        | ok ex2 =>
          simp only
          by_cases hl : buf.getLast? = some SLASH
          · simp only [hl, if_true]
            cases ex2 with
            | false => exact h1.trans h2
            | true =>
              simp only
              split <;> exact h1.trans h2
          · simp only [hl, if_false]
            have h3 := mkdirOrExists_mono st2 buf
            cases hm : mkdirOrExists st2 buf with
            | mk st3 r3 =>
              rw [hm] at h3
              cases r3 with
              | error e => exact (h1.trans h2).trans h3
              | ok ex3 =>
                cases ex3 with
                | false => exact (h1.trans h2).trans h3
                | true =>
                  simp only
                  split <;> exact (h1.trans h2).trans h3

theorem createDirAll_mono (st : FS) (p : Bytes) : Mono st (createDirAll st p).1 := by
  unfold createDirAll
  split
  · exact Mono.refl st
  · split <;> exact writeAllSubPaths_mono st p


theorem mkdirat_ok_stat (st st' : FS) (p : Bytes) (h : mkdirat st p = (st', .ok ())) : stat st' p = .ok .dir := by
  unfold mkdirat at h
  cases hpp : parsePath st p with
  | error e => rw [hpp] at h; simp at h
  | ok lt =>
    obtain ⟨loc, tr⟩ := lt
    rw [hpp] at h
    simp only at h
    cases hw : walk st.root loc with
    | err e => rw [hw] at h; simp at h
    | found n => rw [hw] at h; cases n <;> simp at h
    | missing =>
      rw [hw] at h
      simp at h
      subst h
      obtain ⟨hnone, hpar, hne⟩ := walk_missing _ _ hw
      have hnames := walk_names _ _ (Or.inr hw)
      have hg := getAt_setAt_some st.root loc (.dir []) hpar
      have hw2 := walk_of_getAt _ _ _ hg hnames
      unfold stat
      have hpc := parsePath_cwd st { root := setAt st.root loc (some (Node.dir [])), cwd := st.cwd } p rfl
      rw [hpc, hpp]
      simp only [hw2]

/-- a location that resolves has only directories above it -/
theorem ancestors_are_dirs (r : Node) (l m : List Name) (x : Node) (hm : m ≠ [])
    (h : getAt r (l ++ m) = some x) : ∃ es, getAt r l = some (.dir es) := by
  rw [getAt_append] at h
  cases hg : getAt r l with
  | none => simp [hg] at h
  | some n =>
    cases m with
    | nil => exact absurd rfl hm
    | cons c m' =>
      cases n with
      | dir es => exact ⟨es, rfl⟩
      | file b => simp [hg, getAt] at h
      | symlink t => simp [hg, getAt] at h
      | fifo => simp [hg, getAt] at h

theorem stat_dir (st : FS) (p : Bytes) (h : stat st p = .ok .dir) :
    ∃ loc tr es, parsePath st p = .ok (loc, tr) ∧ getAt st.root loc = some (.dir es) := by
  unfold stat at h
  cases hpp : parsePath st p with
  | error e => rw [hpp] at h; simp at h
  | ok lt =>
    obtain ⟨loc, tr⟩ := lt
    rw [hpp] at h
    simp only at h
    cases hw : walk st.root loc with
    | err e => rw [hw] at h; simp at h
    | missing => rw [hw] at h; simp at h
    | found n =>
      rw [hw] at h
      have := walk_found _ _ _ hw
      cases n with
      | dir es => exact ⟨loc, tr, es, rfl, this.1⟩
      | file b => cases tr <;> simp [Node.kind] at h
      | symlink t => simp at h
      | fifo => cases tr <;> simp [Node.kind] at h

theorem createDirAll_isDir_noTrailing (st st' : FS) (p : Bytes)
    (h : createDirAll st p = (st', .ok ())) (hl : p.getLast? ≠ some SLASH) : stat st' p = .ok .dir := by
  have hw : writeAllSubPaths st p = (st', .ok ()) := by
    unfold createDirAll at h
    split at h
    · simp at h
    · split at h <;> exact h
  unfold writeAllSubPaths at hw
  cases hd : scanDown st p (p.length - 1) with
  | mk st1 r1 =>
    rw [hd] at hw
    cases r1 with
    | error e => simp at hw
    | ok ie =>
      obtain ⟨ind, ex⟩ := ie
      simp only at hw
      cases hu : scanUp st1 (p.take (ind + 1)) ex (p.drop (ind + 1)) with
      | mk st2 r2 =>
        rw [hu] at hw
        cases r2 with
        | error e => simp at hw
        | ok ex2 =>
          simp only [hl, if_false] at hw
          cases hm : mkdirOrExists st2 p with
          | mk st3 r3 =>
            rw [hm] at hw
            cases r3 with
            | error e => simp at hw
            | ok ex3 =>
              cases ex3 with
              | true =>
                simp only at hw
                cases hs : stat st3 p with
                | error e => rw [hs] at hw; simp at hw
                | ok k =>
                  rw [hs] at hw
                  cases k <;> simp at hw
                  subst hw; exact hs
              | false =>
                simp at hw
                subst hw
                unfold mkdirOrExists at hm
                cases hmk : mkdirat st2 p with
                | mk st4 r4 =>
                  rw [hmk] at hm
                  cases r4 with
                  | ok u =>
                    simp at hm
                    subst hm
                    exact mkdirat_ok_stat _ _ _ hmk
                  | error e =>
                    simp only at hm
                    split at hm <;> simp at hm


theorem takeWhile_name (name tail : Bytes) (pad : Nat) (hz : ∀ b ∈ name, b ≠ 0) (hp : 0 < pad) :
    (name ++ (List.replicate pad 0 ++ tail)).takeWhile (fun b => decide (b ≠ 0)) = name := by
  induction name with
  | nil =>
    cases pad with
    | zero => omega
    | succ n => simp [List.replicate, List.takeWhile]
  | cons a l ih =>
    have ha : a ≠ 0 := hz a (by simp)
    simp only [List.cons_append, List.takeWhile, ne_eq, ha, not_false_eq_true, decide_true]
    rw [ih (fun b hb => hz b (by simp [hb]))]

theorem reclen_bounds (r : Rec) (hv : r.name.length ≤ 255) :
    20 + r.name.length ≤ reclen r ∧ reclen r ≤ 280 ∧ reclen r % 8 = 0 := by
  unfold reclen; omega

/-- one `linux_dirent64` record is parsed back to exactly its length, type and name, whatever follows it -/
theorem tryFromBytes_encode (r : Rec) (tail : Bytes) (hv : r.name.length ≤ 255) (hz : ∀ b ∈ r.name, b ≠ 0) :
    tryFromBytes (encode r ++ tail) = .some ⟨reclen r, r.dtype, r.name⟩ := by
  obtain ⟨h1, h2, _⟩ := reclen_bounds r hv
  unfold tryFromBytes encode le8
  simp only [List.cons_append, List.nil_append, List.append_assoc, List.length_cons, List.drop_succ_cons, List.drop_zero]
  have hlen : ¬ (List.length (r.name ++ (List.replicate (reclen r - 19 - r.name.length) 0 ++ tail)) + 1 + 1 + 1 + 1 + 1 + 1 + 1 + 1 + 1 + 1 + 1 + 1 + 1 + 1 + 1 + 1 + 1 + 1 + 1 < 18) := by omega
  simp only [hlen, if_false]
  rw [takeWhile_name r.name tail _ hz (by omega)]
  have hn : ¬ r.name.length > 256 := by omega
  simp only [hn, if_false]
  congr 2
  omega

end TinyVerif.Fs
